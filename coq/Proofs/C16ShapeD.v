(* Proofs/C16ShapeD.v -- from lexical modes to tokens: [mysql_tokens] is a grouping of the bytes
   by their modes; tokens of a raw prefix, of a placeholder and of a literal; [eat_literal]. *)
From Coq Require Import Lia ZifyBool ZifyN ZifyNat.
From GenqlV Require Import Base.Prelude Base.Fmt Model.MySqlString Model.Sanitizer Spec.C16Spec
  Proofs.C16Bytes Proofs.C16Quote Proofs.C16SimA Proofs.C16SimB Proofs.C16Pos Proofs.C16Tokens Proofs.C16Errors
  Proofs.C16ShapeA Proofs.C16ShapeB Proofs.C16ShapeC.
Local Open Scope string_scope.
Local Open Scope bool_scope.
Local Opaque code wrap64.

(* ---------------------------------------------------------------- grouping bytes by modes *)

Definition flush (cur : bytes) (tl : list bytes) : list bytes :=
  match cur with EmptyString => tl | _ => cur :: tl end.

Definition start_of (c : ascii) : bytes := if is_blank c then EmptyString else String c EmptyString.

Fixpoint tg (bs : bytes) (ls : list mode) (cur : bytes) : list bytes :=
  match bs, ls with
  | String c r, l :: ls' =>
      match l with
      | Default => flush cur (tg r ls' (start_of c))
      | _ => tg r ls' (cur ++ String c EmptyString)
      end
  | _, _ => flush cur []
  end.

(* completed tokens and the pending one *)
Fixpoint tgp (bs : bytes) (ls : list mode) (cur : bytes) : list bytes * bytes :=
  match bs, ls with
  | String c r, l :: ls' =>
      match l with
      | Default => let '(d, p) := tgp r ls' (start_of c) in (flush cur d, p)
      | _ => tgp r ls' (cur ++ String c EmptyString)
      end
  | _, _ => ([], cur)
  end.

Lemma mtokens_tg : forall s m cur, mtokens_from m s cur = tg s (mmodes m s) cur.
Proof.
  induction s as [|c r IH]; intros m cur; [reflexivity|].
  cbn [mtokens_from mmodes tg]. unfold start_of, flush.
  destruct (mlabel m c r); try apply IH.
  destruct (is_blank c); rewrite IH; reflexivity.
Qed.

Lemma mysql_tokens_tg x : mysql_tokens x = tg x (mmodes MDef x) EmptyString.
Proof. apply mtokens_tg. Qed.

Lemma flush_app cur x y : flush cur (x ++ y)%list = (flush cur x ++ y)%list.
Proof. destruct cur; reflexivity. Qed.

Lemma tg_split : forall a la b lb cur,
  List.length la = String.length a ->
  tg (a ++ b) (la ++ lb) cur = (fst (tgp a la cur) ++ tg b lb (snd (tgp a la cur)))%list.
Proof.
  induction a as [|c r IH]; intros la b lb cur Hl.
  - destruct la; [reflexivity|discriminate].
  - destruct la as [|l la']; [discriminate|]. cbn in Hl. inversion Hl as [Hl'].
    cbn [append app tg tgp]. destruct l; try (apply IH; exact Hl').
    rewrite (IH la' b lb (start_of c) Hl'). destruct (tgp r la' (start_of c)) as [d p]. cbn [fst snd].
    apply flush_app.
Qed.

(* from a token boundary the pending token is flushed *)
Lemma tg_def x p : tg x (mmodes MDef x) p = flush p (mysql_tokens x).
Proof.
  rewrite mysql_tokens_tg. destruct x as [|c r]; [destruct p; reflexivity|].
  cbn [mmodes tg]. rewrite mlabel_def. reflexivity.
Qed.

Lemma tg_repeat : forall w x inner L cur,
  is_default inner = false ->
  tg (w ++ x) (repeat_mode inner (String.length w) ++ L) cur = tg x L (cur ++ w).
Proof.
  induction w as [|c r IH]; intros x inner L cur Hi.
  - cbn. now rewrite app_nil_r_s.
  - cbn [append String.length repeat_mode app tg]. destruct inner; try discriminate;
    rewrite IH by assumption; rewrite app_assoc_s; reflexivity.
Qed.

(* ---------------------------------------------------------------- tokens of a placeholder, of a literal *)

Lemma ph_tokens ds t' p :
  tg (String "$" (ds ++ t')) ((Default :: repeat_mode InWord (String.length ds)) ++ mmodes MDef t') p =
  flush p (String "$" ds :: mysql_tokens t').
Proof.
  cbn [app tg]. change (start_of "$") with "$". f_equal.
  rewrite tg_repeat by reflexivity. rewrite tg_def. reflexivity.
Qed.

Definition lit_tokens (txt : bytes) : list bytes :=
  match txt with
  | EmptyString => []
  | String c r => if is c "-" then (match r with EmptyString => ["-"] | _ => ["-"; r] end) else [txt]
  end.

Lemma lit_tokens_tg txt inner x p :
  is_default inner = false -> lit_start (txt ++ x) = true -> txt <> EmptyString ->
  tg (txt ++ x) (lit_modes inner txt ++ mmodes MDef x) p = flush p (lit_tokens txt ++ mysql_tokens x).
Proof.
  intros Hi Hs Hne. destruct txt as [|c r]; [congruence|].
  cbn [append lit_start] in Hs. cbn [lit_modes lit_tokens]. destruct (is c "-") eqn:Hm.
  - apply is_true_iff in Hm. subst c.
    destruct r as [|g r'].
    + cbn [append app tg]. change (start_of "-") with "-". f_equal. rewrite tg_def. reflexivity.
    + cbn [append nxt_sat] in Hs.
      assert (Hg : is_digit g = true).
      { change (is "-" c_sq) with false in Hs. change (is_digit "-") with false in Hs.
        change (is "-" "-") with true in Hs. change (is "-" "n") with false in Hs.
        change (is "-" "t") with false in Hs. change (is "-" "f") with false in Hs.
        cbn [orb andb] in Hs. now rewrite !orb_false_r in Hs. }
      cbn [append app tg]. change (start_of "-") with "-". f_equal. cbn [flush]. f_equal.
      assert (start_of g = String g EmptyString) as -> by (unfold start_of; assert (is_blank g = false) as -> by arith; reflexivity).
      rewrite tg_repeat by assumption. rewrite tg_def. reflexivity.
  - assert (Hb : is_blank c = false) by arith.
    cbn [append app tg]. unfold start_of. rewrite Hb. f_equal.
    rewrite tg_repeat by assumption. rewrite tg_def. reflexivity.
Qed.

(* ---------------------------------------------------------------- no token of a raw part is a placeholder token *)

Definition nonph (tk : bytes) : Prop := ph_token tk = None.

Definition cur_inv (cur R : bytes) : Prop :=
  match cur with
  | EmptyString => True
  | String c0 EmptyString => is c0 "$" = false \/ nxt_sat R is_digit = false
  | String c0 (String g _) => is c0 "$" = false \/ is_digit g = false
  end.

Lemma cur_inv_nonph cur R : cur_inv cur R -> nonph cur.
Proof.
  unfold nonph. destruct cur as [|c0 [|g r]]; cbn [cur_inv ph_token]; [reflexivity| |].
  - intros _. destruct (is c0 "$"); reflexivity.
  - intros [H|H]; [now rewrite H|]. cbn [all_digits]. rewrite H. now rewrite andb_false_r.
Qed.

Lemma flush_nonph cur R d : cur_inv cur R -> Forall nonph d -> Forall nonph (flush cur d).
Proof. intros Hc Hd. destruct cur; [exact Hd|]. constructor; [eapply cur_inv_nonph; exact Hc|exact Hd]. Qed.

(* states the machine can be in: a skipped byte is never labelled Default and skips do not nest *)
Definition okst (m : mstate) : bool :=
  match m with
  | MSkip Default _ => false
  | MSkip _ (MSkip _ _) => false
  | _ => true
  end.

Lemma okst_step m c R : okst m = true -> okst (mstep m c R) = true.
Proof.
  intro H. unfold mstep.
  destruct m; cbn [mcont]; try discriminate;
  try (unfold step_def; repeat match goal with |- context [if ?b then _ else _] => destruct b end; reflexivity);
  try (repeat match goal with |- context [if ?b then _ else _] => destruct b end;
       try reflexivity; unfold step_def; repeat match goal with |- context [if ?b then _ else _] => destruct b end; reflexivity).
  all: try (destruct R; repeat match goal with |- context [if ?b then _ else _] => destruct b end; reflexivity).
  all: try (destruct lbl; try discriminate H; destruct m; try discriminate H; reflexivity).
Qed.

Lemma tgp_noph : forall r m la cur,
  noph_la m r la = true -> cur_inv cur (r ++ la) -> (cur = EmptyString -> m = MDef) -> okst m = true ->
  Forall nonph (fst (tgp r (mmodes_la m r la) cur)) /\ cur_inv (snd (tgp r (mmodes_la m r la) cur)) la.
Proof.
  induction r as [|c r IH]; intros m la cur Hn Hc Hm Hok.
  - cbn. split; [constructor|exact Hc].
  - cbn [noph_la] in Hn. apply andb_prop in Hn. destruct Hn as [Hn1 Hn].
    cbn [mmodes_la tgp]. cbn [append] in Hc.
    destruct (mlabel m c (r ++ la)) eqn:Hl.
    + (* Default: the pending token is complete, a new one may start *)
      cbn [is_default andb] in Hn1.
      assert (Hph : ph_here c (r ++ la) = false) by (destruct (ph_here c (r ++ la)); [discriminate|reflexivity]).
      assert (Hc0 : cur_inv (start_of c) (r ++ la)).
      { unfold start_of. destruct (is_blank c); [exact I|]. cbn [cur_inv]. unfold ph_here in Hph.
        destruct (is c "$"); [right; exact Hph|left; reflexivity]. }
      assert (Hm0 : start_of c = EmptyString -> mstep m c (r ++ la) = MDef).
      { unfold start_of. destruct (is_blank c) eqn:Hb; [|discriminate]. intros _.
        unfold mlabel in Hl. unfold mstep. destruct (mcont m c (r ++ la)).
        { destruct m; try discriminate Hl. cbn in Hl. subst lbl. discriminate Hok. }
        unfold step_def. now rewrite Hb. }
      destruct (IH _ la _ Hn Hc0 Hm0 (okst_step _ _ _ Hok)) as [Hd Hp].
      destruct (tgp r (mmodes_la (mstep m c (r ++ la)) r la) (start_of c)) as [d p]. cbn [fst snd] in *.
      split; [eapply flush_nonph; eassumption|exact Hp].
    + (* InWord ... : the byte joins the pending token *)
      assert (Hne : cur <> EmptyString) by (intro E; rewrite (Hm E), mlabel_def in Hl; discriminate).
      apply IH; [exact Hn| |intro E; destruct cur; discriminate|apply okst_step; exact Hok].
      destruct cur as [|c0 [|g r0]]; [congruence| |]; cbn [append cur_inv] in *; exact Hc.
    + assert (Hne : cur <> EmptyString) by (intro E; rewrite (Hm E), mlabel_def in Hl; discriminate).
      apply IH; [exact Hn| |intro E; destruct cur; discriminate|apply okst_step; exact Hok].
      destruct cur as [|c0 [|g r0]]; [congruence| |]; cbn [append cur_inv] in *; exact Hc.
    + assert (Hne : cur <> EmptyString) by (intro E; rewrite (Hm E), mlabel_def in Hl; discriminate).
      apply IH; [exact Hn| |intro E; destruct cur; discriminate|apply okst_step; exact Hok].
      destruct cur as [|c0 [|g r0]]; [congruence| |]; cbn [append cur_inv] in *; exact Hc.
    + assert (Hne : cur <> EmptyString) by (intro E; rewrite (Hm E), mlabel_def in Hl; discriminate).
      apply IH; [exact Hn| |intro E; destruct cur; discriminate|apply okst_step; exact Hok].
      destruct cur as [|c0 [|g r0]]; [congruence| |]; cbn [append cur_inv] in *; exact Hc.
    + assert (Hne : cur <> EmptyString) by (intro E; rewrite (Hm E), mlabel_def in Hl; discriminate).
      apply IH; [exact Hn| |intro E; destruct cur; discriminate|apply okst_step; exact Hok].
      destruct cur as [|c0 [|g r0]]; [congruence| |]; cbn [append cur_inv] in *; exact Hc.
Qed.

(* ---------------------------------------------------------------- the number of a placeholder token *)

Lemma digit_val_range c : is_digit c = true -> (0 <= digit_val c <= 9)%Z.
Proof. intro H. unfold digit_val. unfold is_digit, in_range in H. lia. Qed.

Lemma accw_dec : forall ds n k,
  all_digits ds = true -> (String.length ds <= k)%nat -> (0 <= n)%Z -> ((n + 1) * 10 ^ Z.of_nat k <= 10 ^ 18)%Z ->
  accw n ds = dec_value ds n /\ (0 <= dec_value ds n < 10 ^ 18)%Z.
Proof.
  induction ds as [|c r IH]; intros n k Hd Hk Hn Hb.
  - cbn [accw dec_value]. split; [reflexivity|]. assert (0 < 10 ^ Z.of_nat k)%Z by (apply Z.pow_pos_nonneg; lia). nia.
  - cbn [all_digits] in Hd. apply andb_prop in Hd. destruct Hd as [Hc Hr].
    destruct k as [|k]; [cbn in Hk; lia|].
    pose proof (digit_val_range c Hc) as Hv.
    assert (Hpow : (10 ^ Z.of_nat (S k) = 10 * 10 ^ Z.of_nat k)%Z) by (rewrite Nat2Z.inj_succ, Z.pow_succ_r; lia).
    assert (Hp1 : (0 < 10 ^ Z.of_nat k)%Z) by (apply Z.pow_pos_nonneg; lia).
    assert (Hsmall : (0 <= n * 10 + digit_val c < 10 ^ 18)%Z) by (rewrite Hpow in Hb; nia).
    cbn [accw dec_value]. rewrite wrap64_id by (change (10 ^ 18)%Z with 1000000000000000000%Z in Hsmall; lia).
    fold (digit_val c).
    apply (IH _ k); [exact Hr|cbn in Hk; lia|lia|rewrite Hpow in Hb; nia].
Qed.

Lemma ph_token_dollar ds : all_digits ds = true -> ds <> EmptyString ->
  ph_token (String "$" ds) = Some (dec_value ds 0%Z).
Proof.
  intros Hd Hne. cbn [ph_token]. change (is "$" "$") with true. rewrite Hd.
  destruct ds; [congruence|reflexivity].
Qed.

(* ---------------------------------------------------------------- eat_literal *)

Definition sarg_of (a : arg) : sarg :=
  match a with
  | ANull | AOther => SNull
  | AInt z => SInt z
  | ABool b => SBool b
  | AStr s => SStr s
  | AFloat f =>
      match fmt_f f with
      | Ok (String c r) => if is c "-" then SFloatText true r else SFloatText false (String c r)
      | _ => SFloatText false EmptyString
      end
  end.

Lemma eqb_refl_s (s : string) : String.eqb s s = true.
Proof. apply String.eqb_refl. Qed.

Lemma eat_lit a txt rest :
  fmt_arg a = Ok txt -> eat_literal (sarg_of a) (lit_tokens txt ++ rest)%list = Some rest.
Proof.
  intro H. destruct a; cbn [fmt_arg sarg_of] in *.
  - inversion H. reflexivity.
  - inversion H; subst txt. destruct z as [|p|p]; cbn [Z_to_dec].
    + reflexivity.
    + destruct (N_to_dec_digits (Npos p)) as [H1 H2].
      pose proof (digit_first_not_minus _ H1 H2) as Hm.
      destruct (N_to_dec (Npos p)) as [|c r] eqn:E; [contradiction|].
      cbn [lit_tokens]. rewrite Hm. cbn [app eat_literal]. change (Z.pos p <? 0)%Z with false. cbn iota.
      cbn [Z_to_dec]. rewrite E, !eqb_refl_s. reflexivity.
    + destruct (N_to_dec_digits (Npos p)) as [H1 H2].
      cbn [lit_tokens]. change (is "-" "-") with true. cbn iota.
      destruct (N_to_dec (Npos p)) as [|c r] eqn:E; [congruence|].
      cbn [app eat_literal]. change (Z.neg p <? 0)%Z with true. cbn iota.
      change (- Z.neg p)%Z with (Z.pos p). cbn [Z_to_dec]. rewrite E, !eqb_refl_s. reflexivity.
  - rewrite H. pose proof (float_text_is_number _ _ H) as Hn.
    destruct txt as [|c r]; [discriminate|]. cbn [num_text] in Hn. cbn [lit_tokens].
    destruct (is c "-") eqn:Hm.
    + destruct r as [|g r']; [discriminate|]. cbn [app eat_literal].
      apply is_true_iff in Hm. subst c. change (String.eqb "-" "-") with true. rewrite !eqb_refl_s, Hn. reflexivity.
    + cbn [app eat_literal]. rewrite !eqb_refl_s, Hn. reflexivity.
  - inversion H. destruct b; reflexivity.
  - inversion H; subst txt. rewrite quote_string_esc. cbn [lit_tokens]. change (is c_sq "-") with false. cbn iota.
    cbn [app eat_literal]. rewrite <- quote_string_esc.
    pose proof (string_roundtrip s EmptyString eq_refl) as Hrt. rewrite app_nil_r_s in Hrt. rewrite Hrt.
    now rewrite eqb_refl_s.
  - discriminate.
Qed.

(* ---------------------------------------------------------------- shape_walk *)

Lemma shape_walk_prefix sargs : forall pre A B,
  Forall nonph pre -> shape_walk (pre ++ A)%list (pre ++ B)%list sargs = shape_walk A B sargs.
Proof.
  induction pre as [|tk pre IH]; intros A B H; [reflexivity|].
  inversion H as [|? ? Htk Hpre]; subst. cbn [app shape_walk]. unfold nonph in Htk. rewrite Htk.
  rewrite eqb_refl_s. cbn [andb]. now apply IH.
Qed.

Lemma shape_walk_refl sargs T : Forall nonph T -> shape_walk T T sargs = true.
Proof.
  intro H. rewrite <- (app_nil_r T). rewrite shape_walk_prefix by assumption. reflexivity.
Qed.

Lemma flush_as_app p X : flush p X = (flush p [] ++ X)%list.
Proof. destruct p; reflexivity. Qed.
