(* Proofs/C19Lemmas.v — property C19, part 1: a failing call can never turn into a different
   successful result.

   The engine model (Model/Eval.v, Model/Exec.v) is a pure evaluator parameterised by the
   function-call hook.  We compare two runs of the SAME query on the SAME document under two hooks
   [call] (fault-free) and [call'] (faulty) that are related pointwise by

       R x y  :=  y = x  \/  y = Err  \/  (ap = true /\ y = Panic)

   ("the faulty hook either answers what the fault-free hook answers, or fails"; [ap] says whether
   the faulty function may also panic).  R is a logical relation: it is preserved by [bind],
   [mapM], [catch_panic] and therefore by every stage of the pipeline, by induction over
   expressions, clause lists, row lists and the fuel of the interpreter.  Consequence: the faulty
   run of the whole query either equals the fault-free run or is an error — it is never a
   different [Ok] (no shortened, NULL-patched or otherwise altered result), and it is [OutOfModel]
   only if the fault-free run is. *)
From Coq Require Import Floats.
From GenqlV Require Import Base.Prelude Base.Value Model.Ast Model.Eval Model.Exec Model.Join
                           Model.Faults.
Local Open Scope list_scope.

(* ------------------------------------------------------------------ *)
(* induction principle for the nested expression type                   *)
(* ------------------------------------------------------------------ *)

Section ExprInd.
  Variable Q : Type.
  Variable P : expr Q -> Prop.

  Definition c19_opt_P (o : option (expr Q)) : Prop := match o with Some x => P x | None => True end.

  Hypothesis HCol : forall p, P (ECol p).
  Hypothesis HNum : forall f, P (ENum f).
  Hypothesis HStr : forall s, P (EStr s).
  Hypothesis HBool : forall b, P (EBool b).
  Hypothesis HNull : P ENull.
  Hypothesis HAnd : forall a b, P a -> P b -> P (EAnd a b).
  Hypothesis HOr : forall a b, P a -> P b -> P (EOr a b).
  Hypothesis HNot : forall a, P a -> P (ENot a).
  Hypothesis HCmp : forall op a b, P a -> P b -> P (ECmp op a b).
  Hypothesis HLike : forall n a b, P a -> P b -> P (ELike n a b).
  Hypothesis HIn : forall n a items, P a -> Forall P items -> P (EIn n a items).
  Hypothesis HInSub : forall n a q, P a -> P (EInSub n a q).
  Hypothesis HBetween : forall n a lo hi, P a -> P lo -> P hi -> P (EBetween n a lo hi).
  Hypothesis HIs : forall op a, P a -> P (EIs op a).
  Hypothesis HBin : forall op a b, P a -> P b -> P (EBin op a b).
  Hypothesis HUn : forall op a, P a -> P (EUn op a).
  Hypothesis HCase : forall whens els,
    Forall (fun cv => P (fst cv) /\ P (snd cv)) whens -> c19_opt_P els -> P (ECase whens els).
  Hypothesis HSub : forall q, P (ESub q).
  Hypothesis HExists : forall q, P (EExists q).
  Hypothesis HAgg : forall f a, P (EAgg f a).
  Hypothesis HCall : forall q n args, Forall P args -> P (ECall q n args).
  Hypothesis HTuple : forall items, Forall P items -> P (ETuple items).

  Fixpoint c19_expr_ind (e : expr Q) : P e :=
    let all := fix go (l : list (expr Q)) : Forall P l :=
                 match l with [] => Forall_nil _ | x :: r => Forall_cons x (c19_expr_ind x) (go r) end in
    match e with
    | ECol p => HCol p
    | ENum f => HNum f
    | EStr s => HStr s
    | EBool b => HBool b
    | ENull => HNull
    | EAnd a b => HAnd a b (c19_expr_ind a) (c19_expr_ind b)
    | EOr a b => HOr a b (c19_expr_ind a) (c19_expr_ind b)
    | ENot a => HNot a (c19_expr_ind a)
    | ECmp op a b => HCmp op a b (c19_expr_ind a) (c19_expr_ind b)
    | ELike n a b => HLike n a b (c19_expr_ind a) (c19_expr_ind b)
    | EIn n a l => HIn n a l (c19_expr_ind a) (all l)
    | EInSub n a q => HInSub n a q (c19_expr_ind a)
    | EBetween n a lo hi => HBetween n a lo hi (c19_expr_ind a) (c19_expr_ind lo) (c19_expr_ind hi)
    | EIs op a => HIs op a (c19_expr_ind a)
    | EBin op a b => HBin op a b (c19_expr_ind a) (c19_expr_ind b)
    | EUn op a => HUn op a (c19_expr_ind a)
    | ECase whens els =>
        HCase whens els
          ((fix go (l : list (expr Q * expr Q)) : Forall (fun cv => P (fst cv) /\ P (snd cv)) l :=
              match l with
              | [] => Forall_nil _
              | (c, v) :: r => Forall_cons (c, v) (conj (c19_expr_ind c) (c19_expr_ind v)) (go r)
              end) whens)
          (match els as o return c19_opt_P o with
           | Some y => c19_expr_ind y
           | None => I
           end)
    | ESub q => HSub q
    | EExists q => HExists q
    | EAgg f a => HAgg f a
    | ECall q n a => HCall q n a (all a)
    | ETuple l => HTuple l (all l)
    end.
End ExprInd.
Arguments c19_expr_ind {Q}.

(* ------------------------------------------------------------------ *)
(* the relation                                                         *)
(* ------------------------------------------------------------------ *)

Section Rel.
  Variable ap : bool.       (* may the faulty hook panic as well? *)

  Definition fails {A} (y : res A) : Prop := y = Err \/ (ap = true /\ y = Panic).
  Definition R {A} (x y : res A) : Prop := y = x \/ fails y.
  (* the relation after a recovering frame: only [Err] remains *)
  Definition Rs {A} (x y : res A) : Prop := y = x \/ y = Err.

  Lemma R_refl : forall A (x : res A), R x x.
  Proof. intros; left; reflexivity. Qed.

  Lemma fails_R : forall A (x y : res A), fails y -> R x y.
  Proof. intros; right; assumption. Qed.

  Lemma Rs_R : forall A (x y : res A), Rs x y -> R x y.
  Proof. intros A x y [H|H]; [left|right; left]; assumption. Qed.

  Lemma fails_bind : forall A B (y : res A) (g : A -> res B), fails y -> fails (bind y g).
  Proof. intros A B y g [H|[H1 H2]]; subst y; [left|right; split]; auto. Qed.

  Lemma R_bind : forall A B (x y : res A) (f g : A -> res B),
    R x y -> (forall a, R (f a) (g a)) -> R (bind x f) (bind y g).
  Proof.
    intros A B x y f g [H|H] Hk.
    - subst y. destruct x; cbn; try apply R_refl. apply Hk.
    - right. apply fails_bind, H.
  Qed.

  Lemma R_mapM : forall A B (f g : A -> res B) (l : list A),
    (forall a, R (f a) (g a)) -> R (mapM f l) (mapM g l).
  Proof.
    intros A B f g l H. induction l as [|a l IH]; cbn [mapM]; [apply R_refl|].
    apply R_bind; [apply H|]. intro b. apply R_bind; [apply IH|]. intro; apply R_refl.
  Qed.

  (* a recovering frame turns the relation into the strict one *)
  Lemma R_catch : forall A (x y : res A), R x y -> Rs (catch_panic x) (catch_panic y).
  Proof.
    intros A x y [H|[H|[_ H]]]; subst y; [left; reflexivity|right; reflexivity|right; reflexivity].
  Qed.

  Lemma Rs_bind : forall A B (x y : res A) (f : A -> res B), Rs x y -> Rs (bind x f) (bind y f).
  Proof. intros A B x y f [H|H]; subst y; [left|right]; reflexivity. Qed.

  (* one step of the routine part of every proof below *)
  Ltac rstep :=
    match goal with
    | |- R ?x ?x => apply R_refl
    | |- R (bind _ _) (bind _ _) => apply R_bind; [|intros ?]
    | |- R (mapM _ _) (mapM _ _) => apply R_mapM; intros ?
    | |- R (match ?v with _ => _ end) (match ?v with _ => _ end) => destruct v
    | |- R (if ?v then _ else _) (if ?v then _ else _) => destruct v
    | H : _ |- _ => solve [apply H]
    end.

  (* ---------------------------------------------------------------- *)
  (* expressions                                                        *)
  (* ---------------------------------------------------------------- *)

  Section EvalRel.
    Variable Q : Type.

    (* two evaluation environments that differ only in hooks related by R *)
    Record env_rel (E E' : env Q) : Prop := {
      er_data : e_data E' = e_data E;
      er_hard : e_hard E' = e_hard E;
      er_sub : forall q c, R (e_sub E q c) (e_sub E' q c);
      er_exists : forall q c, R (e_exists E q c) (e_exists E' q c);
      er_agg : forall f a c, R (e_agg E f a c) (e_agg E' f a c);
      er_call : forall q n a c, R (e_call E q n a c) (e_call E' q n a c)
    }.

    Lemma eval_R : forall (E E' : env Q), env_rel E E' ->
      forall e cur, R (eval E cur e) (eval E' cur e).
    Proof.
      intros E E' [Hd Hh Hs Hx Ha Hc].
      destruct E as [d s x a c h], E' as [d' s' x' a' c' h']. cbn in Hd, Hh, Hs, Hx, Ha, Hc. subst d' h'.
      induction e as [p|f|str|b| |ea eb IHa IHb|ea eb IHa IHb|ea IHa|op ea eb IHa IHb|n ea eb IHa IHb
                     |n ea items IHa IHitems|n ea q IHa|n ea lo hi IHa IHlo IHhi|op ea IHa|op ea eb IHa IHb
                     |op ea IHa|whens els IHw IHe|q|q|f arg|qual name args IHargs|titems IHtitems] using c19_expr_ind;
        intro cur; cbn [eval col_path e_data e_hard e_sub e_exists e_agg e_call].
      - apply R_refl.
      - apply R_refl.
      - apply R_refl.
      - apply R_refl.
      - apply R_refl.
      - repeat rstep.
      - repeat rstep.
      - repeat rstep.
      - repeat rstep.
      - repeat rstep.
      - (* EIn *)
        apply R_bind; [apply IHa|]. intro l. apply R_bind; [apply R_refl|]. intro lv.
        apply R_bind; [|intro; apply R_refl].
        induction IHitems as [|y r Hy _ IHr]; [apply R_refl|].
        apply R_bind; [apply Hy|]. intro y0. apply R_bind; [apply R_refl|]. intro y1.
        apply R_bind; [apply IHr|]. intro; apply R_refl.
      - (* EInSub *)
        apply R_bind; [apply IHa|]. intro l. apply R_bind; [apply R_refl|]. intro lv.
        apply R_bind; [apply Hs|]. intro; apply R_refl.
      - repeat rstep.
      - repeat rstep.
      - (* EBin *)
        apply R_bind; [apply IHa|]. intro r1. apply R_bind; [apply R_refl|]. intro v1.
        destruct v1; try apply R_refl.
        apply R_bind; [apply R_refl|]. intro f1.
        apply R_bind; [apply IHb|]. intro r2. apply R_refl.
      - repeat rstep.
      - (* ECase *)
        induction IHw as [|[cnd v] r [Hc1 Hv1] _ IHr].
        + destruct els as [x0|]; [apply IHe|apply R_refl].
        + apply R_bind; [apply Hc1|]. intro rc.
          destruct rc as [[| [|] | | | |]| | | | |]; try apply R_refl; [apply Hv1|apply IHr].
      - (* ESub *) apply R_bind; [apply Hs|]. intro; apply R_refl.
      - (* EExists *) apply R_bind; [apply Hx|]. intro; apply R_refl.
      - (* EAgg *) apply Ha.
      - (* ECall *)
        apply R_bind; [|intro; apply Hc].
        induction IHargs as [|y r Hy _ IHr]; [apply R_refl|].
        apply R_bind; [apply Hy|]. intro y0. apply R_bind; [apply R_refl|]. intro v0.
        apply R_bind; [apply IHr|]. intro; apply R_refl.
      - (* ETuple *)
        apply R_bind; [|intro; apply R_refl].
        induction IHtitems as [|y r Hy _ IHr]; [apply R_refl|].
        destruct (slot_form y); [apply R_refl|].
        apply R_bind; [apply Hy|]. intro y0. apply R_bind; [apply R_refl|]. intro y1.
        apply R_bind; [apply IHr|]. intro; apply R_refl.
    Qed.

    Lemma eval_cond_R : forall (E E' : env Q), env_rel E E' ->
      forall cur c, R (eval_cond E cur c) (eval_cond E' cur c).
    Proof.
      intros E E' HE cur [e|]; cbn [eval_cond]; [|apply R_refl].
      apply R_bind; [apply eval_R, HE|]. intro; apply R_refl.
    Qed.

    Lemma select_expr_R : forall (E E' : env Q), env_rel E E' ->
      forall items cur acc, R (select_expr E cur items acc) (select_expr E' cur items acc).
    Proof.
      intros E E' HE. induction items as [|[|e name] r IH]; intros cur acc; cbn [select_expr].
      - apply R_refl.
      - apply IH.
      - apply R_bind; [apply eval_R, HE|]. intro x.
        destruct x; try (apply R_bind; [apply R_refl|intro; apply IH]). apply IH.
    Qed.
  End EvalRel.

  (* ---------------------------------------------------------------- *)
  (* the pipeline                                                       *)
  (* ---------------------------------------------------------------- *)

  Definition join_fn := jointype -> jstrategy -> list value -> list value -> string -> string ->
                        expr stmt -> row -> res (list value).
  Definition call_fn := string -> string -> list value -> row -> res raw.

  Definition call_rel (call call' : call_fn) : Prop :=
    forall q n a c, R (call q n a c) (call' q n a c).
  Definition join_rel (join join' : join_fn) : Prop :=
    forall jt st l r li ri on d, R (join jt st l r li ri on d) (join' jt st l r li ri on d).

  Section StepRel.
    Variables rec rec' : qctx -> job -> res value.
    Variables call call' : call_fn.
    Variables join join' : join_fn.
    Hypothesis Hrec : forall ctx j, R (rec ctx j) (rec' ctx j).
    Hypothesis Hcall : call_rel call call'.
    Hypothesis Hjoin : join_rel join join'.

    Lemma build_from_R : forall f ctx, R (build_from rec join ctx f) (build_from rec' join' ctx f).
    Proof.
      induction f as [|path alias|fn path alias|sl alias|q alias|jt st l IHl r IHr on]; intro ctx; cbn [build_from].
      - apply R_refl.
      - destruct path as [|k rest]; [apply R_refl|].
        destruct (cte_lookup k (c_ctes ctx)) as [body|].
        + destruct (existsb (String.eqb k) (c_busy ctx)); [apply R_refl|].
          apply R_bind; [apply Hrec|]. intro; apply R_refl.
        + destruct (up_read ctx (k :: rest)) as [h|]; [|apply R_refl].
          destruct (existsb (String.eqb (uh_name h)) (fr_busy (uh_frame h))); [apply R_refl|].
          apply R_bind; [apply Hrec|]. intro; apply R_refl.
      - destruct (up_read ctx path); apply R_refl.
      - apply R_refl.
      - apply R_bind; [apply Hrec|]. intro; apply R_refl.
      - apply R_bind; [apply IHl|]. intro lf. apply R_bind; [apply IHr|]. intro rf.
        destruct lf as [lrows|]; [|apply R_refl]. destruct rf as [rrows|]; [|apply R_refl].
        apply R_bind; [apply Hjoin|]. intro; apply R_refl.
    Qed.

    Lemma mk_env_R : forall ctx s filtered,
      env_rel stmt (mk_env rec call join ctx s filtered) (mk_env rec' call' join' ctx s filtered).
    Proof.
      intros ctx s filtered. constructor; cbn [mk_env e_data e_hard e_sub e_exists e_agg e_call].
      - reflexivity.
      - reflexivity.
      - intros q c. apply Hrec.
      - intros q c. destruct q as [s'|]; [|apply R_refl].
        apply R_bind; [apply build_from_R|]. intro src.
        destruct src as [rows|]; [|apply R_refl].
        apply R_bind; [apply R_refl|]. intro merged.
        apply R_bind; [apply Hrec|]. intro; apply R_refl.
      - intros f a c. apply R_refl.
      - intros q n a c. apply Hcall.
    Qed.

    Lemma exec_select_R : forall E E', env_rel stmt E E' ->
      forall s rows, R (exec_select E s rows) (exec_select E' s rows).
    Proof.
      intros E E' HE s rows. unfold exec_select.
      destruct ((match s_group s with [] => true | _ => false end) && all_aggregate (s_items s)).
      - apply R_bind; [apply select_expr_R, HE|]. intro; apply R_refl.
      - apply R_mapM. intro cur. destruct cur; try apply R_refl.
        apply R_bind; [apply select_expr_R, HE|]. intro; apply R_refl.
    Qed.

    Lemma filter_rows_R : forall E E', env_rel stmt E E' ->
      forall ctx s from, R (filter_rows rec ctx s E from) (filter_rows rec' ctx s E' from).
    Proof.
      intros E E' HE ctx s from. unfold filter_rows.
      induction from as [|cur r IH]; [apply R_refl|].
      destruct cur; try apply IH.
      - apply R_bind; [apply Hrec|]. intro rs. apply R_bind; [apply IH|]. intro; apply R_refl.
      - apply R_bind; [apply eval_cond_R, HE|]. intro keep. apply R_bind; [apply IH|]. intro; apply R_refl.
    Qed.

    Lemma exec_group_by_R : forall E E', env_rel stmt E E' ->
      forall s rows, R (exec_group_by E s rows) (exec_group_by E' s rows).
    Proof.
      intros E E' HE s rows. unfold exec_group_by.
      destruct (s_group s) as [|c0 cols]; [apply R_refl|].
      apply R_bind; [apply R_refl|]. intro gs.
      apply R_bind; [|intro; apply R_refl].
      induction gs as [|g r IH]; [apply R_refl|].
      apply R_bind; [apply eval_cond_R, HE|]. intro hv. apply R_bind; [apply IH|]. intro; apply R_refl.
    Qed.

    Lemma run_select_body_R : forall ctx s src,
      R (match src with
         | None =>
             let E := mk_env rec call join ctx s [] in
             let! rs := exec_select E s [VObj (c_data ctx)] in
             match rs with [] => Ok VNull | r :: _ => Ok r end
         | Some from =>
             let E0 := mk_env rec call join ctx s [] in
             let! filtered := filter_rows rec ctx s E0 from in
             let E := mk_env rec call join ctx s filtered in
             let! grouped := exec_group_by E s filtered in
             let! selected := exec_select E s grouped in
             let distinct := exec_distinct (s_distinct s) selected in
             let! ordered := exec_order_by (s_order s) distinct in
             let! win := window ordered (List.length ordered) (s_limit s) (s_offset s) in
             Ok (VArr win)
         end)
        (match src with
         | None =>
             let E := mk_env rec' call' join' ctx s [] in
             let! rs := exec_select E s [VObj (c_data ctx)] in
             match rs with [] => Ok VNull | r :: _ => Ok r end
         | Some from =>
             let E0 := mk_env rec' call' join' ctx s [] in
             let! filtered := filter_rows rec' ctx s E0 from in
             let E := mk_env rec' call' join' ctx s filtered in
             let! grouped := exec_group_by E s filtered in
             let! selected := exec_select E s grouped in
             let distinct := exec_distinct (s_distinct s) selected in
             let! ordered := exec_order_by (s_order s) distinct in
             let! win := window ordered (List.length ordered) (s_limit s) (s_offset s) in
             Ok (VArr win)
         end).
    Proof.
      intros ctx s [from|]; cbv zeta.
      - apply R_bind; [apply filter_rows_R, mk_env_R|]. intro filtered.
        apply R_bind; [apply exec_group_by_R, mk_env_R|]. intro grouped.
        apply R_bind; [apply exec_select_R, mk_env_R|]. intro selected.
        apply R_refl.
      - apply R_bind; [apply exec_select_R, mk_env_R|]. intro; apply R_refl.
    Qed.

    (* exec(): the deferred recover turns a panic of any stage into an error *)
    Lemma run_select_Rs : forall ctx s src,
      Rs (run_select rec call join ctx s src) (run_select rec' call' join' ctx s src).
    Proof. intros. unfold run_select. apply R_catch, run_select_body_R. Qed.

    Lemma exec_step_R : forall ctx j,
      R (exec_step rec call join ctx j) (exec_step rec' call' join' ctx j).
    Proof.
      intros ctx j. destruct j as [[s|all l r limit offset]|s rows]; cbn [exec_step].
      - apply R_bind; [apply build_from_R|]. intro src. apply Rs_R, run_select_Rs.
      - apply R_bind; [apply Hrec|]. intro lv. apply R_bind; [apply Hrec|]. intro rv.
        apply R_bind; [apply R_refl|]. intro la. apply R_bind; [apply R_refl|]. intro ra.
        apply Rs_R, run_select_Rs.
      - apply Rs_R, run_select_Rs.
    Qed.
  End StepRel.

  Theorem exec_R : forall (call call' : call_fn) (join join' : join_fn),
    call_rel call call' -> join_rel join join' ->
    forall fuel ctx j, R (exec call join fuel ctx j) (exec call' join' fuel ctx j).
  Proof.
    intros call call' join join' Hc Hj. induction fuel as [|n IH]; intros ctx j; cbn [exec].
    - apply R_refl.
    - apply exec_step_R; assumption.
  Qed.

  (* New + Exec: the recovering frames of the API leave only "same" or "error" *)
  Theorem api_run_Rs : forall (call call' : call_fn) (join join' : join_fn),
    call_rel call call' -> join_rel join join' ->
    forall fuel wrapped doc q,
      Rs (api_run call join fuel wrapped doc q) (api_run call' join' fuel wrapped doc q).
  Proof.
    intros call call' join join' Hc Hj fuel wrapped doc q. unfold api_run.
    apply Rs_bind, R_catch, exec_R; assumption.
  Qed.

  (* a join that evaluates its ON clause through the hook is related as well *)
  Lemma fault_join_R : forall (call call' : call_fn), call_rel call call' ->
    join_rel (fault_join call) (fault_join call').
  Proof.
    intros call call' Hc jt st l r li ri on d. unfold fault_join.
    destruct (is_straight st && negb match jt with JInner => true | _ => false end); [apply R_refl|].
    destruct (if match jt with JRight => negb (is_straight st) | _ => false end
              then (r, l, ri, li) else (l, r, li, ri)) as [[[L Rr] li'] ri'].
    apply R_bind; [apply R_refl|]. intro lcat. apply R_bind; [apply R_refl|]. intro rcat.
    apply R_bind; [|intro; apply R_refl].
    apply R_mapM. intro le.
    destruct (negb (is_straight st) && hash_join_analyze on); [apply R_refl|].
    unfold loop_match_call. destruct le as [k [lkeys lrows]].
    apply R_bind; [|intro; apply R_refl].
    apply R_mapM. intros [k' [rkeys rrows]].
    apply R_bind; [|intro; apply R_refl].
    apply eval_R. constructor; cbn; try reflexivity; intros; try apply R_refl. apply Hc.
  Qed.
End Rel.

(* ------------------------------------------------------------------ *)
(* the fault hook of Model/Faults.v is an instance                      *)
(* ------------------------------------------------------------------ *)

Definition trigger_may_panic (t : option trigger) : bool :=
  match t with Some tr => match t_kind tr with FkPanic => true | FkError => false end | None => false end.

Lemma fault_call_rel : forall t, call_rel (trigger_may_panic t) (fault_call None) (fault_call t).
Proof.
  intros t qual name args cur. unfold fault_call.
  destruct (negb (plain_qualifier qual)); [apply R_refl|].
  destruct (String.eqb name "fault"); [|apply R_refl].
  unfold fault_fn.
  assert (H : forall tag x (v : value),
             R (trigger_may_panic t) (Ok (RVal v))
               (match fires t tag x with Some k => fault_outcome k | None => Ok (RVal v) end)).
  { intros tag x v. destruct t as [tr|]; cbn [fires]; [|apply R_refl].
    destruct (veqb tag (t_tag tr) && veqb x (t_arg tr)); [|apply R_refl].
    right. unfold fails, trigger_may_panic. destruct (t_kind tr); cbn; [left|right]; auto. }
  destruct args as [|tag [|x [|ret [|? ?]]]]; try apply R_refl; cbn [fires]; apply H.
Qed.

Theorem faulty_run_Rs : forall t fuel wrapped doc q,
  faulty_run t fuel wrapped doc q = faulty_run None fuel wrapped doc q \/
  faulty_run t fuel wrapped doc q = Err.
Proof.
  intros. unfold faulty_run.
  apply (api_run_Rs (trigger_may_panic t)).
  - apply fault_call_rel.
  - apply fault_join_R, fault_call_rel.
Qed.
