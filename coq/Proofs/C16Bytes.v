(* Proofs/C16Bytes.v -- byte-level helper lemmas and tactics for the C16 proofs *)
From Coq Require Import SpecFloat Lia ZifyBool ZifyN ZifyNat.
From GenqlV Require Import Base.Prelude Model.MySqlString Model.Sanitizer.
Local Open Scope string_scope.
Local Open Scope bool_scope.

Lemma is_true_iff c k : is c k = true <-> c = k.
Proof. unfold is. apply Ascii.eqb_eq. Qed.
Lemma code_inj a b : code a = code b -> a = b.
Proof. unfold code. intro H. rewrite <- (ascii_N_embedding a), <- (ascii_N_embedding b). now rewrite H. Qed.
Lemma code_lt c : (code c < 256)%N.
Proof. apply N_ascii_bounded. Qed.
Lemma is_code' c k n : code k = n -> is c k = (code c =? n)%N.
Proof.
  intros <-. unfold is. destruct (Ascii.eqb_spec c k) as [->|Hne].
  - now rewrite N.eqb_refl.
  - symmetry. apply N.eqb_neq. intro H. apply Hne. now apply code_inj.
Qed.
Lemma is_code c d : is c d = (code c =? code d)%N.
Proof. now apply is_code'. Qed.



Lemma is_false_iff c k : is c k = false <-> c <> k.
Proof. unfold is. apply Ascii.eqb_neq. Qed.
Lemma is_refl c : is c c = true.
Proof. apply is_true_iff; reflexivity. Qed.

Lemma app_assoc_s (a b c : string) : (a ++ b) ++ c = a ++ (b ++ c).
Proof. induction a; cbn; congruence. Qed.
Lemma app_nil_r_s (a : string) : a ++ "" = a.
Proof. induction a; cbn; congruence. Qed.
Lemma length_app_s (a b : string) : String.length (a ++ b) = (String.length a + String.length b)%nat.
Proof. induction a; cbn; congruence. Qed.

Ltac norm_is :=
  repeat match goal with
  | |- context [is ?c (Ascii ?a0 ?a1 ?a2 ?a3 ?a4 ?a5 ?a6 ?a7)] =>
      let k := constr:(Ascii a0 a1 a2 a3 a4 a5 a6 a7) in
      let n := eval vm_compute in (code k) in
      rewrite (is_code' c k n ltac:(vm_compute; reflexivity))
  | H : context [is ?c (Ascii ?a0 ?a1 ?a2 ?a3 ?a4 ?a5 ?a6 ?a7)] |- _ =>
      let k := constr:(Ascii a0 a1 a2 a3 a4 a5 a6 a7) in
      let n := eval vm_compute in (code k) in
      rewrite (is_code' c k n ltac:(vm_compute; reflexivity)) in H
  end;
  repeat rewrite is_code in *.

Ltac unfold_classes :=
  unfold is_hexdigit, is_letter, is_digit, is_carat, is_bindigit, is_blank, cont_byte, in_range,
         c_nul, c_bs, c_tab, c_nl, c_cr, c_sub, c_sp, c_sq, c_dq, c_bt, c_bsl in *.

Ltac arith := unfold_classes; norm_is; lia.

Ltac split_ifs :=
  repeat match goal with
  | |- context [if ?b then _ else _] => destruct b eqn:?
  end.

