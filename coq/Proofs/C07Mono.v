(* Proofs/C07Mono.v — the fuelled interpreter is monotone in its fuel, and it looks at its context
   only through (document, CTE lookup function, in-progress test).

   The order on outcomes is  [le_res a b := a = OutOfModel \/ a = b]  ("a is undefined, or a is
   already b").  Every construction of Model/Exec.v is monotone for it in the interpreter handed in
   as [rec]: the outcome monad is strict (every non-Ok outcome is propagated unchanged, nothing
   inspects a failed recursive call), so replacing an interpreter by one that is defined more often
   can only turn OutOfModel results into something else.  Helper file of property C07. *)
From Coq Require Import Floats.
From GenqlV Require Import Base.Prelude Base.Fmt Base.Value Model.Ast Model.Like Model.Num Model.Eval Model.Exec.
Local Open Scope list_scope.

(* ================================================================== *)
(* 0. the order on outcomes                                            *)
(* ================================================================== *)

Definition le_res {A} (a b : res A) : Prop := a = OutOfModel \/ a = b.

Lemma le_res_refl {A} (a : res A) : le_res a a.
Proof. right. reflexivity. Qed.

Lemma le_res_oom {A} (b : res A) : le_res OutOfModel b.
Proof. left. reflexivity. Qed.

Lemma le_res_eq {A} (a b : res A) : a = b -> le_res a b.
Proof. intros ->. apply le_res_refl. Qed.

Lemma le_res_neq {A} (a b : res A) : le_res a b -> a <> OutOfModel -> a = b.
Proof. intros [H|H] Hn; [contradiction|exact H]. Qed.

Lemma le_res_ok {A} (a b : res A) x : le_res a b -> a = Ok x -> b = Ok x.
Proof. intros [H|H] Hx; subst; [discriminate|reflexivity]. Qed.

Lemma le_res_antisym {A} (a b : res A) : le_res a b -> le_res b a -> a = b.
Proof. intros [H1|H1] [H2|H2]; subst; auto. Qed.

Lemma le_res_trans {A} (a b c : res A) : le_res a b -> le_res b c -> le_res a c.
Proof. intros [H1|H1] H2; subst; [left; reflexivity | exact H2]. Qed.

Lemma le_res_bind {A B} (a b : res A) (f g : A -> res B) :
  le_res a b -> (forall x, le_res (f x) (g x)) -> le_res (bind a f) (bind b g).
Proof.
  intros [H|H] Hf; subst.
  - left. reflexivity.
  - destruct b; cbn [bind]; auto using le_res_refl.
Qed.

Lemma le_res_catch {A} (a b : res A) : le_res a b -> le_res (catch_panic a) (catch_panic b).
Proof. intros [H|H]; subst; [left; reflexivity | apply le_res_refl]. Qed.

Lemma le_res_mapM {X Y} (f g : X -> res Y) l :
  (forall x, le_res (f x) (g x)) -> le_res (mapM f l) (mapM g l).
Proof.
  intros H. induction l as [|a l IH]; cbn [mapM]; [apply le_res_refl|].
  apply le_res_bind; [apply H|]. intros b. apply le_res_bind; [exact IH|]. intros; apply le_res_refl.
Qed.

(* one step of the routine proofs below: peel a bind, or close by reflexivity *)
Ltac le_auto :=
  repeat first
    [ apply le_res_refl
    | assumption
    | match goal with H : forall c, le_res _ _ |- _ => apply H end
    | apply le_res_bind; [ | intros ? ]
    | apply le_res_catch
    | match goal with
      | |- le_res (match ?v with _ => _ end) (match ?v with _ => _ end) => is_var v; destruct v
      end ].

(* ================================================================== *)
(* 1. nested induction over expressions                                *)
(* ================================================================== *)

Definition opt_holds7 {X} (P : X -> Prop) (o : option X) : Prop :=
  match o with Some x => P x | None => True end.

Section ExprInd.
  Variable Q : Type.
  Variable P : expr Q -> Prop.
  Hypothesis HCol : forall p, P (ECol p).
  Hypothesis HNum : forall f, P (ENum f).
  Hypothesis HStr : forall s, P (EStr s).
  Hypothesis HBool : forall b, P (EBool b).
  Hypothesis HNull : P ENull.
  Hypothesis HAnd : forall a b, P a -> P b -> P (EAnd a b).
  Hypothesis HOr : forall a b, P a -> P b -> P (EOr a b).
  Hypothesis HNot : forall a, P a -> P (ENot a).
  Hypothesis HCmp : forall op a b, P a -> P b -> P (ECmp op a b).
  Hypothesis HLike : forall neg a b, P a -> P b -> P (ELike neg a b).
  Hypothesis HIn : forall neg a items, P a -> Forall P items -> P (EIn neg a items).
  Hypothesis HInSub : forall neg a q, P a -> P (EInSub neg a q).
  Hypothesis HBetween : forall neg a lo hi, P a -> P lo -> P hi -> P (EBetween neg a lo hi).
  Hypothesis HIs : forall op a, P a -> P (EIs op a).
  Hypothesis HBin : forall op a b, P a -> P b -> P (EBin op a b).
  Hypothesis HUn : forall op a, P a -> P (EUn op a).
  Hypothesis HCase : forall whens els,
    Forall (fun w => P (fst w) /\ P (snd w)) whens ->
    opt_holds7 P els -> P (ECase whens els).
  Hypothesis HSub : forall q, P (ESub q).
  Hypothesis HExists : forall q, P (EExists q).
  Hypothesis HAgg : forall f arg, P (EAgg f arg).
  Hypothesis HCall : forall qual name args, Forall P args -> P (ECall qual name args).
  Hypothesis HTuple : forall items, Forall P items -> P (ETuple items).

  Fixpoint expr_ind7 (e : expr Q) : P e :=
    match e with
    | ECol p => HCol p
    | ENum f => HNum f
    | EStr s => HStr s
    | EBool b => HBool b
    | ENull => HNull
    | EAnd a b => HAnd a b (expr_ind7 a) (expr_ind7 b)
    | EOr a b => HOr a b (expr_ind7 a) (expr_ind7 b)
    | ENot a => HNot a (expr_ind7 a)
    | ECmp op a b => HCmp op a b (expr_ind7 a) (expr_ind7 b)
    | ELike neg a b => HLike neg a b (expr_ind7 a) (expr_ind7 b)
    | EIn neg a items =>
        HIn neg a items (expr_ind7 a)
            ((fix go (l : list (expr Q)) : Forall P l :=
                match l with [] => Forall_nil _ | x :: r => Forall_cons _ (expr_ind7 x) (go r) end) items)
    | EInSub neg a q => HInSub neg a q (expr_ind7 a)
    | EBetween neg a lo hi => HBetween neg a lo hi (expr_ind7 a) (expr_ind7 lo) (expr_ind7 hi)
    | EIs op a => HIs op a (expr_ind7 a)
    | EBin op a b => HBin op a b (expr_ind7 a) (expr_ind7 b)
    | EUn op a => HUn op a (expr_ind7 a)
    | ECase whens els =>
        HCase whens els
            ((fix go (l : list (expr Q * expr Q)) : Forall (fun w => P (fst w) /\ P (snd w)) l :=
                match l with
                | [] => Forall_nil _
                | w :: r =>
                    Forall_cons w (match w as w0 return (P (fst w0) /\ P (snd w0)) with
                                   | (c, v) => conj (expr_ind7 c) (expr_ind7 v)
                                   end) (go r)
                end) whens)
            (match els as o return opt_holds7 P o with
             | Some x => expr_ind7 x
             | None => I
             end)
    | ESub q => HSub q
    | EExists q => HExists q
    | EAgg f arg => HAgg f arg
    | ECall qual name args =>
        HCall qual name args
            ((fix go (l : list (expr Q)) : Forall P l :=
                match l with [] => Forall_nil _ | x :: r => Forall_cons _ (expr_ind7 x) (go r) end) args)
    | ETuple items =>
        HTuple items
            ((fix go (l : list (expr Q)) : Forall P l :=
                match l with [] => Forall_nil _ | x :: r => Forall_cons _ (expr_ind7 x) (go r) end) items)
    end.
End ExprInd.
Arguments expr_ind7 {Q}.

(* ================================================================== *)
(* 2. expression evaluation is monotone in the hooks                   *)
(* ================================================================== *)

Record env_le {Q} (E1 E2 : env Q) : Prop := {
  el_data : e_data E1 = e_data E2;
  el_sub : forall q cur, le_res (e_sub E1 q cur) (e_sub E2 q cur);
  el_exists : forall q cur, le_res (e_exists E1 q cur) (e_exists E2 q cur);
  el_agg : forall f a cur, le_res (e_agg E1 f a cur) (e_agg E2 f a cur);
  el_call : e_call E1 = e_call E2;
  el_hard : e_hard E1 = e_hard E2
}.

Section EvalLe.
  Variable Q : Type.
  Variables E1 E2 : env Q.
  Hypothesis HE : env_le E1 E2.

  Lemma eval_le : forall e cur, le_res (eval E1 cur e) (eval E2 cur e).
  Proof.
    destruct HE as [Hdata Hsub Hex Hagg Hcall Hhard].
    induction e using expr_ind7; intros cur; cbn [eval]; rewrite ?Hdata; try solve [le_auto].
    all: try rename IHe1 into IHe.
    - (* ECol *) unfold col_path. rewrite Hhard. apply le_res_refl.
    - (* EIn *)
      apply le_res_bind; [apply IHe|]. intros l. apply le_res_bind; [apply le_res_refl|]. intros lv.
      apply le_res_bind; [|intros; apply le_res_refl].
      match goal with HF : Forall _ items |- _ => induction HF as [|x r Hx _ IHr] end;
        [apply le_res_refl|].
      apply le_res_bind; [apply Hx|]. intros y. apply le_res_bind; [apply le_res_refl|]. intros y'.
      apply le_res_bind; [exact IHr|]. intros; apply le_res_refl.
    - (* EInSub *)
      apply le_res_bind; [apply IHe|]. intros l. apply le_res_bind; [apply le_res_refl|]. intros lv.
      apply le_res_bind; [apply Hsub|]. intros; apply le_res_refl.
    - (* ECase *)
      match goal with HF : Forall _ whens |- _ => induction HF as [|[c v] r [Hc Hv] _ IHr] end.
      + destruct els as [x|]; [|apply le_res_refl].
        match goal with HO : opt_holds7 _ (Some _) |- _ => apply HO end.
      + cbn [fst snd] in Hc, Hv. apply le_res_bind; [apply Hc|]. intros rc.
        destruct rc as [[| [|] | | | |] | | | | |]; try apply le_res_refl; [apply Hv | exact IHr].
    - (* ESub *) apply le_res_bind; [apply Hsub|]. intros; apply le_res_refl.
    - (* EExists *) apply le_res_bind; [apply Hex|]. intros; apply le_res_refl.
    - (* EAgg *) apply Hagg.
    - (* ECall *)
      rewrite Hcall. apply le_res_bind; [|intros; apply le_res_refl].
      match goal with HF : Forall _ args |- _ => induction HF as [|x r Hx _ IHr] end;
        [apply le_res_refl|].
      apply le_res_bind; [apply Hx|]. intros y. apply le_res_bind; [apply le_res_refl|]. intros v.
      apply le_res_bind; [exact IHr|]. intros; apply le_res_refl.
    - (* ETuple *)
      apply le_res_bind; [|intros; apply le_res_refl].
      match goal with HF : Forall _ items |- _ => induction HF as [|x r Hx _ IHr] end;
        [apply le_res_refl|].
      destruct (slot_form x); [apply le_res_refl|].
      apply le_res_bind; [apply Hx|]. intros y. apply le_res_bind; [apply le_res_refl|]. intros y'.
      apply le_res_bind; [exact IHr|]. intros; apply le_res_refl.
  Qed.

  Lemma eval_cond_le c cur : le_res (eval_cond E1 cur c) (eval_cond E2 cur c).
  Proof.
    destruct c as [e|]; cbn [eval_cond]; [|apply le_res_refl].
    apply le_res_bind; [apply eval_le|]. intros; apply le_res_refl.
  Qed.

  Lemma select_expr_le items : forall cur acc,
    le_res (select_expr E1 cur items acc) (select_expr E2 cur items acc).
  Proof.
    induction items as [|it items IH]; intros cur acc; cbn [select_expr]; [apply le_res_refl|].
    destruct it as [|e name]; [apply IH|].
    apply le_res_bind; [apply eval_le|]. intros x.
    destruct x; try apply IH; (apply le_res_bind; [apply le_res_refl|]; intros; apply IH).
  Qed.
End EvalLe.
Arguments eval_le {Q}. Arguments eval_cond_le {Q}. Arguments select_expr_le {Q}.

(* ================================================================== *)
(* 3. contexts the interpreter cannot tell apart                       *)
(* ================================================================== *)

Definition busyb (k : string) (busy : list string) : bool := existsb (String.eqb k) busy.

(* enclosing queries the interpreter cannot tell apart *)
Record frame_equiv (f g : frame) : Prop := {
  fe_data : fr_data f = fr_data g;
  fe_ctes : forall k, cte_lookup k (fr_ctes f) = cte_lookup k (fr_ctes g);
  fe_busy : forall k, busyb k (fr_busy f) = busyb k (fr_busy g)
}.

(* a stack of enclosing queries none of which registered a CTE holds no thunk *)
Definition blank_up (up : list frame) : Prop := Forall (fun f => fr_ctes f = []) up.

(* stacks of enclosing queries: frame by frame, up to tails that hold no thunk at all (such tails
   may differ arbitrarily, also in length: nothing but thunks is looked up in [c_up]) *)
Inductive up_equiv : list frame -> list frame -> Prop :=
| ue_blank ua ub : blank_up ua -> blank_up ub -> up_equiv ua ub
| ue_cons f g ua ub : frame_equiv f g -> up_equiv ua ub -> up_equiv (f :: ua) (g :: ub).

Record ctx_equiv (a b : qctx) : Prop := {
  ce_data : c_data a = c_data b;
  ce_ctes : forall k, cte_lookup k (c_ctes a) = cte_lookup k (c_ctes b);
  ce_busy : forall k, busyb k (c_busy a) = busyb k (c_busy b);
  ce_up : up_equiv (c_up a) (c_up b)
}.

Lemma frame_equiv_refl f : frame_equiv f f.
Proof. split; reflexivity. Qed.

Lemma frame_equiv_sym f g : frame_equiv f g -> frame_equiv g f.
Proof. intros [H1 H2 H3]. split; intros; symmetry; auto. Qed.

Lemma up_equiv_refl up : up_equiv up up.
Proof.
  induction up; [apply ue_blank; constructor|apply ue_cons; auto using frame_equiv_refl].
Qed.

Lemma up_equiv_sym ua ub : up_equiv ua ub -> up_equiv ub ua.
Proof. induction 1; [apply ue_blank; assumption|apply ue_cons; auto using frame_equiv_sym]. Qed.

Lemma up_find_blank up : blank_up up -> forall p, up_find up p = None.
Proof.
  induction 1 as [|f up Hf _ IH]; intros p; cbn [up_find]; [reflexivity|].
  destruct p as [|k rest]; [reflexivity|]. rewrite Hf. cbn [cte_lookup find].
  destruct (String.eqb k "<-"); [apply IH|reflexivity].
Qed.

Lemma ctx_equiv_refl a : ctx_equiv a a.
Proof. split; try reflexivity. apply up_equiv_refl. Qed.

Lemma ctx_equiv_sym a b : ctx_equiv a b -> ctx_equiv b a.
Proof. intros [H1 H2 H3 H4]. split; intros; try symmetry; auto. apply up_equiv_sym. exact H4. Qed.

Lemma cte_lookup_app k l1 l2 :
  cte_lookup k (l1 ++ l2) =
  match cte_lookup k l1 with Some b => Some b | None => cte_lookup k l2 end.
Proof.
  unfold cte_lookup. induction l1 as [|[c b] l1 IH]; cbn [app find fst snd]; [reflexivity|].
  destruct (String.eqb c k); [reflexivity|exact IH].
Qed.

Lemma ctx_equiv_register a b w :
  ctx_equiv a b -> ctx_equiv (register_ctes a w) (register_ctes b w).
Proof.
  intros [H1 H2 H3 H4]. split; cbn [register_ctes c_data c_ctes c_busy c_up]; auto.
  intros k. rewrite !cte_lookup_app, H2. reflexivity.
Qed.

Lemma ctx_equiv_busy a b k :
  ctx_equiv a b ->
  ctx_equiv {| c_data := c_data a; c_ctes := c_ctes a; c_busy := k :: c_busy a; c_up := c_up a |}
            {| c_data := c_data b; c_ctes := c_ctes b; c_busy := k :: c_busy b; c_up := c_up b |}.
Proof.
  intros [H1 H2 H3 H4]. split; cbn [c_data c_ctes c_busy c_up]; auto.
  intros k'. unfold busyb in *. cbn [existsb]. rewrite H3. reflexivity.
Qed.

(* a row-scoped subquery of indistinguishable queries *)
Lemma ctx_equiv_sub a b cur : ctx_equiv a b -> ctx_equiv (sub_ctx a cur) (sub_ctx b cur).
Proof.
  intros [H1 H2 H3 H4]. split; cbn [sub_ctx c_data c_ctes c_busy c_up]; try reflexivity.
  apply ue_cons; [|exact H4]. split; cbn [fr_data fr_ctes fr_busy fst snd]; auto.
Qed.

(* the thunk an enclosing query holds for a path, and the context it is evaluated in *)
Definition hit_ctx (h : up_hit) : qctx :=
  {| c_data := fr_data (uh_frame h); c_ctes := fr_ctes (uh_frame h);
     c_busy := uh_name h :: fr_busy (uh_frame h); c_up := uh_up h |}.

Definition hit_equiv (o1 o2 : option up_hit) : Prop :=
  match o1, o2 with
  | Some h1, Some h2 =>
      uh_name h1 = uh_name h2 /\ uh_body h1 = uh_body h2 /\ uh_rest h1 = uh_rest h2 /\
      busyb (uh_name h1) (fr_busy (uh_frame h1)) = busyb (uh_name h2) (fr_busy (uh_frame h2)) /\
      ctx_equiv (hit_ctx h1) (hit_ctx h2)
  | None, None => True
  | _, _ => False
  end.

Lemma up_find_equiv ua ub : up_equiv ua ub ->
  forall p, hit_equiv (up_find ua p) (up_find ub p).
Proof.
  induction 1 as [ua ub Ha Hb|f g ua ub Hfg Hup IH]; intros p.
  { rewrite (up_find_blank ua Ha), (up_find_blank ub Hb). exact I. }
  cbn [up_find]. destruct p as [|k rest]; [exact I|].
  rewrite (fe_ctes _ _ Hfg k). destruct (cte_lookup k (fr_ctes g)) as [body|].
  - cbn [hit_equiv uh_name uh_body uh_rest uh_frame uh_up]. repeat split; auto.
    + apply (fe_busy _ _ Hfg).
    + apply (fe_data _ _ Hfg).
    + apply (fe_ctes _ _ Hfg).
    + intros k'. cbn [hit_ctx c_busy uh_name uh_frame]. unfold busyb. cbn [existsb].
      pose proof (fe_busy _ _ Hfg k') as Hb. unfold busyb in Hb. rewrite Hb. reflexivity.
  - destruct (String.eqb k "<-"); [apply IH|exact I].
Qed.

Lemma up_read_equiv a b p : ctx_equiv a b -> hit_equiv (up_read a p) (up_read b p).
Proof.
  intros Hab. unfold up_read. destruct p as [|k rest]; [exact I|].
  destruct (String.eqb k "<-"); [|exact I]. apply up_find_equiv. apply (ce_up _ _ Hab).
Qed.

(* ================================================================== *)
(* 4. one interpreter step is monotone                                 *)
(* ================================================================== *)

(* a selector as table name consults the registered CTEs by name only *)
Lemma sel_visible_ext c1 c2 text :
  (forall k, cte_lookup k c1 = cte_lookup k c2) -> sel_visible c1 text = sel_visible c2 text.
Proof.
  intros H. unfold sel_visible. f_equal.
  destruct (SelToken.parse_all text) as [all| | |]; try reflexivity.
  destruct (sel_head all) as [names|]; [|reflexivity].
  induction names as [|k names IH]; [reflexivity|]. cbn [forallb]. rewrite H, IH. reflexivity.
Qed.

Section StepLe.
  Variables rec1 rec2 : qctx -> job -> res value.
  Variable call : string -> string -> list value -> row -> res raw.
  Variable join : jointype -> jstrategy -> list value -> list value -> string -> string ->
                  expr stmt -> row -> res (list value).

  (* the second interpreter is at least as defined as the first on indistinguishable contexts *)
  Hypothesis Hrec : forall a b, ctx_equiv a b -> forall j, le_res (rec1 a j) (rec2 b j).

  Lemma build_from_le f : forall a b, ctx_equiv a b ->
    le_res (build_from rec1 join a f) (build_from rec2 join b f).
  Proof.
    induction f as [|path alias|fn path alias|sl alias|q alias|jt st l IHl r IHr on]; intros a b Hab;
      cbn [build_from].
    - apply le_res_refl.
    - destruct path as [|k rest]; [apply le_res_refl|].
      rewrite (ce_ctes _ _ Hab k). destruct (cte_lookup k (c_ctes b)) as [body|].
      + pose proof (ce_busy _ _ Hab k) as Hb. unfold busyb in Hb. rewrite Hb.
        destruct (existsb (String.eqb k) (c_busy b)); [apply le_res_refl|].
        apply le_res_bind; [|intros; apply le_res_refl].
        apply Hrec. apply ctx_equiv_busy. exact Hab.
      + pose proof (up_read_equiv a b (k :: rest) Hab) as Hh.
        destruct (up_read a (k :: rest)) as [h1|], (up_read b (k :: rest)) as [h2|];
          cbn [hit_equiv] in Hh; try contradiction.
        * destruct Hh as (Hn & Hbody & Hrest & Hb & Hctx). unfold busyb in Hb. rewrite Hb.
          destruct (existsb (String.eqb (uh_name h2)) (fr_busy (uh_frame h2))); [apply le_res_refl|].
          rewrite Hbody, Hrest. apply le_res_bind; [|intros; apply le_res_refl].
          apply (Hrec (hit_ctx h1) (hit_ctx h2) Hctx).
        * rewrite (ce_data _ _ Hab). apply le_res_refl.
    - pose proof (up_read_equiv a b path Hab) as Hh.
      destruct (up_read a path) as [h1|], (up_read b path) as [h2|];
        cbn [hit_equiv] in Hh; try contradiction; [apply le_res_refl|].
      rewrite (ce_data _ _ Hab). apply le_res_refl.
    - rewrite (sel_visible_ext _ _ _ (ce_ctes _ _ Hab)), (ce_data _ _ Hab). apply le_res_refl.
    - apply le_res_bind; [apply Hrec; exact Hab|]. intros; apply le_res_refl.
    - apply le_res_bind; [apply IHl; exact Hab|]. intros lf.
      apply le_res_bind; [apply IHr; exact Hab|]. intros rf.
      rewrite (ce_data _ _ Hab). apply le_res_refl.
  Qed.

  Lemma mk_env_le a b s filtered :
    ctx_equiv a b ->
    env_le (mk_env rec1 call join a s filtered) (mk_env rec2 call join b s filtered).
  Proof.
    intros Hab. pose proof (ce_data _ _ Hab) as Hd.
    split; cbn [mk_env e_data e_sub e_exists e_agg e_call e_hard]; auto.
    - rewrite Hd. reflexivity.
    - intros q cur. apply Hrec. apply ctx_equiv_sub. exact Hab.
    - intros q cur. destruct q as [s'|]; [|apply le_res_refl].
      apply le_res_bind; [apply build_from_le; apply ctx_equiv_sub; exact Hab|]. intros src.
      destruct src as [rows|]; [|apply le_res_refl].
      apply le_res_bind; [apply le_res_refl|]. intros merged.
      apply le_res_bind; [apply Hrec; apply ctx_equiv_sub; exact Hab|]. intros; apply le_res_refl.
    - intros; apply le_res_refl.
  Qed.

  Lemma exec_select_le E1 E2 s rows :
    env_le E1 E2 -> le_res (exec_select E1 s rows) (exec_select E2 s rows).
  Proof.
    intros HE. unfold exec_select.
    destruct ((match s_group s with [] => true | _ => false end) && all_aggregate (s_items s)).
    - apply le_res_bind; [apply select_expr_le; exact HE|]. intros; apply le_res_refl.
    - apply le_res_mapM. intros cur. destruct cur; try apply le_res_refl.
      apply le_res_bind; [apply select_expr_le; exact HE|]. intros; apply le_res_refl.
  Qed.

  Lemma filter_rows_le a b s E1 E2 from :
    env_le E1 E2 ->
    (forall s' rows, le_res (rec1 a (JRows s' rows)) (rec2 b (JRows s' rows))) ->
    le_res (filter_rows rec1 a s E1 from) (filter_rows rec2 b s E2 from).
  Proof.
    intros HE Hrows. induction from as [|cur r IH]; [apply le_res_refl|].
    cbn [filter_rows] in *. destruct cur; try exact IH.
    - apply le_res_bind; [apply Hrows|]. intros rs.
      apply le_res_bind; [exact IH|]. intros; apply le_res_refl.
    - apply le_res_bind; [apply eval_cond_le; exact HE|]. intros keep.
      apply le_res_bind; [exact IH|]. intros; apply le_res_refl.
  Qed.

  Lemma exec_group_by_le E1 E2 s rows :
    env_le E1 E2 -> le_res (exec_group_by E1 s rows) (exec_group_by E2 s rows).
  Proof.
    intros HE. unfold exec_group_by. destruct (s_group s) as [|c cols]; [apply le_res_refl|].
    apply le_res_bind; [apply le_res_refl|]. intros gs.
    apply le_res_bind; [|intros; apply le_res_refl].
    induction gs as [|g gs IH]; [apply le_res_refl|].
    apply le_res_bind; [apply eval_cond_le; exact HE|]. intros h.
    apply le_res_bind; [exact IH|]. intros; apply le_res_refl.
  Qed.

  (* run_select sees its context through the document, through the nested-dimension calls and
     through what its row-scoped subqueries find behind `<-` *)
  Lemma run_select_le a b s src :
    ctx_equiv a b ->
    (forall s' rows, le_res (rec1 a (JRows s' rows)) (rec2 b (JRows s' rows))) ->
    le_res (run_select rec1 call join a s src) (run_select rec2 call join b s src).
  Proof.
    intros Hab Hrows. pose proof (ce_data _ _ Hab) as Hd. pose proof Hab as Hd'.
    unfold run_select. apply le_res_catch. destruct src as [from|].
    - apply le_res_bind; [apply filter_rows_le; [apply mk_env_le; exact Hab | exact Hrows]|].
      intros filtered.
      apply le_res_bind; [apply exec_group_by_le; apply mk_env_le; exact Hab|]. intros grouped.
      apply le_res_bind; [apply exec_select_le; apply mk_env_le; exact Hab|]. intros selected.
      apply le_res_refl.
    - rewrite Hd. apply le_res_bind; [apply exec_select_le; apply mk_env_le; exact Hab|].
      intros; apply le_res_refl.
  Qed.

  Lemma exec_step_le a b j :
    ctx_equiv a b -> le_res (exec_step rec1 call join a j) (exec_step rec2 call join b j).
  Proof.
    intros Hab. destruct j as [[s|all l r limit offset]|s rows]; cbn [exec_step].
    - pose proof (ctx_equiv_register a b (s_with s) Hab) as Hreg.
      apply le_res_bind; [apply build_from_le; exact Hreg|]. intros src.
      apply run_select_le; [exact Hreg|]. intros; apply Hrec; exact Hreg.
    - apply le_res_bind; [apply Hrec; exact Hab|]. intros lv.
      apply le_res_bind; [apply Hrec; exact Hab|]. intros rv.
      apply le_res_bind; [apply le_res_refl|]. intros la.
      apply le_res_bind; [apply le_res_refl|]. intros ra.
      apply run_select_le; [exact Hab|]. intros; apply Hrec; exact Hab.
    - apply run_select_le; [exact Hab|]. intros; apply Hrec; exact Hab.
  Qed.
End StepLe.

(* ================================================================== *)
(* 5. fuel monotonicity, determinism, context congruence               *)
(* ================================================================== *)

Section Fuel.
  Variable call : string -> string -> list value -> row -> res raw.
  Variable join : jointype -> jstrategy -> list value -> list value -> string -> string ->
                  expr stmt -> row -> res (list value).
  Notation ex := (exec call join).

  Theorem exec_le : forall n m a b j, n <= m -> ctx_equiv a b -> le_res (ex n a j) (ex m b j).
  Proof.
    induction n as [|n IH]; intros m a b j Hnm Hab; [apply le_res_oom|].
    destruct m as [|m]; [lia|]. cbn [exec].
    apply exec_step_le; [|exact Hab]. intros a' b' Hab' j'. apply IH; [lia|exact Hab'].
  Qed.

  (* more fuel never changes an outcome other than OutOfModel *)
  Theorem exec_mono n m ctx j r :
    ex n ctx j = r -> r <> OutOfModel -> n <= m -> ex m ctx j = r.
  Proof.
    intros Hr Hn Hnm. subst r. symmetry. apply le_res_neq; [|exact Hn].
    apply exec_le; [exact Hnm|apply ctx_equiv_refl].
  Qed.

  Corollary exec_mono_ok n m ctx j v : ex n ctx j = Ok v -> n <= m -> ex m ctx j = Ok v.
  Proof. intros H Hnm. apply (exec_mono n m ctx j (Ok v)); auto. discriminate. Qed.

  Corollary exec_mono_err n m ctx j : ex n ctx j = Err -> n <= m -> ex m ctx j = Err.
  Proof. intros H Hnm. apply (exec_mono n m ctx j Err); auto. discriminate. Qed.

  Corollary exec_mono_panic n m ctx j : ex n ctx j = Panic -> n <= m -> ex m ctx j = Panic.
  Proof. intros H Hnm. apply (exec_mono n m ctx j Panic); auto. discriminate. Qed.

  (* two runs with any amounts of fuel agree unless one of them is OutOfModel *)
  Theorem exec_deterministic n m ctx j :
    ex n ctx j <> OutOfModel -> ex m ctx j <> OutOfModel -> ex n ctx j = ex m ctx j.
  Proof.
    intros Hn Hm.
    pose proof (exec_mono n (Nat.max n m) ctx j _ eq_refl Hn (Nat.le_max_l _ _)) as H1.
    pose proof (exec_mono m (Nat.max n m) ctx j _ eq_refl Hm (Nat.le_max_r _ _)) as H2.
    congruence.
  Qed.

  (* indistinguishable contexts give the same outcome at the same fuel *)
  Theorem exec_ctx_equiv n a b j : ctx_equiv a b -> ex n a j = ex n b j.
  Proof.
    intros Hab. apply le_res_antisym; apply exec_le; auto using ctx_equiv_sym.
  Qed.

  (* a prepared SELECT over resolved rows gives the same outcome in indistinguishable contexts.
     (Before the enclosing queries' thunks became visible through `<-` the hypothesis was only
     [c_data a = c_data b]: now the row-scoped subqueries of the SELECT see the thunks and the
     in-progress marks of the context.  For SELECTs without subqueries the document still is all
     that matters: Proofs/C07Blind.v, run_select_blind.) *)
  Theorem exec_rows_ctx n a b s rows :
    ctx_equiv a b -> ex n a (JRows s rows) = ex n b (JRows s rows).
  Proof. apply exec_ctx_equiv. Qed.

  Lemma run_select_ctx n a b s src :
    ctx_equiv a b ->
    run_select (ex n) call join a s src = run_select (ex n) call join b s src.
  Proof.
    intros Hab. apply le_res_antisym; apply run_select_le; auto using ctx_equiv_sym;
      try (intros a' b' Hab' j'; apply exec_le; [lia|exact Hab']);
      intros s' rows'; apply le_res_eq; apply exec_ctx_equiv; auto using ctx_equiv_sym.
  Qed.

  (* the API entry point inherits monotonicity *)
  Theorem api_run_mono n m wrapped doc q r :
    api_run call join n wrapped doc q = r -> r <> OutOfModel -> n <= m ->
    api_run call join m wrapped doc q = r.
  Proof.
    intros Hr Hn Hnm. subst r. symmetry. apply le_res_neq; [|exact Hn]. unfold api_run.
    apply le_res_bind; [|intros; apply le_res_refl].
    apply le_res_catch. apply exec_le; [exact Hnm|apply ctx_equiv_refl].
  Qed.
End Fuel.
