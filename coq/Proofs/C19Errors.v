(* Proofs/C19Errors.v — property C19, part 3: type errors and the RAISE family.

   A non-boolean WHERE / HAVING / CASE condition, or a non-numeric arithmetic operand, on ANY row
   makes the whole query fail: the result of exec() is never [Ok] (no result with that row skipped
   or its column NULL-patched).  RAISE fails wherever it is evaluated; RAISE_WHEN(true, _) likewise;
   RAISE_WHEN(false, _) adds no column and no error. *)
From Coq Require Import Floats.
From GenqlV Require Import Base.Prelude Base.Value Model.Ast Model.Eval Model.Exec Model.Join
                           Model.Faults Proofs.C19Lemmas Proofs.C19Surfaces.
Local Open Scope list_scope.
Local Open Scope string_scope.

Definition not_ok {A} (r : res A) : Prop := forall a, r <> Ok a.

Lemma not_ok_bind : forall A B (x : res A) (f : A -> res B), not_ok x -> not_ok (bind x f).
Proof. intros A B [a| | |] f H b; cbn; try discriminate. exfalso. apply (H a). reflexivity. Qed.

Lemma not_ok_bind_k : forall A B (x : res A) (f : A -> res B),
  (forall a, x = Ok a -> not_ok (f a)) -> not_ok (bind x f).
Proof. intros A B [a| | |] f H b; cbn; try discriminate. apply H. reflexivity. Qed.

Lemma not_ok_Err : forall A, not_ok (@Err A).
Proof. intros A a; discriminate. Qed.

(* after a recovering frame a failure is an error, unless the input left the model *)
Lemma not_ok_catch : forall A (x : res A), not_ok x -> catch_panic x = Err \/ catch_panic x = OutOfModel.
Proof. intros A [a| | |] H; cbn; auto. exfalso. apply (H a). reflexivity. Qed.

(* ------------------------------------------------------------------ *)
(* expression level                                                     *)
(* ------------------------------------------------------------------ *)

Section ExprErrors.
  Variable Q : Type.
  Variable E : env Q.

  Definition is_bool_raw (r : raw) : bool :=
    match r with RVal (VBool _) => true | _ => false end.

  (* ExecWhere / ExecHaving: rs.(bool) fails *)
  Lemma cond_non_boolean : forall cur e r,
    eval E cur e = Ok r -> is_bool_raw r = false -> eval_cond E cur (Some e) = Err.
  Proof.
    intros cur e r He Hr. cbn [eval_cond]. rewrite He. cbn [bind].
    destruct r as [[| | | | |]| | | | |]; try reflexivity; discriminate Hr.
  Qed.

  Definition non_numeric (v : value) : bool :=
    match v with VNull | VNum _ => false | _ => true end.

  (* BinaryExpr: AsType[float64] on the left operand *)
  Lemma arith_left_non_numeric : forall cur op a b v,
    val Q E cur a = Ok v -> non_numeric v = true -> eval E cur (EBin op a b) = Err.
  Proof.
    intros cur op a b v Hv Hn. unfold val in Hv. apply bind_ok_inv in Hv. destruct Hv as [r [H1 H2]].
    cbn [eval]. rewrite H1. cbn [bind]. rewrite H2. cbn [bind].
    destruct v; try discriminate Hn; reflexivity.
  Qed.

  (* ... and on the right operand, once the left one is a number *)
  Lemma arith_right_non_numeric : forall cur op a b x v,
    val Q E cur a = Ok (VNum x) -> val Q E cur b = Ok v -> non_numeric v = true ->
    eval E cur (EBin op a b) = Err.
  Proof.
    intros cur op a b x v Ha Hv Hn.
    unfold val in Ha. apply bind_ok_inv in Ha. destruct Ha as [ra [Ha1 Ha2]].
    unfold val in Hv. apply bind_ok_inv in Hv. destruct Hv as [rb [Hb1 Hb2]].
    cbn [eval]. rewrite Ha1. cbn [bind]. rewrite Ha2. cbn [bind as_num].
    rewrite Hb1. cbn [bind]. rewrite Hb2. cbn [bind].
    destruct v; try discriminate Hn; reflexivity.
  Qed.

  (* CaseExpr: the first WHEN condition that is not a Go bool *)
  Lemma case_non_boolean : forall cur c v rest els r,
    eval E cur c = Ok r -> is_bool_raw r = false ->
    eval E cur (ECase ((c, v) :: rest) els) = Err.
  Proof.
    intros cur c v rest els r He Hr. cbn [eval]. rewrite He. cbn [bind].
    destruct r as [[| | | | |]| | | | |]; try reflexivity; discriminate Hr.
  Qed.

  (* SelectExpr: a failing item fails the row, whatever the other items are *)
  Lemma select_expr_item_fails : forall items cur acc e name,
    In (IExpr e name) items -> not_ok (eval E cur e) -> not_ok (select_expr E cur items acc).
  Proof.
    induction items as [|it r IH]; intros cur acc e name Hin He; [contradiction|].
    destruct Hin as [->|Hin].
    - cbn [select_expr]. apply not_ok_bind, He.
    - destruct it as [|e0 n0]; cbn [select_expr]; [eapply IH; eauto|].
      apply not_ok_bind_k. intros x _. destruct x; try (apply not_ok_bind_k; intros ? _); eapply IH; eauto.
  Qed.
End ExprErrors.

(* ------------------------------------------------------------------ *)
(* one SELECT                                                            *)
(* ------------------------------------------------------------------ *)

Section RunErrors.
  Variable rec : qctx -> job -> res value.
  Variable call : call_fn.
  Variable join : join_fn.

  Lemma filter_rows_row_fails : forall ctx s E from kv,
    In (VObj kv) from -> not_ok (eval_cond E kv (s_where s)) -> not_ok (filter_rows rec ctx s E from).
  Proof.
    intros ctx s E from kv Hin Hc. unfold filter_rows.
    induction from as [|cur r IH]; [contradiction|].
    destruct Hin as [->|Hin].
    - apply not_ok_bind, Hc.
    - destruct cur; try (apply IH, Hin).
      + apply not_ok_bind_k. intros ? _. apply not_ok_bind, IH, Hin.
      + apply not_ok_bind_k. intros ? _. apply not_ok_bind, IH, Hin.
  Qed.

  Lemma group_by_group_fails : forall E s rows c0 cols gs g,
    s_group s = c0 :: cols -> group_rows (c0 :: cols) rows [] = Ok gs -> In g gs ->
    not_ok (eval_cond E (group_row g) (s_having s)) -> not_ok (exec_group_by E s rows).
  Proof.
    intros E s rows c0 cols gs g Hs Hg Hin Hc. unfold exec_group_by. rewrite Hs, Hg. cbn [bind].
    apply not_ok_bind. clear Hg.
    induction gs as [|g0 r IH]; [contradiction|].
    destruct Hin as [->|Hin]; [apply not_ok_bind, Hc|].
    apply not_ok_bind_k. intros ? _. apply not_ok_bind, IH, Hin.
  Qed.

  Lemma exec_select_row_fails : forall E s rows kv,
    ((match s_group s with [] => true | _ => false end) && all_aggregate (s_items s)) = false ->
    In (VObj kv) rows -> not_ok (select_expr E kv (s_items s) []) -> not_ok (exec_select E s rows).
  Proof.
    intros E s rows kv Hagg Hin Hc. unfold exec_select. rewrite Hagg.
    induction rows as [|cur r IH]; [contradiction|]. cbn [mapM].
    destruct Hin as [->|Hin]; [apply not_ok_bind, not_ok_bind, Hc|].
    apply not_ok_bind_k. intros ? _. apply not_ok_bind, IH, Hin.
  Qed.

  Let E0 ctx s := mk_env rec call join ctx s [].
  Let Ef ctx s filtered := mk_env rec call join ctx s filtered.

  (* WHERE: a condition that fails on ANY source row fails the query *)
  Theorem run_select_where_fails : forall ctx s from kv,
    In (VObj kv) from -> not_ok (eval_cond (E0 ctx s) kv (s_where s)) ->
    run_select rec call join ctx s (Some from) = Err \/
    run_select rec call join ctx s (Some from) = OutOfModel.
  Proof.
    intros ctx s from kv Hin Hc. unfold run_select. apply not_ok_catch.
    apply not_ok_bind. eapply filter_rows_row_fails; eauto.
  Qed.

  (* HAVING: a condition that fails on ANY group fails the query *)
  Theorem run_select_having_fails : forall ctx s from filtered c0 cols gs g,
    filter_rows rec ctx s (E0 ctx s) from = Ok filtered ->
    s_group s = c0 :: cols -> group_rows (c0 :: cols) filtered [] = Ok gs -> In g gs ->
    not_ok (eval_cond (Ef ctx s filtered) (group_row g) (s_having s)) ->
    run_select rec call join ctx s (Some from) = Err \/
    run_select rec call join ctx s (Some from) = OutOfModel.
  Proof.
    intros ctx s from filtered c0 cols gs g Hf Hs Hg Hin Hc. unfold run_select. apply not_ok_catch.
    unfold E0 in Hf. rewrite Hf. cbn [bind]. cbv zeta.
    apply not_ok_bind. eapply group_by_group_fails; eauto.
  Qed.

  (* select list: an item that fails on ANY row that reaches projection fails the query *)
  Theorem run_select_item_fails : forall ctx s from filtered grouped kv e name,
    filter_rows rec ctx s (E0 ctx s) from = Ok filtered ->
    exec_group_by (Ef ctx s filtered) s filtered = Ok grouped ->
    ((match s_group s with [] => true | _ => false end) && all_aggregate (s_items s)) = false ->
    In (VObj kv) grouped -> In (IExpr e name) (s_items s) ->
    not_ok (eval (Ef ctx s filtered) kv e) ->
    run_select rec call join ctx s (Some from) = Err \/
    run_select rec call join ctx s (Some from) = OutOfModel.
  Proof.
    intros ctx s from filtered grouped kv e name Hf Hg Hagg Hin Hit Hc. unfold run_select.
    apply not_ok_catch. unfold E0 in Hf. rewrite Hf. cbn [bind]. cbv zeta.
    unfold Ef in Hg. rewrite Hg. cbn [bind].
    apply not_ok_bind. eapply exec_select_row_fails; eauto.
    eapply select_expr_item_fails; eauto.
  Qed.
End RunErrors.

(* ------------------------------------------------------------------ *)
(* RAISE / RAISE_WHEN                                                   *)
(* ------------------------------------------------------------------ *)

Lemma raise_is_error : forall t qual args cur,
  plain_qualifier qual = true -> fault_call t qual "raise" args cur = Err.
Proof. intros t qual args cur H. unfold fault_call. rewrite H. reflexivity. Qed.

Lemma raise_when_true_is_error : forall t qual msg cur,
  plain_qualifier qual = true -> fault_call t qual "raise_when" [VBool true; msg] cur = Err.
Proof. intros t qual msg cur H. unfold fault_call. rewrite H. reflexivity. Qed.

Lemma raise_when_false_omits : forall t qual msg cur,
  plain_qualifier qual = true -> fault_call t qual "raise_when" [VBool false; msg] cur = Ok ROmit.
Proof. intros t qual msg cur H. unfold fault_call. rewrite H. reflexivity. Qed.

(* which hook invocations raise *)
Definition raises (q n : string) (vs : list value) (c : row) : bool :=
  plain_qualifier q &&
  (String.eqb n "raise" ||
   (String.eqb n "raise_when" && match vs with [VBool true; _] => true | _ => false end)).

Lemma raises_fail : forall t q n vs c, raises q n vs c = true -> fails false (fault_call t q n vs c).
Proof.
  intros t q n vs c H. unfold raises in H. apply andb_prop in H. destruct H as [Hq H].
  left. unfold fault_call. rewrite Hq. cbn [negb].
  apply orb_prop in H. destruct H as [H|H].
  - apply String.eqb_eq in H. subst n. reflexivity.
  - apply andb_prop in H. destruct H as [Hn Hv]. apply String.eqb_eq in Hn. subst n. cbn.
    destruct vs as [|[|[|]| | | |] [|m [|? ?]]]; try discriminate Hv. reflexivity.
Qed.

(* RAISE (or RAISE_WHEN with a true condition) reached anywhere in the query: New/Exec return an error *)
Theorem raise_surfaces : forall t (join : join_fn) fuel wrapped doc q,
  hits raises (fault_call t) join fuel (api_ctx wrapped doc) (JStmt q) ->
  api_run (fault_call t) join fuel wrapped doc q = Err.
Proof.
  intros t join fuel wrapped doc q H.
  apply (api_surfaces raises false (fault_call t) (fault_call t) join); auto.
  - intros ? ? ? ?; apply R_refl.
  - intros; apply raises_fail; assumption.
Qed.

(* RAISE_WHEN with a false condition: the item contributes no column and no error *)
Theorem raise_when_false_no_column : forall (E : env stmt) t cur cond msg name rest acc qual m,
  e_call E = fault_call t -> plain_qualifier qual = true ->
  val stmt E cur cond = Ok (VBool false) -> val stmt E cur msg = Ok m ->
  select_expr E cur (IExpr (ECall qual "raise_when" [cond; msg]) name :: rest) acc =
  select_expr E cur rest acc.
Proof.
  intros E t cur cond msg name rest acc qual m Hc Hq Hcond Hmsg.
  unfold val in Hcond, Hmsg.
  apply bind_ok_inv in Hcond. destruct Hcond as [rc [Hc1 Hc2]].
  apply bind_ok_inv in Hmsg. destruct Hmsg as [rm [Hm1 Hm2]].
  cbn [select_expr eval]. rewrite Hc1. cbn [bind]. rewrite Hc2. cbn [bind].
  rewrite Hm1. cbn [bind]. rewrite Hm2. cbn [bind]. rewrite Hc.
  rewrite raise_when_false_omits by assumption. reflexivity.
Qed.

(* ------------------------------------------------------------------ *)
(* the FAULT trigger as a predicate on hook invocations                 *)
(* ------------------------------------------------------------------ *)

Definition is_trigger (tr : trigger) (q n : string) (vs : list value) (c : row) : bool :=
  plain_qualifier q && String.eqb n "fault" &&
  match vs with
  | [tag; x] | [tag; x; _] => veqb tag (t_tag tr) && veqb x (t_arg tr)
  | _ => false
  end.

Lemma is_trigger_fails : forall tr q n vs c,
  is_trigger tr q n vs c = true -> fails (trigger_may_panic (Some tr)) (fault_call (Some tr) q n vs c).
Proof.
  intros tr q n vs c H. unfold is_trigger in H.
  apply andb_prop in H. destruct H as [H Hv]. apply andb_prop in H. destruct H as [Hq Hn].
  apply String.eqb_eq in Hn. subst n. unfold fault_call. rewrite Hq. cbn [negb String.eqb Ascii.eqb Bool.eqb].
  assert (Hk : fails (trigger_may_panic (Some tr)) (fault_outcome (t_kind tr))).
  { unfold fails, trigger_may_panic. destruct (t_kind tr); cbn; [left|right]; auto. }
  unfold fault_fn, fires.
  destruct vs as [|tag [|x [|ret [|? ?]]]]; try discriminate Hv; rewrite Hv; exact Hk.
Qed.

(* the fault-free run reaches the trigger  ==>  the faulty run is an error *)
Theorem fault_surfaces : forall tr (join : join_fn) fuel wrapped doc q,
  hits (is_trigger tr) (fault_call None) join fuel (api_ctx wrapped doc) (JStmt q) ->
  api_run (fault_call (Some tr)) join fuel wrapped doc q = Err.
Proof.
  intros tr join fuel wrapped doc q H.
  apply (api_surfaces (is_trigger tr) (trigger_may_panic (Some tr)) (fault_call None) (fault_call (Some tr)) join);
    auto.
  - apply fault_call_rel.
  - intros; apply is_trigger_fails; assumption.
Qed.

(* ... ON clauses included: the model of the correspondence (faulty_run) *)
Theorem fault_surfaces_on : forall tr fuel wrapped doc q,
  hits_on (is_trigger tr) (fault_call None) (fault_call None) (fault_join (fault_call None)) fuel
          (api_ctx wrapped doc) (JStmt q) ->
  faulty_run (Some tr) fuel wrapped doc q = Err.
Proof.
  intros tr fuel wrapped doc q H. unfold faulty_run.
  apply (api_surfaces_on (is_trigger tr) (trigger_may_panic (Some tr)) (fault_call None) (fault_call (Some tr))); auto.
  - apply fault_call_rel.
  - intros; apply is_trigger_fails; assumption.
Qed.
