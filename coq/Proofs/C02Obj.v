(* Proofs/C02Obj.v — facts about the association-list maps of Base/Value.v used by C02:
   lookup after obj_set / obj_merge, key sets, later binding wins. No sortedness is assumed. *)
From Coq Require Import Sorting.Sorted.
From GenqlV Require Import Base.Prelude Base.Value Proofs.StrOrder.
Local Open Scope list_scope.

Lemma compare_eq_iff_eqb : forall a b, String.compare a b = Eq <-> String.eqb a b = true.
Proof.
  intros a b. split; intro H.
  - apply string_compare_eq in H. subst. apply String.eqb_refl.
  - apply String.eqb_eq in H. subst. apply string_compare_refl.
Qed.

Lemma lookup_obj_set_same : forall k v m, lookup k (obj_set k v m) = Some v.
Proof.
  intros k v m. induction m as [|[k' v'] r IH]; cbn [obj_set lookup].
  - rewrite String.eqb_refl. reflexivity.
  - destruct (String.compare k k') eqn:Hc; cbn [lookup].
    + rewrite String.eqb_refl. reflexivity.
    + rewrite String.eqb_refl. reflexivity.
    + destruct (String.eqb k k') eqn:He.
      * apply compare_eq_iff_eqb in He. congruence.
      * exact IH.
Qed.

Lemma lookup_obj_set_other : forall k k' v m, k' <> k -> lookup k' (obj_set k v m) = lookup k' m.
Proof.
  intros k k' v m Hne. assert (Hb : String.eqb k' k = false) by (apply String.eqb_neq; exact Hne).
  induction m as [|[k0 v0] r IH]; cbn [obj_set lookup].
  - rewrite Hb. reflexivity.
  - destruct (String.compare k k0) eqn:Hc; cbn [lookup].
    + apply string_compare_eq in Hc. subst k0. rewrite Hb. reflexivity.
    + rewrite Hb. reflexivity.
    + rewrite IH. reflexivity.
Qed.

Lemma lookup_obj_set : forall k k' v m,
  lookup k' (obj_set k v m) = if String.eqb k' k then Some v else lookup k' m.
Proof.
  intros k k' v m. destruct (String.eqb k' k) eqn:He.
  - apply String.eqb_eq in He. subst. apply lookup_obj_set_same.
  - apply String.eqb_neq in He. apply lookup_obj_set_other. exact He.
Qed.

Lemma keys_obj_set : forall k k' v m, In k' (keys (obj_set k v m)) <-> k' = k \/ In k' (keys m).
Proof.
  intros k k' v m. unfold keys. induction m as [|[k0 v0] r IH]; cbn [obj_set map fst In].
  - intuition.
  - destruct (String.compare k k0) eqn:Hc; cbn [map fst In].
    + apply string_compare_eq in Hc. subst k0. intuition.
    + intuition.
    + rewrite IH. intuition.
Qed.

Lemma in_keys_lookup : forall k m, In k (keys m) <-> lookup k m <> None.
Proof.
  intros k m. unfold keys. induction m as [|[k0 v0] r IH]; cbn [map fst In lookup].
  - intuition.
  - destruct (String.eqb k k0) eqn:He.
    + apply String.eqb_eq in He. subst. split; [discriminate|auto].
    + apply String.eqb_neq in He. rewrite <- IH. intuition congruence.
Qed.

(* maps.Copy: the last binding of a key in [src] wins, otherwise the destination's *)
Lemma lookup_obj_merge : forall src dst k,
  lookup k (obj_merge dst src) =
  match lookup k (rev src) with Some v => Some v | None => lookup k dst end.
Proof.
  unfold obj_merge. induction src as [|[k0 v0] r IH]; intros dst k; cbn [fold_left rev fst snd].
  - reflexivity.
  - rewrite IH. rewrite lookup_obj_set.
    assert (Happ : forall l, lookup k (l ++ [(k0, v0)]) =
                   match lookup k l with Some v => Some v | None => if String.eqb k k0 then Some v0 else None end).
    { induction l as [|[k1 v1] l IHl]; cbn [app lookup]; [reflexivity|].
      destruct (String.eqb k k1); [reflexivity|exact IHl]. }
    rewrite Happ. destruct (lookup k (rev r)); [reflexivity|].
    destruct (String.eqb k k0); reflexivity.
Qed.

Lemma keys_obj_merge : forall src dst k,
  In k (keys (obj_merge dst src)) <-> In k (keys dst) \/ In k (keys src).
Proof.
  unfold obj_merge. induction src as [|[k0 v0] r IH]; intros dst k; cbn [fold_left fst snd].
  - unfold keys at 3. cbn. intuition.
  - rewrite IH, keys_obj_set. unfold keys at 3 4. cbn [map fst In]. intuition.
Qed.

Lemma obj_merge_app : forall a b dst, obj_merge dst (a ++ b) = obj_merge (obj_merge dst a) b.
Proof. intros a b dst. unfold obj_merge. apply fold_left_app. Qed.

Lemma obj_merge_single : forall k v dst, obj_merge dst [(k, v)] = obj_set k v dst.
Proof. reflexivity. Qed.

Lemma lookup_obj_of_list : forall bs k, lookup k (obj_of_list bs) = lookup k (rev bs).
Proof.
  intros bs k. unfold obj_of_list. rewrite lookup_obj_merge. destruct (lookup k (rev bs)); reflexivity.
Qed.

Lemma keys_obj_of_list : forall bs k, In k (keys (obj_of_list bs)) <-> In k (map fst bs).
Proof.
  intros bs k. unfold obj_of_list. rewrite keys_obj_merge. unfold keys. cbn. intuition.
Qed.

(* with unique keys the last binding is the only one *)
Lemma lookup_rev_nodup : forall m k, NoDup (keys m) -> lookup k (rev m) = lookup k m.
Proof.
  unfold keys. induction m as [|[k0 v0] r IH]; intros k Hnd; [reflexivity|].
  cbn [map fst] in Hnd. inversion Hnd as [|? ? Hnotin Hnd']; subst.
  cbn [rev lookup].
  assert (Happ : forall l, lookup k (l ++ [(k0, v0)]) =
                 match lookup k l with Some v => Some v | None => if String.eqb k k0 then Some v0 else None end).
  { induction l as [|[k1 v1] l IHl]; cbn [app lookup]; [reflexivity|].
    destruct (String.eqb k k1); [reflexivity|exact IHl]. }
  rewrite Happ, IH by exact Hnd'.
  destruct (String.eqb k k0) eqn:He.
  - apply String.eqb_eq in He. subst k0.
    destruct (lookup k r) eqn:Hl; [|reflexivity].
    exfalso. apply Hnotin. apply (in_keys_lookup k r). congruence.
  - destruct (lookup k r); reflexivity.
Qed.

(* ---------- canonical form: obj_set keeps strictly sorted keys strictly sorted ---------- *)

Definition key_lt (a b : string) : Prop := String.compare a b = Lt.

Lemma key_lt_trans : forall a b c, key_lt a b -> key_lt b c -> key_lt a c.
Proof. intros a b c. apply string_compare_lt_trans. Qed.

Lemma compare_gt_lt : forall a b, String.compare a b = Gt -> String.compare b a = Lt.
Proof.
  intros a b H. pose proof (str_cmp_antisym a b) as Ha. unfold str_cmp in Ha. rewrite H in Ha.
  destruct (String.compare b a); [discriminate| reflexivity | discriminate].
Qed.

Lemma obj_set_sorted : forall k v m,
  StronglySorted key_lt (keys m) -> StronglySorted key_lt (keys (obj_set k v m)).
Proof.
  intros k v m. unfold keys. induction m as [|[k0 v0] r IH]; intro Hs; cbn [obj_set map fst].
  - repeat constructor.
  - cbn [map fst] in Hs. inversion Hs as [|? ? Hs' Hall]; subst.
    destruct (String.compare k k0) eqn:Hc; cbn [map fst].
    + apply string_compare_eq in Hc. subst k0. constructor; assumption.
    + constructor; [exact Hs|]. constructor; [exact Hc|].
      eapply Forall_impl; [|exact Hall]. intros x Hx. eapply key_lt_trans; [exact Hc|exact Hx].
    + constructor; [apply IH; exact Hs'|].
      apply Forall_forall. intros x Hx.
      apply (keys_obj_set k x v r) in Hx. destruct Hx as [->|Hx].
      * apply compare_gt_lt. exact Hc.
      * rewrite Forall_forall in Hall. apply Hall. exact Hx.
Qed.

Lemma obj_merge_sorted : forall src dst,
  StronglySorted key_lt (keys dst) -> StronglySorted key_lt (keys (obj_merge dst src)).
Proof.
  unfold obj_merge. induction src as [|[k v] r IH]; intros dst Hs; cbn [fold_left]; [exact Hs|].
  apply IH, obj_set_sorted, Hs.
Qed.

Lemma sorted_nodup : forall l, StronglySorted key_lt l -> NoDup l.
Proof.
  induction l as [|a r IH]; intro Hs; [constructor|].
  inversion Hs as [|? ? Hs' Hall]; subst. constructor; [|apply IH; exact Hs'].
  intro Hin. rewrite Forall_forall in Hall. specialize (Hall _ Hin).
  unfold key_lt in Hall. rewrite string_compare_refl in Hall. discriminate.
Qed.

Lemma obj_of_list_sorted : forall bs, StronglySorted key_lt (keys (obj_of_list bs)).
Proof. intro bs. apply obj_merge_sorted. constructor. Qed.

Lemma obj_of_list_nodup : forall bs, NoDup (keys (obj_of_list bs)).
Proof. intro bs. apply sorted_nodup, obj_of_list_sorted. Qed.
