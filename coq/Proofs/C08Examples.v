(* Proofs/C08Examples.v — non-vacuity for C08: a ragged document nested three deep (with empty inner
   arrays and siblings of different depth), a filter/projection query, the nested and the `mix=>`
   executions observed on the executable model, and the hypotheses of the theorems met. *)
From Coq Require Import Floats.
From GenqlV Require Import Base.Prelude Base.Fmt Base.Value Model.Ast Model.Like Model.Num Model.Eval Model.Exec.
From GenqlV Require Import Spec.NestedSpec Proofs.C08Lemmas Run.EngineRun.
Local Open Scope string_scope.

Definition o (a b : float) : value := VObj [("a", VNum a); ("b", VNum b)].
Definition t1 : list value := [o 1 10; o 2 20; o 3 30].
Definition t2 : list value := [].
Definition t3 : list value := [o 4 40].
Definition t4 : list value := [o 0 0; o 5 50].

(* g = [ [ t1, t2 ], [ t3 ], [], t4 ] : depth 3, ragged, empty arrays at two levels, and a sibling
   (t4) that is one level shallower than the others *)
Definition g_src : list value := [VArr [VArr t1; VArr t2]; VArr [VArr t3]; VArr []; VArr t4].
Definition ex_doc : value := VObj [("g", VArr g_src)].
Definition ex_ctx : qctx := {| c_data := [("g", VArr g_src)]; c_ctes := []; c_busy := []; c_up := [] |}.

(* SELECT a, b + 1 AS c FROM g WHERE a > 1 *)
Definition ex_q : select stmt :=
  {| s_with := []; s_from := FTable ["g"] ""; s_where := Some (ECmp OpGt (ECol ["a"]) (ENum 1));
     s_group := []; s_having := None;
     s_items := [IExpr (ECol ["a"]) "a"; IExpr (EBin BAdd (ECol ["b"]) (ENum 1)) "c"];
     s_distinct := false; s_order := []; s_limit := None; s_offset := None |}.
Definition ex_q_mix : select stmt := with_from (FTableFn "mix" ["g"] "") ex_q.

Definition p (a c : float) : value := VObj [("a", VNum a); ("c", VNum c)].
Definition out1 : value := VArr [p 2 21; p 3 31].
Definition out2 : value := VArr [].
Definition out3 : value := VArr [p 4 41].
Definition out4 : value := VArr [p 5 51].
Definition g_out : list value := [VArr [out1; out2]; VArr [out3]; VArr []; out4].

Example query_in_scope : simple ex_q = true /\ plain_query ex_q = true.
Proof. vm_compute. split; reflexivity. Qed.

(* the nested statement: same nesting, each innermost table filtered and projected *)
Example nested_runs : run_model (false, ex_doc, SSelect ex_q) = Ok g_out.
Proof. vm_compute. reflexivity. Qed.

(* the flattened statement: the inner results concatenated *)
Example mix_runs :
  run_model (false, ex_doc, SSelect ex_q_mix) = Ok (leaves (VArr g_out)) /\
  leaves (VArr g_out) = [p 2 21; p 3 31; p 4 41; p 5 51].
Proof. vm_compute. split; reflexivity. Qed.

(* the query run directly on each innermost table gives the corresponding inner result *)
Lemma leaf_converges rows out :
  (rows = t1 /\ out = out1) \/ (rows = t2 /\ out = out2) \/ (rows = t3 /\ out = out3) \/
  (rows = t4 /\ out = out4) ->
  flat rows = true /\ converges no_call no_join ex_ctx ex_q rows out.
Proof.
  intros H.
  assert (Hf : flat rows = true) by (destruct H as [[-> _]|[[-> _]|[[-> _]|[-> _]]]]; reflexivity).
  split; auto.
  apply (converges_flat no_call no_join (fun _ _ => OutOfModel)); auto; try apply query_in_scope.
  destruct H as [[-> ->]|[[-> ->]|[[-> ->]|[-> ->]]]]; vm_compute; reflexivity.
Qed.

(* the hypothesis [nested_result] of the theorems is met by the ragged document *)
Example nested_hypothesis_met :
  nested_result (converges no_call no_join ex_ctx ex_q) g_src (VArr g_out).
Proof.
  assert (L : forall rows out, _ -> nested_result (converges no_call no_join ex_ctx ex_q) rows out)
    by (intros rows out H; destruct (leaf_converges rows out H); apply nr_flat; auto).
  apply (nr_deep _ [[VArr t1; VArr t2]; [VArr t3]; []; t4]).
  apply Forall2_cons; [|apply Forall2_cons; [|apply Forall2_cons; [|apply Forall2_cons; [|apply Forall2_nil]]]].
  - apply (nr_deep _ [t1; t2] [out1; out2]).
    apply Forall2_cons; [|apply Forall2_cons; [|apply Forall2_nil]]; apply L; tauto.
  - apply (nr_deep _ [t3] [out3]). apply Forall2_cons; [|apply Forall2_nil]. apply L; tauto.
  - apply (nr_deep _ [] []). apply Forall2_nil.
  - apply L; tauto.
Qed.

(* hence, by the theorem, for every sufficiently large fuel both statements return what was observed *)
Example statements_converge :
  stmt_converges no_call no_join ex_ctx (SSelect ex_q) (VArr g_out) /\
  stmt_converges no_call no_join ex_ctx (SSelect ex_q_mix) (VArr (leaves (VArr g_out))).
Proof.
  apply (nested_and_mix_statements no_call no_join ex_ctx ex_q "g" [] g_src (VArr g_out));
    try reflexivity; try apply query_in_scope.
  exact nested_hypothesis_met.
Qed.

(* the pinned defect (D18): CopyQuery put HAVING in the WHERE slot, so below the first dimension the
   filter was dropped.  A copy that forgets the WHERE clause gives a different answer on this document. *)
Definition pinned_copy (s : select stmt) : select stmt :=
  {| s_with := []; s_from := s_from s; s_where := s_having s; s_group := s_group s;
     s_having := s_having s; s_items := s_items s; s_distinct := false;
     s_order := s_order s; s_limit := s_limit s; s_offset := s_offset s |}.

Lemma pinned_copy_differs :
  run_select (fun _ _ => OutOfModel) no_call no_join ex_ctx (pinned_copy ex_q) (Some t1) =
    Ok (VArr [p 1 11; p 2 21; p 3 31]) /\
  run_select (fun _ _ => OutOfModel) no_call no_join ex_ctx (copy_query ex_q) (Some t1) = Ok out1.
Proof. vm_compute. split; reflexivity. Qed.
