(* Proofs/C16Tokens.v -- the text written for an argument is lexed by the consumer as one literal
   token (a one-byte minus operator plus one token for negative numbers) occupying exactly its own
   bytes, and the text after it is lexed from a fresh token boundary. *)
From Coq Require Import SpecFloat Lia ZifyBool ZifyN ZifyNat DecimalString Decimal.
From GenqlV Require Import Base.Prelude Base.Fmt Model.MySqlString Model.Sanitizer Spec.C16Spec
  Proofs.C16Bytes Proofs.C16Quote.
Local Open Scope string_scope.
Local Open Scope bool_scope.
Local Opaque code strip10.

(* ---------------------------------------------------------------- generic facts *)

(* when the byte after a token does not continue it, lexing goes on as from a token boundary *)
Lemma mmodes_restart m rest :
  match rest with String f r => mcont m f r = None | EmptyString => True end ->
  mmodes m rest = mmodes MDef rest.
Proof.
  destruct rest as [|f r]; [reflexivity|]. intro H. cbn [mmodes]. unfold mlabel, mstep. rewrite H. reflexivity.
Qed.

Lemma mrun_restart m rest :
  match rest with String f r => mcont m f r = None | EmptyString => False end ->
  mrun m rest = mrun MDef rest.
Proof.
  destruct rest as [|f r]; [contradiction|]. intro H. cbn [mrun]. unfold mstep. rewrite H. reflexivity.
Qed.

(* ---------------------------------------------------------------- numbers *)

Fixpoint num_tail (r : bytes) : bool :=
  match r with
  | EmptyString => true
  | String d r' =>
      if is d "." then (match r' with EmptyString => false | _ => all_digits r' end)
      else is_digit d && num_tail r'
  end.

Lemma num_body_tail c r : num_body (String c r) = is_digit c && num_tail r.
Proof.
  revert c. induction r as [|d r' IH]; intro c; [reflexivity|].
  cbn [num_body num_tail]. destruct (is d "."); [reflexivity|].
  change (match r' with EmptyString => true | String d0 r'0 => if is d0 "." then match r'0 with EmptyString => false | String _ _ => all_digits r'0 end else num_body (String d0 r'0) end)
    with (match r' with EmptyString => true | String d0 r'0 => if is d0 "." then match r'0 with EmptyString => false | String _ _ => all_digits r'0 end else num_body (String d0 r'0) end).
  f_equal. specialize (IH d). cbn [num_body] in IH. exact IH.
Qed.

Lemma digit_not c : is_digit c = true ->
  is_letter c = false /\ is c "." = false /\ is c "e" = false /\ is c "E" = false /\
  is c "x" = false /\ is c "X" = false /\ is c "b" = false /\ is c "B" = false /\ is_blank c = false /\
  is c "@" = false.
Proof. intro H. repeat split; arith. Qed.

Lemma frac_run : forall ds rest,
  all_digits ds = true ->
  mmodes MNFrac (ds ++ rest) = (repeat_mode InWord (String.length ds) ++ mmodes MNFrac rest)%list.
Proof.
  induction ds as [|d r IH]; intros rest H; [reflexivity|].
  cbn [all_digits] in H. apply andb_prop in H. destruct H as [Hd Hr].
  cbn [append mmodes String.length repeat_mode app]. unfold mlabel, mstep. cbn [mcont]. rewrite Hd.
  f_equal. now apply IH.
Qed.

Lemma int_state_cont m d rest :
  (m = MNZero \/ m = MNInt) -> is_digit d = true -> mcont m d rest = Some MNInt.
Proof.
  intros Hm Hd. destruct (digit_not d Hd) as [H1 [H2 [H3 [H4 [H5 [H6 [H7 [H8 _]]]]]]]].
  destruct Hm as [-> | ->]; cbn [mcont]; rewrite ?H5, ?H6, ?H7, ?H8, Hd; reflexivity.
Qed.

Lemma int_state_dot m rest :
  (m = MNZero \/ m = MNInt) -> mcont m "." rest = Some MNFrac.
Proof. intros [-> | ->]; reflexivity. Qed.

Lemma num_end m f r :
  (m = MNZero \/ m = MNInt \/ m = MNFrac) ->
  (is_letter f || is_digit f || is f ".") = false -> mcont m f r = None.
Proof.
  intros Hm Hf.
  assert (H1 : is_letter f = false) by (destruct (is_letter f); [discriminate|reflexivity]).
  assert (H2 : is_digit f = false) by (destruct (is_digit f); [rewrite orb_true_r in Hf; discriminate|reflexivity]).
  assert (H3 : is f "." = false) by (destruct (is f "."); [rewrite orb_true_r in Hf; discriminate|reflexivity]).
  assert (He : is f "e" = false /\ is f "E" = false /\ is f "x" = false /\ is f "X" = false /\ is f "b" = false /\ is f "B" = false)
    by (repeat split; arith).
  destruct He as [E1 [E2 [E3 [E4 [E5 E6]]]]].
  destruct Hm as [-> | [-> | ->]]; cbn [mcont]; rewrite ?E1, ?E2, ?E3, ?E4, ?E5, ?E6, ?H1, ?H2, ?H3; reflexivity.
Qed.

Lemma lit_follow_split rest :
  lit_follow_ok rest = true ->
  match rest with
  | String f _ => (is_letter f || is_digit f || is f ".") = false /\ is f c_sq = false
  | EmptyString => True
  end.
Proof.
  destruct rest as [|f r]; [trivial|]. cbn [lit_follow_ok]. intro H.
  destruct (is_letter f), (is_digit f), (is f "."), (is f c_sq); try discriminate; auto.
Qed.

Lemma num_tail_run : forall b rest m,
  (m = MNZero \/ m = MNInt) -> num_tail b = true -> lit_follow_ok rest = true ->
  mmodes m (b ++ rest) = (repeat_mode InWord (String.length b) ++ mmodes MDef rest)%list.
Proof.
  induction b as [|d r IH]; intros rest m Hm Hb Hf.
  - cbn [append String.length repeat_mode app]. apply mmodes_restart.
    pose proof (lit_follow_split rest Hf) as Hs. destruct rest as [|f r]; [trivial|].
    apply num_end; [tauto|apply Hs].
  - cbn [num_tail] in Hb. cbn [append mmodes String.length repeat_mode app].
    destruct (is d ".") eqn:Hdot.
    + apply is_true_iff in Hdot. subst d. unfold mlabel, mstep. rewrite (int_state_dot m _ Hm).
      replace (match m with MStr d => InStr d | MBT0 | MBT => InBT | MLine => InLine | MBlock => InBlock | MSkip lbl _ => lbl | _ => InWord end)
        with InWord by (destruct Hm as [-> | ->]; reflexivity).
      f_equal. destruct r as [|d2 r2]; [discriminate|].
      rewrite frac_run by assumption. f_equal. apply mmodes_restart.
      pose proof (lit_follow_split rest Hf) as Hs. destruct rest as [|f r]; [trivial|].
      apply num_end; [tauto|apply Hs].
    + apply andb_prop in Hb. destruct Hb as [Hd Hr]. unfold mlabel, mstep. rewrite (int_state_cont m d _ Hm Hd).
      replace (match m with MStr d => InStr d | MBT0 | MBT => InBT | MLine => InLine | MBlock => InBlock | MSkip lbl _ => lbl | _ => InWord end)
        with InWord by (destruct Hm as [-> | ->]; reflexivity).
      f_equal. apply IH; auto.
Qed.

Lemma step_def_digit d rest : is_digit d = true ->
  step_def d rest = if is d "0" then MNZero else MNInt.
Proof.
  intro Hd. destruct (digit_not d Hd) as [H1 [_ [_ [_ [_ [_ [_ [_ [H9 H10]]]]]]]]].
  unfold step_def. rewrite H9, H10, H1, Hd. reflexivity.
Qed.

Lemma num_body_modes : forall b rest,
  num_body b = true -> lit_follow_ok rest = true ->
  mmodes MDef (b ++ rest) = (lit_modes InWord b ++ mmodes MDef rest)%list.
Proof.
  intros b rest Hb Hf. destruct b as [|d r]; [discriminate|].
  rewrite num_body_tail in Hb. apply andb_prop in Hb. destruct Hb as [Hd Hr].
  assert (Hm : is d "-" = false) by arith.
  cbn [lit_modes append mmodes]. rewrite Hm. unfold mlabel, mstep. cbn [mcont app]. f_equal.
  rewrite step_def_digit by assumption.
  apply num_tail_run; auto. destruct (is d "0"); auto.
Qed.

(* a minus sign followed by a number body is an operator, never the opener of a "-- " comment:
   whatever stands before it, the byte after the second minus would have to be blank *)
Lemma minus_before_number b rest :
  num_body b = true -> step_def "-" (b ++ rest) = MDef.
Proof.
  intro Hb. destruct b as [|d r]; [discriminate|].
  rewrite num_body_tail in Hb. apply andb_prop in Hb. destruct Hb as [Hd _].
  unfold step_def. cbn [append nxt_is].
  assert (is d "-" = false) as Hm by arith.
  change (is_blank "-") with false. change (is "-" "@") with false. change (is_letter "-") with false.
  change (is_digit "-") with false. change (is "-" ":") with false. change (is "-" ".") with false.
  change (is "-" "/") with false. change (is "-" "#") with false. change (is "-" "-") with true.
  cbn iota. rewrite Hm. reflexivity.
Qed.

(* the hazard of the brief: template "3-$1" with a negative argument gives "3--5"; the two minus
   signs are two operator tokens because the byte after them is a digit, not a blank *)
Lemma minus_minus_number b rest :
  num_body b = true -> step_def "-" (String "-" (b ++ rest)) = MDef.
Proof.
  intro Hb. destruct b as [|d r]; [discriminate|].
  rewrite num_body_tail in Hb. apply andb_prop in Hb. destruct Hb as [Hd _].
  unfold step_def. cbn [append nxt_is peek2 blank_or_eof].
  assert (is_blank d = false) as Hbl by arith.
  change (is_blank "-") with false. change (is "-" "@") with false. change (is_letter "-") with false.
  change (is_digit "-") with false. change (is "-" ":") with false. change (is "-" ".") with false.
  change (is "-" "/") with false. change (is "-" "#") with false. change (is "-" "-") with true.
  cbn iota. rewrite Hbl. reflexivity.
Qed.

Theorem number_token : forall s rest,
  num_text s = true -> lit_follow_ok rest = true ->
  mmodes MDef (s ++ rest) = (lit_modes InWord s ++ mmodes MDef rest)%list.
Proof.
  intros s rest Hs Hf. destruct s as [|c r]; [discriminate|].
  cbn [num_text] in Hs. destruct (is c "-") eqn:Hm.
  - apply is_true_iff in Hm. subst c.
    cbn [lit_modes]. change (is "-" "-") with true. cbn iota.
    cbn [append mmodes]. unfold mlabel at 1, mstep at 1. cbn [mcont app]. f_equal.
    rewrite (minus_before_number r rest Hs).
    pose proof (num_body_modes r rest Hs Hf) as H.
    destruct r as [|d r']; [discriminate|].
    cbn [lit_modes] in H. assert (is d "-" = false) as Hd.
    { rewrite num_body_tail in Hs. apply andb_prop in Hs. destruct Hs as [Hs _]. arith. }
    rewrite Hd in H. exact H.
  - pose proof (num_body_modes (String c r) rest Hs Hf) as H. cbn [lit_modes] in *. exact H.
Qed.

(* ---------------------------------------------------------------- strconv texts are number texts *)

Lemma all_digits_nonempty_body s : all_digits s = true -> s <> EmptyString -> num_body s = true.
Proof.
  induction s as [|c r IH]; intros H Hne; [congruence|].
  cbn [all_digits] in H. apply andb_prop in H. destruct H as [Hc Hr].
  rewrite num_body_tail, Hc. cbn [andb].
  clear IH Hne Hc. induction r as [|d r' IH]; [reflexivity|].
  cbn [all_digits] in Hr. apply andb_prop in Hr. destruct Hr as [Hd Hr'].
  cbn [num_tail]. assert (is d "." = false) as -> by arith. rewrite Hd. cbn [andb]. now apply IH.
Qed.

Lemma uint_digits (d : Decimal.uint) : all_digits (NilEmpty.string_of_uint d) = true.
Proof. induction d; cbn [NilEmpty.string_of_uint all_digits]; try reflexivity; rewrite IHd; reflexivity. Qed.

Lemma N_to_dec_digits n : all_digits (N_to_dec n) = true /\ N_to_dec n <> EmptyString.
Proof.
  unfold N_to_dec, NilZero.string_of_uint. destruct (N.to_uint n) eqn:E.
  - split; [reflexivity|discriminate].
  - split; [apply uint_digits|discriminate].
  - split; [apply uint_digits|discriminate].
  - split; [apply uint_digits|discriminate].
  - split; [apply uint_digits|discriminate].
  - split; [apply uint_digits|discriminate].
  - split; [apply uint_digits|discriminate].
  - split; [apply uint_digits|discriminate].
  - split; [apply uint_digits|discriminate].
  - split; [apply uint_digits|discriminate].
  - split; [apply uint_digits|discriminate].
Qed.

Theorem int_text_is_number : forall z, num_text (Z_to_dec z) = true.
Proof.
  intro z. destruct z as [|p|p]; cbn [Z_to_dec].
  - reflexivity.
  - destruct (N_to_dec_digits (Npos p)) as [H1 H2]. pose proof (all_digits_nonempty_body _ H1 H2) as Hb.
    destruct (N_to_dec (Npos p)) as [|c r] eqn:E; [congruence|]. cbn [num_text].
    assert (is c "-" = false) as -> by (cbn [all_digits] in H1; apply andb_prop in H1; destruct H1; arith).
    exact Hb.
  - destruct (N_to_dec_digits (Npos p)) as [H1 H2]. cbn [num_text]. change (is "-" "-") with true. cbn iota.
    now apply all_digits_nonempty_body.
Qed.

(* ---- strconv.FormatFloat(x, 'f', -1, 64) ---- *)

Lemma all_digits_app a b : all_digits (a ++ b) = all_digits a && all_digits b.
Proof. induction a as [|c r IH]; [reflexivity|]. cbn. rewrite IH. now rewrite andb_assoc. Qed.

Lemma all_digits_zeros k : all_digits (zeros k) = true.
Proof. induction k; [reflexivity|]. cbn [zeros all_digits]. now rewrite IHk. Qed.

Lemma all_digits_substring : forall s n m, all_digits s = true -> all_digits (String.substring n m s) = true.
Proof.
  induction s as [|c r IH]; intros n m H.
  - destruct n, m; reflexivity.
  - cbn [all_digits] in H. apply andb_prop in H. destruct H as [Hc Hr].
    destruct n as [|n]; cbn [String.substring].
    + destruct m as [|m]; [reflexivity|]. cbn [all_digits]. rewrite Hc. now apply IH.
    + now apply IH.
Qed.

Lemma substring_nonempty : forall s n m,
  (0 < m)%nat -> (n + m <= String.length s)%nat -> String.substring n m s <> EmptyString.
Proof.
  induction s as [|c r IH]; intros n m Hm Hl.
  - cbn in Hl. lia.
  - destruct n as [|n]; cbn [String.substring].
    + destruct m; [lia|discriminate].
    + apply IH; [assumption|cbn in Hl; lia].
Qed.

Lemma num_tail_dot : forall a b,
  all_digits a = true -> all_digits b = true -> b <> EmptyString ->
  num_tail (a ++ String "." b) = true.
Proof.
  induction a as [|c r IH]; intros b Ha Hb Hne.
  - cbn [append num_tail]. change (is "." ".") with true. cbn iota. destruct b; [congruence|exact Hb].
  - cbn [all_digits] in Ha. apply andb_prop in Ha. destruct Ha as [Hc Hr].
    cbn [append num_tail]. assert (is c "." = false) as -> by arith. rewrite Hc. cbn [andb]. now apply IH.
Qed.

Lemma num_body_dot a b :
  all_digits a = true -> a <> EmptyString -> all_digits b = true -> b <> EmptyString ->
  num_body (a ++ String "." b) = true.
Proof.
  intros Ha Hna Hb Hnb. destruct a as [|c r]; [congruence|].
  cbn [all_digits] in Ha. apply andb_prop in Ha. destruct Ha as [Hc Hr].
  cbn [append]. rewrite num_body_tail, Hc. cbn [andb]. now apply num_tail_dot.
Qed.

Lemma digit_first_not_minus s : all_digits s = true -> s <> EmptyString ->
  match s with String c _ => is c "-" = false | EmptyString => False end.
Proof.
  destruct s as [|c r]; [congruence|]. intros H _. cbn [all_digits] in H. apply andb_prop in H. destruct H. arith.
Qed.

Lemma num_text_of_body (neg : bool) (body : bytes) :
  num_body body = true -> match body with String c _ => is c "-" = false | EmptyString => False end ->
  num_text (if neg then String "-" body else body) = true.
Proof.
  intros Hb Hc. destruct neg.
  - cbn [num_text]. change (is "-" "-") with true. exact Hb.
  - destruct body as [|c r]; [contradiction|]. cbn [num_text]. rewrite Hc. exact Hb.
Qed.

Lemma fmt_f_sig_number neg sig q : num_text (fmt_f_sig neg sig q) = true.
Proof.
  unfold fmt_f_sig. destruct (N_to_dec_digits sig) as [Hd Hne].
  set (ds := N_to_dec sig) in *.
  set (nd := Z.of_nat (String.length ds)).
  set (dp := (nd + q)%Z).
  assert (Hlen : (0 < String.length ds)%nat) by (destruct ds; [congruence|cbn; lia]).
  apply num_text_of_body.
  - destruct (dp <=? 0)%Z eqn:E1.
    + change ("0." ++ zeros (Z.to_nat (- dp)) ++ ds) with (String "0" (String "." (zeros (Z.to_nat (- dp)) ++ ds))).
      change (String "0" (String "." (zeros (Z.to_nat (- dp)) ++ ds))) with ("0" ++ String "." (zeros (Z.to_nat (- dp)) ++ ds)).
      apply num_body_dot; try reflexivity; try discriminate.
      * rewrite all_digits_app, all_digits_zeros, Hd. reflexivity.
      * destruct (zeros _); [exact Hne|discriminate].
    + destruct (nd <=? dp)%Z eqn:E2.
      * apply all_digits_nonempty_body.
        -- rewrite all_digits_app, Hd, all_digits_zeros. reflexivity.
        -- destruct ds; [congruence|discriminate].
      * change (String.substring 0 (Z.to_nat dp) ds ++ "." ++ String.substring (Z.to_nat dp) (Z.to_nat (nd - dp)) ds)
          with (String.substring 0 (Z.to_nat dp) ds ++ String "." (String.substring (Z.to_nat dp) (Z.to_nat (nd - dp)) ds)).
        apply num_body_dot.
        -- now apply all_digits_substring.
        -- apply substring_nonempty; unfold nd in *; lia.
        -- now apply all_digits_substring.
        -- apply substring_nonempty; unfold nd in *; lia.
  - destruct (dp <=? 0)%Z eqn:E1; [reflexivity|].
    destruct (nd <=? dp)%Z eqn:E2.
    + pose proof (digit_first_not_minus ds Hd Hne) as H. destruct ds; [contradiction|exact H].
    + assert (Hs : all_digits (String.substring 0 (Z.to_nat dp) ds) = true) by now apply all_digits_substring.
      assert (Hn : String.substring 0 (Z.to_nat dp) ds <> EmptyString) by (apply substring_nonempty; unfold nd in *; lia).
      pose proof (digit_first_not_minus _ Hs Hn) as H.
      destruct (String.substring 0 (Z.to_nat dp) ds); [contradiction|exact H].
Qed.

(* every text the model writes for a finite float64 is a number text *)
Theorem float_text_is_number : forall f s, fmt_f f = Ok s -> num_text s = true.
Proof.
  intros f s H. destruct f as [sg|sg| |sg m e]; unfold fmt_f in H; try discriminate.
  - inversion H. destruct sg; reflexivity.
  - destruct (strip10 _ _ _) as [sig q']. destruct (Nat.leb _ _); [|discriminate].
    inversion H. apply fmt_f_sig_number.
Qed.

(* ---------------------------------------------------------------- true / false / null *)

Fixpoint all_wordchars (s : bytes) : bool :=
  match s with EmptyString => true | String c r => (is_letter c || is_digit c) && all_wordchars r end.

Lemma word_run : forall w rest,
  all_wordchars w = true ->
  mmodes MIdent (w ++ rest) = (repeat_mode InWord (String.length w) ++ mmodes MIdent rest)%list.
Proof.
  induction w as [|c r IH]; intros rest H; [reflexivity|].
  cbn [all_wordchars] in H. apply andb_prop in H. destruct H as [Hc Hr].
  cbn [append mmodes String.length repeat_mode app]. unfold mlabel, mstep. cbn [mcont]. rewrite Hc.
  f_equal. now apply IH.
Qed.

Lemma ident_end rest :
  lit_follow_ok rest = true -> mmodes MIdent rest = mmodes MDef rest.
Proof.
  intro Hf. apply mmodes_restart. pose proof (lit_follow_split rest Hf) as Hs.
  destruct rest as [|f r]; [trivial|]. destruct Hs as [Hs _]. cbn [mcont].
  destruct (is_letter f), (is_digit f); try discriminate; reflexivity.
Qed.

Theorem keyword_token : forall kw rest,
  (kw = "null" \/ kw = "true" \/ kw = "false") -> lit_follow_ok rest = true ->
  mmodes MDef (kw ++ rest) = (lit_modes InWord kw ++ mmodes MDef rest)%list.
Proof.
  intros kw rest Hk Hf.
  destruct Hk as [-> | [-> | ->]].
  - change ("null" ++ rest) with (String "n" ("ull" ++ rest)).
    cbn [mmodes]. unfold mlabel at 1, mstep at 1. cbn [mcont].
    replace (step_def "n" ("ull" ++ rest)) with MIdent by reflexivity.
    rewrite word_run by reflexivity. rewrite ident_end by assumption. reflexivity.
  - change ("true" ++ rest) with (String "t" ("rue" ++ rest)).
    cbn [mmodes]. unfold mlabel at 1, mstep at 1. cbn [mcont].
    replace (step_def "t" ("rue" ++ rest)) with MIdent by reflexivity.
    rewrite word_run by reflexivity. rewrite ident_end by assumption. reflexivity.
  - change ("false" ++ rest) with (String "f" ("alse" ++ rest)).
    cbn [mmodes]. unfold mlabel at 1, mstep at 1. cbn [mcont].
    replace (step_def "f" ("alse" ++ rest)) with MIdent by reflexivity.
    rewrite word_run by reflexivity. rewrite ident_end by assumption. reflexivity.
Qed.

(* ---------------------------------------------------------------- quoted strings *)

Lemma str_run : forall s rest,
  nxt_is rest c_sq = false ->
  mmodes (MStr c_sq) (esc s ++ String c_sq rest) =
  (repeat_mode (InStr c_sq) (String.length (esc s) + 1) ++ mmodes MDef rest)%list.
Proof.
  induction s as [|c r IH]; intros rest Hr.
  - cbn [esc append String.length Nat.add repeat_mode app mmodes]. unfold mlabel, mstep. cbn [mcont].
    change (is c_sq c_sq) with true. cbn iota. rewrite Hr. reflexivity.
  - cbn [esc]. destruct (is c c_bsl) eqn:Hb.
    + apply is_true_iff in Hb. subst c.
      change (String c_bsl (String c_bsl (esc r)) ++ String c_sq rest)
        with (String c_bsl (String c_bsl (esc r ++ String c_sq rest))).
      cbn [mmodes].
      change (mstep (MStr c_sq) c_bsl (String c_bsl (esc r ++ String c_sq rest))) with (MSkip (InStr c_sq) (MStr c_sq)).
      change (mstep (MSkip (InStr c_sq) (MStr c_sq)) c_bsl (esc r ++ String c_sq rest)) with (MStr c_sq).
      rewrite (IH rest Hr). reflexivity.
    + destruct (is c c_sq) eqn:Hq.
      * apply is_true_iff in Hq. subst c.
        change (String c_sq (String c_sq (esc r)) ++ String c_sq rest)
          with (String c_sq (String c_sq (esc r ++ String c_sq rest))).
        cbn [mmodes].
        change (mstep (MStr c_sq) c_sq (String c_sq (esc r ++ String c_sq rest))) with (MSkip (InStr c_sq) (MStr c_sq)).
        change (mstep (MSkip (InStr c_sq) (MStr c_sq)) c_sq (esc r ++ String c_sq rest)) with (MStr c_sq).
        rewrite (IH rest Hr). reflexivity.
      * cbn [append mmodes String.length Nat.add repeat_mode app]. unfold mlabel at 1, mstep at 1. cbn [mcont].
        rewrite Hq, Hb. rewrite (IH rest Hr). reflexivity.
Qed.

Theorem string_token : forall s rest,
  nxt_is rest c_sq = false ->
  mmodes MDef (quote_string s ++ rest) = (lit_modes (InStr c_sq) (quote_string s) ++ mmodes MDef rest)%list.
Proof.
  intros s rest Hr. rewrite quote_string_esc.
  cbn [lit_modes]. change (is c_sq "-") with false. cbn iota.
  cbn [append mmodes]. unfold mlabel at 1, mstep at 1. cbn [mcont app]. f_equal.
  change (step_def c_sq ((esc s ++ String c_sq EmptyString) ++ rest)) with (MStr c_sq).
  rewrite app_assoc_s. cbn [append]. rewrite (str_run s rest Hr).
  rewrite length_app_s. cbn [String.length]. reflexivity.
Qed.

(* ---------------------------------------------------------------- every literal, one statement *)

Lemma follow_ok_quote rest : lit_follow_ok rest = true -> nxt_is rest c_sq = false.
Proof.
  intro H. pose proof (lit_follow_split rest H) as Hs. destruct rest as [|f r]; [reflexivity|]. apply Hs.
Qed.

(* C16_shape_partial: whatever the argument is, the text written for it occupies exactly its own
   bytes as one literal token (a minus operator + one token for negative numbers), opens no other
   mode, and leaves the tokenizer at a token boundary: the text after it is lexed as if the
   literal were not there. *)
Theorem literal_is_one_token : forall a txt rest,
  fmt_arg a = Ok txt -> lit_follow_ok rest = true ->
  mmodes MDef (txt ++ rest) = (lit_modes (inner_mode a) txt ++ mmodes MDef rest)%list.
Proof.
  intros a txt rest Hf Hr. destruct a; cbn [fmt_arg inner_mode] in *.
  - inversion Hf; subst txt. apply keyword_token; auto.
  - inversion Hf; subst txt. apply number_token; [apply int_text_is_number|assumption].
  - apply number_token; [eapply float_text_is_number; eassumption|assumption].
  - inversion Hf; subst txt. destruct b; apply keyword_token; auto.
  - inversion Hf; subst txt. apply string_token. now apply follow_ok_quote.
  - discriminate.
Qed.

Lemma san_loop_render : forall parts args used buf buf' used',
  san_loop true quote_string fmt_f parts args used buf = Ok (buf', used') ->
  exists r, render parts args = Some r /\ buf' = buf ++ r.
Proof.
  induction parts as [|p ps IH]; intros args used buf buf' used' H.
  - cbn in H. inversion H. exists EmptyString. split; [reflexivity|]. now rewrite app_nil_r_s.
  - destruct p as [s|n]; cbn [san_loop render] in *.
    + destruct (IH _ _ _ _ _ H) as [r [Hr ->]]. rewrite Hr. exists (s ++ r). split; [reflexivity|]. now rewrite app_assoc_s.
    + cbn [andb] in H.
      destruct (wrap64 (n - 1) <? 0)%Z eqn:H0; [discriminate|].
      destruct (wrap64 (n - 1) >=? zlen args)%Z; [discriminate|].
      unfold index_z in H. rewrite H0 in H.
      destruct (nth_error args (Z.to_nat (wrap64 (n - 1)))) as [a|]; [|discriminate]. cbn [bind] in H.
      assert (Hfa : match a with AStr s => Ok (quote_string s) | AFloat f => fmt_f f | _ => fmt_arg a end = fmt_arg a)
        by (destruct a; reflexivity).
      rewrite Hfa in H. destruct (fmt_arg a) as [txt| | |]; try discriminate. cbn [bind] in H.
      destruct (set_index_z used (wrap64 (n - 1)) true) as [u'| | |]; try discriminate. cbn [bind] in H.
      destruct (IH _ _ _ _ _ H) as [r [Hr ->]]. rewrite Hr. exists (txt ++ r). split; [reflexivity|]. now rewrite app_assoc_s.
Qed.

Theorem sanitize_ok_text : forall parts args out,
  sanitize parts args = Ok out -> render parts args = Some out.
Proof.
  intros parts args out H. unfold sanitize, sanitize_with in H.
  destruct (san_loop true quote_string fmt_f parts args (repeat false (List.length args)) EmptyString)
    as [[buf used]| | |] eqn:Hl; cbn [bind] in H; try discriminate.
  destruct (forallb (fun b => b) used); [|discriminate]. inversion H; subst out.
  destruct (san_loop_render _ _ _ _ _ _ Hl) as [r [Hr ->]]. exact Hr.
Qed.
