(* Proofs/C15Lemmas.v — the comparison model is a coherent order. *)
From Coq Require Import QArith.
From GenqlV Require Import Base.Prelude Base.Fmt Model.Compare Spec.OrderSpec Proofs.StrOrder.
Local Open Scope Z_scope.

(* ---------- dyadic comparison is the rational order ---------- *)


Lemma pow2_pos k : 0 <= k -> 0 < 2 ^ k.
Proof. intros. apply Z.pow_pos_nonneg; lia. Qed.

Lemma to_pos_pow2 k : 0 <= k -> Zpos (Z.to_pos (2 ^ k)) = 2 ^ k.
Proof. intros. apply Z2Pos.id. apply pow2_pos; assumption. Qed.

(* dy_Q m e  ==  (m * 2^(e+k)) / 2^k   for any k making both exponents non-negative *)
Lemma dy_Q_scale m e k : 0 <= k -> 0 <= e + k ->
  Qeq (dy_Q m e) (Qmake (m * 2 ^ (e + k)) (Z.to_pos (2 ^ k))).
Proof.
  intros Hk Hek. unfold dy_Q, Qeq. cbn [Qnum Qden].
  rewrite to_pos_pow2 by assumption.
  destruct (Z.leb_spec 0 e) as [He|He].
  - cbn [Qnum Qden]. rewrite Z.pow_add_r by lia. ring.
  - cbn [Qnum Qden]. rewrite to_pos_pow2 by lia.
    replace k with ((e + k) + (- e)) at 1 by lia.
    rewrite Z.pow_add_r by lia. ring.
Qed.

Lemma Zcompare_scale a b c : 0 < c -> (a * c ?= b * c) = (a ?= b).
Proof. intros. symmetry. apply Zmult_compare_compat_r. lia. Qed.

Lemma dy_cmp_Q m1 e1 m2 e2 :
  dy_cmp m1 e1 m2 e2 = sgn_cmp (Qcompare (dy_Q m1 e1) (dy_Q m2 e2)).
Proof.
  unfold dy_cmp.
  set (e := Z.min e1 e2).
  set (k := Z.max 0 (- e)).
  assert (Hk : 0 <= k) by (unfold k; lia).
  assert (H1 : 0 <= e1 + k) by (unfold k, e; lia).
  assert (H2 : 0 <= e2 + k) by (unfold k, e; lia).
  rewrite (Qcompare_comp _ _ (dy_Q_scale m1 e1 k Hk H1) _ _ (dy_Q_scale m2 e2 k Hk H2)).
  unfold Qcompare. cbn [Qnum Qden].
  rewrite (Zcompare_scale (m1 * 2 ^ (e1 + k)) (m2 * 2 ^ (e2 + k)) (Z.pos (Z.to_pos (2 ^ k))))
    by (rewrite to_pos_pow2 by assumption; apply pow2_pos; assumption).
  replace (e1 + k) with ((e1 - e) + (e + k)) by lia.
  replace (e2 + k) with ((e2 - e) + (e + k)) by lia.
  assert (He : 0 <= e + k) by (unfold k; lia).
  assert (D1 : 0 <= e1 - e) by (unfold e; lia).
  assert (D2 : 0 <= e2 - e) by (unfold e; lia).
  rewrite (Z.pow_add_r 2 (e1 - e) (e + k) D1 He), (Z.pow_add_r 2 (e2 - e) (e + k) D2 He).
  rewrite !Z.mul_assoc.
  rewrite (Zcompare_scale (m1 * 2 ^ (e1 - e)) (m2 * 2 ^ (e2 - e)) (2 ^ (e + k)))
    by (apply pow2_pos; assumption).
  destruct (m1 * 2 ^ (e1 - e) ?= m2 * 2 ^ (e2 - e)); reflexivity.
Qed.

Lemma Zcompare_as_dy x y :
  match Z.compare x y with Lt => -1 | Eq => 0 | Gt => 1 end = dy_cmp x 0 y 0.
Proof. unfold dy_cmp. cbn. rewrite !Z.mul_1_r. reflexivity. Qed.

Lemma dy_Q_int z : dy_Q z 0 = Qmake z 1.
Proof. unfold dy_Q. cbn. rewrite Z.mul_1_r. reflexivity. Qed.

(* ---------- the numeric part of Compare ---------- *)

Definition exact_dy (v : gval) : option (Z * Z) :=
  match v with
  | GInt _ z => Some (z, 0)
  | GFloat _ m e => Some (m, e)
  | _ => None
  end.

Lemma num_val_exact v p : exact_dy v = Some p -> num_val v = Some (dy_Q (fst p) (snd p)).
Proof.
  destruct v; cbn [exact_dy num_val]; intros H; inversion H; subst; cbn [fst snd];
    [rewrite dy_Q_int|]; reflexivity.
Qed.

Lemma Cmp_exact a b pa pb z :
  exact_dy a = Some pa -> exact_dy b = Some pb -> Cmp a b = Ok z ->
  z = dy_cmp (fst pa) (snd pa) (fst pb) (snd pb).
Proof.
  destruct a as [ka x|sa ma ea| | |], b as [kb y|sb mb eb| | |]; cbn; intros Ha Hb H;
    inversion Ha; inversion Hb; subst; cbn in *.
  - inversion H. apply Zcompare_as_dy.
  - destruct (int_exact_f64 x); cbn in H; inversion H. reflexivity.
  - destruct (int_exact_f64 y); cbn in H; inversion H. reflexivity.
  - inversion H. reflexivity.
Qed.

Lemma Compare_num a b pa pb z :
  exact_dy a = Some pa -> exact_dy b = Some pb -> Compare a b = Ok z ->
  z = sgn_cmp (Qcompare (dy_Q (fst pa) (snd pa)) (dy_Q (fst pb) (snd pb))).
Proof.
  intros Ha Hb H. rewrite <- dy_cmp_Q. eapply Cmp_exact; eauto.
  destruct a, b; cbn in Ha, Hb; try discriminate; exact H.
Qed.

Lemma Compare_num_total a b x y :
  num_val a = Some x -> num_val b = Some y -> num_pair_in_claim a b = true ->
  Compare a b = Ok (sgn_cmp (Qcompare x y)).
Proof.
  destruct a as [ka u|sa ma ea| | |], b as [kb v|sb mb eb| | |]; cbn; intros Ha Hb Hc;
    inversion Ha; inversion Hb; subst; clear Ha Hb.
  - f_equal. rewrite Zcompare_as_dy, dy_cmp_Q, !dy_Q_int. reflexivity.
  - rewrite andb_true_r in Hc. rewrite Hc. cbn. f_equal. rewrite dy_cmp_Q, dy_Q_int. reflexivity.
  - rewrite Hc. cbn. f_equal. rewrite dy_cmp_Q, dy_Q_int. reflexivity.
  - f_equal. apply dy_cmp_Q.
Qed.

(* ---------- range ---------- *)

Lemma sgn_cmp_range c : sgn_cmp c = -1 \/ sgn_cmp c = 0 \/ sgn_cmp c = 1.
Proof. destruct c; cbn; auto. Qed.

Lemma dy_cmp_range a b c d : dy_cmp a b c d = -1 \/ dy_cmp a b c d = 0 \/ dy_cmp a b c d = 1.
Proof. rewrite dy_cmp_Q. apply sgn_cmp_range. Qed.

Ltac bind_inv H :=
  repeat match type of H with
  | bind ?r _ = Ok _ => let E := fresh "E" in destruct r eqn:E; cbn [bind] in H; try discriminate
  end.

Lemma Compare_range a b z : Compare a b = Ok z -> z = -1 \/ z = 0 \/ z = 1.
Proof.
  unfold Compare, compare_num, Cmp.
  destruct a as [ka u|sa ma ea|s|bb|], b as [kb v|sb mb eb|t|cc|]; intros H; bind_inv H; inversion H;
    try apply str_cmp_range; try apply dy_cmp_range.
  destruct (u ?= v); auto.
Qed.

(* ---------- strings and mixed ---------- *)

Lemma Compare_str s t : Compare (GStr s) (GStr t) = Ok (str_cmp s t).
Proof. reflexivity. Qed.

Lemma Compare_num_str a s t :
  is_num a = true -> fmt_gval a = Ok s ->
  Compare a (GStr t) = Ok (str_cmp s t) /\ Compare (GStr t) a = Ok (str_cmp t s).
Proof.
  destruct a; cbn [is_num]; try discriminate; intros _ H; unfold Compare, compare_num;
    rewrite H; cbn; auto.
Qed.

(* ---------- reflexive, antisymmetric ---------- *)

Lemma Compare_refl a z : Compare a a = Ok z -> z = 0.
Proof.
  unfold Compare, compare_num, Cmp.
  destruct a as [ka u|sa ma ea|s|bb|]; intros H; bind_inv H; inversion H; subst;
    try apply str_cmp_refl.
  - rewrite Z.compare_refl. reflexivity.
  - cbn in E. inversion E; subst. cbn. unfold dy_cmp. rewrite Z.compare_refl. reflexivity.
Qed.

Lemma sgn_cmp_opp c : sgn_cmp (CompOpp c) = - sgn_cmp c.
Proof. destruct c; reflexivity. Qed.

Lemma dy_cmp_antisym a b c d : dy_cmp a b c d = - dy_cmp c d a b.
Proof. rewrite !dy_cmp_Q, <- sgn_cmp_opp, <- Qcompare_antisym. reflexivity. Qed.

Lemma Compare_antisym a b x y : Compare a b = Ok x -> Compare b a = Ok y -> x = - y.
Proof.
  unfold Compare, compare_num, Cmp.
  destruct a as [ka u|sa ma ea|s|bb|], b as [kb v|sb mb eb|t|cc|]; intros H1 H2;
    cbn [bind fmt_gval as_f64] in H1, H2;
    bind_inv H1; bind_inv H2;
    repeat match goal with
    | H : Ok _ = Ok _ |- _ => inversion H; subst; clear H
    | E1 : ?r = Ok _, E2 : ?r = Ok _ |- _ => rewrite E1 in E2
    end;
    try apply str_cmp_antisym; try apply dy_cmp_antisym.
  rewrite (Z.compare_antisym u v). destruct (u ?= v); reflexivity.
Qed.

(* ---------- transitive within each kind ---------- *)

Lemma sgn_le0 c : sgn_cmp c <= 0 <-> c <> Gt.
Proof. destruct c; cbn; split; intros; try lia; try congruence. Qed.

Lemma Compare_trans_num a b c x y z :
  is_num a = true -> is_num b = true -> is_num c = true ->
  Compare a b = Ok x -> Compare b c = Ok y -> Compare a c = Ok z ->
  x <= 0 -> y <= 0 -> z <= 0.
Proof.
  intros Ha Hb Hc H1 H2 H3.
  assert (Ea : exists pa, exact_dy a = Some pa) by (destruct a; try discriminate; eexists; reflexivity).
  assert (Eb : exists pb, exact_dy b = Some pb) by (destruct b; try discriminate; eexists; reflexivity).
  assert (Ec : exists pc, exact_dy c = Some pc) by (destruct c; try discriminate; eexists; reflexivity).
  destruct Ea as [pa Ea], Eb as [pb Eb], Ec as [pc Ec].
  rewrite (Compare_num _ _ _ _ _ Ea Eb H1), (Compare_num _ _ _ _ _ Eb Ec H2), (Compare_num _ _ _ _ _ Ea Ec H3).
  rewrite !sgn_le0. intros L1 L2.
  change (Qle (dy_Q (fst pa) (snd pa)) (dy_Q (fst pc) (snd pc))).
  eapply Qle_trans; [exact L1 | exact L2].
Qed.

Lemma Compare_trans_str s t u :
  str_cmp s t <= 0 -> str_cmp t u <= 0 -> str_cmp s u <= 0.
Proof. apply str_cmp_le_trans. Qed.

(* ---------- the pinned conversion breaks antisymmetry ---------- *)

Lemma pinned_refuted :
  exists a b x y, pinned_Cmp a b = Ok x /\ pinned_Cmp b a = Ok y /\ x <> - y.
Proof.
  exists (GInt KInt 1), (GFloat false 3 (-1)), 0, 1. vm_compute. repeat split; congruence.
Qed.

Lemma pinned_refuted_unsigned :
  exists x, pinned_Cmp (GInt KUint 1) (GInt KInt (-1)) = Ok x /\ x <> 1.
Proof. exists (-1). vm_compute. split; congruence. Qed.
