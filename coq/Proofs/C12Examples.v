(* Proofs/C12Examples.v — property C12: non-vacuity (concrete queries that satisfy every premise of
   the theorems and return rows), the function hook of the correspondence run meets [call_ok], and
   witnesses that each exclusion in [stmt_ok] is needed / that row multisets are NOT deterministic
   once a floating-point aggregate consumes the output of a join. *)
From Coq Require Import Floats Sorting.Permutation.
From GenqlV Require Import Base.Prelude Base.Value Model.Ast Model.Eval Model.Exec Model.Join Run.EngineRun
                           Spec.PlainSpec Proofs.C12Clean Proofs.C12Eval Proofs.C12Lemmas Proofs.C12Join.
Local Open Scope string_scope.

(* the user function of the C12 correspondence run (identity) returns its clean argument *)
Lemma c12_call_ok : call_ok c12_call.
Proof.
  intros qual name vs cur r Hvs H. unfold c12_call in H.
  destruct (String.eqb name "idf" || String.eqb name "slowf")%bool; [|discriminate].
  destruct vs as [|x [|y rest]]; try discriminate.
  destruct (String.eqb qual "spin" || String.eqb qual "spinasync")%bool; inversion H; subst; cbn;
    [exact I || reflexivity || constructor | inversion Hvs; assumption].
Qed.

Lemma no_call_ok : call_ok no_call.
Proof. intros qual name vs cur r _ H. discriminate H. Qed.

Definition sel (from : from_clause stmt) (items : list (sel_item stmt)) : select stmt :=
  {| s_with := []; s_from := from; s_where := None; s_group := []; s_having := None;
     s_items := items; s_distinct := false; s_order := []; s_limit := None; s_offset := None |}.

Definition doc : value :=
  VObj [("t", VArr [VObj [("a", VNum 1); ("b", VStr "x")]; VObj [("a", VNum 2); ("b", VStr "y")]]);
        ("u", VArr [VObj [("a", VNum 1); ("c", VStr "p")]])].

(* SELECT a, (SELECT <-.u AS up, b FROM dual) AS s, IDF(b) AS f, CASE WHEN a = 1 THEN b ELSE 'z' END AS c, * FROM t
   — column wrapper, literal wrapper, subquery over the scope copy reading through `<-`, function,
   CASE, star *)
Definition q1 : stmt :=
  SSelect (sel (FTable ["t"] "")
    [IExpr (ECol ["a"]) "a";
     IExpr (ESub (SSelect (sel FDual [IExpr (ECol ["<-"; "u"]) "up"; IExpr (ECol ["b"]) "b"]))) "s";
     IExpr (ECall "" "idf" [ECol ["b"]]) "f";
     IExpr (ECase [(ECmp OpEq (ECol ["a"]) (ENum 1), ECol ["b"])] (Some (EStr "z"))) "c";
     IStar]).

Definition rows1 : list value :=
  [VObj [("a", VNum 1); ("b", VStr "x"); ("c", VStr "x"); ("f", VStr "x");
         ("s", VObj [("b", VStr "x"); ("up", VArr [VObj [("a", VNum 1); ("c", VStr "p")]])])];
   VObj [("a", VNum 2); ("b", VStr "y"); ("c", VStr "z"); ("f", VStr "y");
         ("s", VObj [("b", VStr "y"); ("up", VArr [VObj [("a", VNum 1); ("c", VStr "p")]])])]].

Lemma ex_q1 : cleanb doc = true /\ query_ok q1 = true /\
              api_run c12_call exec_join 40 false doc q1 = Ok rows1.
Proof. repeat split; vm_compute; reflexivity. Qed.

(* SELECT * FROM t t LEFT JOIN u u ON t.a = u.a — merged rows and a NULL-extended row *)
Definition q2 : stmt :=
  SSelect (sel (FJoin JLeft SAuto (FTable ["t"] "t") (FTable ["u"] "u")
                 (ECmp OpEq (ECol ["t"; "a"]) (ECol ["u"; "a"]))) [IStar]).

Definition rows2 : list value :=
  [VObj [("t", VObj [("a", VNum 1); ("b", VStr "x")]); ("u", VObj [("a", VNum 1); ("c", VStr "p")])];
   VObj [("t", VObj [("a", VNum 2); ("b", VStr "y")]); ("u", VNull)]].

Lemma ex_q2 : query_ok q2 = true /\ api_run c12_call exec_join 40 false doc q2 = Ok rows2.
Proof. split; vm_compute; reflexivity. Qed.

(* WITH w AS (SELECT * FROM t) SELECT a, COUNT( * ) AS n, * FROM w GROUP BY a ORDER BY a DESC LIMIT 5 *)
Definition q3 : stmt :=
  SSelect {| s_with := [("w", SSelect (sel (FTable ["t"] "") [IStar]))]; s_from := FTable ["w"] "";
             s_where := None; s_group := [gcol "a"]; s_having := None;
             s_items := [IExpr (ECol ["a"]) "a"; IExpr (EAgg ACount None) "n"; IStar];
             s_distinct := false; s_order := [(["a"], false)]; s_limit := Some 5%Z; s_offset := None |}.

Definition rows3 : list value :=
  [VObj [("*", VArr [VObj [("a", VNum 2); ("b", VStr "y")]]); ("a", VNum 2); ("n", VNum 1)];
   VObj [("*", VArr [VObj [("a", VNum 1); ("b", VStr "x")]]); ("a", VNum 1); ("n", VNum 1)]].

Lemma ex_q3 : query_ok q3 = true /\ api_run c12_call exec_join 40 false doc q3 = Ok rows3.
Proof. split; vm_compute; reflexivity. Qed.

(* SELECT a, ((a + 1, 'lit'), b, NULL, a * missing, (SELECT c FROM u)) AS v FROM t
   — a value tuple as a VALUE: a tuple nested in it holds an arithmetic member (a pointer to float64) and a string literal
   (NeutalString); then a column, NULL, arithmetic over a missing column (nil *float64), a subquery.  The stored value
   is the array of the recursively unwrapped members. *)
Definition q4 : stmt :=
  SSelect (sel (FTable ["t"] "")
    [IExpr (ECol ["a"]) "a";
     IExpr (ETuple [ETuple [EBin BAdd (ECol ["a"]) (ENum 1); EStr "lit"];
                    ECol ["b"]; ENull; EBin BMul (ECol ["a"]) (ECol ["missing"]);
                    ESub (SSelect (sel (FTable ["<-"; "u"] "") [IExpr (ECol ["c"]) "c"]))]) "v"]).

Definition rows4 : list value :=
  [VObj [("a", VNum 1); ("v", VArr [VArr [VNum 2; VStr "lit"]; VStr "x"; VNull; VNull; VArr [VObj [("c", VStr "p")]]])];
   VObj [("a", VNum 2); ("v", VArr [VArr [VNum 3; VStr "lit"]; VStr "y"; VNull; VNull; VArr [VObj [("c", VStr "p")]]])]].

Lemma ex_q4 : query_ok q4 = true /\ api_run c12_call exec_join 40 false doc q4 = Ok rows4.
Proof. split; vm_compute; reflexivity. Qed.

(* the raw result and its value, at the level of Expr / ValueOf: ((a + 1, 'lit'), b) on the row {a: 1, b: "x"} *)
Definition ex_env : env stmt :=
  {| e_data := VObj []; e_sub := fun _ _ => OutOfModel; e_exists := fun _ _ => OutOfModel;
     e_agg := fun _ _ _ => OutOfModel; e_call := c12_call; e_hard := false |}.

Definition ex_tuple_row : row := [("a", VNum 1); ("b", VStr "x")].
Definition ex_tuple_expr : expr stmt :=
  ETuple [ETuple [EBin BAdd (ECol ["a"]) (ENum 1); EStr "lit"]; ECol ["b"]].
Definition ex_tuple_result : raw := RTuple [RTuple [RNumPtr (Some 2%float); RNeutral "lit"]; RVal (VStr "x")].
Definition ex_tuple_value : value := VArr [VArr [VNum 2; VStr "lit"]; VStr "x"].

Lemma ex_tuple_raw :
  eval ex_env ex_tuple_row ex_tuple_expr = Ok ex_tuple_result /\
  value_of ex_tuple_row ex_tuple_result = Ok ex_tuple_value.
Proof. split; vm_compute; reflexivity. Qed.

(* members that Unwrapped does NOT resolve are outside the model (the real code keeps the marker / the pointer
   as a member of the result array):
     SELECT (SPIN.idf(a), 1) AS v FROM t      -- Ommit(true) stays in the array
     SELECT (ASYNC.idf(a), 1) AS v FROM t     -- the *any slot of the call stays in the array *)
Definition q_tuple_spin : stmt :=
  SSelect (sel (FTable ["t"] "") [IExpr (ETuple [ECall "spin" "idf" [ECol ["a"]]; ENum 1]) "v"]).
Definition q_tuple_async : stmt :=
  SSelect (sel (FTable ["t"] "") [IExpr (ETuple [ECall "async" "idf" [ECol ["a"]]; ENum 1]) "v"]).

Lemma ex_tuple_unresolved :
  api_run c12_call exec_join 40 false doc q_tuple_spin = OutOfModel /\
  api_run c12_call exec_join 40 false doc q_tuple_async = OutOfModel /\
  value_of [] (RTuple [ROmit; RVal (VNum 1)]) = OutOfModel.
Proof. repeat split; vm_compute; reflexivity. Qed.

(* ---------- each exclusion is needed (the model keeps the key) ---------- *)

Definition leaks (q : stmt) : Prop :=
  query_ok q = false /\
  exists rows, api_run c12_call exec_join 40 false doc q = Ok rows /\ forallb cleanb rows = false.

(* SELECT (SELECT * FROM dual) AS s FROM t.  In the Go code the star post-processor deletes `<-`
   (observed: [{"s":{"a":1,"b":"x"}},…]); the model has no such step, hence the exclusion *)
Definition q_star_over_scope : stmt :=
  SSelect (sel (FTable ["t"] "") [IExpr (ESub (SSelect (sel FDual [IStar]))) "s"]).
Lemma star_over_scope_leaks : leaks q_star_over_scope.
Proof. split; [vm_compute; reflexivity|]. eexists. split; vm_compute; reflexivity. Qed.

(* SELECT (SELECT (SELECT p AS x FROM `<-` AS p) AS inn FROM dual) AS s FROM t: at depth 2 the path
   `<-` denotes the enclosing scope copy, which carries its own `<-`.  The real engine returns the
   same leaked key (see the report). *)
Definition q_nav_path : stmt :=
  SSelect (sel (FTable ["t"] "")
     [IExpr (ESub (SSelect (sel FDual
        [IExpr (ESub (SSelect (sel (FTable ["<-"] "p") [IExpr (ECol ["p"]) "x"]))) "inn"]))) "s"]).
Lemma nav_path_leaks : leaks q_nav_path.
Proof. split; [vm_compute; reflexivity|]. eexists. split; vm_compute; reflexivity. Qed.

(* SELECT (SELECT (SELECT `<-` AS up FROM dual) AS i FROM dual) AS s FROM t: the same through a column
   path in a dual SELECT at depth 2 (also leaked by the real engine) *)
Definition q_nav_col : stmt :=
  SSelect (sel (FTable ["t"] "")
     [IExpr (ESub (SSelect (sel FDual
        [IExpr (ESub (SSelect (sel FDual [IExpr (ECol ["<-"]) "up"]))) "i"]))) "s"]).
Lemma nav_col_leaks : leaks q_nav_col.
Proof. split; [vm_compute; reflexivity|]. eexists. split; vm_compute; reflexivity. Qed.

(* SELECT a AS `<-` FROM t *)
Definition q_alias : stmt := SSelect (sel (FTable ["t"] "") [IExpr (ECol ["a"]) "<-"]).
Lemma alias_leaks : leaks q_alias.
Proof. split; [vm_compute; reflexivity|]. eexists. split; vm_compute; reflexivity. Qed.

(* ---------- a float aggregate over a join sees the catalog order ---------- *)

Definition big : float := 0x1p+332%float.
Definition docj : value :=
  VObj [("a", VArr [VObj [("k", VNum 1); ("x", VNum big)]; VObj [("k", VNum 2); ("x", VNum 1)];
                    VObj [("k", VNum 3); ("x", VNum (- big))]]);
        ("b", VArr [VObj [("k", VNum 1)]; VObj [("k", VNum 2)]; VObj [("k", VNum 3)]])].

(* SELECT SUM(a.x) AS s FROM a a JOIN b b ON a.k = b.k *)
Definition qj : stmt :=
  SSelect (sel (FJoin JInner SAuto (FTable ["a"] "a") (FTable ["b"] "b")
                 (ECmp OpEq (ECol ["a"; "k"]) (ECol ["b"; "k"])))
               [IExpr (EAgg ASum (Some ["a"; "x"])) "s"]).

Definition swap23 (c : list centry) : list centry :=
  match c with [x; y; z] => [x; z; y] | _ => c end.

Lemma swap23_perm : forall c, Permutation (swap23 c) c.
Proof.
  intros [|x [|y [|z [|w r]]]]; cbn; try apply Permutation_refl. apply perm_skip, perm_swap.
Qed.

Theorem sum_over_join_order_dependent :
  exists oL, (forall c, Permutation (oL c) c) /\
  exists d q rows rows',
    cleanb d = true /\ query_ok q = true /\
    api_run no_call exec_join 40 false d q = Ok rows /\
    api_run no_call (exec_join_ord oL (fun c => c)) 40 false d q = Ok rows' /\
    ~ Permutation rows rows'.
Proof.
  exists swap23. split; [exact swap23_perm|].
  exists docj, qj, [VObj [("s", VNum 0)]], [VObj [("s", VNum 1)]].
  repeat split; try (vm_compute; reflexivity).
  intros P. apply Permutation_length_1 in P.
  pose proof (f_equal (fun v => match v with
                                | VObj [(_, VNum f)] => PrimFloat.eqb f 0
                                | _ => false end) P) as H.
  vm_compute in H. discriminate H.
Qed.
