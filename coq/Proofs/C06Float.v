(* Proofs/C06Float.v — the premise [FeqLaws] of C06 discharged for Coq's primitive binary64 floats
   from the standard library's float specification (the axiom [FloatAxioms.eqb_spec], which says that
   the primitive [=?] computes [SFeqb] on the decoded operands).  Kept apart from C06Lemmas.v so that
   every theorem there stays closed under the global context; theorems that use this file show
   [eqb_spec] in Print Assumptions. *)
From Coq Require Import Floats.
From GenqlV Require Import Base.Prelude Base.Value Proofs.C06Lemmas.

Definition sf_same (a b : spec_float) : Prop :=
  match a, b with
  | S754_zero _, S754_zero _ => True
  | S754_infinity s, S754_infinity t => s = t
  | S754_finite s m e, S754_finite t n f => s = t /\ m = n /\ e = f
  | _, _ => False
  end.

Lemma finite_case (m n : positive) (e f : Z) (g : comparison -> comparison) :
  g Eq = Eq -> g Lt <> Eq -> g Gt <> Eq ->
  forall X Y, X <> Eq -> Y <> Eq ->
  (match match (e ?= f)%Z with Eq => g (Pos.compare_cont Eq m n) | Lt => X | Gt => Y end with
   | Eq => true | _ => false end) = true <-> m = n /\ e = f.
Proof.
  intros gE gL gG X Y HX HY.
  change (Pos.compare_cont Eq m n) with (Pos.compare m n).
  destruct (Z.compare e f) eqn:He.
  - apply Z.compare_eq in He. subst f.
    destruct (Pos.compare m n) eqn:Hm.
    + apply Pos.compare_eq in Hm. subst. rewrite gE. tauto.
    + split; [destruct (g Lt); try discriminate; congruence|].
      intros (-> & _). rewrite Pos.compare_refl in Hm. discriminate.
    + split; [destruct (g Gt); try discriminate; congruence|].
      intros (-> & _). rewrite Pos.compare_refl in Hm. discriminate.
  - split; [destruct X; try discriminate; congruence|].
    intros (_ & ->). rewrite Z.compare_refl in He. discriminate.
  - split; [destruct Y; try discriminate; congruence|].
    intros (_ & ->). rewrite Z.compare_refl in He. discriminate.
Qed.

Lemma SFeqb_same a b : SFeqb a b = true <-> sf_same a b.
Proof.
  unfold SFeqb.
  destruct a as [s|s| |s m e], b as [t|t| |t n f]; try destruct s; try destruct t; cbn;
    try tauto;
    try (split; [discriminate | first [contradiction | discriminate | intros (H & _); discriminate H]]).
  - rewrite (finite_case m n e f CompOpp); try reflexivity; try discriminate. tauto.
  - rewrite (finite_case m n e f (fun c => c)); try reflexivity; try discriminate. tauto.
Qed.

Lemma sf_same_sym a b : sf_same a b -> sf_same b a.
Proof. destruct a, b; cbn; try tauto; try congruence. intros (-> & -> & ->); auto. Qed.

Lemma sf_same_trans a b c : sf_same a b -> sf_same b c -> sf_same a c.
Proof.
  destruct a, b, c; cbn; try tauto; try congruence.
  intros (? & ? & ?) (? & ? & ?); subst; auto.
Qed.

Lemma prim_eqb_sym x y : PrimFloat.eqb x y = PrimFloat.eqb y x.
Proof.
  rewrite !FloatAxioms.eqb_spec.
  destruct (SFeqb (Prim2SF x) (Prim2SF y)) eqn:H1, (SFeqb (Prim2SF y) (Prim2SF x)) eqn:H2; auto.
  - apply SFeqb_same, sf_same_sym, SFeqb_same in H1. congruence.
  - apply SFeqb_same, sf_same_sym, SFeqb_same in H2. congruence.
Qed.

Lemma prim_eqb_trans x y z :
  PrimFloat.eqb x y = true -> PrimFloat.eqb y z = true -> PrimFloat.eqb x z = true.
Proof.
  rewrite !FloatAxioms.eqb_spec, !SFeqb_same. apply sf_same_trans.
Qed.

Theorem feq_laws_binary64 : FeqLaws.
Proof.
  constructor.
  - intros x y. unfold feqb.
    destruct (PrimFloat.is_nan x), (PrimFloat.is_nan y); auto.
    rewrite prim_eqb_sym. f_equal.
    destruct (PrimFloat.get_sign x), (PrimFloat.get_sign y); reflexivity.
  - intros x y z. unfold feqb.
    destruct (PrimFloat.is_nan x), (PrimFloat.is_nan y), (PrimFloat.is_nan z); auto; try discriminate.
    intros H1 H2. apply Bool.andb_true_iff in H1, H2. destruct H1 as [E1 S1], H2 as [E2 S2].
    apply Bool.eqb_prop in S1, S2. rewrite S1, S2, Bool.eqb_reflx, (prim_eqb_trans _ _ _ E1 E2).
    reflexivity.
Qed.
