(* Proofs/C03FloatEq.v — the two records of IEEE facts that the C03 theorems take as premises
   (Spec.GroupSpec.FloatEqLaws, FloatLtLaws) hold for Coq's primitive floats.  The only assumption
   used is the standard library's specification of the primitive comparisons
   (Coq.Floats.FloatAxioms.eqb_spec / ltb_spec: "the primitive computes SFeqb / SFltb on the
   decoded value"); everything else is case analysis on the decoded value. *)
From Coq Require Import Floats ZArith Lia.
From GenqlV Require Import Spec.GroupSpec.
Local Open Scope Z_scope.

(* a non-NaN decoded double as a lexicographic key: class, then exponent, then mantissa *)
Definition sf_key (x : spec_float) : option (Z * Z * Z) :=
  match x with
  | S754_nan => None
  | S754_zero _ => Some (0, 0, 0)
  | S754_infinity true => Some (-2, 0, 0)
  | S754_infinity false => Some (2, 0, 0)
  | S754_finite true m e => Some (-1, - e, - Zpos m)
  | S754_finite false m e => Some (1, e, Zpos m)
  end.

Definition lex_lt (a b : Z * Z * Z) : Prop :=
  let '(c1, e1, m1) := a in let '(c2, e2, m2) := b in
  c1 < c2 \/ (c1 = c2 /\ (e1 < e2 \/ (e1 = e2 /\ m1 < m2))).

Lemma SFcompare_key a b ka kb :
  sf_key a = Some ka -> sf_key b = Some kb ->
  (SFcompare a b = Some Eq <-> ka = kb) /\ (SFcompare a b = Some Lt <-> lex_lt ka kb).
Proof.
  destruct a as [sa|sa| |sa ma ea], b as [sb|sb| |sb mb eb]; cbn [sf_key]; intros Ha Hb;
    try discriminate;
    repeat match goal with b : bool |- _ => destruct b end;
    inversion Ha; inversion Hb; subst; cbn [SFcompare lex_lt];
    try (split; split; intros H; try discriminate; try reflexivity; try (inversion H; lia); lia).
  all: change (Pos.compare_cont Eq ma mb) with (Pos.compare ma mb);
       destruct (Z.compare_spec ea eb) as [He|He|He]; destruct (Pos.compare_spec ma mb) as [Hm|Hm|Hm];
       cbn [CompOpp]; subst;
       split; split; intros H; try discriminate; try reflexivity; try (inversion H; lia); try lia.
Qed.

Lemma SFeqb_key a b : SFeqb a b = true <-> exists k, sf_key a = Some k /\ sf_key b = Some k.
Proof.
  unfold SFeqb. split.
  - intros H. destruct (sf_key a) as [ka|] eqn:Ha, (sf_key b) as [kb|] eqn:Hb.
    + destruct (SFcompare_key a b ka kb Ha Hb) as [[He _] _].
      destruct (SFcompare a b) as [[| |]|]; try discriminate.
      rewrite (He eq_refl). eauto.
    + destruct a as [?|?| |? ? ?], b as [?|[|]| |[|] ? ?]; discriminate.
    + destruct a as [?|[|]| |[|] ? ?]; discriminate.
    + destruct a as [?|[|]| |[|] ? ?]; discriminate.
  - intros (k & Ha & Hb). destruct (SFcompare_key a b k k Ha Hb) as [[_ He] _].
    rewrite (He eq_refl). reflexivity.
Qed.

Lemma SFltb_key a b :
  SFltb a b = true <-> exists ka kb, sf_key a = Some ka /\ sf_key b = Some kb /\ lex_lt ka kb.
Proof.
  unfold SFltb. split.
  - intros H. destruct (sf_key a) as [ka|] eqn:Ha, (sf_key b) as [kb|] eqn:Hb.
    + destruct (SFcompare_key a b ka kb Ha Hb) as [_ [Hl _]].
      destruct (SFcompare a b) as [[| |]|]; try discriminate.
      exists ka, kb. auto.
    + destruct a as [?|?| |? ? ?], b as [?|[|]| |[|] ? ?]; discriminate.
    + destruct a as [?|[|]| |[|] ? ?]; discriminate.
    + destruct a as [?|[|]| |[|] ? ?]; discriminate.
  - intros (ka & kb & Ha & Hb & Hl). destruct (SFcompare_key a b ka kb Ha Hb) as [_ [_ He]].
    rewrite (He Hl). reflexivity.
Qed.

Theorem float_eq_laws : FloatEqLaws.
Proof.
  split.
  - intros x y. rewrite !eqb_spec, !SFeqb_key. intros (k & Hx & Hy). eauto.
  - intros x y z. rewrite !eqb_spec, !SFeqb_key. intros (k & Hx & Hy) (k' & Hy' & Hz).
    exists k. split; [exact Hx|congruence].
Qed.

Theorem float_lt_laws : FloatLtLaws.
Proof.
  split.
  - intros x. destruct (PrimFloat.ltb x x) eqn:H; [|reflexivity].
    rewrite ltb_spec, SFltb_key in H. destruct H as (ka & kb & Ha & Hb & Hl).
    rewrite Ha in Hb. inversion Hb; subst. destruct kb as [[c e] m]. cbn in Hl. lia.
  - intros x y z. rewrite !ltb_spec, !SFltb_key.
    intros (ka & kb & Ha & Hb & Hl) (kb' & kc & Hb' & Hc & Hl').
    rewrite Hb in Hb'. inversion Hb'; subst.
    exists ka, kc. split; [exact Ha|]. split; [exact Hc|].
    destruct ka as [[c1 e1] m1], kb' as [[c2 e2] m2], kc as [[c3 e3] m3]. cbn in *. lia.
Qed.

Print Assumptions float_eq_laws.
Print Assumptions float_lt_laws.
