(* Proofs/C20Eval.v — helper facts for C20 about the evaluator of Model/Eval.v and the association
   lists of Base/Value.v:
     * a full induction principle for the nested expression type;
     * eval depends on its environment only through the VALUES of the hooks (pointwise), so an
       expression that reads the variable store sees it only through lookups;
     * eval yields the Ommit marker only if a hook does;
     * lookup / keys after obj_set (no sortedness assumed). *)
From Coq Require Import Floats.
From GenqlV Require Import Base.Prelude Base.Value Model.Ast Model.Eval.
Local Open Scope list_scope.

(* ------------------------------------------------------------------ *)
(* association lists                                                    *)
(* ------------------------------------------------------------------ *)

Lemma c20_compare_refl : forall s, String.compare s s = Eq.
Proof.
  intro s. destruct (String.compare s s) eqn:H; [reflexivity| |];
    pose proof (String.compare_antisym s s) as A; rewrite H in A; discriminate A.
Qed.

Lemma c20_lookup_set_same : forall k v m, lookup k (obj_set k v m) = Some v.
Proof.
  intros k v m. induction m as [|[k' v'] r IH]; cbn [obj_set lookup].
  - rewrite String.eqb_refl. reflexivity.
  - destruct (String.compare k k') eqn:Hc; cbn [lookup].
    + rewrite String.eqb_refl. reflexivity.
    + rewrite String.eqb_refl. reflexivity.
    + destruct (String.eqb k k') eqn:He.
      * apply String.eqb_eq in He. subst k'. rewrite c20_compare_refl in Hc. discriminate Hc.
      * exact IH.
Qed.

Lemma c20_lookup_set_other : forall k k' v m,
  String.eqb k' k = false -> lookup k' (obj_set k v m) = lookup k' m.
Proof.
  intros k k' v m Hb.
  induction m as [|[k0 v0] r IH]; cbn [obj_set lookup].
  - rewrite Hb. reflexivity.
  - destruct (String.compare k k0) eqn:Hc; cbn [lookup].
    + apply String.compare_eq_iff in Hc. subst k0. rewrite Hb. reflexivity.
    + rewrite Hb. reflexivity.
    + rewrite IH. reflexivity.
Qed.

Lemma c20_lookup_set : forall k k' v m,
  lookup k' (obj_set k v m) = if String.eqb k' k then Some v else lookup k' m.
Proof.
  intros k k' v m. destruct (String.eqb k' k) eqn:He.
  - apply String.eqb_eq in He. subst. apply c20_lookup_set_same.
  - apply c20_lookup_set_other. exact He.
Qed.

Lemma c20_keys_set : forall k k' v m, In k' (keys (obj_set k v m)) <-> k' = k \/ In k' (keys m).
Proof.
  intros k k' v m. unfold keys. induction m as [|[k0 v0] r IH]; cbn [obj_set map fst In].
  - intuition.
  - destruct (String.compare k k0) eqn:Hc; cbn [map fst In].
    + apply String.compare_eq_iff in Hc. subst k0. intuition.
    + intuition.
    + rewrite IH. intuition.
Qed.

(* ------------------------------------------------------------------ *)
(* induction over expressions                                           *)
(* ------------------------------------------------------------------ *)

Definition opt_P {X} (P : X -> Prop) (o : option X) : Prop :=
  match o with Some x => P x | None => True end.

Section ExprInd.
  Variable Q : Type.
  Variable P : expr Q -> Prop.
  Hypothesis HCol : forall p, P (ECol p).
  Hypothesis HNum : forall f, P (ENum f).
  Hypothesis HStr : forall s, P (EStr s).
  Hypothesis HBool : forall b, P (EBool b).
  Hypothesis HNull : P ENull.
  Hypothesis HAnd : forall a b, P a -> P b -> P (EAnd a b).
  Hypothesis HOr : forall a b, P a -> P b -> P (EOr a b).
  Hypothesis HNot : forall a, P a -> P (ENot a).
  Hypothesis HCmp : forall op a b, P a -> P b -> P (ECmp op a b).
  Hypothesis HLike : forall neg a b, P a -> P b -> P (ELike neg a b).
  Hypothesis HIn : forall neg a items, P a -> Forall P items -> P (EIn neg a items).
  Hypothesis HInSub : forall neg a q, P a -> P (EInSub neg a q).
  Hypothesis HBetween : forall neg a lo hi, P a -> P lo -> P hi -> P (EBetween neg a lo hi).
  Hypothesis HIs : forall op a, P a -> P (EIs op a).
  Hypothesis HBin : forall op a b, P a -> P b -> P (EBin op a b).
  Hypothesis HUn : forall op a, P a -> P (EUn op a).
  Hypothesis HCase : forall whens els,
    Forall (fun w => P (fst w) /\ P (snd w)) whens -> opt_P P els -> P (ECase whens els).
  Hypothesis HSub : forall q, P (ESub q).
  Hypothesis HExists : forall q, P (EExists q).
  Hypothesis HAgg : forall f arg, P (EAgg f arg).
  Hypothesis HCall : forall qual name args, Forall P args -> P (ECall qual name args).
  Hypothesis HTuple : forall items, Forall P items -> P (ETuple items).

  Fixpoint c20_expr_ind (e : expr Q) : P e :=
    match e with
    | ECol p => HCol p
    | ENum f => HNum f
    | EStr s => HStr s
    | EBool b => HBool b
    | ENull => HNull
    | EAnd a b => HAnd a b (c20_expr_ind a) (c20_expr_ind b)
    | EOr a b => HOr a b (c20_expr_ind a) (c20_expr_ind b)
    | ENot a => HNot a (c20_expr_ind a)
    | ECmp op a b => HCmp op a b (c20_expr_ind a) (c20_expr_ind b)
    | ELike neg a b => HLike neg a b (c20_expr_ind a) (c20_expr_ind b)
    | EIn neg a items =>
        HIn neg a items (c20_expr_ind a)
            ((fix go (l : list (expr Q)) : Forall P l :=
                match l with [] => Forall_nil _ | x :: r => Forall_cons _ (c20_expr_ind x) (go r) end) items)
    | EInSub neg a q => HInSub neg a q (c20_expr_ind a)
    | EBetween neg a lo hi => HBetween neg a lo hi (c20_expr_ind a) (c20_expr_ind lo) (c20_expr_ind hi)
    | EIs op a => HIs op a (c20_expr_ind a)
    | EBin op a b => HBin op a b (c20_expr_ind a) (c20_expr_ind b)
    | EUn op a => HUn op a (c20_expr_ind a)
    | ECase whens els =>
        HCase whens els
            ((fix go (l : list (expr Q * expr Q)) : Forall (fun w => P (fst w) /\ P (snd w)) l :=
                match l with
                | [] => Forall_nil _
                | w :: r =>
                    Forall_cons w (match w as w0 return (P (fst w0) /\ P (snd w0)) with
                                   | (c, v) => conj (c20_expr_ind c) (c20_expr_ind v)
                                   end) (go r)
                end) whens)
            (match els as o return opt_P P o with
             | Some x => c20_expr_ind x
             | None => I
             end)
    | ESub q => HSub q
    | EExists q => HExists q
    | EAgg f arg => HAgg f arg
    | ECall qual name args =>
        HCall qual name args
            ((fix go (l : list (expr Q)) : Forall P l :=
                match l with [] => Forall_nil _ | x :: r => Forall_cons _ (c20_expr_ind x) (go r) end) args)
    | ETuple items =>
        HTuple items
            ((fix go (l : list (expr Q)) : Forall P l :=
                match l with [] => Forall_nil _ | x :: r => Forall_cons _ (c20_expr_ind x) (go r) end) items)
    end.
End ExprInd.

(* ------------------------------------------------------------------ *)
(* eval looks at its environment only through the hooks' values         *)
(* ------------------------------------------------------------------ *)

Section EnvExt.
  Variable Q : Type.
  Variables E1 E2 : env Q.
  Hypothesis Hdata : e_data E1 = e_data E2.
  Hypothesis Hhard : e_hard E1 = e_hard E2.
  Hypothesis Hsub : forall q r, e_sub E1 q r = e_sub E2 q r.
  Hypothesis Hexists : forall q r, e_exists E1 q r = e_exists E2 q r.
  Hypothesis Hagg : forall f a r, e_agg E1 f a r = e_agg E2 f a r.
  Hypothesis Hcall : forall q n a r, e_call E1 q n a r = e_call E2 q n a r.

  Lemma eval_ext : forall e cur, eval E1 cur e = eval E2 cur e.
  Proof.
    induction e using c20_expr_ind; intros cur;
      cbn [eval]; rewrite ?Hdata;
      repeat match goal with
             | IH : forall cur, eval E1 cur ?a = eval E2 cur ?a |- _ => rewrite !IH; clear IH
             end;
      try reflexivity.
    - (* ECol *) unfold col_path. rewrite Hhard. reflexivity.
    - (* EIn *)
      destruct (eval E2 (scope cur (e_data E2)) e) as [l| | |]; cbn [bind]; auto.
      destruct (value_of (scope cur (e_data E2)) l) as [lv| | |]; cbn [bind]; auto.
      f_equal.
      match goal with HF : Forall _ items |- _ =>
        induction HF as [|x r Hx _ IHr]; [reflexivity|]; rewrite Hx, IHr; reflexivity
      end.
    - (* EInSub *)
      destruct (eval E2 (scope cur (e_data E2)) e) as [l| | |]; cbn [bind]; auto.
      destruct (value_of (scope cur (e_data E2)) l) as [lv| | |]; cbn [bind]; auto.
      rewrite Hsub. reflexivity.
    - (* ECase *)
      match goal with HF : Forall _ whens |- _ =>
        induction HF as [|[c v] r [Hc Hv] _ IHr];
        [ destruct els; [|reflexivity];
          match goal with HE : opt_P _ (Some _) |- _ => apply HE end
        | cbn [fst snd] in Hc, Hv; rewrite Hc, Hv, IHr; reflexivity ]
      end.
    - (* ESub *) rewrite Hsub. reflexivity.
    - (* EExists *) rewrite Hexists. reflexivity.
    - (* EAgg *) apply Hagg.
    - (* ECall *)
      match goal with |- bind ?a _ = bind ?b _ => assert (Heach : a = b) end.
      { match goal with HF : Forall _ args |- _ =>
          induction HF as [|x r Hx _ IHr]; [reflexivity|]; rewrite Hx, IHr; reflexivity
        end. }
      rewrite Heach.
      match goal with |- bind ?b _ = _ => destruct b; cbn [bind]; auto end.
    - (* ETuple *)
      f_equal.
      match goal with HF : Forall _ items |- _ =>
        induction HF as [|x r Hx _ IHr]; [reflexivity|]; rewrite Hx, IHr; reflexivity
      end.
  Qed.
End EnvExt.

(* ------------------------------------------------------------------ *)
(* the Ommit marker can only come out of a hook                         *)
(* ------------------------------------------------------------------ *)

Ltac c20_dbind H :=
  repeat match type of H with
         | bind ?x _ = Ok _ => let e := fresh "Eb" in destruct x eqn:e; cbn [bind] in H; try discriminate H
         | match ?x with _ => _ end = Ok _ => destruct x; try discriminate H
         end.

Section NoOmit.
  Variable Q : Type.
  Variable E : env Q.
  Hypothesis Hagg : forall f a r, e_agg E f a r <> Ok ROmit.
  Hypothesis Hcall : forall q n a r, e_call E q n a r <> Ok ROmit.

  Lemma eval_no_omit : forall e cur, eval E cur e <> Ok ROmit.
  Proof.
    induction e using c20_expr_ind; intros cur He; cbn [eval] in He;
      try (c20_dbind He; inversion He; fail).
    - (* ECase *)
      match goal with HF : Forall _ whens |- _ =>
        induction HF as [|[c v] r [Hc Hv] _ IHr]
      end.
      + destruct els as [x|]; [|inversion He]. cbn [opt_P] in *.
        match goal with HE : forall cur, eval E cur x <> _ |- _ => exact (HE _ He) end.
      + cbn [fst snd] in Hc, Hv.
        destruct (eval E cur c) as [rc| | |]; cbn [bind] in He; try discriminate He.
        destruct rc as [[| [|] | | | |]| | | | |]; try discriminate He.
        * exact (Hv _ He).
        * exact (IHr He).
    - (* EAgg *) exact (Hagg _ _ _ He).
    - (* ECall *)
      match type of He with bind ?x _ = _ => destruct x; cbn [bind] in He; try discriminate He end.
      exact (Hcall _ _ _ _ He).
  Qed.
End NoOmit.
