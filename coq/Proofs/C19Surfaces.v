(* Proofs/C19Surfaces.v — property C19, part 2: a fault that is reached surfaces.

   [invokes E T cur e] says that the FAULT-FREE evaluation of expression [e] on row [cur] calls the
   function hook with arguments on which the trigger predicate [T] holds (or runs a subquery that
   does).  It follows the evaluation order of Model/Eval.v: a later operand is evaluated only if the
   earlier ones succeeded, a CASE branch only if it is the one taken, the call itself only after all
   its arguments.  The theorems say: if the fault-free run invokes the trigger, the faulty run
   fails — in WHERE, the select list, HAVING, CASE branches, function arguments; then row by row
   through filter_rows / exec_group_by / exec_select / run_select, and through CTEs, derived
   tables, row-scoped subqueries, EXISTS, inner dimensions and UNION by induction on the fuel. *)
From Coq Require Import Floats.
From GenqlV Require Import Base.Prelude Base.Value Model.Ast Model.Eval Model.Exec Model.Join
                           Model.Faults Proofs.C19Lemmas.
Local Open Scope list_scope.

Definition ok {A} (r : res A) : Prop := exists a, r = Ok a.

Lemma bind_ok_inv : forall A B (x : res A) (f : A -> res B) b,
  bind x f = Ok b -> exists a, x = Ok a /\ f a = Ok b.
Proof. intros A B [a| | |] f b H; cbn in H; try discriminate. exists a; auto. Qed.

(* ------------------------------------------------------------------ *)
(* expressions                                                          *)
(* ------------------------------------------------------------------ *)

(* FuncArgReader *)
Definition eval_args {Q} (E : env Q) (cur : row) (args : list (expr Q)) : res (list value) :=
  (fix each (l : list (expr Q)) : res (list value) :=
     match l with
     | [] => Ok []
     | x :: r => let! y := eval E cur x in
                 let! v := value_of cur y in
                 let! ys := each r in Ok (v :: ys)
     end) args.

Section Invokes.
  Variable Q : Type.
  Variable E : env Q.                                               (* the fault-free environment *)
  Variable T : string -> string -> list value -> row -> bool.       (* is this hook invocation the trigger? *)
  Variable Hsub : Q -> row -> Prop.     (* subquery q, run in scope c, invokes the trigger *)
  Variable Hex : Q -> row -> Prop.      (* the EXISTS evaluation of q in scope c invokes the trigger *)

  (* an operand: Expr followed by ValueOf *)
  Definition val (cur : row) (x : expr Q) : res value :=
    let! r := eval E cur x in value_of cur r.

  Definition boolv (cur : row) (x : expr Q) : res bool :=
    let! v := val cur x in match v with VNull => Err | _ => as_bool v end.

  (* one element of a ValueTupleExpr *)
  Definition in_item (cur : row) (x : expr Q) : res raw :=
    let! y := eval E cur x in
    match y with
    | RCol p => let! v := reader p (VObj cur) in Ok (RVal v)
    | _ => Ok y
    end.

  Fixpoint invokes (cur : row) (e : expr Q) {struct e} : Prop :=
    match e with
    | ECol _ | ENum _ | EStr _ | EBool _ | ENull | EAgg _ _ => False
    | EAnd a b | EOr a b => invokes cur a \/ (ok (boolv cur a) /\ invokes cur b)
    | ENot a => invokes cur a
    | ECmp _ a b | ELike _ a b =>
        let c := scope cur (e_data E) in
        invokes c a \/ (ok (val c a) /\ invokes c b)
    | EIn _ a items =>
        let c := scope cur (e_data E) in
        invokes c a \/
        (ok (val c a) /\
         (fix each (l : list (expr Q)) : Prop :=
            match l with
            | [] => False
            | x :: r => invokes c x \/ (ok (in_item c x) /\ each r)
            end) items)
    | EInSub _ a q =>
        let c := scope cur (e_data E) in
        invokes c a \/ (ok (val c a) /\ Hsub q c)
    | EBetween _ a lo hi =>
        invokes cur a \/
        (ok (val cur a) /\ (invokes cur lo \/ (ok (eval E cur lo) /\ invokes cur hi)))
    | EIs _ a => invokes cur a
    | EBin _ a b =>
        (* a NULL left operand short-cuts to NULL; a non-number is an error *)
        invokes cur a \/ ((exists f, val cur a = Ok (VNum f)) /\ invokes cur b)
    | EUn _ a => invokes cur a
    | ECase whens els =>
        (fix go (ws : list (expr Q * expr Q)) : Prop :=
           match ws with
           | [] => match els with None => False | Some x => invokes cur x end
           | (c, v) :: r =>
               invokes cur c \/
               (eval E cur c = Ok (RVal (VBool true)) /\ invokes cur v) \/
               (eval E cur c = Ok (RVal (VBool false)) /\ go r)
           end) whens
    | ESub q => Hsub q (scope cur (e_data E))
    | EExists q => Hex q (scope cur (e_data E))
    | ECall qual name args =>
        (fix each (l : list (expr Q)) : Prop :=
           match l with
           | [] => False
           | x :: r => invokes cur x \/ (ok (val cur x) /\ each r)
           end) args
        \/ (exists vs, eval_args E cur args = Ok vs /\ T qual name vs cur = true)
    | ETuple items =>
        (* ValueTupleExpr: members left to right (a member the model leaves out stops the evaluation before any hook) *)
        (fix each (l : list (expr Q)) : Prop :=
           match l with
           | [] => False
           | x :: r => slot_form x = false /\ (invokes cur x \/ (ok (in_item cur x) /\ each r))
           end) items
    end.

  (* WHERE / HAVING *)
  Definition cond_invokes (cur : row) (c : option (expr Q)) : Prop :=
    match c with None => False | Some e => invokes cur e end.

  (* did the select item evaluate without error (so that the next item is evaluated)? *)
  Definition item_ok (cur : row) (e : expr Q) : Prop :=
    exists x, eval E cur e = Ok x /\ (x = ROmit \/ ok (value_of cur x)).

  Fixpoint items_invoke (cur : row) (items : list (sel_item Q)) : Prop :=
    match items with
    | [] => False
    | IStar :: r => items_invoke cur r
    | IExpr e _ :: r => invokes cur e \/ (item_ok cur e /\ items_invoke cur r)
    end.

  (* ---------------------------------------------------------------- *)

  Section Faulty.
    Variable ap : bool.
    Variable E' : env Q.                                            (* the faulty environment *)
    Hypothesis HE : env_rel ap Q E E'.
    Hypothesis HT : forall q n vs c, T q n vs c = true -> fails ap (e_call E' q n vs c).
    Hypothesis HS : forall q c, Hsub q c -> fails ap (e_sub E' q c).
    Hypothesis HX : forall q c, Hex q c -> fails ap (e_exists E' q c).

    (* the faulty evaluation of a prefix that succeeded fault-free: same value, or it failed *)
    Lemma prefix_eval : forall cur x r, eval E cur x = Ok r ->
      eval E' cur x = Ok r \/ fails ap (eval E' cur x).
    Proof.
      intros cur x r H. destruct (eval_R ap Q E E' HE x cur) as [Heq|Hf]; [left|right; exact Hf].
      rewrite Heq; exact H.
    Qed.

    Ltac pre H :=
      match type of H with
      | eval E ?c ?x = Ok ?r =>
          let Heq := fresh "Heq" in let Hf := fresh "Hf" in
          destruct (prefix_eval c x r H) as [Heq|Hf];
          [rewrite Heq; cbn [bind] | repeat apply (fails_bind ap); exact Hf]
      end.

    (* split  ok (val c x)  into its two steps and replay them on the faulty side *)
    Ltac pre_valeq H :=
      let r := fresh "r" in let H1 := fresh "H1" in let H2 := fresh "H2" in
      unfold val in H; apply bind_ok_inv in H; destruct H as [r [H1 H2]];
      pre H1; rewrite H2; cbn [bind].
    Ltac pre_val H := let v := fresh "v" in destruct H as [v H]; pre_valeq H.

    Lemma eval_surfaces : forall e cur, invokes cur e -> fails ap (eval E' cur e).
    Proof.
      pose proof (er_data ap Q E E' HE) as Hd. pose proof (er_hard ap Q E E' HE) as Hh.
      induction e as [p|f|str|b| |ea eb IHa IHb|ea eb IHa IHb|ea IHa|op ea eb IHa IHb|n ea eb IHa IHb
                     |n ea items IHa IHitems|n ea q IHa|n ea lo hi IHa IHlo IHhi|op ea IHa|op ea eb IHa IHb
                     |op ea IHa|whens els IHw IHe|q|q|f arg|qual name args IHargs|titems IHtitems] using c19_expr_ind;
        intros cur Hi; cbn [invokes] in Hi; try contradiction; cbn [eval]; try rewrite Hd.
      - (* EAnd *)
        destruct Hi as [Hi|[Hok Hi]]; [repeat apply (fails_bind ap); apply IHa, Hi|].
        destruct Hok as [bv Hok]. unfold boolv in Hok. apply bind_ok_inv in Hok.
        destruct Hok as [v [Hv Hb]]. pre_valeq Hv. rewrite Hb. cbn [bind].
        repeat apply (fails_bind ap); apply IHb, Hi.
      - (* EOr *)
        destruct Hi as [Hi|[Hok Hi]]; [repeat apply (fails_bind ap); apply IHa, Hi|].
        destruct Hok as [bv Hok]. unfold boolv in Hok. apply bind_ok_inv in Hok.
        destruct Hok as [v [Hv Hb]]. pre_valeq Hv. rewrite Hb. cbn [bind].
        repeat apply (fails_bind ap); apply IHb, Hi.
      - (* ENot *) repeat apply (fails_bind ap); apply IHa, Hi.
      - (* ECmp *)
        destruct Hi as [Hi|[Hok Hi]]; [repeat apply (fails_bind ap); apply IHa, Hi|].
        pre_val Hok. repeat apply (fails_bind ap); apply IHb, Hi.
      - (* ELike *)
        destruct Hi as [Hi|[Hok Hi]]; [repeat apply (fails_bind ap); apply IHa, Hi|].
        pre_val Hok. repeat apply (fails_bind ap); apply IHb, Hi.
      - (* EIn *)
        destruct Hi as [Hi|[Hok Hi]]; [repeat apply (fails_bind ap); apply IHa, Hi|].
        pre_val Hok. apply (fails_bind ap).
        induction IHitems as [|y rest Hy _ IHr]; [contradiction|].
        destruct Hi as [Hi|[Hok Hi]]; [repeat apply (fails_bind ap); apply Hy, Hi|].
        destruct Hok as [it Hok]. unfold in_item in Hok. apply bind_ok_inv in Hok.
        destruct Hok as [y0 [Hy0 Hit]]. pre Hy0. rewrite Hit. cbn [bind].
        repeat apply (fails_bind ap); apply IHr, Hi.
      - (* EInSub *)
        destruct Hi as [Hi|[Hok Hi]]; [repeat apply (fails_bind ap); apply IHa, Hi|].
        pre_val Hok. repeat apply (fails_bind ap); apply HS, Hi.
      - (* EBetween *)
        destruct Hi as [Hi|[Hok Hi]]; [repeat apply (fails_bind ap); apply IHa, Hi|].
        pre_val Hok. destruct Hi as [Hi|[[rl Hl] Hi]]; [repeat apply (fails_bind ap); apply IHlo, Hi|].
        pre Hl. repeat apply (fails_bind ap); apply IHhi, Hi.
      - (* EIs *) repeat apply (fails_bind ap); apply IHa, Hi.
      - (* EBin *)
        destruct Hi as [Hi|[[fl Hv] Hi]]; [repeat apply (fails_bind ap); apply IHa, Hi|].
        pre_valeq Hv. cbn [as_num bind].
        repeat apply (fails_bind ap); apply IHb, Hi.
      - (* EUn *) repeat apply (fails_bind ap); apply IHa, Hi.
      - (* ECase *)
        induction IHw as [|[cnd v] rest [Hc1 Hv1] _ IHr].
        + destruct els as [x0|]; [apply IHe, Hi|contradiction].
        + destruct Hi as [Hi|[[Hc Hi]|[Hc Hi]]].
          * repeat apply (fails_bind ap); apply Hc1, Hi.
          * pre Hc. apply Hv1, Hi.
          * pre Hc. apply IHr, Hi.
      - (* ESub *) repeat apply (fails_bind ap); apply HS, Hi.
      - (* EExists *) repeat apply (fails_bind ap); apply HX, Hi.
      - (* ECall *)
        destruct Hi as [Hi|[vs [Hvs HTr]]].
        + apply (fails_bind ap).
          induction IHargs as [|y rest Hy _ IHr]; [contradiction|].
          destruct Hi as [Hi|[Hok Hi]]; [repeat apply (fails_bind ap); apply Hy, Hi|].
          pre_val Hok. repeat apply (fails_bind ap); apply IHr, Hi.
        + (* all arguments evaluate; the call itself is the trigger *)
          assert (Hargs : forall l vs0, eval_args E cur l = Ok vs0 ->
                    eval_args E' cur l = Ok vs0 \/ fails ap (eval_args E' cur l)).
          { induction l as [|x l IHl]; intros vs0 H0; [left; exact H0|].
            unfold eval_args in H0. apply bind_ok_inv in H0. destruct H0 as [y [Hy H0]].
            apply bind_ok_inv in H0. destruct H0 as [v [Hv H0]].
            apply bind_ok_inv in H0. destruct H0 as [ys [Hys H0]].
            unfold eval_args.
            destruct (prefix_eval cur x y Hy) as [Heq|Hf]; [|right; apply (fails_bind ap); exact Hf].
            rewrite Heq. cbn [bind]. rewrite Hv. cbn [bind].
            destruct (IHl ys Hys) as [Heq2|Hf2]; unfold eval_args in Heq2 || unfold eval_args in Hf2.
            - left. rewrite Heq2. cbn [bind]. exact H0.
            - right. apply (fails_bind ap). exact Hf2. }
          change (fails ap (bind (eval_args E' cur args) (fun vs => e_call E' qual name vs cur))).
          destruct (Hargs args vs Hvs) as [Heq|Hf].
          * rewrite Heq. cbn [bind]. apply HT, HTr.
          * repeat apply (fails_bind ap); apply Hf.
      - (* ETuple *)
        apply (fails_bind ap).
        induction IHtitems as [|y rest Hy _ IHr]; [contradiction|].
        destruct Hi as [Hsf Hi]. rewrite Hsf.
        destruct Hi as [Hi|[Hok Hi]]; [repeat apply (fails_bind ap); apply Hy, Hi|].
        destruct Hok as [it Hok]. unfold in_item in Hok. apply bind_ok_inv in Hok.
        destruct Hok as [y0 [Hy0 Hit]]. pre Hy0. rewrite Hit. cbn [bind].
        repeat apply (fails_bind ap); apply IHr, Hi.
    Qed.

    Lemma eval_cond_surfaces : forall cur c, cond_invokes cur c -> fails ap (eval_cond E' cur c).
    Proof.
      intros cur [e|] H; [|contradiction]. cbn [eval_cond]. repeat apply (fails_bind ap); apply eval_surfaces, H.
    Qed.

    Lemma select_expr_surfaces : forall items cur acc,
      items_invoke cur items -> fails ap (select_expr E' cur items acc).
    Proof.
      induction items as [|[|e name] r IH]; intros cur acc H; cbn [items_invoke] in H; [contradiction| |];
        cbn [select_expr].
      - apply IH, H.
      - destruct H as [H|[[x [Hx Hv]] H]]; [repeat apply (fails_bind ap); apply eval_surfaces, H|].
        pre Hx. destruct Hv as [->|[v Hv]]; [apply IH, H|].
        destruct x; try (rewrite Hv; cbn [bind]; apply IH, H). apply IH, H.
    Qed.
  End Faulty.
End Invokes.

(* ------------------------------------------------------------------ *)
(* the pipeline                                                         *)
(* ------------------------------------------------------------------ *)

Lemma step_bind : forall ap A B (x y : res A) (g : A -> res B),
  R ap x y -> ok x -> (forall a, x = Ok a -> fails ap (g a)) -> fails ap (bind y g).
Proof.
  intros ap A B x y g [Heq|Hf] [a Ha] Hg.
  - subst y. rewrite Ha. cbn [bind]. apply Hg, Ha.
  - apply fails_bind, Hf.
Qed.

(* CopyQuery for an inner dimension *)
Definition copy_query (s : select stmt) : select stmt :=
  {| s_with := []; s_from := s_from s; s_where := s_where s; s_group := s_group s;
     s_having := s_having s; s_items := s_items s; s_distinct := false;
     s_order := s_order s; s_limit := s_limit s; s_offset := s_offset s |}.

(* ExistExpr: the outer row is merged into a copy of every nested row *)
Definition merge_item (cur : row) (item : value) : res value :=
  match item with VObj kv => Ok (VObj (obj_merge kv cur)) | _ => Err end.

(* the query context New builds from the document *)
Definition api_ctx (wrapped : bool) (doc : value) : qctx :=
  Build_qctx (if wrapped then ("root"%string, doc) :: nil
              else match doc with VObj kv => kv | _ => nil end) nil nil nil.

Section Hits.
  Variable T : string -> string -> list value -> row -> bool.

  Section Step.
    Variable rec : qctx -> job -> res value.      (* the fault-free interpreter with one unit less fuel *)
    Variable rec_hits : qctx -> job -> Prop.      (* "that run invokes the trigger" *)
    Variable call : call_fn.                      (* the fault-free hook *)
    Variable join : join_fn.                      (* the fault-free ExecJoin *)
    (* "the fault-free evaluation of this join invokes the trigger" (False for a join that never
       calls the hook) *)
    Variable join_hits : jointype -> jstrategy -> list value -> list value -> string -> string ->
                         expr stmt -> row -> Prop.

    Fixpoint build_hits (ctx : qctx) (f : from_clause stmt) : Prop :=
      match f with
      | FDual | FTableFn _ _ _ | FSel _ _ => False
      | FTable path alias =>
          match path with
          | [] => False
          | k :: rest =>
              match cte_lookup k (c_ctes ctx) with
              | Some body =>
                  if existsb (String.eqb k) (c_busy ctx) then False
                  else rec_hits {| c_data := c_data ctx; c_ctes := c_ctes ctx; c_busy := k :: c_busy ctx;
                                   c_up := c_up ctx |}
                                (JStmt body)
              | None =>
                  (* `<-`. ... .name: the thunk of an enclosing query *)
                  match up_read ctx path with
                  | Some h =>
                      if existsb (String.eqb (uh_name h)) (fr_busy (uh_frame h)) then False
                      else rec_hits {| c_data := fr_data (uh_frame h); c_ctes := fr_ctes (uh_frame h);
                                       c_busy := uh_name h :: fr_busy (uh_frame h); c_up := uh_up h |}
                                    (JStmt (uh_body h))
                  | None => False
                  end
              end
          end
      | FDerived q _ => rec_hits ctx (JStmt q)
      | FJoin jt st l r on =>
          build_hits ctx l \/
          (ok (build_from rec join ctx l) /\ build_hits ctx r) \/
          (exists lrows rrows,
             build_from rec join ctx l = Ok (Some lrows) /\ build_from rec join ctx r = Ok (Some rrows) /\
             join_hits jt st lrows rrows (from_ident l) (from_ident r) on (c_data ctx))
      end.

    (* [pctx]: the query whose expression contains the subquery *)
    Definition sub_hits (pctx : qctx) (q : stmt) (cur : row) : Prop :=
      rec_hits (sub_ctx pctx cur) (JStmt q).

    Definition exists_hits (pctx : qctx) (q : stmt) (cur : row) : Prop :=
      match q with
      | SSelect s' =>
          build_hits (sub_ctx pctx cur) (s_from s') \/
          exists rows merged,
            build_from rec join (sub_ctx pctx cur) (s_from s') = Ok (Some rows) /\
            mapM (merge_item cur) rows = Ok merged /\
            rec_hits (sub_ctx pctx cur) (JRows s' merged)
      | _ => False
      end.

    Definition cond_hits (pctx : qctx) (E : env stmt) :=
      cond_invokes stmt E T (sub_hits pctx) (exists_hits pctx).
    Definition items_hit (pctx : qctx) (E : env stmt) :=
      items_invoke stmt E T (sub_hits pctx) (exists_hits pctx).

    (* ExecSelect *)
    Definition select_hits (pctx : qctx) (E : env stmt) (s : select stmt) (rows : list value) : Prop :=
      if (match s_group s with [] => true | _ => false end) && all_aggregate (s_items s)
      then items_hit pctx E [] (s_items s)
      else (fix go (l : list value) : Prop :=
              match l with
              | [] => False
              | VObj kv :: r =>
                  items_hit pctx E kv (s_items s) \/ (ok (select_expr E kv (s_items s) []) /\ go r)
              | VArr _ :: r => go r
              | _ :: _ => False
              end) rows.

    (* the row loop of exec(): WHERE on Map rows, a copy of the query on inner dimensions *)
    Definition filter_hits (ctx : qctx) (s : select stmt) (E : env stmt) (from : list value) : Prop :=
      (fix go (l : list value) : Prop :=
         match l with
         | [] => False
         | VArr inner :: r =>
             rec_hits ctx (JRows (copy_query s) inner) \/
             (ok (rec ctx (JRows (copy_query s) inner)) /\ go r)
         | VObj kv :: r =>
             cond_hits ctx E kv (s_where s) \/ (ok (eval_cond E kv (s_where s)) /\ go r)
         | _ :: r => go r
         end) from.

    (* ExecGroupBy: HAVING on every group row, in group order *)
    Definition group_hits (pctx : qctx) (E : env stmt) (s : select stmt) (rows : list value) : Prop :=
      match s_group s with
      | [] => False
      | cols =>
          exists gs, group_rows cols rows [] = Ok gs /\
            (fix go (gs : list group) : Prop :=
               match gs with
               | [] => False
               | g :: r =>
                   cond_hits pctx E (group_row g) (s_having s) \/
                   (ok (eval_cond E (group_row g) (s_having s)) /\ go r)
               end) gs
      end.

    Definition run_hits (ctx : qctx) (s : select stmt) (src : option (list value)) : Prop :=
      match src with
      | None => select_hits ctx (mk_env rec call join ctx s []) s [VObj (c_data ctx)]
      | Some from =>
          filter_hits ctx s (mk_env rec call join ctx s []) from \/
          exists filtered,
            filter_rows rec ctx s (mk_env rec call join ctx s []) from = Ok filtered /\
            (group_hits ctx (mk_env rec call join ctx s filtered) s filtered \/
             exists grouped,
               exec_group_by (mk_env rec call join ctx s filtered) s filtered = Ok grouped /\
               select_hits ctx (mk_env rec call join ctx s filtered) s grouped)
      end.

    Definition step_hits (ctx : qctx) (j : job) : Prop :=
      match j with
      | JStmt (SSelect s) =>
          let ctx' := register_ctes ctx (s_with s) in
          build_hits ctx' (s_from s) \/
          exists src, build_from rec join ctx' (s_from s) = Ok src /\ run_hits ctx' s src
      | JStmt (SUnion all l r limit offset) =>
          rec_hits ctx (JStmt l) \/ (ok (rec ctx (JStmt l)) /\ rec_hits ctx (JStmt r))
      | JRows s rows => run_hits ctx s (Some rows)
      end.

    (* ---------------- the faulty side ---------------- *)
    Section FaultySide.
      Variable ap : bool.
      Variable rec' : qctx -> job -> res value.
      Variable call' : call_fn.
      Variable join' : join_fn.
      Hypothesis Hrec : forall ctx j, R ap (rec ctx j) (rec' ctx j).
      Hypothesis Hrech : forall ctx j, rec_hits ctx j -> fails ap (rec' ctx j).
      Hypothesis Hcall : call_rel ap call call'.
      Hypothesis HT : forall q n vs c, T q n vs c = true -> fails ap (call' q n vs c).

      Hypothesis Hjoin : join_rel ap join join'.
      Hypothesis Hjh : forall jt st l r li ri on d,
        join_hits jt st l r li ri on d -> fails ap (join' jt st l r li ri on d).

      Lemma build_surfaces : forall f ctx, build_hits ctx f -> fails ap (build_from rec' join' ctx f).
      Proof.
        induction f as [|path alias|fn path alias|sl alias|q alias|jt st l IHl r IHr on]; intros ctx H;
          cbn [build_hits] in H; try contradiction; cbn [build_from].
        - destruct path as [|k rest]; [contradiction|].
          destruct (cte_lookup k (c_ctes ctx)) as [body|].
          + destruct (existsb (String.eqb k) (c_busy ctx)); [contradiction|].
            apply fails_bind, Hrech, H.
          + destruct (up_read ctx (k :: rest)) as [h|]; [|contradiction].
            destruct (existsb (String.eqb (uh_name h)) (fr_busy (uh_frame h))); [contradiction|].
            apply fails_bind, Hrech, H.
        - apply fails_bind, Hrech, H.
        - destruct H as [H|[[Hok H]|[lrows [rrows [Hl [Hr H]]]]]]; [apply fails_bind, IHl, H| |].
          + eapply step_bind; [apply (build_from_R ap rec rec' join join' Hrec Hjoin)|exact Hok|].
            intros lf _. apply fails_bind, IHr, H.
          + eapply step_bind; [apply (build_from_R ap rec rec' join join' Hrec Hjoin)|eexists; exact Hl|].
            intros lf Hlf. rewrite Hl in Hlf. injection Hlf as <-.
            eapply step_bind; [apply (build_from_R ap rec rec' join join' Hrec Hjoin)|eexists; exact Hr|].
            intros rf Hrf. rewrite Hr in Hrf. injection Hrf as <-.
            apply fails_bind, Hjh, H.
      Qed.

      Let envR ctx s filtered := mk_env_R ap rec rec' call call' join join' Hrec Hcall Hjoin ctx s filtered.

      Lemma env_HS : forall ctx s filtered q c,
        sub_hits ctx q c -> fails ap (e_sub (mk_env rec' call' join' ctx s filtered) q c).
      Proof. intros. cbn [mk_env e_sub]. apply Hrech. assumption. Qed.

      Lemma env_HX : forall ctx s filtered q c,
        exists_hits ctx q c -> fails ap (e_exists (mk_env rec' call' join' ctx s filtered) q c).
      Proof.
        intros ctx s filtered q c H. cbn [mk_env e_exists]. destruct q as [s'|]; [|contradiction].
        cbn [exists_hits] in H. destruct H as [H|[rows [merged [Hb [Hm H]]]]].
        - apply fails_bind, build_surfaces, H.
        - eapply step_bind; [apply (build_from_R ap rec rec' join join' Hrec Hjoin)|eexists; exact Hb|].
          intros src Hsrc. rewrite Hb in Hsrc. injection Hsrc as <-.
          change (fails ap (let! merged0 := mapM (merge_item c) rows in
                            let! out := rec' (sub_ctx ctx c) (JRows s' merged0) in
                            match out with VArr l => Ok (negb (Nat.eqb (List.length l) 0)) | _ => Err end)).
          rewrite Hm. cbn [bind]. apply fails_bind, Hrech, H.
      Qed.

      Lemma env_HT : forall ctx s filtered q n vs c,
        T q n vs c = true -> fails ap (e_call (mk_env rec' call' join' ctx s filtered) q n vs c).
      Proof. intros. cbn [mk_env e_call]. apply HT. assumption. Qed.

      Lemma cond_surfaces : forall ctx s filtered cur c,
        cond_hits ctx (mk_env rec call join ctx s filtered) cur c ->
        fails ap (eval_cond (mk_env rec' call' join' ctx s filtered) cur c).
      Proof.
        intros. eapply eval_cond_surfaces; eauto using envR, env_HT, env_HS, env_HX.
      Qed.

      Lemma items_surfaces : forall ctx s filtered cur items acc,
        items_hit ctx (mk_env rec call join ctx s filtered) cur items ->
        fails ap (select_expr (mk_env rec' call' join' ctx s filtered) cur items acc).
      Proof.
        intros. eapply select_expr_surfaces; eauto using envR, env_HT, env_HS, env_HX.
      Qed.

      Lemma select_surfaces : forall ctx s filtered rows,
        select_hits ctx (mk_env rec call join ctx s filtered) s rows ->
        fails ap (exec_select (mk_env rec' call' join' ctx s filtered) s rows).
      Proof.
        intros ctx s filtered rows H. unfold select_hits in H. unfold exec_select.
        destruct ((match s_group s with [] => true | _ => false end) && all_aggregate (s_items s)).
        - apply fails_bind, items_surfaces, H.
        - induction rows as [|cur r IH]; [contradiction|]. cbn [mapM].
          destruct cur; try contradiction.
          + (* an inner dimension is passed through *) cbn [bind]. apply fails_bind, IH, H.
          + destruct H as [H|[Hok H]]; [apply fails_bind, fails_bind, items_surfaces, H|].
            eapply step_bind with (x := let! r0 := select_expr (mk_env rec call join ctx s filtered) kvs (s_items s) [] in Ok (VObj r0)).
            * apply R_bind; [apply select_expr_R, envR|]. intro; apply R_refl.
            * destruct Hok as [a Ha]. rewrite Ha. eexists; reflexivity.
            * intros a _. apply fails_bind, IH, H.
      Qed.

      Lemma filter_surfaces : forall ctx s from,
        filter_hits ctx s (mk_env rec call join ctx s []) from ->
        fails ap (filter_rows rec' ctx s (mk_env rec' call' join' ctx s []) from).
      Proof.
        intros ctx s from H. unfold filter_hits in H. unfold filter_rows.
        induction from as [|cur r IH]; [contradiction|].
        destruct cur; try (apply IH, H).
        - destruct H as [H|[Hok H]]; [apply fails_bind, Hrech, H|].
          eapply step_bind; [apply Hrec|exact Hok|]. intros rs _. apply fails_bind, IH, H.
        - destruct H as [H|[Hok H]]; [apply fails_bind, cond_surfaces, H|].
          eapply step_bind; [apply eval_cond_R, envR|exact Hok|]. intros keep _. apply fails_bind, IH, H.
      Qed.

      Lemma group_surfaces : forall ctx s filtered rows,
        group_hits ctx (mk_env rec call join ctx s filtered) s rows ->
        fails ap (exec_group_by (mk_env rec' call' join' ctx s filtered) s rows).
      Proof.
        intros ctx s filtered rows H. unfold group_hits in H. unfold exec_group_by.
        destruct (s_group s) as [|c0 cols]; [contradiction|].
        destruct H as [gs [Hg H]]. rewrite Hg. cbn [bind]. apply fails_bind. clear Hg.
        induction gs as [|g r IH]; [contradiction|].
        destruct H as [H|[Hok H]]; [apply fails_bind, cond_surfaces, H|].
        eapply step_bind; [apply eval_cond_R, envR|exact Hok|]. intros hv _. apply fails_bind, IH, H.
      Qed.

      (* exec(): whatever stage the fault is reached in, the query returns an error *)
      Lemma run_surfaces : forall ctx s src,
        run_hits ctx s src -> run_select rec' call' join' ctx s src = Err.
      Proof.
        intros ctx s src H. unfold run_select.
        assert (Hc : forall A (y : res A), fails ap y -> catch_panic y = Err).
        { intros A y [->|[_ ->]]; reflexivity. }
        apply Hc. destruct src as [from|]; cbn [run_hits] in H; cbv zeta.
        - destruct H as [H|[filtered [Hf H]]]; [apply fails_bind, filter_surfaces, H|].
          eapply step_bind; [apply (filter_rows_R ap rec rec' Hrec), envR|eexists; exact Hf|].
          intros filtered' Hf'. rewrite Hf in Hf'. injection Hf' as <-.
          destruct H as [H|[grouped [Hg H]]]; [apply fails_bind, group_surfaces, H|].
          eapply step_bind; [apply exec_group_by_R, envR|eexists; exact Hg|].
          intros grouped' Hg'. rewrite Hg in Hg'. injection Hg' as <-.
          apply fails_bind, select_surfaces, H.
        - apply fails_bind, select_surfaces, H.
      Qed.

      Lemma step_surfaces : forall ctx j,
        step_hits ctx j -> fails ap (exec_step rec' call' join' ctx j).
      Proof.
        intros ctx j H. destruct j as [[s|all l r limit offset]|s rows]; cbn [step_hits] in H; cbn [exec_step].
        - destruct H as [H|[src [Hb H]]]; [apply fails_bind, build_surfaces, H|].
          eapply step_bind; [apply (build_from_R ap rec rec' join join' Hrec Hjoin)|eexists; exact Hb|].
          intros src' Hs'. rewrite Hb in Hs'. injection Hs' as <-.
          left. apply run_surfaces, H.
        - destruct H as [H|[Hok H]]; [apply fails_bind, Hrech, H|].
          eapply step_bind; [apply Hrec|exact Hok|]. intros lv _. apply fails_bind, Hrech, H.
        - left. apply run_surfaces, H.
      Qed.
    End FaultySide.
  End Step.

  (* tying the knot with the same fuel as the interpreter *)
  Section Knot.
    Variable join_hits : jointype -> jstrategy -> list value -> list value -> string -> string ->
                         expr stmt -> row -> Prop.

    Fixpoint hits_gen (call : call_fn) (join : join_fn) (fuel : nat) (ctx : qctx) (j : job) : Prop :=
      match fuel with
      | O => False
      | S n => step_hits (exec call join n) (hits_gen call join n) call join join_hits ctx j
      end.

    Theorem exec_surfaces_gen : forall ap (call call' : call_fn) (join join' : join_fn),
      call_rel ap call call' -> join_rel ap join join' ->
      (forall q n vs c, T q n vs c = true -> fails ap (call' q n vs c)) ->
      (forall jt st l r li ri on d, join_hits jt st l r li ri on d -> fails ap (join' jt st l r li ri on d)) ->
      forall fuel ctx j, hits_gen call join fuel ctx j -> fails ap (exec call' join' fuel ctx j).
    Proof.
      intros ap call call' join join' Hc Hj HT Hjh. induction fuel as [|n IH]; intros ctx j H; [contradiction|].
      cbn [hits_gen] in H. cbn [exec].
      apply (step_surfaces (exec call join n) (hits_gen call join n) call join join_hits ap
                           (exec call' join' n) call' join'); auto.
      intros ctx0 j0. apply exec_R; assumption.
    Qed.

    Theorem api_surfaces_gen : forall ap (call call' : call_fn) (join join' : join_fn),
      call_rel ap call call' -> join_rel ap join join' ->
      (forall q n vs c, T q n vs c = true -> fails ap (call' q n vs c)) ->
      (forall jt st l r li ri on d, join_hits jt st l r li ri on d -> fails ap (join' jt st l r li ri on d)) ->
      forall fuel wrapped doc q,
        hits_gen call join fuel (api_ctx wrapped doc) (JStmt q) ->
        api_run call' join' fuel wrapped doc q = Err.
    Proof.
      intros ap call call' join join' Hc Hj HT Hjh fuel wrapped doc q H. unfold api_run.
      change (bind (catch_panic (exec call' join' fuel (api_ctx wrapped doc) (JStmt q)))
                   (fun v => match v with VArr l => Ok l | _ => Ok [v] end) = Err).
      destruct (exec_surfaces_gen ap call call' join join' Hc Hj HT Hjh fuel _ _ H) as [->|[_ ->]]; reflexivity.
    Qed.
  End Knot.

  (* a join that never calls the hook (no_join, exec_join, a specification join) *)
  Definition no_join_hits : jointype -> jstrategy -> list value -> list value -> string -> string ->
                            expr stmt -> row -> Prop := fun _ _ _ _ _ _ _ _ => False.
  Definition hits := hits_gen no_join_hits.

  Theorem exec_surfaces : forall ap (call call' : call_fn) (join : join_fn),
    call_rel ap call call' ->
    (forall q n vs c, T q n vs c = true -> fails ap (call' q n vs c)) ->
    forall fuel ctx j, hits call join fuel ctx j -> fails ap (exec call' join fuel ctx j).
  Proof.
    intros ap call call' join Hc HT. apply (exec_surfaces_gen no_join_hits ap call call' join join); auto.
    - intros ? ? ? ? ? ? ? ?; apply R_refl.
    - intros ? ? ? ? ? ? ? ? [].
  Qed.

  Theorem api_surfaces : forall ap (call call' : call_fn) (join : join_fn),
    call_rel ap call call' ->
    (forall q n vs c, T q n vs c = true -> fails ap (call' q n vs c)) ->
    forall fuel wrapped doc q,
      hits call join fuel (api_ctx wrapped doc) (JStmt q) ->
      api_run call' join fuel wrapped doc q = Err.
  Proof.
    intros ap call call' join Hc HT. apply (api_surfaces_gen no_join_hits ap call call' join join); auto.
    - intros ? ? ? ? ? ? ? ?; apply R_refl.
    - intros ? ? ? ? ? ? ? ? [].
  Qed.
End Hits.

(* ------------------------------------------------------------------ *)
(* calls inside a join's ON clause (Model/Faults.v fault_join)          *)
(* ------------------------------------------------------------------ *)

Section MapMHits.
  Context {A B : Type}.

  (* the fault-free mapM reaches an element on which P holds *)
  Fixpoint mapM_hits (f : A -> res B) (P : A -> Prop) (l : list A) : Prop :=
    match l with
    | [] => False
    | a :: r => P a \/ (ok (f a) /\ mapM_hits f P r)
    end.

  Lemma mapM_surfaces : forall ap (f g : A -> res B) (P : A -> Prop) l,
    (forall a, R ap (f a) (g a)) -> (forall a, P a -> fails ap (g a)) ->
    mapM_hits f P l -> fails ap (mapM g l).
  Proof.
    intros ap f g P l HR HP. induction l as [|a r IH]; intro H; [contradiction|]. cbn [mapM].
    destruct H as [H|[Hok H]]; [apply fails_bind, HP, H|].
    eapply step_bind; [apply HR|exact Hok|]. intros b _. apply fails_bind, IH, H.
  Qed.
End MapMHits.

Section JoinHits.
  Variable T : string -> string -> list value -> row -> bool.
  Variable call : call_fn.                       (* the fault-free hook *)

  Definition no_sub : stmt -> row -> Prop := fun _ _ => False.

  (* JoinMatchFunc: the ON clause on one (left key, right key) pair *)
  Definition right_step (c : call_fn) (data lkeys : row) (lrows : list value) (on : expr stmt)
             (re : centry) : res (list value) :=
    let '(_, (rkeys, rrows)) := re in
    let! r := eval (on_env_call c data) (obj_merge (obj_merge [] lkeys) rkeys) on in
    match r with
    | RVal (VBool true) => pairs lrows rrows
    | RVal (VBool false) => Ok []
    | _ => Err
    end.

  Definition right_hits (data lkeys : row) (on : expr stmt) (re : centry) : Prop :=
    let '(_, (rkeys, _)) := re in
    invokes stmt (on_env_call call data) T no_sub no_sub (obj_merge (obj_merge [] lkeys) rkeys) on.

  Definition loop_hits (data : row) (on : expr stmt) (rcat : list centry) (le : centry) : Prop :=
    let '(_, (lkeys, lrows)) := le in
    mapM_hits (right_step call data lkeys lrows on) (right_hits data lkeys on) rcat.

  Definition fault_join_hits (jt : jointype) (st : jstrategy) (lrows rrows : list value)
             (lid rid : string) (on : expr stmt) (data : row) : Prop :=
    (is_straight st && negb (match jt with JInner => true | _ => false end)) = false /\
    (negb (is_straight st) && hash_join_analyze on) = false /\
    let '(L, Rr, li, ri) :=
      if match jt with JRight => negb (is_straight st) | _ => false end
      then (rrows, lrows, rid, lid) else (lrows, rrows, lid, rid) in
    exists lcat rcat,
      to_catalog L li ri on = Ok lcat /\ to_catalog Rr ri li on = Ok rcat /\
      mapM_hits (fun le => loop_match_call call data (match jt with JInner => true | _ => false end) ri on le rcat)
                (loop_hits data on rcat) lcat.

  Section FaultyJoin.
    Variable ap : bool.
    Variable call' : call_fn.
    Hypothesis Hcall : call_rel ap call call'.
    Hypothesis HT : forall q n vs c, T q n vs c = true -> fails ap (call' q n vs c).

    Lemma on_env_rel : forall data, env_rel ap stmt (on_env_call call data) (on_env_call call' data).
    Proof. intro data. constructor; cbn; try reflexivity; intros; try apply R_refl. apply Hcall. Qed.

    Lemma right_step_R : forall data lkeys lrows on re,
      R ap (right_step call data lkeys lrows on re) (right_step call' data lkeys lrows on re).
    Proof.
      intros data lkeys lrows on [k [rkeys rrows]]. unfold right_step.
      apply R_bind; [apply eval_R, on_env_rel|]. intro; apply R_refl.
    Qed.

    Lemma loop_match_call_R : forall data inner ri on le rcat,
      R ap (loop_match_call call data inner ri on le rcat) (loop_match_call call' data inner ri on le rcat).
    Proof.
      intros data inner ri on [k [lkeys lrows]] rcat. unfold loop_match_call.
      apply R_bind; [|intro; apply R_refl].
      apply (R_mapM ap _ _ (right_step call data lkeys lrows on) (right_step call' data lkeys lrows on)).
      apply right_step_R.
    Qed.

    Lemma loop_surfaces : forall data inner ri on rcat le,
      loop_hits data on rcat le -> fails ap (loop_match_call call' data inner ri on le rcat).
    Proof.
      intros data inner ri on rcat [k [lkeys lrows]] H. unfold loop_hits in H. unfold loop_match_call.
      apply fails_bind.
      apply (mapM_surfaces ap (right_step call data lkeys lrows on) (right_step call' data lkeys lrows on)
                           (right_hits data lkeys on)); [apply right_step_R| |exact H].
      intros [k' [rkeys rrows]] Hr. unfold right_hits in Hr. unfold right_step. apply fails_bind.
      apply (eval_surfaces stmt (on_env_call call data) T no_sub no_sub ap (on_env_call call' data)); auto.
      - apply on_env_rel.
      - intros q c [].
      - intros q c [].
    Qed.

    (* a call in ON that is reached fault-free makes the faulty ExecJoin fail *)
    Theorem fault_join_surfaces : forall jt st l r li ri on d,
      fault_join_hits jt st l r li ri on d -> fails ap (fault_join call' jt st l r li ri on d).
    Proof.
      intros jt st l r li ri on d [Hs [Hh H]]. unfold fault_join. rewrite Hs.
      destruct (if match jt with JRight => negb (is_straight st) | _ => false end
                then (r, l, ri, li) else (l, r, li, ri)) as [[[L Rr] li'] ri'].
      destruct H as [lcat [rcat [Hl [Hr H]]]]. rewrite Hl, Hr. cbn [bind]. rewrite Hh.
      apply fails_bind.
      apply (mapM_surfaces ap
               (fun le => loop_match_call call d (match jt with JInner => true | _ => false end) ri' on le rcat)
               (fun le => loop_match_call call' d (match jt with JInner => true | _ => false end) ri' on le rcat)
               (loop_hits d on rcat)); [intro; apply loop_match_call_R| |exact H].
      intros le Hle. apply loop_surfaces, Hle.
    Qed.
  End FaultyJoin.

  (* every position, ON included *)
  Definition hits_on := hits_gen T fault_join_hits.
End JoinHits.

Theorem api_surfaces_on : forall T ap (call call' : call_fn),
  call_rel ap call call' ->
  (forall q n vs c, T q n vs c = true -> fails ap (call' q n vs c)) ->
  forall fuel wrapped doc q,
    hits_on T call call (fault_join call) fuel (api_ctx wrapped doc) (JStmt q) ->
    api_run call' (fault_join call') fuel wrapped doc q = Err.
Proof.
  intros T ap call call' Hc HT fuel wrapped doc q H.
  apply (api_surfaces_gen T (fault_join_hits T call) ap call call' (fault_join call) (fault_join call')); auto.
  - apply fault_join_R, Hc.
  - intros. apply (fault_join_surfaces T call ap call'); auto.
Qed.
