(* Proofs/C06Examples.v — non-vacuity: concrete inputs that meet the hypotheses of the C06 theorems,
   and the theorems' conclusions observed on the executable model (through Run/EngineRun.run_model). *)
From Coq Require Import Floats.
From GenqlV Require Import Base.Prelude Base.Fmt Base.Value Model.Ast Model.Like Model.Num Model.Eval Model.Exec.
From GenqlV Require Import Spec.DistinctSpec Proofs.C06Lemmas Proofs.C06Float Run.EngineRun.
Local Open Scope string_scope.

Definition r1 : value := VObj [("a", VNum 1%float); ("b", VStr "x")].
Definition r2 : value := VObj [("a", VStr "1"); ("b", VStr "x")].      (* differs from r1 only in kind *)
Definition r3 : value := VObj [("a", VStr "1 b:x")].                    (* same %v text as r1 *)
Definition t_rows : list value := [r1; r2; r1; r3; r2].
Definition u_rows : list value := [r3; VObj [("a", VNull)]; r1].
Definition ex_doc : value := VObj [("t", VArr t_rows); ("u", VArr u_rows)].

Definition sel (distinct : bool) (tbl : string) (items : list (sel_item stmt)) : stmt :=
  SSelect {| s_with := []; s_from := FTable [tbl] ""; s_where := None; s_group := []; s_having := None;
             s_items := items; s_distinct := distinct; s_order := []; s_limit := None; s_offset := None |}.

Definition ex_ctx : qctx :=
  {| c_data := [("t", VArr t_rows); ("u", VArr u_rows)]; c_ctes := []; c_busy := []; c_up := [] |}.

(* SELECT DISTINCT * FROM t : first occurrences, in order; the three look-alike rows all survive *)
Example distinct_star_runs :
  run_model (false, ex_doc, sel true "t" [IStar]) = Ok [r1; r2; r3] /\
  nodup_first veqb t_rows = [r1; r2; r3].
Proof. vm_compute. split; reflexivity. Qed.

(* SELECT DISTINCT b FROM t *)
Example distinct_projection_runs :
  run_model (false, ex_doc, sel true "t" [IExpr (ECol ["b"]) "b"]) = Ok [VObj [("b", VStr "x")]; VObj [("b", VNull)]].
Proof. vm_compute. reflexivity. Qed.

(* the rows are canonical: the hypothesis of the UNION theorems is met *)
Example canon_rows_met : canon_rows t_rows /\ canon_rows u_rows.
Proof. split; repeat constructor. Qed.

(* a plain SELECT * FROM t yields its table for every fuel >= 1: the hypothesis [yields] is met *)
Example yields_met tbl rows :
  (tbl = "t" /\ rows = t_rows) \/ (tbl = "u" /\ rows = u_rows) ->
  yields no_call no_join 1 ex_ctx (sel false tbl [IStar]) rows.
Proof.
  intros H m Hm. destruct m as [|m]; [lia|].
  destruct H as [[-> ->]|[-> ->]]; eexists; (split; [vm_compute; reflexivity | reflexivity]).
Qed.

(* (t UNION ALL u) UNION t  and  (t UNION u) UNION ALL t : three branches, mixed flags *)
Definition chain_a : list branch :=
  [(true, sel false "u" [IStar], u_rows); (false, sel false "t" [IStar], t_rows)].
Definition chain_b : list branch :=
  [(false, sel false "u" [IStar], u_rows); (true, sel false "t" [IStar], t_rows)].

Lemma chain_hyps (c : list branch) :
  c = chain_a \/ c = chain_b ->
  Forall (fun b => yields no_call no_join 1 ex_ctx (snd (fst b)) (snd b) /\ canon_rows (snd b)) c.
Proof.
  intros [->| ->]; repeat constructor; cbn [fst snd];
    try (apply yields_met; auto); repeat constructor.
Qed.

(* the chain theorem applied (its hypotheses are satisfiable), for every fuel >= 3 *)
Example union_chain_applies m :
  (3 <= m)%nat ->
  exec no_call no_join m ex_ctx (JStmt (chain_stmt (sel false "t" [IStar]) (map br_syntax chain_a))) =
  Ok (VArr (union_chain_spec veqb t_rows (map br_result chain_a))).
Proof.
  intros Hm.
  apply (union_chain_value no_call no_join feq_laws_binary64 ex_ctx 1 (sel false "t" [IStar]) t_rows chain_a).
  - discriminate.
  - apply yields_met; auto.
  - apply canon_rows_met.
  - apply chain_hyps; auto.
  - cbn. lia.
Qed.

(* ... and what the model computes end to end agrees with the specification's fold *)
Example union_chain_runs :
  run_model (false, ex_doc, chain_stmt (sel false "t" [IStar]) (map br_syntax chain_a))
    = Ok (union_chain_spec veqb t_rows (map br_result chain_a)) /\
  union_chain_spec veqb t_rows (map br_result chain_a)
    = [r1; r2; r3; VObj [("a", VNull)]] /\
  run_model (false, ex_doc, chain_stmt (sel false "t" [IStar]) (map br_syntax chain_b))
    = Ok (union_chain_spec veqb t_rows (map br_result chain_b)) /\
  union_chain_spec veqb t_rows (map br_result chain_b)
    = [r1; r2; r3; VObj [("a", VNull)]; r1; r2; r1; r3; r2].
Proof. vm_compute. repeat split. Qed.

(* t UNION u LIMIT 2 OFFSET 1 : the window is cut out of the combined, deduplicated rows *)
Example union_limit_runs :
  run_model (false, ex_doc,
             SUnion false (sel false "t" [IStar]) (sel false "u" [IStar]) (Some 2%Z) (Some 1%Z))
    = Ok (window_ref (union_spec veqb false t_rows u_rows) (Some 2%Z) (Some 1%Z)) /\
  window_ref (union_spec veqb false t_rows u_rows) (Some 2%Z) (Some 1%Z) = [r2; r3].
Proof. vm_compute. split; reflexivity. Qed.
