(* Proofs/C16ShapeC.v -- C16_shape at the level of lexical modes: for a well-formed template the
   mode sequence of the sanitized text is the mode sequence of the template with the modes of each
   placeholder token replaced by the modes of the literal written for its argument; every raw byte
   of the template keeps its mode.  By induction on the length of the template, splitting at the
   first placeholder (C16ShapeA), with the look-ahead lemmas of C16ShapeB, the simulation
   (step_sim, ph_local) and the literal-token theorems (C16Tokens). *)
From Coq Require Import Lia ZifyBool ZifyN ZifyNat.
From GenqlV Require Import Base.Prelude Model.MySqlString Model.Sanitizer Spec.C16Spec
  Proofs.C16Bytes Proofs.C16SimA Proofs.C16SimB Proofs.C16Pos Proofs.C16Tokens
  Proofs.C16ShapeA Proofs.C16ShapeB.
Local Open Scope string_scope.
Local Open Scope bool_scope.
Local Opaque code wrap64.

(* ---------------------------------------------------------------- the raw part before a placeholder *)

Lemma mlabel_def c rest : mlabel MDef c rest = Default.
Proof. reflexivity. Qed.

(* no byte of the prefix a (followed by la) is a Default-mode "$digit" *)
Fixpoint noph_la (m : mstate) (a la : bytes) : bool :=
  match a with
  | EmptyString => true
  | String c r =>
      negb (is_default (mlabel m c (r ++ la)) && ph_here c (r ++ la)) && noph_la (mstep m c (r ++ la)) r la
  end.

Lemma raw_prefix : forall t prev s m r rest1,
  rel s m t = true -> wf_from prev m t = true -> to_place s = false ->
  split_ph s t = Some (r, rest1) ->
  mrun_la m r (String "$" rest1) = MDef /\
  noph_la m r (String "$" rest1) = true /\
  (exists p, wf_from p MDef (String "$" rest1) = true) /\
  (forall X2, lit_start X2 = true ->
     mmodes_la m r X2 = mmodes_la m r (String "$" rest1) /\ mrun_la m r X2 = MDef).
Proof.
  induction t as [|c rest IH]; intros prev s m r rest1 Hrel Hwf Hs Hsp; [discriminate|].
  pose proof Hsp as Hsp0.
  cbn [split_ph] in Hsp. cbn [wf_from] in Hwf. apply andb_prop in Hwf. destruct Hwf as [Hwf Hwfr].
  destruct (enters_place s c rest) eqn:He.
  - inversion Hsp; subst r rest1. destruct (enters_is_dollar _ _ _ He) as [-> Hd].
    rewrite (ph_local _ _ _ _ _ Hrel Hwf) in He. apply andb_prop in He. destruct He as [Hl Hp].
    pose proof (wf_W1 _ _ _ _ Hwf Hp) as W1.
    destruct (mlabel m "$" rest); try discriminate. destruct W1 as [-> _].
    split; [reflexivity|]. split; [reflexivity|]. split.
    + exists prev. cbn [wf_from]. now rewrite Hwf, Hwfr.
    + intros X2 _. split; reflexivity.
  - destruct (split_ph (snext s c rest) rest) as [[r' rest1']|] eqn:Hrec; [|discriminate].
    inversion Hsp; subst r rest1'.
    assert (Hs' : to_place (snext s c rest) = false) by now apply no_place_step.
    assert (Hrel' : rel (snext s c rest) (mstep m c rest) rest = true) by (eapply step_sim; eassumption).
    destruct (split_some rest _ EmptyString 0%Z _ _ Hs' Hrec) as [Hrest [Hdig _]].
    destruct (IH (Some c) _ _ _ _ Hrel' Hwfr Hs' Hrec) as [Ha [Hn [Hb Hc]]].
    cbn [mrun_la mmodes_la noph_la]. rewrite <- Hrest.
    split; [exact Ha|]. split; [rewrite Hn, <- (ph_local _ _ _ _ _ Hrel Hwf), He; reflexivity|]. split; [exact Hb|].
    intros X2 HX2.
    assert (E : mstep m c (r' ++ X2) = mstep m c rest /\ mlabel m c (r' ++ X2) = mlabel m c rest).
    { destruct r' as [|b1 r''].
      - (* the byte right before the placeholder *)
        cbn [append] in *. subst rest. cbn [mrun_la] in Ha.
        assert (Hp : ph_here "$" rest1 = true) by (unfold ph_here; now rewrite Hdig).
        cbn [wf_from] in Hwfr. apply andb_prop in Hwfr. destruct Hwfr as [Hw1 _].
        rewrite Ha in Hw1. pose proof (wf_W1 _ _ _ _ Hw1 Hp) as W1. rewrite mlabel_def in W1.
        destruct W1 as [_ [Hprev _]].
        rewrite Ha. apply caseA; auto. eapply rel_good; eassumption.
      - rewrite Hrest. destruct r'' as [|b2 r'''].
        + (* one byte further: only "blank or end?" is asked about the first byte of the literal *)
          cbn [append]. apply la_insens; [reflexivity|].
          destruct X2 as [|f X']; [discriminate|]. cbn [append peek2 blank_or_eof].
          unfold lit_start in HX2. change (is_blank "$") with false. arith.
        + cbn [append]. apply la_insens; reflexivity. }
    destruct E as [E1 E2]. rewrite E1, E2.
    destruct (Hc X2 HX2) as [Hc1 Hc2]. now rewrite Hc1, Hc2.
Qed.

(* ---------------------------------------------------------------- helper facts *)

Lemma mmodes_length m s : List.length (mmodes m s) = String.length s.
Proof. revert m. induction s as [|c r IH]; intro m; [reflexivity|]. cbn. now rewrite IH. Qed.

Lemma digits_wordchars ds : all_digits ds = true -> all_wordchars ds = true.
Proof.
  induction ds as [|d r IH]; [reflexivity|]. cbn. intro H. apply andb_prop in H. destruct H as [Hd Hr].
  rewrite Hd, orb_true_r. now apply IH.
Qed.

Lemma follow_to_lit rest1 : follow_ok rest1 = true -> lit_follow_ok (skip_digits rest1) = true.
Proof.
  unfold follow_ok. pose proof (skip_no_digit rest1) as Hn.
  destruct (skip_digits rest1) as [|f r]; [reflexivity|]. cbn [nxt_sat] in Hn. cbn [lit_follow_ok].
  rewrite Hn. destruct (is_letter f), (is f "."), (is f c_sq); cbn; auto.
Qed.

Lemma wf_digits : forall ds t' p,
  all_digits ds = true -> wf_from p MIdent (ds ++ t') = true -> exists p', wf_from p' MIdent t' = true.
Proof.
  induction ds as [|d r IH]; intros t' p Hd Hwf; [eauto|].
  cbn [all_digits] in Hd. apply andb_prop in Hd. destruct Hd as [Hd Hr].
  cbn [append wf_from] in Hwf. apply andb_prop in Hwf. destruct Hwf as [_ Hwf].
  assert (mstep MIdent d (r ++ t') = MIdent) as E by (unfold mstep; cbn [mcont]; now rewrite Hd, orb_true_r).
  rewrite E in Hwf. eapply IH; eassumption.
Qed.

Lemma wf_restart t' p :
  lit_follow_ok t' = true -> wf_from p MIdent t' = true -> wf_templateb t' = true.
Proof.
  intros Hf Hwf. unfold wf_templateb. destruct t' as [|f rest]; [reflexivity|].
  pose proof (lit_follow_split _ Hf) as [Hs _].
  assert (Hl : is_letter f = false) by (destruct (is_letter f); [discriminate|reflexivity]).
  assert (Hd : is_digit f = false) by (destruct (is_digit f); [rewrite orb_true_r in Hs; discriminate|reflexivity]).
  cbn [wf_from] in *. apply andb_prop in Hwf. destruct Hwf as [_ Hwf].
  assert (E : mstep MIdent f rest = mstep MDef f rest) by (unfold mstep; cbn [mcont]; now rewrite Hl, Hd).
  rewrite E in Hwf. rewrite Hwf, andb_true_r.
  unfold wf_at. assert (ph_here f rest = false) as -> by (unfold ph_here; assert (is f "$" = false) as -> by arith; reflexivity).
  reflexivity.
Qed.

Lemma lit_start_num s X : num_text s = true -> lit_start (s ++ X) = true.
Proof.
  destruct s as [|c r]; [discriminate|]. cbn [num_text append lit_start]. destruct (is c "-") eqn:Hm.
  - intro H. destruct r as [|d r']; [discriminate|]. rewrite num_body_tail in H. apply andb_prop in H. destruct H as [Hd _].
    cbn [append nxt_sat]. rewrite Hd. cbn. now rewrite !orb_true_r.
  - intro H. rewrite num_body_tail in H. apply andb_prop in H. destruct H as [Hd _]. rewrite Hd. now rewrite orb_true_r.
Qed.

Lemma lit_start_fmt a txt X : fmt_arg a = Ok txt -> lit_start (txt ++ X) = true.
Proof.
  intro H. destruct a; cbn [fmt_arg] in H.
  - inversion H. reflexivity.
  - inversion H. apply lit_start_num. apply int_text_is_number.
  - apply lit_start_num. eapply float_text_is_number; eassumption.
  - inversion H. destruct b; reflexivity.
  - inversion H. reflexivity.
  - discriminate.
Qed.

Lemma render_raw_part x args : render (raw_part x) args = Some x.
Proof. destruct x; cbn; [reflexivity|]. now rewrite app_nil_r_s. Qed.

Lemma render_raw r ps args :
  render (PRaw r :: ps) args = match render ps args with Some x => Some (r ++ x) | None => None end.
Proof. reflexivity. Qed.

(* the first byte of the sanitized text is the first byte of the template unless that is a placeholder *)
Lemma render_peek t args out :
  render (lex t) args = Some out -> nxt_is t "$" = false -> peek out = peek t.
Proof.
  intros H Hd. destruct (split_ph (SRun CRaw) t) as [[r rest1]|] eqn:Hsp.
  - destruct (lex_split t r rest1 Hsp) as [Ht [_ Hl]]. rewrite Hl in H. cbn [render] in H.
    destruct r as [|c r'].
    + rewrite Ht in Hd. cbn in Hd. discriminate.
    + destruct (nth_error args (Z.to_nat (wrap64 (accw 0 (take_digits rest1) - 1)))) as [a|];
        destruct (render (lex (skip_digits rest1)) args); try discriminate.
      destruct (fmt_arg a); try discriminate. inversion H. rewrite Ht. reflexivity.
  - rewrite (lex_nosplit t Hsp), render_raw_part in H. now inversion H.
Qed.

Lemma follow_ok_peek a b : peek a = peek b -> lit_follow_ok a = lit_follow_ok b.
Proof. destruct a, b; cbn; intro H; try discriminate; [reflexivity|]. now inversion H. Qed.

(* ---------------------------------------------------------------- chunks *)

Inductive chunk :=
| CRawC (r : bytes) (ms : list mode)          (* raw template text and the modes of its bytes *)
| CPhC (ds : bytes) (a : arg) (txt : bytes).  (* placeholder "$ds", its argument, the text written for it *)

Fixpoint tmpl_of (cs : list chunk) : bytes :=
  match cs with
  | [] => EmptyString
  | CRawC r _ :: k => r ++ tmpl_of k
  | CPhC ds _ _ :: k => String "$" (ds ++ tmpl_of k)
  end.
Fixpoint out_of (cs : list chunk) : bytes :=
  match cs with
  | [] => EmptyString
  | CRawC r _ :: k => r ++ out_of k
  | CPhC _ _ txt :: k => txt ++ out_of k
  end.
Fixpoint tmodes_of (cs : list chunk) : list mode :=
  match cs with
  | [] => []
  | CRawC _ ms :: k => ms ++ tmodes_of k
  | CPhC ds _ _ :: k => (Default :: repeat_mode InWord (String.length ds)) ++ tmodes_of k
  end.
Fixpoint omodes_of (cs : list chunk) : list mode :=
  match cs with
  | [] => []
  | CRawC _ ms :: k => ms ++ omodes_of k
  | CPhC _ a txt :: k => lit_modes (inner_mode a) txt ++ omodes_of k
  end.

Definition chunk_ok (args : list arg) (c : chunk) : Prop :=
  match c with
  | CRawC r ms => List.length ms = String.length r
  | CPhC ds a txt =>
      all_digits ds = true /\ ds <> EmptyString /\
      nth_error args (Z.to_nat (wrap64 (accw 0 ds - 1))) = Some a /\ fmt_arg a = Ok txt
  end.

(* everything the induction needs about the first placeholder of a well-formed template *)
Lemma shape_step args t r rest1 out :
  wf_templateb t = true -> split_ph (SRun CRaw) t = Some (r, rest1) ->
  render (lex t) args = Some out ->
  exists a txt out',
    let ds := take_digits rest1 in
    let t' := skip_digits rest1 in
    let Lr := mmodes_la MDef r (String "$" rest1) in
    t = r ++ String "$" (ds ++ t') /\ out = r ++ txt ++ out' /\
    all_digits ds = true /\ ds <> EmptyString /\ (String.length ds <= 18)%nat /\
    nth_error args (Z.to_nat (wrap64 (accw 0 ds - 1))) = Some a /\ fmt_arg a = Ok txt /\
    render (lex t') args = Some out' /\ wf_templateb t' = true /\
    lit_follow_ok t' = true /\ lit_follow_ok out' = true /\
    noph_la MDef r (String "$" rest1) = true /\
    mmodes MDef t = (Lr ++ (Default :: repeat_mode InWord (String.length ds)) ++ mmodes MDef t')%list /\
    mmodes MDef out = (Lr ++ lit_modes (inner_mode a) txt ++ mmodes MDef out')%list.
Proof.
  intros Hwf Hsp Hr.
  destruct (lex_split t r rest1 Hsp) as [Ht [Hdig Hl]].
  set (ds := take_digits rest1) in *. set (t' := skip_digits rest1) in *.
  assert (Hrest1 : rest1 = ds ++ t') by apply take_skip.
  rewrite Hl, render_raw in Hr.
  destruct (render (PArg (accw 0 ds) :: lex t') args) as [o1|] eqn:Hr1; [|discriminate].
  inversion Hr; subst out. clear Hr. cbn [render] in Hr1.
  destruct (nth_error args (Z.to_nat (wrap64 (accw 0 ds - 1)))) as [a|] eqn:Ha;
    destruct (render (lex t') args) as [out'|] eqn:Hr'; try discriminate.
  destruct (fmt_arg a) as [txt| | |] eqn:Hf; try discriminate. inversion Hr1; subst o1. clear Hr1.
  destruct (raw_prefix t None (SRun CRaw) MDef r rest1 (rel_init t) Hwf eq_refl Hsp) as [Hrun [Hnoph [[p Hwf1] HX2]]].
  assert (Hp : ph_here "$" rest1 = true) by (unfold ph_here; now rewrite Hdig).
  cbn [wf_from] in Hwf1. apply andb_prop in Hwf1. destruct Hwf1 as [Hw1 Hwf1].
  pose proof (wf_W1 _ _ _ _ Hw1 Hp) as W1. rewrite mlabel_def in W1. destruct W1 as [_ [_ [Hfol Hcnt]]].
  change (mstep MDef "$" rest1) with MIdent in Hwf1.
  assert (Hds : all_digits ds = true) by apply take_all_digits.
  assert (Hdne : ds <> EmptyString) by now apply take_nonempty.
  assert (Hfl : lit_follow_ok t' = true) by now apply follow_to_lit.
  rewrite Hrest1 in Hwf1. destruct (wf_digits _ _ _ Hds Hwf1) as [p' Hwf2].
  assert (Hwf' : wf_templateb t' = true) by (eapply wf_restart; eassumption).
  assert (Hnd : nxt_is t' "$" = false).
  { pose proof (lit_follow_split _ Hfl) as Hs. destruct t' as [|f rr]; [reflexivity|]. cbn [nxt_is]. destruct Hs as [Hs _]. arith. }
  assert (Hflo : lit_follow_ok out' = true)
    by (rewrite (follow_ok_peek out' t'); [exact Hfl|eapply render_peek; eassumption]).
  assert (HLS : lit_start (txt ++ out') = true) by (eapply lit_start_fmt; eassumption).
  destruct (HX2 _ HLS) as [HX2a HX2b].
  exists a, txt, out'. cbn zeta. fold ds t'.
  split; [exact Ht|]. split; [reflexivity|]. split; [exact Hds|]. split; [exact Hdne|].
  split; [unfold ds; rewrite take_length; exact Hcnt|].
  split; [exact Ha|]. split; [exact Hf|]. split; [exact Hr'|]. split; [exact Hwf'|].
  split; [exact Hfl|]. split; [exact Hflo|]. split; [exact Hnoph|]. split.
  - rewrite Ht at 1. fold ds t'. rewrite <- Hrest1. rewrite mmodes_app, Hrun. f_equal.
    rewrite Hrest1. cbn [mmodes]. rewrite mlabel_def. change (mstep MDef "$" (ds ++ t')) with MIdent.
    cbn [app]. f_equal. rewrite word_run by now apply digits_wordchars.
    now rewrite ident_end.
  - rewrite mmodes_app, HX2a, HX2b. f_equal. now apply literal_is_one_token.
Qed.

Lemma step_length t r rest1 :
  t = r ++ String "$" (take_digits rest1 ++ skip_digits rest1) ->
  (String.length (skip_digits rest1) < String.length t)%nat.
Proof. intros ->. rewrite length_app_s. cbn [String.length]. rewrite length_app_s. lia. Qed.

Lemma shape_modes_aux args : forall n t,
  (String.length t <= n)%nat -> wf_templateb t = true ->
  forall out, render (lex t) args = Some out ->
  exists cs, t = tmpl_of cs /\ out = out_of cs /\
             mmodes MDef t = tmodes_of cs /\ mmodes MDef out = omodes_of cs /\
             Forall (chunk_ok args) cs.
Proof.
  induction n as [|n IH]; intros t Hlen Hwf out Hr.
  - destruct t; [|cbn in Hlen; lia]. cbn in Hr. inversion Hr; subst out.
    exists []. repeat split; constructor.
  - destruct (split_ph (SRun CRaw) t) as [[r rest1]|] eqn:Hsp.
    2: { rewrite (lex_nosplit t Hsp), render_raw_part in Hr. inversion Hr; subst out.
         exists [CRawC t (mmodes MDef t)]. cbn. rewrite !app_nil_r_s, !app_nil_r. repeat split.
         constructor; [apply mmodes_length|constructor]. }
    destruct (shape_step args t r rest1 out Hwf Hsp Hr)
      as [a [txt [out' [Ht [Ho [Hds [Hdne [_ [Ha [Hf [Hr' [Hwf' [_ [_ [_ [Hmt Hmo]]]]]]]]]]]]]]]].
    cbn zeta in *.
    assert (Hlen' : (String.length (skip_digits rest1) <= n)%nat) by (pose proof (step_length _ _ _ Ht); lia).
    destruct (IH _ Hlen' Hwf' out' Hr') as [cs' [Ht' [Ho' [Htm [Hom Hok]]]]].
    exists (CRawC r (mmodes_la MDef r (String "$" rest1)) :: CPhC (take_digits rest1) a txt :: cs').
    cbn [tmpl_of out_of tmodes_of omodes_of]. rewrite <- Ht', <- Ho', <- Htm, <- Hom.
    split; [exact Ht|]. split; [exact Ho|]. split; [exact Hmt|]. split; [exact Hmo|].
    constructor; [apply mmodes_la_length|]. constructor; [|exact Hok]. cbn. auto.
Qed.

(* C16_shape, mode level *)
Theorem shape_modes : forall t args out,
  wf_template t -> sanitize_sql t args = Ok out ->
  exists cs, t = tmpl_of cs /\ out = out_of cs /\
             mmodes MDef t = tmodes_of cs /\ mmodes MDef out = omodes_of cs /\
             Forall (chunk_ok args) cs.
Proof.
  intros t args out Hwf H. eapply shape_modes_aux; [apply Nat.le_refl|exact Hwf|].
  apply sanitize_ok_text. exact H.
Qed.
