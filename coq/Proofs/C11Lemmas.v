(* Proofs/C11Lemmas.v — fresh writes preserve the input at every prefix (= every crash point). *)
From Coq Require Import List Arith Bool Lia.
Import ListNotations.
From GenqlV Require Import Base.Trace.

Lemma existsb_eqb_In a l : existsb (Nat.eqb a) l = true -> In a l.
Proof.
  induction l as [|x l IH]; cbn; [discriminate|].
  destruct (Nat.eqb a x) eqn:E; cbn; intros H.
  - left. apply Nat.eqb_eq in E. congruence.
  - right. apply IH, H.
Qed.

(* invariant: owned objects are not input objects *)
Lemma writes_fresh_preserve pre : forall tr owned h,
  (forall a, In a owned -> pre a = false) ->
  writes_fresh pre owned tr = true ->
  forall x, pre x = true -> run_trace h tr x = h x.
Proof.
  induction tr as [|e tr IH]; intros owned h Hown Hw x Hx; [reflexivity|].
  change (run_trace (apply_event h e) tr x = h x).
  destruct e as [a|a v|a]; cbn in Hw.
  - apply andb_true_iff in Hw. destruct Hw as [Ha Hw].
    rewrite (IH (a :: owned)); auto.
    intros b [<-|Hb]; [now apply negb_true_iff in Ha | now apply Hown].
  - apply andb_true_iff in Hw. destruct Hw as [Ha Hw].
    rewrite (IH owned); auto. cbn.
    destruct (Nat.eqb x a) eqn:E; [|reflexivity].
    apply Nat.eqb_eq in E; subst x.
    apply existsb_eqb_In in Ha. rewrite (Hown _ Ha) in Hx. discriminate.
  - rewrite (IH owned); auto.
Qed.

Lemma writes_fresh_prefix pre : forall p q owned,
  writes_fresh pre owned (p ++ q) = true -> writes_fresh pre owned p = true.
Proof.
  induction p as [|e p IH]; intros q owned H; [reflexivity|].
  destruct e as [a|a v|a]; cbn in *.
  - apply andb_true_iff in H. destruct H as [Ha H]. rewrite Ha. cbn. eapply IH; eauto.
  - apply andb_true_iff in H. destruct H as [Ha H]. rewrite Ha. cbn. eapply IH; eauto.
  - eapply IH; eauto.
Qed.

Theorem fresh_writes_preserve_input pre tr h :
  writes_fresh pre [] tr = true ->
  forall p q, tr = p ++ q ->
  forall x, pre x = true -> run_trace h p x = h x.
Proof.
  intros Hw p q -> x Hx.
  eapply writes_fresh_preserve with (owned := []); eauto.
  - intros a [].
  - eapply writes_fresh_prefix; eauto.
Qed.

Lemma scoped_marker_fresh pre row copy :
  pre copy = false -> writes_fresh pre [] (scoped_marker_trace row copy) = true.
Proof. intros H. cbn. rewrite H, Nat.eqb_refl. reflexivity. Qed.

Lemma pinned_marker_refuted :
  exists pre row h, pre row = true /\
    run_trace h (pinned_marker_trace row true) row <> h row.
Proof.
  exists (fun _ => true), 0, (fun _ => 0). split; [reflexivity|]. cbn. discriminate.
Qed.

Lemma pinned_marker_not_fresh pre row fails :
  writes_fresh pre [] (pinned_marker_trace row fails) = false.
Proof. reflexivity. Qed.
