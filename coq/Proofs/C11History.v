(* Proofs/C11History.v — fresh writes over HISTORIES of executions: staged evaluation (a later
   stage may write what an earlier stage allocated), any sequence of queries against the same
   document, and the converse (a write into an input object is observable). *)
From Coq Require Import List Arith Bool Lia.
Import ListNotations.
From GenqlV Require Import Base.Trace Proofs.C11Lemmas.

(* objects a trace allocates, most recent first (the order [writes_fresh] accumulates them in) *)
Fixpoint allocs (tr : list event) (owned : list addr) : list addr :=
  match tr with
  | [] => owned
  | Alloc a :: r => allocs r (a :: owned)
  | _ :: r => allocs r owned
  end.

Lemma existsb_eqb_incl a l l' :
  incl l l' -> existsb (Nat.eqb a) l = true -> existsb (Nat.eqb a) l' = true.
Proof.
  intros Hi H. apply existsb_exists in H. destruct H as [x [Hx E]].
  apply existsb_exists. exists x. split; [apply Hi, Hx | exact E].
Qed.

(* owning more never hurts *)
Lemma writes_fresh_mono pre : forall tr owned owned',
  incl owned owned' -> writes_fresh pre owned tr = true -> writes_fresh pre owned' tr = true.
Proof.
  induction tr as [|e tr IH]; intros owned owned' Hi H; [reflexivity|].
  destruct e as [a|a v|a]; cbn in *.
  - apply andb_true_iff in H. destruct H as [Ha H]. rewrite Ha. cbn.
    apply (IH (a :: owned)); [|exact H].
    intros b [<-|Hb]; [left; reflexivity | right; apply Hi, Hb].
  - apply andb_true_iff in H. destruct H as [Ha H].
    rewrite (existsb_eqb_incl a owned owned' Hi Ha). cbn. eapply IH; eauto.
  - eapply IH; eauto.
Qed.

(* staged evaluation: the second stage may write whatever the first one allocated *)
Lemma writes_fresh_app pre : forall tr1 tr2 owned,
  writes_fresh pre owned (tr1 ++ tr2) =
  writes_fresh pre owned tr1 && writes_fresh pre (allocs tr1 owned) tr2.
Proof.
  induction tr1 as [|e tr1 IH]; intros tr2 owned; [reflexivity|].
  destruct e as [a|a v|a]; cbn.
  - rewrite IH, andb_assoc. reflexivity.
  - rewrite IH, andb_assoc. reflexivity.
  - apply IH.
Qed.

Lemma allocs_incl : forall tr owned, incl owned (allocs tr owned).
Proof.
  induction tr as [|e tr IH]; intros owned; [apply incl_refl|].
  destruct e as [a|a v|a]; cbn; try apply IH.
  intros b Hb. apply IH. right. exact Hb.
Qed.

(* a history of executions, each of which only writes what it allocated itself *)
Lemma history_fresh pre : forall trs owned,
  Forall (fun tr => writes_fresh pre [] tr = true) trs ->
  writes_fresh pre owned (concat trs) = true.
Proof.
  induction trs as [|tr trs IH]; intros owned H; [reflexivity|].
  inversion H as [|? ? Htr Hrest]; subst. cbn [concat].
  rewrite writes_fresh_app. apply andb_true_iff. split.
  - apply (writes_fresh_mono pre tr [] owned); [intros b [] | exact Htr].
  - apply IH, Hrest.
Qed.

(* after ANY sequence of queries against one document, stopped at ANY point (inside the k-th
   query, between two queries, after an error), every input object has its initial content *)
Theorem history_preserves_input pre trs h :
  Forall (fun tr => writes_fresh pre [] tr = true) trs ->
  forall p q, concat trs = p ++ q ->
  forall x, pre x = true -> run_trace h p x = h x.
Proof.
  intros H p q E x Hx.
  apply (fresh_writes_preserve_input pre (concat trs) h) with (q := q); [|exact E|exact Hx].
  apply history_fresh, H.
Qed.

(* staged evaluation (common table expression, then the query that reads it; a subquery, then
   its parent): stage 2 may fill objects stage 1 allocated, the input is still untouched *)
Theorem staged_preserves_input pre tr1 tr2 h :
  writes_fresh pre [] tr1 = true ->
  writes_fresh pre (allocs tr1 []) tr2 = true ->
  forall p q, tr1 ++ tr2 = p ++ q ->
  forall x, pre x = true -> run_trace h p x = h x.
Proof.
  intros H1 H2 p q E x Hx.
  apply (fresh_writes_preserve_input pre (tr1 ++ tr2) h) with (q := q); [|exact E|exact Hx].
  rewrite writes_fresh_app, H1, H2. reflexivity.
Qed.

Lemma run_trace_app h p q : run_trace h (p ++ q) = run_trace (run_trace h p) q.
Proof. unfold run_trace. apply fold_left_app. Qed.

(* the converse: a write into an input object is observable at the crash point right after it,
   so "every write is fresh" cannot be relaxed to allow writes into the input *)
Theorem input_write_observable pre p a v :
  pre a = true ->
  exists h, run_trace h (p ++ [Write a v]) a <> h a.
Proof.
  intros _. exists (fun _ => S v).
  rewrite run_trace_app. cbn. rewrite Nat.eqb_refl. lia.
Qed.

(* ... and such a trace is rejected by the freshness check, wherever the write stands *)
Theorem input_write_not_fresh pre : forall p owned a v q,
  pre a = true -> (forall b, In b owned -> pre b = false) ->
  writes_fresh pre owned (p ++ Write a v :: q) = false.
Proof.
  induction p as [|e p IH]; intros owned a v q Ha Hown.
  - cbn. destruct (existsb (Nat.eqb a) owned) eqn:E; [|reflexivity].
    apply existsb_eqb_In in E. rewrite (Hown _ E) in Ha. discriminate.
  - destruct e as [b|b w|b]; cbn.
    + destruct (pre b) eqn:Eb; [reflexivity|]. cbn.
      apply IH; [exact Ha|]. intros c [<-|Hc]; [exact Eb | apply Hown, Hc].
    + rewrite IH by assumption. apply andb_false_r.
    + apply IH; assumption.
Qed.
