(* Proofs/C16Quote.v -- the quoted argument scans back to exactly the argument (C16_string_roundtrip) *)
From Coq Require Import Lia.
From GenqlV Require Import Base.Prelude Model.MySqlString Model.Sanitizer Proofs.C16Bytes.
Local Open Scope string_scope.
Local Open Scope bool_scope.

(* ---------- A. the quoted argument scans back to the argument ---------- *)

(* one-pass description of the two strings.ReplaceAll calls of QuoteString *)
Fixpoint esc (s : bytes) : bytes :=
  match s with
  | EmptyString => EmptyString
  | String c r =>
      if is c c_bsl then String c_bsl (String c_bsl (esc r))
      else if is c c_sq then String c_sq (String c_sq (esc r))
      else String c (esc r)
  end.

Lemma esc_two_pass s : replace_byte c_sq str_sq2 (replace_byte c_bsl str_bsl2 s) = esc s.
Proof.
  induction s as [|c r IH]; [reflexivity|].
  cbn [replace_byte esc].
  destruct (is c c_bsl) eqn:Hb.
  - apply is_true_iff in Hb; subst c. cbn. now rewrite IH.
  - cbn [replace_byte]. destruct (is c c_sq) eqn:Hq.
    + cbn. now rewrite IH.
    + now rewrite IH.
Qed.

Lemma quote_string_esc s : quote_string s = String c_sq (esc s ++ String c_sq EmptyString).
Proof. unfold quote_string. now rewrite esc_two_pass. Qed.

Lemma slow_roundtrip s rest :
  nxt_is rest c_sq = false ->
  scan_string_slow c_sq (esc s ++ String c_sq rest) = Some (s, rest).
Proof.
  intro Hr. induction s as [|c r IH].
  - cbn. destruct rest as [|c2 s2]; [reflexivity|].
    cbn in Hr. now rewrite Hr.
  - cbn [esc]. destruct (is c c_bsl) eqn:Hb.
    + apply is_true_iff in Hb; subst c. cbn. cbn in IH. now rewrite IH.
    + destruct (is c c_sq) eqn:Hq.
      * apply is_true_iff in Hq; subst c. cbn. cbn in IH. now rewrite IH.
      * cbn [append scan_string_slow]. rewrite Hb, Hq. now rewrite IH.
Qed.

Lemma fast_roundtrip s rest :
  nxt_is rest c_sq = false ->
  scan_string c_sq (esc s ++ String c_sq rest) = Some (s, rest).
Proof.
  intro Hr. induction s as [|c r IH].
  - cbn. now rewrite Hr.
  - pose proof (slow_roundtrip (String c r) rest Hr) as Hs.
    cbn [esc] in *. destruct (is c c_bsl) eqn:Hb.
    + apply is_true_iff in Hb; subst c. cbn [append scan_string] in *.
      change (is c_bsl c_sq) with false. cbn iota. rewrite is_refl. exact Hs.
    + destruct (is c c_sq) eqn:Hq.
      * apply is_true_iff in Hq; subst c. cbn [append scan_string] in *.
        rewrite is_refl. cbn [nxt_is]. rewrite is_refl. exact Hs.
      * cbn [append scan_string]. rewrite Hq, Hb, IH. reflexivity.
Qed.

Theorem string_roundtrip : forall (s rest : bytes),
  nxt_is rest c_sq = false ->
  mysql_scan_string (quote_string s ++ rest) = Some (s, rest).
Proof.
  intros s rest Hr. rewrite quote_string_esc. cbn [append mysql_scan_string].
  change (is c_sq c_sq || is c_sq c_dq) with true. cbn iota.
  rewrite app_assoc_s. cbn [append]. now apply fast_roundtrip.
Qed.

Theorem pinned_quote_refuted :
  exists s rest, nxt_is rest c_sq = false /\
    mysql_scan_string (pinned_quote_string s ++ rest) <> Some (s, rest).
Proof.
  exists "\' OR 1=1 -- ", " AND 1=1". split; [reflexivity|]. vm_compute. discriminate.
Qed.
