(* Proofs/C13Lemmas.v — the selector cache protocol (Model/ConcCache.v) under every schedule:
   functional invariant (every entry is the parse of its key; every finished call returns what it
   returns alone), lock invariant (the holder of mut is exactly the thread inside the critical
   section), hence no race on the map for the repaired program, no deadlock (the holder releases
   within 5 of its own steps on every path, any thread can still finish from any reachable state),
   and the refutation of the pinned program. *)
From GenqlV Require Import Base.Prelude Base.Value Model.ConcEvents Model.ConcCache Proofs.C13Lockset.
From GenqlV Require Import Model.SelToken Model.SelReader Proofs.C09Total.
Local Open Scope string_scope.

Section CacheProofs.
Context {P D V : Type}.
Variable parse : string -> res P.
Variable eval : P -> D -> res V.
Variable pzero : P.
Variable repaired : bool.
Variable calls : tid -> call (D := D).

Notation cstep := (cstep parse eval pzero repaired calls).
Notation crun := (crun parse eval pzero repaired calls).
Notation solo := (solo parse eval).
Notation sel i := (c_sel (calls i)).

(* ------------------------------------------------------------------------------------------ *)
(* 1. functional invariant (holds for the pinned and for the repaired program)                  *)
(* ------------------------------------------------------------------------------------------ *)

Definition pc_ok (s : cst) (i : tid) : Prop :=
  match pcs s i with
  | PStore p => parse (sel i) = Ok p
  | PFetch | PUnlockEarly | PFetchLate => exists v, cache s (sel i) = Some v
  | PUnlock x | PEval x => parse (sel i) = Ok x
  | PUnlockErr e | PDone e => e = solo (calls i)
  | _ => True
  end.

Record FInv (s : cst (P := P) (V := V)) : Prop := {
  F_cache : forall k v, cache s k = Some v -> parse k = Ok v;
  F_pc : forall i, pc_ok s i }.

Lemma FInv_init : FInv (cinit (P := P) (V := V)).
Proof. constructor; cbn; [discriminate|intros i; exact I]. Qed.

Lemma solo_ok i p : parse (sel i) = Ok p -> solo (calls i) = eval p (c_doc (calls i)).
Proof. unfold ConcCache.solo. intros ->. reflexivity. Qed.

(* a step of thread i that leaves the map alone: only i's obligation has to be re-established *)
Lemma FInv_set_pc s i p :
  FInv s ->
  (match p with
   | PStore v => parse (sel i) = Ok v
   | PFetch | PUnlockEarly | PFetchLate => exists v, cache s (sel i) = Some v
   | PUnlock x | PEval x => parse (sel i) = Ok x
   | PUnlockErr e | PDone e => e = solo (calls i)
   | _ => True
   end) ->
  forall l, FInv (mkCst l (cache s) (upd (pcs s) i p)).
Proof.
  intros [Hc Hp] Hi l. constructor; [exact Hc|].
  intros j. unfold pc_ok. cbn [pcs cache]. destruct (Nat.eq_dec j i) as [->|Hne].
  - rewrite upd_same. exact Hi.
  - rewrite upd_other by exact Hne. apply Hp.
Qed.

Lemma cupd_present (c : string -> option P) k v k' :
  (exists x, c k' = Some x) -> exists x, cupd c k v k' = Some x.
Proof. unfold cupd. intros H. destruct (String.eqb k' k); eauto. Qed.

Lemma FInv_step s i : FInv s -> FInv (cstep s i).
Proof.
  intros HI. assert (Hpi := F_pc s HI i). unfold pc_ok in Hpi.
  unfold ConcCache.cstep, set_pc, after_present.
  destruct (pcs s i) as [| | |p| |x|e|x|r| |] eqn:Epc.
  - (* Lock *) destruct (lock s); [exact HI|]. apply FInv_set_pc; [exact HI|exact I].
  - (* Check *)
    destruct (cache s (sel i)) as [v|] eqn:Ec.
    + apply FInv_set_pc; [exact HI|]. destruct repaired; eauto.
    + apply FInv_set_pc; [exact HI|exact I].
  - (* Parse *)
    destruct (parse (sel i)) as [p| | |] eqn:Ep; apply FInv_set_pc; try exact HI;
      try exact Ep; unfold ConcCache.solo; rewrite Ep; reflexivity.
  - (* Store *)
    destruct HI as [Hc Hp]. constructor; cbn [cache pcs].
    + intros k v. unfold cupd. destruct (String.eqb k (sel i)) eqn:E.
      * apply String.eqb_eq in E. subst k. intros [= <-]. exact Hpi.
      * apply Hc.
    + intros j. unfold pc_ok. cbn [pcs cache]. destruct (Nat.eq_dec j i) as [->|Hne].
      * rewrite upd_same. assert (Hx : exists x, cupd (cache s) (sel i) p (sel i) = Some x).
        { unfold cupd. rewrite String.eqb_refl. eauto. }
        destruct repaired; exact Hx.
      * rewrite upd_other by exact Hne. specialize (Hp j). unfold pc_ok in Hp.
        destruct (pcs s j); auto; apply cupd_present; exact Hp.
  - (* Fetch *)
    destruct Hpi as (v & Hv). apply FInv_set_pc; [exact HI|].
    unfold fetch. rewrite Hv. eapply F_cache; eauto.
  - (* Unlock *) destruct (lock s); [|exact HI]. apply FInv_set_pc; [exact HI|exact Hpi].
  - (* UnlockErr *) destruct (lock s); [|exact HI]. apply FInv_set_pc; [exact HI|exact Hpi].
  - (* Eval *) apply FInv_set_pc; [exact HI|]. symmetry. apply solo_ok. exact Hpi.
  - (* Done *) exact HI.
  - (* UnlockEarly *) destruct (lock s); [|exact HI]. apply FInv_set_pc; [exact HI|exact Hpi].
  - (* FetchLate *)
    destruct Hpi as (v & Hv). apply FInv_set_pc; [exact HI|].
    unfold fetch. rewrite Hv. eapply F_cache; eauto.
Qed.

Lemma FInv_run sched : FInv (crun sched).
Proof.
  unfold ConcCache.crun. assert (H := FInv_init). revert H. generalize (cinit (P := P) (V := V)).
  induction sched as [|i sched IH]; cbn; intros s H; [exact H|]. apply IH, FInv_step, H.
Qed.

Theorem cache_invariant sched k v : cache (crun sched) k = Some v -> parse k = Ok v.
Proof. apply (F_cache _ (FInv_run sched)). Qed.

Theorem no_crosstalk sched i r : pcs (crun sched) i = PDone r -> r = solo (calls i).
Proof. intros H. assert (Hp := F_pc _ (FInv_run sched) i). unfold pc_ok in Hp. rewrite H in Hp. exact Hp. Qed.

(* ------------------------------------------------------------------------------------------ *)
(* 2. lock invariant: needs that ParseSelector does not panic (it would leak the mutex)         *)
(* ------------------------------------------------------------------------------------------ *)

Hypothesis parse_nopanic : forall k, parse k <> Panic.

Record LInv (s : cst (P := P) (V := V)) : Prop := {
  L_lock : forall i, in_cs (pcs s i) = true <-> lock s = Some i;
  L_late : repaired = true -> forall i, pcs s i <> PFetchLate /\ pcs s i <> PUnlockEarly }.

Lemma LInv_init : LInv (cinit (P := P) (V := V)).
Proof. constructor; cbn; intros; split; discriminate. Qed.

(* thread i moves from one program point inside the critical section to another one *)
Lemma LInv_inside s i p :
  LInv s -> in_cs (pcs s i) = true -> in_cs p = true ->
  (repaired = true -> p <> PFetchLate /\ p <> PUnlockEarly) ->
  forall c, LInv (mkCst (lock s) c (upd (pcs s) i p)).
Proof.
  intros [Hl Hr] Hin Hp Hlate c. constructor; cbn [lock pcs].
  - intros j. destruct (Nat.eq_dec j i) as [->|Hne].
    + rewrite upd_same. rewrite <- Hl. split; auto.
    + rewrite upd_other by exact Hne. apply Hl.
  - intros E j. destruct (Nat.eq_dec j i) as [->|Hne].
    + rewrite upd_same. auto.
    + rewrite upd_other by exact Hne. auto.
Qed.

(* thread i moves between two program points outside the critical section *)
Lemma LInv_outside s i p :
  LInv s -> in_cs (pcs s i) = false -> in_cs p = false ->
  (repaired = true -> p <> PFetchLate /\ p <> PUnlockEarly) ->
  LInv (mkCst (lock s) (cache s) (upd (pcs s) i p)).
Proof.
  intros [Hl Hr] Hin Hp Hlate. constructor; cbn [lock pcs].
  - intros j. destruct (Nat.eq_dec j i) as [->|Hne].
    + rewrite upd_same. rewrite <- Hl. rewrite Hin, Hp. tauto.
    + rewrite upd_other by exact Hne. apply Hl.
  - intros E j. destruct (Nat.eq_dec j i) as [->|Hne].
    + rewrite upd_same. auto.
    + rewrite upd_other by exact Hne. auto.
Qed.

(* thread i releases the lock it holds *)
Lemma LInv_release s i p :
  LInv s -> lock s = Some i -> in_cs p = false ->
  (repaired = true -> p <> PFetchLate /\ p <> PUnlockEarly) ->
  LInv (mkCst None (cache s) (upd (pcs s) i p)).
Proof.
  intros [Hl Hr] Hlock Hp Hlate. constructor; cbn [lock pcs].
  - intros j. destruct (Nat.eq_dec j i) as [->|Hne].
    + rewrite upd_same, Hp. split; discriminate.
    + rewrite upd_other by exact Hne. rewrite Hl, Hlock. split; [congruence|discriminate].
  - intros E j. destruct (Nat.eq_dec j i) as [->|Hne].
    + rewrite upd_same. auto.
    + rewrite upd_other by exact Hne. auto.
Qed.

Ltac late := let E := fresh in intros E; try rewrite E; split; discriminate.

Lemma LInv_step s i : LInv s -> LInv (cstep s i).
Proof.
  intros HI. assert (Hli := L_lock s HI i). assert (Hlate := L_late s HI).
  unfold ConcCache.cstep, set_pc, after_present.
  destruct (pcs s i) as [| | |p| |x|e|x|r| |] eqn:Epc; cbn [in_cs] in Hli.
  - (* Lock *)
    destruct (lock s) as [h|] eqn:El; [exact HI|].
    destruct HI as [Hl Hr]. constructor; cbn [lock pcs].
    + intros j. destruct (Nat.eq_dec j i) as [->|Hne].
      * rewrite upd_same. cbn. tauto.
      * rewrite upd_other by exact Hne. rewrite Hl, El. split; [discriminate|congruence].
    + intros E j. destruct (Nat.eq_dec j i) as [->|Hne].
      * rewrite upd_same. split; discriminate.
      * rewrite upd_other by exact Hne. auto.
  - (* Check *)
    destruct (cache s (sel i)); apply LInv_inside; try exact HI; try (rewrite Epc; reflexivity);
      try reflexivity; try late; destruct repaired; try reflexivity; intros E; try discriminate E; split; discriminate.
  - (* Parse *)
    destruct (parse (sel i)) as [p| | |] eqn:Ep.
    + apply LInv_inside; try exact HI; try (rewrite Epc; reflexivity); try reflexivity; late.
    + apply LInv_inside; try exact HI; try (rewrite Epc; reflexivity); try reflexivity; late.
    + exfalso. eapply parse_nopanic; eauto.
    + apply LInv_inside; try exact HI; try (rewrite Epc; reflexivity); try reflexivity; late.
  - (* Store *)
    apply LInv_inside; try exact HI; try (rewrite Epc; reflexivity);
      destruct repaired; try reflexivity; intros E; try discriminate E; split; discriminate.
  - (* Fetch *)
    apply LInv_inside; try exact HI; try (rewrite Epc; reflexivity); try reflexivity; late.
  - (* Unlock *)
    assert (Hh : lock s = Some i) by (apply Hli; reflexivity). rewrite Hh.
    apply LInv_release; try exact HI; try exact Hh; try reflexivity; late.
  - (* UnlockErr *)
    assert (Hh : lock s = Some i) by (apply Hli; reflexivity). rewrite Hh.
    apply LInv_release; try exact HI; try exact Hh; try reflexivity; late.
  - (* Eval *)
    apply LInv_outside; try exact HI; try (rewrite Epc; reflexivity); try reflexivity; late.
  - exact HI.
  - (* UnlockEarly: unreachable when repaired *)
    assert (Hh : lock s = Some i) by (apply Hli; reflexivity). rewrite Hh.
    apply LInv_release; try exact HI; try exact Hh; try reflexivity.
    intros E. destruct (Hlate E i) as [_ Hx]. congruence.
  - (* FetchLate *)
    apply LInv_outside; try exact HI; try (rewrite Epc; reflexivity); try reflexivity; late.
Qed.

Lemma LInv_run sched : LInv (crun sched).
Proof.
  unfold ConcCache.crun. assert (H := LInv_init). revert H. generalize (cinit (P := P) (V := V)).
  induction sched as [|i sched IH]; cbn; intros s H; [exact H|]. apply IH, LInv_step, H.
Qed.

(* at most one thread is inside the critical section *)
Theorem cache_mutual_exclusion sched i j :
  in_cs (pcs (crun sched) i) = true -> in_cs (pcs (crun sched) j) = true -> i = j.
Proof.
  intros Hi Hj. assert (HI := LInv_run sched).
  apply (L_lock _ HI) in Hi. apply (L_lock _ HI) in Hj. congruence.
Qed.

(* every access to the map by the repaired program is made inside the critical section *)
Lemma access_in_cs s i a :
  LInv s -> repaired = true -> cache_access (pcs s i) = Some a -> in_cs (pcs s i) = true.
Proof.
  intros HI E Ha. destruct (L_late s HI E i) as [H1 _].
  destruct (pcs s i); try discriminate; try reflexivity. congruence.
Qed.

Theorem cache_race_free sched : repaired = true -> ~ cache_race (crun sched).
Proof.
  intros E (i & j & a & b & Hne & Hi & Hj & _). apply Hne.
  assert (HI := LInv_run sched).
  apply (cache_mutual_exclusion sched); eapply access_in_cs; eauto.
Qed.

(* ------------------------------------------------------------------------------------------ *)
(* 3. no deadlock                                                                              *)
(* ------------------------------------------------------------------------------------------ *)

Lemma crun_app sched sched' : crun (sched ++ sched') = fold_left cstep sched' (crun sched).
Proof. unfold ConcCache.crun. apply fold_left_app. Qed.

Lemma fold_repeat s i n : fold_left cstep (repeat i n) s = iter_step parse eval pzero repaired calls n s i.
Proof. revert s. induction n as [|n IH]; intros s; cbn; [reflexivity|apply IH]. Qed.

(* steps the holder still needs before the lock is free (upper bound) *)
Definition pot (p : pc (P := P) (V := V)) : nat :=
  match p with
  | PCheck => 5 | PParse => 4 | PStore _ => 3 | PFetch => 2
  | PUnlock _ | PUnlockErr _ | PUnlockEarly => 1
  | _ => 0
  end.

Lemma holder_progress s j :
  LInv s -> lock s = Some j ->
  lock (cstep s j) = None \/
  (lock (cstep s j) = Some j /\ pot (pcs (cstep s j) j) < pot (pcs s j)).
Proof.
  intros HI Hh. assert (Hin : in_cs (pcs s j) = true) by (apply (L_lock s HI); exact Hh).
  unfold ConcCache.cstep, set_pc, after_present.
  destruct (pcs s j) as [| | |p| |x|e|x|r| |] eqn:Epc; try discriminate Hin.
  - destruct (cache s (sel j)); right; cbn [lock pcs]; rewrite upd_same; (split; [exact Hh|]);
      destruct repaired; cbn; lia.
  - destruct (parse (sel j)) eqn:Ep; right; cbn [lock pcs]; rewrite upd_same; (split; [exact Hh|cbn; lia]).
  - right; cbn [lock pcs]; rewrite upd_same; split; [exact Hh|]. destruct repaired; cbn; lia.
  - right; cbn [lock pcs]; rewrite upd_same; split; [exact Hh|cbn; lia].
  - rewrite Hh. left. reflexivity.
  - rewrite Hh. left. reflexivity.
  - rewrite Hh. left. reflexivity.
Qed.

Lemma holder_releases_aux n : forall s j,
  LInv s -> lock s = Some j -> pot (pcs s j) <= n ->
  exists k, k <= n /\ lock (iter_step parse eval pzero repaired calls k s j) = None /\
            LInv (iter_step parse eval pzero repaired calls k s j) /\
            forall i, i <> j -> pcs (iter_step parse eval pzero repaired calls k s j) i = pcs s i.
Proof.
  induction n as [|n IH]; intros s j HI Hh Hpot.
  - exfalso. assert (Hin : in_cs (pcs s j) = true) by (apply (L_lock s HI); exact Hh).
    destruct (pcs s j); cbn in Hpot, Hin; try discriminate; lia.
  - assert (Hother : forall i, i <> j -> pcs (cstep s j) i = pcs s i).
    { intros i Hne. unfold ConcCache.cstep, set_pc.
      destruct (pcs s j); try destruct (lock s); try destruct (cache s (sel j)); try destruct (parse (sel j));
        cbn [pcs]; try rewrite upd_other by exact Hne; reflexivity. }
    destruct (holder_progress s j HI Hh) as [Hfree|[Hstill Hlt]].
    + exists 1. split; [lia|]. split; [exact Hfree|]. split; [apply LInv_step; exact HI|exact Hother].
    + destruct (IH (cstep s j) j) as (k & Hk & Hfree & HI' & Hoth); [apply LInv_step; exact HI|exact Hstill|lia|].
      exists (S k). split; [lia|]. split; [exact Hfree|]. split; [exact HI'|].
      intros i Hne. cbn [iter_step]. rewrite Hoth by exact Hne. apply Hother. exact Hne.
Qed.

(* every Lock is followed by an Unlock on every path: whoever holds mut frees it within 5 of its
   own steps, whatever the others do in between being irrelevant (they are blocked or elsewhere) *)
Theorem lock_released sched j :
  lock (crun sched) = Some j ->
  exists n, n <= 5 /\ lock (crun (sched ++ repeat j n)) = None.
Proof.
  intros Hh. assert (HI := LInv_run sched).
  assert (Hpot : pot (pcs (crun sched) j) <= 5) by (destruct (pcs (crun sched) j); cbn; lia).
  destruct (holder_releases_aux 5 _ j HI Hh Hpot) as (k & Hk & Hfree & _ & _).
  exists k. split; [exact Hk|]. rewrite crun_app, fold_repeat. exact Hfree.
Qed.

(* steps a thread needs to finish once the lock is free or its own *)
Definition todo (p : pc (P := P) (V := V)) : nat :=
  match p with
  | PLock => 7 | PCheck => 6 | PParse => 5 | PStore _ => 4 | PFetch => 3 | PUnlockEarly => 3
  | PUnlock _ => 2 | PFetchLate => 2 | PUnlockErr _ => 1 | PEval _ => 1 | PDone _ => 0
  end.

Lemma runner_progress s i :
  LInv s -> (lock s = None \/ lock s = Some i) -> is_done (pcs s i) = false ->
  (lock (cstep s i) = None \/ lock (cstep s i) = Some i) /\ todo (pcs (cstep s i) i) < todo (pcs s i).
Proof.
  intros HI Hfree Hnd. assert (Hli := L_lock s HI i).
  unfold ConcCache.cstep, set_pc, after_present.
  destruct (pcs s i) as [| | |p| |x|e|x|r| |] eqn:Epc; cbn [in_cs] in Hli; try discriminate Hnd.
  - (* Lock: the lock cannot be i's own *)
    destruct Hfree as [Hn|Hs]; [|apply Hli in Hs; discriminate].
    rewrite Hn. cbn [lock pcs]. rewrite upd_same. split; [now right|cbn; lia].
  - destruct (cache s (sel i)); cbn [lock pcs]; rewrite upd_same; (split; [exact Hfree|]);
      destruct repaired; cbn; lia.
  - destruct (parse (sel i)) eqn:Ep; cbn [lock pcs]; rewrite upd_same; (split; [exact Hfree|cbn; lia]).
  - cbn [lock pcs]; rewrite upd_same; split; [exact Hfree|]. destruct repaired; cbn; lia.
  - cbn [lock pcs]; rewrite upd_same; split; [exact Hfree|cbn; lia].
  - assert (Hh : lock s = Some i) by (apply Hli; reflexivity). rewrite Hh.
    cbn [lock pcs]; rewrite upd_same; split; [now left|cbn; lia].
  - assert (Hh : lock s = Some i) by (apply Hli; reflexivity). rewrite Hh.
    cbn [lock pcs]; rewrite upd_same; split; [now left|cbn; lia].
  - cbn [lock pcs]; rewrite upd_same; split; [exact Hfree|cbn; lia].
  - assert (Hh : lock s = Some i) by (apply Hli; reflexivity). rewrite Hh.
    cbn [lock pcs]; rewrite upd_same; split; [now left|cbn; lia].
  - cbn [lock pcs]; rewrite upd_same; split; [exact Hfree|cbn; lia].
Qed.

Lemma runner_finishes_aux n : forall s i,
  LInv s -> (lock s = None \/ lock s = Some i) -> todo (pcs s i) <= n ->
  exists k, k <= n /\ is_done (pcs (iter_step parse eval pzero repaired calls k s i) i) = true.
Proof.
  induction n as [|n IH]; intros s i HI Hfree Htodo.
  - exists 0. split; [lia|]. cbn. destruct (pcs s i); cbn in Htodo; try lia. reflexivity.
  - destruct (is_done (pcs s i)) eqn:Hd; [exists 0; split; [lia|exact Hd]|].
    destruct (runner_progress s i HI Hfree Hd) as [Hfree' Hlt].
    destruct (IH (cstep s i) i) as (k & Hk & Hdone); [apply LInv_step; exact HI|exact Hfree'|lia|].
    exists (S k). split; [lia|exact Hdone].
Qed.

(* from every reachable state every thread can still finish: first the holder (if it is somebody
   else) runs to its Unlock, then the thread runs alone *)
Theorem no_deadlock sched i :
  exists sched', List.length sched' <= 12 /\ is_done (pcs (crun (sched ++ sched')) i) = true.
Proof.
  assert (HI := LInv_run sched).
  destruct (lock (crun sched)) as [j|] eqn:Hl.
  - destruct (Nat.eq_dec j i) as [->|Hne].
    + destruct (runner_finishes_aux 7 (crun sched) i HI (or_intror Hl)) as (k & Hk & Hd).
      { destruct (pcs (crun sched) i); cbn; lia. }
      exists (repeat i k). rewrite repeat_length, crun_app, fold_repeat. split; [lia|exact Hd].
    + assert (Hpot : pot (pcs (crun sched) j) <= 5) by (destruct (pcs (crun sched) j); cbn; lia).
      destruct (holder_releases_aux 5 _ j HI Hl Hpot) as (k & Hk & Hfree & HI' & _).
      destruct (runner_finishes_aux 7 _ i HI' (or_introl Hfree)) as (k' & Hk' & Hd).
      { destruct (pcs _ i); cbn; lia. }
      exists (repeat j k ++ repeat i k')%list.
      rewrite app_length, !repeat_length, crun_app, fold_left_app, !fold_repeat. split; [lia|exact Hd].
  - destruct (runner_finishes_aux 7 (crun sched) i HI (or_introl Hl)) as (k & Hk & Hd).
    { destruct (pcs (crun sched) i); cbn; lia. }
    exists (repeat i k). rewrite repeat_length, crun_app, fold_repeat. split; [lia|exact Hd].
Qed.

(* in particular no reachable state is stuck: an unfinished thread can move, or the holder can *)
Theorem never_stuck sched i :
  is_done (pcs (crun sched) i) = false ->
  exists j, cstep (crun sched) j <> crun sched /\ (j = i \/ lock (crun sched) = Some j).
Proof.
  intros Hnd. assert (HI := LInv_run sched). set (s := crun sched) in *.
  destruct (lock s) as [j|] eqn:Hl.
  - exists j. split; [|now right].
    destruct (holder_progress s j HI Hl) as [Hf|[_ Hlt]]; intros E; rewrite E in *; [congruence|lia].
  - exists i. split; [|now left].
    destruct (runner_progress s i HI (or_introl Hl) Hnd) as [_ Hlt]. intros E. rewrite E in Hlt. lia.
Qed.

End CacheProofs.

(* ------------------------------------------------------------------------------------------ *)
(* 4. the protocol's event paths are what the generic lockset criterion accepts / rejects       *)
(* ------------------------------------------------------------------------------------------ *)

Lemma exec_reader_paths_disciplined :
  forallb (disciplined "cache" "mut") exec_reader_paths = true.
Proof. reflexivity. Qed.

Lemma pinned_paths_undisciplined :
  disciplined "cache" "mut" er_pinned_hit = false /\ disciplined "cache" "mut" er_pinned_miss = false.
Proof. split; reflexivity. Qed.

(* every step of the model performs the event the path lists say (the tie between the state
   machine and the event layer): running one thread alone from PLock emits one of the three paths *)
Section Solo.
Context {P D V : Type}.
Variable parse : string -> res P.
Variable eval : P -> D -> res V.
Variable pzero : P.
Variable c : call (D := D).

Fixpoint emitted (repaired : bool) (n : nat) (s : cst (P := P) (V := V)) : list ev :=
  match n with
  | O => []
  | S k => let s' := cstep parse eval pzero repaired (fun _ => c) s 0 in
           match ev_of_pc (pcs s 0) with
           | Some e => e :: (if is_done (pcs s 0) then [] else emitted repaired k s')
           | None => emitted repaired k s'
           end
  end.

Lemma solo_emits_model_path (c0 : string -> option P) :
  parse (c_sel c) <> Panic ->
  path_in (emitted true 9 (mkCst None c0 (fun _ => PLock))) exec_reader_paths = true.
Proof.
  intros Hnp. cbn. destruct (c0 (c_sel c)) as [v|]; cbn; [reflexivity|].
  destruct (parse (c_sel c)) as [p| | |]; cbn; try reflexivity. congruence.
Qed.

Lemma solo_emits_pinned_path (c0 : string -> option P) :
  parse (c_sel c) <> Panic ->
  path_in (emitted false 9 (mkCst None c0 (fun _ => PLock))) pinned_exec_reader_paths = true.
Proof.
  intros Hnp. cbn. destruct (c0 (c_sel c)) as [v|]; cbn; [reflexivity|].
  destruct (parse (c_sel c)) as [p| | |]; cbn; try reflexivity. congruence.
Qed.
End Solo.

(* ------------------------------------------------------------------------------------------ *)
(* 5. the instance: ExecReader of the C09 model                                                 *)
(* ------------------------------------------------------------------------------------------ *)

Definition sel_parse : string -> res (list (list token)) := parse_all.
Definition sel_eval (all : list (list token)) (d : value) : res value := exec_all all d.

Lemma sel_parse_nopanic k : sel_parse k <> Panic.
Proof.
  unfold sel_parse. assert (H := parse_all_nopanic k). unfold nopanic in H.
  intros E. rewrite E in H. exact (H eq_refl).
Qed.

Lemma sel_solo_is_exec_reader (c : call (D := value)) :
  solo sel_parse sel_eval c = exec_reader (c_doc c) (c_sel c).
Proof. reflexivity. Qed.

(* pinned program, two threads with fresh selector texts "users" and "orders": thread 1 runs up to
   its late read, thread 0 up to its store: a read of the map concurrent with a write — D32 *)
Definition refute_calls (i : tid) : call (D := value) :=
  match i with O => mkCall "users" VNull | _ => mkCall "orders" VNull end.
Definition refute_sched : list tid := [1; 1; 1; 1; 1; 0; 0; 0].

Lemma pinned_refuted :
  let s := crun sel_parse sel_eval [] false refute_calls refute_sched in
  cache_access (pcs s 1) = Some Rd /\ cache_access (pcs s 0) = Some Wr /\ in_cs (pcs s 1) = false.
Proof. vm_compute. repeat split. Qed.

Lemma pinned_race :
  cache_race (crun sel_parse sel_eval [] false refute_calls refute_sched).
Proof.
  destruct pinned_refuted as (H1 & H0 & _).
  exists 1, 0, Rd, Wr. split; [discriminate|]. split; [exact H1|]. split; [exact H0|reflexivity].
Qed.

(* the same schedule on the event layer: the pinned paths race on "cache" *)
Definition refute_progs (i : tid) : list ev := match i with O => er_pinned_miss | _ => er_pinned_miss end.
Lemma pinned_event_race : race "cache" (run refute_progs [1; 1; 1; 1; 0; 0]).
Proof. exists 1, 0, Rd, Wr. split; [discriminate|]. repeat split. Qed.

(* ------------------------------------------------------------------------------------------ *)
(* 6. what the regenerated table's criterion gives                                              *)
(* ------------------------------------------------------------------------------------------ *)

Lemma read_only_app g p q : read_only g p = true -> read_only g q = true -> read_only g (p ++ q)%list = true.
Proof.
  unfold read_only. intros Hp Hq. apply negb_true_iff in Hp, Hq. apply negb_true_iff.
  rewrite existsb_app, Hp, Hq. reflexivity.
Qed.

Lemma read_only_concat g ps :
  Forall (fun p => read_only g p = true) ps -> read_only g (List.concat ps) = true.
Proof. induction 1 as [|p ps Hp _ IH]; [reflexivity|]. cbn [List.concat]. now apply read_only_app. Qed.

(* a path of the table that belongs to a function running while queries run *)
Definition runtime_path (t : site_table) (p : list ev) : Prop :=
  exists f ps, In (f, ps) t /\ init_phase f = false /\ ctor_phase f = false /\ In p ps.

Lemma runtime_path_ok t p :
  table_ok t = true -> runtime_path t p ->
  disciplined "cache" "mut" p = true /\ disciplined "vars" "varsMut" p = true /\
  read_only "functions" p = true /\ read_only "immediateFunctions" p = true /\
  read_only "topLevelFunctions" p = true.
Proof.
  intros Ht (f & ps & Hin & Hi & Hc & Hp).
  unfold table_ok in Ht. rewrite forallb_forall in Ht. specialize (Ht _ Hin).
  unfold row_ok in Ht. cbn [fst snd] in Ht. rewrite forallb_forall in Ht. specialize (Ht _ Hp).
  unfold path_ok in Ht. rewrite Hi, Hc in Ht. cbn [orb guarded_pairs registries forallb fst snd] in Ht.
  repeat match goal with H : _ && _ = true |- _ => apply andb_prop in H as [? ?] end.
  repeat split; assumption.
Qed.

Theorem sites_sound (t : site_table) :
  table_ok t = true ->
  forall calls : tid -> list (list ev),
    (forall i, Forall (runtime_path t) (calls i)) ->
    forall sched, let s := run (fun i => List.concat (calls i)) sched in
      ~ race "cache" s /\ ~ race "vars" s /\
      ~ race "functions" s /\ ~ race "immediateFunctions" s /\ ~ race "topLevelFunctions" s.
Proof.
  intros Ht calls Hc sched s.
  assert (Hall : forall i, Forall (fun p =>
            disciplined "cache" "mut" p = true /\ disciplined "vars" "varsMut" p = true /\
            read_only "functions" p = true /\ read_only "immediateFunctions" p = true /\
            read_only "topLevelFunctions" p = true) (calls i)).
  { intros i. eapply Forall_impl; [|apply Hc]. intros p. apply runtime_path_ok. exact Ht. }
  repeat split.
  - apply (lockset_calls_race_free "cache" "mut"). intros i. eapply Forall_impl; [|apply Hall]. cbn. tauto.
  - apply (lockset_calls_race_free "vars" "varsMut"). intros i. eapply Forall_impl; [|apply Hall]. cbn. tauto.
  - apply read_only_race_free. intros i. apply read_only_concat. eapply Forall_impl; [|apply Hall]. cbn. tauto.
  - apply read_only_race_free. intros i. apply read_only_concat. eapply Forall_impl; [|apply Hall]. cbn. tauto.
  - apply read_only_race_free. intros i. apply read_only_concat. eapply Forall_impl; [|apply Hall]. cbn. tauto.
Qed.
