(* Proofs/C08Sel.v — C08 for a FROM whose table name is a SELECTOR ([FSel]: brackets, keep=>, each, ranges,
   pipes, `::`, fn=>).  BuildFromAliasedTable resolves the text with ExecReader; the engine model resolves it
   with the C09 reader model (Model/SelReader.v), so the C09 theorems (parser inverts printer, the text
   evaluates to the README denotation, a::b composes) carry the C08 statements over to such sources:

     FROM `sel`          returns the nested result over the array of arrays the selector DENOTES, and
     FROM `sel::mix=>`   returns its leaves, the inner results concatenated;
     FROM `mix=>path…`   (the function on a single selector) likewise.

   The C09 modules are required, not imported: their names (reader, mix_array, is_arr, join, Key, …) stay
   qualified next to the engine model's. *)
From Coq Require Import Floats Lia.
From GenqlV Require Import Base.Prelude Base.Fmt Base.Value Model.Ast Model.Like Model.Num Model.Eval Model.Exec.
From GenqlV Require Import Spec.NestedSpec Proofs.C08Lemmas.
From GenqlV Require Model.SelToken Model.SelFmt Model.SelReader Spec.SelectorSpec.
From GenqlV Require Proofs.C09Parse Proofs.C09Denote Proofs.C09Lemmas.
Local Open Scope string_scope.
Local Open Scope list_scope.

(* ================================================================== *)
(* 1. which selectors never meet a CTE thunk                           *)
(* ================================================================== *)

(* a key of query.data that holds document data: not the back reference, not a registered CTE *)
Definition name_visible (ctes : list (string * stmt)) (k : string) : bool :=
  negb (String.eqb k "<-") && match cte_lookup k ctes with None => true | Some _ => false end.

(* on the syntax tree: the first step of the first selector is a key or a pipe over such keys *)
Definition sel_src_ok (ctes : list (string * stmt)) (a : SelectorSpec.sel) : bool :=
  match a with
  | [] => false
  | g :: _ =>
      match SelectorSpec.seg_steps g with
      | SelectorSpec.Key k :: _ => name_visible ctes k
      | SelectorSpec.Pipe ps :: _ => forallb (name_visible ctes) (map fst ps)
      | _ => false
      end
  end.

Lemma sel_head_tokens a :
  sel_head (C09Parse.tokens_of a) =
  match a with
  | [] => None
  | g :: _ =>
      match SelectorSpec.seg_steps g with
      | SelectorSpec.Key k :: _ => Some [k]
      | SelectorSpec.Pipe ps :: _ => Some (map fst ps)
      | _ => None
      end
  end.
Proof.
  destruct a as [|g a]; [reflexivity|].
  unfold C09Parse.tokens_of. cbn [map sel_head]. unfold C09Parse.seg_toks.
  assert (Hp : forall ps, map SelToken.pkey (map C09Parse.pipe_tok ps) = map fst ps).
  { intros ps. rewrite map_map. apply map_ext. intros p. reflexivity. }
  destruct (SelectorSpec.seg_fn g) as [f|]; cbn [app];
    destruct (SelectorSpec.seg_steps g) as [|st r]; cbn [map]; try reflexivity;
    destruct st; cbn [C09Parse.step_tok]; try reflexivity; rewrite Hp; reflexivity.
Qed.

(* the model's guard holds for a well-formed selector that starts at document data *)
Lemma sel_visible_print ctes a :
  SelectorSpec.wf_sel a = true -> SelectorSpec.print_sel a <> "dual" -> sel_src_ok ctes a = true ->
  sel_visible ctes (SelectorSpec.print_sel a) = true.
Proof.
  intros Hwf Hd Hok. unfold sel_visible.
  apply String.eqb_neq in Hd. rewrite Hd. cbn [negb andb].
  rewrite (C09Parse.parse_print a Hwf), sel_head_tokens.
  unfold sel_src_ok in Hok. destruct a as [|g a]; [discriminate|].
  destruct (SelectorSpec.seg_steps g) as [|st r]; [discriminate|].
  destruct st; try discriminate.
  - cbn [forallb]. unfold name_visible in Hok. rewrite Hok. reflexivity.
  - exact Hok.
Qed.

(* ================================================================== *)
(* 2. from the FROM clause to the rows                                  *)
(* ================================================================== *)

Section From.
  Variable rec : qctx -> job -> res value.
  Variable call : string -> string -> list value -> row -> res raw.
  Variable join : jointype -> jstrategy -> list value -> list value -> string -> string ->
                  expr stmt -> row -> res (list value).

  (* FROM `sel` : the array ExecReader resolves the text to *)
  Lemma build_from_sel ctx a src :
    sel_visible (c_ctes ctx) (SelectorSpec.print_sel a) = true ->
    SelReader.exec_reader (VObj (c_data ctx)) (SelectorSpec.print_sel a) = Ok (VArr src) ->
    build_from rec join ctx (FSel a "") = Ok (Some src).
  Proof. intros Hv Hr. cbn [build_from]. rewrite Hv, Hr. reflexivity. Qed.

  Theorem select_from_sel ctx s a src :
    s_with s = [] -> s_from s = FSel a "" ->
    sel_visible (c_ctes ctx) (SelectorSpec.print_sel a) = true ->
    SelReader.exec_reader (VObj (c_data ctx)) (SelectorSpec.print_sel a) = Ok (VArr src) ->
    exec_step rec call join ctx (JStmt (SSelect s)) = exec_step rec call join ctx (JRows s src).
  Proof.
    intros Hw Hf Hv Hr. cbn [exec_step]. rewrite Hw, register_no_ctes, Hf.
    rewrite (build_from_sel _ _ _ Hv Hr). reflexivity.
  Qed.
End From.

(* ================================================================== *)
(* 3. flattening a selector source with the top-level function          *)
(* ================================================================== *)

(* the two MixArray models (engine model, C09 model) are the same function: the leaves *)
Lemma sel_mix_item_leaves v : SelReader.mix_array_item v = leaves v.
Proof.
  (* the two fixpoints have the same body *)
  destruct v; reflexivity.
Qed.

Lemma sel_mix_array l : SelReader.mix_array l = mix_array (VArr l).
Proof.
  rewrite mix_array_leaves. unfold SelReader.mix_array. cbn [leaves].
  induction l as [|x l IH]; [reflexivity|]. cbn [flat_map]. rewrite IH, sel_mix_item_leaves. reflexivity.
Qed.

(* the selector `mix=>` on its own: the registered function applied to what it is given *)
Definition mix_seg : SelectorSpec.seg := SelectorSpec.Fn (Some "mix") [].

(* sel::mix=> *)
Definition mixed (a : SelectorSpec.sel) : SelectorSpec.sel := SelectorSpec.Then a [mix_seg].

Lemma mix_seg_wf : SelectorSpec.wf_sel [mix_seg] = true.
Proof. reflexivity. Qed.

Lemma mix_seg_text : SelectorSpec.print_sel [mix_seg] = "mix=>".
Proof. reflexivity. Qed.

Lemma exec_reader_mix_seg l :
  SelReader.exec_reader (VArr l) "mix=>" = Ok (VArr (mix_array (VArr l))).
Proof.
  assert (Hp : SelToken.parse_all "mix=>" = Ok [[SelToken.TFn "mix"]]) by (vm_compute; reflexivity).
  unfold SelReader.exec_reader. rewrite Hp. cbn [bind].
  unfold SelReader.exec_all.
  cbn [SelReader.exec_all_with SelReader.reader_executor_with SelReader.reader_with bind].
  change (SelReader.top_level "mix") with (Some SelReader.mix).
  change (SelReader.reader [] (VArr l)) with (Ok (VArr l)).
  cbn [SelReader.mix bind]. rewrite sel_mix_array. reflexivity.
Qed.

Lemma mixed_wf a : SelectorSpec.wf_sel a = true -> SelectorSpec.wf_sel (mixed a) = true.
Proof. intros H. apply C09Lemmas.wf_sel_app; [exact H|exact mix_seg_wf]. Qed.

Lemma mixed_src_ok ctes a : sel_src_ok ctes (mixed a) = sel_src_ok ctes a \/ a = [].
Proof. destruct a as [|g a]; [right; reflexivity|left; reflexivity]. Qed.

Lemma str_length_app (x y : string) : String.length (x ++ y) = (String.length x + String.length y)%nat.
Proof. induction x as [|c x IH]; [reflexivity|]. cbn [String.append String.length]. rewrite IH. reflexivity. Qed.

(* its text is longer than the name of the pseudo table *)
Lemma mixed_not_dual a : a <> [] -> SelectorSpec.print_sel (mixed a) <> "dual".
Proof.
  intros Ha H. unfold mixed in H.
  rewrite C09Lemmas.print_then in H by (auto; discriminate).
  apply (f_equal String.length) in H. rewrite !str_length_app in H. cbn [String.length] in H.
  rewrite mix_seg_text in H. cbn [String.length] in H. lia.
Qed.

(* what sel::mix=> resolves to *)
Lemma exec_reader_mixed a doc src :
  SelectorSpec.wf_sel a = true ->
  SelReader.exec_reader doc (SelectorSpec.print_sel a) = Ok (VArr src) ->
  SelReader.exec_reader doc (SelectorSpec.print_sel (mixed a)) = Ok (VArr (mix_array (VArr src))).
Proof.
  intros Hwf Hr. unfold mixed. rewrite (C09Lemmas.compose a [mix_seg] doc Hwf mix_seg_wf), Hr.
  cbn [bind]. rewrite mix_seg_text. apply exec_reader_mix_seg.
Qed.

(* fn=> on a single selector: `mix=>steps` for the selector `steps` *)
Definition mix_first (steps : list SelectorSpec.step) : SelectorSpec.sel := [SelectorSpec.Fn (Some "mix") steps].

Lemma mix_first_wf steps :
  SelectorSpec.wf_sel (SelectorSpec.Path steps) = true -> SelectorSpec.wf_sel (mix_first steps) = true.
Proof.
  unfold SelectorSpec.wf_sel, SelectorSpec.Path, mix_first. cbn [forallb]. unfold SelectorSpec.wf_seg.
  cbn [SelectorSpec.seg_fn SelectorSpec.seg_steps]. intros H. rewrite Bool.andb_true_r in *.
  cbn [andb] in H. rewrite H. reflexivity.
Qed.

Lemma mix_first_not_dual steps : SelectorSpec.print_sel (mix_first steps) <> "dual".
Proof.
  unfold mix_first, SelectorSpec.print_sel. cbn [map SelectorSpec.join].
  unfold SelectorSpec.print_seg. cbn [SelectorSpec.seg_fn SelectorSpec.seg_steps String.append].
  discriminate.
Qed.

Lemma mix_first_src_ok ctes steps : sel_src_ok ctes (mix_first steps) = sel_src_ok ctes (SelectorSpec.Path steps).
Proof. reflexivity. Qed.

Lemma exec_reader_mix_first steps doc src :
  SelectorSpec.wf_sel (SelectorSpec.Path steps) = true ->
  SelReader.exec_reader doc (SelectorSpec.print_sel (SelectorSpec.Path steps)) = Ok (VArr src) ->
  SelReader.exec_reader doc (SelectorSpec.print_sel (mix_first steps)) = Ok (VArr (mix_array (VArr src))).
Proof.
  intros Hwf Hr. rewrite (C09Denote.denotation _ doc Hwf) in Hr.
  rewrite (C09Denote.denotation _ doc (mix_first_wf steps Hwf)).
  unfold mix_first, SelectorSpec.Path in *. cbn [SelectorSpec.sel_sem] in *.
  unfold SelectorSpec.seg_sem in *. cbn [SelectorSpec.seg_fn SelectorSpec.seg_steps] in *.
  destruct (SelectorSpec.steps_sem steps doc) as [r| | |]; cbn [bind] in *; try discriminate.
  inversion Hr; subst r.
  change (SelReader.top_level "mix") with (Some SelReader.mix).
  cbn [SelReader.mix bind]. rewrite sel_mix_array. reflexivity.
Qed.

(* ================================================================== *)
(* 4. the statements, end to end                                        *)
(* ================================================================== *)

Section EndToEnd.
  Variable call : string -> string -> list value -> row -> res raw.
  Variable join : jointype -> jstrategy -> list value -> list value -> string -> string ->
                  expr stmt -> row -> res (list value).

  (* a statement whose FROM is a selector, given what ExecReader resolves the text to *)
  Lemma nested_statement_text ctx s a src out :
    simple s = true ->
    s_with s = [] -> s_from s = FSel a "" ->
    sel_visible (c_ctes ctx) (SelectorSpec.print_sel a) = true ->
    SelReader.exec_reader (VObj (c_data ctx)) (SelectorSpec.print_sel a) = Ok (VArr src) ->
    nested_result (converges call join ctx s) src out ->
    stmt_converges call join ctx (SSelect s) out.
  Proof.
    intros Hs Hw Hf Hv Hr Hn.
    destruct (nested_any_depth call join ctx s Hs src out Hn) as (m1 & H1).
    exists (S m1). intros m Hm. destruct m as [|m]; [lia|]. cbn [exec].
    rewrite (select_from_sel _ _ _ ctx s a src Hw Hf Hv Hr).
    change (exec call join (S m) ctx (JRows s src) = Ok out). apply H1. lia.
  Qed.

  (* the same query over a selector [b] that resolves to the flattened array *)
  Lemma mix_statement_text ctx s b src out :
    simple s = true -> plain_query s = true ->
    s_with s = [] ->
    sel_visible (c_ctes ctx) (SelectorSpec.print_sel b) = true ->
    SelReader.exec_reader (VObj (c_data ctx)) (SelectorSpec.print_sel b) = Ok (VArr (mix_array (VArr src))) ->
    nested_result (converges call join ctx s) src out ->
    stmt_converges call join ctx (SSelect (with_from (FSel b "") s)) (VArr (leaves out)).
  Proof.
    intros Hs Hp Hw Hv Hr Hn.
    set (s' := with_from (FSel b "") s).
    assert (Hc' : concat_result (converges call join ctx s') src (leaves out)).
    { eapply concat_result_impl.
      - intros rows o Hfl Hcv. apply converges_with_from; [exact Hfl | exact Hcv].
      - apply nested_then_leaves; auto.
        intros rows o Hfl Hcv. eapply converges_flat_out; eauto. }
    destruct (mix_concat call join ctx s' Hs Hp src (leaves out) Hc') as (m2 & H2).
    exists (S m2). intros m Hm. destruct m as [|m]; [lia|]. cbn [exec].
    rewrite (select_from_sel _ _ _ ctx s' b (mix_array (VArr src)) Hw eq_refl Hv Hr).
    change (exec call join (S m) ctx (JRows s' (mix_array (VArr src))) = Ok (VArr (leaves out))).
    apply H2. lia.
  Qed.

  (*   SELECT items FROM `sel` WHERE w          returns [out], the nested result over the array of arrays
                                                the selector DENOTES (README semantics, Spec/SelectorSpec.v), and
       SELECT items FROM `sel::mix=>` WHERE w   returns the leaves of [out]: the inner results concatenated *)
  Theorem selector_source_statements ctx s a src out :
    simple s = true -> plain_query s = true ->
    s_with s = [] -> s_from s = FSel a "" ->
    SelectorSpec.wf_sel a = true -> SelectorSpec.print_sel a <> "dual" ->
    sel_src_ok (c_ctes ctx) a = true ->
    SelectorSpec.sel_sem SelReader.top_level a (VObj (c_data ctx)) = Ok (VArr src) ->
    nested_result (converges call join ctx s) src out ->
    stmt_converges call join ctx (SSelect s) out /\
    stmt_converges call join ctx (SSelect (with_from (FSel (mixed a) "") s)) (VArr (leaves out)).
  Proof.
    intros Hs Hp Hw Hf Hwf Hd Hok Hsem Hn.
    rewrite <- (C09Denote.denotation a _ Hwf) in Hsem.
    assert (Hne : a <> []) by (intros ->; discriminate Hwf).
    split.
    - apply (nested_statement_text ctx s a src out Hs Hw Hf); auto.
      apply sel_visible_print; auto.
    - apply (mix_statement_text ctx s (mixed a) src out Hs Hp Hw); auto.
      + apply sel_visible_print; [apply mixed_wf; exact Hwf|apply mixed_not_dual; exact Hne|].
        destruct (mixed_src_ok (c_ctes ctx) a) as [->| ->]; [exact Hok|contradiction Hne; reflexivity].
      + apply exec_reader_mixed; assumption.
  Qed.

  (* the function written on the selector itself:  FROM `mix=>steps`  for the source  FROM `steps` *)
  Theorem selector_mix_first_statement ctx s steps src out :
    simple s = true -> plain_query s = true ->
    s_with s = [] ->
    SelectorSpec.wf_sel (SelectorSpec.Path steps) = true ->
    sel_src_ok (c_ctes ctx) (SelectorSpec.Path steps) = true ->
    SelectorSpec.sel_sem SelReader.top_level (SelectorSpec.Path steps) (VObj (c_data ctx)) = Ok (VArr src) ->
    nested_result (converges call join ctx s) src out ->
    stmt_converges call join ctx (SSelect (with_from (FSel (mix_first steps) "") s)) (VArr (leaves out)).
  Proof.
    intros Hs Hp Hw Hwf Hok Hsem Hn.
    rewrite <- (C09Denote.denotation _ _ Hwf) in Hsem.
    apply (mix_statement_text ctx s (mix_first steps) src out Hs Hp Hw); auto.
    - apply sel_visible_print; [apply mix_first_wf; exact Hwf|apply mix_first_not_dual|].
      rewrite mix_first_src_ok. exact Hok.
    - apply exec_reader_mix_first; assumption.
  Qed.
End EndToEnd.

(* ================================================================== *)
(* 5. non-vacuity: the example document of C08Examples through selectors *)
(* ================================================================== *)
From GenqlV Require Import Proofs.C08Examples Run.EngineRun.

(* the document of C08Examples: g = [ [ t1, t2 ], [ t3 ], [], t4 ];  the source  g[keep=>(0:2)]  keeps the first
   two elements of the first dimension, with their nesting:  [ [ t1, t2 ], [ t3 ] ] *)
Definition ex_sel : SelectorSpec.sel :=
  SelectorSpec.Path [SelectorSpec.Key "g"; SelectorSpec.Keep [SelectorSpec.DRange (Some 0%N) (Some 2%N)]].
Definition sel_src : list value := [VArr [VArr t1; VArr t2]; VArr [VArr t3]].
Definition sel_out : list value := [VArr [out1; out2]; VArr [out3]].

(* SELECT a, b + 1 AS c FROM `g[keep=>(0:2)]` WHERE a > 1,  FROM `g[keep=>(0:2)]::mix=>`,  FROM `mix=>g[keep=>(0:2)]` *)
Definition ex_q_sel : select stmt := with_from (FSel ex_sel "") ex_q.
Definition ex_q_sel_mixed : select stmt := with_from (FSel (mixed ex_sel) "") ex_q_sel.
Definition ex_q_sel_mix_first : select stmt :=
  with_from (FSel (mix_first [SelectorSpec.Key "g"; SelectorSpec.Keep [SelectorSpec.DRange (Some 0%N) (Some 2%N)]]) "") ex_q_sel.

Example sel_texts :
  SelectorSpec.print_sel ex_sel = "g[keep=>(0:2)]" /\
  SelectorSpec.print_sel (mixed ex_sel) = "g[keep=>(0:2)]::mix=>" /\
  from_ident (s_from ex_q_sel_mix_first) = "mix=>g[keep=>(0:2)]".
Proof. vm_compute. repeat split; reflexivity. Qed.

Example sel_in_scope :
  simple ex_q_sel = true /\ plain_query ex_q_sel = true /\ SelectorSpec.wf_sel ex_sel = true /\
  sel_src_ok (c_ctes ex_ctx) ex_sel = true /\
  SelectorSpec.sel_sem SelReader.top_level ex_sel (VObj (c_data ex_ctx)) = Ok (VArr sel_src).
Proof. vm_compute. repeat split; reflexivity. Qed.

(* observed on the executable model *)
Example sel_nested_runs : run_model (false, ex_doc, SSelect ex_q_sel) = Ok sel_out.
Proof. vm_compute. reflexivity. Qed.

Example sel_mix_runs :
  run_model (false, ex_doc, SSelect ex_q_sel_mixed) = Ok (leaves (VArr sel_out)) /\
  run_model (false, ex_doc, SSelect ex_q_sel_mix_first) = Ok (leaves (VArr sel_out)) /\
  leaves (VArr sel_out) = [p 2 21; p 3 31; p 4 41].
Proof. vm_compute. repeat split; reflexivity. Qed.

(* a registered CTE of the name the selector starts with, or a selector that starts behind `<-`, is outside
   the model (the reader would meet a thunk), not silently read from the document *)
Example sel_thunk_out_of_model :
  build_from (fun _ _ => OutOfModel) no_join
             {| c_data := c_data ex_ctx; c_ctes := [("g", SSelect ex_q)]; c_busy := []; c_up := [] |}
             (FSel ex_sel "") = OutOfModel /\
  build_from (fun _ _ => OutOfModel) no_join ex_ctx
             (FSel (SelectorSpec.Path [SelectorSpec.Key "<-"; SelectorSpec.Key "g"]) "") = OutOfModel.
Proof. vm_compute. split; reflexivity. Qed.

(* the hypothesis [nested_result] of the theorems is met *)
Example sel_nested_hypothesis_met :
  nested_result (converges no_call no_join ex_ctx ex_q_sel) sel_src (VArr sel_out).
Proof.
  assert (L : forall rows out,
             (rows = t1 /\ out = out1) \/ (rows = t2 /\ out = out2) \/ (rows = t3 /\ out = out3) \/
             (rows = t4 /\ out = out4) ->
             nested_result (converges no_call no_join ex_ctx ex_q_sel) rows out).
  { intros rows out H. destruct (leaf_converges rows out H) as [Hf Hc]. apply nr_flat; [exact Hf|].
    apply converges_with_from; assumption. }
  apply (nr_deep _ [[VArr t1; VArr t2]; [VArr t3]]).
  apply Forall2_cons; [|apply Forall2_cons; [|apply Forall2_nil]].
  - apply (nr_deep _ [t1; t2] [out1; out2]).
    apply Forall2_cons; [|apply Forall2_cons; [|apply Forall2_nil]]; apply L; tauto.
  - apply (nr_deep _ [t3] [out3]). apply Forall2_cons; [|apply Forall2_nil]. apply L; tauto.
Qed.

(* hence, by the theorems, for every sufficiently large fuel the three statements return what was observed *)
Example sel_statements_converge :
  stmt_converges no_call no_join ex_ctx (SSelect ex_q_sel) (VArr sel_out) /\
  stmt_converges no_call no_join ex_ctx (SSelect ex_q_sel_mixed) (VArr (leaves (VArr sel_out))) /\
  stmt_converges no_call no_join ex_ctx (SSelect ex_q_sel_mix_first) (VArr (leaves (VArr sel_out))).
Proof.
  destruct sel_in_scope as (Hs & Hp & Hwf & Hok & Hsem).
  destruct (selector_source_statements no_call no_join ex_ctx ex_q_sel ex_sel sel_src (VArr sel_out))
    as [H1 H2]; auto; try reflexivity; try discriminate; try exact sel_nested_hypothesis_met.
  split; [exact H1|]. split; [exact H2|].
  apply (selector_mix_first_statement no_call no_join ex_ctx ex_q_sel _ sel_src (VArr sel_out)); auto.
  exact sel_nested_hypothesis_met.
Qed.
