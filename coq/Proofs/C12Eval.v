(* Proofs/C12Eval.v — property C12, expression level: whatever Expr returns, the value SelectExpr
   stores for it (ValueOf of the raw result) contains no `<-` key; Ommit adds no column; every stored
   value went through ValueOf. *)
From Coq Require Import Floats.
From GenqlV Require Import Base.Prelude Base.Value Model.Ast Model.Eval Model.Exec
                           Spec.PlainSpec Proofs.C12Clean.
Local Open Scope list_scope.

(* ------------------------------------------------------------------ *)
(* raw results                                                          *)
(* ------------------------------------------------------------------ *)

(* what a raw result may be so that resolving it cannot produce a `<-` key.  [sc]: the row it will
   be resolved against is a scope copy (then a column wrapper must not be a pure `<-` path) *)
Fixpoint raw_ok (sc : bool) (r : raw) : Prop :=
  match r with
  | RVal v => clean v
  | RCol p => sc = true -> nav_only p = false
  | RTuple l => (fix all (l : list raw) : Prop :=
                   match l with [] => True | x :: r => raw_ok sc x /\ all r end) l   (* every member, at every depth *)
  | _ => True
  end.

Lemma raw_ok_tuple_iff : forall sc l, raw_ok sc (RTuple l) <-> Forall (raw_ok sc) l.
Proof.
  intros sc l. cbn [raw_ok]. induction l as [|x r IH]; [split; auto|].
  rewrite IH. split; [intros [? ?]; constructor; auto|intros H; inversion H; auto].
Qed.

(* a row an expression is evaluated on: a scope copy when [sc], clean otherwise *)
Definition cur_ok (sc : bool) (cur : row) : Prop :=
  nav_ok (VObj cur) /\ (sc = false -> clean (VObj cur)).

Lemma cur_ok_clean : forall sc cur, clean (VObj cur) -> cur_ok sc cur.
Proof. intros sc cur H. split; [apply clean_nav_ok, H|intros _; exact H]. Qed.

(* the member-wise walk of Unwrapped (a tuple as a value, tuples nested in it at any depth): the array it builds holds
   the members' values, so it is clean when they are.  No row is involved: a column member was read when the
   tuple was built. *)
Lemma unwrapped_tuple : forall l,
  unwrapped (RTuple l) = let! vs := mapM unwrapped l in Ok (VArr vs).
Proof.
  intros l. cbn [unwrapped].
  match goal with |- bind ?a _ = bind ?b _ => assert (Heq : a = b) end.
  { induction l as [|x r IH]; [reflexivity|]. cbn [mapM]. rewrite <- IH. reflexivity. }
  rewrite Heq. reflexivity.
Qed.

Theorem unwrapped_clean : forall sc r v, raw_ok sc r -> unwrapped r = Ok v -> clean v.
Proof.
  intros sc r. induction r as [x|p|s|[f|]| |l IH] using raw_ind'; intros v Hr H;
    try (cbn in H; first [discriminate
                         |inversion H; subst; first [exact Hr|apply clean_str|apply clean_num|apply clean_null]]).
  rewrite unwrapped_tuple in H.
  destruct (mapM unwrapped l) as [vs| | |] eqn:Em; cbn [bind] in H; try discriminate.
  inversion H; subst. apply clean_arr. apply raw_ok_tuple_iff in Hr.
  eapply (mapM_Forall unwrapped (raw_ok sc) clean); [|exact Em].
  rewrite Forall_forall in *. intros x Hx. split; [auto|]. intros b Hb. exact (IH x Hx b (Hr x Hx) Hb).
Qed.

Theorem value_of_clean : forall sc cur r v,
  cur_ok sc cur -> raw_ok sc r -> value_of cur r = Ok v -> clean v.
Proof.
  intros sc cur r v [Hn Hc] Hr H. destruct r as [x|p|s|[f|]| |l];
    [| | | | | |exact (unwrapped_clean sc (RTuple l) v Hr H)];
    cbn in H; try discriminate;
    try (inversion H; subst; first [exact Hr|apply clean_str|apply clean_num|apply clean_null]).
  destruct sc.
  - destruct (reader_nav p _ _ Hn H) as [_ Hw]. apply Hw, Hr. reflexivity.
  - eapply reader_clean; [apply Hc; reflexivity|exact H].
Qed.

(* ------------------------------------------------------------------ *)
(* induction over the value positions of an expression                  *)
(* ------------------------------------------------------------------ *)

Section ExprInd.
  Variable Q : Type.
  Variable P : expr Q -> Prop.

  Definition is_value_form (e : expr Q) : bool :=
    match e with ECase _ _ | ECall _ _ _ | ETuple _ => true | _ => false end.

  Definition opt_P (o : option (expr Q)) : Prop := match o with Some x => P x | None => True end.

  Hypothesis HCase : forall whens els,
    Forall (fun cv => P (snd cv)) whens -> opt_P els -> P (ECase whens els).
  Hypothesis HCall : forall qual name args, Forall P args -> P (ECall qual name args).
  Hypothesis HTuple : forall items, Forall P items -> P (ETuple items).
  Hypothesis HOther : forall e, is_value_form e = false -> P e.

  Fixpoint expr_ind12 (e : expr Q) : P e :=
    match e with
    | ECase whens els =>
        HCase whens els
          ((fix go (l : list (expr Q * expr Q)) : Forall (fun cv => P (snd cv)) l :=
              match l with
              | [] => Forall_nil _
              | (c, v) :: r => Forall_cons (c, v) (expr_ind12 v) (go r)
              end) whens)
          (match els as o return opt_P o with
           | Some y => expr_ind12 y
           | None => I
           end)
    | ECall q n args =>
        HCall q n args
          ((fix go (l : list (expr Q)) : Forall P l :=
              match l with [] => Forall_nil _ | x :: r => Forall_cons x (expr_ind12 x) (go r) end) args)
    | ETuple items =>
        HTuple items
          ((fix go (l : list (expr Q)) : Forall P l :=
              match l with [] => Forall_nil _ | x :: r => Forall_cons x (expr_ind12 x) (go r) end) items)
    | ECol p => HOther (ECol p) eq_refl
    | ENum f => HOther (ENum f) eq_refl
    | EStr s => HOther (EStr s) eq_refl
    | EBool b => HOther (EBool b) eq_refl
    | ENull => HOther ENull eq_refl
    | EAnd a b => HOther (EAnd a b) eq_refl
    | EOr a b => HOther (EOr a b) eq_refl
    | ENot a => HOther (ENot a) eq_refl
    | ECmp op a b => HOther (ECmp op a b) eq_refl
    | ELike n a b => HOther (ELike n a b) eq_refl
    | EIn n a l => HOther (EIn n a l) eq_refl
    | EInSub n a q => HOther (EInSub n a q) eq_refl
    | EBetween n a lo hi => HOther (EBetween n a lo hi) eq_refl
    | EIs op a => HOther (EIs op a) eq_refl
    | EBin op a b => HOther (EBin op a b) eq_refl
    | EUn op a => HOther (EUn op a) eq_refl
    | ESub q => HOther (ESub q) eq_refl
    | EExists q => HOther (EExists q) eq_refl
    | EAgg f a => HOther (EAgg f a) eq_refl
    end.
End ExprInd.
Arguments expr_ind12 {Q}.

(* ------------------------------------------------------------------ *)
(* the evaluator                                                        *)
(* ------------------------------------------------------------------ *)

(* one step of inverting a successful monadic computation *)
Ltac ok_step H :=
  match type of H with
  | Ok _ = Ok _ => inversion H; subst; clear H
  | bind ?x _ = Ok _ => let E := fresh "E" in destruct x eqn:E; cbn [bind] in H; [|discriminate..]
  | (match ?x with _ => _ end) = Ok _ => let E := fresh "E" in destruct x eqn:E; try discriminate
  | (if ?x then _ else _) = Ok _ => let E := fresh "E" in destruct x eqn:E; try discriminate
  end.

(* the two ways SelectExpr treats an expression item *)
Lemma select_expr_cons_expr : forall {Q} (E : env Q) cur e name r acc out,
  select_expr E cur (IExpr e name :: r) acc = Ok out ->
  exists x, eval E cur e = Ok x /\
    ((x = ROmit /\ select_expr E cur r acc = Ok out) \/
     (x <> ROmit /\ exists v, value_of cur x = Ok v /\ select_expr E cur r (obj_set name v acc) = Ok out)).
Proof.
  intros Q E cur e name r acc out H. cbn [select_expr] in H.
  destruct (eval E cur e) as [x| | |] eqn:Ex; cbn [bind] in H; try discriminate.
  exists x. split; [reflexivity|].
  destruct x as [a|p|s|o| |l]; try (left; split; [reflexivity|exact H]); right; (split; [discriminate|]);
    match type of H with bind ?t _ = _ => destruct t as [w| | |] eqn:Ev end; cbn [bind] in H; try discriminate;
    (exists w; split; [reflexivity|exact H]).
Qed.

Section EvalClean.
  Variable Q : Type.
  Variable E : env Q.
  Variable sub : Q -> bool.

  (* what the expression evaluator needs from its environment *)
  Record env_ok : Prop := {
    eo_data : nav_ok (e_data E);
    eo_hard : e_hard E = false;
    eo_sub : forall q cur v, sub q = true -> nav_ok (VObj cur) -> e_sub E q cur = Ok v -> clean v;
    eo_agg : forall f arg cur r, e_agg E f arg cur = Ok r -> raw_ok true r;
    eo_call : forall qual name vs cur r,
        Forall clean vs -> e_call E qual name vs cur = Ok r -> raw_ok true r
  }.

  Hypothesis HE : env_ok.

  Lemma raw_ok_weaken : forall sc r, raw_ok true r -> raw_ok sc r.
  Proof.
    intros sc r. induction r as [x|p|s|o| |l IH] using raw_ind'; cbn [raw_ok]; auto.
    intros H. apply raw_ok_tuple_iff. apply (proj1 (raw_ok_tuple_iff true l)) in H.
    rewrite Forall_forall in *. intros x Hx. exact (IH x Hx (H x Hx)).
  Qed.

  Lemma col_path_soft : forall p, col_path Q E p = p.
  Proof. intros p. unfold col_path. rewrite (eo_hard HE). reflexivity. Qed.

  Theorem eval_clean : forall sc e cur r,
    cur_ok sc cur -> expr_ok sub sc e = true -> eval E cur e = Ok r -> raw_ok sc r.
  Proof.
    intros sc e. induction e using expr_ind12; intros cur r Hcur Hok Hev.
    - (* CASE *)
      cbn [eval] in Hev. cbn [expr_ok] in Hok. apply Bool.andb_true_iff in Hok. destruct Hok as [Hws Hels].
      induction whens as [|[c v] ws IHws].
      + destruct els as [x|]; [exact (H0 cur r Hcur Hels Hev)|].
        inversion Hev; subst. apply clean_null.
      + apply Bool.andb_true_iff in Hws. destruct Hws as [Hv Hws].
        inversion H as [|? ? Hv' Hws']; subst. cbn [snd] in Hv'.
        destruct (eval E cur c) as [rc| | |] eqn:Ec; cbn [bind] in Hev; try discriminate.
        destruct rc as [[ |[|]| | | | ]| | | | | ]; try discriminate.
        * exact (Hv' cur r Hcur Hv Hev).
        * exact (IHws Hws' Hws Hev).
    - (* function call *)
      cbn [eval] in Hev. cbn [expr_ok] in Hok.
      match type of Hev with bind ?x _ = _ => destruct x as [vs| | |] eqn:Eargs; cbn [bind] in Hev; try discriminate end.
      apply raw_ok_weaken. eapply (eo_call HE); [|exact Hev].
      clear Hev. revert vs Eargs. induction args as [|x xs IHxs]; intros vs Eargs.
      + inversion Eargs; constructor.
      + apply Bool.andb_true_iff in Hok. destruct Hok as [Hx Hxs]. inversion H as [|? ? Hx' Hxs']; subst.
        destruct (eval E cur x) as [y| | |] eqn:Ex; cbn [bind] in Eargs; try discriminate.
        destruct (value_of cur y) as [v| | |] eqn:Ev; cbn [bind] in Eargs; try discriminate.
        match type of Eargs with bind ?z _ = _ => destruct z as [ys| | |] eqn:Eys; cbn [bind] in Eargs; try discriminate end.
        inversion Eargs; subst. constructor.
        * eapply value_of_clean; [exact Hcur|exact (Hx' cur y Hcur Hx Ex)|exact Ev].
        * apply IHxs; auto.
    - (* value tuple: every member is evaluated in value position; a column member is read off the current row *)
      cbn [eval] in Hev. cbn [expr_ok] in Hok.
      match type of Hev with bind ?x _ = _ => destruct x as [rs| | |] eqn:Ems; cbn [bind] in Hev; try discriminate end.
      inversion Hev; subst r. apply raw_ok_tuple_iff.
      clear Hev. revert rs Ems. induction items as [|x xs IHxs]; intros rs Ems.
      + inversion Ems; constructor.
      + apply Bool.andb_true_iff in Hok. destruct Hok as [Hx Hxs]. inversion H as [|? ? Hx' Hxs']; subst.
        destruct (slot_form x); [discriminate|].
        destruct (eval E cur x) as [y| | |] eqn:Ex; cbn [bind] in Ems; try discriminate.
        assert (Hy : raw_ok sc y) by exact (Hx' cur y Hcur Hx Ex).
        match type of Ems with bind ?z _ = _ => destruct z as [y'| | |] eqn:Ey'; cbn [bind] in Ems; try discriminate end.
        match type of Ems with bind ?z _ = _ => destruct z as [ys| | |] eqn:Eys; cbn [bind] in Ems; try discriminate end.
        inversion Ems; subst. constructor; [|apply IHxs; auto].
        destruct y as [a|p|s|o| |l]; try (inversion Ey'; subst; exact Hy).
        destruct (reader p (VObj cur)) as [w| | |] eqn:Er; cbn [bind] in Ey'; try discriminate.
        inversion Ey'; subst. cbn [raw_ok].
        exact (value_of_clean sc cur (RCol p) w Hcur Hy Er).
    - (* every other form *)
      destruct e; try discriminate; cbn [eval] in Hev.
      + (* column *) inversion Hev; subst. rewrite col_path_soft. cbn [expr_ok] in Hok. cbn.
        intros ->. cbn in Hok. destruct (nav_only path); [discriminate|reflexivity].
      + inversion Hev; subst. apply clean_num.
      + inversion Hev; subst. exact I.
      + inversion Hev; subst. apply clean_bool.
      + inversion Hev; subst. apply clean_null.
      + (* AND *) repeat ok_step Hev; apply clean_bool.
      + (* OR *) repeat ok_step Hev; apply clean_bool.
      + (* NOT *) repeat ok_step Hev; apply clean_bool.
      + (* comparison *) repeat ok_step Hev; apply clean_bool.
      + (* LIKE *) repeat ok_step Hev; apply clean_bool.
      + (* IN list *) repeat ok_step Hev; apply clean_bool.
      + (* IN subquery *) repeat ok_step Hev; apply clean_bool.
      + (* BETWEEN *) repeat ok_step Hev; apply clean_bool.
      + (* IS *) repeat ok_step Hev; apply clean_bool.
      + (* arithmetic *) repeat ok_step Hev; exact I.
      + (* unary *) repeat ok_step Hev; first [exact I|apply clean_bool].
      + (* scalar subquery *)
        cbn [expr_ok] in Hok. repeat ok_step Hev. cbn.
        eapply (eo_sub HE); [exact Hok| |exact E0].
        apply nav_ok_scope; [apply Hcur|apply (eo_data HE)].
      + (* EXISTS *) repeat ok_step Hev; apply clean_bool.
      + (* aggregate *) apply raw_ok_weaken. eapply (eo_agg HE); exact Hev.
  Qed.

  (* ------------------------------------------------------------------ *)
  (* SelectExpr                                                          *)
  (* ------------------------------------------------------------------ *)

  Theorem select_expr_clean : forall sc cur items acc out,
    cur_ok sc cur -> forallb (item_ok sub sc) items = true -> clean (VObj acc) ->
    select_expr E cur items acc = Ok out -> clean (VObj out).
  Proof.
    intros sc cur items. induction items as [|it r IH]; intros acc out Hcur Hok Hacc H.
    - cbn in H. inversion H; subst; exact Hacc.
    - cbn [forallb] in Hok. apply Bool.andb_true_iff in Hok. destruct Hok as [Hit Hr].
      destruct it as [|e name]; cbn [select_expr] in H.
      + cbn in Hit. destruct sc; [discriminate|].
        eapply IH; [exact Hcur|exact Hr| |exact H]. apply clean_obj_merge; [exact Hacc|apply Hcur; reflexivity].
      + cbn in Hit. apply Bool.andb_true_iff in Hit. destruct Hit as [Hn He].
        destruct (select_expr_cons_expr _ _ _ _ _ _ _ H) as [x [Ex [[-> H']|[Hne [v [Ev H']]]]]].
        * eapply IH; eauto.
        * eapply IH; [exact Hcur|exact Hr| |exact H'].
          apply clean_obj_set; [apply name_ok_iff, Hn| |exact Hacc].
          eapply value_of_clean; [exact Hcur| |exact Ev]. eapply eval_clean; eauto.
  Qed.
End EvalClean.

Arguments env_ok {Q}.

(* ------------------------------------------------------------------ *)
(* 2. wrappers are resolved, Ommit adds no column (any environment)      *)
(* ------------------------------------------------------------------ *)

Lemma select_expr_omit : forall {Q} (E : env Q) cur e name rest acc,
  eval E cur e = Ok ROmit ->
  select_expr E cur (IExpr e name :: rest) acc = select_expr E cur rest acc.
Proof. intros Q E cur e name rest acc H. cbn [select_expr]. rewrite H. reflexivity. Qed.

Lemma select_expr_store : forall {Q} (E : env Q) cur e name rest acc x,
  eval E cur e = Ok x -> x <> ROmit ->
  select_expr E cur (IExpr e name :: rest) acc =
  let! v := value_of cur x in select_expr E cur rest (obj_set name v acc).
Proof.
  intros Q E cur e name rest acc x H Hx. cbn [select_expr]. rewrite H. cbn [bind].
  destruct x; try reflexivity. congruence.
Qed.

(* a value tuple evaluates to a tuple none of whose members is a column wrapper: ValueTupleExpr has read it (any
   environment; nested tuples are results of the same function) *)
Theorem eval_tuple_shape : forall {Q} (E : env Q) cur items r,
  eval E cur (ETuple items) = Ok r ->
  exists l, r = RTuple l /\ List.length l = List.length items /\ Forall (fun x => forall p, x <> RCol p) l.
Proof.
  intros Q E cur items r H. cbn [eval] in H.
  match type of H with bind ?x _ = _ => destruct x as [rs| | |] eqn:Ems; cbn [bind] in H; try discriminate end.
  inversion H; subst r. clear H. exists rs. split; [reflexivity|].
  revert rs Ems. induction items as [|x xs IH]; intros rs Ems.
  - inversion Ems; subst. split; [reflexivity|constructor].
  - destruct (slot_form x); [discriminate|].
    destruct (eval E cur x) as [y| | |]; cbn [bind] in Ems; try discriminate.
    match type of Ems with bind ?z _ = _ => destruct z as [y'| | |] eqn:Ey'; cbn [bind] in Ems; try discriminate end.
    match type of Ems with bind ?z _ = _ => destruct z as [ys| | |] eqn:Eys; cbn [bind] in Ems; try discriminate end.
    inversion Ems; subst. destruct (IH ys eq_refl) as [Hlen Hall].
    split; [cbn [List.length]; rewrite Hlen; reflexivity|]. constructor; [|exact Hall].
    destruct y as [a|p|s|o| |l]; try (inversion Ey'; subst; intros p0; discriminate).
    destruct (reader p (VObj cur)); cbn [bind] in Ey'; try discriminate. inversion Ey'; subst. intros p0; discriminate.
Qed.

(* the value of a tuple: the array of its members' values, member by member and in order, each the
   recursively unwrapped member (no row is consulted) *)
Theorem value_of_tuple : forall cur l,
  value_of cur (RTuple l) = let! vs := mapM unwrapped l in Ok (VArr vs).
Proof. intros cur l. cbn [value_of]. apply unwrapped_tuple. Qed.

Lemma mapM_Forall2 : forall {A B} (f : A -> res B) l out,
  mapM f l = Ok out -> Forall2 (fun a b => f a = Ok b) l out.
Proof.
  intros A B f. induction l as [|a r IH]; intros out H; cbn [mapM] in H.
  - inversion H; constructor.
  - destruct (f a) eqn:Ea; cbn [bind] in H; try discriminate.
    destruct (mapM f r) eqn:Er; cbn [bind] in H; try discriminate.
    inversion H; subst. constructor; [exact Ea|apply IH; reflexivity].
Qed.

Theorem value_of_tuple_members : forall cur l v,
  value_of cur (RTuple l) = Ok v ->
  exists vs, v = VArr vs /\ Forall2 (fun r w => unwrapped r = Ok w) l vs.
Proof.
  intros cur l v H. rewrite value_of_tuple in H.
  destruct (mapM unwrapped l) as [vs| | |] eqn:Em; cbn [bind] in H; try discriminate.
  inversion H; subst. exists vs. split; [reflexivity|apply mapM_Forall2, Em].
Qed.

(* what Unwrapped does with each kind of member *)
Lemma unwrapped_members :
  (forall v, unwrapped (RVal v) = Ok v) /\
  (forall s, unwrapped (RNeutral s) = Ok (VStr s)) /\
  (forall f, unwrapped (RNumPtr (Some f)) = Ok (VNum f)) /\
  unwrapped (RNumPtr None) = Ok VNull /\
  unwrapped ROmit = OutOfModel /\
  (forall p, unwrapped (RCol p) = OutOfModel).
Proof. repeat split. Qed.

(* a tuple whose members are admissible, at every depth, has a clean value (any row) *)
Theorem tuple_value_clean : forall sc cur l v,
  Forall (raw_ok sc) l -> value_of cur (RTuple l) = Ok v -> clean v.
Proof.
  intros sc cur l v Hl H. apply (unwrapped_clean sc (RTuple l) v); [apply raw_ok_tuple_iff, Hl|exact H].
Qed.

(* where a member of the output object comes from *)
Theorem select_expr_members : forall {Q} (E : env Q) cur items acc out,
  select_expr E cur items acc = Ok out ->
  forall k v, In (k, v) out ->
    In (k, v) acc
    \/ (In IStar items /\ In (k, v) cur)
    \/ (exists e x, In (IExpr e k) items /\ eval E cur e = Ok x /\ x <> ROmit /\ value_of cur x = Ok v).
Proof.
  intros Q E cur items. induction items as [|it r IH]; intros acc out H k v Hin.
  - cbn in H. inversion H; subst. left; exact Hin.
  - destruct it as [|e name]; cbn [select_expr] in H.
    + destruct (IH _ _ H k v Hin) as [Ha|[[Hs Hc]|[e [x [Hi Hr]]]]].
      * destruct (obj_merge_in _ _ _ Ha); [left; auto|right; left; split; [left; reflexivity|auto]].
      * right; left; split; [right; exact Hs|exact Hc].
      * right; right. exists e, x. split; [right; exact Hi|exact Hr].
    + destruct (select_expr_cons_expr _ _ _ _ _ _ _ H) as [x [Ex [[-> H']|[Hne [w [Ev H']]]]]].
      * destruct (IH _ _ H' k v Hin) as [Ha|[[Hs Hc]|[e0 [x0 [Hi Hr]]]]].
        -- left; exact Ha.
        -- right; left; split; [right; exact Hs|exact Hc].
        -- right; right. exists e0, x0. split; [right; exact Hi|exact Hr].
      * destruct (IH _ _ H' k v Hin) as [Ha|[[Hs Hc]|[e0 [x0 [Hi Hr]]]]].
        -- destruct (obj_set_in _ _ _ _ Ha) as [Heq|Hold]; [|left; exact Hold].
           inversion Heq; subst. right; right. exists e, x. split; [left; reflexivity|auto].
        -- right; left; split; [right; exact Hs|exact Hc].
        -- right; right. exists e0, x0. split; [right; exact Hi|exact Hr].
Qed.
