(* Proofs/C16ShapeE.v -- C16_shape at the level of tokens: the consumer's token stream of the
   sanitized text is the token stream of the template with every placeholder token replaced by the
   literal token(s) denoting its argument ([shape_ok] of Spec/C16Spec.v, the specification the
   correspondence check evaluates on the real output). *)
From Coq Require Import Lia ZifyBool ZifyN ZifyNat.
From GenqlV Require Import Base.Prelude Base.Fmt Model.MySqlString Model.Sanitizer Spec.C16Spec
  Proofs.C16Bytes Proofs.C16Quote Proofs.C16SimA Proofs.C16SimB Proofs.C16Pos Proofs.C16Tokens Proofs.C16Errors
  Proofs.C16ShapeA Proofs.C16ShapeB Proofs.C16ShapeC Proofs.C16ShapeD.
Local Open Scope string_scope.
Local Open Scope bool_scope.
Local Opaque code wrap64.

(* a template without placeholder: no byte is a Default-mode "$digit" *)
Lemma raw_all : forall t prev s m,
  rel s m t = true -> wf_from prev m t = true -> to_place s = false ->
  split_ph s t = None -> noph_la m t EmptyString = true.
Proof.
  induction t as [|c rest IH]; intros prev s m Hrel Hwf Hs Hsp; [reflexivity|].
  cbn [split_ph] in Hsp. cbn [wf_from] in Hwf. apply andb_prop in Hwf. destruct Hwf as [Hwf Hwfr].
  destruct (enters_place s c rest) eqn:He; [discriminate|].
  destruct (split_ph (snext s c rest) rest) as [[r' rest1']|] eqn:Hrec; [discriminate|].
  cbn [noph_la]. rewrite app_nil_r_s. rewrite <- (ph_local _ _ _ _ _ Hrel Hwf), He. cbn [negb andb].
  eapply IH; [eapply step_sim; eassumption|exact Hwfr|now apply no_place_step|exact Hrec].
Qed.

Lemma raw_tokens r la :
  noph_la MDef r la = true ->
  Forall nonph (fst (tgp r (mmodes_la MDef r la) EmptyString) ++
                flush (snd (tgp r (mmodes_la MDef r la) EmptyString)) [])%list.
Proof.
  intro Hn. destruct (tgp_noph r MDef la EmptyString Hn I (fun _ => eq_refl) eq_refl) as [Hd Hp].
  apply Forall_app. split; [exact Hd|]. eapply flush_nonph; [exact Hp|constructor].
Qed.

Lemma fmt_nonempty a txt : fmt_arg a = Ok txt -> txt <> EmptyString.
Proof.
  intros H E. pose proof (lit_start_fmt a txt EmptyString H) as Hs. rewrite E in Hs. discriminate.
Qed.

Lemma inner_not_default a : is_default (inner_mode a) = false.
Proof. destruct a; reflexivity. Qed.

Lemma shape_tokens_aux args : forall n t,
  (String.length t <= n)%nat -> wf_templateb t = true ->
  forall out, render (lex t) args = Some out ->
  shape_walk (mysql_tokens t) (mysql_tokens out) (map sarg_of args) = true.
Proof.
  induction n as [|n IH]; intros t Hlen Hwf out Hr.
  - destruct t; [|cbn in Hlen; lia]. cbn in Hr. inversion Hr. reflexivity.
  - destruct (split_ph (SRun CRaw) t) as [[r rest1]|] eqn:Hsp.
    2: { rewrite (lex_nosplit t Hsp), render_raw_part in Hr. inversion Hr; subst out.
         apply shape_walk_refl.
         pose proof (raw_all t None (SRun CRaw) MDef (rel_init t) Hwf eq_refl Hsp) as Hn.
         pose proof (raw_tokens t EmptyString Hn) as Ht.
         rewrite mysql_tokens_tg. rewrite <- (app_nil_r_s t) at 1 2. rewrite mmodes_app.
         rewrite tg_split by apply mmodes_la_length. cbn [mmodes tg]. exact Ht. }
    destruct (shape_step args t r rest1 out Hwf Hsp Hr)
      as [a [txt [out' [Ht [Ho [Hds [Hdne [Hlen18 [Ha [Hf [Hr' [Hwf' [Hfl [Hflo [Hnoph [Hmt Hmo]]]]]]]]]]]]]]]].
    cbn zeta in *.
    set (ds := take_digits rest1) in *. set (t' := skip_digits rest1) in *.
    set (Lr := mmodes_la MDef r (String "$" rest1)) in *.
    assert (Hlen' : (String.length t' <= n)%nat) by (pose proof (step_length _ _ _ Ht); unfold t'; lia).
    pose proof (IH _ Hlen' Hwf' out' Hr') as HIH.
    pose proof (raw_tokens r _ Hnoph) as Hraw. fold Lr in Hraw.
    assert (HT : mysql_tokens t =
      ((fst (tgp r Lr EmptyString) ++ flush (snd (tgp r Lr EmptyString)) []) ++ String "$" ds :: mysql_tokens t')%list).
    { rewrite mysql_tokens_tg, Hmt. rewrite Ht at 1. rewrite tg_split by apply mmodes_la_length.
      rewrite ph_tokens. rewrite (flush_as_app _ (_ :: _)). now rewrite app_assoc. }
    assert (HO : mysql_tokens out =
      ((fst (tgp r Lr EmptyString) ++ flush (snd (tgp r Lr EmptyString)) []) ++ lit_tokens txt ++ mysql_tokens out')%list).
    { rewrite mysql_tokens_tg, Hmo. rewrite Ho at 1. rewrite tg_split by apply mmodes_la_length.
      rewrite lit_tokens_tg; [|apply inner_not_default|eapply lit_start_fmt; eassumption|eapply fmt_nonempty; eassumption].
      rewrite (flush_as_app _ (_ ++ _)%list). now rewrite app_assoc. }
    rewrite HT, HO. rewrite shape_walk_prefix by exact Hraw.
    cbn [shape_walk]. rewrite (ph_token_dollar ds Hds Hdne).
    destruct (accw_dec ds 0%Z 18 Hds Hlen18 ltac:(lia) ltac:(vm_compute; discriminate)) as [Hacc Hrange].
    rewrite Hacc in Ha. rewrite wrap64_id in Ha by (change (10 ^ 18)%Z with 1000000000000000000%Z in Hrange; lia).
    rewrite (map_nth_error sarg_of _ _ Ha).
    rewrite (eat_lit a txt _ Hf). exact HIH.
Qed.

(* C16_shape *)
Theorem shape_tokens : forall t args out,
  wf_template t -> sanitize_sql t args = Ok out ->
  shape_ok t (map sarg_of args) out = true.
Proof.
  intros t args out Hwf H. unfold shape_ok.
  eapply shape_tokens_aux; [apply Nat.le_refl|exact Hwf|]. apply sanitize_ok_text. exact H.
Qed.
