(* Proofs/C05Order.v — sort.go's Compare ([order_less]) is a strict weak order on rows whose key
   columns are coherently ordered, and "not less" is the lexicographic order of the specification. *)
From Coq Require Import Floats ZifyBool.
From GenqlV Require Import Base.Prelude Base.Value Model.Eval Model.Exec Spec.SortSpec Proofs.StrOrder.
Local Open Scope Z_scope.

(* ---------- vcompare ---------- *)

Lemma fcmp_range x y : fcmp x y = -1 \/ fcmp x y = 0 \/ fcmp x y = 1.
Proof. unfold fcmp. destruct (PrimFloat.eqb x y), (PrimFloat.ltb y x); auto. Qed.

Lemma vcompare_text a b :
  (forall f, a <> VNum f) \/ (forall f, b <> VNum f) ->
  vcompare a b = match fmt_value a, fmt_value b with
                 | Some s, Some t => Ok (str_cmp s t)
                 | _, _ => OutOfModel
                 end.
Proof.
  intros [H|H]; destruct a, b; try reflexivity; exfalso; eapply H; reflexivity.
Qed.

Lemma vcompare_range a b c : vcompare a b = Ok c -> c = -1 \/ c = 0 \/ c = 1.
Proof.
  intros H.
  assert (T : (exists x y, a = VNum x /\ b = VNum y) \/
              ((forall f, a <> VNum f) \/ (forall f, b <> VNum f))).
  { destruct a; try (right; left; intros f E; discriminate E).
    destruct b; try (right; right; intros f' E; discriminate E).
    left. eauto. }
  destruct T as [(x & y & -> & ->)|T].
  - cbn in H. inversion H. apply fcmp_range.
  - rewrite (vcompare_text _ _ T) in H.
    destruct (fmt_value a), (fmt_value b); try discriminate H. inversion H. apply str_cmp_range.
Qed.

Lemma vcompare_str s t : vcompare (VStr s) (VStr t) = Ok (str_cmp s t).
Proof. reflexivity. Qed.

Definition bool_text (b : bool) : string := if b then "true"%string else "false"%string.

Lemma vcompare_bool x y : vcompare (VBool x) (VBool y) = Ok (str_cmp (bool_text x) (bool_text y)).
Proof. destruct x, y; reflexivity. Qed.

(* ---------- one scalar kind per column is enough for the order laws ---------- *)

Lemma text_laws (V : value -> Prop) (txt : value -> string) :
  (forall x y, V x -> V y -> vcompare x y = Ok (str_cmp (txt x) (txt y))) -> cmp_laws V.
Proof.
  intros H. constructor.
  - intros x y Vx Vy. eexists. apply H; assumption.
  - intros x Vx. rewrite H by assumption. rewrite str_cmp_refl. reflexivity.
  - intros x y c Vx Vy E. rewrite H in * by assumption. inversion E. f_equal.
    rewrite (str_cmp_antisym (txt y) (txt x)). lia.
  - intros x y z c1 c2 c3 Vx Vy Vz E1 E2 E3. rewrite H in * by assumption.
    inversion E1; inversion E2; inversion E3. apply str_cmp_le_trans.
Qed.

Lemma one_kind_cmp_laws V : one_kind V -> cmp_laws V.
Proof.
  intros [Hs|[Hb|[Hn L]]].
  - apply (text_laws V (fun v => match v with VStr s => s | _ => EmptyString end)).
    intros x y Vx Vy. destruct (Hs x Vx) as [s ->], (Hs y Vy) as [t ->]. reflexivity.
  - apply (text_laws V (fun v => match v with VBool b => bool_text b | _ => EmptyString end)).
    intros x y Vx Vy. destruct (Hb x Vx) as [s ->], (Hb y Vy) as [t ->]. apply vcompare_bool.
  - constructor.
    + intros x y Vx Vy. destruct (Hn x Vx) as [f ->], (Hn y Vy) as [g ->]. eexists. reflexivity.
    + intros x Vx. destruct (Hn x Vx) as [f ->]. cbn. f_equal. apply (nl_refl _ L). exact Vx.
    + intros x y c Vx Vy E. destruct (Hn x Vx) as [f ->], (Hn y Vy) as [g ->]. cbn in *.
      inversion E. f_equal. rewrite (nl_antisym _ L g f) by assumption. lia.
    + intros x y z c1 c2 c3 Vx Vy Vz E1 E2 E3.
      destruct (Hn x Vx) as [f ->], (Hn y Vy) as [g ->], (Hn z Vz) as [h ->]. cbn in *.
      inversion E1; inversion E2; inversion E3. apply (nl_trans _ L); assumption.
Qed.

Lemma one_kind_in_scope (D : value -> Prop) keys : one_kind_keys D keys -> sort_scope D keys.
Proof.
  intros [HR HK]. split; [exact HR|]. intros k asc Hin. apply one_kind_cmp_laws. eapply HK; eauto.
Qed.

(* ---------- everything one needs to know about two / three ordered values ---------- *)

Lemma cmp2 V x y : cmp_laws V -> V x -> V y ->
  exists c, vcompare x y = Ok c /\ vcompare y x = Ok (- c) /\ (c = -1 \/ c = 0 \/ c = 1).
Proof.
  intros L Vx Vy. destruct (cl_total _ L x y Vx Vy) as [c E]. exists c.
  split; [exact E|]. split; [apply (cl_antisym _ L); assumption|]. eapply vcompare_range; eauto.
Qed.

Lemma cmp3 V x y z : cmp_laws V -> V x -> V y -> V z ->
  exists cxy cyz cxz,
    vcompare x y = Ok cxy /\ vcompare y z = Ok cyz /\ vcompare x z = Ok cxz /\
    (cxy = -1 \/ cxy = 0 \/ cxy = 1) /\ (cyz = -1 \/ cyz = 0 \/ cyz = 1) /\
    (cxz = -1 \/ cxz = 0 \/ cxz = 1) /\
    (cxy <= 0 -> cyz <= 0 -> cxz <= 0) /\
    (0 <= cxy -> 0 <= cyz -> 0 <= cxz) /\
    (cxz <= 0 -> 0 <= cyz -> cxy <= 0) /\
    (0 <= cxy -> cxz <= 0 -> cyz <= 0) /\
    (cyz <= 0 -> 0 <= cxz -> 0 <= cxy) /\
    (0 <= cxz -> cxy <= 0 -> 0 <= cyz).
Proof.
  intros L Vx Vy Vz.
  destruct (cmp2 V x y L Vx Vy) as (cxy & Exy & Eyx & Rxy).
  destruct (cmp2 V y z L Vy Vz) as (cyz & Eyz & Ezy & Ryz).
  destruct (cmp2 V x z L Vx Vz) as (cxz & Exz & Ezx & Rxz).
  exists cxy, cyz, cxz. repeat (split; [assumption|]).
  pose proof (cl_trans _ L x y z _ _ _ Vx Vy Vz Exy Eyz Exz) as T1.
  pose proof (cl_trans _ L z y x _ _ _ Vz Vy Vx Ezy Eyx Ezx) as T2.
  pose proof (cl_trans _ L x z y _ _ _ Vx Vz Vy Exz Ezy Exy) as T3.
  pose proof (cl_trans _ L y x z _ _ _ Vy Vx Vz Eyx Exz Eyz) as T4.
  pose proof (cl_trans _ L y z x _ _ _ Vy Vz Vx Eyz Ezx Eyx) as T5.
  pose proof (cl_trans _ L z x y _ _ _ Vz Vx Vy Ezx Exy Ezy) as T6.
  repeat split; lia.
Qed.

(* ---------- one step of the comparator ---------- *)

Lemma order_less_step k asc rest a b x y :
  reader k a = Ok x -> reader k b = Ok y ->
  order_less ((k, asc) :: rest) a b =
    if is_null x then Ok false
    else if is_null y then Ok true
    else let! c := vcompare x y in
         if c =? 0 then order_less rest a b else Ok (c =? (if asc then -1 else 1)).
Proof.
  intros Hx Hy. cbn [order_less]. rewrite Hx. cbn [bind].
  destruct x; cbn [is_null]; try reflexivity; rewrite Hy; cbn [bind]; destruct y; reflexivity.
Qed.

Lemma is_null_false v : is_null v = false -> v <> VNull.
Proof. intros H E. subst v. discriminate H. Qed.

Lemma is_null_true v : is_null v = true -> v = VNull.
Proof. destruct v; intros H; try discriminate H. reflexivity. Qed.

Lemma key_readable_tail (D : value -> Prop) p keys : key_readable D (p :: keys) -> key_readable D keys.
Proof. intros H r k asc Dr Hin. eapply H; eauto. right. exact Hin. Qed.

Lemma keys_ordered_tail (D : value -> Prop) p keys : keys_ordered D (p :: keys) -> keys_ordered D keys.
Proof. intros H k asc Hin. eapply H. right. exact Hin. Qed.

Lemma sort_scope_tail (D : value -> Prop) p keys : sort_scope D (p :: keys) -> sort_scope D keys.
Proof. intros [A B]. split; [eapply key_readable_tail|eapply keys_ordered_tail]; eauto. Qed.

Lemma key_val_intro (D : value -> Prop) k r v : D r -> reader k r = Ok v -> is_null v = false -> key_vals D k v.
Proof. intros Dr E N. split; [apply is_null_false; exact N|]. exists r. split; assumption. Qed.

Lemma sort_scope_mono (D D' : value -> Prop) keys :
  (forall r, D' r -> D r) -> sort_scope D keys -> sort_scope D' keys.
Proof.
  intros Hsub [HR HL]. split.
  - intros r k asc Dr Hin. eapply HR; eauto.
  - intros k asc Hin. pose proof (HL k asc Hin) as L.
    assert (S : forall v, key_vals D' k v -> key_vals D k v).
    { intros v [N (r & Dr & E)]. split; [exact N|]. exists r. split; [apply Hsub; exact Dr|exact E]. }
    constructor.
    + intros x y Vx Vy. apply (cl_total _ L); auto.
    + intros x Vx. apply (cl_refl _ L); auto.
    + intros x y c Vx Vy. apply (cl_antisym _ L); auto.
    + intros x y z c1 c2 c3 Vx Vy Vz. apply (cl_trans _ L); auto.
Qed.

(* ---------- the comparator never fails, is asymmetric and negatively transitive ---------- *)

Section Less.
  Variable D : value -> Prop.

  Lemma less_total : forall keys, sort_scope D keys -> total_on D (order_less keys).
  Proof.
    induction keys as [|[k asc] rest IH]; intros HS a b Da Db.
    - eexists. reflexivity.
    - destruct HS as [HR HL].
      destruct (HR a k asc Da (or_introl eq_refl)) as [x Hx].
      destruct (HR b k asc Db (or_introl eq_refl)) as [y Hy].
      rewrite (order_less_step _ _ _ _ _ _ _ Hx Hy).
      destruct (is_null x) eqn:Nx; [eauto|]. destruct (is_null y) eqn:Ny; [eauto|].
      pose proof (HL k asc (or_introl eq_refl)) as L.
      destruct (cmp2 _ x y L (key_val_intro D k a x Da Hx Nx) (key_val_intro D k b y Db Hy Ny))
        as (c & E & _ & _).
      rewrite E. cbn [bind]. destruct (c =? 0); [|eauto].
      apply IH; try assumption. apply (sort_scope_tail D (k, asc)). split; assumption.
  Qed.

  Lemma less_asym : forall keys, sort_scope D keys -> forall a b, D a -> D b ->
    order_less keys a b = Ok true -> order_less keys b a = Ok false.
  Proof.
    induction keys as [|[k asc] rest IH]; intros HS a b Da Db H.
    - cbn in H. discriminate H.
    - pose proof (sort_scope_tail D _ _ HS) as HS'. destruct HS as [HR HL].
      destruct (HR a k asc Da (or_introl eq_refl)) as [x Hx].
      destruct (HR b k asc Db (or_introl eq_refl)) as [y Hy].
      rewrite (order_less_step _ _ _ _ _ _ _ Hx Hy) in H.
      rewrite (order_less_step _ _ _ _ _ _ _ Hy Hx).
      destruct (is_null x) eqn:Nx; [discriminate H|]. destruct (is_null y) eqn:Ny; [reflexivity|].
      pose proof (HL k asc (or_introl eq_refl)) as L.
      destruct (cmp2 _ x y L (key_val_intro D k a x Da Hx Nx) (key_val_intro D k b y Db Hy Ny))
        as (c & E & E' & R).
      rewrite E in H. rewrite E'. cbn [bind] in *.
      destruct R as [R|[R|R]]; subst c; destruct asc; cbn in H |- *;
        try congruence; try reflexivity; apply IH; assumption.
  Qed.

  Lemma less_negtrans : forall keys, sort_scope D keys -> forall a b c, D a -> D b -> D c ->
    order_less keys a b = Ok false -> order_less keys b c = Ok false ->
    order_less keys a c = Ok false.
  Proof.
    induction keys as [|[k asc] rest IH]; intros HS a b c Da Db Dc Hab Hbc.
    - reflexivity.
    - pose proof (sort_scope_tail D _ _ HS) as HS'. destruct HS as [HR HL].
      destruct (HR a k asc Da (or_introl eq_refl)) as [x Hx].
      destruct (HR b k asc Db (or_introl eq_refl)) as [y Hy].
      destruct (HR c k asc Dc (or_introl eq_refl)) as [z Hz].
      rewrite (order_less_step _ _ _ _ _ _ _ Hx Hy) in Hab.
      rewrite (order_less_step _ _ _ _ _ _ _ Hy Hz) in Hbc.
      rewrite (order_less_step _ _ _ _ _ _ _ Hx Hz).
      destruct (is_null x) eqn:Nx; [reflexivity|].
      destruct (is_null y) eqn:Ny; [discriminate Hab|].
      destruct (is_null z) eqn:Nz; [discriminate Hbc|].
      pose proof (HL k asc (or_introl eq_refl)) as L.
      destruct (cmp3 _ x y z L (key_val_intro D k a x Da Hx Nx) (key_val_intro D k b y Db Hy Ny)
                  (key_val_intro D k c z Dc Hz Nz))
        as (cxy & cyz & cxz & Exy & Eyz & Exz & Rxy & Ryz & Rxz & T1 & T2 & T3 & T4 & T5 & T6).
      rewrite Exy in Hab. rewrite Eyz in Hbc. rewrite Exz. cbn [bind] in *.
      destruct Rxy as [?|[?|?]], Ryz as [?|[?|?]], Rxz as [?|[?|?]]; subst cxy cyz cxz;
        destruct asc; cbn in Hab, Hbc |- *;
        try congruence; try reflexivity; try (exfalso; lia);
        exact (IH HS' a b c Da Db Dc Hab Hbc).
  Qed.

  (* the three facts as a strict weak order *)
  Lemma less_strict_weak_order keys : sort_scope D keys ->
    total_on D (order_less keys) /\ strict_weak_order D (lt_of (order_less keys)).
  Proof.
    intros HS. pose proof (less_total keys HS) as Tot. split; [exact Tot|].
    assert (NF : forall a b, D a -> D b -> ~ lt_of (order_less keys) a b ->
                 order_less keys a b = Ok false).
    { intros a b Da Db N. destruct (Tot a b Da Db) as [[|] E]; [contradiction|exact E]. }
    constructor.
    - intros a Da H. pose proof (less_asym keys HS a a Da Da H) as H'.
      unfold lt_of in H. congruence.
    - intros a b c Da Db Dc Hab Hbc.
      destruct (Tot a c Da Dc) as [[|] E]; [exact E|]. exfalso.
      (* a !< c and c !< b (asymmetry) give a !< b *)
      pose proof (less_asym keys HS b c Db Dc Hbc) as Hcb.
      pose proof (less_negtrans keys HS a c b Da Dc Db E Hcb) as Hab'.
      unfold lt_of in Hab. congruence.
    - intros a b c Da Db Dc N1 N2 N3 N4. unfold lt_of. split; intros H.
      + pose proof (less_negtrans keys HS a b c Da Db Dc (NF _ _ Da Db N1) (NF _ _ Db Dc N3)).
        congruence.
      + pose proof (less_negtrans keys HS c b a Dc Db Da (NF _ _ Dc Db N4) (NF _ _ Db Da N2)).
        congruence.
  Qed.

  (* NULL placement, in either direction, on the most significant key *)
  Lemma less_null_left k asc rest a b :
    reader k a = Ok VNull -> order_less ((k, asc) :: rest) a b = Ok false.
  Proof. intros Ha. cbn [order_less]. rewrite Ha. reflexivity. Qed.

  Lemma less_null_right k asc rest a b x :
    reader k a = Ok x -> x <> VNull -> reader k b = Ok VNull ->
    order_less ((k, asc) :: rest) a b = Ok true.
  Proof.
    intros Ha Nx Hb. rewrite (order_less_step _ _ _ _ _ _ _ Ha Hb).
    destruct x; try reflexivity. contradiction Nx. reflexivity.
  Qed.

  (* ---------- "b is not before a" is the lexicographic order of the specification ---------- *)

  Lemma less_false_lex : forall keys, sort_scope D keys -> forall a b, D a -> D b ->
    order_less keys b a = Ok false -> lex_le_nullstop keys a b.
  Proof.
    induction keys as [|[k asc] rest IH]; intros HS a b Da Db H; [exact I|].
    pose proof (sort_scope_tail D _ _ HS) as HS'. destruct HS as [HR HL].
    destruct (HR a k asc Da (or_introl eq_refl)) as [x Hx].
    destruct (HR b k asc Db (or_introl eq_refl)) as [y Hy].
    rewrite (order_less_step _ _ _ _ _ _ _ Hy Hx) in H.
    cbn [lex_le_nullstop]. exists x, y. split; [exact Hx|]. split; [exact Hy|].
    destruct (is_null x) eqn:Nx, (is_null y) eqn:Ny; try exact I; try discriminate H.
    pose proof (HL k asc (or_introl eq_refl)) as L.
    destruct (cmp2 _ x y L (key_val_intro D k a x Da Hx Nx) (key_val_intro D k b y Db Hy Ny))
      as (c & E & E' & R).
    exists c. split; [exact E|]. rewrite E' in H. cbn [bind] in H.
    destruct R as [R|[R|R]]; subst c; destruct asc; cbn in H |- *; try congruence;
      try (left; lia).
    - right. split; [reflexivity|]. apply IH; assumption.
    - right. split; [reflexivity|]. apply IH; assumption.
  Qed.

  (* and conversely: the specification's order forbids "b strictly before a" *)
  Lemma lex_less_false : forall keys, sort_scope D keys -> forall a b, D a -> D b ->
    lex_le_nullstop keys a b -> order_less keys b a = Ok false.
  Proof.
    induction keys as [|[k asc] rest IH]; intros HS a b Da Db H; [reflexivity|].
    pose proof (sort_scope_tail D _ _ HS) as HS'. destruct HS as [HR HL].
    cbn [lex_le_nullstop] in H. destruct H as (x & y & Hx & Hy & H).
    rewrite (order_less_step _ _ _ _ _ _ _ Hy Hx).
    destruct (is_null x) eqn:Nx, (is_null y) eqn:Ny; try reflexivity; try contradiction.
    destruct H as (c & E & H).
    pose proof (HL k asc (or_introl eq_refl)) as L.
    destruct (cmp2 _ x y L (key_val_intro D k a x Da Hx Nx) (key_val_intro D k b y Db Hy Ny))
      as (c' & E1 & E' & R).
    assert (c' = c) by congruence. subst c'. rewrite E'. cbn [bind].
    destruct R as [R|[R|R]]; subst c; destruct asc; cbn in H |- *;
      try reflexivity; try (exfalso; lia).
    - destruct H as [H|[_ H]]; [lia|]. apply IH; assumption.
    - destruct H as [H|[_ H]]; [lia|]. apply IH; assumption.
  Qed.

  (* with NULLs confined to the last key the engine's order is the textbook one *)
  Lemma nullstop_lex : forall keys, nulls_only_in_last_key D keys -> forall a b, D a -> D b ->
    lex_le_nullstop keys a b -> lex_le keys a b.
  Proof.
    induction keys as [|[k asc] rest IH]; intros HN a b Da Db H; [exact I|].
    cbn [lex_le_nullstop] in H. destruct H as (x & y & Hx & Hy & H).
    cbn [lex_le]. exists x, y. split; [exact Hx|]. split; [exact Hy|].
    assert (HN' : nulls_only_in_last_key D rest).
    { cbn [nulls_only_in_last_key] in HN. destruct rest as [|p rest']; [exact I|]. apply HN. }
    destruct (is_null x) eqn:Nx.
    - destruct (is_null y) eqn:Ny; [|exact H].
      destruct rest as [|p rest']; [exact I|]. exfalso.
      cbn [nulls_only_in_last_key] in HN. destruct HN as [HN _].
      apply (HN a Da). rewrite Hx. f_equal. apply is_null_true. exact Nx.
    - destruct (is_null y) eqn:Ny; [exact I|].
      destruct H as (c & E & [H|[H1 H2]]); exists c; (split; [exact E|]).
      + left. exact H.
      + right. split; [exact H1|]. apply IH; assumption.
  Qed.
End Less.
