(* Proofs/C02Pipeline.v — lifting the ExecSelect theorems of C02 to run_select (exec() of plsql.go)
   for a plain SELECT: no GROUP BY, DISTINCT, ORDER BY, LIMIT or OFFSET; source rows are objects. *)
From Coq Require Import Floats.
From GenqlV Require Import Base.Prelude Base.Value Model.Ast Model.Num Model.Eval Model.Exec
                           Spec.ExprSem Proofs.C02Obj Proofs.C02Lemmas.
Local Open Scope Z_scope.
Local Open Scope list_scope.

Lemma catch_panic_ok : forall {A} (r : res A) a, catch_panic r = Ok a -> r = Ok a.
Proof. intros A r a H. destruct r; cbn in H; congruence. Qed.

(* without LIMIT / OFFSET the window is the whole slice *)
Lemma window_all : forall rs, window rs (List.length rs) None None = Ok rs.
Proof.
  intro rs. unfold window. destruct rs as [|x r]; [reflexivity|].
  set (l := x :: r). assert (Hpos : 0 < Z.of_nat (List.length l)) by (cbn [l List.length]; lia).
  destruct (Z.of_nat (List.length l) <=? 0) eqn:H0; [lia|].
  destruct (Z.of_nat (List.length l) - 0 <? Z.of_nat (List.length l)) eqn:H1; [lia|].
  unfold go_slice.
  replace ((0 <=? 0) && (0 <=? 0 + Z.of_nat (List.length l)) &&
           (0 + Z.of_nat (List.length l) <=? Z.of_nat (List.length l))) with true
    by (symmetry; repeat (apply andb_true_iff; split); lia).
  rewrite Nat.sub_diag. cbn [repeat]. rewrite app_nil_r.
  replace (Z.to_nat (0 + Z.of_nat (List.length l) - 0)) with (List.length l) by lia.
  cbn [Z.to_nat skipn]. rewrite firstn_all. reflexivity.
Qed.

(* a subsequence *)
Inductive subseq {A} : list A -> list A -> Prop :=
| sub_nil : subseq [] []
| sub_keep : forall x l1 l2, subseq l1 l2 -> subseq (x :: l1) (x :: l2)
| sub_drop : forall x l1 l2, subseq l1 l2 -> subseq l1 (x :: l2).

Section Pipeline.
  Variable rec : qctx -> job -> res value.
  Variable call : string -> string -> list value -> row -> res raw.
  Variable join : jointype -> jstrategy -> list value -> list value -> string -> string ->
                  expr stmt -> row -> res (list value).

  (* over object rows the row filter keeps a subsequence: exactly the rows whose WHERE is true *)
  Lemma filter_rows_objs : forall ctx s E from kept,
    forallb is_obj from = true -> filter_rows rec ctx s E from = Ok kept ->
    forallb is_obj kept = true /\ subseq kept from /\
    (forall r, In r kept -> exists kv, r = VObj kv /\ eval_cond E kv (s_where s) = Ok true).
  Proof.
    intros ctx s E from. unfold filter_rows.
    induction from as [|cur r IH]; intros kept Hobj H.
    - inversion H. repeat split; [constructor|]. intros r [].
    - cbn [forallb] in Hobj. apply andb_true_iff in Hobj. destruct Hobj as [Hc Hr].
      destruct cur as [| | | | |kv]; try discriminate Hc.
      destruct (eval_cond E kv (s_where s)) as [keep| | |] eqn:Hk; cbn [bind] in H; try discriminate H.
      match type of H with bind ?g _ = _ => destruct g as [rest| | |] eqn:Hg end;
        cbn [bind] in H; try discriminate H.
      destruct (IH rest Hr eq_refl) as [Ho [Hs Hw]].
      inversion H. subst kept. destruct keep.
      + repeat split.
        * cbn [forallb is_obj]. exact Ho.
        * constructor. exact Hs.
        * intros x [<-|Hx]; [eauto|apply Hw, Hx].
      + repeat split; [exact Ho|constructor; exact Hs|exact Hw].
  Qed.

  Definition plain_select (s : select stmt) : Prop :=
    s_group s = [] /\ s_distinct s = false /\ s_order s = [] /\ s_limit s = None /\ s_offset s = None.

  (* SELECT list FROM table [WHERE c]: one output object per row that passed WHERE, each the
     specification's projection of that row *)
  Theorem run_select_shape : forall ctx s from v,
    plain_select s -> c02x_items (s_items s) = true -> forallb is_obj from = true ->
    run_select rec call join ctx s (Some from) = Ok v ->
    exists kept out,
      filter_rows rec ctx s (mk_env rec call join ctx s []) from = Ok kept /\
      subseq kept from /\
      (forall r, In r kept -> exists kv, r = VObj kv /\
                 eval_cond (mk_env rec call join ctx s []) kv (s_where s) = Ok true) /\
      v = VArr out /\ List.length out = List.length kept /\
      Forall2 (row_ok (sem_project_x (s_items s)) (select_keys (s_items s))) kept out.
  Proof.
    intros ctx s from v [Hg [Hd [Ho [Hl Hof]]]] Hc Hobj H.
    apply catch_panic_ok in H. cbv beta iota zeta in H.
    destruct (filter_rows rec ctx s (mk_env rec call join ctx s []) from) as [kept| | |] eqn:Hf;
      cbn [bind] in H; try discriminate H.
    destruct (filter_rows_objs _ _ _ _ _ Hobj Hf) as [Hko [Hsub Hw]].
    unfold exec_group_by in H. rewrite Hg in H. cbn [bind] in H.
    destruct (exec_select (mk_env rec call join ctx s kept) s kept) as [out| | |] eqn:Hs;
      cbn [bind] in H; try discriminate H.
    rewrite Hd, Ho, Hl, Hof in H. cbn [exec_distinct exec_order_by bind] in H.
    rewrite window_all in H. cbn [bind] in H. inversion H.
    destruct (row_shape_x _ (mk_env_hard rec call join ctx s kept) s kept out Hc Hko Hs) as [Hlen Hf2].
    exists kept, out. repeat split; assumption.
  Qed.

  (* SELECT list  (no FROM): the single row is the query data *)
  Theorem run_select_dual : forall ctx s v,
    c02x_items (s_items s) = true ->
    run_select rec call join ctx s None = Ok v ->
    exists okv, sem_project_x (s_items s) (c_data ctx) = Ok okv /\ v = VObj okv.
  Proof.
    intros ctx s v Hc H. apply catch_panic_ok in H. cbv beta iota zeta in H.
    destruct (exec_select (mk_env rec call join ctx s []) s [VObj (c_data ctx)]) as [out| | |] eqn:Hs;
      cbn [bind] in H; try discriminate H.
    destruct (row_shape_x _ (mk_env_hard rec call join ctx s []) s [VObj (c_data ctx)] out Hc eq_refl Hs) as [Hlen Hf2].
    inversion Hf2 as [|r o rs os Hro Hrest]; subst. inversion Hrest; subst.
    destruct Hro as [kv [okv [Hkv [Hp [-> _]]]]]. inversion Hkv; subst kv.
    inversion H. eauto.
  Qed.
End Pipeline.
