(* Proofs/UpFacts.v — what [up_find] / [up_read] (Model/Exec.v) return: shared by the proofs that
   follow the interpreter through a thunk of an enclosing query (C12, C19). *)
From GenqlV Require Import Base.Prelude Base.Value Model.Ast Model.Eval Model.Exec.
Local Open Scope list_scope.

(* the thunk found is registered, under the name found, by one of the enclosing queries, and the
   queries recorded as enclosing that one are the rest of the stack *)
Lemma up_find_some up : forall p h,
  up_find up p = Some h ->
  exists pre, up = pre ++ uh_frame h :: uh_up h /\
              cte_lookup (uh_name h) (fr_ctes (uh_frame h)) = Some (uh_body h).
Proof.
  induction up as [|f up IH]; intros p h H; cbn [up_find] in H; [discriminate|].
  destruct p as [|k rest]; [discriminate|].
  destruct (cte_lookup k (fr_ctes f)) as [body|] eqn:Hl.
  - inversion H; subst h. cbn [uh_frame uh_up uh_name uh_body]. exists []. split; [reflexivity|exact Hl].
  - destruct (String.eqb k "<-"); [|discriminate].
    destruct (IH rest h H) as (pre & Hup & Hb). exists (f :: pre). split; [rewrite Hup; reflexivity|exact Hb].
Qed.

Lemma up_read_some ctx p h :
  up_read ctx p = Some h ->
  exists pre, c_up ctx = pre ++ uh_frame h :: uh_up h /\
              cte_lookup (uh_name h) (fr_ctes (uh_frame h)) = Some (uh_body h).
Proof.
  unfold up_read. destruct p as [|k rest]; [discriminate|].
  destruct (String.eqb k "<-"); [apply up_find_some|discriminate].
Qed.

(* a query that is not a subquery has nothing behind `<-` but what its document holds *)
Lemma up_read_no_up ctx p : c_up ctx = [] -> up_read ctx p = None.
Proof.
  intros H. unfold up_read. rewrite H. destruct p as [|k rest]; [reflexivity|].
  destruct (String.eqb k "<-"); reflexivity.
Qed.
