(* Proofs/C01Lemmas.v — proofs for property C01 (WHERE keeps exactly the satisfying rows, in order). *)
From Coq Require Import Floats Permutation.
From GenqlV Require Import Base.Prelude Base.Value Model.Ast Model.Like Model.Num Model.Eval Model.Exec.
From GenqlV Require Import Spec.PredSem Proofs.StrOrder.
Local Open Scope Z_scope.
Local Open Scope list_scope.

(* ================================================================== *)
(* 1. LIKE                                                              *)
(* ================================================================== *)


Lemma items_match_wildcard : forall p s,
  items_match (map like_item p) s = wildcard_match p s.
Proof.
  induction p as [|c p IH]; intros s; [reflexivity|].
  cbn [map]. unfold like_item at 1.
  destruct (String.eqb c "_"%string) eqn:Hu.
  - apply String.eqb_eq in Hu; subst c. cbn. destruct s; [reflexivity|]. apply IH.
  - destruct (String.eqb c "%"%string) eqn:Hp.
    + cbn [items_match wildcard_match]. rewrite Hp.
      induction s as [|d s IHs].
      * rewrite IH. reflexivity.
      * rewrite IH. rewrite IHs. reflexivity.
    + cbn [items_match wildcard_match]. rewrite Hp, Hu.
      destruct s; [reflexivity|]. cbn [orb]. rewrite IH. reflexivity.
Qed.

Lemma like_wildcard : forall pat s,
  items_match (like_items pat) (runes (to_lower s))
  = wildcard_match (runes (to_lower pat)) (runes (to_lower s)).
Proof. intros. unfold like_items. apply items_match_wildcard. Qed.

Lemma regex_comparison_like_sem : forall s pat, regex_comparison s pat = like_sem s pat.
Proof. intros. unfold regex_comparison, like_sem. apply like_wildcard. Qed.

(* unfolding of the '%' case *)
Lemma wildcard_pct_nil : forall p, wildcard_match ("%"%string :: p) [] = wildcard_match p [].
Proof. intros. cbn. apply orb_false_r. Qed.

Lemma wildcard_pct_cons : forall p c s,
  wildcard_match ("%"%string :: p) (c :: s)
  = wildcard_match p (c :: s) || wildcard_match ("%"%string :: p) s.
Proof. intros. reflexivity. Qed.

(* the boolean matcher decides the declarative relation *)
Lemma wildcard_match_sound : forall p s, wildcard_match p s = true -> wild p s.
Proof.
  induction p as [|c p IH]; intros s H.
  - destruct s; [constructor|discriminate].
  - destruct (String.eqb c "%"%string) eqn:Hp.
    + apply String.eqb_eq in Hp; subst c.
      induction s as [|d s IHs].
      * rewrite wildcard_pct_nil in H. apply W_pct_none, IH, H.
      * rewrite wildcard_pct_cons in H. apply orb_true_iff in H as [H|H].
        -- apply W_pct_none, IH, H.
        -- apply W_pct_more, IHs, H.
    + cbn [wildcard_match] in H. rewrite Hp in H.
      destruct s as [|d s]; [discriminate|].
      apply andb_true_iff in H as [H1 H2]. apply IH in H2.
      destruct (String.eqb c "_"%string) eqn:Hu.
      * apply String.eqb_eq in Hu; subst c. apply W_one, H2.
      * cbn [orb] in H1. apply String.eqb_eq in H1; subst d.
        apply String.eqb_neq in Hu, Hp. apply W_lit; assumption.
Qed.

Lemma wildcard_match_complete : forall p s, wild p s -> wildcard_match p s = true.
Proof.
  induction 1.
  - reflexivity.
  - cbn. exact IHwild.
  - destruct s as [|d s].
    + rewrite wildcard_pct_nil. exact IHwild.
    + rewrite wildcard_pct_cons, IHwild. reflexivity.
  - rewrite wildcard_pct_cons, IHwild. apply orb_true_r.
  - cbn [wildcard_match].
    apply String.eqb_neq in H, H0. rewrite H0, H, String.eqb_refl. cbn. exact IHwild.
Qed.

Lemma wildcard_match_iff : forall p s, wildcard_match p s = true <-> wild p s.
Proof. split; [apply wildcard_match_sound | apply wildcard_match_complete]. Qed.

(* '%' = any sequence, stated with a split of the subject *)
Lemma wild_pct_split : forall p s,
  wild ("%"%string :: p) s <-> exists s1 s2, s = s1 ++ s2 /\ wild p s2.
Proof.
  intros p s. split.
  - remember ("%"%string :: p) as pp eqn:E. intros H. induction H; try discriminate.
    + inversion E; subst. exists [], s. split; [reflexivity|assumption].
    + destruct (IHwild E) as (s1 & s2 & -> & Hw). exists (c :: s1), s2. split; [reflexivity|assumption].
    + inversion E; subst. exfalso. apply H0. reflexivity.
  - intros (s1 & s2 & -> & Hw). induction s1 as [|c s1 IH].
    + apply W_pct_none, Hw.
    + cbn. apply W_pct_more, IH.
Qed.

(* a pattern without wildcards matches exactly itself: every other rune is literal *)
Definition no_wildcard (p : list rune) : Prop :=
  Forall (fun r => r <> "_"%string /\ r <> "%"%string) p.

Lemma wild_literal : forall p s, no_wildcard p -> (wild p s <-> s = p).
Proof.
  intros p s Hn. split.
  - intros H. induction H; inversion Hn; subst.
    + reflexivity.
    + exfalso. apply (proj1 H2). reflexivity.
    + exfalso. apply (proj2 H2). reflexivity.
    + exfalso. apply (proj2 H2). reflexivity.
    + f_equal. apply IHwild. assumption.
  - intros ->. induction Hn as [|r p [H1 H2] _ IH]; constructor; assumption.
Qed.

Lemma wildcard_match_literal : forall p s, no_wildcard p ->
  (wildcard_match p s = true <-> s = p).
Proof. intros. rewrite wildcard_match_iff. apply wild_literal. assumption. Qed.

(* ================================================================== *)
(* 2. Column reads: the scope copy does not disturb them                *)
(* ================================================================== *)

(* for ARBITRARY association lists (no sortedness, duplicates allowed): [obj_set] inserts in key
   order, [lookup] is a linear scan for the first match *)
Lemma lookup_obj_set_other : forall k k' v kvs,
  k <> k' -> lookup k (obj_set k' v kvs) = lookup k kvs.
Proof.
  intros k k' v kvs Hne. induction kvs as [|[k2 v2] kvs IH].
  - cbn. apply String.eqb_neq in Hne. rewrite Hne. reflexivity.
  - cbn [obj_set]. destruct (String.compare k' k2) eqn:C.
    + apply string_compare_eq in C; subst k2. cbn.
      apply String.eqb_neq in Hne. rewrite Hne. reflexivity.
    + cbn. apply String.eqb_neq in Hne. rewrite Hne. reflexivity.
    + cbn. destruct (String.eqb k k2); [reflexivity|exact IH].
Qed.

Lemma reader_cons_obj : forall k rest kvs,
  reader (k :: rest) (VObj kvs) = reader rest (obj_get k kvs).
Proof. reflexivity. Qed.

Lemma reader_null : forall p, reader p VNull = Ok VNull.
Proof. destruct p; reflexivity. Qed.

Lemma reader_scope : forall p cur d,
  path_ok p = true -> reader p (VObj (scope cur d)) = reader p (VObj cur).
Proof.
  intros [|k rest] cur d H; [discriminate|].
  cbn in H. apply negb_true_iff, String.eqb_neq in H.
  rewrite !reader_cons_obj. unfold obj_get, scope.
  rewrite lookup_obj_set_other by exact H. reflexivity.
Qed.

(* the evaluator's Reader agrees with the specification's notion of a column *)
Lemma reader_col_at : forall p v x, col_at p v = Some x -> reader p v = Ok x.
Proof.
  induction p as [|k rest IH]; intros v x H.
  - cbn in H. inversion H. reflexivity.
  - destruct v; cbn [col_at] in H; try discriminate.
    + inversion H. reflexivity.
    + rewrite reader_cons_obj. unfold obj_get.
      destruct (lookup k kvs) as [y|].
      * apply IH, H.
      * inversion H. apply reader_null.
Qed.

(* ================================================================== *)
(* 3. Unfolding equations of [eval]                                     *)
(* ================================================================== *)

Section EvalEqs.
  Context {Q : Type}.
  Variable E : env Q.

  Definition bool_operand (cur : row) (x : expr Q) : res bool :=
    let! r := eval E cur x in
    let! v := value_of cur r in
    match v with VNull => Err | _ => as_bool v end.

  Definition in_cands (cur : row) : list (expr Q) -> res (list raw) :=
    fix each (l : list (expr Q)) : res (list raw) :=
    match l with
    | [] => Ok []
    | x :: r =>
        let! y := eval E cur x in
        let! y' := match y with
                   | RCol p => let! v := reader p (VObj cur) in Ok (RVal v)
                   | _ => Ok y
                   end in
        let! ys := each r in Ok (y' :: ys)
    end.

  Lemma in_cands_cons : forall cur x r, in_cands cur (x :: r) =
    (let! y := eval E cur x in
     let! y' := match y with
                | RCol p => let! v := reader p (VObj cur) in Ok (RVal v)
                | _ => Ok y
                end in
     let! ys := in_cands cur r in Ok (y' :: ys)).
  Proof. reflexivity. Qed.

  Lemma eval_EAnd : forall cur a b, eval E cur (EAnd a b) =
    (let! x := bool_operand cur a in let! y := bool_operand cur b in Ok (RVal (VBool (x && y)))).
  Proof. reflexivity. Qed.

  Lemma eval_EOr : forall cur a b, eval E cur (EOr a b) =
    (let! x := bool_operand cur a in let! y := bool_operand cur b in Ok (RVal (VBool (x || y)))).
  Proof. reflexivity. Qed.

  Lemma eval_ENot : forall cur a, eval E cur (ENot a) =
    (let! x := bool_operand cur a in Ok (RVal (VBool (negb x)))).
  Proof. reflexivity. Qed.

  Lemma eval_ECmp : forall current op a b, eval E current (ECmp op a b) =
    (let cur := scope current (e_data E) in
     let! l := eval E cur a in
     let! lv := value_of cur l in
     let! r := eval E cur b in
     let! rv := value_of cur r in
     let! c := vcompare lv rv in
     Ok (RVal (VBool (cmp_holds op c)))).
  Proof. reflexivity. Qed.

  Lemma eval_ELike : forall current neg a b, eval E current (ELike neg a b) =
    (let cur := scope current (e_data E) in
     let! l := eval E cur a in
     let! lv := value_of cur l in
     let! r := eval E cur b in
     let! rv := value_of cur r in
     let! ls := fmt_res lv in
     let! rs := fmt_res rv in
     Ok (RVal (VBool (xorb neg (regex_comparison ls rs))))).
  Proof. reflexivity. Qed.

  Lemma eval_EIn : forall current neg a items, eval E current (EIn neg a items) =
    (let cur := scope current (e_data E) in
     let! l := eval E cur a in
     let! lv := value_of cur l in
     let! cands := in_cands cur items in
     let! b := in_list lv cands in
     Ok (RVal (VBool (xorb neg b)))).
  Proof. reflexivity. Qed.

  Lemma eval_EInSub : forall current neg a q, eval E current (EInSub neg a q) =
    (let cur := scope current (e_data E) in
     let! l := eval E cur a in
     let! lv := value_of cur l in
     let! rows := e_sub E q cur in
     match rows with
     | VArr rs => let! b := in_list lv (map RVal rs) in Ok (RVal (VBool (xorb neg b)))
     | _ => Err
     end).
  Proof. intros. cbn. repeat (f_equal; try reflexivity). Qed.

  Lemma eval_EBetween : forall current neg a lo hi, eval E current (EBetween neg a lo hi) =
    (let! p := eval E current a in
     let! pv := value_of current p in
     let! f := eval E current lo in
     let! t := eval E current hi in
     let! fv := value_of current f in
     let! tv := value_of current t in
     let! c1 := vcompare pv fv in
     let! c2 := vcompare pv tv in
     Ok (RVal (VBool (xorb neg ((0 <=? c1) && (c2 <=? 0)))))).
  Proof. reflexivity. Qed.

  Lemma eval_EIs : forall current op a, eval E current (EIs op a) =
    (let! l := eval E current a in
     let! lv := value_of current l in
     match op with
     | IsNull => Ok (RVal (VBool (match lv with VNull => true | _ => false end)))
     | IsNotNull => Ok (RVal (VBool (match lv with VNull => false | _ => true end)))
     | IsTrue | IsNotFalse =>
         match lv with VNull => Err | VBool b => Ok (RVal (VBool b)) | _ => Err end
     | IsNotTrue | IsFalse =>
         match lv with VNull => Err | VBool b => Ok (RVal (VBool (negb b))) | _ => Err end
     end).
  Proof. reflexivity. Qed.
End EvalEqs.

(* ================================================================== *)
(* 4. Comparisons                                                       *)
(* ================================================================== *)

Lemma fcmp_range : forall x y, fcmp x y = -1 \/ fcmp x y = 0 \/ fcmp x y = 1.
Proof. intros. unfold fcmp. destruct (PrimFloat.eqb x y); auto. destruct (PrimFloat.ltb y x); auto. Qed.

Lemma kind_of_num : forall v, kind_of v = Some KNum -> exists f, v = VNum f.
Proof. destruct v; try discriminate. eauto. Qed.

Lemma kind_of_str : forall v, kind_of v = Some KStr -> exists s, v = VStr s.
Proof. destruct v; try discriminate. eauto. Qed.

Lemma vcompare_same_kind : forall k x y,
  kind_of x = Some k -> kind_of y = Some k ->
  exists c, three_way x y = Some c /\ vcompare x y = Ok c /\ (c = -1 \/ c = 0 \/ c = 1).
Proof.
  intros [|] x y Hx Hy.
  - apply kind_of_num in Hx as [a ->]. apply kind_of_num in Hy as [b ->].
    exists (fcmp a b). repeat split. apply fcmp_range.
  - apply kind_of_str in Hx as [a ->]. apply kind_of_str in Hy as [b ->].
    exists (str_cmp a b). repeat split. apply str_cmp_range.
Qed.

Lemma cmp_holds_rel : forall op c, (c = -1 \/ c = 0 \/ c = 1) -> cmp_holds op c = rel op c.
Proof. intros op c [->|[->| ->]]; destruct op; reflexivity. Qed.

Lemma xorb_negate_if : forall n b, xorb n b = negate_if n b.
Proof. destruct n, b; reflexivity. Qed.

(* ================================================================== *)
(* 5. Operands                                                          *)
(* ================================================================== *)

Section EvalPred.
  Context {Q : Type}.
  Variable E : env Q.
  Hypothesis Hhard : e_hard E = false.     (* a WHERE clause, not a join's ON (quoted dotted keys) *)

  Lemma has_kind_inv : forall (r : tuple) k (e : expr Q), has_kind r k e = true ->
    exists v, operand r e = Some v /\ kind_of v = Some k.
  Proof.
    intros r k e H. unfold has_kind, operand_kind in H.
    destruct (operand r e) as [v|]; [|discriminate].
    exists v. split; [reflexivity|].
    destruct (kind_of v) as [k'|]; [|discriminate].
    destruct k, k'; try discriminate; reflexivity.
  Qed.

  Lemma operand_kind_inv : forall (r : tuple) k (e : expr Q), operand_kind r e = Some k ->
    exists v, operand r e = Some v /\ kind_of v = Some k.
  Proof.
    intros r k e H. unfold operand_kind in H.
    destruct (operand r e) as [v|]; [|discriminate]. eauto.
  Qed.

  Lemma val_operand : forall (r : tuple) (e : expr Q) v, operand r e = Some v -> val r e = v.
  Proof. intros r e v H. unfold val. rewrite H. reflexivity. Qed.

  (* [cur] reads columns like [r] does: [r] itself, or its scope copy *)
  Definition reads_like (cur r : row) : Prop :=
    forall p, path_ok p = true -> reader p (VObj cur) = reader p (VObj r).

  Lemma reads_like_refl : forall r, reads_like r r.
  Proof. intros r p _. reflexivity. Qed.

  Lemma reads_like_scope : forall r d, reads_like (scope r d) r.
  Proof. intros r d p H. apply reader_scope, H. Qed.

  Lemma operand_eval : forall (r cur : row) (e : expr Q) v,
    reads_like cur r -> operand r e = Some v ->
    exists x, eval E cur e = Ok x /\ value_of cur x = Ok v.
  Proof.
    intros r cur e v Hr H. destruct e; try discriminate; cbn [operand] in H.
    - (* ECol *)
      destruct (path_ok path) eqn:Hp; [|discriminate].
      exists (RCol path). split.
      + cbn. unfold col_path. rewrite Hhard. reflexivity.
      + cbn. rewrite (Hr _ Hp). apply reader_col_at, H.
    - inversion H. exists (RVal (VNum f)). split; reflexivity.
    - inversion H. exists (RNeutral s). split; reflexivity.
    - destruct op; try discriminate. destruct e; try discriminate. inversion H.
      exists (RNumPtr (Some ((-1) * f)%float)). split; reflexivity.
  Qed.

  (* an IN candidate: the evaluated item denotes the operand's value *)
  Lemma operand_candidate : forall (r cur : row) k (e : expr Q) v,
    reads_like cur r -> operand r e = Some v -> kind_of v = Some k ->
    exists y, (let! y0 := eval E cur e in
               match y0 with
               | RCol p => let! w := reader p (VObj cur) in Ok (RVal w)
               | _ => Ok y0
               end) = Ok y /\ in_candidate y = Ok v.
  Proof.
    intros r cur k e v Hr H Hk. destruct e; try discriminate; cbn [operand] in H.
    - destruct (path_ok path) eqn:Hp; [|discriminate].
      exists (RVal v). split.
      + cbn. unfold col_path. rewrite Hhard. rewrite (Hr _ Hp).
        rewrite (reader_col_at _ _ _ H). reflexivity.
      + destruct v; try discriminate; reflexivity.
    - inversion H. exists (RVal (VNum f)). split; reflexivity.
    - inversion H. exists (RNeutral s). split; reflexivity.
    - destruct op; try discriminate. destruct e; try discriminate. inversion H.
      exists (RNumPtr (Some ((-1) * f)%float)). split; reflexivity.
  Qed.

  Lemma in_cands_in_list : forall (r cur : row) k lv (items : list (expr Q)),
    reads_like cur r -> kind_of lv = Some k ->
    forallb (has_kind r k) items = true ->
    (let! cands := in_cands E cur items in in_list lv cands)
    = Ok (existsb (fun c => cmp_sem OpEq lv (val r c)) items).
  Proof.
    intros r cur k lv items Hr Hk. induction items as [|e items IH]; intros H.
    - reflexivity.
    - cbn [forallb] in H. apply andb_true_iff in H as [He Hrest].
      apply has_kind_inv in He as (v & Hop & Hkv).
      destruct (operand_candidate r cur k e v Hr Hop Hkv) as (y & Hy & Hc).
      rewrite in_cands_cons.
      destruct (eval E cur e) as [y0| | |] eqn:Ey; cbn [bind] in Hy; try discriminate.
      cbn [bind]. rewrite Hy. cbn [bind].
      specialize (IH Hrest).
      destruct (in_cands E cur items) as [cs| | |]; cbn [bind] in IH |- *; try discriminate.
      cbn [in_list]. rewrite Hc. cbn [bind].
      destruct (vcompare_same_kind k lv v Hk Hkv) as (c & Htw & Hvc & _).
      rewrite Hvc. cbn [bind existsb].
      rewrite (val_operand _ _ _ Hop). unfold cmp_sem at 1. rewrite Htw. cbn [rel].
      destruct (c =? 0); [reflexivity|]. cbn [orb]. exact IH.
  Qed.

  (* ================================================================ *)
  (* 6. The evaluator computes the specification's truth value          *)
  (* ================================================================ *)

  Lemma bool_operand_of_eval : forall cur (x : expr Q) b,
    eval E cur x = Ok (RVal (VBool b)) -> bool_operand E cur x = Ok b.
  Proof. intros cur x b H. unfold bool_operand. rewrite H. reflexivity. Qed.

  (* comparison of two operands of one kind, read through [cur] *)
  Lemma cmp_step : forall (r cur : row) (a b : expr Q) k A (K : Z -> res A),
    reads_like cur r -> operand_kind r a = Some k -> has_kind r k b = true ->
    exists c, three_way (val r a) (val r b) = Some c /\ (c = -1 \/ c = 0 \/ c = 1) /\
    (let! l := eval E cur a in
     let! lv := value_of cur l in
     let! x := eval E cur b in
     let! rv := value_of cur x in
     let! c := vcompare lv rv in K c) = K c.
  Proof.
    intros r cur a b k A K Hr Ha Hb.
    apply operand_kind_inv in Ha as (va & Hoa & Hka).
    apply has_kind_inv in Hb as (vb & Hob & Hkb).
    destruct (operand_eval r cur a va Hr Hoa) as (xa & Ea & Va).
    destruct (operand_eval r cur b vb Hr Hob) as (xb & Eb & Vb).
    destruct (vcompare_same_kind k va vb Hka Hkb) as (c & Htw & Hvc & Hrange).
    exists c. rewrite (val_operand _ _ _ Hoa), (val_operand _ _ _ Hob).
    split; [exact Htw|]. split; [exact Hrange|].
    rewrite Ea. cbn [bind]. rewrite Va. cbn [bind]. rewrite Eb. cbn [bind]. rewrite Vb. cbn [bind].
    rewrite Hvc. reflexivity.
  Qed.

  Theorem eval_pred : forall (r : row) (p : expr Q),
    in_scope r p = true -> eval E r p = Ok (RVal (VBool (pred_sem r p))).
  Proof.
    intros r p. induction p; intros Hs; cbn [in_scope] in Hs; try discriminate.
    - (* EBool *) reflexivity.
    - (* EAnd *)
      apply andb_true_iff in Hs as [H1 H2]. rewrite eval_EAnd.
      rewrite (bool_operand_of_eval _ _ _ (IHp1 H1)), (bool_operand_of_eval _ _ _ (IHp2 H2)).
      reflexivity.
    - (* EOr *)
      apply andb_true_iff in Hs as [H1 H2]. rewrite eval_EOr.
      rewrite (bool_operand_of_eval _ _ _ (IHp1 H1)), (bool_operand_of_eval _ _ _ (IHp2 H2)).
      reflexivity.
    - (* ENot *)
      rewrite eval_ENot. rewrite (bool_operand_of_eval _ _ _ (IHp Hs)). reflexivity.
    - (* ECmp *)
      destruct (operand_kind r p1) as [k|] eqn:Hk; [|discriminate].
      rewrite eval_ECmp. cbv zeta.
      destruct (cmp_step r (scope r (e_data E)) p1 p2 k raw
                  (fun c => Ok (RVal (VBool (cmp_holds op c))))
                  (reads_like_scope _ _) Hk Hs) as (c & Htw & Hrange & Heq).
      rewrite Heq. cbn [pred_sem]. unfold cmp_sem. rewrite Htw.
      rewrite (cmp_holds_rel _ _ Hrange). reflexivity.
    - (* ELike *)
      apply andb_true_iff in Hs as [H1 H2].
      apply has_kind_inv in H1 as (va & Hoa & Hka). apply has_kind_inv in H2 as (vb & Hob & Hkb).
      apply kind_of_str in Hka as [sa ->]. apply kind_of_str in Hkb as [sb ->].
      rewrite eval_ELike. cbv zeta.
      destruct (operand_eval r _ p1 _ (reads_like_scope r (e_data E)) Hoa) as (xa & Ea & Va).
      destruct (operand_eval r _ p2 _ (reads_like_scope r (e_data E)) Hob) as (xb & Eb & Vb).
      rewrite Ea. cbn [bind]. rewrite Va. cbn [bind]. rewrite Eb. cbn [bind]. rewrite Vb.
      cbn [bind fmt_res fmt_value]. cbn [pred_sem].
      rewrite (val_operand _ _ _ Hoa), (val_operand _ _ _ Hob). cbn [str_of].
      rewrite regex_comparison_like_sem, xorb_negate_if. reflexivity.
    - (* EIn *)
      destruct (operand_kind r p) as [k|] eqn:Hk; [|discriminate].
      apply operand_kind_inv in Hk as (va & Hoa & Hka).
      rewrite eval_EIn. cbv zeta.
      destruct (operand_eval r _ p _ (reads_like_scope r (e_data E)) Hoa) as (xa & Ea & Va).
      rewrite Ea. cbn [bind]. rewrite Va. cbn [bind].
      pose proof (in_cands_in_list r _ k va items (reads_like_scope r (e_data E)) Hka Hs) as Hin.
      destruct (in_cands E (scope r (e_data E)) items) as [cs| | |]; cbn [bind] in Hin |- *;
        try discriminate.
      rewrite Hin. cbn [bind pred_sem]. rewrite (val_operand _ _ _ Hoa), xorb_negate_if. reflexivity.
    - (* EBetween *)
      destruct (operand_kind r p1) as [k|] eqn:Hk; [|discriminate].
      apply andb_true_iff in Hs as [Hlo Hhi].
      apply operand_kind_inv in Hk as (va & Hoa & Hka).
      apply has_kind_inv in Hlo as (vl & Hol & Hkl). apply has_kind_inv in Hhi as (vh & Hoh & Hkh).
      rewrite eval_EBetween.
      destruct (operand_eval r r p1 _ (reads_like_refl r) Hoa) as (xa & Ea & Va).
      destruct (operand_eval r r p2 _ (reads_like_refl r) Hol) as (xl & El & Vl).
      destruct (operand_eval r r p3 _ (reads_like_refl r) Hoh) as (xh & Eh & Vh).
      destruct (vcompare_same_kind k va vl Hka Hkl) as (c1 & Htw1 & Hvc1 & Hr1).
      destruct (vcompare_same_kind k va vh Hka Hkh) as (c2 & Htw2 & Hvc2 & Hr2).
      rewrite Ea. cbn [bind]. rewrite Va. cbn [bind]. rewrite El. cbn [bind]. rewrite Eh. cbn [bind].
      rewrite Vl. cbn [bind]. rewrite Vh. cbn [bind]. rewrite Hvc1. cbn [bind]. rewrite Hvc2.
      cbn [bind pred_sem].
      rewrite (val_operand _ _ _ Hoa), (val_operand _ _ _ Hol), (val_operand _ _ _ Hoh).
      unfold cmp_sem. rewrite Htw1, Htw2. cbn [rel]. rewrite xorb_negate_if. reflexivity.
    - (* EIs *)
      destruct p; try discriminate.
      apply andb_true_iff in Hs as [Hp Hs].
      rewrite eval_EIs.
      assert (Hop : forall v, col_at path (VObj r) = Some v ->
                exists x, eval E r (ECol path) = Ok x /\ value_of r x = Ok v /\
                          val r (ECol (Q:=Q) path) = v).
      { intros v Hv.
        assert (Ho : operand r (ECol (Q:=Q) path) = Some v) by (cbn; rewrite Hp; exact Hv).
        destruct (operand_eval r r _ _ (reads_like_refl r) Ho) as (x & Ex & Vx).
        exists x. repeat split; try assumption. apply val_operand, Ho. }
      destruct (col_at path (VObj r)) as [v|] eqn:Hc.
      2:{ destruct op; discriminate. }
      destruct (Hop v eq_refl) as (x & Ex & Vx & Hval).
      rewrite Ex. cbn [bind]. rewrite Vx. cbn [bind pred_sem]. rewrite Hval.
      destruct op.
      + destruct v; reflexivity.
      + destruct v; reflexivity.
      + destruct v; try discriminate. destruct b; reflexivity.
      + destruct v; try discriminate. destruct b; reflexivity.
      + destruct v; try discriminate. destruct b; reflexivity.
      + destruct v; try discriminate. destruct b; reflexivity.
  Qed.
End EvalPred.

(* ================================================================== *)
(* 7. The row loop                                                      *)
(* ================================================================== *)

Section Filter.
  Variable rec : qctx -> job -> res value.

  Theorem filter_exact : forall ctx (s : select stmt) (E : env stmt) p tbl,
    e_hard E = false -> s_where s = Some p ->
    forallb (elem_in_scope p) tbl = true ->
    filter_rows rec ctx s E tbl = Ok (filter (row_sat p) tbl).
  Proof.
    intros ctx s E p tbl Hh Hw. unfold filter_rows.
    induction tbl as [|v tbl IH]; intros Hs; [reflexivity|].
    cbn [forallb] in Hs. apply andb_true_iff in Hs as [Hv Hs]. specialize (IH Hs).
    destruct v; cbn [elem_in_scope] in Hv; try discriminate;
      cbn [filter row_sat]; try exact IH.
    rewrite Hw in IH |- *. unfold eval_cond at 1. rewrite (eval_pred E Hh _ _ Hv). cbn [bind].
    rewrite IH. cbn [bind]. reflexivity.
  Qed.

  Definition is_obj (v : value) : bool := match v with VObj _ => true | _ => false end.

  Lemma filter_no_where : forall ctx (s : select stmt) (E : env stmt) tbl,
    s_where s = None -> forallb is_obj tbl = true ->
    filter_rows rec ctx s E tbl = Ok tbl.
  Proof.
    intros ctx s E tbl Hw. unfold filter_rows.
    induction tbl as [|v tbl IH]; intros Hs; [reflexivity|].
    cbn [forallb] in Hs. apply andb_true_iff in Hs as [Hv Hs]. specialize (IH Hs).
    destruct v; try discriminate. rewrite Hw in IH |- *. cbn [eval_cond bind] in IH |- *. rewrite IH. reflexivity.
  Qed.

  Lemma row_sat_is_obj : forall (p : expr stmt) tbl, forallb is_obj (filter (row_sat p) tbl) = true.
  Proof.
    intros p tbl. induction tbl as [|v tbl IH]; [reflexivity|].
    cbn [filter]. destruct (row_sat p v) eqn:H; [|exact IH].
    cbn [forallb]. rewrite IH. destruct v; try discriminate. reflexivity.
  Qed.

  (* tables whose elements are all object rows *)
  Lemma rows_in_scope : forall (p : expr stmt) (rows : list row),
    Forall (fun r => in_scope r p = true) rows ->
    forallb (elem_in_scope p) (map VObj rows) = true.
  Proof.
    intros p rows H. induction H as [|r rows Hr _ IH]; [reflexivity|].
    cbn. rewrite Hr. exact IH.
  Qed.

  Lemma filter_map_VObj : forall (p : expr stmt) (rows : list row),
    filter (row_sat p) (map VObj rows) = map VObj (filter (fun r => pred_sem r p) rows).
  Proof.
    intros p rows. induction rows as [|r rows IH]; [reflexivity|].
    cbn. destruct (pred_sem r p); cbn; rewrite IH; reflexivity.
  Qed.

  Theorem filter_exact_rows : forall ctx (s : select stmt) (E : env stmt) p (rows : list row),
    e_hard E = false -> s_where s = Some p ->
    Forall (fun r => in_scope r p = true) rows ->
    filter_rows rec ctx s E (map VObj rows)
    = Ok (map VObj (filter (fun r => pred_sem r p) rows)).
  Proof.
    intros. rewrite <- filter_map_VObj. apply filter_exact; try assumption.
    apply rows_in_scope. assumption.
  Qed.

  (* ---------------------------------------------------------------- *)
  (* partition                                                         *)
  (* ---------------------------------------------------------------- *)

  Lemma filter_partition_perm : forall {A} (f : A -> bool) l,
    Permutation (filter f l ++ filter (fun x => negb (f x)) l) l.
  Proof.
    intros A f l. induction l as [|x l IH]; [constructor|].
    cbn. destruct (f x); cbn.
    - apply perm_skip, IH.
    - apply Permutation_sym, Permutation_cons_app, Permutation_sym, IH.
  Qed.

  Theorem partition : forall ctx (s s' : select stmt) (E : env stmt) p (rows : list row),
    e_hard E = false -> s_where s = Some p -> s_where s' = Some (ENot p) ->
    Forall (fun r => in_scope r p = true) rows ->
    let tbl := map VObj rows in
    exists yes no,
      filter_rows rec ctx s E tbl = Ok yes /\
      filter_rows rec ctx s' E tbl = Ok no /\
      yes = filter (row_sat p) tbl /\
      no = filter (fun v => negb (row_sat p v)) tbl /\
      Permutation (yes ++ no) tbl /\
      (forall v, In v tbl -> (In v yes /\ ~ In v no) \/ (In v no /\ ~ In v yes)).
  Proof.
    intros ctx s s' E p rows Hh Hw Hw' Hs tbl.
    assert (Hno : filter (row_sat (ENot p)) tbl = filter (fun v => negb (row_sat p v)) tbl).
    { subst tbl. clear. induction rows as [|r rows IH]; [reflexivity|].
      cbn. rewrite IH. reflexivity. }
    exists (filter (row_sat p) tbl), (filter (fun v => negb (row_sat p v)) tbl).
    split; [|split; [|split; [|split; [|split]]]].
    - apply filter_exact; try assumption. apply rows_in_scope, Hs.
    - rewrite <- Hno. apply filter_exact; try assumption. apply rows_in_scope.
      eapply Forall_impl; [|exact Hs]. intros r Hr. exact Hr.
    - reflexivity.
    - reflexivity.
    - apply filter_partition_perm.
    - intros v Hin. rewrite !filter_In.
      destruct (row_sat p v) eqn:Hv.
      + left. split; [auto|]. intros [_ H]. discriminate.
      + right. split; [auto|]. intros [_ H]. discriminate.
  Qed.
End Filter.

(* ================================================================== *)
(* 8. Corollaries on single predicates                                  *)
(* ================================================================== *)

Section Corollaries.
  Context {Q : Type}.
  Variable E : env Q.
  Hypothesis Hhard : e_hard E = false.

  Theorem not_in_complement : forall (r : row) (a : expr Q) items,
    in_scope r (EIn false a items) = true ->
    in_scope r (EIn true a items) = true /\
    exists b,
      b = existsb (fun c => cmp_sem OpEq (val r a) (val r c)) items /\
      eval E r (EIn false a items) = Ok (RVal (VBool b)) /\
      eval E r (EIn true a items) = Ok (RVal (VBool (negb b))).
  Proof.
    intros r a items Hs. split; [exact Hs|].
    eexists. split; [reflexivity|]. split.
    - rewrite (eval_pred E Hhard _ _ Hs). reflexivity.
    - rewrite (eval_pred E Hhard r (EIn true a items) Hs). reflexivity.
  Qed.

  Theorem between_is_range : forall (r : row) (x lo hi : expr Q),
    in_scope r (EBetween false x lo hi) = true ->
    in_scope r (EAnd (ECmp OpGe x lo) (ECmp OpLe x hi)) = true /\
    eval E r (EBetween false x lo hi) = eval E r (EAnd (ECmp OpGe x lo) (ECmp OpLe x hi)) /\
    eval E r (EBetween false x lo hi)
      = Ok (RVal (VBool (cmp_sem OpGe (val r x) (val r lo) && cmp_sem OpLe (val r x) (val r hi)))).
  Proof.
    intros r x lo hi Hs.
    assert (Hs' : in_scope r (EAnd (ECmp OpGe x lo) (ECmp OpLe x hi)) = true).
    { cbn [in_scope] in Hs |- *. destruct (operand_kind r x); [|discriminate].
      apply andb_true_iff in Hs as [-> ->]. reflexivity. }
    split; [exact Hs'|].
    rewrite (eval_pred E Hhard _ _ Hs), (eval_pred E Hhard _ _ Hs'). split; reflexivity.
  Qed.

  Theorem not_between_is_outside : forall (r : row) (x lo hi : expr Q),
    in_scope r (EBetween true x lo hi) = true ->
    eval E r (EBetween true x lo hi) = eval E r (ENot (EAnd (ECmp OpGe x lo) (ECmp OpLe x hi))).
  Proof.
    intros r x lo hi Hs.
    assert (Hs' : in_scope r (ENot (EAnd (ECmp OpGe x lo) (ECmp OpLe x hi))) = true).
    { cbn [in_scope] in Hs |- *. destruct (operand_kind r x); [|discriminate].
      apply andb_true_iff in Hs as [-> ->]. reflexivity. }
    rewrite (eval_pred E Hhard _ _ Hs), (eval_pred E Hhard _ _ Hs'). reflexivity.
  Qed.

  (* ---------------------------------------------------------------- *)
  (* IN over a single-column subquery                                  *)
  (* ---------------------------------------------------------------- *)

  Definition vmember (x : value) (v : value) : bool :=
    match vcompare x v with Ok z => z =? 0 | _ => false end.

  Lemma in_list_single_col : forall lv (cols : list (string * value)),
    (forall cv, In cv cols -> exists z, vcompare lv (snd cv) = Ok z) ->
    in_list lv (map RVal (map (fun cv => VObj [cv]) cols))
    = Ok (existsb (fun cv => vmember lv (snd cv)) cols).
  Proof.
    intros lv cols. induction cols as [|[c v] cols IH]; intros H; [reflexivity|].
    cbn [map in_list in_candidate bind existsb snd].
    destruct (H (c, v) (or_introl eq_refl)) as [z Hz]. cbn [snd] in Hz.
    unfold vmember at 1. rewrite Hz. cbn [bind].
    destruct (z =? 0); [reflexivity|]. cbn [orb].
    apply IH. intros cv Hin. apply H. right. exact Hin.
  Qed.

  Theorem in_subquery_vcompare : forall (r : row) neg (a : expr Q) q x (cols : list (string * value)),
    operand r a = Some x ->
    e_sub E q (scope r (e_data E)) = Ok (VArr (map (fun cv => VObj [cv]) cols)) ->
    (forall cv, In cv cols -> exists z, vcompare x (snd cv) = Ok z) ->
    eval E r (EInSub neg a q)
    = Ok (RVal (VBool (negate_if neg (existsb (fun cv => vmember x (snd cv)) cols)))).
  Proof.
    intros r neg a q x cols Hop Hsub Hcmp.
    rewrite eval_EInSub. cbv zeta.
    destruct (operand_eval E Hhard r _ a _ (reads_like_scope r (e_data E)) Hop) as (xa & Ea & Va).
    rewrite Ea. cbn [bind]. rewrite Va. cbn [bind]. rewrite Hsub. cbn [bind].
    rewrite (in_list_single_col _ _ Hcmp). cbn [bind]. rewrite xorb_negate_if. reflexivity.
  Qed.

  Lemma existsb_ext_in : forall {A} (f g : A -> bool) l,
    (forall x, In x l -> f x = g x) -> existsb f l = existsb g l.
  Proof.
    intros A f g l H. induction l as [|x l IH]; [reflexivity|].
    cbn. rewrite (H x (or_introl eq_refl)). rewrite IH; [reflexivity|].
    intros y Hy. apply H. right. exact Hy.
  Qed.

  Theorem in_subquery : forall (r : row) neg (a : expr Q) q k x (cols : list (string * value)),
    operand r a = Some x -> kind_of x = Some k ->
    e_sub E q (scope r (e_data E)) = Ok (VArr (map (fun cv => VObj [cv]) cols)) ->
    Forall (fun cv => kind_of (snd cv) = Some k) cols ->
    eval E r (EInSub neg a q)
    = Ok (RVal (VBool (negate_if neg (existsb (fun cv => cmp_sem OpEq x (snd cv)) cols)))).
  Proof.
    intros r neg a q k x cols Hop Hk Hsub Hcols.
    rewrite Forall_forall in Hcols.
    rewrite (in_subquery_vcompare r neg a q x cols Hop Hsub).
    - do 4 f_equal. apply existsb_ext_in. intros cv Hin.
      destruct (vcompare_same_kind k x (snd cv) Hk (Hcols _ Hin)) as (c & Htw & Hvc & _).
      unfold vmember, cmp_sem. rewrite Hvc, Htw. reflexivity.
    - intros cv Hin.
      destruct (vcompare_same_kind k x (snd cv) Hk (Hcols _ Hin)) as (c & _ & Hvc & _).
      eauto.
  Qed.
  Theorem not_in_subquery_complement : forall (r : row) (a : expr Q) q k x
                                              (cols : list (string * value)),
    operand r a = Some x -> kind_of x = Some k ->
    e_sub E q (scope r (e_data E)) = Ok (VArr (map (fun cv => VObj [cv]) cols)) ->
    Forall (fun cv => kind_of (snd cv) = Some k) cols ->
    exists b,
      eval E r (EInSub false a q) = Ok (RVal (VBool b)) /\
      eval E r (EInSub true a q) = Ok (RVal (VBool (negb b))).
  Proof.
    intros r a q k x cols Hop Hk Hsub Hcols. eexists. split.
    - rewrite (in_subquery r false a q k x cols Hop Hk Hsub Hcols). reflexivity.
    - rewrite (in_subquery r true a q k x cols Hop Hk Hsub Hcols). reflexivity.
  Qed.
End Corollaries.

(* ================================================================== *)
(* 9. Lifting to the whole SELECT stage pipeline                        *)
(* ================================================================== *)

Definition without_where (s : select stmt) : select stmt :=
  {| s_with := s_with s; s_from := s_from s; s_where := None; s_group := s_group s;
     s_having := s_having s; s_items := s_items s; s_distinct := s_distinct s;
     s_order := s_order s; s_limit := s_limit s; s_offset := s_offset s |}.

Section RunSelect.
  Variable rec : qctx -> job -> res value.
  Variable call : string -> string -> list value -> row -> res raw.
  Variable join : jointype -> jstrategy -> list value -> list value -> string -> string ->
                  expr stmt -> row -> res (list value).

  (* SELECT ... WHERE p over [tbl]  =  the same SELECT without WHERE over the rows satisfying p:
     grouping, HAVING, projection, DISTINCT, ORDER BY and LIMIT/OFFSET see exactly those rows *)
  Theorem run_select_where : forall ctx (s : select stmt) p tbl,
    s_where s = Some p ->
    forallb (elem_in_scope p) tbl = true ->
    run_select rec call join ctx s (Some tbl)
    = run_select rec call join ctx (without_where s) (Some (filter (row_sat p) tbl)).
  Proof.
    intros ctx s p tbl Hw Hs. unfold run_select.
    rewrite (filter_exact rec ctx s (mk_env rec call join ctx s []) p tbl eq_refl Hw Hs).
    rewrite (filter_no_where rec ctx (without_where s)
               (mk_env rec call join ctx (without_where s) []) (filter (row_sat p) tbl)
               eq_refl (row_sat_is_obj p tbl)).
    reflexivity.
  Qed.
End RunSelect.

(* ================================================================== *)
(* 10. Reading of the numeric comparisons (no float law needed)         *)
(* ================================================================== *)

Lemma num_cmp_reading : forall a b,
  cmp_sem OpEq (VNum a) (VNum b) = PrimFloat.eqb a b /\
  cmp_sem OpNe (VNum a) (VNum b) = negb (PrimFloat.eqb a b) /\
  cmp_sem OpGt (VNum a) (VNum b) = negb (PrimFloat.eqb a b) && PrimFloat.ltb b a /\
  cmp_sem OpGe (VNum a) (VNum b) = PrimFloat.eqb a b || PrimFloat.ltb b a /\
  cmp_sem OpLt (VNum a) (VNum b) = negb (PrimFloat.eqb a b) && negb (PrimFloat.ltb b a) /\
  cmp_sem OpLe (VNum a) (VNum b) = PrimFloat.eqb a b || negb (PrimFloat.ltb b a).
Proof.
  intros a b. unfold cmp_sem, three_way, fcmp.
  destruct (PrimFloat.eqb a b); destruct (PrimFloat.ltb b a); repeat split; reflexivity.
Qed.

Lemma str_cmp_reading : forall s t,
  cmp_sem OpEq (VStr s) (VStr t) = String.eqb s t /\
  cmp_sem OpLt (VStr s) (VStr t) = match String.compare s t with Lt => true | _ => false end /\
  cmp_sem OpGt (VStr s) (VStr t) = match String.compare s t with Gt => true | _ => false end.
Proof.
  intros s t. unfold cmp_sem, three_way, str_cmp. repeat split.
  - destruct (String.compare s t) eqn:C; cbn.
    + apply string_compare_eq in C. subst. symmetry. apply String.eqb_refl.
    + symmetry. apply String.eqb_neq. intros ->. rewrite string_compare_refl in C. discriminate.
    + symmetry. apply String.eqb_neq. intros ->. rewrite string_compare_refl in C. discriminate.
  - destruct (String.compare s t); reflexivity.
  - destruct (String.compare s t); reflexivity.
Qed.
