(* Proofs/C09Strings.v — lemmas about the byte-string primitives of Model/SelToken.v:
   span / find_all (the regexp scanners), Trim*, Split, and decimal text <-> number. *)
From Coq Require Import ZifyBool ZifyNat ZifyN DecimalString Decimal DecimalN DecimalPos.
From GenqlV Require Import Base.Prelude Base.Fmt Model.SelToken Spec.SelectorSpec.
Local Open Scope string_scope.

(* ---------- character classes ---------- *)

Lemma ident_char_is_word c : ident_char c = is_word c.
Proof. reflexivity. Qed.

Lemma ceq_refl c : ceq c c = true.
Proof. apply Ascii.eqb_refl. Qed.

Lemma ceq_true a b : ceq a b = true -> a = b.
Proof. apply Ascii.eqb_eq. Qed.

(* a byte of class p differs from a byte outside p *)
Lemma class_neq (p : ascii -> bool) c x : p c = true -> p x = false -> ceq c x = false.
Proof.
  intros Hc Hx. destruct (ceq c x) eqn:E; [|reflexivity].
  apply ceq_true in E. subst. congruence.
Qed.

Lemma ceq_sym a b : ceq a b = ceq b a.
Proof. apply Ascii.eqb_sym. Qed.

(* ---------- append ---------- *)

Lemma sapp_assoc a b c : (a ++ b) ++ c = a ++ (b ++ c).
Proof. induction a as [|x a IH]; cbn; [reflexivity|]. now rewrite IH. Qed.

Lemma sapp_nil_r a : a ++ EmptyString = a.
Proof. induction a as [|x a IH]; cbn; [reflexivity|]. now rewrite IH. Qed.

Lemma slength_app a b : String.length (a ++ b) = (String.length a + String.length b)%nat.
Proof. induction a as [|x a IH]; cbn; [reflexivity|]. now rewrite IH. Qed.

Ltac sapp_norm := repeat (first [rewrite !sapp_assoc | progress (cbn [append])]).

(* ---------- all_chars ---------- *)

Lemma all_chars_app p a b : all_chars p (a ++ b) = all_chars p a && all_chars p b.
Proof. induction a as [|c a IH]; cbn; [reflexivity|]. rewrite IH. now rewrite andb_assoc. Qed.

Lemma all_chars_imp (p q : ascii -> bool) s :
  (forall c, p c = true -> q c = true) -> all_chars p s = true -> all_chars q s = true.
Proof.
  intros H. induction s as [|c s IH]; cbn; [reflexivity|].
  intros E. apply andb_true_iff in E as [E1 E2]. rewrite (H _ E1), (IH E2). reflexivity.
Qed.

Definition starts_not (p : ascii -> bool) (s : string) : Prop :=
  match s with EmptyString => True | String c _ => p c = false end.

(* ---------- span ---------- *)

Lemma span_app p w rest :
  all_chars p w = true -> starts_not p rest -> span p (w ++ rest) = (w, rest).
Proof.
  intros Hw Hr. induction w as [|c w IH]; cbn [append span].
  - destruct rest as [|c r]; [reflexivity|]. cbn in Hr. cbn [span]. now rewrite Hr.
  - cbn in Hw. apply andb_true_iff in Hw as [Hc Hw]. rewrite Hc, (IH Hw). reflexivity.
Qed.

Lemma span_none p s : starts_not p s -> span p s = (EmptyString, s).
Proof. intros H. apply (span_app p EmptyString s eq_refl H). Qed.

(* ---------- find_all ---------- *)

Lemma find_all_skip m p rest :
  find_all m (p ++ rest) (String.length p) = find_all m rest 0.
Proof. induction p as [|c p IH]; cbn [append String.length]; [reflexivity|]. cbn [find_all]. exact IH. Qed.

Lemma find_all_match m c t rest :
  m (String c (t ++ rest)) = Some (String c t) ->
  find_all m (String c t ++ rest) 0 = String c t :: find_all m rest 0.
Proof.
  intros H. cbn [append find_all]. rewrite H. f_equal. apply find_all_skip.
Qed.

Lemma find_all_nomatch m c r :
  m (String c r) = None -> find_all m (String c r) 0 = find_all m r 0.
Proof. intros H. cbn [find_all]. now rewrite H. Qed.

(* ---------- Trim ---------- *)

Lemma trim_left_lacks c s : lacks c s = true -> trim_left c s = s.
Proof.
  destruct s as [|a r]; [reflexivity|]. unfold lacks. cbn. intros H.
  apply andb_true_iff in H as [H _]. apply negb_true_iff in H. unfold ceq. now rewrite H.
Qed.

Lemma trim_left_head c a r : ceq a c = false -> trim_left c (String a r) = String a r.
Proof. intros H. cbn. now rewrite H. Qed.

(* trim_right only looks at the end *)
Lemma trim_right_last c s a : ceq a c = false -> trim_right c (s ++ String a EmptyString) = s ++ String a EmptyString.
Proof.
  intros H. induction s as [|b s IH]; cbn [append trim_right].
  - now rewrite H.
  - rewrite IH. destruct (s ++ String a EmptyString) eqn:E; [destruct s; discriminate|reflexivity].
Qed.

Lemma trim_right_app c s : lacks c s = true -> trim_right c (s ++ String c EmptyString) = s.
Proof.
  unfold lacks. induction s as [|b s IH]; cbn [append trim_right all_chars].
  - intros _. now rewrite ceq_refl.
  - intros H. apply andb_true_iff in H as [Hb Hs]. rewrite (IH Hs).
    apply negb_true_iff in Hb. unfold ceq. destruct s; [now rewrite Hb|reflexivity].
Qed.

Lemma trim_right_lacks c s : lacks c s = true -> trim_right c s = s.
Proof.
  unfold lacks. induction s as [|b s IH]; cbn [trim_right all_chars]; [reflexivity|].
  intros H. apply andb_true_iff in H as [Hb Hs]. rewrite (IH Hs).
  apply negb_true_iff in Hb. unfold ceq. destruct s; [now rewrite Hb|reflexivity].
Qed.

Lemma trim_pair cl cr k :
  ceq cr cl = false -> lacks cl k = true -> lacks cr k = true ->
  trim_right cr (trim_left cl (String cl (k ++ String cr EmptyString))) = k.
Proof.
  intros Hd Hl Hr. cbn [trim_left]. rewrite ceq_refl.
  rewrite trim_left_lacks.
  - now apply trim_right_app.
  - unfold lacks, ceq in *. rewrite all_chars_app, Hl. cbn. now rewrite Hd.
Qed.

Lemma trim_char_noop c a s z :
  ceq a c = false -> ceq z c = false ->
  trim_char c (String a (s ++ String z EmptyString)) = String a (s ++ String z EmptyString).
Proof.
  intros Ha Hz. unfold trim_char. rewrite trim_left_head by exact Ha.
  change (String a (s ++ String z EmptyString)) with (String a s ++ String z EmptyString).
  now apply trim_right_last.
Qed.

(* 'k' with k free of quotes is trimmed back to k; same for any delimiter c *)
Lemma trim_both c k :
  lacks c k = true -> trim_right c (trim_left c (String c (k ++ String c EmptyString))) = k.
Proof.
  intros H. cbn [trim_left]. rewrite ceq_refl.
  destruct k as [|a k].
  - cbn. now rewrite ceq_refl.
  - cbn [append]. pose proof H as H'. unfold lacks in H. cbn in H. apply andb_true_iff in H as [Ha _].
    apply negb_true_iff in Ha. rewrite trim_left_head by exact Ha.
    change (String a (k ++ String c EmptyString)) with (String a k ++ String c EmptyString).
    now apply trim_right_app.
Qed.

(* ---------- Split on one byte ---------- *)

Lemma split_char_lacks c s : lacks c s = true -> split_char c s = [s].
Proof.
  unfold lacks. induction s as [|a s IH]; cbn [split_char all_chars]; [reflexivity|].
  intros H. apply andb_true_iff in H as [Ha Hs]. apply negb_true_iff in Ha.
  unfold ceq. rewrite Ha, (IH Hs). reflexivity.
Qed.

Lemma split_char_app c s t :
  lacks c s = true -> split_char c (s ++ String c t) = s :: split_char c t.
Proof.
  unfold lacks. induction s as [|a s IH]; cbn [append split_char all_chars].
  - intros _. now rewrite ceq_refl.
  - intros H. apply andb_true_iff in H as [Ha Hs]. apply negb_true_iff in Ha.
    unfold ceq. rewrite Ha, (IH Hs). reflexivity.
Qed.

(* ---------- decimal text ---------- *)

Fixpoint uint_val (d : Decimal.uint) (acc : N) : N :=
  match d with
  | Nil => acc
  | D0 l => uint_val l (10 * acc)
  | D1 l => uint_val l (10 * acc + 1)
  | D2 l => uint_val l (10 * acc + 2)
  | D3 l => uint_val l (10 * acc + 3)
  | D4 l => uint_val l (10 * acc + 4)
  | D5 l => uint_val l (10 * acc + 5)
  | D6 l => uint_val l (10 * acc + 6)
  | D7 l => uint_val l (10 * acc + 7)
  | D8 l => uint_val l (10 * acc + 8)
  | D9 l => uint_val l (10 * acc + 9)
  end%N.

Lemma digits_val_uint d : forall acc, digits_val (NilEmpty.string_of_uint d) acc = Some (uint_val d acc).
Proof.
  induction d; intros acc; cbn [NilEmpty.string_of_uint digits_val uint_val]; try reflexivity;
    (replace (is_digit _) with true by reflexivity); cbn [nat_of_ascii]; rewrite IHd; do 2 f_equal; cbn; lia.
Qed.

Lemma uint_val_pos d : forall p, uint_val d (Npos p) = Npos (Pos.of_uint_acc d p).
Proof.
  induction d; intros p; cbn [uint_val Pos.of_uint_acc]; try reflexivity;
    rewrite <- IHd; f_equal; lia.
Qed.

Lemma uint_val_0 d : uint_val d 0 = Pos.of_uint d.
Proof.
  induction d; cbn; try reflexivity; try exact IHd; apply uint_val_pos.
Qed.

Lemma nilzero_digits d : digits_val (NilZero.string_of_uint d) 0%N = Some (uint_val d 0%N).
Proof.
  destruct d; try apply digits_val_uint. reflexivity.
Qed.

Lemma digits_val_dec n : digits_val (N_to_dec n) 0%N = Some n.
Proof.
  unfold N_to_dec. rewrite nilzero_digits, uint_val_0. f_equal.
  change (Pos.of_uint (N.to_uint n)) with (N.of_uint (N.to_uint n)).
  apply DecimalN.Unsigned.of_to.
Qed.

Lemma string_of_uint_digits d : all_chars is_digit (NilEmpty.string_of_uint d) = true.
Proof. induction d; cbn; auto. Qed.

Lemma N_to_dec_digits n : all_chars is_digit (N_to_dec n) = true.
Proof.
  unfold N_to_dec. destruct (N.to_uint n); try apply string_of_uint_digits. reflexivity.
Qed.

Lemma N_to_dec_head n : exists c r, N_to_dec n = String c r /\ is_digit c = true.
Proof.
  pose proof (N_to_dec_digits n) as H.
  unfold N_to_dec in *. destruct (N.to_uint n); cbn in *;
    eexists; eexists; (split; [reflexivity|]); try reflexivity.
Qed.

Lemma is_digit_word c : is_digit c = true -> is_word c = true.
Proof. unfold is_digit, is_word. intros H. rewrite H. reflexivity. Qed.

(* ---------- "::" ---------- *)

Fixpoint ends_colon (s : string) : bool :=
  match s with
  | EmptyString => false
  | String c EmptyString => Ascii.eqb c ":"
  | String _ r => ends_colon r
  end.

Definition is_nil (s : string) : bool := match s with EmptyString => true | _ => false end.

Lemma starts_colon_app a b : starts_colon (a ++ b) = if is_nil a then starts_colon b else starts_colon a.
Proof. destruct a; reflexivity. Qed.

Lemma ends_colon_app a b : ends_colon (a ++ b) = if is_nil b then ends_colon a else ends_colon b.
Proof.
  induction a as [|c a IH]; cbn [append]; [destruct b; reflexivity|].
  destruct b as [|d b]; [rewrite sapp_nil_r; reflexivity|].
  cbn [is_nil] in *. cbn [ends_colon]. rewrite IH.
  destruct (a ++ String d b) eqn:E; [destruct a; discriminate|reflexivity].
Qed.

Lemma has_dcolon_app a b :
  has_dcolon (a ++ b) = has_dcolon a || has_dcolon b || (ends_colon a && starts_colon b).
Proof.
  induction a as [|c a IH]; cbn [append has_dcolon ends_colon].
  - cbn. now rewrite orb_false_r.
  - rewrite IH. rewrite starts_colon_app. destruct a as [|d a].
    + cbn [is_nil has_dcolon starts_colon ends_colon append].
      destruct (Ascii.eqb c ":"), (has_dcolon b), (starts_colon b); reflexivity.
    + cbn [is_nil]. cbn [ends_colon].
      destruct (Ascii.eqb c ":"), (starts_colon (String d a)), (has_dcolon (String d a)), (has_dcolon b),
               (ends_colon (String d a)), (starts_colon b); reflexivity.
Qed.

(* a text that can stand between two "::" separators *)
Definition dc_safe (s : string) : Prop :=
  has_dcolon s = false /\ starts_colon s = false /\ ends_colon s = false.

Lemma dc_safe_app a b : dc_safe a -> dc_safe b -> dc_safe (a ++ b).
Proof.
  intros (A1 & A2 & A3) (B1 & B2 & B3). unfold dc_safe.
  rewrite has_dcolon_app, starts_colon_app, ends_colon_app, A1, A2, A3, B1, B2, B3.
  destruct (is_nil a), (is_nil b); auto.
Qed.

Lemma dc_safe_nil : dc_safe EmptyString.
Proof. repeat split. Qed.

Lemma lacks_colon_safe s : lacks ":" s = true -> dc_safe s.
Proof.
  unfold lacks. induction s as [|c s IH]; [intros; apply dc_safe_nil|].
  cbn [all_chars]. intros H. apply andb_true_iff in H as [Hc Hs]. apply negb_true_iff in Hc.
  destruct (IH Hs) as (I1 & I2 & I3). unfold dc_safe. cbn [has_dcolon starts_colon ends_colon].
  rewrite Hc, I1. cbn. destruct s; auto.
Qed.

Lemma split_dc_aux_safe s t :
  has_dcolon s = false -> ends_colon s = false ->
  split_dc_aux (s ++ String ":" (String ":" t)) false = s :: split_dc_aux t false.
Proof.
  induction s as [|a s IH]; intros H1 H2.
  - reflexivity.
  - cbn [append split_dc_aux].
    cbn [has_dcolon] in H1. apply orb_false_iff in H1 as [H1 H1'].
    assert (E : ceq a c_col && match s ++ String ":" (String ":" t) with
                              | String b _ => ceq b c_col | EmptyString => false end = false).
    { destruct s as [|d s]; cbn [append].
      - cbn [ends_colon] in H2. unfold ceq, c_col. now rewrite H2.
      - cbn [starts_colon] in H1. exact H1. }
    rewrite E. rewrite IH; [reflexivity|exact H1'|].
    destruct s; [reflexivity|exact H2].
Qed.

Lemma split_dc_aux_none s : has_dcolon s = false -> split_dc_aux s false = [s].
Proof.
  induction s as [|a s IH]; intros H; [reflexivity|].
  cbn [split_dc_aux]. cbn [has_dcolon] in H. apply orb_false_iff in H as [H H'].
  assert (E : ceq a c_col && match s with String b _ => ceq b c_col | EmptyString => false end = false).
  { destruct s; [now rewrite andb_false_r|exact H]. }
  rewrite E, (IH H'). reflexivity.
Qed.

Lemma split_dc_join (l : list string) :
  l <> [] -> Forall dc_safe l -> split_dc (join "::" l) = l.
Proof.
  unfold split_dc. induction l as [|x l IH]; [congruence|]. intros _ F.
  inversion F as [|? ? (X1 & X2 & X3) Fl]; subst.
  destruct l as [|y l].
  - cbn [join]. now apply split_dc_aux_none.
  - change (join "::" (x :: y :: l)) with (x ++ String ":" (String ":" (join "::" (y :: l)))).
    rewrite split_dc_aux_safe by assumption. rewrite IH; [reflexivity|discriminate|exact Fl].
Qed.

(* ---------- "=>" ---------- *)

Lemma split_arrow_app f body :
  lacks "=" f = true -> split_arrow (f ++ String "=" (String ">" body)) = Some (f, body).
Proof.
  unfold lacks. induction f as [|a f IH]; intros H.
  - reflexivity.
  - cbn [all_chars] in H. apply andb_true_iff in H as [Ha Hf]. apply negb_true_iff in Ha.
    cbn [append split_arrow]. unfold ceq. rewrite Ha. cbn [andb]. rewrite (IH Hf). reflexivity.
Qed.

(* the repaired ParseSelector ignores an "=>" that comes after an opening bracket, brace or quote *)
Definition arrow_guard (s : string) : Prop :=
  match split_arrow s with Some (p, _) => contains_open p = true | None => True end.

Lemma arrow_guard_nil : arrow_guard EmptyString.
Proof. exact I. Qed.

Lemma arrow_guard_cons c r : ceq c "="%char = false -> arrow_guard r -> arrow_guard (String c r).
Proof.
  intros Hc Hr. unfold arrow_guard in *. cbn [split_arrow]. rewrite Hc. cbn [andb].
  destruct (split_arrow r) as [[p q]|]; [|exact I].
  cbn [contains_open]. rewrite Hr. now rewrite !orb_true_r.
Qed.

Lemma arrow_guard_open c r :
  ceq c c_lbra || ceq c c_lcur || ceq c c_sq = true -> arrow_guard (String c r).
Proof.
  intros Hc. unfold arrow_guard. cbn [split_arrow].
  assert (E : ceq c "="%char = false).
  { apply orb_true_iff in Hc as [Hc|Hc]; [apply orb_true_iff in Hc as [Hc|Hc]|];
      apply ceq_true in Hc; subst; reflexivity. }
  rewrite E. cbn [andb]. destruct (split_arrow r) as [[p q]|]; [|exact I].
  cbn [contains_open]. rewrite Hc. reflexivity.
Qed.

Lemma arrow_guard_app w r : lacks "=" w = true -> arrow_guard r -> arrow_guard (w ++ r).
Proof.
  unfold lacks. induction w as [|c w IH]; intros H Hr; [exact Hr|].
  cbn [all_chars] in H. apply andb_true_iff in H as [Hc Hw]. apply negb_true_iff in Hc.
  cbn [append]. apply arrow_guard_cons; [exact Hc|now apply IH].
Qed.
