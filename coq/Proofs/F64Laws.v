(* Proofs/F64Laws.v — the order laws of float64 comparison, proved once for all properties.

   Go compares two float64 with  a == v -> 0; a > v -> 1; else -1  ([fcmp], Base/Value.v, on Coq's
   primitive binary64 floats).  The property theorems take the order facts about [fcmp], [=?] and
   [<?] that they need as named premises ([NumLaws] in Spec/SortSpec.v, [FloatEqLaws] and
   [FloatLtLaws] in Spec/GroupSpec.v, [FeqLaws] in Proofs/C06Lemmas.v).  Here they are theorems.

   Route (no real numbers, no Flocq): the standard library specifies the primitive comparisons by
   [FloatAxioms.eqb_spec] / [ltb_spec]: "[x =? y] is [SFeqb] and [x <? y] is [SFltb] of the decoded
   operands", where [SFeqb]/[SFltb] are read off [SFcompare : spec_float -> spec_float -> option
   comparison], a plain Gallina function.  We show that on non-NaN operands [SFcompare] IS the
   comparison of a lexicographic key in Z*Z*Z (class, exponent, mantissa — mirrored for negative
   numbers); every law then is a law of the lexicographic order on integer triples ([lia]).
   The only assumptions are those two stdlib axioms (plus the primitive types/operations themselves). *)
From Coq Require Import Floats ZArith Lia Bool.
From GenqlV Require Import Base.Prelude Base.Value.
From GenqlV Require Spec.SortSpec Spec.GroupSpec Proofs.C06Lemmas.
Local Open Scope Z_scope.

(* ------------------------------------------------------------------ *)
(* 1. the key of a decoded double                                       *)
(* ------------------------------------------------------------------ *)

Definition key := (Z * Z * Z)%type.

Definition sf_nan (x : spec_float) : bool := match x with S754_nan => true | _ => false end.

(* class (-inf < negative < zero < positive < +inf), then exponent, then mantissa; the two zeros
   share a key; the key of NaN is never used *)
Definition sf_key (x : spec_float) : key :=
  match x with
  | S754_nan => (0, 0, 0)
  | S754_zero _ => (0, 0, 0)
  | S754_infinity true => (-2, 0, 0)
  | S754_infinity false => (2, 0, 0)
  | S754_finite true m e => (-1, - e, Zneg m)
  | S754_finite false m e => (1, e, Zpos m)
  end.

Definition key_cmp (a b : key) : comparison :=
  let '(c1, e1, m1) := a in
  let '(c2, e2, m2) := b in
  match c1 ?= c2 with
  | Eq => match e1 ?= e2 with Eq => m1 ?= m2 | c => c end
  | c => c
  end.

Definition key_lt (a b : key) : Prop :=
  let '(c1, e1, m1) := a in
  let '(c2, e2, m2) := b in
  c1 < c2 \/ (c1 = c2 /\ (e1 < e2 \/ (e1 = e2 /\ m1 < m2))).

Lemma key_cmp_spec a b : CompareSpec (a = b) (key_lt a b) (key_lt b a) (key_cmp a b).
Proof.
  destruct a as [[c1 e1] m1], b as [[c2 e2] m2]. unfold key_cmp, key_lt.
  destruct (Z.compare_spec c1 c2); [|constructor; lia|constructor; lia].
  destruct (Z.compare_spec e1 e2); [|constructor; lia|constructor; lia].
  destruct (Z.compare_spec m1 m2); constructor; try lia. congruence.
Qed.

Lemma key_lt_irrefl a : ~ key_lt a a.
Proof. destruct a as [[c e] m]. unfold key_lt. lia. Qed.

Lemma key_lt_trans a b c : key_lt a b -> key_lt b c -> key_lt a c.
Proof. destruct a as [[? ?] ?], b as [[? ?] ?], c as [[? ?] ?]. unfold key_lt. lia. Qed.

Lemma key_lt_asym a b : key_lt a b -> ~ key_lt b a.
Proof. destruct a as [[? ?] ?], b as [[? ?] ?]. unfold key_lt. lia. Qed.

Lemma key_cmp_refl a : key_cmp a a = Eq.
Proof. destruct (key_cmp_spec a a) as [_|H|H]; [reflexivity| |]; destruct (key_lt_irrefl _ H). Qed.

Lemma key_cmp_antisym a b : key_cmp b a = CompOpp (key_cmp a b).
Proof.
  destruct (key_cmp_spec a b) as [E|H|H], (key_cmp_spec b a) as [E'|H'|H']; try reflexivity;
    try (subst; exfalso; eapply key_lt_irrefl; eassumption);
    exfalso; eapply key_lt_asym; eassumption.
Qed.

(* SFcompare on non-NaN operands is the comparison of the keys *)
Lemma SFcompare_key a b :
  sf_nan a = false -> sf_nan b = false -> SFcompare a b = Some (key_cmp (sf_key a) (sf_key b)).
Proof.
  destruct a as [sa|sa| |sa ma ea], b as [sb|sb| |sb mb eb]; intros Ha Hb; try discriminate;
    try destruct sa; try destruct sb; try reflexivity.
  (* left: both negative (both positive is the same term up to computation) *)
  - cbn [SFcompare sf_key key_cmp]. change (-1 ?= -1) with Eq. cbv iota.
    rewrite Z.compare_opp, (Z.compare_antisym ea eb).
    change (Pos.compare_cont Eq ma mb) with (Pos.compare ma mb).
    change (Z.neg ma ?= Z.neg mb) with (CompOpp (Pos.compare ma mb)).
    destruct (ea ?= eb); reflexivity.
Qed.

Lemma SFcompare_nan_l a b : sf_nan a = true -> SFcompare a b = None.
Proof. destruct a; try discriminate. reflexivity. Qed.

Lemma SFcompare_nan_r a b : sf_nan b = true -> SFcompare a b = None.
Proof. destruct b; try discriminate. destruct a; reflexivity. Qed.

(* ------------------------------------------------------------------ *)
(* 2. the primitive comparisons through the key                         *)
(* ------------------------------------------------------------------ *)

Definition nonnan (x : float) : Prop := PrimFloat.is_nan x = false.
Definition fkey (x : float) : key := sf_key (Prim2SF x).

Lemma nonnan_decoded x : nonnan x <-> sf_nan (Prim2SF x) = false.
Proof.
  unfold nonnan, PrimFloat.is_nan. rewrite FloatAxioms.eqb_spec. unfold SFeqb.
  destruct (sf_nan (Prim2SF x)) eqn:N.
  - rewrite (SFcompare_nan_l _ _ N). cbn. split; discriminate.
  - rewrite (SFcompare_key _ _ N N), key_cmp_refl. cbn. tauto.
Qed.

Lemma eqb_key x y : nonnan x -> nonnan y ->
  PrimFloat.eqb x y = match key_cmp (fkey x) (fkey y) with Eq => true | _ => false end.
Proof.
  intros Hx Hy. apply nonnan_decoded in Hx, Hy.
  rewrite FloatAxioms.eqb_spec. unfold SFeqb. rewrite (SFcompare_key _ _ Hx Hy). reflexivity.
Qed.

Lemma ltb_key x y : nonnan x -> nonnan y ->
  PrimFloat.ltb x y = match key_cmp (fkey x) (fkey y) with Lt => true | _ => false end.
Proof.
  intros Hx Hy. apply nonnan_decoded in Hx, Hy.
  rewrite FloatAxioms.ltb_spec. unfold SFltb. rewrite (SFcompare_key _ _ Hx Hy). reflexivity.
Qed.

(* a comparison with NaN on either side is false *)
Lemma eqb_true_nonnan x y : PrimFloat.eqb x y = true -> nonnan x /\ nonnan y.
Proof.
  rewrite FloatAxioms.eqb_spec, !nonnan_decoded. unfold SFeqb. intros H.
  destruct (sf_nan (Prim2SF x)) eqn:Nx; [rewrite (SFcompare_nan_l _ _ Nx) in H; discriminate|].
  destruct (sf_nan (Prim2SF y)) eqn:Ny; [rewrite (SFcompare_nan_r _ _ Ny) in H; discriminate|].
  auto.
Qed.

Lemma ltb_true_nonnan x y : PrimFloat.ltb x y = true -> nonnan x /\ nonnan y.
Proof.
  rewrite FloatAxioms.ltb_spec, !nonnan_decoded. unfold SFltb. intros H.
  destruct (sf_nan (Prim2SF x)) eqn:Nx; [rewrite (SFcompare_nan_l _ _ Nx) in H; discriminate|].
  destruct (sf_nan (Prim2SF y)) eqn:Ny; [rewrite (SFcompare_nan_r _ _ Ny) in H; discriminate|].
  auto.
Qed.

Lemma eqb_true_iff x y :
  PrimFloat.eqb x y = true <-> nonnan x /\ nonnan y /\ fkey x = fkey y.
Proof.
  split.
  - intros H. destruct (eqb_true_nonnan _ _ H) as [Hx Hy]. repeat (split; [assumption|]).
    rewrite (eqb_key _ _ Hx Hy) in H.
    destruct (key_cmp_spec (fkey x) (fkey y)); [assumption|discriminate|discriminate].
  - intros (Hx & Hy & E). rewrite (eqb_key _ _ Hx Hy), E, key_cmp_refl. reflexivity.
Qed.

Lemma ltb_true_iff x y :
  PrimFloat.ltb x y = true <-> nonnan x /\ nonnan y /\ key_lt (fkey x) (fkey y).
Proof.
  split.
  - intros H. destruct (ltb_true_nonnan _ _ H) as [Hx Hy]. repeat (split; [assumption|]).
    rewrite (ltb_key _ _ Hx Hy) in H.
    destruct (key_cmp_spec (fkey x) (fkey y)); [discriminate|assumption|discriminate].
  - intros (Hx & Hy & L). rewrite (ltb_key _ _ Hx Hy).
    destruct (key_cmp_spec (fkey x) (fkey y)) as [E|_|G]; [|reflexivity|].
    + rewrite E in L. destruct (key_lt_irrefl _ L).
    + destruct (key_lt_asym _ _ L G).
Qed.

(* the three-way comparison of Go is the three-way comparison of the keys: an order embedding of
   the non-NaN doubles (with -0 and +0 identified) into Z*Z*Z under the lexicographic order *)
Definition cmp_Z (c : comparison) : Z := match c with Eq => 0 | Lt => -1 | Gt => 1 end.

Theorem fcmp_key x y : nonnan x -> nonnan y -> fcmp x y = cmp_Z (key_cmp (fkey x) (fkey y)).
Proof.
  intros Hx Hy. unfold fcmp.
  rewrite (eqb_key _ _ Hx Hy), (ltb_key _ _ Hy Hx), (key_cmp_antisym (fkey x) (fkey y)).
  destruct (key_cmp (fkey x) (fkey y)); reflexivity.
Qed.

Theorem fcmp_spec x y : nonnan x -> nonnan y ->
  (fcmp x y = 0 /\ fkey x = fkey y) \/
  (fcmp x y = -1 /\ key_lt (fkey x) (fkey y)) \/
  (fcmp x y = 1 /\ key_lt (fkey y) (fkey x)).
Proof.
  intros Hx Hy. rewrite (fcmp_key _ _ Hx Hy).
  destruct (key_cmp_spec (fkey x) (fkey y)); cbn [cmp_Z]; auto.
Qed.

(* ------------------------------------------------------------------ *)
(* 3. laws of fcmp on non-NaN doubles                                   *)
(* ------------------------------------------------------------------ *)

(* for all doubles, NaN included *)
Theorem fcmp_range x y : fcmp x y = -1 \/ fcmp x y = 0 \/ fcmp x y = 1.
Proof. unfold fcmp. destruct (PrimFloat.eqb x y), (PrimFloat.ltb y x); auto. Qed.

Ltac key3 :=
  repeat match goal with
         | H : fkey _ = fkey _ |- _ => rewrite H in *; clear H
         end;
  repeat match goal with
         | H : key_lt ?a ?a |- _ => destruct (key_lt_irrefl _ H)
         | H : key_lt ?a ?b, H' : key_lt ?b ?a |- _ => destruct (key_lt_asym _ _ H H')
         end.

Theorem fcmp_refl x : nonnan x -> fcmp x x = 0.
Proof. intros Hx. rewrite (fcmp_key _ _ Hx Hx), key_cmp_refl. reflexivity. Qed.

Theorem fcmp_antisym x y : nonnan x -> nonnan y -> fcmp x y = - fcmp y x.
Proof.
  intros Hx Hy. rewrite (fcmp_key _ _ Hx Hy), (fcmp_key _ _ Hy Hx), (key_cmp_antisym (fkey y) (fkey x)).
  destruct (key_cmp (fkey y) (fkey x)); reflexivity.
Qed.

(* all transitivity facts at once: the sign pattern of three pairwise comparisons *)
Lemma fcmp3 x y z : nonnan x -> nonnan y -> nonnan z ->
  (fcmp x y <= 0 -> fcmp y z <= 0 -> fcmp x z <= 0) /\
  (fcmp x y < 0 -> fcmp y z <= 0 -> fcmp x z < 0) /\
  (fcmp x y <= 0 -> fcmp y z < 0 -> fcmp x z < 0) /\
  (fcmp x y = 0 -> fcmp x z = fcmp y z) /\
  (fcmp y z = 0 -> fcmp x y = fcmp x z).
Proof.
  intros Hx Hy Hz.
  destruct (fcmp_spec x y Hx Hy) as [[E1 K1]|[[E1 K1]|[E1 K1]]];
  destruct (fcmp_spec y z Hy Hz) as [[E2 K2]|[[E2 K2]|[E2 K2]]];
  destruct (fcmp_spec x z Hx Hz) as [[E3 K3]|[[E3 K3]|[E3 K3]]];
  rewrite E1, E2, E3; repeat split; intros; try lia; exfalso; key3;
  try (pose proof (key_lt_trans _ _ _ K1 K2); key3);
  try (pose proof (key_lt_trans _ _ _ K2 K3); key3);
  try (pose proof (key_lt_trans _ _ _ K3 K1); key3);
  try (pose proof (key_lt_trans _ _ _ K1 K3); key3);
  try (pose proof (key_lt_trans _ _ _ K3 K2); key3);
  try (pose proof (key_lt_trans _ _ _ K2 K1); key3).
Qed.

Theorem fcmp_le_trans x y z : nonnan x -> nonnan y -> nonnan z ->
  fcmp x y <= 0 -> fcmp y z <= 0 -> fcmp x z <= 0.
Proof. intros Hx Hy Hz. apply (fcmp3 x y z Hx Hy Hz). Qed.

Theorem fcmp_lt_trans x y z : nonnan x -> nonnan y -> nonnan z ->
  fcmp x y < 0 -> fcmp y z < 0 -> fcmp x z < 0.
Proof. intros Hx Hy Hz H1 H2. apply (fcmp3 x y z Hx Hy Hz); lia. Qed.

Theorem fcmp_lt_le_trans x y z : nonnan x -> nonnan y -> nonnan z ->
  fcmp x y < 0 -> fcmp y z <= 0 -> fcmp x z < 0.
Proof. intros Hx Hy Hz. apply (fcmp3 x y z Hx Hy Hz). Qed.

Theorem fcmp_le_lt_trans x y z : nonnan x -> nonnan y -> nonnan z ->
  fcmp x y <= 0 -> fcmp y z < 0 -> fcmp x z < 0.
Proof. intros Hx Hy Hz. apply (fcmp3 x y z Hx Hy Hz). Qed.

Theorem fcmp_eq_trans x y z : nonnan x -> nonnan y -> nonnan z ->
  fcmp x y = 0 -> fcmp y z = 0 -> fcmp x z = 0.
Proof.
  intros Hx Hy Hz H1 H2. destruct (fcmp3 x y z Hx Hy Hz) as (_ & _ & _ & H & _).
  rewrite (H H1). exact H2.
Qed.

(* equal doubles are interchangeable in every comparison *)
Theorem fcmp_eq_compat_l x y z : nonnan x -> nonnan y -> nonnan z ->
  fcmp x y = 0 -> fcmp x z = fcmp y z.
Proof. intros Hx Hy Hz. apply (fcmp3 x y z Hx Hy Hz). Qed.

Theorem fcmp_eq_compat_r x y z : nonnan x -> nonnan y -> nonnan z ->
  fcmp y z = 0 -> fcmp x y = fcmp x z.
Proof. intros Hx Hy Hz. apply (fcmp3 x y z Hx Hy Hz). Qed.

Theorem fcmp_total x y : nonnan x -> nonnan y -> fcmp x y <= 0 \/ fcmp y x <= 0.
Proof. intros Hx Hy. rewrite (fcmp_antisym y x Hy Hx). destruct (fcmp_range x y) as [H|[H|H]]; lia. Qed.

(* exactly one of  x < y,  x == y,  x > y *)
Theorem fcmp_trichotomy x y : nonnan x -> nonnan y ->
  (fcmp x y = -1 /\ fcmp y x = 1) \/ (fcmp x y = 0 /\ fcmp y x = 0) \/ (fcmp x y = 1 /\ fcmp y x = -1).
Proof. intros Hx Hy. rewrite (fcmp_antisym y x Hy Hx). destruct (fcmp_range x y) as [H|[H|H]]; lia. Qed.

(* what the three results mean in terms of the primitive comparisons *)
Theorem fcmp_eq_iff x y : fcmp x y = 0 <-> PrimFloat.eqb x y = true.
Proof. unfold fcmp. destruct (PrimFloat.eqb x y), (PrimFloat.ltb y x); split; (reflexivity || discriminate). Qed.

Theorem fcmp_gt_iff x y : fcmp x y = 1 <-> PrimFloat.ltb y x = true.
Proof.
  unfold fcmp. destruct (PrimFloat.eqb x y) eqn:E, (PrimFloat.ltb y x) eqn:L;
    split; try reflexivity; try discriminate.
  exfalso. apply eqb_true_iff in E. apply ltb_true_iff in L.
  destruct E as (_ & _ & E), L as (_ & _ & L). rewrite E in L. destruct (key_lt_irrefl _ L).
Qed.

Theorem fcmp_lt_iff x y : nonnan x -> nonnan y -> (fcmp x y = -1 <-> PrimFloat.ltb x y = true).
Proof.
  intros Hx Hy. rewrite (fcmp_antisym x y Hx Hy). rewrite <- fcmp_gt_iff. lia.
Qed.

(* NaN is why the premise is there: Go's three-way comparison calls NaN "less than" itself *)
Theorem fcmp_nan_refuted : fcmp nan nan = -1 /\ fcmp nan 1 = -1 /\ fcmp 1 nan = -1.
Proof. vm_compute. auto. Qed.

(* ------------------------------------------------------------------ *)
(* 4. [=?] is an equivalence, [<?] a strict order compatible with it     *)
(* ------------------------------------------------------------------ *)

Theorem eqb_refl x : nonnan x -> PrimFloat.eqb x x = true.
Proof. intros Hx. apply eqb_true_iff. auto. Qed.

(* the next laws hold for ALL doubles: a comparison with NaN is false, so the premises exclude it *)
Theorem eqb_sym x y : PrimFloat.eqb x y = PrimFloat.eqb y x.
Proof.
  destruct (PrimFloat.eqb x y) eqn:H1, (PrimFloat.eqb y x) eqn:H2; try reflexivity.
  - apply eqb_true_iff in H1. destruct H1 as (Hx & Hy & E).
    rewrite (proj2 (eqb_true_iff y x)) in H2 by auto. discriminate.
  - apply eqb_true_iff in H2. destruct H2 as (Hx & Hy & E).
    rewrite (proj2 (eqb_true_iff x y)) in H1 by auto. discriminate.
Qed.

Theorem eqb_trans x y z :
  PrimFloat.eqb x y = true -> PrimFloat.eqb y z = true -> PrimFloat.eqb x z = true.
Proof.
  rewrite !eqb_true_iff. intros (Hx & Hy & E1) (_ & Hz & E2). repeat (split; [assumption|]). congruence.
Qed.

Theorem ltb_irrefl x : PrimFloat.ltb x x = false.
Proof.
  destruct (PrimFloat.ltb x x) eqn:H; [|reflexivity].
  apply ltb_true_iff in H. destruct H as (_ & _ & L). destruct (key_lt_irrefl _ L).
Qed.

Theorem ltb_trans x y z :
  PrimFloat.ltb x y = true -> PrimFloat.ltb y z = true -> PrimFloat.ltb x z = true.
Proof.
  rewrite !ltb_true_iff. intros (Hx & Hy & L1) (_ & Hz & L2). repeat (split; [assumption|]).
  eapply key_lt_trans; eassumption.
Qed.

Theorem ltb_asym x y : PrimFloat.ltb x y = true -> PrimFloat.ltb y x = false.
Proof.
  intros H. destruct (PrimFloat.ltb y x) eqn:H'; [|reflexivity].
  pose proof (ltb_trans _ _ _ H H') as C. rewrite ltb_irrefl in C. discriminate.
Qed.

Theorem ltb_not_eqb x y : PrimFloat.ltb x y = true -> PrimFloat.eqb x y = false.
Proof.
  intros H. destruct (PrimFloat.eqb x y) eqn:E; [|reflexivity].
  apply ltb_true_iff in H. apply eqb_true_iff in E.
  destruct H as (_ & _ & L), E as (_ & _ & E). rewrite E in L. destruct (key_lt_irrefl _ L).
Qed.

(* [<?] respects [=?] on both sides (so -0 and +0 are interchangeable) *)
Theorem ltb_eqb_compat_l x y z : PrimFloat.eqb x y = true -> PrimFloat.ltb x z = PrimFloat.ltb y z.
Proof.
  intros E. apply eqb_true_iff in E. destruct E as (Hx & Hy & E).
  destruct (PrimFloat.ltb x z) eqn:H1, (PrimFloat.ltb y z) eqn:H2; try reflexivity.
  - apply ltb_true_iff in H1. destruct H1 as (_ & Hz & L). rewrite E in L.
    rewrite (proj2 (ltb_true_iff y z)) in H2 by auto. discriminate.
  - apply ltb_true_iff in H2. destruct H2 as (_ & Hz & L). rewrite <- E in L.
    rewrite (proj2 (ltb_true_iff x z)) in H1 by auto. discriminate.
Qed.

Theorem ltb_eqb_compat_r x y z : PrimFloat.eqb x y = true -> PrimFloat.ltb z x = PrimFloat.ltb z y.
Proof.
  intros E. apply eqb_true_iff in E. destruct E as (Hx & Hy & E).
  destruct (PrimFloat.ltb z x) eqn:H1, (PrimFloat.ltb z y) eqn:H2; try reflexivity.
  - apply ltb_true_iff in H1. destruct H1 as (Hz & _ & L). rewrite E in L.
    rewrite (proj2 (ltb_true_iff z y)) in H2 by auto. discriminate.
  - apply ltb_true_iff in H2. destruct H2 as (Hz & _ & L). rewrite <- E in L.
    rewrite (proj2 (ltb_true_iff z x)) in H1 by auto. discriminate.
Qed.

(* on non-NaN doubles exactly one of  x < y,  x == y,  y < x  holds *)
Theorem ltb_eqb_trichotomy x y : nonnan x -> nonnan y ->
  (PrimFloat.ltb x y = true /\ PrimFloat.eqb x y = false /\ PrimFloat.ltb y x = false) \/
  (PrimFloat.ltb x y = false /\ PrimFloat.eqb x y = true /\ PrimFloat.ltb y x = false) \/
  (PrimFloat.ltb x y = false /\ PrimFloat.eqb x y = false /\ PrimFloat.ltb y x = true).
Proof.
  intros Hx Hy.
  rewrite (eqb_key _ _ Hx Hy), (ltb_key _ _ Hx Hy), (ltb_key _ _ Hy Hx), (key_cmp_antisym (fkey x) (fkey y)).
  destruct (key_cmp (fkey x) (fkey y)); cbn; auto.
Qed.

(* "not less" is transitive on non-NaN doubles (negative transitivity of the strict order) *)
Theorem ltb_neg_trans x y z : nonnan x -> nonnan y -> nonnan z ->
  PrimFloat.ltb x y = false -> PrimFloat.ltb y z = false -> PrimFloat.ltb x z = false.
Proof.
  intros Hx Hy Hz H1 H2. destruct (PrimFloat.ltb x z) eqn:H3; [|reflexivity]. exfalso.
  apply (fcmp_lt_iff _ _ Hx Hz) in H3.
  assert (A : fcmp y x <= 0).
  { destruct (fcmp_range y x) as [A|[A|A]]; try lia. apply fcmp_gt_iff in A. congruence. }
  assert (B : fcmp z y <= 0).
  { destruct (fcmp_range z y) as [A'|[A'|A']]; try lia. apply fcmp_gt_iff in A'. congruence. }
  pose proof (fcmp_le_trans z y x Hz Hy Hx B A) as C. rewrite (fcmp_antisym z x Hz Hx) in C. lia.
Qed.

(* ------------------------------------------------------------------ *)
(* 5. the premises of the property theorems, as theorems                *)
(* ------------------------------------------------------------------ *)

(* Spec.SortSpec.NumLaws (property C05): for every set of non-NaN doubles *)
Theorem num_laws_nonnan (F : float -> Prop) :
  (forall x, F x -> nonnan x) -> SortSpec.NumLaws F.
Proof.
  intros H. constructor.
  - intros x Fx. apply fcmp_refl; auto.
  - intros x y Fx Fy. apply fcmp_antisym; auto.
  - intros x y z Fx Fy Fz. apply fcmp_le_trans; auto.
Qed.

Corollary num_laws_all_nonnan : SortSpec.NumLaws nonnan.
Proof. apply num_laws_nonnan. auto. Qed.

(* ... and only for such sets: a set on which the laws hold contains no NaN *)
Theorem num_laws_only_nonnan (F : float -> Prop) :
  SortSpec.NumLaws F -> forall x, F x -> nonnan x.
Proof.
  intros L x Fx. pose proof (SortSpec.nl_refl _ L x Fx) as R.
  apply fcmp_eq_iff in R. apply (eqb_true_nonnan _ _ R).
Qed.

(* Spec.GroupSpec.FloatEqLaws and FloatLtLaws (property C03): for all doubles *)
Theorem float_eq_laws_f64 : GroupSpec.FloatEqLaws.
Proof.
  constructor.
  - intros x y H. rewrite eqb_sym. exact H.
  - exact eqb_trans.
Qed.

Theorem float_lt_laws_f64 : GroupSpec.FloatLtLaws.
Proof. constructor; [exact ltb_irrefl|exact ltb_trans]. Qed.

(* Proofs.C06Lemmas.FeqLaws (properties C06, C08): [feqb] - "both NaN, or numerically equal with the
   same sign bit" - is symmetric and transitive, for all doubles *)
Theorem feq_laws_f64 : C06Lemmas.FeqLaws.
Proof.
  constructor.
  - intros x y. unfold feqb.
    destruct (PrimFloat.is_nan x), (PrimFloat.is_nan y); auto.
    rewrite eqb_sym. f_equal.
    destruct (PrimFloat.get_sign x), (PrimFloat.get_sign y); reflexivity.
  - intros x y z. unfold feqb.
    destruct (PrimFloat.is_nan x), (PrimFloat.is_nan y), (PrimFloat.is_nan z); auto; try discriminate.
    intros H1 H2. apply andb_true_iff in H1, H2. destruct H1 as [E1 S1], H2 as [E2 S2].
    apply Bool.eqb_prop in S1, S2. rewrite S1, S2, Bool.eqb_reflx, (eqb_trans _ _ _ E1 E2).
    reflexivity.
Qed.

(* [vcompare] on two numbers (compare.Compare on float64 operands): the facts that the join
   theorems of C04 ask of the key values met by ON ([flip_ok], and the number half of
   [hash_faithful]'s left side) *)
Theorem vcompare_num_flip x y z : nonnan x -> nonnan y ->
  vcompare (VNum x) (VNum y) = Ok z -> vcompare (VNum y) (VNum x) = Ok (- z).
Proof.
  intros Hx Hy H. cbn in *. inversion H. f_equal. rewrite (fcmp_antisym y x Hy Hx). lia.
Qed.

Theorem vcompare_num_eq_iff x y : vcompare (VNum x) (VNum y) = Ok 0 <-> PrimFloat.eqb x y = true.
Proof. cbn. rewrite <- fcmp_eq_iff. split; [intros [= H]; exact H|intros ->; reflexivity]. Qed.
