(* Proofs/C09Strict.v — where OutOfModel can come from.  The only sources are the oracles behind
   typed pipes ({k|string}, {k|number}) and top-level functions (fn=>).  A selector text without
   the bytes '|' and '>' can contain neither, so for such texts the evaluation is strictly
   "value or error" for every document. *)
From Coq Require Import ZifyBool ZifyNat ZifyN.
From GenqlV Require Import Base.Prelude Base.Fmt Base.Value
                           Model.SelToken Model.SelFmt Model.SelReader Spec.SelectorSpec
                           Proofs.C09Strings Proofs.C09Total.
Local Open Scope string_scope.

Definition nooom {A} (r : res A) : Prop := r <> OutOfModel.

Lemma nooom_ok {A} (a : A) : nooom (Ok a).
Proof. discriminate. Qed.
Lemma nooom_err {A} : nooom (@Err A).
Proof. discriminate. Qed.
Lemma nooom_panic {A} : nooom (@Panic A).
Proof. discriminate. Qed.
#[export] Hint Resolve nooom_ok nooom_err nooom_panic : c09s.

Lemma nooom_bind {A B} (r : res A) (f : A -> res B) :
  nooom r -> (forall a, r = Ok a -> nooom (f a)) -> nooom (bind r f).
Proof.
  intros Hr Hf. destruct r as [a| | |]; cbn;
    [apply Hf; reflexivity | discriminate | discriminate | exfalso; apply Hr; reflexivity].
Qed.

Lemma nooom_mapM {A B} (f : A -> res B) (l : list A) :
  (forall a, In a l -> nooom (f a)) -> nooom (mapM f l).
Proof.
  induction l as [|a l IH]; intros H; cbn [mapM]; auto with c09s.
  apply nooom_bind; [apply H; now left|]. intros b _.
  apply nooom_bind; [apply IH; intros a0 Ha0; apply H; now right|]. intros ? _; auto with c09s.
Qed.

(* ---------- the evaluator on tokens without typed pipes and functions ---------- *)

Definition plain_tok (t : token) : Prop :=
  match t with
  | TFn _ => False
  | TPipe ps => Forall (fun p => ptype p = EmptyString) ps
  | _ => True
  end.

Lemma idx_list_nooom {A} (l : list A) i : nooom (idx_list l i).
Proof. unfold idx_list. destruct (_ || _)%bool; auto with c09s. destruct (nth_error _ _); auto with c09s. Qed.

Lemma slice_list_nooom {A} (l : list A) b e : nooom (slice_list l b e).
Proof. unfold slice_list. destruct (_ || _)%bool; auto with c09s. Qed.

Lemma select_dimension_nooom dims : forall data, nooom (select_dimension data dims).
Proof.
  induction dims as [|ix rest IH]; intros data; cbn [select_dimension]; auto with c09s.
  destruct ix as [i|b e]; destruct data as [| | | |array|]; auto with c09s.
  - destruct (i =? -1)%Z.
    + apply nooom_bind; [apply nooom_mapM; intros ? _; apply IH|]. intros ? _; auto with c09s.
    + destruct (_ || _)%bool; auto with c09s.
      apply nooom_bind; [apply idx_list_nooom|]. intros ? _; apply IH.
  - destruct (_ || _)%bool; auto with c09s.
    apply nooom_bind; [apply slice_list_nooom|]. intros ? _; apply IH.
Qed.

Lemma select_many_nooom l dims : nooom (select_many l dims).
Proof.
  unfold select_many, select_many_with.
  apply nooom_bind; [apply select_dimension_nooom|]. intros rs _.
  destruct rs; cbn; auto with c09s.
Qed.

Lemma pipe_object_plain data ps :
  Forall (fun p => ptype p = EmptyString) ps -> forall copy, nooom (pipe_object data ps copy).
Proof.
  induction 1 as [|p r Hp _ IH]; intros copy; cbn [pipe_object]; auto with c09s.
  apply nooom_bind; [|intros ? _; apply IH].
  unfold pipe_one, get_type. rewrite Hp. cbn. auto with c09s.
Qed.

Lemma reader_switch_nooom f :
  (forall kvs, nooom (f kvs)) -> forall d, nooom (reader_switch f d).
Proof.
  intros Hf d. induction d as [| | | |l IH|kvs _] using value_ind';
    [cbn; auto with c09s | cbn; auto with c09s | cbn; auto with c09s | cbn; auto with c09s | | ].
  - rewrite reader_switch_arr. apply nooom_bind; [|intros ? _; auto with c09s].
    apply nooom_mapM. rewrite Forall_forall in IH. exact IH.
  - apply Hf.
Qed.

Lemma reader_plain sels : Forall plain_tok sels -> forall data, nooom (reader sels data).
Proof.
  unfold reader. induction 1 as [|sel rest Hsel _ IH]; intros data; cbn [reader_with]; auto with c09s.
  destruct sel as [f|k|ds|ds|ps]; cbn [plain_tok] in Hsel.
  - contradiction.
  - apply reader_switch_nooom. intros ?; apply IH.
  - destruct data; auto with c09s.
    apply nooom_bind; [apply select_many_nooom|]. intros ? _; apply IH.
  - destruct data; auto with c09s.
    apply nooom_bind; [apply select_dimension_nooom|]. intros ? _; apply IH.
  - apply reader_switch_nooom. intros kvs.
    apply nooom_bind; [now apply pipe_object_plain|]. intros ? _; apply IH.
Qed.

Lemma reader_executor_plain data sels : Forall plain_tok sels -> nooom (reader_executor data sels).
Proof.
  intros H. unfold reader_executor, reader_executor_with.
  destruct sels as [|t rest]; auto with c09s.
  destruct t; try (now apply reader_plain).
  inversion H as [|? ? Ht _]; contradiction.
Qed.

Lemma exec_all_plain all : Forall (Forall plain_tok) all -> forall data, nooom (exec_all all data).
Proof.
  unfold exec_all. induction 1 as [|item r Hi _ IH]; intros data; cbn [exec_all_with]; auto with c09s.
  apply nooom_bind; [now apply reader_executor_plain|]. intros ? _; apply IH.
Qed.

(* ---------- a text without '|' and '>' only has plain tokens ---------- *)

Lemma lacks_cons c a s : lacks c (String a s) = negb (ceq a c) && lacks c s.
Proof. reflexivity. Qed.

Lemma lacks_app' c a b : lacks c (a ++ b) = lacks c a && lacks c b.
Proof. apply all_chars_app. Qed.

Lemma span_lacks c p s :
  lacks c s = true -> lacks c (fst (span p s)) = true /\ lacks c (snd (span p s)) = true.
Proof.
  induction s as [|a s IH]; intros H; [split; reflexivity|].
  cbn [span]. rewrite lacks_cons in H. apply andb_true_iff in H as [Ha Hs].
  destruct (p a).
  - destruct (IH Hs) as [I1 I2]. destruct (span p s) as [x y]. cbn [fst snd] in *.
    split; [rewrite lacks_cons, Ha, I1; reflexivity|exact I2].
  - cbn [fst snd]. split; [reflexivity|rewrite lacks_cons, Ha, Hs; reflexivity].
Qed.

Lemma drop_lacks c n : forall s, lacks c s = true -> lacks c (drop n s) = true.
Proof.
  induction n as [|n IH]; intros s H; [destruct s; exact H|].
  destruct s as [|a s]; [exact H|]. cbn [drop]. rewrite lacks_cons in H.
  apply andb_true_iff in H as [_ Hs]. now apply IH.
Qed.

Definition keeps (c : ascii) (m : string -> option string) : Prop :=
  forall s t, m s = Some t -> lacks c s = true -> lacks c t = true.

Lemma first_of_keeps c alts : Forall (keeps c) alts -> keeps c (first_of alts).
Proof.
  induction 1 as [|a r Ha _ IH]; intros s t; cbn [first_of]; [discriminate|].
  destruct (a s) eqn:E; [intros [= <-]; now apply (Ha s)|apply IH].
Qed.

Lemma alt_word_keeps c : keeps c alt_word.
Proof.
  intros s t. unfold alt_word. intros H L. destruct (span_lacks c is_word s L) as [I _].
  destruct (span is_word s) as [w r]. cbn [fst] in I. destruct (nonempty w); [|discriminate].
  now injection H as <-.
Qed.

Lemma alt_quoted_keeps c : keeps c alt_quoted.
Proof.
  intros s t. destruct s as [|a r]; [discriminate|]. cbn [alt_quoted]. intros H L.
  rewrite lacks_cons in L. apply andb_true_iff in L as [La Lr].
  destruct (ceq a c_sq); [|discriminate].
  destruct (span_lacks c (fun x => negb (ceq x c_sq)) r Lr) as [I1 I2].
  destruct (span (fun x => negb (ceq x c_sq)) r) as [body r1]. cbn [fst snd] in *.
  destruct (span_lacks c (fun x => ceq x c_sq) r1 I2) as [J1 _].
  destruct (span (fun x => ceq x c_sq) r1) as [qs r2]. cbn [fst] in *.
  destruct (nonempty qs); [|discriminate]. injection H as <-.
  rewrite lacks_cons, La, lacks_app', I1, J1. reflexivity.
Qed.

Lemma alt_group_keeps c o cl : keeps c (alt_group o cl).
Proof.
  intros s t. destruct s as [|a r]; [discriminate|]. cbn [alt_group]. intros H L.
  rewrite lacks_cons in L. apply andb_true_iff in L as [La Lr].
  destruct (ceq a o); [|discriminate].
  destruct (span_lacks c (fun x => negb (ceq x o || ceq x cl)) r Lr) as [I1 I2].
  destruct (span (fun x => negb (ceq x o || ceq x cl)) r) as [body r1]. cbn [fst snd] in *.
  destruct r1 as [|c2 r2]; [discriminate|]. destruct (ceq c2 cl); [|discriminate].
  injection H as <-. rewrite lacks_cons in I2. apply andb_true_iff in I2 as [I2 _].
  rewrite lacks_cons, La, lacks_app', I1, lacks_cons, I2. reflexivity.
Qed.

Lemma alt_back_keeps : keeps c_pipe alt_back.
Proof.
  intros s t. destruct s as [|a [|b r]]; try discriminate. cbn [alt_back].
  destruct (_ && _)%bool; [|discriminate]. intros [= <-] _. reflexivity.
Qed.

Lemma alt_star_keeps : keeps c_pipe alt_star.
Proof.
  intros s t. destruct s as [|a r]; try discriminate. cbn [alt_star].
  destruct (ceq a "*"%char); [|discriminate]. intros [= <-] _. reflexivity.
Qed.

Lemma m_full_keeps : keeps c_pipe m_full.
Proof.
  apply first_of_keeps. repeat constructor;
    auto using alt_quoted_keeps, alt_back_keeps, alt_star_keeps, alt_word_keeps, alt_group_keeps.
Qed.

Lemma pipe_suffix_lacks s : lacks c_pipe s = true -> pipe_suffix s = None.
Proof.
  intros L. unfold pipe_suffix.
  assert (H : forall s1, lacks c_pipe s1 = true ->
              match s1 with
              | String c r => if ceq c c_pipe then (let '(w, _) := span is_word r in
                                if nonempty w then Some (EmptyString ++ String c w) else None) else None
              | EmptyString => @None string end = None).
  { intros [|c r] L1; [reflexivity|]. rewrite lacks_cons in L1. apply andb_true_iff in L1 as [L1 _].
    apply negb_true_iff in L1. now rewrite L1. }
  destruct s as [|c r]; [reflexivity|].
  rewrite lacks_cons in L. apply andb_true_iff in L as [Lc Lr]. apply negb_true_iff in Lc.
  destruct (ceq c c_bang).
  - destruct r as [|c2 r2]; [reflexivity|]. rewrite lacks_cons in Lr.
    apply andb_true_iff in Lr as [Lc2 _]. apply negb_true_iff in Lc2. now rewrite Lc2.
  - now rewrite Lc.
Qed.

Lemma alt_typed_lacks s : lacks c_pipe s = true -> alt_typed s = None.
Proof.
  intros L. unfold alt_typed.
  assert (T : forall g, match pipe_suffix (drop (String.length g) s) with
                        | Some sf => Some (g ++ sf) | None => None end = None).
  { intros g. now rewrite pipe_suffix_lacks by now apply drop_lacks. }
  destruct (alt_quoted s); [rewrite T|]; destruct (alt_word s); try rewrite T; reflexivity.
Qed.

Lemma m_pipe_keeps : keeps c_pipe m_pipe.
Proof.
  intros s t H L. unfold m_pipe in H. cbn [first_of] in H.
  rewrite (alt_typed_lacks s L) in H. destruct (alt_word s) eqn:E; [|discriminate].
  injection H as <-. now apply (alt_word_keeps c_pipe s).
Qed.

Lemma find_all_keeps c m : keeps c m ->
  forall s k, lacks c s = true -> Forall (fun t => lacks c t = true) (find_all m s k).
Proof.
  intros Hm s. induction s as [|a r IH]; intros k L; cbn [find_all]; [constructor|].
  pose proof L as L'. rewrite lacks_cons in L'. apply andb_true_iff in L' as [_ Lr].
  destruct k as [|k]; [|now apply IH].
  destruct (m (String a r)) as [[|c' t]|] eqn:E; try (now apply IH).
  constructor; [now apply (Hm _ _ E)|now apply IH].
Qed.

Lemma parse_pipe_item_plain m p :
  lacks c_pipe m = true -> parse_pipe_item m = Ok p -> ptype p = EmptyString.
Proof.
  intros L. unfold parse_pipe_item. rewrite (split_char_lacks c_pipe m L).
  cbn. intros [= <-]. reflexivity.
Qed.

Lemma mapM_ok_forall {A B} (f : A -> res B) (P : A -> Prop) (Q : B -> Prop) l bs :
  (forall a b, P a -> f a = Ok b -> Q b) -> Forall P l -> mapM f l = Ok bs -> Forall Q bs.
Proof.
  intros H F. revert bs. induction F as [|a l Pa _ IH]; intros bs; cbn [mapM].
  - intros [= <-]. constructor.
  - destruct (f a) as [b| | |] eqn:E; cbn [bind]; try discriminate.
    destruct (mapM f l) as [bs'| | |]; cbn [bind]; try discriminate.
    intros [= <-]. constructor; [now apply (H a)|now apply IH].
Qed.

Lemma parse_token_plain m t : lacks c_pipe m = true -> parse_token m = Ok t -> plain_tok t.
Proof.
  intros L. unfold parse_token. destruct (byte0 m) as [c| | |]; cbn [bind]; try discriminate.
  destruct (ceq c c_lbra).
  - unfold parse_array.
    destruct (match strip_prefix "keep=>" _ with Some r => (true, r) | None => (false, _) end) as [keep m2].
    destruct (mapM parse_dim _); cbn [bind]; try discriminate. destruct keep; intros [= <-]; exact I.
  - destruct (ceq c c_lcur); [|intros [= <-]; exact I].
    destruct (parse_pipe m) as [ps| | |] eqn:E; cbn [bind]; try discriminate. intros [= <-].
    cbn [plain_tok]. unfold parse_pipe in E.
    apply (mapM_ok_forall parse_pipe_item (fun x => lacks c_pipe x = true) _ _ _
             (fun a b => parse_pipe_item_plain a b)
             (find_all_keeps c_pipe m_pipe m_pipe_keeps m 0 L) E).
Qed.

Lemma split_arrow_lacks s : lacks ">" s = true -> split_arrow s = None.
Proof.
  induction s as [|a r IH]; intros L; [reflexivity|].
  rewrite lacks_cons in L. apply andb_true_iff in L as [_ Lr]. cbn [split_arrow].
  assert (E : ceq a "="%char && match r with String b _ => ceq b ">"%char | EmptyString => false end = false).
  { destruct r as [|b r']; [apply andb_false_r|]. rewrite lacks_cons in Lr.
    apply andb_true_iff in Lr as [Lb _]. apply negb_true_iff in Lb.
    rewrite Lb. apply andb_false_r. }
  rewrite E, (IH Lr). reflexivity.
Qed.

Lemma parse_selector_plain s ts :
  lacks c_pipe s = true -> lacks ">" s = true -> parse_selector s = Ok ts -> Forall plain_tok ts.
Proof.
  intros Lp La. unfold parse_selector. rewrite (split_arrow_lacks s La).
  destruct (mapM parse_token (find_all m_full s 0)) as [toks| | |] eqn:E; cbn [bind]; try discriminate.
  intros [= <-]. cbn [app].
  apply (mapM_ok_forall parse_token (fun x => lacks c_pipe x = true) _ _ _
           (fun a b => parse_token_plain a b)
           (find_all_keeps c_pipe m_full m_full_keeps s 0 Lp) E).
Qed.

Lemma split_dc_aux_lacks c s : forall skip,
  lacks c s = true -> Forall (fun t => lacks c t = true) (split_dc_aux s skip).
Proof.
  induction s as [|a r IH]; intros skip L; cbn [split_dc_aux]; [repeat constructor|].
  rewrite lacks_cons in L. apply andb_true_iff in L as [La Lr].
  destruct skip; [now apply IH|].
  destruct (_ && _)%bool; [constructor; [reflexivity|now apply IH]|].
  pose proof (IH false Lr) as F. destruct (split_dc_aux r false) as [|p ps].
  - repeat constructor. rewrite lacks_cons, La. reflexivity.
  - inversion F as [|? ? Fp Fps]; subst. constructor; [|exact Fps].
    rewrite lacks_cons, La, Fp. reflexivity.
Qed.

Theorem exec_reader_strict doc s :
  lacks c_pipe s = true -> lacks ">" s = true ->
  (exists r, exec_reader doc s = Ok r) \/ exec_reader doc s = Err.
Proof.
  intros Lp La.
  assert (N : nooom (exec_reader doc s)).
  { unfold exec_reader, parse_all.
    destruct (mapM parse_selector (split_dc s)) as [all| | |] eqn:E; cbn [bind]; auto with c09s.
    - apply exec_all_plain.
      pose proof (split_dc_aux_lacks c_pipe s false Lp) as F1.
      pose proof (split_dc_aux_lacks ">" s false La) as F2.
      fold (split_dc s) in F1, F2.
      assert (F : Forall (fun t => lacks c_pipe t = true /\ lacks ">" t = true) (split_dc s)).
      { rewrite Forall_forall in *. intros x Hx. split; auto. }
      apply (mapM_ok_forall parse_selector _ _ _ _
               (fun a b (P : lacks c_pipe a = true /\ lacks ">" a = true) =>
                  parse_selector_plain a b (proj1 P) (proj2 P)) F E).
    - exfalso. apply (nooom_mapM parse_selector (split_dc s)); [|exact E].
      intros a _. unfold parse_selector.
      destruct (match split_arrow a with
                | Some (f, rest) => if contains_open f then ([], a) else ([TFn f], rest)
                | None => ([], a) end) as [pre s'].
      apply nooom_bind; [|intros ? _; auto with c09s].
      apply nooom_mapM. intros m _. unfold parse_token.
      apply nooom_bind; [destruct m; cbn; auto with c09s|]. intros c _.
      destruct (ceq c c_lbra).
      + unfold parse_array.
        destruct (match strip_prefix "keep=>" _ with Some r => (true, r) | None => (false, _) end) as [keep m2].
        apply nooom_bind; [|intros ? _; auto with c09s].
        apply nooom_mapM. intros d _. unfold parse_dim.
        apply nooom_bind; [destruct d; cbn; auto with c09s|]. intros c0 _.
        assert (RI : forall x, nooom (read_index x)).
        { intros x. unfold read_index, atoi. destruct (split_sign x) as [neg body].
          destruct body; cbn [bind]; auto with c09s.
          destruct (digits_val _ _); cbn [bind]; auto with c09s.
          destruct (_ || _)%bool; cbn [bind]; auto with c09s. destruct (_ <? 0)%Z; auto with c09s. }
        assert (RB : forall kw x, nooom (read_bound kw x)).
        { intros kw x. unfold read_bound. destruct (String.eqb x kw); auto with c09s. }
        destruct (ceq c0 c_lpar).
        * unfold read_range. destruct (negb _); auto with c09s.
          apply nooom_bind; [apply idx_list_nooom|]. intros ? _.
          apply nooom_bind; [apply RB|]. intros ? _.
          apply nooom_bind; [apply idx_list_nooom|]. intros ? _.
          apply nooom_bind; [apply RB|]. intros ? _; auto with c09s.
        * destruct (String.eqb d "each"); auto with c09s.
          apply nooom_bind; [apply RI|]. intros ? _; auto with c09s.
      + destruct (ceq c c_lcur); auto with c09s.
        apply nooom_bind; [|intros ? _; auto with c09s].
        unfold parse_pipe. apply nooom_mapM. intros x _. unfold parse_pipe_item.
        apply nooom_bind; [apply idx_list_nooom|]. intros ? _.
        destruct (Nat.eqb _ 1); auto with c09s. destruct (Nat.eqb _ 2); auto with c09s.
        apply nooom_bind; [apply idx_list_nooom|]. intros ? _; auto with c09s. }
  pose proof (exec_reader_nopanic doc s) as P. unfold nooom, nopanic in *.
  destruct (exec_reader doc s); eauto; congruence.
Qed.
