(* Proofs/C01Staged.v — WHERE p AND q is WHERE q applied to the result of WHERE p. *)
From Coq Require Import Floats Permutation.
From GenqlV Require Import Base.Prelude Base.Value Model.Ast Model.Like Model.Eval Model.Exec.
From GenqlV Require Import Spec.PredSem Proofs.C01Lemmas.
Local Open Scope list_scope.

Lemma filter_filter_andb {A} (f g : A -> bool) : forall l,
  filter g (filter f l) = filter (fun x => f x && g x) l.
Proof.
  induction l as [|x l IH]; [reflexivity|]. cbn.
  destruct (f x) eqn:Ef; cbn; [destruct (g x); rewrite IH; reflexivity | exact IH].
Qed.

Lemma Forall_filter_keep {A} (P : A -> Prop) (f : A -> bool) : forall l,
  Forall P l -> Forall P (filter f l).
Proof.
  induction l as [|x l IH]; intros H; [constructor|].
  inversion H as [|? ? Hx Hl]; subst. cbn. destruct (f x); [constructor|]; auto.
Qed.

Lemma filter_and_staged rec ctx (s s1 s2 : select stmt) (E : env stmt) p q (rows : list row) :
  e_hard E = false ->
  s_where s = Some (EAnd p q) -> s_where s1 = Some p -> s_where s2 = Some q ->
  Forall (fun r => in_scope r (EAnd p q) = true) rows ->
  exists mid,
    filter_rows rec ctx s1 E (map VObj rows) = Ok (map VObj mid) /\
    mid = filter (fun r => pred_sem r p) rows /\
    filter_rows rec ctx s2 E (map VObj mid) = filter_rows rec ctx s E (map VObj rows).
Proof.
  intros Hh Hs Hs1 Hs2 Hsc.
  assert (Hp : Forall (fun r => in_scope r p = true) rows).
  { eapply Forall_impl; [|exact Hsc]. cbn. intros r Hr. apply andb_true_iff in Hr. tauto. }
  assert (Hq : Forall (fun r => in_scope r q = true) rows).
  { eapply Forall_impl; [|exact Hsc]. cbn. intros r Hr. apply andb_true_iff in Hr. tauto. }
  exists (filter (fun r => pred_sem r p) rows). split; [|split; [reflexivity|]].
  - apply filter_exact_rows; assumption.
  - rewrite (filter_exact_rows rec ctx s2 E q); [|assumption|assumption|apply Forall_filter_keep, Hq].
    rewrite (filter_exact_rows rec ctx s E (EAnd p q)); [|assumption|assumption|exact Hsc].
    rewrite filter_filter_andb. reflexivity.
Qed.
