(* Proofs/C16ShapeB.v -- consumer side of C16_shape: the tokenizer's look-ahead is two bytes deep,
   and at the end of a raw part it answers the same on "$n" and on the literal written instead. *)
From Coq Require Import Lia ZifyBool ZifyN ZifyNat.
From GenqlV Require Import Base.Prelude Model.MySqlString Model.Sanitizer Spec.C16Spec
  Proofs.C16Bytes Proofs.C16SimA Proofs.C16SimB Proofs.C16Pos Proofs.C16Tokens Proofs.C16ShapeA.
Local Open Scope string_scope.
Local Open Scope bool_scope.
Local Opaque code.

(* modes / final state over a prefix a that is followed by la *)
Fixpoint mmodes_la (m : mstate) (a la : bytes) : list mode :=
  match a with
  | EmptyString => []
  | String c r => mlabel m c (r ++ la) :: mmodes_la (mstep m c (r ++ la)) r la
  end.
Fixpoint mrun_la (m : mstate) (a la : bytes) : mstate :=
  match a with
  | EmptyString => m
  | String c r => mrun_la (mstep m c (r ++ la)) r la
  end.

Lemma mmodes_app m a b : mmodes m (a ++ b) = (mmodes_la m a b ++ mmodes (mrun_la m a b) b)%list.
Proof. revert m. induction a as [|c r IH]; intro m; [reflexivity|]. cbn. now rewrite IH. Qed.

Lemma mmodes_la_length m a la : List.length (mmodes_la m a la) = String.length a.
Proof. revert m. induction a as [|c r IH]; intro m; [reflexivity|]. cbn. now rewrite IH. Qed.

(* L1: the tokenizer looks at the next byte, and at the one after it only to ask "blank or end?" *)
Lemma la_insens m c R1 R2 :
  peek R1 = peek R2 -> blank_or_eof (peek2 R1) = blank_or_eof (peek2 R2) ->
  mstep m c R1 = mstep m c R2 /\ mlabel m c R1 = mlabel m c R2.
Proof.
  intros H1 H2.
  assert (Hc : mcont m c R1 = mcont m c R2).
  { destruct R1 as [|a R1'], R2 as [|b R2']; cbn [peek] in H1; try discriminate; [reflexivity|].
    inversion H1; subst b. destruct m; reflexivity. }
  assert (Hd : step_def c R1 = step_def c R2).
  { destruct R1 as [|a R1'], R2 as [|b R2']; cbn [peek] in H1; try discriminate; [reflexivity|].
    inversion H1; subst b. unfold step_def. cbn [nxt_is nxt_sat]. now rewrite H2. }
  unfold mstep, mlabel. rewrite Hc, Hd. split; reflexivity.
Qed.

(* the first bytes of a literal written by the sanitizer *)
Definition lit_start (X : bytes) : bool :=
  match X with
  | String f X' =>
      is f c_sq || is_digit f || (is f "-" && nxt_sat X' is_digit) || is f "n" || is f "t" || is f "f"
  | EmptyString => false
  end.

Definition good_state (m : mstate) : bool :=
  match m with MStr d => is d c_sq || is d c_dq | _ => true end.

Lemma rel_good s m t : rel s m t = true -> good_state m = true.
Proof.
  intro H. destruct m; try reflexivity. cbn [good_state].
  destruct s as [ctl| |k ctl|ctl|ctl]; cbn [rel] in H.
  - destruct ctl; cbn [rel_ctl rawlike orb] in H; try discriminate; rewrite H; auto using orb_true_r.
  - discriminate.
  - destruct k; [discriminate|]. apply andb_prop in H. destruct H as [_ H].
    destruct ctl; cbn [strict_ctl] in H; try discriminate; rewrite H; auto using orb_true_r.
  - destruct ctl; cbn [rawlike andb] in H; discriminate.
  - apply andb_prop in H. destruct H as [H _].
    destruct ctl; cbn [strict_ctl] in H; try discriminate; rewrite H; auto using orb_true_r.
Qed.

Lemma stepdef_caseA c X1' X2 :
  lit_start X2 = true -> prev_ok (Some c) = true ->
  step_def c (String "$" X1') = MDef -> step_def c X2 = MDef.
Proof.
  intros Hl Hp H. destruct X2 as [|f X']; [discriminate|].
  unfold lit_start in Hl. unfold prev_ok in Hp.
  unfold step_def in *. cbn [nxt_is nxt_sat peek2 blank_or_eof] in *.
  change (is "$" c_sq) with false in H. change (is "$" c_dq) with false in H.
  change (is_digit "$") with false in H. change (is "$" "/") with false in H.
  change (is "$" "*") with false in H. change (is "$" "-") with false in H.
  rewrite ?andb_false_r in H. cbn [andb] in H.
  destruct X' as [|g X'']; cbn [peek nxt_sat blank_or_eof] in *.
  all: repeat match goal with
       | |- context [if ?b then _ else _] => destruct b eqn:?
       end; try reflexivity.
  all: repeat match goal with
       | E : ?b = true |- _ => rewrite E in H
       | E : ?b = false |- _ => rewrite E in H
       end; try discriminate H; try (exfalso; arith).
Qed.

Lemma mcont_caseA m c X1' X2 :
  good_state m = true -> lit_start X2 = true -> prev_ok (Some c) = true ->
  mcont m c X2 = mcont m c (String "$" X1').
Proof.
  intros Hg Hl Hp. destruct X2 as [|f X']; [discriminate|].
  unfold lit_start in Hl. unfold prev_ok in Hp.
  destruct m; cbn [mcont good_state] in *; try reflexivity.
  - (* MStr d *) destruct (is c d) eqn:Hcd.
    + apply is_true_iff in Hcd. subst d. exfalso. arith.
    + reflexivity.
  - (* MBT0 *) cbn [nxt_is]. change (is "$" c_bt) with false. assert (is f c_bt = false) as -> by arith. reflexivity.
  - (* MBT *) cbn [nxt_is]. change (is "$" c_bt) with false. assert (is f c_bt = false) as -> by arith. reflexivity.
  - (* MBlock *) cbn [nxt_is]. change (is "$" "/") with false. assert (is f "/" = false) as -> by arith. reflexivity.
Qed.

(* L2: the last byte of a raw part, looking at "$n" or at the literal *)
Lemma caseA m c X1' X2 :
  good_state m = true -> lit_start X2 = true -> prev_ok (Some c) = true ->
  mstep m c (String "$" X1') = MDef ->
  mstep m c X2 = MDef /\ mlabel m c X2 = mlabel m c (String "$" X1').
Proof.
  intros Hg Hl Hp H. pose proof (mcont_caseA m c X1' X2 Hg Hl Hp) as Hc.
  unfold mstep, mlabel in *. rewrite Hc. split; [|reflexivity].
  destruct (mcont m c (String "$" X1')); [exact H|]. eapply stepdef_caseA; eassumption.
Qed.
