(* Proofs/C13Lockset.v — the generic lockset theorem: a location that every thread accesses only
   while holding its mutex (writes: write lock; reads: write or read lock) has no data race in any
   interleaving.  Shape: an invariant of [fold_left step sched init] proved by induction over the
   schedule (notes/feasibility_conc_mutex.v). *)
From GenqlV Require Import Base.Prelude Model.ConcEvents.
Local Open Scope string_scope.

(* ---- small facts -------------------------------------------------------------------------- *)

Lemma upd_same {B} (f : tid -> B) i v : upd f i v i = v.
Proof. unfold upd. now rewrite Nat.eqb_refl. Qed.

Lemma upd_other {B} (f : tid -> B) i j v : j <> i -> upd f i v j = f j.
Proof. unfold upd. intros H. destruct (Nat.eqb_spec j i); congruence. Qed.

Lemma updm_same {B} (f : mutex -> B) m v : updm f m v m = v.
Proof. unfold updm. now rewrite String.eqb_refl. Qed.

Lemma updm_other {B} (f : mutex -> B) m n v : String.eqb n m = false -> updm f m v n = f n.
Proof. unfold updm. intros ->. reflexivity. Qed.

Lemma mem_In i l : mem i l = true <-> In i l.
Proof.
  unfold mem. rewrite existsb_exists. split.
  - intros (x & Hx & E). apply Nat.eqb_eq in E. now subst.
  - intros H. exists i. split; [assumption|apply Nat.eqb_refl].
Qed.

Lemma mem_cons i j l : mem i (j :: l) = Nat.eqb i j || mem i l.
Proof. reflexivity. Qed.

Lemma mem_remove_other i j l : j <> i -> mem j (remove_one i l) = mem j l.
Proof.
  intros Hne. induction l as [|x l IH]; cbn [remove_one]; [reflexivity|].
  destruct (Nat.eqb_spec x i) as [->|Hx].
  - rewrite mem_cons. destruct (Nat.eqb_spec j i); [congruence|reflexivity].
  - rewrite !mem_cons, IH. reflexivity.
Qed.

Lemma mem_remove_same i l : NoDup l -> mem i (remove_one i l) = false.
Proof.
  induction l as [|x l IH]; intros Hnd; cbn [remove_one]; [reflexivity|].
  inversion Hnd as [|? ? Hnot Hnd']; subst.
  destruct (Nat.eqb_spec x i) as [->|Hx].
  - destruct (mem i l) eqn:E; [|reflexivity]. apply mem_In in E. contradiction.
  - rewrite mem_cons, IH by assumption. destruct (Nat.eqb_spec i x); [congruence|reflexivity].
Qed.

Lemma In_remove_one i x l : In x (remove_one i l) -> In x l.
Proof.
  induction l as [|y l IH]; cbn [remove_one]; [auto|].
  destruct (Nat.eqb y i); intros H; [now right|].
  destruct H as [->|H]; [now left|right; auto].
Qed.

Lemma NoDup_remove_one i l : NoDup l -> NoDup (remove_one i l).
Proof.
  induction l as [|y l IH]; intros Hnd; cbn [remove_one]; [constructor|].
  inversion Hnd as [|? ? Hnot Hnd']; subst.
  destruct (Nat.eqb y i); [assumption|].
  constructor; [|auto]. intros H. apply Hnot. eapply In_remove_one; eauto.
Qed.

(* ---- the invariant ------------------------------------------------------------------------ *)

Section Lockset.
Variable g : loc.
Variable m : mutex.

Record Inv (s : st) : Prop := {
  I_disc : forall i, disciplined_from g m (holds_w m s i) (holds_r m s i) (rem s i) = true;
  I_excl : forall j, wr (lks s m) = Some j -> rds (lks s m) = [];
  I_nodup : NoDup (rds (lks s m)) }.

Lemma Inv_init progs :
  (forall i, disciplined g m (progs i) = true) -> Inv (init progs).
Proof.
  intros H. constructor; cbn.
  - intros i. unfold holds_w, holds_r. cbn. apply H.
  - discriminate.
  - constructor.
Qed.

(* a step that changes neither the lock m nor anybody's program except by dropping the head event
   of thread i, when dropping that head keeps the discipline with the same holding state *)
Lemma Inv_advance s i e r :
  Inv s -> rem s i = e :: r ->
  (forall hw hr, disciplined_from g m hw hr (e :: r) = true -> disciplined_from g m hw hr r = true) ->
  forall l', l' m = lks s m -> Inv (mkSt (upd (rem s) i r) l').
Proof.
  intros [Hd He Hn] Hrem Hdrop l' Hl.
  constructor; cbn; unfold holds_w, holds_r; cbn; rewrite ?Hl.
  - intros j. destruct (Nat.eq_dec j i) as [->|Hne].
    + rewrite upd_same. apply Hdrop. specialize (Hd i). rewrite Hrem in Hd. exact Hd.
    + rewrite upd_other by exact Hne. apply Hd.
  - exact He.
  - exact Hn.
Qed.

Lemma Inv_step s i : Inv s -> Inv (step s i).
Proof.
  intros HI. unfold step. destruct (rem s i) as [|e r] eqn:Hrem; [exact HI|].
  assert (Hdi := I_disc s HI i). rewrite Hrem in Hdi.
  destruct e as [n|n|n|n|h|h|f| |].
  - (* Lock n *)
    destruct (wr (lks s n)) as [k|] eqn:Hw; [exact HI|].
    destruct (rds (lks s n)) as [|k l] eqn:Hr; [|exact HI].
    destruct (String.eqb n m) eqn:Enm.
    + apply String.eqb_eq in Enm. subst n.
      cbn [disciplined_from] in Hdi. rewrite String.eqb_refl in Hdi.
      apply andb_prop in Hdi as [_ Hdi].
      destruct HI as [Hd He Hn].
      constructor; cbn; unfold holds_w, holds_r; cbn; rewrite ?updm_same; cbn.
      * intros j. destruct (Nat.eq_dec j i) as [->|Hne].
        -- rewrite upd_same, Nat.eqb_refl. exact Hdi.
        -- rewrite upd_other by exact Hne.
           specialize (Hd j). unfold holds_w, holds_r in Hd. rewrite Hw, Hr in Hd. cbn in Hd.
           destruct (Nat.eqb_spec i j); [congruence|]. exact Hd.
      * reflexivity.
      * constructor.
    + eapply Inv_advance; eauto.
      * intros hw hr. cbn [disciplined_from]. rewrite Enm. auto.
      * apply updm_other. rewrite String.eqb_sym. exact Enm.
  - (* Unlock n *)
    destruct (wr (lks s n)) as [k|] eqn:Hw; [|exact HI].
    destruct (String.eqb n m) eqn:Enm.
    + apply String.eqb_eq in Enm. subst n.
      cbn [disciplined_from] in Hdi. rewrite String.eqb_refl in Hdi.
      apply andb_prop in Hdi as [Hhw Hdi].
      unfold holds_w in Hhw. rewrite Hw in Hhw. apply Nat.eqb_eq in Hhw. subst k.
      destruct HI as [Hd He Hn].
      constructor; cbn; unfold holds_w, holds_r; cbn; rewrite ?updm_same; cbn.
      * intros j. destruct (Nat.eq_dec j i) as [->|Hne].
        -- rewrite upd_same. exact Hdi.
        -- rewrite upd_other by exact Hne.
           specialize (Hd j). unfold holds_w, holds_r in Hd. rewrite Hw in Hd.
           destruct (Nat.eqb_spec i j); [congruence|]. exact Hd.
      * discriminate.
      * exact Hn.
    + eapply Inv_advance; eauto.
      * intros hw hr. cbn [disciplined_from]. rewrite Enm. auto.
      * apply updm_other. rewrite String.eqb_sym. exact Enm.
  - (* RLock n *)
    destruct (wr (lks s n)) as [k|] eqn:Hw; [exact HI|].
    destruct (String.eqb n m) eqn:Enm.
    + apply String.eqb_eq in Enm. subst n.
      cbn [disciplined_from] in Hdi. rewrite String.eqb_refl in Hdi.
      apply andb_prop in Hdi as [Hneg Hdi]. apply andb_prop in Hneg as [_ Hnr].
      unfold holds_r in Hnr. apply negb_true_iff in Hnr.
      destruct HI as [Hd He Hn].
      constructor; cbn; unfold holds_w, holds_r; cbn; rewrite ?updm_same; cbn.
      * intros j. destruct (Nat.eq_dec j i) as [->|Hne].
        -- rewrite upd_same, Nat.eqb_refl. cbn. exact Hdi.
        -- rewrite upd_other by exact Hne.
           specialize (Hd j). unfold holds_w, holds_r in Hd. rewrite Hw in Hd.
           destruct (Nat.eqb_spec j i); [congruence|]. cbn. exact Hd.
      * discriminate.
      * constructor; [|exact Hn]. intros Hin. apply mem_In in Hin. congruence.
    + eapply Inv_advance; eauto.
      * intros hw hr. cbn [disciplined_from]. rewrite Enm. auto.
      * apply updm_other. rewrite String.eqb_sym. exact Enm.
  - (* RUnlock n *)
    destruct (rds (lks s n)) as [|j0 rest] eqn:Hr; [exact HI|].
    destruct (String.eqb n m) eqn:Enm.
    + apply String.eqb_eq in Enm. subst n.
      cbn [disciplined_from] in Hdi. rewrite String.eqb_refl in Hdi.
      apply andb_prop in Hdi as [Hhr Hdi].
      unfold holds_r in Hhr. rewrite Hr in Hhr. rewrite Hhr.
      destruct HI as [Hd He Hn]. rewrite Hr in Hn.
      assert (Hne0 : j0 :: rest <> []) by discriminate.
      set (l := j0 :: rest) in *. clearbody l.
      constructor; unfold holds_w, holds_r; cbn [rem lks wr rds]; rewrite ?updm_same; cbn [rem lks wr rds].
      * intros j. destruct (Nat.eq_dec j i) as [->|Hne].
        -- rewrite upd_same, mem_remove_same by exact Hn.
           unfold holds_w in Hdi. exact Hdi.
        -- rewrite upd_other by exact Hne. rewrite mem_remove_other by exact Hne.
           specialize (Hd j). unfold holds_w, holds_r in Hd. rewrite Hr in Hd. exact Hd.
      * intros j Hj. apply He in Hj. rewrite Hr in Hj. contradiction.
      * apply NoDup_remove_one. exact Hn.
    + eapply Inv_advance; eauto.
      * intros hw hr. cbn [disciplined_from]. rewrite Enm. auto.
      * apply updm_other. rewrite String.eqb_sym. exact Enm.
  - (* Read h *)
    eapply Inv_advance; eauto. intros hw hr. cbn [disciplined_from].
    destruct (String.eqb h g); [|auto]. intros H. apply andb_prop in H. tauto.
  - (* Write h *)
    eapply Inv_advance; eauto. intros hw hr. cbn [disciplined_from].
    destruct (String.eqb h g); [|auto]. intros H. apply andb_prop in H. tauto.
  - (* Call *)
    eapply Inv_advance; eauto. intros hw hr. cbn [disciplined_from].
    intros H. apply andb_prop in H. tauto.
  - (* Return *)
    eapply Inv_advance; eauto.
  - (* Opaque *)
    cbn in Hdi. discriminate.
Qed.

Lemma Inv_run progs sched :
  (forall i, disciplined g m (progs i) = true) -> Inv (run progs sched).
Proof.
  intros H. unfold run. assert (HI : Inv (init progs)) by (apply Inv_init; exact H).
  revert HI. generalize (init progs).
  induction sched as [|i sched IH]; cbn; intros s HI; [exact HI|]. apply IH, Inv_step, HI.
Qed.

(* ---- consequences of the invariant -------------------------------------------------------- *)

Lemma Inv_exclusive s i j :
  Inv s -> holds_w m s i = true -> holds_w m s j = true \/ holds_r m s j = true -> i = j.
Proof.
  intros HI Hi Hj. unfold holds_w, holds_r in *.
  destruct (wr (lks s m)) as [k|] eqn:Hw; [|discriminate].
  apply Nat.eqb_eq in Hi. subst k.
  destruct Hj as [Hj|Hj]; [now apply Nat.eqb_eq in Hj|].
  rewrite (I_excl s HI i Hw) in Hj. discriminate.
Qed.

Lemma Inv_pending_write s i : Inv s -> pending g s i = Some Wr -> holds_w m s i = true.
Proof.
  intros HI Hp. assert (Hd := I_disc s HI i). unfold pending in Hp.
  destruct (rem s i) as [|[n|n|n|n|h|h|f| |] r]; try discriminate.
  - destruct (String.eqb h g); discriminate.
  - cbn [disciplined_from] in Hd. destruct (String.eqb h g); [|discriminate].
    apply andb_prop in Hd. tauto.
Qed.

Lemma Inv_pending_read s i :
  Inv s -> pending g s i = Some Rd -> holds_w m s i = true \/ holds_r m s i = true.
Proof.
  intros HI Hp. assert (Hd := I_disc s HI i). unfold pending in Hp.
  destruct (rem s i) as [|[n|n|n|n|h|h|f| |] r]; try discriminate.
  - cbn [disciplined_from] in Hd. destruct (String.eqb h g); [|discriminate].
    apply andb_prop in Hd as [Hd _]. apply orb_prop in Hd. exact Hd.
  - destruct (String.eqb h g); discriminate.
Qed.

Lemma Inv_pending s i a :
  Inv s -> pending g s i = Some a -> holds_w m s i = true \/ holds_r m s i = true.
Proof.
  intros HI Hp. destruct a; [eapply Inv_pending_read; eauto|left; eapply Inv_pending_write; eauto].
Qed.

Lemma Inv_no_race s : Inv s -> ~ race g s.
Proof.
  intros HI (i & j & a & b & Hne & Hi & Hj & Hc).
  destruct a, b; try discriminate.
  - (* i reads, j writes *)
    apply Hne. symmetry. eapply Inv_exclusive; eauto using Inv_pending_write, Inv_pending_read.
  - apply Hne. eapply Inv_exclusive; eauto using Inv_pending_write, Inv_pending_read.
  - apply Hne. eapply Inv_exclusive; eauto using Inv_pending_write.
Qed.

Lemma Inv_no_fatal s i : Inv s -> ~ fatal_unlock m s i.
Proof.
  intros HI Hf. assert (Hd := I_disc s HI i). unfold fatal_unlock in Hf.
  destruct (rem s i) as [|[n|n|n|n|h|h|f| |] r]; try contradiction.
  - destruct Hf as [-> Hw]. cbn [disciplined_from] in Hd. rewrite String.eqb_refl in Hd.
    apply andb_prop in Hd as [Hd _]. unfold holds_w in Hd. rewrite Hw in Hd. discriminate.
  - destruct Hf as [-> Hr]. cbn [disciplined_from] in Hd. rewrite String.eqb_refl in Hd.
    apply andb_prop in Hd as [Hd _]. unfold holds_r in Hd. rewrite Hr in Hd. discriminate.
Qed.

Theorem lockset_race_free :
  forall progs : tid -> list ev,
    (forall i, disciplined g m (progs i) = true) ->
    forall sched, let s := run progs sched in
      (forall i j, holds_w m s i = true -> holds_w m s j = true \/ holds_r m s j = true -> i = j) /\
      (forall i a, pending g s i = Some a -> holds_w m s i = true \/ holds_r m s i = true) /\
      (forall i, pending g s i = Some Wr -> holds_w m s i = true) /\
      ~ race g s /\
      (forall i, ~ fatal_unlock m s i).
Proof.
  intros progs H sched s. assert (HI : Inv s) by (apply Inv_run; exact H).
  repeat split.
  - intros i j. apply Inv_exclusive; assumption.
  - intros i a. apply Inv_pending; assumption.
  - intros i. apply Inv_pending_write; assumption.
  - apply Inv_no_race; assumption.
  - intros i. apply Inv_no_fatal; assumption.
Qed.

(* ---- threads are sequences of calls: discipline composes ---------------------------------- *)

Lemma disciplined_from_app p q hw hr :
  disciplined_from g m hw hr p = true -> disciplined g m q = true ->
  disciplined_from g m hw hr (p ++ q) = true.
Proof.
  revert hw hr. induction p as [|e p IH]; intros hw hr Hp Hq.
  - cbn in Hp. apply andb_prop in Hp as [H1 H2].
    apply negb_true_iff in H1, H2. subst. exact Hq.
  - cbn [app disciplined_from] in *.
    destruct e as [n|n|n|n|h|h|f| |];
      try (destruct (String.eqb _ _));
      repeat match goal with
             | H : _ && _ = true |- _ => apply andb_prop in H as [? ?]
             end;
      repeat (apply andb_true_intro; split); auto; discriminate.
Qed.

Lemma disciplined_concat ps :
  Forall (fun p => disciplined g m p = true) ps -> disciplined g m (List.concat ps) = true.
Proof.
  induction 1 as [|p ps Hp _ IH]; [reflexivity|].
  cbn [List.concat]. unfold disciplined. apply disciplined_from_app; assumption.
Qed.

Theorem lockset_calls_race_free :
  forall calls : tid -> list (list ev),
    (forall i, Forall (fun p => disciplined g m p = true) (calls i)) ->
    forall sched, ~ race g (run (fun i => List.concat (calls i)) sched).
Proof.
  intros calls H sched. apply Inv_no_race, Inv_run. intros i. apply disciplined_concat, H.
Qed.

End Lockset.

(* ---- a location nobody writes has no race (registries after initialisation) ---------------- *)

Lemma read_only_tail g e r : read_only g (e :: r) = true -> read_only g r = true.
Proof.
  unfold read_only. cbn [existsb]. intros H. apply negb_true_iff in H.
  apply orb_false_iff in H as [_ H]. now rewrite H.
Qed.

Lemma read_only_step g s i :
  (forall j, read_only g (rem s j) = true) -> forall j, read_only g (rem (step s i) j) = true.
Proof.
  intros H j. unfold step. destruct (rem s i) as [|e r] eqn:Hrem; [apply H|].
  assert (Hr : read_only g r = true) by (eapply read_only_tail; rewrite <- Hrem; apply H).
  assert (Hadv : read_only g (upd (rem s) i r j) = true).
  { destruct (Nat.eq_dec j i) as [->|Hne]; [now rewrite upd_same|rewrite upd_other by exact Hne; apply H]. }
  destruct e as [n|n|n|n|h|h|f| |]; cbn [rem]; try exact Hadv.
  - destruct (wr (lks s n)); [apply H|]. destruct (rds (lks s n)); [exact Hadv|apply H].
  - destruct (wr (lks s n)); [exact Hadv|apply H].
  - destruct (wr (lks s n)); [apply H|exact Hadv].
  - destruct (rds (lks s n)); [apply H|exact Hadv].
Qed.

Theorem read_only_race_free :
  forall (g : loc) (progs : tid -> list ev),
    (forall i, read_only g (progs i) = true) -> forall sched, ~ race g (run progs sched).
Proof.
  intros g progs H sched.
  assert (HI : forall j, read_only g (rem (run progs sched) j) = true).
  { unfold run. assert (H0 : forall j, read_only g (rem (init progs) j) = true) by exact H.
    revert H0. generalize (init progs). induction sched as [|i sched IH]; cbn; intros s Hs; [exact Hs|].
    apply IH. apply read_only_step. exact Hs. }
  intros (i & j & a & b & _ & Hi & Hj & Hc).
  assert (Hw : forall k, pending g (run progs sched) k = Some Wr -> False).
  { intros k Hk. specialize (HI k). unfold pending in Hk.
    destruct (rem (run progs sched) k) as [|[n|n|n|n|h|h|f| |] r]; try discriminate.
    - destruct (String.eqb h g); discriminate.
    - destruct (String.eqb h g) eqn:E; [|discriminate].
      unfold read_only in HI. cbn in HI. rewrite E in HI. discriminate. }
  destruct a, b; try discriminate; eauto.
Qed.
