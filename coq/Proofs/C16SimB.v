(* Proofs/C16SimB.v -- the step lemma of the simulation: one byte of input keeps the sanitizer's
   lexer and the consumer's tokenizer related, provided the template is well-formed at that byte. *)
From Coq Require Import Lia ZifyBool ZifyN ZifyNat.
From GenqlV Require Import Base.Prelude Model.MySqlString Model.Sanitizer Spec.C16Spec
  Proofs.C16Bytes Proofs.C16SimA.
Local Open Scope string_scope.
Local Open Scope bool_scope.
Local Opaque code.

(* ---------------------------------------------------------------- projections of wf_at *)

Lemma wf_W1 prev m c rest :
  wf_at prev m c rest = true -> ph_here c rest = true ->
  match mlabel m c rest with
  | InWord => False
  | Default => m = MDef /\ prev_ok prev = true /\ follow_ok rest = true /\ (count_digits rest <= 18)%nat
  | _ => True
  end.
Proof.
  unfold wf_at. intros H Hp. rewrite Hp in H.
  repeat (apply andb_prop in H; destruct H as [H ?]).
  destruct (mlabel m c rest); try exact I; try discriminate.
  repeat (apply andb_prop in H; destruct H as [H ?]).
  destruct m; try discriminate. repeat split; auto. now apply Nat.leb_le.
Qed.

Lemma wf_W2 prev m c rest :
  wf_at prev m c rest = true ->
  match m with
  | MAt => is c "@" || is c c_bt || is_letter c || is_digit c
  | MAtAt => is c c_bt || is_letter c || is_digit c
  | _ => true
  end = true.
Proof. unfold wf_at. intro H. repeat (apply andb_prop in H; destruct H as [H ?]). assumption. Qed.

Lemma wf_W3 prev m c rest :
  wf_at prev m c rest = true ->
  match m with MAtVar => negb (is c c_sq || is c c_dq || is c c_bt) | _ => true end = true.
Proof. unfold wf_at. intro H. repeat (apply andb_prop in H; destruct H as [H ?]). assumption. Qed.

Lemma wf_W4 prev m c rest :
  wf_at prev m c rest = true ->
  match m with
  | MNExpMark => if is c "+" || is c "-" then nxt_sat rest is_digit else true
  | _ => true
  end = true.
Proof. unfold wf_at. intro H. repeat (apply andb_prop in H; destruct H as [H ?]). assumption. Qed.

Lemma wf_W5 prev m c rest :
  wf_at prev m c rest = true ->
  match m with
  | MHexLit | MBitLit =>
      match mcont m c rest with
      | None => false
      | Some _ => negb (is c c_sq && nxt_is rest c_sq)
      end
  | _ => true
  end = true.
Proof. unfold wf_at. intro H. repeat (apply andb_prop in H; destruct H as [H ?]). assumption. Qed.

Lemma wf_W6 prev m c rest :
  wf_at prev m c rest = true ->
  match m with MBT0 => match mcont m c rest with None => false | Some _ => true end | _ => true end = true.
Proof. unfold wf_at. intro H. repeat (apply andb_prop in H; destruct H as [H ?]). assumption. Qed.

(* ---------------------------------------------------------------- bytes inside a word *)

Definition inert_byte (c : ascii) : bool :=
  is_letter c || is_digit c || is c "." || is c "@" || is c "=" || is c ":" || is c "+".

Lemma raw_inert c rest :
  inert_byte c = true ->
  raw_next c rest =
    if (is c "e" || is c "E") && nxt_is rest c_sq then SPeek CEsc
    else if is c "$" && nxt_sat rest is_digit then SPlace
    else SRun CRaw.
Proof.
  intro Hi. unfold inert_byte in Hi. unfold raw_next.
  destruct rest as [|c1 rest1]; [|destruct rest1 as [|c2 rest2]];
  cbn [nxt_is nxt_sat peek2 blank_or_eof].
  all: repeat match goal with
       | |- context [if ?b then _ else _] => destruct b eqn:?; try (exfalso; arith)
       end.
  all: try reflexivity.
Qed.

Lemma raw_minus_digit c rest :
  is c "-" = true -> nxt_sat rest is_digit = true -> raw_next c rest = SRun CRaw.
Proof.
  intros Hc Hd. unfold raw_next.
  destruct rest as [|c1 rest1]; [discriminate|]. cbn [nxt_is nxt_sat peek2 blank_or_eof] in *.
  repeat match goal with
  | |- context [if ?b then _ else _] => destruct b eqn:?; try (exfalso; arith)
  end; reflexivity.
Qed.

(* a byte that continues a word of the consumer is inert for the sanitizer *)
Lemma cont_class prev m c rest m' :
  rawlike m = true -> mcont m c rest = Some m' -> wf_at prev m c rest = true ->
  (inert_byte c = true /\ rawlike m' = true)
  \/ (is c "-" = true /\ nxt_sat rest is_digit = true /\ rawlike m' = true)
  \/ (is c c_bt = true /\ m' = MBT0).
Proof.
  intros Hr Hc Hwf.
  pose proof (wf_W2 _ _ _ _ Hwf) as W2. pose proof (wf_W3 _ _ _ _ Hwf) as W3.
  pose proof (wf_W4 _ _ _ _ Hwf) as W4. clear Hwf.
  unfold inert_byte.
  destruct m; try discriminate; cbn [mcont] in Hc;
  repeat match type of Hc with
  | context [if ?b then _ else _] => destruct b eqn:?
  end; inversion Hc; subst m'; clear Hc; cbn [rawlike].
  all: try (left; split; [arith|reflexivity]).
  all: try (right; right; split; [arith|reflexivity]).
  - destruct (is c "-") eqn:Hm.
    + right; left. split; [reflexivity|split;[|reflexivity]].
      rewrite orb_true_r in W4. exact W4.
    + left. split; [arith|reflexivity].
Qed.

(* a byte >= 0x80 ends every word and is a LEX_ERROR byte for the dispatcher *)
Lemma hi_step prev m c rest :
  rawlike m = true -> (128 <= code c)%N -> wf_at prev m c rest = true ->
  mstep m c rest = MDef.
Proof.
  intros Hr Hc Hwf. pose proof (wf_W2 _ _ _ _ Hwf) as W2. clear Hwf.
  assert (Hd : step_def c rest = MDef).
  { unfold step_def.
    repeat match goal with
    | |- context [if ?b then _ else _] => destruct b eqn:?; try (exfalso; arith)
    end; reflexivity. }
  unfold mstep. destruct m; try discriminate; cbn [mcont]; try exact Hd;
  repeat match goal with
  | |- context [if ?b then _ else _] => destruct b eqn:?; try (exfalso; arith)
  end; try exact Hd.
Qed.

(* a quote ends every word (except where W2/W3 forbid it) and opens a string *)
Lemma quote_step prev m rest :
  rawlike m = true -> wf_at prev m c_sq rest = true -> mstep m c_sq rest = MStr c_sq.
Proof.
  intros Hr Hwf. pose proof (wf_W2 _ _ _ _ Hwf) as W2. pose proof (wf_W3 _ _ _ _ Hwf) as W3. clear Hwf.
  unfold mstep. destruct m; try discriminate; cbn [mcont]; try reflexivity;
  try (vm_compute in W2; discriminate); try (vm_compute in W3; discriminate).
Qed.

(* ---------------------------------------------------------------- rawState *)

Lemma step_raw prev m c rest :
  rel_ctl CRaw m (String c rest) = true -> wf_at prev m c rest = true ->
  rel (run_next CRaw c rest) (mstep m c rest) rest = true.
Proof.
  intros Hrel Hwf. cbn [rel_ctl] in Hrel. apply orb_prop in Hrel. destruct Hrel as [Hr|Hs].
  - (* the consumer is at a token boundary or inside a word *)
    unfold run_next. destruct (N.ltb_spec (code c) 128) as [Hlo|Hhi].
    + rewrite decode_ascii by assumption. cbn [ascii_next].
      unfold mstep. destruct (mcont m c rest) as [m'|] eqn:Hc.
      * destruct (cont_class _ _ _ _ _ Hr Hc Hwf) as [[Hi Hr']|[[Hm [Hd Hr']]|[Hb ->]]].
        -- rewrite (raw_inert _ _ Hi).
           destruct ((is c "e" || is c "E") && nxt_is rest c_sq) eqn:He.
           ++ apply andb_prop in He. destruct He as [_ He].
              destruct m'; try discriminate; cbn [rel rawlike andb]; exact He.
           ++ destruct (is c "$" && nxt_sat rest is_digit) eqn:Hp.
              ** exfalso. pose proof (wf_W1 _ _ _ _ Hwf Hp) as W1. unfold mlabel in W1. rewrite Hc in W1.
                 destruct m; try discriminate; exact W1.
              ** cbn [rel rel_ctl]. now rewrite Hr'.
        -- rewrite (raw_minus_digit _ _ Hm Hd). cbn [rel rel_ctl]. now rewrite Hr'.
        -- apply is_true_iff in Hb; subst c. reflexivity.
      * apply raw_vs_def. assumption.
    + rewrite (hi_step _ _ _ _ Hr Hhi Hwf).
      destruct (decode_hi c rest Hhi) as [->|[k [-> Hk]]].
      * reflexivity.
      * cbn [Nat.sub rel]. replace (S k - 0)%nat with (S k) by lia. now rewrite Hk.
  - (* the consumer has peeked the quote of N'..', x'..', b'..' *)
    destruct m as [ | | | | | | | | | | | | | | | | | | | | | | | lbl nx]; try discriminate.
    destruct nx; try discriminate.
    + cbn [nxt_is] in Hs. apply is_true_iff in Hs. subst c. reflexivity.
    + cbn [nxt_is] in Hs. apply is_true_iff in Hs. subst c. reflexivity.
    + apply andb_prop in Hs. destruct Hs as [Hq Hd]. cbn [nxt_is] in Hq. apply is_true_iff in Hq. subst d.
      unfold mstep. cbn [mcont]. unfold run_next.
      apply orb_prop in Hd. destruct Hd as [Hd|Hd]; apply is_true_iff in Hd; subst c; vm_compute; reflexivity.
Qed.

(* ---------------------------------------------------------------- quoted states *)

Definition delim_of (ctl : sctl) : ascii :=
  match ctl with CDQ => c_dq | CBT => c_bt | _ => c_sq end.

Lemma hi_not_ascii c k : (128 <= code c)%N -> (code k < 128)%N -> is c k = false.
Proof. intros. rewrite is_code. lia. Qed.

Lemma step_quoted ctl c rest :
  (ctl = CSQ \/ ctl = CEsc \/ ctl = CDQ) ->
  rel (run_next ctl c rest) (mstep (MStr (delim_of ctl)) c rest) rest = true.
Proof.
  intro Hctl. unfold run_next, mstep. cbn [mcont].
  assert (Hd : (code (delim_of ctl) < 128)%N) by (destruct Hctl as [-> | [-> | ->]]; vm_compute; reflexivity).
  assert (Hs : strict_ctl ctl (MStr (delim_of ctl)) = true) by (destruct Hctl as [-> | [-> | ->]]; reflexivity).
  assert (Hr : forall s, rel_ctl ctl (MStr (delim_of ctl)) s = true) by (destruct Hctl as [-> | [-> | ->]]; reflexivity).
  assert (Ha : ascii_next ctl c rest = quoted_next ctl (delim_of ctl) true c rest)
    by (destruct Hctl as [-> | [-> | ->]]; reflexivity).
  destruct (N.ltb_spec (code c) 128) as [Hlo|Hhi].
  - rewrite decode_ascii by assumption. rewrite Ha. unfold quoted_next. cbn [andb].
    destruct (is c c_bsl) eqn:Hb.
    + assert (is c (delim_of ctl) = false) as -> by (destruct Hctl as [-> | [-> | ->]]; cbn [delim_of]; arith).
      destruct rest; cbn [rel]; rewrite Hs; reflexivity.
    + destruct (is c (delim_of ctl)) eqn:Hq.
      * destruct (nxt_is rest (delim_of ctl)).
        -- cbn [rel]. destruct Hctl as [-> | [-> | ->]]; reflexivity.
        -- reflexivity.
      * cbn [rel]. apply Hr.
  - rewrite (hi_not_ascii c _ Hhi Hd).
    assert (is c c_bsl = false) as -> by (apply hi_not_ascii; [assumption|vm_compute; reflexivity]).
    destruct (decode_hi c rest Hhi) as [->|[k [-> Hk]]].
    + cbn [rel]. apply Hr.
    + cbn [Nat.sub rel]. replace (S k - 0)%nat with (S k) by lia. now rewrite Hk, Hs.
Qed.

(* x'..' / b'..' : the sanitizer sees an ordinary '..' string *)
Lemma step_hexlit prev m c rest :
  (m = MHexLit \/ m = MBitLit) -> wf_at prev m c rest = true ->
  rel (run_next CSQ c rest) (mstep m c rest) rest = true.
Proof.
  intros Hm Hwf. pose proof (wf_W5 _ _ _ _ Hwf) as W5. clear Hwf.
  unfold mstep. unfold run_next.
  destruct Hm as [-> | ->]; cbn [mcont] in *.
  - destruct (is_hexdigit c) eqn:Hh.
    + rewrite decode_ascii by arith. cbn [ascii_next]. unfold quoted_next.
      assert (is c c_bsl = false) as -> by arith. assert (is c c_sq = false) as -> by arith. reflexivity.
    + destruct (is c c_sq) eqn:Hq; [|discriminate].
      rewrite decode_ascii by arith. cbn [ascii_next]. unfold quoted_next.
      assert (is c c_bsl = false) as -> by arith. rewrite Hq. cbn [andb] in *.
      destruct (nxt_is rest c_sq); [discriminate|reflexivity].
  - destruct (is_bindigit c) eqn:Hh.
    + rewrite decode_ascii by arith. cbn [ascii_next]. unfold quoted_next.
      assert (is c c_bsl = false) as -> by arith. assert (is c c_sq = false) as -> by arith. reflexivity.
    + destruct (is c c_sq) eqn:Hq; [|discriminate].
      rewrite decode_ascii by arith. cbn [ascii_next]. unfold quoted_next.
      assert (is c c_bsl = false) as -> by arith. rewrite Hq. cbn [andb] in *.
      destruct (nxt_is rest c_sq); [discriminate|reflexivity].
Qed.

Lemma step_bt prev m c rest :
  (m = MBT0 \/ m = MBT) -> wf_at prev m c rest = true ->
  rel (run_next CBT c rest) (mstep m c rest) rest = true.
Proof.
  intros Hm Hwf. pose proof (wf_W6 _ _ _ _ Hwf) as W6. clear Hwf.
  unfold mstep, run_next.
  destruct (N.ltb_spec (code c) 128) as [Hlo|Hhi].
  - rewrite decode_ascii by assumption. cbn [ascii_next]. unfold quoted_next. cbn [andb].
    destruct Hm as [-> | ->]; cbn [mcont] in *; destruct (is c c_bt); destruct (nxt_is rest c_bt);
    try reflexivity; try discriminate.
  - assert (is c c_bt = false) as Hb by (apply hi_not_ascii; [assumption|vm_compute; reflexivity]).
    destruct Hm as [-> | ->]; cbn [mcont]; rewrite Hb;
    destruct (decode_hi c rest Hhi) as [->|[k [-> Hk]]]; try reflexivity;
    cbn [Nat.sub rel]; replace (S k - 0)%nat with (S k) by lia; now rewrite Hk.
Qed.

Lemma step_line c rest :
  rel (run_next CLine c rest) (mstep MLine c rest) rest = true.
Proof.
  unfold mstep, run_next. cbn [mcont].
  destruct (N.ltb_spec (code c) 128) as [Hlo|Hhi].
  - rewrite decode_ascii by assumption. cbn [ascii_next]. destruct (is c c_nl); reflexivity.
  - assert (is c c_nl = false) as -> by (apply hi_not_ascii; [assumption|vm_compute; reflexivity]).
    destruct (decode_hi c rest Hhi) as [->|[k [-> Hk]]]; try reflexivity.
    cbn [Nat.sub rel]. replace (S k - 0)%nat with (S k) by lia. now rewrite Hk.
Qed.

Lemma step_block c rest :
  rel (run_next CBlock c rest) (mstep MBlock c rest) rest = true.
Proof.
  unfold mstep, run_next. cbn [mcont].
  destruct (N.ltb_spec (code c) 128) as [Hlo|Hhi].
  - rewrite decode_ascii by assumption. cbn [ascii_next].
    destruct (is c "*" && nxt_is rest "/"); reflexivity.
  - assert (is c "*" = false) as -> by (apply hi_not_ascii; [assumption|vm_compute; reflexivity]).
    cbn [andb]. destruct (decode_hi c rest Hhi) as [->|[k [-> Hk]]]; try reflexivity.
    cbn [Nat.sub rel]. replace (S k - 0)%nat with (S k) by lia. now rewrite Hk.
Qed.

(* the consumer's state is unchanged by a byte >= 0x80 in every strict state *)
Lemma strict_hi ctl m c rest :
  strict_ctl ctl m = true -> (128 <= code c)%N -> mstep m c rest = m.
Proof.
  intros Hs Hc. unfold mstep.
  destruct ctl, m; try discriminate; cbn [mcont strict_ctl] in *.
  - unfold step_def.
    repeat match goal with
    | |- context [if ?b then _ else _] => destruct b eqn:?; try (exfalso; arith)
    end; reflexivity.
  - apply is_true_iff in Hs; subst d.
    assert (is c c_sq = false) as -> by (apply hi_not_ascii; [assumption|vm_compute; reflexivity]).
    assert (is c c_bsl = false) as -> by (apply hi_not_ascii; [assumption|vm_compute; reflexivity]). reflexivity.
  - apply is_true_iff in Hs; subst d.
    assert (is c c_dq = false) as -> by (apply hi_not_ascii; [assumption|vm_compute; reflexivity]).
    assert (is c c_bsl = false) as -> by (apply hi_not_ascii; [assumption|vm_compute; reflexivity]). reflexivity.
  - apply is_true_iff in Hs; subst d.
    assert (is c c_sq = false) as -> by (apply hi_not_ascii; [assumption|vm_compute; reflexivity]).
    assert (is c c_bsl = false) as -> by (apply hi_not_ascii; [assumption|vm_compute; reflexivity]). reflexivity.
  - assert (is c c_bt = false) as -> by (apply hi_not_ascii; [assumption|vm_compute; reflexivity]). reflexivity.
  - assert (is c c_nl = false) as -> by (apply hi_not_ascii; [assumption|vm_compute; reflexivity]). reflexivity.
  - assert (is c "*" = false) as -> by (apply hi_not_ascii; [assumption|vm_compute; reflexivity]). reflexivity.
Qed.

Lemma strict_rel ctl m s : strict_ctl ctl m = true -> rel_ctl ctl m s = true.
Proof. destruct ctl, m; try discriminate; cbn; auto. Qed.

(* ---------------------------------------------------------------- the step lemma *)

Lemma rel_ctl_step prev ctl m c rest :
  rel_ctl ctl m (String c rest) = true -> wf_at prev m c rest = true ->
  rel (run_next ctl c rest) (mstep m c rest) rest = true.
Proof.
  intros Hrel Hwf. destruct ctl.
  - eapply step_raw; eassumption.
  - cbn [rel_ctl] in Hrel. destruct m; try discriminate.
    + eapply step_hexlit; [left; reflexivity|eassumption].
    + eapply step_hexlit; [right; reflexivity|eassumption].
    + apply is_true_iff in Hrel; subst d. apply (step_quoted CSQ). auto.
  - cbn [rel_ctl] in Hrel. destruct m; try discriminate.
    apply is_true_iff in Hrel; subst d. apply (step_quoted CDQ). auto.
  - cbn [rel_ctl] in Hrel. destruct m; try discriminate.
    apply is_true_iff in Hrel; subst d. apply (step_quoted CEsc). auto.
  - cbn [rel_ctl] in Hrel. destruct m; try discriminate.
    + eapply step_bt; [left; reflexivity|eassumption].
    + eapply step_bt; [right; reflexivity|eassumption].
  - cbn [rel_ctl] in Hrel. destruct m; try discriminate. apply step_line.
  - cbn [rel_ctl] in Hrel. destruct m; try discriminate. apply step_block.
Qed.

Theorem step_sim prev s m c rest :
  rel s m (String c rest) = true -> wf_at prev m c rest = true ->
  rel (snext s c rest) (mstep m c rest) rest = true.
Proof.
  intros Hrel Hwf. destruct s as [ctl| |k ctl|ctl|ctl].
  - (* SRun *) cbn [rel snext] in *. eapply rel_ctl_step; eassumption.
  - (* SPlace *) cbn [rel snext] in *. destruct m; try discriminate.
    destruct (is_digit c) eqn:Hd.
    + unfold mstep. cbn [mcont]. rewrite Hd, orb_true_r. reflexivity.
    + eapply step_raw; [reflexivity|eassumption].
  - (* SCont *) destruct k as [|k]; [discriminate|]. cbn [rel] in Hrel.
    apply andb_prop in Hrel. destruct Hrel as [Hk Hs]. cbn [conts] in Hk.
    apply andb_prop in Hk. destruct Hk as [Hc Hk].
    rewrite (strict_hi _ _ _ _ Hs) by lia.
    destruct k as [|k]; cbn [snext rel].
    + now apply strict_rel.
    + now rewrite Hk, Hs.
  - (* SPeek *) cbn [snext]. cbn [rel] in Hrel.
    destruct m as [ | | | | | | | | | | | | | | | | | | | | | | | lbl nx].
    24: { apply andb_prop in Hrel; destruct Hrel as [Hrel _]; unfold mstep; cbn [mcont tl_s rel] in *; exact Hrel. }
    all: destruct ctl; try discriminate.
    (* SPeek CEsc from rawState: the peeked byte is the quote after e / E *)
    all: apply andb_prop in Hrel; destruct Hrel as [Hr Hq]; cbn [nxt_is] in Hq; apply is_true_iff in Hq; subst c;
         rewrite (quote_step _ _ _ Hr Hwf); reflexivity.
  - (* SEscNext *) cbn [snext rel] in *.
    destruct m as [ | | | | | | | | | | | | | | | | | | d | | | | | lbl nx]; try discriminate.
    + apply andb_prop in Hrel. destruct Hrel as [_ Hrel]. discriminate.
    + destruct lbl; try discriminate. destruct nx; try discriminate.
      unfold mstep. cbn [mcont].
      destruct (decode_rune (String c rest)) eqn:Hdec; try (now apply strict_rel).
      destruct (N.ltb_spec (code c) 128) as [Hlo|Hhi].
      * rewrite decode_ascii in Hdec by assumption. discriminate.
      * destruct (decode_hi c rest Hhi) as [E|[k [E Hk]]]; rewrite E in Hdec; [discriminate|].
        inversion Hdec; subst w. cbn [Nat.sub rel]. replace (S k - 0)%nat with (S k) by lia.
        now rewrite Hk, Hrel.
Qed.
