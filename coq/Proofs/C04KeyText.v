(* Proofs/C04KeyText.v — the text key of a join row and the catalog built from it.
   1. [key_text] (each column's %v text, length-prefixed) is injective on the list of texts;
      the pinned "%v-" concatenation is not.
   2. [to_catalog] groups the rows by key text, groups in order of first appearance, rows inside
      a group in source order, each row exactly once. *)
From Coq Require Import Floats DecimalString Decimal DecimalN Permutation.
From GenqlV Require Import Base.Prelude Base.Fmt Base.Value Model.Ast Model.Eval Model.Join.
Local Open Scope list_scope.

(* ------------------------------------------------------------------ *)
(* strings                                                              *)
(* ------------------------------------------------------------------ *)

Lemma sapp_assoc (a b c : string) : ((a ++ b) ++ c = a ++ (b ++ c))%string.
Proof. induction a as [|x a IH]; cbn; [reflexivity|now rewrite IH]. Qed.

Lemma slength_app (a b : string) : String.length (a ++ b) = String.length a + String.length b.
Proof. induction a as [|x a IH]; cbn; [reflexivity|now rewrite IH]. Qed.

(* two splits of the same string at the same position coincide *)
Lemma sapp_inv_length (a b c d : string) :
  (a ++ b = c ++ d)%string -> String.length a = String.length c -> a = c /\ b = d.
Proof.
  revert c. induction a as [|x a IH]; intros [|y c]; cbn; intros H Hl; try discriminate.
  - auto.
  - injection H as -> H. injection Hl as Hl. destruct (IH c H Hl) as [-> ->]. auto.
Qed.

Definition colon : ascii := ":"%char.

Fixpoint lacks_colon (s : string) : bool :=
  match s with
  | EmptyString => true
  | String c r => negb (Ascii.eqb c colon) && lacks_colon r
  end.

(* the first ':' delimits the prefix *)
Lemma colon_split (a c b d : string) :
  lacks_colon a = true -> lacks_colon c = true ->
  (a ++ String colon b = c ++ String colon d)%string -> a = c /\ b = d.
Proof.
  revert c. induction a as [|x a IH]; intros [|y c]; cbn; intros Ha Hc H.
  - injection H as ->. auto.
  - injection H as <- _. cbn in Hc. discriminate.
  - injection H as -> _. cbn in Ha. discriminate.
  - injection H as -> H. apply andb_prop in Ha, Hc. destruct Ha as [_ Ha], Hc as [_ Hc].
    destruct (IH c Ha Hc H) as [-> ->]. auto.
Qed.

Lemma uint_lacks_colon d : lacks_colon (NilEmpty.string_of_uint d) = true.
Proof. induction d; cbn; auto. Qed.

Lemma N_to_dec_lacks_colon n : lacks_colon (N_to_dec n) = true.
Proof.
  unfold N_to_dec, NilZero.string_of_uint.
  destruct (N.to_uint n); try reflexivity; apply (uint_lacks_colon (_ _)).
Qed.

Lemma uint_string_inj d d' :
  NilEmpty.string_of_uint d = NilEmpty.string_of_uint d' -> d = d'.
Proof.
  intros H. pose proof (NilEmpty.usu d) as H1. rewrite H, NilEmpty.usu in H1. congruence.
Qed.

Lemma N_to_uint_nonnil n : N.to_uint n <> Nil.
Proof. destruct n; cbn; [discriminate|apply DecimalPos.Unsigned.to_uint_nonnil]. Qed.

Lemma N_to_dec_inj n m : N_to_dec n = N_to_dec m -> n = m.
Proof.
  unfold N_to_dec, NilZero.string_of_uint. intros H.
  pose proof (N_to_uint_nonnil n) as Hn. pose proof (N_to_uint_nonnil m) as Hm.
  apply DecimalN.Unsigned.to_uint_inj.
  destruct (N.to_uint n) eqn:En; [congruence|..];
  destruct (N.to_uint m) eqn:Em; try congruence;
  apply uint_string_inj; exact H.
Qed.

(* ------------------------------------------------------------------ *)
(* key_text                                                             *)
(* ------------------------------------------------------------------ *)

(* the encoding as a function of the list of texts *)
Fixpoint enc (ts : list string) : string :=
  match ts with
  | [] => EmptyString
  | t :: r => (N_to_dec (N.of_nat (String.length t)) ++ ":" ++ t ++ enc r)%string
  end.

Lemma key_text_enc vs k : key_text vs = Ok k ->
  exists ts, map fmt_value vs = map Some ts /\ k = enc ts.
Proof.
  revert k. induction vs as [|v r IH]; cbn; intros k H.
  - injection H as <-. exists []. auto.
  - destruct (fmt_value v) as [t|]; [|discriminate].
    destruct (key_text r) as [rest| | |]; cbn in H; try discriminate.
    injection H as <-. destruct (IH rest eq_refl) as (ts & Hm & ->).
    exists (t :: ts). cbn. now rewrite Hm.
Qed.

Lemma enc_key_text vs ts : map fmt_value vs = map Some ts -> key_text vs = Ok (enc ts).
Proof.
  revert ts. induction vs as [|v r IH]; intros [|t ts]; cbn; intros H; try discriminate; auto.
  injection H as -> H. now rewrite (IH ts H).
Qed.

(* the encoding is uniquely decodable: the first ':' ends the length, the length ends the text *)
Lemma enc_inj ts us : enc ts = enc us -> ts = us.
Proof.
  revert us. induction ts as [|t ts IH]; intros [|u us]; cbn; intros H; auto.
  - exfalso. destruct (N_to_dec (N.of_nat (String.length u))); discriminate.
  - exfalso. destruct (N_to_dec (N.of_nat (String.length t))); discriminate.
  - destruct (colon_split _ _ _ _ (N_to_dec_lacks_colon _) (N_to_dec_lacks_colon _) H) as [Hn Hr].
    apply N_to_dec_inj, Nat2N.inj in Hn.
    destruct (sapp_inv_length _ _ _ _ Hr Hn) as [-> He]. now rewrite (IH us He).
Qed.

Lemma map_Some_inj {X} (a b : list X) : map Some a = map Some b -> a = b.
Proof.
  revert b. induction a as [|x a IH]; intros [|y b]; cbn; intros H; try discriminate; auto.
  injection H as -> H. now rewrite (IH b H).
Qed.

(* equal text keys <-> equal column texts, column by column (no assumption on the number of
   columns: the encoding is self-delimiting) *)
Theorem key_text_faithful_strong vs1 vs2 t :
  key_text vs1 = Ok t -> key_text vs2 = Ok t -> map fmt_value vs1 = map fmt_value vs2.
Proof.
  intros H1 H2. destruct (key_text_enc _ _ H1) as (ts & Hm1 & ->).
  destruct (key_text_enc _ _ H2) as (us & Hm2 & He). apply enc_inj in He. subst us.
  now rewrite Hm1, Hm2.
Qed.

Theorem key_text_faithful vs1 vs2 t :
  key_text vs1 = Ok t -> key_text vs2 = Ok t -> List.length vs1 = List.length vs2 ->
  map fmt_value vs1 = map fmt_value vs2.
Proof. intros H1 H2 _. exact (key_text_faithful_strong vs1 vs2 t H1 H2). Qed.

(* and conversely the key is a function of the texts *)
Theorem key_text_of_texts vs1 vs2 t :
  key_text vs1 = Ok t -> map fmt_value vs1 = map fmt_value vs2 -> key_text vs2 = Ok t.
Proof.
  intros H1 Hm. destruct (key_text_enc _ _ H1) as (ts & Hm1 & ->).
  apply enc_key_text. now rewrite <- Hm.
Qed.

Lemma key_text_ok vs : Forall (fun v => fmt_value v <> None) vs -> exists k, key_text vs = Ok k.
Proof.
  induction 1 as [|v r Hv _ [k Hk]]; cbn; [eauto|].
  destruct (fmt_value v); [|congruence]. rewrite Hk. cbn. eauto.
Qed.

(* ---------- the pinned encoding: every text followed by "-" ---------- *)

Fixpoint pinned_key_text (vals : list value) : res string :=
  match vals with
  | [] => Ok ""%string
  | v :: r =>
      match fmt_value v with
      | Some t => let! rest := pinned_key_text r in Ok (t ++ "-" ++ rest)%string
      | None => OutOfModel
      end
  end.

Theorem pinned_key_text_refuted :
  exists vs1 vs2 t,
    pinned_key_text vs1 = Ok t /\ pinned_key_text vs2 = Ok t /\
    List.length vs1 = List.length vs2 /\ map fmt_value vs1 <> map fmt_value vs2.
Proof.
  exists [VStr "b"; VStr "a-"], [VStr "b-a"; VStr ""], "b-a--"%string.
  vm_compute. repeat split; discriminate.
Qed.

(* ------------------------------------------------------------------ *)
(* the catalog                                                          *)
(* ------------------------------------------------------------------ *)

Definition key_vals (cols : list (list string)) (r : value) : res (list value) :=
  let! vals0 := mapM (fun p => reader p r) cols in Ok (map norm_zero vals0).

Definition key_map (cols : list (list string)) (vals : list value) : row :=
  fold_left (fun acc pv => obj_set (dotted (fst pv)) (snd pv) acc) (combine cols vals) [].

(* what ToCatalog computes for one row: its text key and its key map *)
Definition row_key (cols : list (list string)) (r : value) : res (string * row) :=
  let! vals := key_vals cols r in
  let! k := key_text vals in
  Ok (k, key_map cols vals).

Definition cat_step (c : list centry) (x : (string * row) * value) : list centry :=
  cat_insert (fst (fst x)) (snd (fst x)) (snd x) c.

Definition ckeys (c : list centry) : list string := map fst c.
Definition crows (e : centry) : list value := snd (snd e).
Definition ckmap (e : centry) : row := fst (snd e).

(* ToCatalog = compute every row's key, then insert the rows one by one *)
Lemma to_catalog_unfold rows ident identRight on :
  to_catalog rows ident identRight on =
  let! cols := join_columns ident identRight on in
  let! keyed := mapM (row_key cols) rows in
  Ok (fold_left cat_step (combine keyed rows) []).
Proof.
  unfold to_catalog. destruct (join_columns ident identRight on) as [cols| | |]; cbn; try reflexivity.
  generalize (@nil centry) as c.
  induction rows as [|r rest IH]; intros c; cbn; [reflexivity|].
  unfold row_key at 1, key_vals at 1.
  destruct (mapM (fun p => reader p r) cols) as [vals0| | |]; cbn; try reflexivity.
  destruct (key_text (map norm_zero vals0)) as [k| | |]; cbn; try reflexivity.
  rewrite IH. destruct (mapM (row_key cols) rest); cbn; reflexivity.
Qed.

(* order of first appearance *)
Fixpoint nodup_first (l : list string) : list string :=
  match l with
  | [] => []
  | x :: r => x :: filter (fun y => negb (String.eqb x y)) (nodup_first r)
  end.

Definition mem (k : string) (l : list string) : bool := existsb (String.eqb k) l.

Lemma mem_In k l : mem k l = true <-> In k l.
Proof.
  unfold mem. rewrite existsb_exists. split.
  - intros (x & Hx & He). apply String.eqb_eq in He. now subst.
  - intros H. exists k. split; [exact H|apply String.eqb_refl].
Qed.

Lemma ckeys_insert k km r c :
  ckeys (cat_insert k km r c) = if mem k (ckeys c) then ckeys c else ckeys c ++ [k].
Proof.
  induction c as [|[k' [km' rs]] c IH]; cbn; [reflexivity|].
  destruct (String.eqb k k') eqn:E; cbn; [reflexivity|].
  fold (ckeys (cat_insert k km r c)). rewrite IH. fold (ckeys c) (mem k (ckeys c)).
  destruct (mem k (ckeys c)); reflexivity.
Qed.

Definition add_key (acc : list string) (k : string) : list string :=
  if mem k acc then acc else acc ++ [k].

Lemma ckeys_fold xs c :
  ckeys (fold_left cat_step xs c) = fold_left add_key (map (fun x => fst (fst x)) xs) (ckeys c).
Proof.
  revert c. induction xs as [|x xs IH]; intros c; cbn [fold_left map]; [reflexivity|].
  rewrite IH. f_equal. unfold cat_step, add_key. apply ckeys_insert.
Qed.

Lemma filter_filter {X} (p q : X -> bool) l :
  filter p (filter q l) = filter (fun x => q x && p x) l.
Proof.
  induction l as [|x l IH]; cbn; [reflexivity|].
  destruct (q x); cbn; [destruct (p x); now rewrite IH|exact IH].
Qed.

Lemma filter_ext_in' {X} (p q : X -> bool) l :
  (forall x, In x l -> p x = q x) -> filter p l = filter q l.
Proof.
  induction l as [|x l IH]; cbn; intros H; [reflexivity|].
  rewrite (H x) by auto. rewrite IH by auto. reflexivity.
Qed.

Lemma add_key_fold l acc :
  fold_left add_key l acc = acc ++ filter (fun y => negb (mem y acc)) (nodup_first l).
Proof.
  revert acc. induction l as [|x l IH]; intros acc; cbn; [now rewrite app_nil_r|].
  rewrite IH. unfold add_key. destruct (mem x acc) eqn:Ex; cbn.
  - f_equal. rewrite filter_filter. apply filter_ext_in'. intros y _.
    destruct (String.eqb x y) eqn:E; cbn; [|reflexivity].
    apply String.eqb_eq in E. subst. now rewrite Ex.
  - rewrite <- app_assoc. cbn. f_equal. f_equal. rewrite filter_filter.
    apply filter_ext_in'. intros y _. unfold mem. rewrite existsb_app. cbn.
    rewrite orb_false_r, negb_orb. rewrite (String.eqb_sym y x). apply andb_comm.
Qed.

Lemma nodup_first_NoDup l : NoDup (nodup_first l).
Proof.
  induction l as [|x l IH]; cbn; constructor.
  - rewrite filter_In. intros [_ H]. now rewrite String.eqb_refl in H.
  - now apply NoDup_filter.
Qed.

Lemma nodup_first_In l k : In k (nodup_first l) <-> In k l.
Proof.
  induction l as [|x l IH]; cbn; [tauto|]. rewrite filter_In, IH.
  destruct (String.eqb x k) eqn:E.
  - apply String.eqb_eq in E. subst. cbn. tauto.
  - apply String.eqb_neq in E. cbn. tauto.
Qed.

(* the rows filed under key k *)
Definition grp (k : string) (c : list centry) : list value :=
  match cat_find k c with Some (_, rs) => rs | None => [] end.

Lemma cat_find_insert k k' km r c :
  cat_find k (cat_insert k' km r c) =
  match cat_find k c with
  | Some (km0, rs) => Some (km0, if String.eqb k k' then rs ++ [r] else rs)
  | None => if String.eqb k k' then Some (km, [r]) else None
  end.
Proof.
  unfold cat_find. induction c as [|[k0 [km0 rs]] c IH]; cbn.
  - rewrite (String.eqb_sym k' k). destruct (String.eqb k k'); reflexivity.
  - destruct (String.eqb k' k0) eqn:E0; cbn.
    + apply String.eqb_eq in E0. subst k0. rewrite (String.eqb_sym k' k).
      destruct (String.eqb k k') eqn:E; cbn; [reflexivity|].
      destruct (find (fun e => String.eqb (fst e) k) c) as [[? [? ?]]|]; reflexivity.
    + destruct (String.eqb k0 k) eqn:E; cbn.
      * apply String.eqb_eq in E. subst k0. rewrite (String.eqb_sym k k'), E0. reflexivity.
      * exact IH.
Qed.

Lemma grp_insert k k' km r c :
  grp k (cat_insert k' km r c) = grp k c ++ (if String.eqb k k' then [r] else []).
Proof.
  unfold grp. rewrite cat_find_insert.
  destruct (cat_find k c) as [[km0 rs]|]; destruct (String.eqb k k'); cbn; now rewrite ?app_nil_r.
Qed.

Lemma grp_fold k xs c :
  grp k (fold_left cat_step xs c) =
  grp k c ++ map snd (filter (fun x => String.eqb k (fst (fst x))) xs).
Proof.
  revert c. induction xs as [|x xs IH]; intros c; cbn [fold_left filter map]; [now rewrite app_nil_r|].
  rewrite IH. unfold cat_step at 1. rewrite grp_insert, <- app_assoc. f_equal.
  destruct (String.eqb k (fst (fst x))); reflexivity.
Qed.

(* the key map stored with a group is the one of the first row filed under it *)
Definition gkm (k : string) (c : list centry) : option row :=
  match cat_find k c with Some (km, _) => Some km | None => None end.

Lemma gkm_insert k k' km r c :
  gkm k (cat_insert k' km r c) =
  match gkm k c with Some km0 => Some km0 | None => if String.eqb k k' then Some km else None end.
Proof.
  unfold gkm. rewrite cat_find_insert.
  destruct (cat_find k c) as [[km0 rs]|]; [reflexivity|]. destruct (String.eqb k k'); reflexivity.
Qed.

Lemma gkm_fold k xs c :
  gkm k (fold_left cat_step xs c) =
  match gkm k c with
  | Some km0 => Some km0
  | None => match filter (fun x => String.eqb k (fst (fst x))) xs with
            | x :: _ => Some (snd (fst x))
            | [] => None
            end
  end.
Proof.
  revert c. induction xs as [|x xs IH]; intros c; cbn [fold_left filter]; [destruct (gkm k c); reflexivity|].
  rewrite IH. unfold cat_step at 1. rewrite gkm_insert.
  destruct (gkm k c); [reflexivity|]. destruct (String.eqb k (fst (fst x))); reflexivity.
Qed.

(* every entry is found under its own key when keys are distinct *)
Lemma cat_find_entry c e : NoDup (ckeys c) -> In e c -> cat_find (fst e) c = Some (snd e).
Proof.
  unfold cat_find. induction c as [|e0 c IH]; cbn; intros Hn Hin; [easy|].
  inversion Hn as [|? ? Hni Hn']; subst. destruct Hin as [->|Hin].
  - now rewrite String.eqb_refl.
  - destruct (String.eqb (fst e0) (fst e)) eqn:E.
    + apply String.eqb_eq in E. exfalso. apply Hni. rewrite E. now apply in_map.
    + now apply IH.
Qed.

Lemma cat_insert_perm k km r c :
  Permutation (List.concat (map crows (cat_insert k km r c))) (r :: List.concat (map crows c)).
Proof.
  induction c as [|[k' [km' rs]] c IH]; cbn; [reflexivity|].
  destruct (String.eqb k k'); cbn.
  - unfold crows at 1. cbn. rewrite <- app_assoc. cbn.
    symmetry. apply Permutation_middle.
  - unfold crows at 1. cbn. etransitivity; [apply Permutation_app_head, IH|].
    symmetry. apply Permutation_middle.
Qed.

Lemma cat_fold_perm xs c :
  Permutation (List.concat (map crows (fold_left cat_step xs c)))
              (List.concat (map crows c) ++ map snd xs).
Proof.
  revert c. induction xs as [|x xs IH]; intros c; cbn; [now rewrite app_nil_r|].
  etransitivity; [apply IH|]. unfold cat_step at 1.
  etransitivity; [apply Permutation_app_tail, cat_insert_perm|].
  cbn. apply Permutation_middle.
Qed.

Lemma cat_insert_nonempty k km r c :
  Forall (fun e => crows e <> []) c -> Forall (fun e => crows e <> []) (cat_insert k km r c).
Proof.
  induction 1 as [|[k' [km' rs]] c He Hc IH]; cbn.
  - constructor; [discriminate|constructor].
  - destruct (String.eqb k k'); constructor; auto.
    unfold crows; cbn. destruct rs; discriminate.
Qed.

Lemma cat_fold_nonempty xs c :
  Forall (fun e => crows e <> []) c -> Forall (fun e => crows e <> []) (fold_left cat_step xs c).
Proof.
  revert c. induction xs as [|x xs IH]; intros c H; cbn; [exact H|].
  apply IH. now apply cat_insert_nonempty.
Qed.

Lemma combine_map_fst {X Y} (a : list X) (b : list Y) :
  List.length a = List.length b -> map fst (combine a b) = a.
Proof.
  revert b. induction a as [|x a IH]; intros [|y b]; cbn; intros H; try discriminate; auto.
  injection H as H. now rewrite IH.
Qed.

Lemma combine_map_snd {X Y} (a : list X) (b : list Y) :
  List.length a = List.length b -> map snd (combine a b) = b.
Proof.
  revert b. induction a as [|x a IH]; intros [|y b]; cbn; intros H; try discriminate; auto.
  injection H as H. now rewrite IH.
Qed.

Lemma mapM_length {X Y} (f : X -> res Y) l out : mapM f l = Ok out -> List.length out = List.length l.
Proof.
  revert out. induction l as [|x l IH]; cbn; intros out H; [injection H as <-; reflexivity|].
  destruct (f x); cbn in H; try discriminate.
  destruct (mapM f l); cbn in H; try discriminate.
  injection H as <-. cbn. now rewrite (IH _ eq_refl).
Qed.

(* ---------- the catalog theorem ---------- *)

(* [keyed] lists (key text, key map) of every row, in row order *)
Record catalog_of (cols : list (list string)) (rows : list value) (cat : list centry) : Prop := {
  cg_keyed : exists keyed, mapM (row_key cols) rows = Ok keyed /\
     (* groups appear in the order in which their key first appears among the rows *)
     ckeys cat = nodup_first (map fst keyed) /\
     (* a group holds exactly the rows with its key, in source order, and the key map of the
        first of them *)
     (forall e, In e cat ->
        crows e = map snd (filter (fun x => String.eqb (fst e) (fst (fst x))) (combine keyed rows)) /\
        exists x, hd_error (filter (fun x => String.eqb (fst e) (fst (fst x))) (combine keyed rows))
                  = Some x /\ ckmap e = snd (fst x));
  cg_nodup : NoDup (ckeys cat);
  cg_nonempty : Forall (fun e => crows e <> []) cat;
  (* each row exactly once *)
  cg_perm : Permutation (List.concat (map crows cat)) rows }.

Theorem catalog_groups rows ident identRight on cat :
  to_catalog rows ident identRight on = Ok cat ->
  exists cols, join_columns ident identRight on = Ok cols /\ catalog_of cols rows cat.
Proof.
  rewrite to_catalog_unfold.
  destruct (join_columns ident identRight on) as [cols| | |]; cbn; try discriminate.
  destruct (mapM (row_key cols) rows) as [keyed| | |] eqn:Ek; cbn; try discriminate.
  intros [= <-]. exists cols. split; [reflexivity|].
  pose proof (mapM_length _ _ _ Ek) as Hlen.
  assert (Hkeys : ckeys (fold_left cat_step (combine keyed rows) []) = nodup_first (map fst keyed)).
  { rewrite ckeys_fold, add_key_fold. cbn.
    rewrite <- (map_map fst fst), (combine_map_fst _ _ Hlen).
    clear. induction (nodup_first (map fst keyed)); cbn; congruence. }
  assert (Hnd : NoDup (ckeys (fold_left cat_step (combine keyed rows) []))).
  { rewrite Hkeys. apply nodup_first_NoDup. }
  constructor.
  - exists keyed. split; [exact Ek|]. split; [exact Hkeys|].
    intros e He. pose proof (cat_find_entry _ _ Hnd He) as Hf.
    pose proof (grp_fold (fst e) (combine keyed rows) []) as Hg.
    pose proof (gkm_fold (fst e) (combine keyed rows) []) as Hk.
    unfold grp in Hg. unfold gkm in Hk. rewrite Hf in Hg, Hk. cbn in Hg, Hk.
    destruct e as [k [km rs]]. cbn in *. split; [exact Hg|].
    destruct (filter _ (combine keyed rows)) as [|x xs]; [discriminate|].
    exists x. split; [reflexivity|]. now injection Hk.
  - exact Hnd.
  - apply cat_fold_nonempty. constructor.
  - etransitivity; [apply cat_fold_perm|]. cbn. now rewrite (combine_map_snd _ _ Hlen).
Qed.

(* consequences used by the join proofs: every row of a group has the group's key *)
Lemma catalog_row_key cols rows cat e r :
  catalog_of cols rows cat -> In e cat -> In r (crows e) ->
  exists km, row_key cols r = Ok (fst e, km).
Proof.
  intros [(keyed & Hk & _ & Hg) _ _ _] He Hr.
  destruct (Hg e He) as [Hrows _]. rewrite Hrows in Hr.
  apply in_map_iff in Hr. destruct Hr as ([[k km] r'] & <- & Hin).
  apply filter_In in Hin. destruct Hin as [Hin Heq]. cbn in Heq.
  apply String.eqb_eq in Heq. exists km. rewrite Heq. cbn.
  clear - Hk Hin. revert keyed Hk Hin.
  induction rows as [|r0 rows IH]; intros keyed Hk Hin; cbn in Hk.
  - injection Hk as <-. destruct Hin.
  - destruct (row_key cols r0) as [kk| | |] eqn:E0; cbn in Hk; try discriminate.
    destruct (mapM (row_key cols) rows) as [ks| | |]; cbn in Hk; try discriminate.
    injection Hk as <-. cbn in Hin. destruct Hin as [Hin|Hin].
    + injection Hin as -> ->. exact E0.
    + eapply IH; eauto.
Qed.

(* the group's key map is the key map of one of its rows *)
Lemma catalog_key_map cols rows cat e :
  catalog_of cols rows cat -> In e cat ->
  exists r, In r (crows e) /\ row_key cols r = Ok (fst e, ckmap e).
Proof.
  intros Hc He. pose proof Hc as [(keyed & Hk & _ & Hg) _ _ _].
  destruct (Hg e He) as [Hrows (x & Hx & Hkm)].
  destruct (filter _ (combine keyed rows)) as [|x' xs] eqn:Ef; [discriminate|].
  injection Hx as ->. exists (snd x).
  assert (Hin : In (snd x) (crows e)) by (rewrite Hrows; cbn; auto).
  split; [exact Hin|].
  assert (Hxin : In x (combine keyed rows)).
  { assert (In x (filter (fun x0 => String.eqb (fst e) (fst (fst x0))) (combine keyed rows)))
      by (rewrite Ef; now left). now apply filter_In in H. }
  assert (Hxk : fst e = fst (fst x)).
  { assert (In x (filter (fun x0 => String.eqb (fst e) (fst (fst x0))) (combine keyed rows)))
      by (rewrite Ef; now left). apply filter_In in H. now apply String.eqb_eq. }
  rewrite Hkm, Hxk. destruct x as [[k km] r]. cbn in *.
  clear - Hk Hxin. revert keyed Hk Hxin.
  induction rows as [|r0 rows IH]; intros keyed Hk Hin; cbn in Hk.
  - injection Hk as <-. destruct Hin.
  - destruct (row_key cols r0) as [kk| | |] eqn:E0; cbn in Hk; try discriminate.
    destruct (mapM (row_key cols) rows) as [ks| | |]; cbn in Hk; try discriminate.
    injection Hk as <-. cbn in Hin. destruct Hin as [Hin|Hin].
    + injection Hin as -> ->. exact E0.
    + eapply IH; eauto.
Qed.

(* ---------- what the consumers need, invariant under reordering the catalog ----------
   HashedTable.Rows / .Keys are Go maps: the drivers range over them in an unspecified order.
   Everything the join proofs use about a catalog survives any permutation of its entries. *)
Record catalog_inv (cols : list (list string)) (rows : list value) (cat : list centry) : Prop := {
  ci_keys : (forall e r, In e cat -> In r (crows e) -> exists km, row_key cols r = Ok (fst e, km)) /\
            (forall e, In e cat -> exists r, In r (crows e) /\ row_key cols r = Ok (fst e, ckmap e));
  ci_nodup : NoDup (ckeys cat);
  ci_nonempty : Forall (fun e => crows e <> []) cat;
  ci_perm : Permutation (List.concat (map crows cat)) rows }.

Lemma catalog_of_inv cols rows cat : catalog_of cols rows cat -> catalog_inv cols rows cat.
Proof.
  intros H. constructor; try apply H. split.
  - intros e r. apply (catalog_row_key cols rows cat e r H).
  - intros e. apply (catalog_key_map cols rows cat e H).
Qed.

Lemma concat_map_perm {X Y} (f : X -> list Y) l l' :
  Permutation l l' -> Permutation (List.concat (map f l)) (List.concat (map f l')).
Proof.
  induction 1; cbn.
  - constructor.
  - now apply Permutation_app_head.
  - rewrite !app_assoc. apply Permutation_app_tail, Permutation_app_comm.
  - etransitivity; eauto.
Qed.

Lemma catalog_inv_perm cols rows cat cat' :
  Permutation cat cat' -> catalog_inv cols rows cat -> catalog_inv cols rows cat'.
Proof.
  intros Hp [[H1 H2] H3 H4 H5]. constructor.
  - split.
    + intros e r He. apply H1. eapply Permutation_in; [symmetry; exact Hp|exact He].
    + intros e He. apply H2. eapply Permutation_in; [symmetry; exact Hp|exact He].
  - eapply Permutation_NoDup; [|exact H3]. unfold ckeys. now apply Permutation_map.
  - eapply Permutation_Forall; eauto.
  - etransitivity; [|exact H5]. apply concat_map_perm. now symmetry.
Qed.
