(* Proofs/C14Lemmas.v — FunExpr's dispatch (compile) against the in-place reference semantics
   (Spec/StrategiesSpec.v), and the query-level corollaries of the machine theorems. *)
From Coq Require Import Permutation Lia.
From GenqlV Require Import Base.Prelude Base.Value Model.Strategies Spec.StrategiesSpec Proofs.C14Kernel.
Local Open Scope string_scope.
Local Open Scope list_scope.

Section Dispatch.
Variable reg : list (string * bool).
Variable f : oracle.

(* ---------- templates ---------- *)

Definition drow (sl : list (option fres)) (tr : trow) : vrow :=
  map (fun kv => (fst kv, deref sl (snd kv))) tr.

Lemma deref_obj sl kvs : deref sl (CObj kvs) = VObj (drow sl kvs).
Proof.
  unfold drow. cbn [deref]. f_equal.
  induction kvs as [|[k x] r IH]; [reflexivity|]. cbn [map fst snd]. f_equal. exact IH.
Qed.

Lemma deref_arr sl l : deref sl (CArr l) = VArr (map (deref sl) l).
Proof.
  cbn [deref]. reflexivity.
Qed.

Lemma drow_aset sl k c tr : drow sl (aset k c tr) = aset k (deref sl c) (drow sl tr).
Proof.
  induction tr as [|[k' c'] r IH]; cbn; [reflexivity|].
  destruct (String.compare k k'); cbn; [reflexivity|reflexivity|]. f_equal. exact IH.
Qed.

Lemma deref_objs sl trs : map (deref sl) (objs trs) = vobjs (map (drow sl) trs).
Proof.
  unfold objs, vobjs. rewrite !map_map. apply map_ext. intros tr. apply deref_obj.
Qed.

Lemma slot_at pre x post :
  slot_value (pre ++ Some (FOk x) :: post) (List.length pre) = x.
Proof.
  unfold slot_value. rewrite nth_error_app2 by lia. now rewrite Nat.sub_diag.
Qed.

(* ---------- slots and invocations of action lists ---------- *)

Definition mslot (a : mact) : list (option fres) :=
  match a with MSpawn k c => [ideal_slot f (WCall k 0 c)] | MSync _ => [] end.
Definition mslots (l : list mact) : list (option fres) := flat_map mslot l.
Definition mcall (a : mact) : list call :=
  match a with MSync c => [c] | MSpawn k c => if counted k then [c] else [] end.
Definition mcalls (l : list mact) : list call := flat_map mcall l.

Definition isbad (o : option fres) : bool := match o with Some r => failed r | None => false end.
Definition bad (sl : list (option fres)) : bool := existsb isbad sl.

Lemma bad_app a b : bad (a ++ b) = bad a || bad b.
Proof. apply existsb_app. Qed.

Lemma mslots_app a b : mslots (a ++ b) = mslots a ++ mslots b.
Proof. apply flat_map_app. Qed.
Lemma mcalls_app a b : mcalls (a ++ b) = mcalls a ++ mcalls b.
Proof. apply flat_map_app. Qed.

Lemma nspawn_mslots l : nspawn l = List.length (mslots l).
Proof.
  unfold nspawn, mslots. induction l as [|a r IH]; cbn; [reflexivity|].
  rewrite !app_length, <- IH. destruct a; reflexivity.
Qed.

Definition rel_oc (full : list (option fres)) (oc : option (string * cell)) (ov : option (string * value)) : Prop :=
  match oc, ov with
  | Some (n1, c), Some (n2, v) => n1 = n2 /\ deref full c = v
  | None, None => True
  | _, _ => False
  end.

(* ---------- one item ---------- *)

Lemma L_fitem tag r mm nw it a o cs so :
  fitem_ok reg it = true ->
  eval_fitem reg f tag r mm nw it = (a, o) ->
  sync_fitem reg f tag r mm (strip_fitem it) = (cs, so) ->
  match so with
  | Some (ov, mm2) =>
      exists oc, o = Some (oc, mm2) /\ cs = mcalls a /\ bad (mslots a) = false /\
                 forall pre post, List.length pre = nw -> rel_oc (pre ++ mslots a ++ post) oc ov
  | None => o = None \/ bad (mslots a) = true
  end.
Proof.
  intros Hok He Hs. destruct it as [c nm|q fn args nm]; cbn in *.
  - injection He as <- <-. injection Hs as <- <-. eexists. repeat split; auto.
  - destruct (is_registered reg fn); cbn in *.
    2:{ injection He as <- <-. injection Hs as <- <-. now left. }
    destruct q; cbn in *.
    + (* none *)
      destruct (apply_f f _) eqn:Ef; injection He as <- <-; injection Hs as <- <-; try now left.
      eexists. repeat split; auto.
    + (* async *)
      destruct (is_immediate reg fn); [discriminate|]. cbn in *.
      injection He as <- <-.
      destruct (apply_f f _) eqn:Ef; injection Hs as <- <-.
      * eexists. split; [reflexivity|]. cbn. rewrite Ef. cbn. split; [reflexivity|]. split; [reflexivity|].
        intros pre post <-. cbn. split; [reflexivity|]. apply slot_at.
      * right. cbn. now rewrite Ef.
      * right. cbn. now rewrite Ef.
    + (* spin *)
      destruct (is_immediate reg fn); injection He as <- <-; injection Hs as <- <-; [now left|].
      eexists. repeat split; auto.
    + (* spinasync *)
      destruct (is_immediate reg fn); injection He as <- <-; injection Hs as <- <-; [now left|].
      eexists. repeat split; auto.
    + (* once *)
      destruct (assoc fn mm).
      * injection He as <- <-. injection Hs as <- <-. eexists. repeat split; auto.
      * destruct (apply_f f _) eqn:Ef; injection He as <- <-; injection Hs as <- <-; try now left.
        eexists. repeat split; auto.
    + destruct (apply_f f _) eqn:Ef; injection He as <- <-; injection Hs as <- <-; try now left.
      eexists. repeat split; auto.
    + destruct (apply_f f _) eqn:Ef; injection He as <- <-; injection Hs as <- <-; try now left.
      eexists. repeat split; auto.
Qed.

(* ---------- the items of a row, the rows of a flat query ---------- *)

Lemma app3 {A} (a b c d : list A) : a ++ (b ++ c) ++ d = (a ++ b) ++ c ++ d.
Proof. now rewrite !app_assoc. Qed.
Lemma app3' {A} (a b c d : list A) : a ++ (b ++ c) ++ d = a ++ b ++ (c ++ d).
Proof. now rewrite <- !app_assoc. Qed.

Lemma L_fitems its : forall tag i r mm nw acc vacc a o cs so,
  forallb (fitem_ok reg) its = true ->
  eval_fitems reg f tag i r mm nw its acc = (a, o) ->
  sync_fitems reg f tag i r mm (map strip_fitem its) vacc = (cs, so) ->
  match so with
  | Some (vr, mm2) =>
      exists tr, o = Some (tr, mm2) /\ cs = mcalls a /\ bad (mslots a) = false /\
                 forall pre post, List.length pre = nw ->
                   drow (pre ++ mslots a ++ post) acc = vacc ->
                   drow (pre ++ mslots a ++ post) tr = vr
  | None => o = None \/ bad (mslots a) = true
  end.
Proof.
  induction its as [|it rest IH]; intros tag i r mm nw acc vacc a o cs so Hok He Hs; cbn in *.
  - injection He as <- <-. injection Hs as <- <-. eexists. repeat split; auto.
  - apply andb_prop in Hok. destruct Hok as [Hok1 Hok2].
    destruct (eval_fitem reg f (tag ++ [i]) r mm nw it) as [a1 o1] eqn:E1.
    destruct (sync_fitem reg f (tag ++ [i]) r mm (strip_fitem it)) as [c1 so1] eqn:S1.
    pose proof (L_fitem _ _ _ _ _ _ _ _ _ Hok1 E1 S1) as H1.
    destruct so1 as [[ov mm2]|].
    + destruct H1 as [oc [-> [-> [Hb1 Hrel]]]].
      destruct (eval_fitems reg f tag (S i) r mm2 (nw + nspawn a1) rest _) as [a2 o2] eqn:E2.
      destruct (sync_fitems reg f tag (S i) r mm2 (map strip_fitem rest) _) as [c2 so2] eqn:S2.
      injection He as <- <-. injection Hs as <- <-.
      pose proof (IH _ _ _ _ _ _ _ _ _ _ _ Hok2 E2 S2) as H2.
      destruct so2 as [[vr mm3]|].
      * destruct H2 as [tr [-> [-> [Hb2 Hrel2]]]]. exists tr.
        rewrite mcalls_app, mslots_app, bad_app, Hb1, Hb2. repeat split; auto.
        intros pre post Hlen Hacc. rewrite app3. rewrite app3 in Hacc.
        apply Hrel2; [rewrite app_length, <- nspawn_mslots; lia|].
        specialize (Hrel pre (mslots a2 ++ post) Hlen). rewrite <- app_assoc.
        rewrite <- app_assoc in Hacc.
        destruct oc as [[n1 c]|], ov as [[n2 v]|]; cbn in Hrel; try tauto.
        destruct Hrel as [-> Hd]. rewrite drow_aset, Hd, Hacc. reflexivity.
      * destruct H2 as [->|Hb2]; [now left|right]. rewrite mslots_app, bad_app, Hb2. apply orb_true_r.
    + injection Hs as <- <-.
      destruct H1 as [->|Hb1].
      * injection He as <- <-. now left.
      * destruct o1 as [[oc mm2]|]; [|injection He as <- <-; now left].
        destruct (eval_fitems reg f tag (S i) r mm2 (nw + nspawn a1) rest _) as [a2 o2] eqn:E2.
        injection He as <- <-. right. rewrite mslots_app, bad_app, Hb1. reflexivity.
Qed.

Lemma L_rows its rows : forall tag j mm nw a o cs so,
  forallb (fitem_ok reg) its = true ->
  eval_rows reg f tag j mm nw its rows = (a, o) ->
  sync_rows reg f tag j mm (map strip_fitem its) rows = (cs, so) ->
  match so with
  | Some (vrs, mm2) =>
      exists trs, o = Some (trs, mm2) /\ cs = mcalls a /\ bad (mslots a) = false /\
                  forall pre post, List.length pre = nw ->
                    map (drow (pre ++ mslots a ++ post)) trs = vrs
  | None => o = None \/ bad (mslots a) = true
  end.
Proof.
  induction rows as [|r rest IH]; intros tag j mm nw a o cs so Hok He Hs; cbn in *.
  - injection He as <- <-. injection Hs as <- <-. eexists. repeat split; auto.
  - destruct (eval_fitems reg f (tag ++ [j]) 0 r mm nw its []) as [a1 o1] eqn:E1.
    destruct (sync_fitems reg f (tag ++ [j]) 0 r mm (map strip_fitem its) []) as [c1 so1] eqn:S1.
    pose proof (L_fitems _ _ _ _ _ _ _ _ _ _ _ _ Hok E1 S1) as H1.
    destruct so1 as [[vr mm2]|].
    + destruct H1 as [tr [-> [-> [Hb1 Hrel]]]].
      destruct (eval_rows reg f tag (S j) mm2 (nw + nspawn a1) its rest) as [a2 o2] eqn:E2.
      destruct (sync_rows reg f tag (S j) mm2 (map strip_fitem its) rest) as [c2 so2] eqn:S2.
      pose proof (IH _ _ _ _ _ _ _ _ Hok E2 S2) as H2.
      destruct so2 as [[vrs mm3]|].
      * destruct H2 as [trs [-> [-> [Hb2 Hrel2]]]].
        injection He as <- <-. injection Hs as <- <-. exists (tr :: trs).
        rewrite mcalls_app, mslots_app, bad_app, Hb1, Hb2. repeat split; auto.
        intros pre post Hlen. cbn. f_equal.
        -- rewrite app3'. apply Hrel; auto.
        -- rewrite app3. apply Hrel2. rewrite app_length, <- nspawn_mslots; lia.
      * injection Hs as <- <-. destruct H2 as [->|Hb2].
        -- injection He as <- <-. now left.
        -- right. destruct o2 as [[trs mm3]|]; injection He as <- <-;
             rewrite mslots_app, bad_app, Hb2; apply orb_true_r.
    + injection Hs as <- <-.
      destruct H1 as [->|Hb1].
      * injection He as <- <-. now left.
      * destruct o1 as [[tr mm2]|]; [|injection He as <- <-; now left].
        destruct (eval_rows reg f tag (S j) mm2 (nw + nspawn a1) its rest) as [a2 o2] eqn:E2.
        right. destruct o2 as [[trs mm3]|]; injection He as <- <-;
          rewrite mslots_app, bad_app, Hb1; reflexivity.
Qed.

(* ---------- blocks ---------- *)

Definition bslot (b : block) : list (option fres) :=
  match b with BRoot a => mslot a | BSub l => mslots l ++ [None] end.
Definition bslots (bs : list block) : list (option fres) := flat_map bslot bs.
Definition bcall (b : block) : list call :=
  match b with BRoot a => mcall a | BSub l => mcalls l end.
Definition bcalls (bs : list block) : list call := flat_map bcall bs.

Lemma bslots_app a b : bslots (a ++ b) = bslots a ++ bslots b.
Proof. apply flat_map_app. Qed.
Lemma bcalls_app a b : bcalls (a ++ b) = bcalls a ++ bcalls b.
Proof. apply flat_map_app. Qed.

Lemma bslots_roots l : bslots (map BRoot l) = mslots l.
Proof. unfold bslots, mslots. rewrite flat_map_concat_map, map_map, <- flat_map_concat_map. reflexivity. Qed.
Lemma bcalls_roots l : bcalls (map BRoot l) = mcalls l.
Proof. unfold bcalls, mcalls. rewrite flat_map_concat_map, map_map, <- flat_map_concat_map. reflexivity. Qed.

Lemma bad_sub l : bad (mslots l ++ [None]) = bad (mslots l).
Proof. rewrite bad_app. cbn. now rewrite orb_false_r. Qed.

Lemma sum_workers_bslots bs : sum_workers bs = List.length (bslots bs).
Proof.
  unfold sum_workers, bslots. induction bs as [|b r IH]; cbn; [reflexivity|].
  rewrite app_length, <- IH. f_equal. destruct b as [a|l]; cbn.
  - destruct a; reflexivity.
  - rewrite app_length, <- nspawn_mslots. cbn. lia.
Qed.

Lemma spawned_lift g l : map (ideal_slot f) (spawned (map (lift g) l)) = mslots l.
Proof.
  unfold spawned, mslots. induction l as [|a r IH]; cbn; [reflexivity|].
  rewrite map_app, IH. f_equal. destruct a as [c|k c]; cbn; [reflexivity|]. destruct k; reflexivity.
Qed.

Lemma ideal_flatten g bs : ideal_slots f (flatten_from g bs) = bslots bs.
Proof.
  unfold ideal_slots. revert g; induction bs as [|b r IH]; intros g; cbn; [reflexivity|].
  unfold spawned in *. rewrite flat_map_app, map_app. fold (spawned (flat_block g b)).
  rewrite (IH (S g)). f_equal. destruct b as [a|l]; cbn.
  - destruct a as [c|k c]; cbn; [reflexivity|]. destruct k; reflexivity.
  - unfold spawned. rewrite flat_map_app, map_app. cbn. f_equal. apply spawned_lift.
Qed.

Lemma calls_lift g l : prog_calls (map (lift g) l) = mcalls l.
Proof.
  unfold prog_calls, mcalls. induction l as [|a r IH]; cbn; [reflexivity|].
  rewrite IH. f_equal. destruct a; reflexivity.
Qed.

Lemma calls_flatten g bs : prog_calls (flatten_from g bs) = bcalls bs.
Proof.
  revert g; induction bs as [|b r IH]; intros g; cbn; [reflexivity|].
  unfold prog_calls in *. rewrite flat_map_app. rewrite (IH (S g)). f_equal.
  destruct b as [a|l]; cbn.
  - destruct a; cbn; rewrite ?app_nil_r; reflexivity.
  - rewrite flat_map_app. cbn. rewrite app_nil_r. apply calls_lift.
Qed.

(* ---------- one item of the outer select list ---------- *)

Ltac refold := rewrite ?app_nil_r; repeat match goal with |- context [existsb isbad ?x] => change (existsb isbad x) with (bad x) end.

Lemma L_item tag r mm nw it o cs so :
  item_ok reg it = true ->
  eval_item reg f tag r mm nw it = o ->
  sync_item reg f tag r mm (strip_item it) = (cs, so) ->
  match so with
  | Some (ov, mm2) =>
      exists oc, ro_val o = Some (oc, mm2) /\ cs = bcalls (ro_blocks o) /\
                 bad (bslots (ro_blocks o)) = false /\
                 forall pre post, List.length pre = nw ->
                   rel_oc (pre ++ bslots (ro_blocks o) ++ post) oc ov
  | None => ro_val o = None \/ bad (bslots (ro_blocks o)) = true
  end.
Proof.
  intros Hok He Hs. destruct it as [fi|src its nm]; cbn in *.
  - destruct (eval_fitem reg f tag r mm nw fi) as [a o1] eqn:E1. subst o. cbn.
    rewrite bslots_roots, bcalls_roots. exact (L_fitem _ _ _ _ _ _ _ _ _ Hok E1 Hs).
  - destruct src as [|rows]; cbn in *.
    + destruct (eval_fitems reg f (tag ++ [0]) 0 r [] nw its []) as [a o1] eqn:E1.
      destruct (sync_fitems reg f (tag ++ [0]) 0 r [] (map strip_fitem its) []) as [c1 so1] eqn:S1.
      pose proof (L_fitems _ _ _ _ _ _ _ _ _ _ _ _ Hok E1 S1) as H1.
      destruct so1 as [[vr mm2]|]; injection Hs as <- <-.
      * destruct H1 as [tr [-> [-> [Hb Hrel]]]]. subst o. cbn. refold.
        rewrite bad_sub. eexists. split; [reflexivity|]. split; [reflexivity|]. split; [exact Hb|].
        intros pre post Hlen. cbn [rel_oc]. split; [reflexivity|].
        rewrite deref_obj. f_equal. rewrite <- (app_assoc (mslots a)). apply Hrel; auto.
      * subst o. destruct H1 as [->|Hb]; cbn; [now left|].
        destruct o1 as [[tr mm2]|]; cbn; [right|now left]. refold. now rewrite bad_sub.
    + destruct (eval_rows reg f tag 0 [] nw its rows) as [a o1] eqn:E1.
      destruct (sync_rows reg f tag 0 [] (map strip_fitem its) rows) as [c1 so1] eqn:S1.
      pose proof (L_rows _ _ _ _ _ _ _ _ _ _ Hok E1 S1) as H1.
      destruct so1 as [[vrs mm2]|]; injection Hs as <- <-.
      * destruct H1 as [trs [-> [-> [Hb Hrel]]]]. subst o. cbn. refold.
        rewrite bad_sub. eexists. split; [reflexivity|]. split; [reflexivity|]. split; [exact Hb|].
        intros pre post Hlen. cbn [rel_oc]. split; [reflexivity|].
        rewrite deref_arr, deref_objs. do 2 f_equal. rewrite <- (app_assoc (mslots a)). apply Hrel; auto.
      * subst o. destruct H1 as [->|Hb]; cbn; [now left|].
        destruct o1 as [[trs mm2]|]; cbn; [right|now left]. refold. now rewrite bad_sub.
Qed.

Lemma L_items its : forall tag i r mm nw acc vacc o cs so,
  forallb (item_ok reg) its = true ->
  eval_items reg f tag i r mm nw its acc = o ->
  sync_items reg f tag i r mm (map strip_item its) vacc = (cs, so) ->
  match so with
  | Some (vr, mm2) =>
      exists tr, ro_val o = Some (tr, mm2) /\ cs = bcalls (ro_blocks o) /\
                 bad (bslots (ro_blocks o)) = false /\
                 forall pre post, List.length pre = nw ->
                   drow (pre ++ bslots (ro_blocks o) ++ post) acc = vacc ->
                   drow (pre ++ bslots (ro_blocks o) ++ post) tr = vr
  | None => ro_val o = None \/ bad (bslots (ro_blocks o)) = true
  end.
Proof.
  induction its as [|it rest IH]; intros tag i r mm nw acc vacc o cs so Hok He Hs; cbn in *.
  - subst o. injection Hs as <- <-. eexists. repeat split; auto.
  - apply andb_prop in Hok. destruct Hok as [Hok1 Hok2].
    destruct (eval_item reg f (tag ++ [i]) r mm nw it) as [b1 p1 o1] eqn:E1.
    destruct (sync_item reg f (tag ++ [i]) r mm (strip_item it)) as [c1 so1] eqn:S1.
    pose proof (L_item _ _ _ _ _ _ _ _ Hok1 E1 S1) as H1. cbn [ro_val ro_blocks] in H1.
    destruct so1 as [[ov mm2]|].
    + destruct H1 as [oc [-> [-> [Hb1 Hrel]]]].
      destruct (eval_items reg f tag (S i) r mm2 (nw + sum_workers b1) rest _) as [b2 p2 o2] eqn:E2.
      destruct (sync_items reg f tag (S i) r mm2 (map strip_item rest) _) as [c2 so2] eqn:S2.
      subst o. injection Hs as <- <-. cbn [ro_val ro_blocks].
      pose proof (IH _ _ _ _ _ _ _ _ _ _ Hok2 E2 S2) as H2. cbn [ro_val ro_blocks] in H2.
      destruct so2 as [[vr mm3]|].
      * destruct H2 as [tr [-> [-> [Hb2 Hrel2]]]]. exists tr.
        rewrite bcalls_app, bslots_app, bad_app, Hb1, Hb2. repeat split; auto.
        intros pre post Hlen Hacc. rewrite app3. rewrite app3 in Hacc.
        apply Hrel2; [rewrite app_length, <- sum_workers_bslots; lia|].
        specialize (Hrel pre (bslots b2 ++ post) Hlen). rewrite <- app_assoc.
        rewrite <- app_assoc in Hacc.
        destruct oc as [[n1 c]|], ov as [[n2 v]|]; cbn in Hrel; try tauto.
        destruct Hrel as [-> Hd]. rewrite drow_aset, Hd, Hacc. reflexivity.
      * destruct H2 as [->|Hb2]; [now left|right]. rewrite bslots_app, bad_app, Hb2. apply orb_true_r.
    + injection Hs as <- <-.
      destruct H1 as [->|Hb1].
      * subst o. now left.
      * destruct o1 as [[oc mm2]|]; [|subst o; now left].
        destruct (eval_items reg f tag (S i) r mm2 (nw + sum_workers b1) rest _) as [b2 p2 o2] eqn:E2.
        subst o. right. cbn [ro_val ro_blocks]. rewrite bslots_app, bad_app, Hb1. reflexivity.
Qed.

Lemma L_orows its rows : forall j mm nw o cs so,
  forallb (item_ok reg) its = true ->
  eval_orows reg f j mm nw its rows = o ->
  sync_orows reg f j mm (map strip_item its) rows = (cs, so) ->
  match so with
  | Some (vrs, mm2) =>
      exists trs, ro_val o = Some (trs, mm2) /\ cs = bcalls (ro_blocks o) /\
                  bad (bslots (ro_blocks o)) = false /\
                  forall pre post, List.length pre = nw ->
                    map (drow (pre ++ bslots (ro_blocks o) ++ post)) trs = vrs
  | None => ro_val o = None \/ bad (bslots (ro_blocks o)) = true
  end.
Proof.
  induction rows as [|r rest IH]; intros j mm nw o cs so Hok He Hs; cbn in *.
  - subst o. injection Hs as <- <-. eexists. repeat split; auto.
  - destruct (eval_items reg f [j] 0 r mm nw its []) as [b1 p1 o1] eqn:E1.
    destruct (sync_items reg f [j] 0 r mm (map strip_item its) []) as [c1 so1] eqn:S1.
    pose proof (L_items _ _ _ _ _ _ _ _ _ _ _ Hok E1 S1) as H1. cbn [ro_val ro_blocks] in H1.
    destruct so1 as [[vr mm2]|].
    + destruct H1 as [tr [-> [-> [Hb1 Hrel]]]].
      destruct (eval_orows reg f (S j) mm2 (nw + sum_workers b1) its rest) as [b2 p2 o2] eqn:E2.
      destruct (sync_orows reg f (S j) mm2 (map strip_item its) rest) as [c2 so2] eqn:S2.
      pose proof (IH _ _ _ _ _ _ Hok E2 S2) as H2. cbn [ro_val ro_blocks] in H2.
      destruct so2 as [[vrs mm3]|].
      * destruct H2 as [trs [-> [-> [Hb2 Hrel2]]]].
        subst o. injection Hs as <- <-. exists (tr :: trs). cbn [ro_val ro_blocks].
        rewrite bcalls_app, bslots_app, bad_app, Hb1, Hb2. repeat split; auto.
        intros pre post Hlen. cbn. f_equal.
        -- rewrite app3'. apply Hrel; auto.
        -- rewrite app3. apply Hrel2. rewrite app_length, <- sum_workers_bslots; lia.
      * injection Hs as <- <-. destruct H2 as [->|Hb2].
        -- subst o. now left.
        -- right. subst o. destruct o2 as [[trs mm3]|]; cbn [ro_val ro_blocks];
             rewrite bslots_app, bad_app, Hb2; apply orb_true_r.
    + injection Hs as <- <-.
      destruct H1 as [->|Hb1].
      * subst o. now left.
      * destruct o1 as [[tr mm2]|]; [|subst o; now left].
        destruct (eval_orows reg f (S j) mm2 (nw + sum_workers b1) its rest) as [b2 p2 o2] eqn:E2.
        right. subst o. destruct o2 as [[trs mm3]|]; cbn [ro_val ro_blocks];
          rewrite bslots_app, bad_app, Hb1; reflexivity.
Qed.

Lemma L_dims its dims : forall d mm nw o cs so,
  forallb (fitem_ok reg) its = true ->
  eval_dims reg f d mm nw its dims = o ->
  sync_dims reg f d mm (map strip_fitem its) dims = (cs, so) ->
  match so with
  | Some vs =>
      exists cells, ro_val o = Some cells /\ cs = bcalls (ro_blocks o) /\
                    bad (bslots (ro_blocks o)) = false /\
                    forall pre post, List.length pre = nw ->
                      map (deref (pre ++ bslots (ro_blocks o) ++ post)) cells = vs
  | None => ro_val o = None \/ bad (bslots (ro_blocks o)) = true
  end.
Proof.
  induction dims as [|rows rest IH]; intros d mm nw o cs so Hok He Hs; cbn in *.
  - subst o. injection Hs as <- <-. eexists. repeat split; auto.
  - destruct (eval_rows reg f [d] 0 mm nw its rows) as [a o1] eqn:E1.
    destruct (sync_rows reg f [d] 0 mm (map strip_fitem its) rows) as [c1 so1] eqn:S1.
    pose proof (L_rows _ _ _ _ _ _ _ _ _ _ Hok E1 S1) as H1.
    destruct so1 as [[vrs mm2]|].
    + destruct H1 as [trs [-> [-> [Hb1 Hrel]]]]. cbn in *. rewrite ?Nat.add_0_r in He.
      destruct (eval_dims reg f (S d) mm2 (nw + S (nspawn a)) its rest) as [b2 p2 o2] eqn:E2.
      destruct (sync_dims reg f (S d) mm2 (map strip_fitem its) rest) as [c2 so2] eqn:S2.
      pose proof (IH _ _ _ _ _ _ Hok E2 S2) as H2. cbn [ro_val ro_blocks] in H2.
      destruct so2 as [vs|].
      * destruct H2 as [cells [-> [-> [Hb2 Hrel2]]]].
        subst o. injection Hs as <- <-. eexists. cbn [ro_val ro_blocks].
        change (bslots (BSub a :: b2)) with ((mslots a ++ [None]) ++ bslots b2).
        change (bcalls (BSub a :: b2)) with (mcalls a ++ bcalls b2).
        rewrite bad_app, bad_sub, Hb1, Hb2. split; [reflexivity|]. split; [reflexivity|]. split; [reflexivity|].
        intros pre post Hlen. cbn [map]. f_equal.
        -- rewrite deref_arr, deref_objs. do 2 f_equal.
           rewrite <- !app_assoc. apply Hrel; auto.
        -- rewrite app3. apply Hrel2. rewrite !app_length, <- nspawn_mslots. cbn. lia.
      * injection Hs as <- <-. destruct H2 as [->|Hb2].
        -- subst o. now left.
        -- right. subst o. destruct o2 as [cells|]; cbn [ro_val ro_blocks];
             change (bslots (BSub a :: b2)) with ((mslots a ++ [None]) ++ bslots b2);
             rewrite bad_app, Hb2; apply orb_true_r.
    + injection Hs as <- <-.
      destruct H1 as [->|Hb1].
      * subst o. now left.
      * destruct o1 as [[trs mm2]|]; [|subst o; now left]. cbn in *. rewrite ?Nat.add_0_r in He.
        destruct (eval_dims reg f (S d) mm2 (nw + S (nspawn a)) its rest) as [b2 p2 o2] eqn:E2.
        right. subst o. destruct o2 as [cells|]; cbn [ro_val ro_blocks];
          change (bslots (BSub a :: b2)) with ((mslots a ++ [None]) ++ bslots b2);
          rewrite bad_app, bad_sub, Hb1; reflexivity.
Qed.

(* ---------- the outer projection of a derived table ---------- *)

Lemma deref_lookup sl c tr : deref sl (cell_lookup c tr) = vlookup c (drow sl tr).
Proof.
  unfold cell_lookup, vlookup. induction tr as [|[k x] r IH]; cbn; [reflexivity|].
  destruct (String.eqb c k); [reflexivity|exact IH].
Qed.

Lemma drow_project sl alias p tr : drow sl (project alias p tr) = vproject alias p (drow sl tr).
Proof.
  destruct p as [|cols]; unfold project, vproject.
  - unfold drow at 1. cbn [map fst snd]. rewrite deref_obj. reflexivity.
  - assert (H : forall acc vacc, drow sl acc = vacc ->
      drow sl (fold_left (fun a cn => aset (snd cn) (cell_lookup (fst cn) tr) a) cols acc) =
      fold_left (fun a cn => aset (snd cn) (vlookup (fst cn) (drow sl tr)) a) cols vacc).
    { induction cols as [|cn r IH]; cbn [fold_left]; intros a va Ha; [exact Ha|].
      apply IH. rewrite drow_aset, deref_lookup, Ha. reflexivity. }
    apply H. reflexivity.
Qed.

(* ---------- compile against the reference semantics ---------- *)

Lemma finalize_ok sl t : bad sl = false -> finalize sl t = Ok (deref sl t).
Proof. unfold finalize. intros H. change (existsb _ sl) with (bad sl). now rewrite H. Qed.
Lemma finalize_bad sl t : bad sl = true -> finalize sl t = Err.
Proof. unfold finalize. intros H. change (existsb _ sl) with (bad sl). now rewrite H. Qed.

Lemma to_prog_seq {A} (o : rout A) (mk : A -> cell) :
  seq_result f (prog_acts (to_prog o mk)) (prog_fin (to_prog o mk)) =
  match ro_val o with
  | None => Err
  | Some a => finalize (bslots (ro_blocks o)) (mk a)
  end.
Proof.
  unfold to_prog. destruct (ro_val o); cbn [prog_acts prog_fin seq_result]; [|reflexivity]. now rewrite ideal_flatten.
Qed.

Lemma to_prog_calls {A} (o : rout A) (mk : A -> cell) a :
  ro_val o = Some a -> prog_calls (prog_acts (to_prog o mk)) = bcalls (ro_blocks o).
Proof. unfold to_prog. intros ->. cbn [prog_acts]. apply calls_flatten. Qed.

Theorem compile_sync q :
  async_ok reg q = true ->
  exec_seq reg f q = snd (run_sync reg f (strip q)) /\
  (forall v, exec_seq reg f q = Ok v ->
     prog_calls (prog_acts (compile reg f q)) = fst (run_sync reg f (strip q))).
Proof.
  intros Hok. unfold exec_seq. destruct q as [rows items|rows inner alias p|dims items]; cbn [compile strip run_sync async_ok] in *.
  - rewrite to_prog_seq.
    destruct (sync_orows reg f 0 [] (map strip_item items) rows) as [cs so] eqn:S.
    pose proof (L_orows items rows 0 [] 0 _ _ _ Hok eq_refl S) as H.
    set (o := eval_orows reg f 0 [] 0 items rows) in *. cbn [fst snd].
    destruct so as [[vrs mm2]|]; cbn [to_res].
    + destruct H as [trs [Hv [Hc [Hb Hrel]]]]. rewrite Hv. rewrite finalize_ok by exact Hb.
      split.
      * f_equal. rewrite deref_arr, deref_objs. cbn [fst]. do 2 f_equal.
        specialize (Hrel [] [] eq_refl). cbn [app] in Hrel. rewrite app_nil_r in Hrel. exact Hrel.
      * intros _ _. rewrite (to_prog_calls _ _ _ Hv). now rewrite Hc.
    + split.
      * destruct H as [->|Hb]; [reflexivity|]. destruct (ro_val o); [|reflexivity]. now apply finalize_bad.
      * intros v Hv. exfalso. destruct H as [H|Hb]; [rewrite H in Hv; discriminate|].
        destruct (ro_val o); [|discriminate]. rewrite finalize_bad in Hv by exact Hb. discriminate.
  - rewrite to_prog_seq.
    destruct (sync_rows reg f [] 0 [] (map strip_fitem inner) rows) as [cs so] eqn:S.
    destruct (eval_rows reg f [] 0 [] 0 inner rows) as [a o1] eqn:E.
    pose proof (L_rows _ _ _ _ _ _ _ _ _ _ Hok E S) as H. cbn [fst snd].
    destruct so as [[vrs mm2]|]; cbn [to_res].
    + destruct H as [trs [-> [Hc [Hb Hrel]]]]. cbn [run_sub ro_val ro_blocks].
      change (bslots [BSub a]) with ((mslots a ++ [None]) ++ []). rewrite app_nil_r.
      rewrite finalize_ok by now rewrite bad_sub.
      split.
      * f_equal. rewrite deref_arr, deref_objs. cbn [fst]. do 2 f_equal.
        rewrite map_map. specialize (Hrel [] [None] eq_refl). cbn [app] in Hrel.
        rewrite <- Hrel, map_map. apply map_ext. intros tr. apply drow_project.
      * intros _ _. unfold to_prog. cbn [run_sub ro_val ro_blocks prog_acts]. rewrite calls_flatten.
        cbn. rewrite app_nil_r. now rewrite Hc.
    + split.
      * destruct H as [->|Hb]; [reflexivity|]. destruct o1 as [[trs mm2]|]; [|reflexivity].
        cbn [run_sub ro_val ro_blocks]. apply finalize_bad.
        change (bslots [BSub a]) with ((mslots a ++ [None]) ++ []). now rewrite app_nil_r, bad_sub.
      * intros v Hv. exfalso. destruct H as [->|Hb]; [discriminate|].
        destruct o1 as [[trs mm2]|]; [|discriminate]. cbn [run_sub ro_val ro_blocks] in Hv.
        rewrite finalize_bad in Hv; [discriminate|].
        change (bslots [BSub a]) with ((mslots a ++ [None]) ++ []). now rewrite app_nil_r, bad_sub.
  - rewrite to_prog_seq.
    destruct (sync_dims reg f 0 [] (map strip_fitem items) dims) as [cs so] eqn:S.
    pose proof (L_dims items dims 0 [] 0 _ _ _ Hok eq_refl S) as H.
    set (o := eval_dims reg f 0 [] 0 items dims) in *. cbn [fst snd].
    destruct so as [vs|]; cbn [to_res].
    + destruct H as [cells [Hv [Hc [Hb Hrel]]]]. rewrite Hv. rewrite finalize_ok by exact Hb.
      split.
      * f_equal. rewrite deref_arr. f_equal.
        specialize (Hrel [] [] eq_refl). cbn [app] in Hrel. rewrite app_nil_r in Hrel. exact Hrel.
      * intros _ _. rewrite (to_prog_calls _ _ _ Hv). now rewrite Hc.
    + split.
      * destruct H as [->|Hb]; [reflexivity|]. destruct (ro_val o); [|reflexivity]. now apply finalize_bad.
      * intros v Hv. exfalso. destruct H as [H|Hb]; [rewrite H in Hv; discriminate|].
        destruct (ro_val o); [|discriminate]. rewrite finalize_bad in Hv by exact Hb. discriminate.
Qed.

(* ---------- SPIN and SPINASYNC add no column ---------- *)

Lemma spin_no_column q fn args nm tag r mm nw a oc mm' :
  q = QSpin \/ q = QSpinAsync ->
  eval_fitem reg f tag r mm nw (FCall q fn args nm) = (a, Some (oc, mm')) ->
  oc = None /\ mm' = mm /\
  a = [MSpawn (match q with QSpin => WSpin | _ => WSpinAsync end)
              (mkCall tag fn (map (eval_arg r) args))].
Proof.
  intros [->| ->]; cbn; destruct (is_registered reg fn); cbn; try discriminate;
    destruct (is_immediate reg fn); try discriminate; intros [= <- <- <-]; auto.
Qed.

(* hence the row built so far is passed on unchanged, whatever follows *)
Lemma spin_row_unchanged q fn args nm rest tag i r mm nw acc a o :
  q = QSpin \/ q = QSpinAsync ->
  is_registered reg fn = true -> is_immediate reg fn = false ->
  eval_fitems reg f tag i r mm nw (FCall q fn args nm :: rest) acc = (a, o) ->
  exists a2, eval_fitems reg f tag (S i) r mm (S nw) rest acc = (a2, o) /\
             a = MSpawn (match q with QSpin => WSpin | _ => WSpinAsync end)
                        (mkCall (tag ++ [i]) fn (map (eval_arg r) args)) :: a2.
Proof.
  intros Hq Hr Hi. cbn [eval_fitems].
  destruct (eval_fitem reg f (tag ++ [i]) r mm nw (FCall q fn args nm)) as [a1 o1] eqn:E1.
  assert (E1' := E1). cbn in E1'. rewrite Hr, Hi in E1'. cbn in E1'.
  assert (Ho : o1 = Some (None, mm) /\ a1 = [MSpawn (match q with QSpin => WSpin | _ => WSpinAsync end)
                        (mkCall (tag ++ [i]) fn (map (eval_arg r) args))]).
  { destruct Hq as [->| ->]; injection E1' as <- <-; auto. }
  destruct Ho as [-> ->]. cbn [nspawn flat_map List.length app].
  replace (nw + 1) with (S nw) by lia.
  destruct (eval_fitems reg f tag (S i) r mm (S nw) rest acc) as [a2 o2].
  intros [= <- <-]. eexists. split; reflexivity.
Qed.

(* ---------- ONCE ---------- *)

Lemma once_hit fn args nm tag r mm nw v :
  is_registered reg fn = true -> assoc fn mm = Some v ->
  eval_fitem reg f tag r mm nw (FCall QOnce fn args nm) = ([], Some (Some (nm, CVal v), mm)).
Proof. intros Hr Ha. cbn. now rewrite Hr, Ha. Qed.

Lemma once_miss fn args nm tag r mm nw v :
  is_registered reg fn = true -> assoc fn mm = None ->
  f fn (map (eval_arg r) args) = FOk v ->
  eval_fitem reg f tag r mm nw (FCall QOnce fn args nm) =
    ([MSync (mkCall tag fn (map (eval_arg r) args))], Some (Some (nm, CVal v), (fn, v) :: mm)).
Proof. intros Hr Ha Hf. cbn. rewrite Hr, Ha. cbn. unfold apply_f. cbn. now rewrite Hf. Qed.

Lemma memo_stable_fitem fn v tag r mm nw it a oc mm' :
  assoc fn mm = Some v -> eval_fitem reg f tag r mm nw it = (a, Some (oc, mm')) -> assoc fn mm' = Some v.
Proof.
  intros Ha. destruct it as [c nm|q g args nm]; cbn.
  - now intros [= <- <- <-].
  - destruct (is_registered reg g); cbn; [|discriminate].
    destruct q; cbn; try (destruct (is_immediate reg g); try discriminate; now intros [= <- <- <-]);
      try (destruct (apply_f f _); try discriminate; now intros [= <- <- <-]).
    destruct (assoc g mm) eqn:Eg; [now intros [= <- <- <-]|].
    destruct (apply_f f _); try discriminate. intros [= <- <- <-]. cbn.
    destruct (String.eqb_spec fn g) as [->|Hne]; [congruence|exact Ha].
Qed.

Lemma memo_stable_fitems fn v its : forall tag i r mm nw acc a tr mm',
  assoc fn mm = Some v -> eval_fitems reg f tag i r mm nw its acc = (a, Some (tr, mm')) ->
  assoc fn mm' = Some v.
Proof.
  induction its as [|it rest IH]; intros tag i r mm nw acc a tr mm' Ha; cbn.
  - now intros [= <- <- <-].
  - destruct (eval_fitem reg f (tag ++ [i]) r mm nw it) as [a1 [[oc mm1]|]] eqn:E1; [|discriminate].
    pose proof (memo_stable_fitem _ _ _ _ _ _ _ _ _ _ Ha E1) as Ha1.
    destruct (eval_fitems reg f tag (S i) r mm1 _ rest _) as [a2 o2] eqn:E2.
    intros [= <- ->]. eapply IH; eauto.
Qed.

(* a select list made of one ONCE call, over any table with at least one row: the function is
   invoked a single time — for the first row — and every row carries that value *)
Lemma once_rows fn args nm v rows : forall tag j nw,
  is_registered reg fn = true ->
  eval_rows reg f tag j [(fn, v)] nw [FCall QOnce fn args nm] rows =
    ([], Some (map (fun _ => [(nm, CVal v)]) rows, [(fn, v)])).
Proof.
  induction rows as [|r rest IH]; intros tag j nw Hr; cbn; [reflexivity|].
  rewrite Hr. cbn. rewrite String.eqb_refl. cbn. rewrite IH by exact Hr. reflexivity.
Qed.

Theorem once_single_call fn args nm r rows v :
  is_registered reg fn = true ->
  f fn (map (eval_arg r) args) = FOk v ->
  let q := QTable (r :: rows) [IFlat (FCall QOnce fn args nm)] in
  prog_calls (prog_acts (compile reg f q)) = [mkCall [0; 0] fn (map (eval_arg r) args)] /\
  exec_seq reg f q = Ok (VArr (map (fun _ => VObj [(nm, v)]) (r :: rows))).
Proof.
  intros Hr Hf q.
  assert (Hrows : forall rows j mm nw, assoc fn mm = Some v ->
            eval_orows reg f j mm nw [IFlat (FCall QOnce fn args nm)] rows =
            mkRout [] [] (Some (map (fun _ => [(nm, CVal v)]) rows, mm))).
  { clear - Hr. induction rows as [|r0 rest IH]; intros j mm nw Ha; cbn; [reflexivity|].
    rewrite Hr. cbn. rewrite Ha. cbn. rewrite IH by exact Ha. reflexivity. }
  unfold exec_seq, q. cbn [compile eval_orows eval_items eval_item eval_fitem].
  rewrite Hr. cbn [negb assoc]. unfold apply_f. cbn [c_fn c_args]. rewrite Hf.
  cbn [map app aset sum_workers fold_right block_workers nspawn flat_map List.length Nat.add].
  rewrite Hrows by (cbn; now rewrite String.eqb_refl).
  cbn. split; [reflexivity|]. unfold finalize. cbn. do 3 f_equal.
  induction rows as [|r0 rest IH]; cbn; [reflexivity|]. now rewrite IH.
Qed.

(* ---------- immediate functions reject the goroutine qualifiers ---------- *)

Lemma immediate_registered fn : is_immediate reg fn = true -> is_registered reg fn = true.
Proof.
  unfold is_immediate, is_registered. induction reg as [|[k b] r IH]; cbn; [discriminate|].
  destruct (String.eqb fn k); cbn; [reflexivity|exact IH].
Qed.

Theorem immediate_rejects fn q args nm tag r mm nw :
  is_immediate reg fn = true ->
  q = QAsync \/ q = QSpin \/ q = QSpinAsync ->
  eval_fitem reg f tag r mm nw (FCall q fn args nm) = ([], None).
Proof.
  intros Hi Hq. cbn. rewrite (immediate_registered _ Hi). cbn. rewrite Hi.
  destruct Hq as [->|[->| ->]]; reflexivity.
Qed.

End Dispatch.

Lemma in_registry_immediate reg fn : In (fn, true) reg -> is_immediate reg fn = true.
Proof.
  unfold is_immediate. induction reg as [|[k b] r IH]; cbn; [easy|].
  intros [[= -> ->]|Hin]; [now rewrite String.eqb_refl|]. rewrite IH by exact Hin. apply orb_true_r.
Qed.

(* a query that reaches such a call fails, under every schedule *)
Theorem immediate_query_fails reg f fn q args nm r rows sched res :
  In (fn, true) reg -> q = QAsync \/ q = QSpin \/ q = QSpinAsync ->
  m_res (exec_sched reg f (QTable (r :: rows) [IFlat (FCall q fn args nm)]) sched) = Some res ->
  res = Err.
Proof.
  intros Hin Hq. unfold exec_sched. cbn [compile eval_orows eval_items eval_item].
  rewrite (immediate_rejects reg f fn q args nm _ r [] 0 (in_registry_immediate _ _ Hin) Hq).
  cbn. intros H.
  apply (run_result f [] FinFail I (fun t (E : FinFail = FinPost t) => match E with end)) in H. exact H.
Qed.

(* ---------- the machine theorems at the level of queries ---------- *)

Section Queries.
Variable reg : list (string * bool).
Variable f : oracle.

Lemma prog_wf q : wfP (prog_acts (compile reg f q)).
Proof. apply wfP_prog. Qed.

Lemma prog_cov q t : prog_fin (compile reg f q) = FinPost t -> coveredP (prog_acts (compile reg f q)).
Proof.
  destruct (compile reg f q) as [bs partial|bs t0]; cbn; [discriminate|]. intros _. apply coveredP_flatten.
Qed.

Theorem async_transparent q sched r :
  async_ok reg q = true ->
  m_res (exec_sched reg f q sched) = Some r ->
  r = snd (run_sync reg f (strip q)).
Proof.
  intros Hok H. unfold exec_sched in H.
  apply (run_result f _ _ (prog_wf q) (prog_cov q)) in H.
  rewrite H. apply (compile_sync reg f q Hok).
Qed.

Theorem exactly_once q sched v :
  async_ok reg q = true ->
  m_res (exec_sched reg f q sched) = Some (Ok v) ->
  exists spun unspun,
    Permutation (log (exec_sched reg f q sched)) (fst (run_sync reg f (strip q)) ++ spun) /\
    Permutation (spin_calls (prog_acts (compile reg f q))) (spun ++ unspun).
Proof.
  intros Hok H. unfold exec_sched in *.
  pose proof (run_result f _ _ (prog_wf q) (prog_cov q) _ _ H) as Hseq.
  destruct (prog_fin (compile reg f q)) as [|t] eqn:Hfin; [discriminate|].
  assert (Hcov : forall t0, FinPost t = FinPost t0 -> coveredP (prog_acts (compile reg f q))).
  { intros t0 _. apply (prog_cov q t). exact Hfin. }
  destruct (run_exactly_once f _ _ (prog_wf q) Hcov sched _ t H eq_refl) as [spun [unspun [H1 H2]]].
  exists spun, unspun. split; [|exact H2].
  destruct (compile_sync reg f q Hok) as [_ Hcalls].
  rewrite <- (Hcalls v); [exact H1|]. unfold exec_seq. rewrite Hfin. symmetry. exact Hseq.
Qed.

Theorem completed_before_return q sched r t :
  m_res (exec_sched reg f q sched) = Some r ->
  prog_fin (compile reg f q) = FinPost t ->
  map w_prog (ws (exec_sched reg f q sched)) = spawned (prog_acts (compile reg f q)) /\
  forall w, In w (ws (exec_sched reg f q sched)) -> target (w_prog w) <> None -> w_pc w = 3.
Proof.
  intros H Hfin. unfold exec_sched in *.
  eapply run_completed; eauto using prog_wf, prog_cov.
Qed.

Theorem no_deadlock q sched :
  exists ext, is_final (exec_sched reg f q (sched ++ ext)) /\
              forall g, wgs (exec_sched reg f q (sched ++ ext)) g = 0.
Proof. unfold exec_sched. apply run_no_deadlock; [apply prog_wf|apply prog_cov]. Qed.

End Queries.
