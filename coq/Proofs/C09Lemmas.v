(* Proofs/C09Lemmas.v — the statements of Properties/C09.v, assembled from C09Total (no panic),
   C09Parse (parse . print = id) and C09Denote (model = README denotation). *)
From Coq Require Import ZifyBool ZifyNat ZifyN Floats.
From GenqlV Require Import Base.Prelude Base.Fmt Base.Value
                           Model.SelToken Model.SelFmt Model.SelReader Spec.SelectorSpec
                           Proofs.C09Strings Proofs.C09Parse Proofs.C09Total Proofs.C09Denote.
Local Open Scope string_scope.

(* ---------- shapes ---------- *)

Definition is_scalar (v : value) : bool :=
  match v with VBool _ | VNum _ | VStr _ => true | _ => false end.

Definition is_object (v : value) : bool := match v with VObj _ => true | _ => false end.

(* the first step of a path does not fit the value it is applied to *)
Definition shape_mismatch (st : step) (v : value) : bool :=
  match st with
  | Key _ | Pipe _ => is_scalar v                       (* object steps need an object or an array *)
  | Index _ | Keep _ => is_scalar v || is_object v      (* bracket steps need an array *)
  end.

Lemma steps_sem_mismatch st rest v : shape_mismatch st v = true -> steps_sem (st :: rest) v = Err.
Proof.
  destruct st, v; cbn [shape_mismatch is_scalar is_object orb]; try discriminate; reflexivity.
Qed.

Lemma seg_sem_err reg fn steps v : steps_sem steps v = Err -> seg_sem reg (Fn fn steps) v = Err.
Proof. intros H. unfold seg_sem. cbn [seg_steps]. now rewrite H. Qed.

Theorem wrong_shape_is_error fn st rest more doc :
  wf_sel (Fn fn (st :: rest) :: more) = true -> shape_mismatch st doc = true ->
  exec_reader doc (print_sel (Fn fn (st :: rest) :: more)) = Err.
Proof.
  intros Hwf Hm. rewrite denotation by exact Hwf. cbn [sel_sem].
  rewrite (seg_sem_err _ _ _ _ (steps_sem_mismatch st rest doc Hm)). reflexivity.
Qed.

(* inside a bracket, a dimension applied to something that is not an array (NULL included) *)
Lemma dims_sem_non_array d ds v : is_arr v = false -> dims_sem (d :: ds) v = Err.
Proof. destruct v; cbn [is_arr]; try discriminate; reflexivity. Qed.

(* {k|number} on a value that is not a string *)
Lemma number_pipe_non_string kvs k v acc ps :
  lookup k kvs = Some v -> (forall s, v <> VStr s) -> reshape kvs ((k, PNumber) :: ps) acc = Err.
Proof.
  intros L H. cbn [reshape]. rewrite L. cbn [or_null convert].
  destruct v; try reflexivity. exfalso. now apply (H s).
Qed.

(* ---------- out of range ---------- *)

Definition dim_out_of_range (d : dim) (len : N) : bool :=
  match d with
  | DEach => false
  | DAt n => (len <=? n)%N
  | DRange b e => negb ((opt_N 0 b <=? opt_N len e) && (opt_N len e <=? len))%N
  end.

Lemma dims_sem_out_of_range d ds l :
  dim_out_of_range d (N.of_nat (List.length l)) = true -> dims_sem (d :: ds) (VArr l) = Err.
Proof.
  destruct d as [|n|b e]; cbn [dim_out_of_range dims_sem]; [discriminate| |].
  - intros H. destruct (n <? N.of_nat (List.length l))%N eqn:G; [lia|reflexivity].
  - intros H. apply negb_true_iff in H. now rewrite H.
Qed.

Definition bracket (keep : bool) (ds : list dim) : step := if keep then Keep ds else Index ds.

Theorem out_of_range_is_error keep fn d ds rest more l :
  wf_sel (Fn fn (bracket keep (d :: ds) :: rest) :: more) = true ->
  dim_out_of_range d (N.of_nat (List.length l)) = true ->
  exec_reader (VArr l) (print_sel (Fn fn (bracket keep (d :: ds) :: rest) :: more)) = Err.
Proof.
  intros Hwf Ho. rewrite denotation by exact Hwf. cbn [sel_sem].
  rewrite seg_sem_err; [reflexivity|].
  destruct keep; cbn [bracket steps_sem on_array]; unfold bracket_sem;
    rewrite (dims_sem_out_of_range d ds l Ho); reflexivity.
Qed.

(* ---------- composition ---------- *)

Lemma sel_sem_app reg a b v : sel_sem reg (Then a b) v = (let! x := sel_sem reg a v in sel_sem reg b x).
Proof.
  unfold Then. revert v. induction a as [|g a IH]; intros v; [reflexivity|].
  cbn [app sel_sem]. destruct (seg_sem reg g v); cbn [bind]; auto.
Qed.

Lemma wf_sel_app a b : wf_sel a = true -> wf_sel b = true -> wf_sel (Then a b) = true.
Proof.
  intros Ha Hb. apply wf_sel_inv in Ha as [Na Fa]. apply wf_sel_inv in Hb as [Nb Fb].
  unfold Then, wf_sel. destruct a as [|g a]; [congruence|].
  change (forallb wf_seg ((g :: a) ++ b)%list = true). rewrite forallb_app, Fa, Fb. reflexivity.
Qed.

Theorem compose a b doc :
  wf_sel a = true -> wf_sel b = true ->
  exec_reader doc (print_sel (Then a b)) =
  (let! x := exec_reader doc (print_sel a) in exec_reader x (print_sel b)).
Proof.
  intros Ha Hb. rewrite denotation by now apply wf_sel_app. rewrite sel_sem_app.
  rewrite (denotation a doc Ha). apply bind_ext. intros x. now rewrite (denotation b x Hb).
Qed.

(* the text of a composition is the two texts joined by "::" *)
Lemma join_app sep a b :
  a <> [] -> b <> [] -> join sep (a ++ b)%list = join sep a ++ sep ++ join sep b.
Proof.
  intros Ha Hb. induction a as [|x a IH]; [congruence|].
  destruct a as [|y a].
  - cbn [app join]. destruct b; [congruence|reflexivity].
  - change (((x :: y :: a) ++ b)%list) with (x :: ((y :: a) ++ b)%list).
    change (join sep (x :: ((y :: a) ++ b)%list)) with (x ++ sep ++ join sep ((y :: a) ++ b)%list).
    rewrite IH by discriminate. cbn [join]. now rewrite !sapp_assoc.
Qed.

Lemma print_then a b : a <> [] -> b <> [] -> print_sel (Then a b) = print_sel a ++ "::" ++ print_sel b.
Proof.
  intros Ha Hb. unfold print_sel, Then. rewrite map_app. apply join_app; now destruct a, b.
Qed.

(* ---------- NULL ---------- *)

Lemma steps_sem_null steps : steps_sem steps VNull = Ok VNull.
Proof. destruct steps as [|[]]; reflexivity. Qed.

Theorem missing_key_null kvs k rest :
  wf_sel (Path (Key k :: rest)) = true -> lookup k kvs = None ->
  exec_reader (VObj kvs) (print_sel (Path (Key k :: rest))) = Ok VNull.
Proof.
  intros Hwf L. rewrite denotation by exact Hwf.
  unfold Path. cbn [sel_sem]. unfold seg_sem. cbn [seg_steps seg_fn steps_sem on_objects]. rewrite L. cbn [or_null].
  rewrite steps_sem_null. reflexivity.
Qed.

(* ---------- keep / flatten ---------- *)

Theorem keep_no_flatten ds l :
  wf_sel (Path [Keep ds]) = true ->
  exec_reader (VArr l) (print_sel (Path [Keep ds])) = dims_sem ds (VArr l).
Proof.
  intros Hwf. rewrite denotation by exact Hwf.
  unfold Path. cbn [sel_sem]. unfold seg_sem. cbn [seg_steps seg_fn steps_sem on_array]. unfold bracket_sem.
  destruct (dims_sem ds (VArr l)); reflexivity.
Qed.

Theorem index_flattens ds l r :
  wf_sel (Path [Index ds]) = true -> dims_sem ds (VArr l) = Ok (VArr r) ->
  exec_reader (VArr l) (print_sel (Path [Index ds])) = Ok (VArr (flatten_n (List.length ds - 1) r)).
Proof.
  intros Hwf H. rewrite denotation by exact Hwf.
  unfold Path. cbn [sel_sem]. unfold seg_sem. cbn [seg_steps seg_fn steps_sem on_array]. unfold bracket_sem.
  rewrite H. reflexivity.
Qed.

(* ---------- the pinned tree ---------- *)

Definition pin_doc : value :=
  VObj [("s", VStr "x"); ("users", VArr [VObj [("name", VStr "a")]; VObj [("name", VStr "b")]])].

Lemma pinned_refuted :
  pinned_exec_reader pin_doc "users[5]" = Panic /\
  pinned_exec_reader pin_doc "users[(0:9)]" = Panic /\
  pinned_exec_reader pin_doc "users[(2:1)]" = Panic /\
  pinned_exec_reader pin_doc "users[each:0].name" = Panic /\
  exec_reader pin_doc "users[5]" = Err /\
  exec_reader pin_doc "users[(0:9)]" = Err /\
  exec_reader pin_doc "users[(2:1)]" = Err /\
  exec_reader pin_doc "users[each:0].name" = Err.
Proof. vm_compute. repeat split. Qed.

Definition keep_doc : value :=
  VObj [("data", VArr [VArr [VArr [VNum 1; VNum 2; VNum 3]; VArr [VNum 4; VNum 5; VNum 6]]])].

Lemma pinned_keep_refuted :
  pinned_exec_reader keep_doc "data[keep=>0:1:2]" = Err /\
  sel_sem top_level (Path [Key "data"; Keep [DAt 0; DAt 1; DAt 2]]) keep_doc = Ok (VNum 6) /\
  print_sel (Path [Key "data"; Keep [DAt 0; DAt 1; DAt 2]]) = "data[keep=>0:1:2]".
Proof. vm_compute. repeat split. Qed.
