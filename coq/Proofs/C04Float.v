(* Proofs/C04Float.v — when the premises of the join theorems hold.
   [wf_zero] (zero_safe), [hash_faithful] and [flip_ok] are stated for the key values that meet in
   a comparison of ON.  Here: they hold outright whenever the two values are not both numbers
   (and carry no -0), and for two numbers [zero_safe] is a theorem about IEEE comparison
   (stdlib FloatAxioms: eqb_spec, ltb_spec).  What remains a genuine premise is, for two numbers,
   that the printed text identifies the double ("hash_faithful" on numbers) and that neither is NaN. *)
From Coq Require Import Floats.
From GenqlV Require Import Base.Prelude Base.Fmt Base.Value Model.Join Proofs.StrOrder.
Local Open Scope list_scope.

Definition is_num (v : value) : bool := match v with VNum _ => true | _ => false end.

Lemma norm_zero_nonnum v : is_num v = false -> norm_zero v = v.
Proof. destruct v; cbn; auto; discriminate. Qed.

Lemma zero_safe_fixed a b :
  norm_zero a = a -> norm_zero b = b -> vcompare (norm_zero a) (norm_zero b) = vcompare a b.
Proof. now intros -> ->. Qed.

(* not both numbers: compare is the byte order of the %v texts *)
Lemma vcompare_text a b s t :
  is_num a && is_num b = false -> fmt_value a = Some s -> fmt_value b = Some t ->
  vcompare a b = Ok (str_cmp s t).
Proof.
  intros Hn Ha Hb. unfold vcompare. rewrite Ha, Hb.
  destruct a; try reflexivity; destruct b; try reflexivity. discriminate.
Qed.

Lemma key_agree_text a b :
  is_num a && is_num b = false -> fmt_value a <> None -> fmt_value b <> None ->
  (vcompare a b = Ok 0%Z <-> fmt_value a = fmt_value b).
Proof.
  intros Hn Ha Hb.
  destruct (fmt_value a) as [s|] eqn:Ea; [|congruence].
  destruct (fmt_value b) as [t|] eqn:Eb; [|congruence].
  rewrite (vcompare_text a b s t Hn Ea Eb). split.
  - intros [= H]. apply str_cmp_eq in H. now subst.
  - intros [= ->]. now rewrite str_cmp_refl.
Qed.

Lemma flip_text a b z :
  is_num a && is_num b = false -> fmt_value a <> None -> fmt_value b <> None ->
  vcompare a b = Ok z -> vcompare b a = Ok (- z)%Z.
Proof.
  intros Hn Ha Hb.
  destruct (fmt_value a) as [s|] eqn:Ea; [|congruence].
  destruct (fmt_value b) as [t|] eqn:Eb; [|congruence].
  rewrite (vcompare_text a b s t Hn Ea Eb).
  rewrite (vcompare_text b a t s) by (auto; now rewrite andb_comm).
  intros [= <-]. now rewrite (str_cmp_antisym s t), Z.opp_involutive.
Qed.

(* ---------- numbers: -0 and 0 compare alike ---------- *)

Lemma eqb_zero_SF f : PrimFloat.eqb f 0%float = true -> exists s, Prim2SF f = S754_zero s.
Proof.
  rewrite FloatAxioms.eqb_spec. change (Prim2SF 0%float) with (S754_zero false).
  destruct (Prim2SF f) as [s| s| |s m e]; cbn; try discriminate; eauto; destruct s; discriminate.
Qed.

Lemma SFcompare_zero_l s y : SFcompare (S754_zero s) y = SFcompare (S754_zero false) y.
Proof. destruct y; reflexivity. Qed.
Lemma SFcompare_zero_r s x : SFcompare x (S754_zero s) = SFcompare x (S754_zero false).
Proof. destruct x; reflexivity. Qed.

Lemma fcmp_zero_l f y : PrimFloat.eqb f 0%float = true -> fcmp f y = fcmp 0%float y.
Proof.
  intros H. destruct (eqb_zero_SF f H) as [s Hs]. unfold fcmp.
  rewrite !FloatAxioms.eqb_spec, !FloatAxioms.ltb_spec. change (Prim2SF 0%float) with (S754_zero false). rewrite Hs.
  unfold SFeqb, SFltb. now rewrite SFcompare_zero_l, SFcompare_zero_r.
Qed.

Lemma fcmp_zero_r f x : PrimFloat.eqb f 0%float = true -> fcmp x f = fcmp x 0%float.
Proof.
  intros H. destruct (eqb_zero_SF f H) as [s Hs]. unfold fcmp.
  rewrite !FloatAxioms.eqb_spec, !FloatAxioms.ltb_spec. change (Prim2SF 0%float) with (S754_zero false). rewrite Hs.
  unfold SFeqb, SFltb. now rewrite SFcompare_zero_l, SFcompare_zero_r.
Qed.

(* zero_safe holds for every comparison between two numbers *)
Theorem zero_safe_num x y :
  vcompare (norm_zero (VNum x)) (norm_zero (VNum y)) = vcompare (VNum x) (VNum y).
Proof.
  cbn. destruct (PrimFloat.eqb x 0%float) eqn:Ex; destruct (PrimFloat.eqb y 0%float) eqn:Ey; cbn; f_equal.
  - now rewrite (fcmp_zero_l x y Ex), (fcmp_zero_r y 0%float Ey).
  - now rewrite (fcmp_zero_l x y Ex).
  - now rewrite (fcmp_zero_r y x Ey).
Qed.

(* hence: zero_safe for a pair of key values that are both numbers, or that carry no -0 *)
Corollary zero_safe_cases a b :
  (is_num a = true /\ is_num b = true) \/ (norm_zero a = a /\ norm_zero b = b) ->
  vcompare (norm_zero a) (norm_zero b) = vcompare a b.
Proof.
  intros [[Ha Hb]|[Ha Hb]]; [|now apply zero_safe_fixed].
  destruct a; try discriminate. destruct b; try discriminate. apply zero_safe_num.
Qed.

(* for two numbers hash_faithful says: equal as doubles <-> same printed text *)
Lemma key_agree_num x y :
  (vcompare (VNum x) (VNum y) = Ok 0%Z <-> PrimFloat.eqb x y = true).
Proof.
  cbn. unfold fcmp. destruct (PrimFloat.eqb x y); [tauto|].
  split; [|discriminate]. destruct (PrimFloat.ltb y x); discriminate.
Qed.
