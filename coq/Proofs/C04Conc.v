(* Proofs/C04Conc.v — the PARALLEL join drivers (join.go ParallelJoinFunc / ParallelHashJoinFunc) as a
   concurrent program, and the proof that EVERY schedule gives the sequential driver's answer up to
   the order of the batches.

     main:      for each left key j:  wg.Add(1); go worker(j)
                wg.Wait()
                if failure != nil { return nil, failure }; return slice, nil
     worker j:  b := batch j                       (JoinMatchFunc / HashJoinMatchFunc: pure)
                ok:    mut.Lock(); tmp := slice; slice = tmp ++ b; mut.Unlock()
                error/panic (recovered by the deferred func):
                       mut.Lock(); failure = err; mut.Unlock()
                wg.Done()                          (deferred: runs on every path)

   `append` is deliberately NOT atomic: it is a read of the shared slice followed by a write.
   sync.Mutex and sync.WaitGroup are oracles: Lock blocks while the mutex is held, Wait blocks
   while the counter is positive, Unlock of a free mutex / Done at counter 0 are run-time faults
   (recorded in [bad]; proved unreachable).  A schedule is ANY list of thread ids; picking a
   thread that is blocked, not yet spawned or finished is a no-op, so the theorems hold for every
   interleaving (fair or not). *)
From Coq Require Import List Arith Lia Bool Permutation.
From GenqlV Require Import Base.Prelude.
Import ListNotations.
Local Open Scope nat_scope.

Definition upd {B} (f : nat -> B) (i : nat) (v : B) : nat -> B :=
  fun j => if Nat.eqb j i then v else f j.

Lemma upd_same {B} (f : nat -> B) i v : upd f i v i = v.
Proof. unfold upd; now rewrite Nat.eqb_refl. Qed.
Lemma upd_other {B} (f : nat -> B) i j v : j <> i -> upd f i v j = f j.
Proof. unfold upd; intros H; destruct (Nat.eqb_spec j i); congruence. Qed.

(* number of i < m with f i = true *)
Fixpoint cnt (f : nat -> bool) (m : nat) : nat :=
  match m with O => 0 | S k => cnt f k + (if f k then 1 else 0) end.

Lemma cnt_ext f g m : (forall i, i < m -> f i = g i) -> cnt f m = cnt g m.
Proof.
  induction m as [|m IH]; cbn; intros H; [reflexivity|].
  rewrite IH by (intros; apply H; lia). rewrite (H m) by lia. reflexivity.
Qed.

Lemma cnt_upd_ge f i v m : m <= i -> cnt (upd f i v) m = cnt f m.
Proof. intros H. apply cnt_ext. intros j Hj. apply upd_other. lia. Qed.

Lemma cnt_upd_same f i v m : f i = v -> cnt (upd f i v) m = cnt f m.
Proof.
  intros H. apply cnt_ext. intros j _. destruct (Nat.eq_dec j i) as [->|Hne];
  [now rewrite upd_same|now rewrite upd_other].
Qed.

Lemma cnt_upd_drop f i m : i < m -> f i = true -> S (cnt (upd f i false) m) = cnt f m.
Proof.
  induction m as [|m IH]; cbn; intros Hi Hf; [lia|].
  destruct (Nat.eq_dec i m) as [->|Hne].
  - rewrite upd_same, Hf, cnt_upd_ge by lia. lia.
  - rewrite (upd_other _ _ _ _ (not_eq_sym Hne)). rewrite <- IH by (auto; lia). lia.
Qed.

Lemma cnt_zero f m : cnt f m = 0 -> forall i, i < m -> f i = false.
Proof.
  induction m as [|m IH]; cbn; intros H i Hi; [lia|].
  destruct (f m) eqn:E; [lia|].
  destruct (Nat.eq_dec i m) as [->|Hne]; [exact E|apply IH; lia].
Qed.

Lemma cnt_pos f m : cnt f m <> 0 -> exists i, i < m /\ f i = true.
Proof.
  induction m as [|m IH]; cbn; intros H; [lia|].
  destruct (f m) eqn:E; [exists m; split; [lia|exact E]|].
  destruct IH as (i & Hi & Hf); [lia|]. exists i; split; [lia|exact Hf].
Qed.

(* sum of f over i < m *)
Fixpoint sumf (f : nat -> nat) (m : nat) : nat :=
  match m with O => 0 | S k => sumf f k + f k end.

Lemma sumf_ext f g m : (forall i, i < m -> f i = g i) -> sumf f m = sumf g m.
Proof.
  induction m as [|m IH]; cbn; intros H; [reflexivity|].
  rewrite IH by (intros; apply H; lia). rewrite (H m) by lia. reflexivity.
Qed.

Lemma sumf_upd_lt (f : nat -> nat) i v m : i < m -> v < f i -> sumf (upd f i v) m < sumf f m.
Proof.
  induction m as [|m IH]; cbn; intros Hi Hv; [lia|].
  destruct (Nat.eq_dec i m) as [->|Hne].
  - rewrite upd_same. rewrite (sumf_ext (upd f m v) f) by (intros; apply upd_other; lia). lia.
  - rewrite (upd_other _ _ _ _ (not_eq_sym Hne)). assert (sumf (upd f i v) m < sumf f m) by (apply IH; lia). lia.
Qed.

Section Par.
Context {A : Type}.
Variable n : nat.                       (* number of left keys = number of workers *)
Variable batch : nat -> res (list A).   (* what worker j computes; anything but Ok is the error path *)

Inductive tid := TMain | TW (i : nat).

Inductive mainpc := MAdd (j : nat) | MGo (j : nat) | MWait | MRet (r : option (list A)).
Inductive workpc := WIdle | WCompute | WLock | WRead | WWrite | WLockF | WSetF | WUnlock | WDone | WFin.

Record st := mk {
  lock : option nat;        (* sync.Mutex: holder *)
  slice : list A;           (* shared result *)
  failure : bool;           (* shared `failure != nil` *)
  counter : nat;            (* sync.WaitGroup *)
  order : list nat;         (* ghost: workers in the order they performed their shared write *)
  mpc : mainpc;
  wpc : nat -> workpc;
  tmp : nat -> list A;      (* worker-local copy of the slice header read by append *)
  bad : bool }.             (* a sync run-time fault happened *)

Definition okb (i : nat) : list A := match batch i with Ok b => b | _ => [] end.
Definition failed (i : nat) : bool := negb (is_ok (batch i)).

Definition set_wpc (s : st) (i : nat) (p : workpc) : st :=
  mk (lock s) (slice s) (failure s) (counter s) (order s) (mpc s) (upd (wpc s) i p) (tmp s) (bad s).
Definition set_mpc (s : st) (p : mainpc) : st :=
  mk (lock s) (slice s) (failure s) (counter s) (order s) p (wpc s) (tmp s) (bad s).
Definition set_lock (s : st) (l : option nat) : st :=
  mk l (slice s) (failure s) (counter s) (order s) (mpc s) (wpc s) (tmp s) (bad s).
Definition set_counter (s : st) (c : nat) : st :=
  mk (lock s) (slice s) (failure s) c (order s) (mpc s) (wpc s) (tmp s) (bad s).
Definition set_bad (s : st) : st :=
  mk (lock s) (slice s) (failure s) (counter s) (order s) (mpc s) (wpc s) (tmp s) true.

Definition step (s : st) (t : tid) : st :=
  match t with
  | TMain =>
      match mpc s with
      | MAdd j => if j <? n then set_mpc (set_counter s (S (counter s))) (MGo j)   (* wg.Add(1) *)
                  else set_mpc s MWait
      | MGo j => set_mpc (set_wpc s j WCompute) (MAdd (S j))                       (* go worker(j) *)
      | MWait => if counter s =? 0
                 then set_mpc s (MRet (if failure s then None else Some (slice s)))
                 else s                                                            (* blocked *)
      | MRet _ => s
      end
  | TW i =>
      match wpc s i with
      | WIdle => s                                                                 (* not spawned *)
      | WCompute => set_wpc s i (if is_ok (batch i) then WLock else WLockF)
      | WLock => match lock s with
                 | None => set_wpc (set_lock s (Some i)) i WRead
                 | Some _ => s                                                     (* blocked *)
                 end
      | WRead => mk (lock s) (slice s) (failure s) (counter s) (order s) (mpc s)
                    (upd (wpc s) i WWrite) (upd (tmp s) i (slice s)) (bad s)
      | WWrite => mk (lock s) (tmp s i ++ okb i) (failure s) (counter s) (order s ++ [i]) (mpc s)
                     (upd (wpc s) i WUnlock) (tmp s) (bad s)
      | WLockF => match lock s with
                  | None => set_wpc (set_lock s (Some i)) i WSetF
                  | Some _ => s
                  end
      | WSetF => mk (lock s) (slice s) true (counter s) (order s ++ [i]) (mpc s)
                    (upd (wpc s) i WUnlock) (tmp s) (bad s)
      | WUnlock => match lock s with
                   | Some _ => set_wpc (set_lock s None) i WDone
                   | None => set_bad s                     (* fatal: unlock of unlocked mutex *)
                   end
      | WDone => match counter s with
                 | S c => set_wpc (set_counter s c) i WFin
                 | O => set_bad s                          (* panic: negative WaitGroup counter *)
                 end
      | WFin => s
      end
  end.

Definition init : st :=
  mk None [] false 0 [] (MAdd 0) (fun _ => WIdle) (fun _ => []) false.

Definition run (sched : list tid) : st := fold_left step sched init.

(* ---------- the invariant ---------- *)

Definition in_cs (s : st) (i : nat) : Prop :=
  wpc s i = WRead \/ wpc s i = WWrite \/ wpc s i = WSetF \/ wpc s i = WUnlock.

Definition wrote (p : workpc) : bool :=
  match p with WUnlock | WDone | WFin => true | _ => false end.
Definition live (p : workpc) : bool := match p with WFin => false | _ => true end.

Definition spawned (p : mainpc) : nat :=
  match p with MAdd j => j | MGo j => j | _ => n end.
Definition added (p : mainpc) : nat :=
  match p with MAdd j => j | MGo j => S j | _ => n end.

Record Inv (s : st) : Prop := {
  I_lock : forall i, in_cs s i <-> lock s = Some i;
  I_tmp : forall i, wpc s i = WWrite -> tmp s i = slice s;
  I_slice : slice s = List.concat (map okb (order s));
  I_fail : failure s = existsb failed (order s);
  I_order : forall i, In i (order s) <-> wrote (wpc s i) = true;
  I_nodup : NoDup (order s);
  I_spawn : forall i, wpc s i <> WIdle <-> i < spawned (mpc s);
  I_main : match mpc s with MAdd j => j <= n | MGo j => j < n | _ => True end;
  I_counter : counter s = cnt (fun i => live (wpc s i)) (added (mpc s));
  I_okpath : forall i, wpc s i = WLock \/ wpc s i = WRead \/ wpc s i = WWrite -> failed i = false;
  I_errpath : forall i, wpc s i = WLockF \/ wpc s i = WSetF -> failed i = true;
  I_bad : bad s = false;
  I_ret : forall r, mpc s = MRet r ->
          counter s = 0 /\ r = (if failure s then None else Some (slice s)) }.

Lemma Inv_init : Inv init.
Proof.
  constructor; cbn; unfold in_cs; cbn; try reflexivity; try (intros; lia); try discriminate.
  - intros i. split; [intros [?|[?|[?|?]]]; discriminate|discriminate].
  - constructor.
  - intros i. split; [congruence|lia].
  - intros i [?|[?|?]]; discriminate.
  - intros i [?|?]; discriminate.
Qed.

Lemma NoDup_snoc {B} (l : list B) x : NoDup l -> ~ In x l -> NoDup (l ++ [x]).
Proof.
  induction l as [|y l IH]; cbn; intros Hn Hx; [constructor; [easy|constructor]|].
  inversion Hn; subst. constructor.
  - rewrite in_app_iff; cbn. intros [?|[?|[]]]; [easy|subst; apply Hx; now left].
  - apply IH; auto.
Qed.

Ltac upd_case j i :=
  destruct (Nat.eq_dec j i) as [->|?];
  [rewrite ?upd_same in * | rewrite ?upd_other in * by assumption].

(* a worker step that only moves worker i from p to q, where neither p nor q is in the critical
   section or changes any of the classifications, is handled by the same script; we nevertheless
   spell the cases out — there are fourteen of them *)
Lemma Inv_step s t : Inv s -> Inv (step s t).
Proof.
  intros [Hl Ht Hs Hf Ho Hn Hsp Hm Hc Hok Her Hb Hr].
  destruct t as [|i]; unfold step.
  - (* main *)
    destruct (mpc s) as [j|j| |r] eqn:Em.
    + (* Add / end of loop *)
      destruct (j <? n) eqn:Ej.
      * apply Nat.ltb_lt in Ej.
        constructor; cbn; unfold in_cs in *; cbn; auto; try discriminate.
        rewrite Hc. cbn.
           assert (Hidle : wpc s j = WIdle).
           { destruct (wpc s j) eqn:E; try reflexivity;
             assert (j < j) by (apply Hsp; congruence); lia. }
           rewrite Hidle. cbn. lia.
      * apply Nat.ltb_ge in Ej. cbn in Hm. assert (j = n) by lia. subst j.
        constructor; cbn; unfold in_cs in *; cbn; auto; try discriminate.
    + (* go *)
      cbn in Hm, Hsp, Hc.
      assert (Hidle : wpc s j = WIdle).
      { destruct (wpc s j) eqn:E; try reflexivity;
        assert (j < j) by (apply Hsp; congruence); lia. }
      constructor; cbn; unfold in_cs in *; cbn; auto; try discriminate.
      * intros k. upd_case k j.
        -- rewrite <- Hl. rewrite Hidle. split; intros [?|[?|[?|?]]]; discriminate.
        -- apply Hl.
      * intros k Hk. upd_case k j; [discriminate|auto].
      * intros k. upd_case k j.
        -- rewrite Ho, Hidle. cbn. tauto.
        -- apply Ho.
      * intros k. upd_case k j.
        -- split; [lia|discriminate].
        -- rewrite Hsp. lia.
      * rewrite Hc, upd_same, Hidle. cbn. f_equal.
        apply cnt_ext. intros k Hk. rewrite upd_other by lia. reflexivity.
      * intros k Hk. upd_case k j; [destruct Hk as [?|[?|?]]; discriminate|auto].
      * intros k Hk. upd_case k j; [destruct Hk as [?|?]; discriminate|auto].
    + (* Wait *)
      destruct (counter s =? 0) eqn:Ec.
      * apply Nat.eqb_eq in Ec.
        constructor; cbn; unfold in_cs in *; cbn; auto; try discriminate.
        intros r [= <-]. auto.
      * constructor; auto; rewrite ?Em; auto.
    + constructor; auto; rewrite ?Em; auto.
  - (* worker i *)
    destruct (wpc s i) eqn:Ep.
    + (* idle *) constructor; auto.
    + (* compute *)
      constructor; cbn; unfold in_cs in *; cbn; auto.
      * intros k. upd_case k i.
        -- rewrite <- Hl, Ep. destruct (is_ok (batch i));
           split; intros [?|[?|[?|?]]]; discriminate.
        -- apply Hl.
      * intros k Hk. upd_case k i; [destruct (is_ok (batch i)); discriminate|auto].
      * intros k. upd_case k i.
        -- rewrite Ho, Ep. destruct (is_ok (batch i)); cbn; tauto.
        -- apply Ho.
      * intros k. upd_case k i.
        -- rewrite <- Hsp, Ep. destruct (is_ok (batch i)); split; congruence.
        -- apply Hsp.
      * rewrite Hc. apply cnt_ext. intros k _. upd_case k i; [|reflexivity].
        rewrite Ep. now destruct (is_ok (batch i)).
      * intros k Hk. upd_case k i; [|auto].
        unfold failed. destruct (is_ok (batch i)); [reflexivity|].
        destruct Hk as [?|[?|?]]; discriminate.
      * intros k Hk. upd_case k i; [|auto].
        unfold failed. destruct (is_ok (batch i)); [|reflexivity].
        destruct Hk as [?|?]; discriminate.
    + (* Lock *)
      destruct (lock s) as [h|] eqn:El; [constructor; rewrite ?El; auto|].
      constructor; cbn; unfold in_cs in *; cbn; auto.
      * intros k. upd_case k i; [intuition|].
        split; [intros Hcs; apply Hl in Hcs; congruence|intros [= ->]; congruence].
      * intros k Hk. upd_case k i; [discriminate|auto].
      * intros k. upd_case k i; [rewrite Ho, Ep; cbn; tauto|apply Ho].
      * intros k. upd_case k i; [rewrite <- Hsp, Ep; split; congruence|apply Hsp].
      * rewrite Hc. apply cnt_ext. intros k _. upd_case k i; [now rewrite Ep|reflexivity].
      * intros k Hk. upd_case k i; [apply Hok; auto|auto].
      * intros k Hk. upd_case k i; [destruct Hk; discriminate|auto].
    + (* Read *)
      constructor; cbn; unfold in_cs in *; cbn; auto.
      * intros k. upd_case k i; [rewrite <- Hl; intuition|apply Hl].
      * intros k Hk. upd_case k i; [reflexivity|auto].
      * intros k. upd_case k i; [rewrite Ho, Ep; cbn; tauto|apply Ho].
      * intros k. upd_case k i; [rewrite <- Hsp, Ep; split; congruence|apply Hsp].
      * rewrite Hc. apply cnt_ext. intros k _. upd_case k i; [now rewrite Ep|reflexivity].
      * intros k Hk. upd_case k i; [apply Hok; auto|auto].
      * intros k Hk. upd_case k i; [destruct Hk; discriminate|auto].
    + (* Write: this is where mutual exclusion is used *)
      assert (Hcs : lock s = Some i) by (apply Hl; unfold in_cs; auto).
      assert (Hni : ~ In i (order s)) by (rewrite Ho, Ep; cbn; discriminate).
      constructor; cbn; unfold in_cs in *; cbn; auto.
      * intros k. upd_case k i; [split; auto|apply Hl].
      * intros k Hk. upd_case k i; [discriminate|].
        (* another worker between its read and its write would also hold the lock *)
        assert (lock s = Some k) by (apply Hl; auto). congruence.
      * rewrite (Ht i Ep), Hs, map_app, concat_app. cbn. now rewrite app_nil_r.
      * rewrite existsb_app, <- Hf. cbn. rewrite (Hok i) by auto. now rewrite !orb_false_r.
      * intros k. rewrite in_app_iff. cbn. upd_case k i; [split; auto|].
        rewrite Ho. split; [intros [?|[?|[]]]; [auto|congruence]|auto].
      * apply NoDup_snoc; auto.
      * intros k. upd_case k i; [rewrite <- Hsp, Ep; split; congruence|apply Hsp].
      * rewrite Hc. apply cnt_ext. intros k _. upd_case k i; [now rewrite Ep|reflexivity].
      * intros k Hk. upd_case k i; [destruct Hk as [?|[?|?]]; discriminate|auto].
      * intros k Hk. upd_case k i; [destruct Hk; discriminate|auto].
      * intros r Hr'. destruct (Hr r Hr') as [Hc0 _].
        (* main has returned: the counter is 0, so no worker is still live *)
        exfalso. rewrite Hr' in Hc. cbn in Hc. rewrite Hc0 in Hc.
        assert (i < n) by (rewrite Hr' in Hsp; apply Hsp; congruence).
        pose proof (cnt_zero _ _ (eq_sym Hc) i H) as Hz. cbn in Hz. now rewrite Ep in Hz.
    + (* Lock on the error path *)
      destruct (lock s) as [h|] eqn:El; [constructor; rewrite ?El; auto|].
      constructor; cbn; unfold in_cs in *; cbn; auto.
      * intros k. upd_case k i; [intuition|].
        split; [intros Hcs; apply Hl in Hcs; congruence|intros [= ->]; congruence].
      * intros k Hk. upd_case k i; [discriminate|auto].
      * intros k. upd_case k i; [rewrite Ho, Ep; cbn; tauto|apply Ho].
      * intros k. upd_case k i; [rewrite <- Hsp, Ep; split; congruence|apply Hsp].
      * rewrite Hc. apply cnt_ext. intros k _. upd_case k i; [now rewrite Ep|reflexivity].
      * intros k Hk. upd_case k i; [destruct Hk as [?|[?|?]]; discriminate|auto].
      * intros k Hk. upd_case k i; [apply Her; auto|auto].
    + (* failure = err *)
      assert (Hcs : lock s = Some i) by (apply Hl; unfold in_cs; auto).
      assert (Hni : ~ In i (order s)) by (rewrite Ho, Ep; cbn; discriminate).
      constructor; cbn; unfold in_cs in *; cbn; auto.
      * intros k. upd_case k i; [split; auto|apply Hl].
      * intros k Hk. upd_case k i; [discriminate|auto].
      * rewrite Hs, map_app, concat_app. cbn. unfold okb at 3.
        assert (Hfi : failed i = true) by (apply Her; auto).
        unfold failed in Hfi. destruct (batch i); try discriminate; now rewrite !app_nil_r.
      * rewrite existsb_app. cbn. rewrite (Her i) by auto. now rewrite orb_true_r.
      * intros k. rewrite in_app_iff. cbn. upd_case k i; [split; auto|].
        rewrite Ho. split; [intros [?|[?|[]]]; [auto|congruence]|auto].
      * apply NoDup_snoc; auto.
      * intros k. upd_case k i; [rewrite <- Hsp, Ep; split; congruence|apply Hsp].
      * rewrite Hc. apply cnt_ext. intros k _. upd_case k i; [now rewrite Ep|reflexivity].
      * intros k Hk. upd_case k i; [destruct Hk as [?|[?|?]]; discriminate|auto].
      * intros k Hk. upd_case k i; [destruct Hk; discriminate|auto].
      * intros r Hr'. destruct (Hr r Hr') as [Hc0 _].
        exfalso. rewrite Hr' in Hc. cbn in Hc. rewrite Hc0 in Hc.
        assert (i < n) by (rewrite Hr' in Hsp; apply Hsp; congruence).
        pose proof (cnt_zero _ _ (eq_sym Hc) i H) as Hz. cbn in Hz. now rewrite Ep in Hz.
    + (* Unlock *)
      assert (Hcs : lock s = Some i) by (apply Hl; unfold in_cs; auto).
      rewrite Hcs.
      constructor; cbn; unfold in_cs in *; cbn; auto.
      * intros k. upd_case k i.
        -- split; [intros [?|[?|[?|?]]]; discriminate|discriminate].
        -- split; [|discriminate]. intros Hk. apply Hl in Hk. congruence.
      * intros k Hk. upd_case k i; [discriminate|auto].
      * intros k. upd_case k i; [rewrite Ho, Ep; cbn; tauto|apply Ho].
      * intros k. upd_case k i; [rewrite <- Hsp, Ep; split; congruence|apply Hsp].
      * rewrite Hc. apply cnt_ext. intros k _. upd_case k i; [now rewrite Ep|reflexivity].
      * intros k Hk. upd_case k i; [destruct Hk as [?|[?|?]]; discriminate|auto].
      * intros k Hk. upd_case k i; [destruct Hk; discriminate|auto].
    + (* Done *)
      assert (Hi : i < added (mpc s)).
      { assert (i < spawned (mpc s)) by (apply Hsp; congruence).
        destruct (mpc s); cbn in *; lia. }
      assert (Hlive : S (cnt (upd (fun k => live (wpc s k)) i false) (added (mpc s)))
                      = cnt (fun k => live (wpc s k)) (added (mpc s))).
      { apply cnt_upd_drop; [exact Hi|now rewrite Ep]. }
      rewrite <- Hc in Hlive.
      destruct (counter s) as [|c] eqn:Ec; [discriminate|].
      constructor; cbn; unfold in_cs in *; cbn; auto.
      * intros k. upd_case k i.
        -- rewrite <- Hl, Ep. split; intros [?|[?|[?|?]]]; discriminate.
        -- apply Hl.
      * intros k Hk. upd_case k i; [discriminate|auto].
      * intros k. upd_case k i; [rewrite Ho, Ep; cbn; tauto|apply Ho].
      * intros k. upd_case k i; [rewrite <- Hsp, Ep; split; congruence|apply Hsp].
      * injection Hlive as Hlive. rewrite <- Hlive. apply cnt_ext. intros k _. unfold upd.
        destruct (Nat.eqb k i); reflexivity.
      * intros k Hk. upd_case k i; [destruct Hk as [?|[?|?]]; discriminate|auto].
      * intros k Hk. upd_case k i; [destruct Hk; discriminate|auto].
      * intros r Hr'. destruct (Hr r Hr') as [Hc0 _]. discriminate.
    + (* finished *) constructor; auto.
Qed.

Theorem every_schedule sched : Inv (run sched).
Proof.
  unfold run. assert (H : Inv init) by apply Inv_init. revert H. generalize init.
  induction sched as [|i sched IH]; cbn; intros s H; [exact H|]. apply IH, Inv_step, H.
Qed.

(* ---------- consequences, for EVERY schedule ---------- *)

(* mutual exclusion: at most one worker is between Lock and Unlock *)
Theorem mutual_exclusion sched i j :
  in_cs (run sched) i -> in_cs (run sched) j -> i = j.
Proof.
  intros Hi Hj. destruct (every_schedule sched) as [Hl _ _ _ _ _ _ _ _ _ _ _ _].
  apply Hl in Hi. apply Hl in Hj. congruence.
Qed.

(* no sync fault: never Unlock of a free mutex, never Done at counter 0 *)
Theorem no_sync_fault sched : bad (run sched) = false.
Proof. now destruct (every_schedule sched). Qed.

(* a NoDup list over {0..n-1} that contains all of them is a permutation of seq 0 n *)
Lemma perm_seq (l : list nat) :
  NoDup l -> (forall i, In i l <-> i < n) -> Permutation l (seq 0 n).
Proof.
  intros Hn Hin. apply NoDup_Permutation; [exact Hn|apply seq_NoDup|].
  intros i. rewrite Hin, in_seq. lia.
Qed.

Lemma concat_perm {B} (f : nat -> list B) l l' :
  Permutation l l' -> Permutation (List.concat (map f l)) (List.concat (map f l')).
Proof.
  induction 1; cbn.
  - constructor.
  - now apply Permutation_app_head.
  - rewrite !app_assoc. apply Permutation_app_tail, Permutation_app_comm.
  - etransitivity; eauto.
Qed.

(* when main has returned, every worker has finished and its write is in [order] exactly once *)
Theorem completion_order_is_permutation sched r :
  mpc (run sched) = MRet r ->
  NoDup (order (run sched)) /\ (forall i, In i (order (run sched)) <-> i < n) /\
  Permutation (order (run sched)) (seq 0 n).
Proof.
  intros Hret. destruct (every_schedule sched) as [_ _ _ _ Ho Hn Hsp _ Hc _ _ _ Hr].
  destruct (Hr r Hret) as [Hc0 _]. rewrite Hret in Hc, Hsp. cbn in Hc, Hsp.
  rewrite Hc0 in Hc. pose proof (cnt_zero _ _ (eq_sym Hc)) as Hfin. cbn in Hfin.
  assert (Hin : forall i, In i (order (run sched)) <-> i < n).
  { intros i. rewrite Ho. split.
    - intros Hw. apply Hsp. intros E. rewrite E in Hw. discriminate.
    - intros Hi. specialize (Hfin i Hi). destruct (wpc (run sched) i); try discriminate. reflexivity. }
  split; [exact Hn|]. split; [exact Hin|]. apply perm_seq; assumption.
Qed.

(* what main returns *)
Theorem result_is_concat_of_batches sched r :
  mpc (run sched) = MRet r ->
  r = (if existsb failed (order (run sched)) then None
       else Some (List.concat (map okb (order (run sched))))).
Proof.
  intros Hret. destruct (every_schedule sched) as [_ _ Hs Hf _ _ _ _ _ _ _ _ Hr].
  destruct (Hr r Hret) as [_ ->]. now rewrite Hf, Hs.
Qed.

(* the sequential driver: batches in key order; any error aborts *)
Definition sequential : res (list A) :=
  let! bs := mapM batch (seq 0 n) in Ok (List.concat bs).

Lemma mapM_ok_okb l bs : mapM batch l = Ok bs -> bs = map okb l /\ existsb failed l = false.
Proof.
  revert bs. induction l as [|i l IH]; cbn; intros bs H; [injection H as <-; auto|].
  unfold okb at 1, failed at 1. destruct (batch i) as [b| | |]; cbn in H; try discriminate.
  destruct (mapM batch l) as [bs'| | |]; cbn in H; try discriminate.
  injection H as <-. destruct (IH bs' eq_refl) as [-> ->]. auto.
Qed.

Lemma mapM_not_ok l : is_ok (mapM batch l) = false -> existsb failed l = true.
Proof.
  induction l as [|i l IH]; cbn; [discriminate|].
  unfold failed at 1. destruct (batch i) as [b| | |]; cbn; auto.
  destruct (mapM batch l) as [bs'| | |]; cbn in *; auto; discriminate.
Qed.

Lemma existsb_perm {B} (f : B -> bool) l l' : Permutation l l' -> existsb f l = existsb f l'.
Proof.
  induction 1; cbn; auto; try congruence.
  destruct (f x), (f y); reflexivity.
Qed.

(* THE theorem: whatever the interleaving, the parallel driver returns a permutation of the
   sequential driver's rows; it fails exactly when the sequential driver fails *)
Theorem parallel_vs_sequential sched r :
  mpc (run sched) = MRet r ->
  match sequential with
  | Ok out => exists out', r = Some out' /\ Permutation out' out
  | _ => r = None
  end.
Proof.
  intros Hret.
  destruct (completion_order_is_permutation sched r Hret) as (_ & _ & Hp).
  pose proof (result_is_concat_of_batches sched r Hret) as ->.
  unfold sequential. destruct (mapM batch (seq 0 n)) as [bs| | |] eqn:Em; cbn.
  - destruct (mapM_ok_okb _ _ Em) as [-> Hnf].
    rewrite (existsb_perm failed _ _ Hp), Hnf.
    eexists; split; [reflexivity|]. now apply concat_perm.
  - rewrite (existsb_perm failed _ _ Hp), mapM_not_ok; [reflexivity|now rewrite Em].
  - rewrite (existsb_perm failed _ _ Hp), mapM_not_ok; [reflexivity|now rewrite Em].
  - rewrite (existsb_perm failed _ _ Hp), mapM_not_ok; [reflexivity|now rewrite Em].
Qed.

(* ---------- no deadlock ---------- *)

Definition enabled (s : st) (t : tid) : bool :=
  match t with
  | TMain => match mpc s with
             | MAdd _ | MGo _ => true
             | MWait => counter s =? 0
             | MRet _ => false
             end
  | TW i => match wpc s i with
            | WIdle | WFin => false
            | WLock | WLockF => match lock s with None => true | Some _ => false end
            | _ => true
            end
  end.

Lemma not_enabled_noop s t : enabled s t = false -> step s t = s.
Proof.
  destruct t as [|i]; cbn.
  - destruct (mpc s); try discriminate; auto. intros ->. reflexivity.
  - destruct (wpc s i); try discriminate; auto; destruct (lock s); try discriminate; auto.
Qed.

Definition wrank (p : workpc) : nat :=
  match p with
  | WIdle => 10 | WCompute => 9 | WLock => 8 | WLockF => 8 | WRead => 7 | WWrite => 6
  | WSetF => 6 | WUnlock => 5 | WDone => 4 | WFin => 0
  end.
Definition mrank (p : mainpc) : nat :=
  match p with
  | MAdd j => 2 * (n - j) + 2 | MGo j => 2 * (n - j) + 1 | MWait => 1 | MRet _ => 0
  end.
(* main's rank is scaled so that spawning (which moves a worker from rank 10 to 9) still
   decreases the total *)
Definition measure (s : st) : nat := mrank (mpc s) + sumf (fun i => wrank (wpc s i)) n.

Lemma sumf_wpc_lt s i p :
  i < n -> wrank p < wrank (wpc s i) ->
  sumf (fun k => wrank (upd (wpc s) i p k)) n < sumf (fun k => wrank (wpc s k)) n.
Proof.
  intros Hi Hp.
  rewrite (sumf_ext _ (upd (fun k => wrank (wpc s k)) i (wrank p))).
  - apply sumf_upd_lt; auto.
  - intros k _. unfold upd. destruct (Nat.eqb k i); reflexivity.
Qed.

Lemma done_counter_pos s i : Inv s -> wpc s i = WDone -> counter s <> 0.
Proof.
  intros [_ _ _ _ _ _ Hsp _ Hc _ _ _ _] Ep E0.
  assert (Hi : i < added (mpc s)).
  { assert (i < spawned (mpc s)) by (apply Hsp; congruence).
    destruct (mpc s); cbn in *; lia. }
  rewrite E0 in Hc. pose proof (cnt_zero _ _ (eq_sym Hc) i Hi) as Hz. cbn in Hz.
  now rewrite Ep in Hz.
Qed.

(* every effective step makes progress towards termination *)
Lemma enabled_decreases s t : Inv s -> enabled s t = true -> measure (step s t) < measure s.
Proof.
  intros HI He. pose proof (done_counter_pos s) as Hdone. specialize (fun i => Hdone i HI).
  destruct HI as [Hl _ _ _ _ _ Hsp Hm _ _ _ _ _].
  destruct t as [|i]; cbn in He; unfold step, measure.
  - destruct (mpc s) as [j|j| |r] eqn:Em; try discriminate.
    + destruct (j <? n) eqn:Ej; cbn; [apply Nat.ltb_lt in Ej; lia|lia].
    + cbn in Hm. cbn.
      assert (Hidle : wpc s j = WIdle).
      { destruct (wpc s j) eqn:E; try reflexivity;
        assert (j < j) by (cbn in Hsp; apply Hsp; congruence); lia. }
      assert (sumf (fun k => wrank (upd (wpc s) j WCompute k)) n < sumf (fun k => wrank (wpc s k)) n).
      { apply sumf_wpc_lt; [exact Hm|]. rewrite Hidle. cbn. lia. }
      lia.
    + rewrite He. cbn. lia.
  - assert (Hi : i < n).
    { assert (i < spawned (mpc s)).
      { apply Hsp. intros E. rewrite E in He. discriminate. }
      destruct (mpc s); cbn in *; lia. }
    destruct (wpc s i) eqn:Ep; try discriminate.
    + cbn. apply Nat.add_lt_mono_l. apply sumf_wpc_lt; auto. rewrite Ep.
      destruct (is_ok (batch i)); cbn; lia.
    + destruct (lock s); [discriminate|]. cbn. apply Nat.add_lt_mono_l.
      apply sumf_wpc_lt; auto. rewrite Ep. cbn; lia.
    + cbn. apply Nat.add_lt_mono_l. apply sumf_wpc_lt; auto. rewrite Ep. cbn; lia.
    + cbn. apply Nat.add_lt_mono_l. apply sumf_wpc_lt; auto. rewrite Ep. cbn; lia.
    + destruct (lock s); [discriminate|]. cbn. apply Nat.add_lt_mono_l.
      apply sumf_wpc_lt; auto. rewrite Ep. cbn; lia.
    + cbn. apply Nat.add_lt_mono_l. apply sumf_wpc_lt; auto. rewrite Ep. cbn; lia.
    + assert (Hcs : lock s = Some i) by (apply Hl; unfold in_cs; auto). rewrite Hcs.
      cbn. apply Nat.add_lt_mono_l. apply sumf_wpc_lt; auto. rewrite Ep. cbn; lia.
    + destruct (counter s) eqn:Ec; [exfalso; now apply (Hdone i)|].
      cbn. apply Nat.add_lt_mono_l. apply sumf_wpc_lt; auto. rewrite Ep. cbn; lia.
Qed.

(* no deadlock: as long as main has not returned, some thread can move *)
Lemma progress s : Inv s -> (forall r, mpc s <> MRet r) -> exists t, enabled s t = true.
Proof.
  intros [Hl _ _ _ _ _ Hsp _ Hc _ _ _ _] Hnr.
  destruct (mpc s) as [j|j| |r] eqn:Em.
  - exists TMain. cbn. now rewrite Em.
  - exists TMain. cbn. now rewrite Em.
  - destruct (counter s =? 0) eqn:Ec; [exists TMain; cbn; now rewrite Em|].
    apply Nat.eqb_neq in Ec. rewrite Hc in Ec. cbn in Ec, Hsp.
    destruct (cnt_pos _ _ Ec) as (i & Hi & Hlive). cbn in Hlive.
    assert (Hni : wpc s i <> WIdle) by (apply Hsp; exact Hi).
    assert (Hholder : forall h, lock s = Some h -> enabled s (TW h) = true).
    { intros h Hh. apply Hl in Hh. cbn. destruct Hh as [E|[E|[E|E]]]; now rewrite E. }
    destruct (wpc s i) eqn:Ep; try discriminate; try congruence;
      try (exists (TW i); cbn; rewrite Ep; reflexivity).
    + destruct (lock s) as [h|] eqn:El; [exists (TW h); auto|].
      exists (TW i). cbn. now rewrite Ep, El.
    + destruct (lock s) as [h|] eqn:El; [exists (TW h); auto|].
      exists (TW i). cbn. now rewrite Ep, El.
  - exfalso. now apply (Hnr r).
Qed.

Theorem no_deadlock sched :
  (forall r, mpc (run sched) <> MRet r) -> exists t, enabled (run sched) t = true.
Proof. apply progress, every_schedule. Qed.

Lemma Inv_fold sched s : Inv s -> Inv (fold_left step sched s).
Proof. revert s. induction sched as [|t sched IH]; cbn; intros s H; [exact H|apply IH, Inv_step, H]. Qed.

(* from every reachable state the run can be completed, and no run can go on for ever: the
   number of effective (non-stuttering) steps of ANY schedule is bounded by the initial measure *)
Theorem can_finish s : Inv s -> exists sched r, mpc (fold_left step sched s) = MRet r.
Proof.
  remember (measure s) as m eqn:Em. revert s Em.
  induction m as [m IH] using lt_wf_ind. intros s Em HI.
  destruct (mpc s) as [j|j| |r] eqn:Ep.
  4: { exists [], r. exact Ep. }
  all: destruct (progress s HI) as (t & Ht); [intros r; congruence|];
       pose proof (enabled_decreases s t HI Ht) as Hlt;
       destruct (IH (measure (step s t)) ltac:(lia) (step s t) eq_refl (Inv_step s t HI))
         as (sched & r & Hr);
       exists (t :: sched), r; exact Hr.
Qed.

Fixpoint eff_steps (s : st) (sched : list tid) : nat :=
  match sched with
  | [] => 0
  | t :: r => (if enabled s t then 1 else 0) + eff_steps (step s t) r
  end.

Theorem effective_steps_bounded sched s :
  Inv s -> eff_steps s sched + measure (fold_left step sched s) <= measure s.
Proof.
  revert s. induction sched as [|t sched IH]; cbn; intros s HI; [lia|].
  specialize (IH (step s t) (Inv_step s t HI)).
  destruct (enabled s t) eqn:Et.
  - pose proof (enabled_decreases s t HI Et). lia.
  - rewrite (not_enabled_noop s t Et) in *. lia.
Qed.

End Par.

