(* Proofs/C07Lemmas.v — CTEs, derived tables and subqueries equal staged evaluation.
   Claims are restated in Properties/C07.v. *)
From Coq Require Import Floats.
From GenqlV Require Import Base.Prelude Base.Fmt Base.Value Model.Ast Model.Like Model.Num Model.Eval Model.Exec.
From GenqlV Require Import Spec.StageSpec Proofs.C07Mono Proofs.C07Blind Proofs.C07Up.
From Coq Require Import ZifyBool ZifyNat Permutation.
Local Open Scope list_scope.

(* ================================================================== *)
(* 0. small facts                                                      *)
(* ================================================================== *)

Definition mkctx (d : row) (ctes : list (string * stmt)) (busy : list string) : qctx :=
  {| c_data := d; c_ctes := ctes; c_busy := busy; c_up := [] |}.

(* a query that is not a subquery: nothing is behind `<-` but what its document holds *)
Lemma up_read_top ctx p : c_up ctx = [] -> up_read ctx p = None.
Proof.
  intros H. unfold up_read. rewrite H. destruct p as [|k rest]; [reflexivity|].
  destruct (String.eqb k "<-"); reflexivity.
Qed.

Lemma same_pipeline_refl s : same_pipeline s s.
Proof. repeat split. Qed.
Lemma same_pipeline_clear s : same_pipeline s (clear_with s).
Proof. repeat split. Qed.
Lemma same_pipeline_set_from s f : same_pipeline s (set_from s f).
Proof. repeat split. Qed.

(* a key path applied to an array yields an array (or fails): never nil *)
Lemma reader_arr p l v : reader p (VArr l) = Ok v -> exists l', v = VArr l'.
Proof.
  destruct p as [|k rest]; cbn [reader]; intros H.
  - inversion H. eauto.
  - apply bind_ok7 in H. destruct H as (l' & _ & H). inversion H. eauto.
Qed.

Lemma mem_str_In k l : mem_str k l = true <-> In k l.
Proof.
  unfold mem_str. rewrite existsb_exists. split.
  - intros (x & Hx & He). apply String.eqb_eq in He. subst. exact Hx.
  - intros H. exists k. split; [exact H|apply String.eqb_refl].
Qed.

Lemma mem_str_not_In k l : mem_str k l = false <-> ~ In k l.
Proof.
  destruct (mem_str k l) eqn:E.
  - split; [discriminate|]. intros H. exfalso. apply H. apply mem_str_In. exact E.
  - split; [|reflexivity]. intros _ Hin. apply mem_str_In in Hin. congruence.
Qed.

Lemma cte_lookup_none k ctes : ~ In k (map fst ctes) -> cte_lookup k ctes = None.
Proof.
  unfold cte_lookup. induction ctes as [|[c b] r IH]; cbn [find map fst In]; intros H; [reflexivity|].
  destruct (String.eqb c k) eqn:He.
  - apply String.eqb_eq in He. exfalso. auto.
  - apply IH. intros Hin. auto.
Qed.

Lemma cte_lookup_nodup k body ctes :
  NoDup (map fst ctes) -> In (k, body) ctes -> cte_lookup k ctes = Some body.
Proof.
  unfold cte_lookup. induction ctes as [|[c b] r IH]; cbn [find map fst In]; intros Hnd Hin; [contradiction|].
  inversion Hnd as [|? ? Hnotin Hnd']; subst.
  destruct Hin as [Heq|Hin].
  - inversion Heq; subst. rewrite String.eqb_refl. reflexivity.
  - destruct (String.eqb c k) eqn:He; [|apply IH; assumption].
    apply String.eqb_eq in He. subst c. exfalso. apply Hnotin.
    change k with (fst (k, body)). apply in_map. exact Hin.
Qed.

Lemma nodup_str_NoDup l : nodup_str l = true -> NoDup l.
Proof.
  induction l as [|k r IH]; cbn [nodup_str]; intros H; constructor.
  - apply Bool.andb_true_iff in H. destruct H as [H _].
    apply Bool.negb_true_iff in H. apply mem_str_not_In. exact H.
  - apply IH. apply Bool.andb_true_iff in H. tauto.
Qed.

Section Main.
  Variable call : string -> string -> list value -> row -> res raw.
  Variable join : jointype -> jstrategy -> list value -> list value -> string -> string ->
                  expr stmt -> row -> res (list value).
  Notation ex := (exec call join).
  Notation evals := (evals call join).

  (* ================================================================ *)
  (* 1. reading a table: a resolved CTE against the same value as      *)
  (*    plain input                                                    *)
  (* ================================================================ *)

  (* WITH is not consulted once the source rows are resolved *)
  Lemma run_select_clear rec ctx s src :
    run_select rec call join ctx s src = run_select rec call join ctx (clear_with s) src.
  Proof. reflexivity. Qed.

  Lemma exec_select_unfold n ctx s :
    ex (S n) ctx (JStmt (SSelect s)) =
    let ctx' := register_ctes ctx (s_with s) in
    let! src := build_from (ex n) join ctx' (s_from s) in
    run_select (ex n) call join ctx' s src.
  Proof. reflexivity. Qed.

  Lemma exec_rows_unfold n ctx s rows :
    ex (S n) ctx (JRows s rows) = run_select (ex n) call join ctx s (Some rows).
  Proof. reflexivity. Qed.

  Lemma register_nil d ctes busy : register_ctes (mkctx d ctes busy) [] = mkctx d ctes busy.
  Proof. reflexivity. Qed.

  (* the table is a registered CTE that is not in progress and whose body yields an array *)
  Lemma from_cte rec d ctes busy k rest alias body rows :
    cte_lookup k ctes = Some body -> mem_str k busy = false ->
    rec (mkctx d ctes (k :: busy)) (JStmt body) = Ok (VArr rows) ->
    build_from rec join (mkctx d ctes busy) (FTable (k :: rest) alias) =
    let! v := reader rest (VArr rows) in let! arr := as_array v in Ok (Some (process_alias arr alias)).
  Proof.
    intros Hl Hb Hr. cbn [build_from mkctx c_ctes c_busy c_data c_up]. rewrite Hl.
    unfold mem_str in Hb. rewrite Hb. unfold mkctx in Hr. rewrite Hr. reflexivity.
  Qed.

  (* the table is a document key holding an array *)
  Lemma from_doc_arr rec d k rest alias rows :
    obj_get k d = VArr rows ->
    build_from rec join (plain d) (FTable (k :: rest) alias) =
    let! v := reader rest (VArr rows) in let! arr := as_array v in Ok (Some (process_alias arr alias)).
  Proof.
    intros Hk. cbn [build_from plain c_ctes c_data cte_lookup find].
    rewrite (up_read_top (plain d)) by reflexivity. cbn [plain c_data reader]. rewrite Hk.
    destruct (reader rest (VArr rows)) as [v| | |] eqn:Hv; cbn [bind]; try reflexivity.
    apply reader_arr in Hv. destruct Hv as (l' & ->). reflexivity.
  Qed.

  (* the table is not a CTE: it is read from the document, whatever else the context holds *)
  Lemma from_doc rec rec' d d' ctes busy k rest alias :
    cte_lookup k ctes = None -> obj_get k d = obj_get k d' ->
    build_from rec join (mkctx d ctes busy) (FTable (k :: rest) alias) =
    build_from rec' join (plain d') (FTable (k :: rest) alias).
  Proof.
    intros Hl Hk. cbn [build_from mkctx plain c_ctes c_data]. rewrite Hl.
    cbn [cte_lookup find].
    rewrite (up_read_top {| c_data := d; c_ctes := ctes; c_busy := busy; c_up := [] |}) by reflexivity.
    rewrite (up_read_top {| c_data := d'; c_ctes := []; c_busy := []; c_up := [] |}) by reflexivity.
    cbn [c_data reader]. rewrite Hk. reflexivity.
  Qed.

  (* one stage reading a CTE, against the same stage reading the materialised value *)
  Lemma stage_step_cte m d d' ctes busy s s' k k' rest alias body rows :
    s_with s = [] -> s_from s = FTable (k :: rest) alias -> blind_select s = true ->
    s_with s' = [] -> s_from s' = FTable (k' :: rest) alias -> same_pipeline s s' ->
    cte_lookup k ctes = Some body -> mem_str k busy = false ->
    ex m (mkctx d ctes (k :: busy)) (JStmt body) = Ok (VArr rows) ->
    obj_get k' d' = VArr rows ->
    ex (S m) (mkctx d ctes busy) (JStmt (SSelect s)) = ex (S m) (plain d') (JStmt (SSelect s')).
  Proof.
    intros Hw Hf Hb Hw' Hf' Hp Hl Hbusy Hbody Hk.
    rewrite !exec_select_unfold. rewrite Hw, Hf, Hw', Hf'.
    change (register_ctes (plain d') []) with (plain d'). rewrite register_nil. cbn zeta.
    rewrite (from_cte (ex m) d ctes busy k rest alias body rows Hl Hbusy Hbody).
    rewrite (from_doc_arr (ex m) d' k' rest alias rows Hk).
    destruct (reader rest (VArr rows)) as [v| | |]; cbn [bind]; try reflexivity.
    destruct (as_array v) as [arr| | |]; cbn [bind]; try reflexivity.
    apply run_select_blind_exec; [exact Hb|exact Hp].
  Qed.

  (* a table never yields the dual source *)
  Lemma from_table_not_dual rec ctx p alias : build_from rec join ctx (FTable p alias) <> Ok None.
  Proof.
    cbn [build_from]. destruct p as [|k rest]; [discriminate|].
    destruct (cte_lookup k (c_ctes ctx)) as [body|].
    - destruct (existsb (String.eqb k) (c_busy ctx)); [discriminate|]. intros H.
      apply bind_ok7 in H. destruct H as (rs & _ & H).
      apply bind_ok7 in H. destruct H as (v & _ & H).
      apply bind_ok7 in H. destruct H as (arr & _ & H). discriminate.
    - destruct (up_read ctx (k :: rest)) as [h|].
      + destruct (existsb (String.eqb (uh_name h)) (fr_busy (uh_frame h))); [discriminate|]. intros H.
        apply bind_ok7 in H. destruct H as (rs & _ & H).
        apply bind_ok7 in H. destruct H as (v & _ & H).
        apply bind_ok7 in H. destruct H as (arr & _ & H). discriminate.
      + intros H. apply bind_ok7 in H. destruct H as (v & _ & H).
        destruct v; try discriminate; apply bind_ok7 in H; destruct H as (arr & _ & H); discriminate.
  Qed.

  Lemma stage_step_doc m d d' ctes busy s k rest alias :
    s_with s = [] -> s_from s = FTable (k :: rest) alias -> blind_select s = true ->
    cte_lookup k ctes = None -> obj_get k d = obj_get k d' ->
    ex (S m) (mkctx d ctes busy) (JStmt (SSelect s)) = ex (S m) (plain d') (JStmt (SSelect s)).
  Proof.
    intros Hw Hf Hb Hl Hk.
    rewrite !exec_select_unfold. rewrite Hw, Hf.
    change (register_ctes (plain d') []) with (plain d'). rewrite register_nil. cbn zeta.
    rewrite (from_doc (ex m) (ex m) d d' ctes busy k rest alias Hl Hk).
    destruct (build_from (ex m) join (plain d') (FTable (k :: rest) alias)) as [[rows|]| | |] eqn:Hsrc;
      cbn [bind]; try reflexivity.
    - apply run_select_blind_exec; [exact Hb|apply same_pipeline_refl].
    - exfalso. exact (from_table_not_dual _ _ _ _ Hsrc).
  Qed.

  (* ================================================================ *)
  (* 2. fuel-free evaluation                                           *)
  (* ================================================================ *)

  Lemma evals_agree ctx j r n : evals ctx j r -> ex n ctx j <> OutOfModel -> ex n ctx j = r.
  Proof.
    intros (Hr & n0 & H0) Hn. subst r. apply exec_deterministic; assumption.
  Qed.

  Lemma evals_det ctx j r1 r2 : evals ctx j r1 -> evals ctx j r2 -> r1 = r2.
  Proof.
    intros H1 (Hr2 & n2 & H2). subst r2. symmetry. apply (evals_agree ctx j r1 n2 H1 Hr2).
  Qed.

  Lemma evals_from ctx j r : evals ctx j r -> exists N, forall n, N <= n -> ex n ctx j = r.
  Proof.
    intros (Hr & N & HN). exists N. intros n Hn. apply (exec_mono call join N n ctx j r HN Hr Hn).
  Qed.

  Lemma evals_pos ctx j r n : ex n ctx j = r -> r <> OutOfModel -> exists m, n = S m.
  Proof. destruct n as [|m]; [intros <- H; exfalso; apply H; reflexivity|eauto]. Qed.

  (* ================================================================ *)
  (* 3. statements that cannot see the registered CTEs                 *)
  (* ================================================================ *)

  Lemma mem_str_fst_none ctes k : mem_str k (map fst ctes) = false -> cte_lookup k ctes = None.
  Proof. intros H. apply cte_lookup_none. apply mem_str_not_In. exact H. Qed.

  Lemma from_avoids_invisible rec d ctes busy f :
    from_avoids (map fst ctes) f = true ->
    build_from rec join (mkctx d ctes busy) f = build_from rec join (plain d) f.
  Proof.
    apply (from_avoids_invisible_up join (map fst ctes) d ctes busy (mem_str_fst_none ctes) rec []).
  Qed.

  (* [avoids] now also asks that the row-scoped subqueries of the statement do not reach one of the
     names through `<-` (StageSpec.hides): they would read the thunk of the enclosing query *)
  Theorem avoids_invisible q : forall n d ctes busy,
    avoids (map fst ctes) q = true ->
    ex n (mkctx d ctes busy) (JStmt q) = ex n (plain d) (JStmt q).
  Proof.
    intros n d ctes busy H.
    apply (avoids_invisible_up call join (map fst ctes) d ctes busy (mem_str_fst_none ctes) q n [] H).
  Qed.

  (* ================================================================ *)
  (* 4. one CTE: composed = materialise, then query                    *)
  (* ================================================================ *)

  Lemma from_cte_unfold rec d ctes busy k rest alias body :
    cte_lookup k ctes = Some body -> mem_str k busy = false ->
    build_from rec join (mkctx d ctes busy) (FTable (k :: rest) alias) =
    let! rs := rec (mkctx d ctes (k :: busy)) (JStmt body) in
    let! v := reader rest rs in let! arr := as_array v in Ok (Some (process_alias arr alias)).
  Proof.
    intros Hl Hb. cbn [build_from mkctx c_ctes c_busy c_data c_up]. rewrite Hl.
    unfold mem_str in Hb. rewrite Hb. reflexivity.
  Qed.

  Lemma cte_lookup_single c inner : cte_lookup c [(c, inner)] = Some inner.
  Proof. unfold cte_lookup. cbn [find fst]. rewrite String.eqb_refl. reflexivity. Qed.

  (* general form: the outer SELECT is arbitrary; what is needed of it is stated semantically —
     its pipeline over given rows does not notice that key [c] of the document was bound *)
  Theorem cte_is_staged_sem n d c inner s rest alias :
    s_with s = [(c, inner)] -> s_from s = FTable (c :: rest) alias ->
    ex n (mkctx d [(c, inner)] [c]) (JStmt inner) = ex n (plain d) (JStmt inner) ->
    (forall v, ex n (plain d) (JStmt inner) = Ok v -> exists rows, v = VArr rows) ->
    (forall v rows, ex n (plain d) (JStmt inner) = Ok v ->
       run_select (ex n) call join (mkctx d [(c, inner)] []) s (Some rows) =
       run_select (ex n) call join (plain (bind_doc d c v)) s (Some rows)) ->
    ex (S n) (plain d) (JStmt (SSelect s)) = stage call join n c inner s d.
  Proof.
    intros Hw Hf Hclosed Harr Hout. unfold stage.
    rewrite exec_select_unfold, Hw, Hf.
    change (register_ctes (plain d) [(c, inner)]) with (mkctx d [(c, inner)] []). cbn zeta.
    rewrite (from_cte_unfold (ex n) d [(c, inner)] [] c rest alias inner
               (cte_lookup_single c inner) eq_refl).
    rewrite Hclosed.
    destruct (ex n (plain d) (JStmt inner)) as [v| | |] eqn:Hin; cbn [bind]; try reflexivity.
    destruct (Harr v eq_refl) as (rows & ->).
    rewrite exec_select_unfold. cbn [clear_with set_with s_with s_from]. rewrite Hf.
    change (register_ctes (plain (bind_doc d c (VArr rows))) []) with (plain (bind_doc d c (VArr rows))).
    cbn zeta.
    rewrite (from_doc_arr (ex n) (bind_doc d c (VArr rows)) c rest alias rows)
      by apply obj_get_set_same.
    destruct (reader rest (VArr rows)) as [v| | |]; cbn [bind]; try reflexivity.
    destruct (as_array v) as [arr| | |]; cbn [bind]; try reflexivity.
    rewrite (Hout (VArr rows) (process_alias arr alias) eq_refl). reflexivity.
  Qed.

  (* the stated scope: outer query of the filter/projection/aggregate/order grammar, inner
     statement that does not read the name it is being bound to *)
  Theorem cte_is_staged n d c inner s rest alias :
    s_with s = [(c, inner)] -> s_from s = FTable (c :: rest) alias ->
    blind_select s = true -> avoids [c] inner = true ->
    (forall v, ex n (plain d) (JStmt inner) = Ok v -> exists rows, v = VArr rows) ->
    ex (S n) (plain d) (JStmt (SSelect s)) = stage call join n c inner s d.
  Proof.
    intros Hw Hf Hb Hav Harr. apply (cte_is_staged_sem n d c inner s rest alias); auto.
    - apply (avoids_invisible inner n d [(c, inner)] [c]). exact Hav.
    - intros v rows _. apply run_select_blind_exec; [exact Hb|apply same_pipeline_refl].
  Qed.

  (* the same without fuel: whenever the inner statement evaluates to an array, the composed query
     and the staged query evaluate to the same outcome *)
  Theorem cte_is_staged_evals d c inner s rest alias rows r :
    s_with s = [(c, inner)] -> s_from s = FTable (c :: rest) alias ->
    blind_select s = true -> avoids [c] inner = true ->
    evals (plain d) (JStmt inner) (Ok (VArr rows)) ->
    (evals (plain d) (JStmt (SSelect s)) r <->
     evals (plain (bind_doc d c (VArr rows))) (JStmt (SSelect (clear_with s))) r).
  Proof.
    intros Hw Hf Hb Hav Hin.
    assert (Harr : forall m v, ex m (plain d) (JStmt inner) = Ok v -> exists rows', v = VArr rows').
    { intros m v Hv. exists rows.
      assert (H := evals_agree _ _ _ m Hin). rewrite Hv in H.
      specialize (H ltac:(discriminate)). inversion H. reflexivity. }
    split.
    - intros (Hr & n & Hn). destruct (evals_pos _ _ _ _ Hn Hr) as (m & ->).
      rewrite (cte_is_staged m d c inner s rest alias Hw Hf Hb Hav (Harr m)) in Hn.
      unfold stage in Hn.
      assert (Hm : ex m (plain d) (JStmt inner) = Ok (VArr rows)).
      { apply (evals_agree _ _ _ m Hin). intros Ho. rewrite Ho in Hn. cbn [bind] in Hn. auto. }
      rewrite Hm in Hn. cbn [bind] in Hn. split; [exact Hr|eauto].
    - intros (Hr & n & Hn). destruct Hin as (_ & n0 & Hn0).
      split; [exact Hr|]. exists (S (Nat.max n n0)).
      rewrite (cte_is_staged _ d c inner s rest alias Hw Hf Hb Hav (Harr _)). unfold stage.
      rewrite (exec_mono_ok call join n0 _ _ _ _ Hn0 (Nat.le_max_r n n0)). cbn [bind].
      apply (exec_mono call join n _ _ _ r Hn Hr). lia.
  Qed.

  (* the staged run may use any key k' for the materialised value (the outer FROM renamed
     accordingly): this is the shape the differential harness compares on the real code *)
  Theorem cte_is_staged_at n d c k' inner s rest alias :
    s_with s = [(c, inner)] -> s_from s = FTable (c :: rest) alias ->
    blind_select s = true -> avoids [c] inner = true ->
    (forall v, ex n (plain d) (JStmt inner) = Ok v -> exists rows, v = VArr rows) ->
    ex (S n) (plain d) (JStmt (SSelect s)) =
    let! v := ex n (plain d) (JStmt inner) in
    ex (S n) (plain (bind_doc d k' v))
       (JStmt (SSelect (set_from (clear_with s) (FTable (k' :: rest) alias)))).
  Proof.
    intros Hw Hf Hb Hav Harr.
    rewrite (cte_is_staged n d c inner s rest alias Hw Hf Hb Hav Harr). unfold stage.
    destruct (ex n (plain d) (JStmt inner)) as [v| | |] eqn:Hin; cbn [bind]; try reflexivity.
    destruct (Harr v eq_refl) as (rows & ->).
    rewrite !exec_select_unfold. cbn [set_from clear_with set_with s_with s_from]. rewrite Hf.
    change (register_ctes (plain (bind_doc d c (VArr rows))) []) with (plain (bind_doc d c (VArr rows))).
    change (register_ctes (plain (bind_doc d k' (VArr rows))) []) with (plain (bind_doc d k' (VArr rows))).
    cbn zeta.
    rewrite (from_doc_arr (ex n) (bind_doc d c (VArr rows)) c rest alias rows) by apply obj_get_set_same.
    rewrite (from_doc_arr (ex n) (bind_doc d k' (VArr rows)) k' rest alias rows) by apply obj_get_set_same.
    destruct (reader rest (VArr rows)) as [v| | |]; cbn [bind]; try reflexivity.
    destruct (as_array v) as [arr| | |]; cbn [bind]; try reflexivity.
    apply run_select_blind_exec; [exact Hb|repeat split].
  Qed.

  (* ================================================================ *)
  (* 5. CTE chains of any length                                       *)
  (* ================================================================ *)

  Lemma stage_head_inv q k : stage_head q = Some k ->
    exists s rest alias, q = SSelect s /\ s_with s = [] /\ s_from s = FTable (k :: rest) alias /\
                         blind_select s = true.
  Proof.
    destruct q as [s|]; cbn [stage_head]; [|discriminate].
    destruct (s_with s) eqn:Hw; [|discriminate].
    destruct (s_from s) as [|[|k' rest] alias| | | |] eqn:Hf; try discriminate.
    destruct (blind_select s) eqn:Hb; [|discriminate]. intros H; inversion H; subst. eauto 10.
  Qed.

  (* if the CTE body cannot be evaluated with the fuel at hand, neither can its reader *)
  Lemma stage_read_oom m d ctes busy s k rest alias body :
    cte_lookup k ctes = Some body -> mem_str k busy = false ->
    s_with s = [] -> s_from s = FTable (k :: rest) alias ->
    ex m (mkctx d ctes (k :: busy)) (JStmt body) = OutOfModel ->
    ex (S m) (mkctx d ctes busy) (JStmt (SSelect s)) = OutOfModel.
  Proof.
    intros Hl Hb Hw Hf Ho. rewrite exec_select_unfold, Hw, Hf, register_nil. cbn zeta.
    rewrite (from_cte_unfold (ex m) d ctes busy k rest alias body Hl Hb), Ho. reflexivity.
  Qed.

  (* [names] are CTEs of [ctes] whose staged values are the entries of [dcur]; every other key of
     [dcur] is as in the original document [d] *)
  Definition resolved (d : row) (ctes : list (string * stmt)) (names : list string) (dcur : row) : Prop :=
    (forall k, ~ In k names -> obj_get k dcur = obj_get k d) /\
    (forall c, In c names -> exists body rows,
        cte_lookup c ctes = Some body /\ obj_get c dcur = VArr rows /\
        forall busy, (forall x, In x names -> ~ In x busy) ->
          exists N, ex N (mkctx d ctes (c :: busy)) (JStmt body) = Ok (VArr rows)).

  (* a stage evaluates to the same outcome in the composed context and standalone on the staged
     document *)
  Lemma stage_transfer d ctes names dcur q k busy r :
    resolved d ctes names dcur -> stage_head q = Some k ->
    In k names \/ cte_lookup k ctes = None ->
    (forall x, In x names -> ~ In x busy) ->
    r <> OutOfModel ->
    ((exists n, ex n (mkctx d ctes busy) (JStmt q) = r) <-> (exists n, ex n (plain dcur) (JStmt q) = r)).
  Proof.
    intros [Hother Hres] Hq Hk Hbusy Hr.
    destruct (stage_head_inv q k Hq) as (s & rest & alias & -> & Hw & Hf & Hb).
    destruct Hk as [Hin|Hnone].
    - destruct (Hres k Hin) as (body & rows & Hl & Hkd & Hbody).
      destruct (Hbody busy Hbusy) as (N & HN).
      assert (Hnb : mem_str k busy = false) by (apply mem_str_not_In; apply Hbusy; exact Hin).
      split; intros (n & Hn); destruct (evals_pos _ _ _ _ Hn Hr) as (m & ->).
      + exists (S m).
        assert (Hm : ex m (mkctx d ctes (k :: busy)) (JStmt body) = Ok (VArr rows)).
        { rewrite <- HN. apply exec_deterministic; [|rewrite HN; discriminate].
          intros Ho. apply Hr. rewrite <- Hn.
          apply (stage_read_oom m d ctes busy s k rest alias body); assumption. }
        rewrite <- (stage_step_cte m d dcur ctes busy s s k k rest alias body rows);
          auto using same_pipeline_refl.
      + exists (S (Nat.max N m)).
        rewrite (stage_step_cte (Nat.max N m) d dcur ctes busy s s k k rest alias body rows);
          auto using same_pipeline_refl.
        * apply (exec_mono call join (S m) _ _ _ r Hn Hr). lia.
        * apply (exec_mono_ok call join N _ _ _ _ HN). lia.
    - assert (Hnin : ~ In k names).
      { intros Hin. destruct (Hres k Hin) as (body & rows & Hl & _). congruence. }
      assert (Hkd := Hother k Hnin).
      split; intros (n & Hn); destruct (evals_pos _ _ _ _ Hn Hr) as (m & ->); exists (S m).
      + rewrite <- (stage_step_doc m d dcur ctes busy s k rest alias); auto.
      + rewrite (stage_step_doc m d dcur ctes busy s k rest alias); auto.
  Qed.

  Lemma chain_resolved d ctes : forall d0 w0 d',
    staged_chain call join d0 w0 d' ->
    forall pre,
    NoDup (map fst (pre ++ w0)) ->
    chain_scoped w0 = true ->
    (forall c q, In (c, q) w0 -> cte_lookup c ctes = Some q) ->
    (forall k, ~ In k (map fst (pre ++ w0)) -> cte_lookup k ctes = None) ->
    resolved d ctes (map fst pre) d0 ->
    resolved d ctes (map fst (pre ++ w0)) d'.
  Proof.
    induction 1 as [d0|d0 c q rows w1 d' Hev _ IH]; intros pre Hnd Hsc Hlk Hnone Hres.
    - rewrite app_nil_r. exact Hres.
    - cbn [chain_scoped] in Hsc. apply Bool.andb_true_iff in Hsc. destruct Hsc as [Hq Hsc].
      destruct (stage_head q) as [k|] eqn:Hhead; [|discriminate].
      apply Bool.negb_true_iff in Hq. apply mem_str_not_In in Hq.
      assert (Happ : pre ++ (c, q) :: w1 = (pre ++ [(c, q)]) ++ w1)
        by (rewrite <- app_assoc; reflexivity).
      rewrite Happ in *. apply IH; auto.
      + intros c' q' Hin. apply Hlk. right. exact Hin.
      + (* the invariant after this stage *)
        rewrite <- Happ in Hnd. rewrite map_app in Hnd. cbn [map fst] in Hnd.
        assert (Hcpre : ~ In c (map fst pre)).
        { intros Hin. apply NoDup_remove_2 in Hnd. apply Hnd. apply in_or_app. left. exact Hin. }
        destruct Hres as [Hother Hres]. rewrite map_app. cbn [map fst]. split.
        * intros k0 Hk0. unfold bind_doc. rewrite obj_get_set_other.
          -- apply Hother. intros Hin. apply Hk0. apply in_or_app. left. exact Hin.
          -- intros ->. apply Hk0. apply in_or_app. right. left. reflexivity.
        * intros c' Hc'. apply in_app_or in Hc'. destruct Hc' as [Hc'|[<-|[]]].
          -- destruct (Hres c' Hc') as (body & rows' & Hl & Hkd & Hbody).
             exists body, rows'. split; [exact Hl|]. split.
             ++ unfold bind_doc. rewrite obj_get_set_other; [exact Hkd|]. intros ->. auto.
             ++ intros busy Hbusy. apply Hbody. intros x Hx. apply Hbusy. apply in_or_app. left. exact Hx.
          -- exists q, rows. split; [apply Hlk; left; reflexivity|]. split.
             ++ unfold bind_doc. apply obj_get_set_same.
             ++ intros busy Hbusy.
                destruct Hev as (Hrv & n0 & Hn0).
                apply (stage_transfer d ctes (map fst pre) d0 q k (c :: busy) (Ok (VArr rows)));
                  eauto; try discriminate; [split; assumption| |].
                ** destruct (in_dec string_dec k (map fst pre)) as [Hin|Hnin]; [left; exact Hin|].
                   right. apply Hnone. rewrite <- Happ, map_app. cbn [map fst].
                   intros Hin. apply in_app_or in Hin. destruct Hin as [Hin|Hin]; auto.
                ** intros x Hx [<-|Hxb]; [auto|].
                   apply (Hbusy x); [apply in_or_app; left; exact Hx|exact Hxb].
  Qed.

  Lemma composed_unfold n d s :
    ex n (plain d) (JStmt (SSelect s)) =
    ex n (mkctx d (rev (s_with s)) []) (JStmt (SSelect (clear_with s))).
  Proof.
    destruct n as [|n]; [reflexivity|]. rewrite !exec_select_unfold.
    cbn [clear_with set_with s_with s_from]. rewrite register_nil.
    unfold register_ctes, plain, mkctx. cbn [c_data c_ctes c_busy c_up]. rewrite app_nil_r. reflexivity.
  Qed.

  (* WITH c1 AS q1, ..., cn AS qn  outer : every body and the outer query are stages of the grammar,
     bodies read earlier CTEs or document tables.  The composed query evaluates to r iff the outer
     query, standalone on the document extended stage by stage, evaluates to r. *)
  Theorem cte_chain d d' s k r :
    chain_ok (s_with s) = true ->
    staged_chain call join d (s_with s) d' ->
    stage_head (SSelect (clear_with s)) = Some k ->
    r <> OutOfModel ->
    (evals (plain d) (JStmt (SSelect s)) r <->
     evals (plain d') (JStmt (SSelect (clear_with s))) r).
  Proof.
    intros Hok Hchain Hhead Hr. set (w := s_with s) in *.
    unfold chain_ok in Hok. apply Bool.andb_true_iff in Hok. destruct Hok as [Hnd Hsc].
    apply nodup_str_NoDup in Hnd.
    assert (Hndr : NoDup (map fst (rev w))) by (rewrite map_rev; apply NoDup_rev; exact Hnd).
    assert (Hres : resolved d (rev w) (map fst w) d').
    { apply (chain_resolved d (rev w) d w d' Hchain []); auto.
      - intros c q Hin. apply cte_lookup_nodup; [exact Hndr|]. apply in_rev in Hin. exact Hin.
      - intros k0 Hk0. apply cte_lookup_none. rewrite map_rev. intros Hin. apply Hk0.
        apply in_rev in Hin. exact Hin.
      - split; [reflexivity|]. intros c []. }
    assert (Hk : In k (map fst w) \/ cte_lookup k (rev w) = None).
    { destruct (in_dec string_dec k (map fst w)) as [Hin|Hnin]; [left; exact Hin|].
      right. apply cte_lookup_none. rewrite map_rev. intros Hin. apply Hnin.
      apply in_rev in Hin. exact Hin. }
    pose proof (stage_transfer d (rev w) (map fst w) d' (SSelect (clear_with s)) k [] r
                  Hres Hhead Hk (fun _ _ F => F) Hr) as Ht.
    unfold StageSpec.evals. split; intros (_ & n & Hn); (split; [exact Hr|]).
    - apply Ht. exists n. rewrite <- Hn. symmetry. apply composed_unfold.
    - destruct (proj2 Ht (ex_intro _ n Hn)) as (n' & Hn'). exists n'.
      rewrite composed_unfold. exact Hn'.
  Qed.

  (* ================================================================ *)
  (* 6. declaration order; several reads                               *)
  (* ================================================================ *)

  Lemma cte_lookup_perm l l' k :
    NoDup (map fst l) -> Permutation l l' -> cte_lookup k l = cte_lookup k l'.
  Proof.
    intros Hnd Hp. revert Hnd. unfold cte_lookup.
    induction Hp as [|x l l' Hp IH|x y l|l l' l'' Hp1 IH1 Hp2 IH2]; intros Hnd.
    - reflexivity.
    - cbn [find]. destruct (String.eqb (fst x) k); [reflexivity|].
      apply IH. cbn [map] in Hnd. inversion Hnd; assumption.
    - cbn [find]. destruct (String.eqb (fst y) k) eqn:Hy, (String.eqb (fst x) k) eqn:Hx; try reflexivity.
      apply String.eqb_eq in Hy, Hx. exfalso. cbn [map] in Hnd. inversion Hnd as [|? ? Hnin _]; subst.
      apply Hnin. left. congruence.
    - rewrite IH1 by exact Hnd. apply IH2.
      apply (Permutation_NoDup (Permutation_map fst Hp1)). exact Hnd.
  Qed.

  Lemma build_from_ctx_equiv n a b f :
    ctx_equiv a b -> build_from (ex n) join a f = build_from (ex n) join b f.
  Proof.
    intros Hab. apply le_res_antisym; apply build_from_le; auto using ctx_equiv_sym;
      intros a' b' Hab' j'; apply exec_le; auto.
  Qed.

  (* thunks are registered before any is resolved: with distinct names, the order in which the CTEs
     are declared does not matter (in particular a CTE may be declared after its reader) *)
  Theorem cte_order_irrelevant n ctx s w' :
    NoDup (map fst (s_with s)) -> Permutation (s_with s) w' ->
    ex n ctx (JStmt (SSelect s)) = ex n ctx (JStmt (SSelect (set_with s w'))).
  Proof.
    intros Hnd Hp. destruct n as [|n]; [reflexivity|]. rewrite !exec_select_unfold.
    cbn [set_with s_with s_from]. cbn zeta.
    assert (Heq : ctx_equiv (register_ctes ctx (s_with s)) (register_ctes ctx w')).
    { split; cbn [register_ctes c_data c_ctes c_busy c_up]; try reflexivity; [|apply up_equiv_refl].
      intros k. rewrite !cte_lookup_app.
      rewrite (cte_lookup_perm (rev (s_with s)) (rev w') k); [reflexivity| |].
      - rewrite map_rev. apply NoDup_rev. exact Hnd.
      - eapply perm_trans; [apply Permutation_sym, Permutation_rev|].
        eapply perm_trans; [exact Hp|apply Permutation_rev]. }
    rewrite (build_from_ctx_equiv n _ _ (s_from s) Heq).
    destruct (build_from (ex n) join (register_ctes ctx w') (s_from s)); cbn [bind]; try reflexivity.
    transitivity (run_select (ex n) call join (register_ctes ctx w') s a);
      [apply run_select_ctx; exact Heq|reflexivity].
  Qed.

  (* the chain theorem for any declaration order: it suffices that SOME ordering of the WITH list
     is a well-scoped chain (e.g. WITH c2 AS (... FROM c1), c1 AS (...)) *)
  Theorem cte_chain_any_order d d' s w' k r :
    Permutation (s_with s) w' -> chain_ok w' = true ->
    staged_chain call join d w' d' ->
    stage_head (SSelect (clear_with s)) = Some k ->
    r <> OutOfModel ->
    (evals (plain d) (JStmt (SSelect s)) r <->
     evals (plain d') (JStmt (SSelect (clear_with s))) r).
  Proof.
    intros Hp Hok Hchain Hhead Hr.
    assert (Hnd : NoDup (map fst (s_with s))).
    { unfold chain_ok in Hok. apply Bool.andb_true_iff in Hok. destruct Hok as [Hnd _].
      apply nodup_str_NoDup in Hnd.
      apply (Permutation_NoDup (Permutation_map fst (Permutation_sym Hp))). exact Hnd. }
    pose proof (cte_chain d d' (set_with s w') k r Hok Hchain Hhead Hr) as Hc.
    change (clear_with (set_with s w')) with (clear_with s) in Hc.
    rewrite <- Hc. unfold StageSpec.evals.
    split; intros (Hr' & n & Hn); (split; [exact Hr'|]); exists n.
    - rewrite <- (cte_order_irrelevant n (plain d) s w' Hnd Hp). exact Hn.
    - rewrite (cte_order_irrelevant n (plain d) s w' Hnd Hp). exact Hn.
  Qed.

  (* reading the same CTE several times: every read (whatever path follows the name) sees the value
     one would read from a document in which the CTE's result is bound as plain input *)
  Theorem cte_multi_use rec d ctes busy c body rows :
    cte_lookup c ctes = Some body -> mem_str c busy = false ->
    rec (mkctx d ctes (c :: busy)) (JStmt body) = Ok (VArr rows) ->
    forall rest alias,
      build_from rec join (mkctx d ctes busy) (FTable (c :: rest) alias) =
      build_from rec join (plain (bind_doc d c (VArr rows))) (FTable (c :: rest) alias).
  Proof.
    intros Hl Hb Hr rest alias.
    rewrite (from_cte rec d ctes busy c rest alias body rows Hl Hb Hr).
    rewrite (from_doc_arr rec (bind_doc d c (VArr rows)) c rest alias rows); [reflexivity|].
    apply obj_get_set_same.
  Qed.

  Lemma from_join_unfold rec ctx jt st l r on :
    build_from rec join ctx (FJoin jt st l r on) =
    let! lf := build_from rec join ctx l in
    let! rf := build_from rec join ctx r in
    match lf, rf with
    | Some lrows, Some rrows =>
        let! rows := join jt st lrows rrows (from_ident l) (from_ident r) on (c_data ctx) in
        Ok (Some rows)
    | _, _ => Err
    end.
  Proof. reflexivity. Qed.

  (* ... in particular a self-join of the CTE is the join of two copies of one materialised value *)
  Corollary cte_self_join rec d ctes busy c body rows jt st r1 a1 r2 a2 on :
    cte_lookup c ctes = Some body -> mem_str c busy = false ->
    rec (mkctx d ctes (c :: busy)) (JStmt body) = Ok (VArr rows) ->
    build_from rec join (mkctx d ctes busy) (FJoin jt st (FTable (c :: r1) a1) (FTable (c :: r2) a2) on) =
    let! v1 := reader r1 (VArr rows) in let! l := as_array v1 in
    let! v2 := reader r2 (VArr rows) in let! r := as_array v2 in
    let! out := join jt st (process_alias l a1) (process_alias r a2)
                     (from_ident (FTable (c :: r1) a1)) (from_ident (FTable (c :: r2) a2)) on d in
    Ok (Some out).
  Proof.
    intros Hl Hb Hr. rewrite from_join_unfold.
    rewrite (from_cte rec d ctes busy c r1 a1 body rows Hl Hb Hr).
    rewrite (from_cte rec d ctes busy c r2 a2 body rows Hl Hb Hr).
    destruct (reader r1 (VArr rows)) as [v1| | |]; cbn [bind]; try reflexivity.
    destruct (as_array v1) as [l| | |]; cbn [bind]; try reflexivity.
    destruct (reader r2 (VArr rows)) as [v2| | |]; cbn [bind]; try reflexivity.
    destruct (as_array v2) as [r| | |]; cbn [bind]; reflexivity.
  Qed.

  (* ================================================================ *)
  (* 7. derived tables                                                 *)
  (* ================================================================ *)

  (* FROM (q) alias : the SELECT runs over the rows of q's result wrapped by ProcessAlias *)
  Theorem derived_is_rows n ctx s q alias :
    s_from s = FDerived q alias ->
    ex (S n) ctx (JStmt (SSelect s)) =
    let ctx' := register_ctes ctx (s_with s) in
    let! v := ex n ctx' (JStmt q) in
    let! arr := as_array v in
    ex (S n) ctx' (JRows s (process_alias arr alias)).
  Proof.
    intros Hf. rewrite exec_select_unfold, Hf. cbn zeta. cbn [build_from].
    destruct (ex n (register_ctes ctx (s_with s)) (JStmt q)) as [v| | |]; cbn [bind]; try reflexivity.
    destruct (as_array v) as [arr| | |]; cbn [bind]; reflexivity.
  Qed.

  (* ... which is what the same SELECT returns when the inner result is plain input under any key *)
  Theorem derived_is_staged n d s q alias k :
    s_with s = [] -> s_from s = FDerived q alias -> blind_select s = true ->
    (forall v, ex n (plain d) (JStmt q) = Ok v -> exists rows, v = VArr rows) ->
    ex (S n) (plain d) (JStmt (SSelect s)) =
    let! v := ex n (plain d) (JStmt q) in
    ex (S n) (plain (bind_doc d k v)) (JStmt (SSelect (set_from s (FTable [k] alias)))).
  Proof.
    intros Hw Hf Hb Harr. rewrite (derived_is_rows n (plain d) s q alias Hf), Hw.
    change (register_ctes (plain d) []) with (plain d). cbn zeta.
    destruct (ex n (plain d) (JStmt q)) as [v| | |] eqn:Hq; cbn [bind]; try reflexivity.
    destruct (Harr v eq_refl) as (rows & ->). cbn [as_array bind].
    rewrite exec_select_unfold. cbn [set_from s_with s_from]. rewrite Hw.
    change (register_ctes (plain (bind_doc d k (VArr rows))) []) with (plain (bind_doc d k (VArr rows))).
    cbn zeta.
    rewrite (from_doc_arr (ex n) (bind_doc d k (VArr rows)) k [] alias rows)
      by apply obj_get_set_same.
    cbn [reader as_array bind]. rewrite exec_rows_unfold.
    apply run_select_blind_exec; [exact Hb|apply same_pipeline_set_from].
  Qed.

  Theorem derived_is_staged_evals d s q alias k rows r :
    s_with s = [] -> s_from s = FDerived q alias -> blind_select s = true ->
    evals (plain d) (JStmt q) (Ok (VArr rows)) ->
    (evals (plain d) (JStmt (SSelect s)) r <->
     evals (plain (bind_doc d k (VArr rows))) (JStmt (SSelect (set_from s (FTable [k] alias)))) r).
  Proof.
    intros Hw Hf Hb Hin.
    assert (Harr : forall m v, ex m (plain d) (JStmt q) = Ok v -> exists rows', v = VArr rows').
    { intros m v Hv. exists rows.
      assert (H := evals_agree _ _ _ m Hin). rewrite Hv in H.
      specialize (H ltac:(discriminate)). inversion H. reflexivity. }
    split.
    - intros (Hr & n & Hn). destruct (evals_pos _ _ _ _ Hn Hr) as (m & ->).
      rewrite (derived_is_staged m d s q alias k Hw Hf Hb (Harr m)) in Hn.
      assert (Hm : ex m (plain d) (JStmt q) = Ok (VArr rows)).
      { apply (evals_agree _ _ _ m Hin). intros Ho. rewrite Ho in Hn. cbn [bind] in Hn. auto. }
      rewrite Hm in Hn. cbn [bind] in Hn. split; [exact Hr|eauto].
    - intros (Hr & n & Hn). destruct Hin as (_ & n0 & Hn0).
      split; [exact Hr|]. exists (S (Nat.max n n0)).
      rewrite (derived_is_staged _ d s q alias k Hw Hf Hb (Harr _)).
      rewrite (exec_mono_ok call join n0 _ _ _ _ Hn0 (Nat.le_max_r n n0)). cbn [bind].
      apply (exec_mono call join n _ _ _ r Hn Hr). lia.
  Qed.

  (* ================================================================ *)
  (* 8. row-scoped subqueries, IN, EXISTS                              *)
  (* ================================================================ *)

  (* a select-list subquery contributes what the subquery returns when run standalone on the scope
     copy of the current row (the row's columns, plus `<-` bound to the enclosing document) *)
  (* in general the subquery also sees, behind `<-`, the thunks of the enclosing queries *)
  Theorem subquery_scoped n ctx s filtered cur q :
    eval (mk_env (ex n) call join ctx s filtered) cur (ESub q) =
    let! v := ex n (sub_ctx ctx (scope cur (VObj (c_data ctx)))) (JStmt q) in Ok (RVal v).
  Proof. reflexivity. Qed.

  (* [no_thunks ctx] (new hypothesis): the enclosing query registered no CTE and neither did the
     queries around it; otherwise the subquery is NOT a standalone run on the row — `<-`.c reads the
     CTE c (see section 8b) *)
  Theorem subquery_standalone n ctx s filtered cur q :
    no_thunks ctx ->
    eval (mk_env (ex n) call join ctx s filtered) cur (ESub q) =
    let! v := ex n (plain (scope cur (VObj (c_data ctx)))) (JStmt q) in Ok (RVal v).
  Proof.
    intros H. rewrite subquery_scoped, (exec_sub_plain call join n ctx _ _ H). reflexivity.
  Qed.

  Theorem subquery_standalone_evals ctx s filtered cur q r :
    no_thunks ctx ->
    evals (plain (scope cur (VObj (c_data ctx)))) (JStmt q) r ->
    exists N, forall n, N <= n ->
      eval (mk_env (ex n) call join ctx s filtered) cur (ESub q) = (let! v := r in Ok (RVal v)).
  Proof.
    intros Hno H. destruct (evals_from _ _ _ H) as (N & HN). exists N. intros n Hn.
    rewrite (subquery_standalone n ctx s filtered cur q Hno), (HN n Hn). reflexivity.
  Qed.

  (* what the subquery's data is: the current row's columns ... *)
  Lemma scope_column cur data k : k <> "<-"%string -> obj_get k (scope cur data) = obj_get k cur.
  Proof. intros H. apply obj_get_set_other. exact H. Qed.
  (* ... and, after `<-`, the enclosing document *)
  Lemma scope_back cur data : obj_get "<-" (scope cur data) = data.
  Proof. apply obj_get_set_same. Qed.

  (* FROM `<-`.t... inside a row-scoped subquery reads table t of the enclosing document *)
  Theorem subquery_root_from rec cur d k rest alias :
    build_from rec join (plain (scope cur (VObj d))) (FTable ("<-"%string :: k :: rest) alias) =
    build_from rec join (plain d) (FTable (k :: rest) alias).
  Proof.
    cbn [build_from plain c_ctes c_data cte_lookup find].
    rewrite !(up_read_top (plain _)) by reflexivity. cbn [plain c_data].
    change (reader ("<-"%string :: k :: rest) (VObj (scope cur (VObj d))))
      with (reader (k :: rest) (obj_get "<-" (scope cur (VObj d)))).
    rewrite scope_back. reflexivity.
  Qed.

  (* FROM nested... inside a row-scoped subquery reads the current row's column *)
  Theorem subquery_row_from rec cur data k rest alias :
    k <> "<-"%string ->
    build_from rec join (plain (scope cur data)) (FTable (k :: rest) alias) =
    build_from rec join (plain cur) (FTable (k :: rest) alias).
  Proof.
    intros Hk. cbn [build_from plain c_ctes c_data cte_lookup find].
    rewrite !(up_read_top (plain _)) by reflexivity. cbn [plain c_data reader].
    rewrite (scope_column cur data k Hk). reflexivity.
  Qed.

  (* ---------- IN (subquery) ---------- *)

  (* wherever the specification answers (a scalar, or a single-column row) the model agrees; on a row of several
     columns the model follows the code (first column in key order) and the specification stays silent *)
  Lemma in_candidate_rval r v : sub_column r = Ok v -> in_candidate (RVal r) = Ok v.
  Proof. destruct r as [| | | | |[|[k w] [|]]]; cbn; intro H; try exact H; discriminate. Qed.

  Lemma in_list_member lv : forall rs cols,
    mapM sub_column rs = Ok cols ->
    (forall c, In c cols -> exists z, vcompare lv c = Ok z) ->
    in_list lv (map RVal rs) = Ok (member_sem lv cols).
  Proof.
    induction rs as [|a rs IH]; intros cols Hm Hc; cbn [mapM] in Hm.
    - inversion Hm. reflexivity.
    - apply bind_ok7 in Hm. destruct Hm as (c0 & Hc0 & Hm).
      apply bind_ok7 in Hm. destruct Hm as (cs & Hcs & Hm). inversion Hm; subst cols.
      cbn [map in_list]. rewrite (in_candidate_rval _ _ Hc0). cbn [bind].
      destruct (Hc c0 (or_introl eq_refl)) as (z & Hz). rewrite Hz. cbn [bind].
      unfold member_sem. cbn [existsb]. rewrite Hz.
      destruct z; cbn [Z.eqb orb]; try reflexivity;
        apply IH; auto; intros c Hin; apply Hc; right; exact Hin.
  Qed.

  (* x [NOT] IN (subquery): membership of x among the single columns of what the subquery returns
     when run standalone on the scope copy of the current row *)
  Theorem in_subquery n ctx s filtered cur neg a q l lv rs cols :
    no_thunks ctx ->
    eval (mk_env (ex n) call join ctx s filtered) (scope cur (VObj (c_data ctx))) a = Ok l ->
    value_of (scope cur (VObj (c_data ctx))) l = Ok lv ->
    ex n (plain (scope cur (VObj (c_data ctx)))) (JStmt q) = Ok (VArr rs) ->
    mapM sub_column rs = Ok cols ->
    (forall c, In c cols -> exists z, vcompare lv c = Ok z) ->
    eval (mk_env (ex n) call join ctx s filtered) cur (EInSub neg a q) =
    Ok (RVal (VBool (xorb neg (member_sem lv cols)))).
  Proof.
    intros Hno Ha Hv Hq Hcols Hcmp. cbn [eval].
    change (e_data (mk_env (ex n) call join ctx s filtered)) with (VObj (c_data ctx)).
    rewrite Ha. cbn [bind]. rewrite Hv. cbn [bind].
    change (e_sub (mk_env (ex n) call join ctx s filtered) q (scope cur (VObj (c_data ctx))))
      with (ex n (sub_ctx ctx (scope cur (VObj (c_data ctx)))) (JStmt q)).
    rewrite (exec_sub_plain call join n ctx _ _ Hno), Hq. cbn [bind]. rewrite (in_list_member lv rs cols Hcols Hcmp). reflexivity.
  Qed.

  (* ---------- EXISTS ---------- *)

  Fixpoint keep_by (bs : list bool) (ms : list row) : list row :=
    match bs, ms with
    | b :: bs', m :: ms' => if b then m :: keep_by bs' ms' else keep_by bs' ms'
    | _, _ => []
    end.

  Lemma filter_rows_objs rec ctx s E ms :
    filter_rows rec ctx s E (map VObj ms) =
    let! bs := mapM (fun kv => eval_cond E kv (s_where s)) ms in Ok (map VObj (keep_by bs ms)).
  Proof.
    induction ms as [|m ms IH]; [reflexivity|]. cbn [map mapM]. rewrite filter_rows_obj7, IH.
    destruct (eval_cond E m (s_where s)) as [b| | |]; cbn [bind]; try reflexivity.
    destruct (mapM (fun kv => eval_cond E kv (s_where s)) ms) as [bs| | |]; cbn [bind]; try reflexivity.
    destruct b; reflexivity.
  Qed.

  Lemma mapM_length {X Y} (f : X -> res Y) l l' : mapM f l = Ok l' -> List.length l' = List.length l.
  Proof.
    revert l'. induction l as [|a l IH]; intros l' H; cbn [mapM] in H.
    - inversion H. reflexivity.
    - apply bind_ok7 in H. destruct H as (b & _ & H). apply bind_ok7 in H. destruct H as (bs & Hbs & H).
      inversion H. cbn [List.length]. rewrite (IH bs Hbs). reflexivity.
  Qed.

  Lemma existsb_keep : forall bs ms, List.length bs = List.length ms ->
    existsb (fun b => b) bs = negb (Nat.eqb (List.length (keep_by bs ms)) 0).
  Proof.
    induction bs as [|b bs IH]; intros ms Hl; [reflexivity|].
    destruct ms as [|m ms]; [discriminate|]. cbn [List.length] in Hl.
    cbn [existsb keep_by]. destruct b; [reflexivity|]. apply IH. lia.
  Qed.

  Lemma window_none7 rs : window rs (List.length rs) None None = Ok rs.
  Proof.
    unfold window. destruct (Z.of_nat (List.length rs) <=? 0)%Z eqn:H0.
    - destruct rs; [reflexivity | cbn [List.length] in H0; lia].
    - rewrite Z.sub_0_r, Z.ltb_irrefl. unfold go_slice.
      replace ((0 <=? 0)%Z && (0 <=? 0 + Z.of_nat (List.length rs))%Z &&
               (0 + Z.of_nat (List.length rs) <=? Z.of_nat (List.length rs))%Z) with true by lia.
      rewrite Nat.sub_diag. cbn [repeat]. rewrite app_nil_r. cbn [Z.to_nat skipn].
      replace (Z.to_nat (0 + Z.of_nat (List.length rs) - 0)) with (List.length rs) by lia.
      now rewrite firstn_all.
  Qed.

  (* the prepared subquery of EXISTS over object rows: WHERE row by row, then the select list *)
  Lemma exists_run n ctx s ms :
    exists_shape s ->
    ex (S n) ctx (JRows s (map VObj ms)) =
    catch_panic
      (let! bs := mapM (fun kv => eval_cond (mk_env (ex n) call join ctx s []) kv (s_where s)) ms in
       let kept := map VObj (keep_by bs ms) in
       let! sel := exec_select (mk_env (ex n) call join ctx s kept) s kept in
       Ok (VArr sel)).
  Proof.
    intros (Hg & Hd & Ho & Hl & Hof & _). rewrite exec_rows_unfold. unfold run_select. f_equal.
    rewrite filter_rows_objs.
    match goal with |- context [mapM ?f ms] => destruct (mapM f ms) as [bs| | |] end; cbn [bind]; try reflexivity. cbn zeta.
    unfold exec_group_by. rewrite Hg. cbn [bind].
    destruct (exec_select _ s (map VObj (keep_by bs ms))) as [sel| | |]; cbn [bind]; try reflexivity.
    rewrite Hd, Ho, Hl, Hof. cbn [exec_distinct exec_order_by bind]. rewrite window_none7. reflexivity.
  Qed.

  Lemma exec_select_length E s rows sel :
    s_group s = [] -> all_aggregate (s_items s) = false ->
    exec_select E s rows = Ok sel -> List.length sel = List.length rows.
  Proof.
    intros Hg Ha. unfold exec_select. rewrite Hg, Ha. cbn [andb]. apply mapM_length.
  Qed.

  Lemma mapM_cons7 {X Y} (f : X -> res Y) a r :
    mapM f (a :: r) = let! b := f a in let! bs := mapM f r in Ok (b :: bs).
  Proof. reflexivity. Qed.

  Lemma exec_select_star E s ms :
    s_group s = [] -> s_items s = [IStar] ->
    exec_select E s (map VObj ms) = Ok (map (fun kv => VObj (obj_merge [] kv)) ms).
  Proof.
    intros Hg Hi. unfold exec_select. rewrite Hg, Hi. cbn [all_aggregate forallb is_agg_item andb].
    induction ms as [|m ms IH]; [reflexivity|]. cbn [map]. rewrite mapM_cons7, IH. reflexivity.
  Qed.

  Lemma merge_mapM cur elems :
    mapM (fun item => match item with VObj kv => Ok (VObj (obj_merge kv cur)) | _ => Err end) elems =
    let! ms := mapM (fun e => match e with VObj kv => Ok (obj_merge kv cur) | _ => Err end) elems in
    Ok (map VObj ms).
  Proof.
    induction elems as [|e elems IH]; [reflexivity|]. cbn [mapM]. rewrite IH.
    destruct e; cbn [bind]; try reflexivity.
    match goal with |- context [mapM ?f elems] => destruct (mapM f elems) end; cbn [bind]; reflexivity.
  Qed.

  (* what e_exists computes, before the select list is looked at *)
  Lemma exists_unfold n ctx s filtered cur s' k rest elems :
    no_thunks ctx ->
    s_from s' = FTable (k :: rest) "" ->
    reader (k :: rest) (VObj cur) = Ok (VArr elems) ->
    e_exists (mk_env (ex (S n)) call join ctx s filtered) (SSelect s') cur =
    let! ms := mapM (fun e => match e with VObj kv => Ok (obj_merge kv cur) | _ => Err end) elems in
    let! out := ex (S n) (plain cur) (JRows s' (map VObj ms)) in
    match out with VArr l => Ok (negb (Nat.eqb (List.length l) 0)) | _ => Err end.
  Proof.
    intros Hno Hf Hread. cbn [mk_env e_exists]. rewrite Hf.
    rewrite (build_from_sub_plain call join (S n) ctx cur _ Hno).
    cbn [build_from plain c_ctes c_data cte_lookup find].
    rewrite (up_read_top (plain cur)) by reflexivity. cbn [plain c_data].
    rewrite Hread. cbn [bind as_array].
    unfold process_alias. cbn [String.eqb]. rewrite merge_mapM.
    match goal with |- context [mapM ?f elems] => destruct (mapM f elems) as [ms| | |] end;
      cbn [bind]; try reflexivity.
    rewrite (exec_sub_plain call join (S n) ctx cur _ Hno). reflexivity.
  Qed.

  (* EXISTS (SELECT * FROM nested WHERE p) on the (scoped) outer row [cur]: element-wise reading *)
  Theorem exists_star n ctx s filtered cur s' k rest elems :
    no_thunks ctx ->
    exists_shape s' -> s_items s' = [IStar] -> s_from s' = FTable (k :: rest) "" ->
    reader (k :: rest) (VObj cur) = Ok (VArr elems) ->
    e_exists (mk_env (ex (S n)) call join ctx s filtered) (SSelect s') cur =
    exists_sem (fun r => eval_cond (mk_env (ex n) call join (plain cur) s' []) r (s_where s')) cur elems.
  Proof.
    intros Hno Hshape Hitems Hf Hread.
    rewrite (exists_unfold n ctx s filtered cur s' k rest elems Hno Hf Hread). unfold exists_sem.
    match goal with |- context [mapM ?f elems] => destruct (mapM f elems) as [ms| | |] end; cbn [bind]; try reflexivity.
    rewrite (exists_run n (plain cur) s' ms Hshape).
    match goal with |- context [mapM ?f ms] => destruct (mapM f ms) as [bs| | |] eqn:Hbs end; cbn [bind catch_panic]; try reflexivity.
    cbn zeta. destruct Hshape as (Hg & _).
    rewrite (exec_select_star _ s' (keep_by bs ms) Hg Hitems). cbn [bind catch_panic].
    rewrite map_length. rewrite (existsb_keep bs ms (mapM_length _ _ _ Hbs)). reflexivity.
  Qed.

  (* any select list that is not aggregate-only: whenever EXISTS has a value, it is the
     element-wise one (the select list can only add failures, e.g. a projection error) *)
  Theorem exists_sound n ctx s filtered cur s' k rest elems b :
    no_thunks ctx ->
    exists_shape s' -> s_from s' = FTable (k :: rest) "" ->
    reader (k :: rest) (VObj cur) = Ok (VArr elems) ->
    e_exists (mk_env (ex (S n)) call join ctx s filtered) (SSelect s') cur = Ok b ->
    exists_sem (fun r => eval_cond (mk_env (ex n) call join (plain cur) s' []) r (s_where s')) cur elems
      = Ok b.
  Proof.
    intros Hno Hshape Hf Hread.
    rewrite (exists_unfold n ctx s filtered cur s' k rest elems Hno Hf Hread). unfold exists_sem.
    match goal with |- context [mapM ?f elems] => destruct (mapM f elems) as [ms| | |] end; cbn [bind]; try discriminate.
    rewrite (exists_run n (plain cur) s' ms Hshape).
    match goal with |- context [mapM ?f ms] => destruct (mapM f ms) as [bs| | |] eqn:Hbs end; cbn [bind catch_panic]; try discriminate.
    cbn zeta. destruct Hshape as (Hg & _ & _ & _ & _ & Ha).
    destruct (exec_select _ s' (map VObj (keep_by bs ms))) as [sel| | |] eqn:Hsel;
      cbn [bind catch_panic]; try discriminate.
    apply exec_select_length in Hsel; auto. rewrite Hsel, map_length.
    rewrite (existsb_keep bs ms (mapM_length _ _ _ Hbs)). auto.
  Qed.

  (* the expression itself: the outer row handed to the subquery is the scope copy of the current
     row, so p can also navigate back with `<-` *)
  Theorem exists_expr n ctx s filtered current q :
    eval (mk_env (ex n) call join ctx s filtered) current (EExists q) =
    let! b := e_exists (mk_env (ex n) call join ctx s filtered) q (scope current (VObj (c_data ctx))) in
    Ok (RVal (VBool b)).
  Proof. reflexivity. Qed.

  (* ================================================================ *)
  (* 9. recursive CTEs are an error, not a divergence                  *)
  (* ================================================================ *)

  Lemma reads_cycle_err d ctes : forall busy k depth,
    reads_cycle ctes busy k depth ->
    forall n rest alias, depth <= n ->
      build_from (ex n) join (mkctx d ctes busy) (FTable (k :: rest) alias) = Err.
  Proof.
    induction 1 as [busy k body Hl Hb|busy k s k' rest' alias' depth Hl Hb Hw Hf _ IH];
      intros n rest alias Hn.
    - cbn [build_from mkctx c_ctes c_busy]. rewrite Hl. unfold mem_str in Hb. rewrite Hb. reflexivity.
    - rewrite (from_cte_unfold (ex n) d ctes busy k rest alias (SSelect s) Hl Hb).
      destruct n as [|n]; [lia|].
      rewrite exec_select_unfold, Hw, Hf, register_nil. cbn zeta.
      rewrite (IH n rest' alias' ltac:(lia)). reflexivity.
  Qed.

  (* a query whose table is a CTE that (directly or through other CTEs) reads itself: every run with
     at least depth+1 units of fuel returns an error *)
  Theorem recursive_cte_is_error d s k rest alias depth :
    s_from s = FTable (k :: rest) alias ->
    reads_cycle (rev (s_with s)) [] k depth ->
    forall n, S depth <= n -> ex n (plain d) (JStmt (SSelect s)) = Err.
  Proof.
    intros Hf Hc n Hn. destruct n as [|n]; [lia|].
    rewrite composed_unfold, exec_select_unfold. cbn [clear_with set_with s_with s_from].
    rewrite register_nil, Hf. cbn zeta.
    rewrite (reads_cycle_err d (rev (s_with s)) [] k depth Hc n rest alias ltac:(lia)). reflexivity.
  Qed.

  (* WITH c AS (SELECT ... FROM c...) SELECT ... FROM c *)
  Corollary self_recursive_cte_is_error d s c si rest alias rest' alias' n :
    s_with s = [(c, SSelect si)] -> s_from s = FTable (c :: rest) alias ->
    s_with si = [] -> s_from si = FTable (c :: rest') alias' ->
    ex (S (S n)) (plain d) (JStmt (SSelect s)) = Err.
  Proof.
    intros Hw Hf Hwi Hfi. apply (recursive_cte_is_error d s c rest alias 1 Hf); [|lia].
    rewrite Hw. cbn [rev app].
    apply (rc_step _ [] c si c rest' alias' 0); auto using cte_lookup_single.
    apply (rc_here _ [c] c (SSelect si)); [apply cte_lookup_single|].
    unfold mem_str. cbn [existsb]. rewrite String.eqb_refl. reflexivity.
  Qed.

  (* WITH a AS (SELECT ... FROM b), b AS (SELECT ... FROM a) SELECT ... FROM a *)
  Corollary mutually_recursive_ctes_are_error d s a b sa sb rest alias ra aa rb ab n :
    a <> b ->
    s_with s = [(a, SSelect sa); (b, SSelect sb)] -> s_from s = FTable (a :: rest) alias ->
    s_with sa = [] -> s_from sa = FTable (b :: ra) aa ->
    s_with sb = [] -> s_from sb = FTable (a :: rb) ab ->
    ex (S (S (S n))) (plain d) (JStmt (SSelect s)) = Err.
  Proof.
    intros Hab Hw Hf Hwa Hfa Hwb Hfb. apply (recursive_cte_is_error d s a rest alias 2 Hf); [|lia].
    rewrite Hw. cbn [rev app].
    assert (Hla : cte_lookup a [(b, SSelect sb); (a, SSelect sa)] = Some (SSelect sa)).
    { unfold cte_lookup. cbn [find fst]. apply String.eqb_neq in Hab.
      rewrite String.eqb_sym, Hab, String.eqb_refl. reflexivity. }
    assert (Hlb : cte_lookup b [(b, SSelect sb); (a, SSelect sa)] = Some (SSelect sb)).
    { unfold cte_lookup. cbn [find fst]. rewrite String.eqb_refl. reflexivity. }
    apply (rc_step _ [] a sa b ra aa 1); auto.
    apply (rc_step _ [a] b sb a rb ab 0); auto.
    - unfold mem_str. cbn [existsb]. apply String.eqb_neq in Hab.
      rewrite String.eqb_sym, Hab. reflexivity.
    - apply (rc_here _ [b; a] a (SSelect sa)); [exact Hla|].
      unfold mem_str. cbn [existsb]. rewrite String.eqb_refl. apply Bool.orb_true_r.
  Qed.

  (* ================================================================ *)
  (* 9b. fuel that is enough (partial: no CTE / derived table / subquery) *)
  (* ================================================================ *)

  (* standalone, a table is read without consulting the interpreter *)
  Lemma from_plain_table rec rec' d p alias :
    build_from rec join (plain d) (FTable p alias) = build_from rec' join (plain d) (FTable p alias).
  Proof.
    destruct p as [|k rest]; [reflexivity|]. cbn [build_from plain c_ctes cte_lookup find].
    rewrite (up_read_top (plain d)) by reflexivity. reflexivity.
  Qed.

  (* a stage over a document table: the source rows need no fuel; two units above their nesting
     depth are enough, more fuel changes nothing *)
  Theorem stage_fuel_enough d s k rest alias rows :
    s_with s = [] -> s_from s = FTable (k :: rest) alias -> blind_select s = true ->
    build_from (fun _ _ => OutOfModel) join (plain d) (FTable (k :: rest) alias) = Ok (Some rows) ->
    forall n, S (S (rdepth rows)) <= n ->
      ex n (plain d) (JStmt (SSelect s)) = ex (S (S (rdepth rows))) (plain d) (JStmt (SSelect s)).
  Proof.
    intros Hw Hf Hb Hsrc n Hn. destruct n as [|n]; [lia|].
    rewrite !exec_select_unfold, Hw, Hf.
    change (register_ctes (plain d) []) with (plain d). cbn zeta.
    rewrite (from_plain_table (ex n) (fun _ _ => OutOfModel) d (k :: rest) alias).
    rewrite (from_plain_table (ex (S (rdepth rows))) (fun _ _ => OutOfModel) d (k :: rest) alias).
    rewrite Hsrc. cbn [bind].
    apply run_select_fuel_enough; [exact Hb|apply same_pipeline_refl|lia|lia].
  Qed.
End Main.

(* ================================================================== *)
(* 10. reading EXISTS element-wise; name clashes                       *)
(* ================================================================== *)

Lemma mapM_ok_Forall2_7 {X Y} (f : X -> res Y) l : forall l',
  mapM f l = Ok l' -> Forall2 (fun x y => f x = Ok y) l l'.
Proof.
  induction l as [|a l IH]; intros l' H; cbn [mapM] in H.
  - inversion H. constructor.
  - apply bind_ok7 in H. destruct H as (b & Hb & H). apply bind_ok7 in H. destruct H as (bs & Hbs & H).
    inversion H; subst. constructor; auto.
Qed.

Lemma Forall2_In_r {X Y} (R : X -> Y -> Prop) l l' y :
  Forall2 R l l' -> In y l' -> exists x, In x l /\ R x y.
Proof.
  induction 1 as [|a b l l' Hab _ IH]; intros Hin; [contradiction|].
  destruct Hin as [<-|Hin]; [exists a; split; [left; reflexivity|exact Hab]|].
  destruct (IH Hin) as (x & Hx & Hr). exists x. split; [right; exact Hx|exact Hr].
Qed.

Lemma Forall2_In_l {X Y} (R : X -> Y -> Prop) l l' x :
  Forall2 R l l' -> In x l -> exists y, In y l' /\ R x y.
Proof.
  induction 1 as [|a b l l' Hab _ IH]; intros Hin; [contradiction|].
  destruct Hin as [<-|Hin]; [exists b; split; [left; reflexivity|exact Hab]|].
  destruct (IH Hin) as (y & Hy & Hr). exists y. split; [right; exact Hy|exact Hr].
Qed.

(* whenever EXISTS has a value: it is true iff some element of the nested array satisfies p on the
   element's columns merged with the outer row *)
Theorem exists_sem_true_iff pred outer elems b :
  exists_sem pred outer elems = Ok b ->
  (b = true <-> exists kv, In (VObj kv) elems /\ pred (obj_merge kv outer) = Ok true).
Proof.
  unfold exists_sem. intros H. apply bind_ok7 in H. destruct H as (ms & Hms & H).
  destruct (mapM pred ms) as [bs| | |] eqn:Hbs; cbn [bind catch_panic] in H; try discriminate.
  inversion H; subst b. apply mapM_ok_Forall2_7 in Hms. apply mapM_ok_Forall2_7 in Hbs.
  rewrite existsb_exists. split.
  - intros (x & Hx & ->).
    destruct (Forall2_In_r _ _ _ _ Hbs Hx) as (m & Hm & Hpm).
    destruct (Forall2_In_r _ _ _ _ Hms Hm) as (e & He & Hem).
    destruct e; try discriminate. inversion Hem; subst m. eauto.
  - intros (kv & Hin & Hp).
    destruct (Forall2_In_l _ _ _ _ Hms Hin) as (m & Hm & Hem). inversion Hem; subst m.
    destruct (Forall2_In_l _ _ _ _ Hbs Hm) as (b & Hb & Hpb). rewrite Hp in Hpb. inversion Hpb; subst b.
    exists true. split; [exact Hb|reflexivity].
Qed.

(* which value p sees under a column name: the outer row's (its last binding, as maps.Copy goes
   through the outer row after the element), else the element's *)
Theorem obj_merge_lookup k outer : forall kv,
  lookup k (obj_merge kv outer) =
  match lookup k (rev outer) with Some v => Some v | None => lookup k kv end.
Proof.
  unfold obj_merge. induction outer as [|[kx vx] outer IH] using rev_ind; intros kv; [reflexivity|].
  rewrite fold_left_app, rev_app_distr. cbn [fold_left rev app lookup fst snd].
  destruct (String.eqb k kx) eqn:He.
  - apply String.eqb_eq in He. subst kx. apply lookup_obj_set_same.
  - apply String.eqb_neq in He. rewrite lookup_obj_set_other by exact He. apply IH.
Qed.

Corollary exists_clash_outer_wins k v outer kv :
  lookup k (rev outer) = Some v -> lookup k (obj_merge kv outer) = Some v.
Proof. intros H. rewrite obj_merge_lookup, H. reflexivity. Qed.

Corollary exists_element_column k outer kv :
  lookup k (rev outer) = None -> lookup k (obj_merge kv outer) = lookup k kv.
Proof. intros H. rewrite obj_merge_lookup, H. reflexivity. Qed.

