(* Proofs/C12Clean.v — data-level facts for property C12: the structural characterisation of
   [clean], its boolean mirror, the object primitives, the path reader, and the invariant [nav_ok]
   of scope copies (a row whose only `<-` keys sit on the chain of enclosing scopes). *)
From GenqlV Require Import Base.Prelude Base.Value Model.Ast Model.Eval Spec.PlainSpec.
Local Open Scope list_scope.

(* ------------------------------------------------------------------ *)
(* clean, structurally                                                  *)
(* ------------------------------------------------------------------ *)

Definition entry_clean (kv : string * value) : Prop := fst kv <> nav /\ clean (snd kv).

Lemma inside_inv : forall w v, inside w v -> w = v \/ exists u, inside w u /\ child u v.
Proof. intros w v H. inversion H; subst; [left; reflexivity|right; eauto]. Qed.
Lemma child_arr_inv : forall u l, child u (VArr l) -> In u l.
Proof. intros u l H. inversion H; subst; assumption. Qed.
Lemma child_obj_inv : forall u kvs, child u (VObj kvs) -> exists k, In (k, u) kvs.
Proof. intros u kvs H. inversion H; subst; eauto. Qed.

Lemma clean_null : clean VNull.
Proof. intros kvs H. apply inside_inv in H. destruct H as [H|[u [_ H]]]; [discriminate|inversion H]. Qed.
Lemma clean_bool b : clean (VBool b).
Proof. intros kvs H. apply inside_inv in H. destruct H as [H|[u [_ H]]]; [discriminate|inversion H]. Qed.
Lemma clean_num f : clean (VNum f).
Proof. intros kvs H. apply inside_inv in H. destruct H as [H|[u [_ H]]]; [discriminate|inversion H]. Qed.
Lemma clean_str s : clean (VStr s).
Proof. intros kvs H. apply inside_inv in H. destruct H as [H|[u [_ H]]]; [discriminate|inversion H]. Qed.

Lemma clean_child : forall u v, clean v -> child u v -> clean u.
Proof. intros u v Hv Hc kvs Hi. apply Hv. eapply inside_step; eauto. Qed.

Lemma clean_arr_iff : forall l, clean (VArr l) <-> Forall clean l.
Proof.
  intros l. split.
  - intros H. apply Forall_forall. intros x Hx. eapply clean_child; [exact H|constructor; exact Hx].
  - intros H kvs Hi. apply inside_inv in Hi. destruct Hi as [Heq|[u [Hi Hc]]]; [discriminate|].
    apply child_arr_inv in Hc. rewrite Forall_forall in H. exact (H _ Hc _ Hi).
Qed.

Lemma clean_obj_iff : forall kvs, clean (VObj kvs) <-> Forall entry_clean kvs.
Proof.
  intros kvs. split.
  - intros H. apply Forall_forall. intros [k x] Hx. split; cbn.
    + intros ->. apply (H kvs (inside_refl _)). unfold keys. apply in_map_iff. exists (nav, x). auto.
    + eapply clean_child; [exact H|econstructor; exact Hx].
  - intros H kvs' Hi. apply inside_inv in Hi. destruct Hi as [Heq|[u [Hi Hc]]].
    + inversion Heq; subst kvs'.
      intros Hin. unfold keys in Hin. apply in_map_iff in Hin. destruct Hin as [[k x] [Hk Hin]].
      rewrite Forall_forall in H. destruct (H _ Hin) as [Hn _]. cbn in *. congruence.
    + apply child_obj_inv in Hc. destruct Hc as [k Hin]. rewrite Forall_forall in H.
      destruct (H _ Hin) as [_ Hc]. exact (Hc _ Hi).
Qed.

Lemma clean_arr : forall l, Forall clean l -> clean (VArr l).
Proof. intros l. apply clean_arr_iff. Qed.
Lemma clean_arr_inv : forall l, clean (VArr l) -> Forall clean l.
Proof. intros l. apply clean_arr_iff. Qed.
Lemma clean_obj : forall kvs, Forall entry_clean kvs -> clean (VObj kvs).
Proof. intros l. apply clean_obj_iff. Qed.
Lemma clean_obj_inv : forall kvs, clean (VObj kvs) -> Forall entry_clean kvs.
Proof. intros l. apply clean_obj_iff. Qed.

Lemma clean_obj_nil : clean (VObj []).
Proof. apply clean_obj. constructor. Qed.

(* the boolean function decides the predicate *)
Lemma name_ok_iff : forall k, name_ok k = true <-> k <> nav.
Proof.
  intros k. unfold name_ok. destruct (String.eqb k nav) eqn:E; cbn.
  - apply String.eqb_eq in E. split; [discriminate|congruence].
  - apply String.eqb_neq in E. tauto.
Qed.

Lemma cleanb_spec : forall v, cleanb v = true <-> clean v.
Proof.
  induction v using value_ind'; cbn [cleanb];
    try (split; intros _; [first [apply clean_null|apply clean_bool|apply clean_num|apply clean_str]|reflexivity]).
  - rewrite clean_arr_iff. induction H as [|x r Hx Hr IH]; [split; auto|].
    rewrite Bool.andb_true_iff, Hx, IH. split; [intros [? ?]; constructor; auto|intros Hf; inversion Hf; auto].
  - rewrite clean_obj_iff. induction H as [|[k x] r Hx Hr IH]; [split; auto|].
    rewrite !Bool.andb_true_iff, IH. cbn in Hx. rewrite Hx. fold (name_ok k). rewrite name_ok_iff.
    split.
    + intros [[? ?] ?]. constructor; [split; auto|auto].
    + intros Hf. inversion Hf as [|? ? [? ?] ?]; subst. auto.
Qed.

(* ------------------------------------------------------------------ *)
(* objects                                                              *)
(* ------------------------------------------------------------------ *)

Lemma obj_set_in : forall k v m kv, In kv (obj_set k v m) -> kv = (k, v) \/ In kv m.
Proof.
  induction m as [|[k' v'] r IH]; intros kv H; cbn in H.
  - destruct H as [H|[]]; auto.
  - destruct (String.compare k k'); cbn in H.
    + destruct H as [H|H]; [auto|right; right; exact H].
    + destruct H as [H|H]; [auto|right; exact H].
    + destruct H as [H|H]; [right; left; exact H|]. destruct (IH _ H); [auto|right; right; auto].
Qed.

Lemma obj_merge_in : forall src dst kv, In kv (obj_merge dst src) -> In kv dst \/ In kv src.
Proof.
  unfold obj_merge. induction src as [|[k v] r IH]; intros dst kv H; cbn in H; [auto|].
  destruct (IH _ _ H) as [H1|H1]; [|right; right; exact H1].
  destruct (obj_set_in _ _ _ _ H1) as [->|H2]; [right; left; reflexivity|left; exact H2].
Qed.

Lemma Forall_obj_set : forall (P : string * value -> Prop) k v m,
  P (k, v) -> Forall P m -> Forall P (obj_set k v m).
Proof.
  intros P k v m Hkv Hm. apply Forall_forall. intros kv Hin.
  destruct (obj_set_in _ _ _ _ Hin) as [->|H]; [exact Hkv|]. rewrite Forall_forall in Hm. auto.
Qed.

Lemma Forall_obj_merge : forall (P : string * value -> Prop) dst src,
  Forall P dst -> Forall P src -> Forall P (obj_merge dst src).
Proof.
  intros P dst src Hd Hs. apply Forall_forall. intros kv Hin. rewrite Forall_forall in Hd, Hs.
  destruct (obj_merge_in _ _ _ Hin); auto.
Qed.

Lemma clean_obj_set : forall k v m,
  k <> nav -> clean v -> clean (VObj m) -> clean (VObj (obj_set k v m)).
Proof.
  intros k v m Hk Hv Hm. apply clean_obj. apply Forall_obj_set; [split; auto|apply clean_obj_inv, Hm].
Qed.

Lemma clean_obj_merge : forall dst src,
  clean (VObj dst) -> clean (VObj src) -> clean (VObj (obj_merge dst src)).
Proof.
  intros dst src Hd Hs. apply clean_obj. apply Forall_obj_merge; apply clean_obj_inv; assumption.
Qed.

Lemma lookup_in : forall k m v, lookup k m = Some v -> In (k, v) m.
Proof.
  induction m as [|[k' v'] r IH]; intros v H; cbn in H; [discriminate|].
  destruct (String.eqb k k') eqn:E.
  - apply String.eqb_eq in E. inversion H; subst. left; reflexivity.
  - right. auto.
Qed.

Lemma clean_obj_get : forall k m, clean (VObj m) -> clean (obj_get k m).
Proof.
  intros k m H. unfold obj_get. destruct (lookup k m) eqn:E; [|apply clean_null].
  apply lookup_in in E. apply clean_obj_inv in H. rewrite Forall_forall in H. apply (H _ E).
Qed.

(* ------------------------------------------------------------------ *)
(* the path reader returns sub-values (arrays are rebuilt element-wise) *)
(* ------------------------------------------------------------------ *)

Lemma reader_cons_obj : forall k rest kvs, reader (k :: rest) (VObj kvs) = reader rest (obj_get k kvs).
Proof. reflexivity. Qed.

Lemma reader_cons_arr : forall k rest l,
  reader (k :: rest) (VArr l) = let! l' := mapM (reader (k :: rest)) l in Ok (VArr l').
Proof.
  intros k rest l. cbn [reader].
  match goal with |- bind ?a _ = bind ?b _ => assert (Heq : a = b) end.
  { induction l as [|x r IH]; [reflexivity|]. cbn [mapM]. rewrite <- IH. reflexivity. }
  rewrite Heq. reflexivity.
Qed.

Lemma mapM_Forall : forall {A B} (f : A -> res B) (P : A -> Prop) (R : B -> Prop) l out,
  Forall (fun a => P a /\ forall b, f a = Ok b -> R b) l -> mapM f l = Ok out -> Forall R out.
Proof.
  intros A B f P R. induction l as [|a r IH]; intros out Hl H; cbn in H.
  - inversion H; constructor.
  - inversion Hl as [|? ? [_ Ha] Hr]; subst.
    destruct (f a) eqn:Ea; cbn in H; try discriminate.
    destruct (mapM f r) eqn:Er; cbn in H; try discriminate.
    inversion H; subst. constructor; [apply Ha; reflexivity|apply IH; auto].
Qed.

Lemma mapM_Forall' : forall {A B} (f : A -> res B) (P : A -> Prop) (R : B -> Prop),
  (forall a b, P a -> f a = Ok b -> R b) ->
  forall l out, Forall P l -> mapM f l = Ok out -> Forall R out.
Proof.
  intros A B f P R Hf l out Hl H. eapply (mapM_Forall f P R); [|exact H].
  eapply Forall_impl; [|exact Hl]. intros a Ha. split; [exact Ha|intros b; apply Hf, Ha].
Qed.

Theorem reader_clean : forall p v w, clean v -> reader p v = Ok w -> clean w.
Proof.
  induction p as [|k rest IHp]; intros v w Hv H.
  - cbn in H. inversion H; subst; exact Hv.
  - revert w Hv H. induction v using value_ind'; intros w Hv Hr;
      try (cbn in Hr; first [discriminate | inversion Hr; subst; apply clean_null]).
    + rewrite reader_cons_arr in Hr.
      destruct (mapM (reader (k :: rest)) l) eqn:Em; cbn in Hr; try discriminate.
      inversion Hr; subst. apply clean_arr. apply clean_arr_inv in Hv.
      eapply (mapM_Forall (reader (k :: rest)) clean clean); [|exact Em].
      rewrite Forall_forall in *. intros x Hx. split; [auto|]. intros b Hb. apply (H x Hx b); auto.
    + rewrite reader_cons_obj in Hr. eapply IHp; [|exact Hr]. apply clean_obj_get, Hv.
Qed.

(* ------------------------------------------------------------------ *)
(* scope copies                                                         *)
(* ------------------------------------------------------------------ *)

(* a member of a scope copy: the value under `<-` is the enclosing scope (again a scope copy), every
   other member is clean *)
Definition entry_nav (nav_ok : value -> Prop) (kv : string * value) : Prop :=
  if String.eqb (fst kv) nav then nav_ok (snd kv) else clean (snd kv).

Fixpoint nav_ok (v : value) : Prop :=
  match v with
  | VObj kvs => (fix all (l : list (string * value)) : Prop :=
                   match l with
                   | [] => True
                   | (k, x) :: r => (if String.eqb k nav then nav_ok x else clean x) /\ all r
                   end) kvs
  | _ => clean v
  end.

Lemma nav_ok_obj_iff : forall kvs, nav_ok (VObj kvs) <-> Forall (entry_nav nav_ok) kvs.
Proof.
  intros kvs. cbn [nav_ok]. induction kvs as [|[k x] r IH]; [split; auto|].
  rewrite IH. unfold entry_nav at 2. cbn [fst snd].
  split; [intros [? ?]; constructor; auto|intros H; inversion H; auto].
Qed.

Lemma clean_nav_ok : forall v, clean v -> nav_ok v.
Proof.
  intros v H. destruct v; try exact H.
  apply nav_ok_obj_iff. apply clean_obj_inv in H. eapply Forall_impl; [|exact H].
  intros [k x] [Hk Hx]. unfold entry_nav. cbn in *.
  destruct (String.eqb k nav) eqn:E; [apply String.eqb_eq in E; congruence|exact Hx].
Qed.

Lemma nav_ok_scope : forall cur data,
  nav_ok (VObj cur) -> nav_ok data -> nav_ok (VObj (scope cur data)).
Proof.
  intros cur data Hc Hd. apply nav_ok_obj_iff. unfold scope. apply Forall_obj_set.
  - unfold entry_nav. cbn. exact Hd.
  - apply nav_ok_obj_iff, Hc.
Qed.

Lemma nav_ok_get_nav : forall m, nav_ok (VObj m) -> nav_ok (obj_get nav m).
Proof.
  intros m H. unfold obj_get. destruct (lookup nav m) eqn:E; [|apply clean_null].
  apply lookup_in in E. apply nav_ok_obj_iff in H. rewrite Forall_forall in H.
  specialize (H _ E). unfold entry_nav in H. cbn in H. exact H.
Qed.

Lemma nav_ok_get_other : forall k m, k <> nav -> nav_ok (VObj m) -> clean (obj_get k m).
Proof.
  intros k m Hk H. unfold obj_get. destruct (lookup k m) eqn:E; [|apply clean_null].
  apply lookup_in in E. apply nav_ok_obj_iff in H. rewrite Forall_forall in H.
  specialize (H _ E). unfold entry_nav in H. cbn [fst snd] in H.
  destruct (String.eqb k nav) eqn:E2; [apply String.eqb_eq in E2; congruence|exact H].
Qed.

(* reading a path off a scope copy: the result is again at worst a scope copy, and it is clean as
   soon as the path has one step that is not `<-` *)
Theorem reader_nav : forall p v w,
  nav_ok v -> reader p v = Ok w -> nav_ok w /\ (nav_only p = false -> clean w).
Proof.
  induction p as [|k rest IHp]; intros v w Hv H.
  - cbn in H. inversion H; subst. split; [exact Hv|cbn; discriminate].
  - destruct v; try (cbn in H; first [discriminate | inversion H; subst; split; intros; apply clean_null]).
    + (* array: a scope copy is never an array, so v is clean *)
      assert (Hc : clean w) by (eapply reader_clean; [exact Hv|exact H]).
      split; [apply clean_nav_ok, Hc|intros _; exact Hc].
    + rewrite reader_cons_obj in H. cbn [nav_only forallb].
      destruct (String.eqb k nav) eqn:E.
      * apply String.eqb_eq in E. subst k. cbn [andb]. eapply IHp; [|exact H]. apply nav_ok_get_nav, Hv.
      * apply String.eqb_neq in E.
        assert (Hc : clean w) by (eapply reader_clean; [apply nav_ok_get_other; eauto|exact H]).
        split; [apply clean_nav_ok, Hc|intros _; exact Hc].
Qed.
