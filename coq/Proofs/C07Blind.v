(* Proofs/C07Blind.v — a SELECT of the filter/projection/aggregate/order grammar ([blind_select]:
   no subquery, no function call, no `<-`) run over resolved source rows does not look at the
   query's document, its CTEs or its FROM clause: only at the rows.  Helper file of property C07. *)
From Coq Require Import Floats.
From GenqlV Require Import Base.Prelude Base.Fmt Base.Value Model.Ast Model.Like Model.Num Model.Eval Model.Exec.
From GenqlV Require Import Spec.StageSpec Proofs.C07Mono.
From Coq Require Import ZifyBool ZifyNat.
Local Open Scope list_scope.

(* ================================================================== *)
(* 0. outcome monad, objects                                           *)
(* ================================================================== *)

Lemma bind_ok7 {A B} (r : res A) (f : A -> res B) b :
  bind r f = Ok b -> exists a, r = Ok a /\ f a = Ok b.
Proof. destruct r; cbn; try discriminate. eauto. Qed.

Lemma string_compare_refl7 s : String.compare s s = Eq.
Proof.
  induction s as [|c s IH]; cbn; [reflexivity|].
  unfold Ascii.compare. rewrite N.compare_refl. exact IH.
Qed.

Lemma lookup_obj_set_same k v l : lookup k (obj_set k v l) = Some v.
Proof.
  induction l as [|[k1 v1] l IH]; cbn [obj_set lookup].
  - rewrite String.eqb_refl. reflexivity.
  - destruct (String.compare k k1) eqn:Hc; cbn [lookup]; rewrite ?String.eqb_refl; try reflexivity.
    destruct (String.eqb k k1) eqn:He; [|exact IH].
    apply String.eqb_eq in He. subst k1. rewrite string_compare_refl7 in Hc. discriminate.
Qed.

Lemma lookup_obj_set_other k k' v l : k' <> k -> lookup k' (obj_set k v l) = lookup k' l.
Proof.
  intros Hne. apply String.eqb_neq in Hne.
  induction l as [|[k1 v1] l IH]; cbn [obj_set lookup].
  - rewrite Hne. reflexivity.
  - destruct (String.compare k k1) eqn:Hc; cbn [lookup].
    + apply String.compare_eq_iff in Hc. subst k1. rewrite Hne. reflexivity.
    + rewrite Hne. reflexivity.
    + destruct (String.eqb k' k1); [reflexivity|exact IH].
Qed.

Lemma obj_get_set_same k v l : obj_get k (obj_set k v l) = v.
Proof. unfold obj_get. rewrite lookup_obj_set_same. reflexivity. Qed.

Lemma obj_get_set_other k k' v l : k' <> k -> obj_get k' (obj_set k v l) = obj_get k' l.
Proof. intros H. unfold obj_get. rewrite lookup_obj_set_other by exact H. reflexivity. Qed.

(* ================================================================== *)
(* 1. rows that differ only in the back reference                      *)
(* ================================================================== *)

Definition rows_agree (r1 r2 : row) : Prop :=
  forall k, k <> "<-"%string -> lookup k r1 = lookup k r2.

Lemma rows_agree_refl r : rows_agree r r.
Proof. intros k _. reflexivity. Qed.

Lemma rows_agree_scope r1 r2 d1 d2 : rows_agree r1 r2 -> rows_agree (scope r1 d1) (scope r2 d2).
Proof.
  intros H k Hk. unfold scope. rewrite !lookup_obj_set_other by exact Hk. apply H. exact Hk.
Qed.

Lemma reader_blind p r1 r2 :
  blind_path p = true -> rows_agree r1 r2 -> reader p (VObj r1) = reader p (VObj r2).
Proof.
  intros Hp H. destruct p as [|k rest]; [discriminate|]. cbn [blind_path] in Hp.
  apply Bool.negb_true_iff in Hp. apply String.eqb_neq in Hp.
  cbn [reader]. unfold obj_get. rewrite (H k Hp). reflexivity.
Qed.

Definition raw_blind (r : raw) : Prop :=
  match r with RCol p => blind_path p = true | _ => True end.

Lemma value_of_blind r c1 c2 :
  raw_blind r -> rows_agree c1 c2 -> value_of c1 r = value_of c2 r.
Proof.
  intros Hr H. destruct r; try reflexivity. cbn [value_of]. apply reader_blind; assumption.
Qed.

(* ================================================================== *)
(* 2. expressions of the grammar                                       *)
(* ================================================================== *)

Record env_blind {Q} (E1 E2 : env Q) : Prop := {
  eb_hard1 : e_hard E1 = false;
  eb_hard2 : e_hard E2 = false;
  eb_agg : forall f a c1 c2, rows_agree c1 c2 -> e_agg E1 f a c1 = e_agg E2 f a c2;
  eb_agg_raw : forall f a c r, e_agg E1 f a c = Ok r -> raw_blind r
}.

Ltac inv_ok :=
  repeat match goal with
         | H : bind ?x _ = Ok _ |- _ =>
             let a := fresh "a" in let Ha := fresh "Ha" in
             apply bind_ok7 in H; destruct H as (a & Ha & H)
         | H : Ok _ = Ok _ |- _ => inversion H; clear H; subst
         | H : Err = Ok _ |- _ => discriminate H
         | H : Panic = Ok _ |- _ => discriminate H
         | H : OutOfModel = Ok _ |- _ => discriminate H
         | H : match ?x with _ => _ end = Ok _ |- _ => destruct x
         end.

Ltac split_andb :=
  repeat match goal with
         | H : _ && _ = true |- _ => apply Bool.andb_true_iff in H; destruct H
         end.

Section EvalBlind.
  Variable Q : Type.
  Variables E1 E2 : env Q.
  Hypothesis HE : env_blind E1 E2.

  (* a column reference that escapes evaluation is one of the expression's own, blind, columns *)
  Lemma eval_raw_blind : forall e, blind_expr e = true ->
    forall cur r, eval E1 cur e = Ok r -> raw_blind r.
  Proof.
    destruct HE as [Hh1 Hh2 Hagg Hraw].
    induction e using expr_ind7; cbn [blind_expr]; intros Hb cur r Hr; try discriminate Hb;
      split_andb; destruct r as [?v|pp|?s|?o| |?l]; try exact I; cbn [raw_blind];
      cbn [eval] in Hr; try solve [inv_ok].
    - (* ECol *) unfold col_path in Hr. rewrite Hh1 in Hr. inversion Hr; subst. exact Hb.
    - (* ECase *)
      match goal with HF : Forall _ whens, HP : forallb _ whens = true |- _ =>
        revert HP Hr; induction HF as [|[c v] rest [Hc Hv] _ IHr]; intros HPw Hrw
      end.
      + destruct els as [x|]; [|discriminate Hrw].
        match goal with HO : opt_holds7 _ (Some _) |- _ =>
          exact (HO ltac:(assumption) cur (RCol pp) Hrw) end.
      + cbn [forallb fst snd] in HPw, Hc, Hv. split_andb.
        apply bind_ok7 in Hrw. destruct Hrw as (rc & Hrc & Hrw).
        destruct rc as [[| [|] | | | |] | | | | |]; try discriminate Hrw.
        * exact (Hv ltac:(assumption) cur (RCol pp) Hrw).
        * apply IHr; assumption.
    - (* EAgg *) exact (Hraw _ _ _ _ Hr).
  Qed.

  (* the recurring step: evaluate an operand on both sides, then read its value *)
  Lemma operand_blind e :
    blind_expr e = true ->
    (forall c1 c2, rows_agree c1 c2 -> eval E1 c1 e = eval E2 c2 e) ->
    forall c1 c2 (X : Type) (k : value -> res X), rows_agree c1 c2 ->
      (let! r := eval E1 c1 e in let! v := value_of c1 r in k v) =
      (let! r := eval E2 c2 e in let! v := value_of c2 r in k v).
  Proof.
    intros Hb IH c1 c2 X k Hc. rewrite <- (IH c1 c2 Hc).
    destruct (eval E1 c1 e) as [r| | |] eqn:Hr; cbn [bind]; try reflexivity.
    rewrite (value_of_blind r c1 c2 (eval_raw_blind e Hb c1 r Hr) Hc). reflexivity.
  Qed.

  Ltac operand e c1 c2 Hc :=
    rewrite (operand_blind e ltac:(assumption) ltac:(assumption) c1 c2 _ _ Hc).

  Lemma eval_blind : forall e, blind_expr e = true ->
    forall c1 c2, rows_agree c1 c2 -> eval E1 c1 e = eval E2 c2 e.
  Proof.
    pose proof eval_raw_blind as Hrawb.
    destruct HE as [Hh1 Hh2 Hagg Hraw].
    induction e using expr_ind7; cbn [blind_expr]; intros Hb c1 c2 Hc; try discriminate Hb;
      split_andb;
      repeat match goal with
             | IH : blind_expr ?a = true -> _, H : blind_expr ?a = true |- _ => specialize (IH H)
             end;
      cbn [eval]; try reflexivity.
    - (* ECol *) unfold col_path. rewrite Hh1, Hh2. reflexivity.
    - (* EAnd *)
      operand e1 c1 c2 Hc.
      destruct (eval E2 c2 e1) as [r| | |]; cbn [bind]; try reflexivity.
      destruct (value_of c2 r) as [v| | |]; cbn [bind]; try reflexivity.
      destruct (match v with VNull => Err | _ => as_bool v end); cbn [bind]; try reflexivity.
      operand e2 c1 c2 Hc. reflexivity.
    - (* EOr *)
      operand e1 c1 c2 Hc.
      destruct (eval E2 c2 e1) as [r| | |]; cbn [bind]; try reflexivity.
      destruct (value_of c2 r) as [v| | |]; cbn [bind]; try reflexivity.
      destruct (match v with VNull => Err | _ => as_bool v end); cbn [bind]; try reflexivity.
      operand e2 c1 c2 Hc. reflexivity.
    - (* ENot *) operand e c1 c2 Hc. reflexivity.
    - (* ECmp *)
      assert (Hs := rows_agree_scope c1 c2 (e_data E1) (e_data E2) Hc).
      operand e1 (scope c1 (e_data E1)) (scope c2 (e_data E2)) Hs.
      destruct (eval E2 (scope c2 (e_data E2)) e1) as [r| | |]; cbn [bind]; try reflexivity.
      destruct (value_of (scope c2 (e_data E2)) r) as [v| | |]; cbn [bind]; try reflexivity.
      operand e2 (scope c1 (e_data E1)) (scope c2 (e_data E2)) Hs. reflexivity.
    - (* ELike *)
      assert (Hs := rows_agree_scope c1 c2 (e_data E1) (e_data E2) Hc).
      operand e1 (scope c1 (e_data E1)) (scope c2 (e_data E2)) Hs.
      destruct (eval E2 (scope c2 (e_data E2)) e1) as [r| | |]; cbn [bind]; try reflexivity.
      destruct (value_of (scope c2 (e_data E2)) r) as [v| | |]; cbn [bind]; try reflexivity.
      operand e2 (scope c1 (e_data E1)) (scope c2 (e_data E2)) Hs. reflexivity.
    - (* EIn *)
      assert (Hs := rows_agree_scope c1 c2 (e_data E1) (e_data E2) Hc).
      operand e (scope c1 (e_data E1)) (scope c2 (e_data E2)) Hs.
      destruct (eval E2 (scope c2 (e_data E2)) e) as [r| | |]; cbn [bind]; try reflexivity.
      destruct (value_of (scope c2 (e_data E2)) r) as [v| | |]; cbn [bind]; try reflexivity.
      f_equal.
      match goal with HF : Forall _ items, HP : forallb blind_expr items = true |- _ =>
        revert HP; induction HF as [|x rest Hx _ IHr]; intros HPw; [reflexivity|];
        cbn [forallb] in HPw; apply Bool.andb_true_iff in HPw; destruct HPw as [HPx HPr]
      end.
      rewrite <- (Hx HPx _ _ Hs).
      destruct (eval E1 (scope c1 (e_data E1)) x) as [y| | |] eqn:Hy; cbn [bind]; try reflexivity.
      assert (Hyb := Hrawb x HPx _ _ Hy).
      destruct y; cbn [bind]; rewrite ?(IHr HPr); try reflexivity.
      cbn [raw_blind] in Hyb. rewrite (reader_blind path _ _ Hyb Hs). reflexivity.
    - (* EBetween *)
      operand e1 c1 c2 Hc.
      destruct (eval E2 c2 e1) as [r| | |]; cbn [bind]; try reflexivity.
      destruct (value_of c2 r) as [pv| | |]; cbn [bind]; try reflexivity.
      rewrite <- (IHe2 c1 c2 Hc).
      destruct (eval E1 c1 e2) as [f| | |] eqn:Hf; cbn [bind]; try reflexivity.
      rewrite <- (IHe3 c1 c2 Hc).
      destruct (eval E1 c1 e3) as [t| | |] eqn:Ht; cbn [bind]; try reflexivity.
      rewrite (value_of_blind f c1 c2) by eauto.
      rewrite (value_of_blind t c1 c2) by eauto. reflexivity.
    - (* EIs *) operand e c1 c2 Hc. reflexivity.
    - (* EBin *)
      operand e1 c1 c2 Hc.
      destruct (eval E2 c2 e1) as [r| | |]; cbn [bind]; try reflexivity.
      destruct (value_of c2 r) as [v| | |]; cbn [bind]; try reflexivity.
      destruct v; try reflexivity; cbn [as_num bind]; try reflexivity.
      operand e2 c1 c2 Hc. reflexivity.
    - (* EUn *) operand e c1 c2 Hc. reflexivity.
    - (* ECase *)
      match goal with HF : Forall _ whens, HP : forallb _ whens = true |- _ =>
        revert HP; induction HF as [|[c v] rest [Hcc Hv] _ IHr]; intros HPw
      end.
      + destruct els as [x|]; [|reflexivity].
        match goal with HO : opt_holds7 _ (Some _) |- _ => apply HO; assumption end.
      + cbn [forallb fst snd] in HPw; apply Bool.andb_true_iff in HPw; destruct HPw as [HPx HPr];
          apply Bool.andb_true_iff in HPx; destruct HPx as [HPc HPv].
        cbn [fst snd] in Hcc, Hv.
        rewrite (Hcc HPc c1 c2 Hc), (Hv HPv c1 c2 Hc), (IHr HPr). reflexivity.
    - (* EAgg *) apply Hagg. exact Hc.
    - (* ETuple *)
      f_equal.
      match goal with HF : Forall _ items, HP : forallb blind_expr items = true |- _ =>
        revert HP; induction HF as [|x rest Hx _ IHr]; intros HPw; [reflexivity|];
        cbn [forallb] in HPw; apply Bool.andb_true_iff in HPw; destruct HPw as [HPx HPr]
      end.
      destruct (slot_form x); [reflexivity|].
      rewrite <- (Hx HPx _ _ Hc).
      destruct (eval E1 c1 x) as [y| | |] eqn:Hy; cbn [bind]; try reflexivity.
      assert (Hyb := Hrawb x HPx _ _ Hy).
      destruct y; cbn [bind]; rewrite ?(IHr HPr); try reflexivity.
      cbn [raw_blind] in Hyb. rewrite (reader_blind path _ _ Hyb Hc). reflexivity.
  Qed.

  Lemma eval_cond_blind c c1 c2 :
    blind_opt c = true -> rows_agree c1 c2 -> eval_cond E1 c1 c = eval_cond E2 c2 c.
  Proof.
    destruct c as [e|]; [|reflexivity]. cbn [blind_opt eval_cond]. intros Hb Hc.
    rewrite (eval_blind e Hb c1 c2 Hc). reflexivity.
  Qed.

  Lemma select_expr_blind items : forallb blind_item items = true ->
    forall cur acc, select_expr E1 cur items acc = select_expr E2 cur items acc.
  Proof.
    induction items as [|it items IH]; intros Hb cur acc; [reflexivity|].
    cbn [forallb] in Hb. apply Bool.andb_true_iff in Hb. destruct Hb as [Hit Hitems].
    destruct it as [|e name]; cbn [select_expr]; [apply IH; exact Hitems|].
    cbn [blind_item] in Hit.
    rewrite <- (eval_blind e Hit cur cur (rows_agree_refl cur)).
    destruct (eval E1 cur e) as [x| | |]; cbn [bind]; try reflexivity.
    destruct x; try apply IH; auto;
      match goal with |- bind ?v _ = bind ?v _ => destruct v; cbn [bind]; auto end.
  Qed.
End EvalBlind.
Arguments eval_blind {Q}. Arguments eval_cond_blind {Q}. Arguments select_expr_blind {Q}.

(* ================================================================== *)
(* 3. the SELECT pipeline over resolved rows                           *)
(* ================================================================== *)

Lemma eval_agg_raw members f arg r : eval_agg members f arg = Ok r -> raw_blind r.
Proof.
  unfold eval_agg. intros H. apply bind_ok7 in H. destruct H as (col & _ & H).
  apply bind_ok7 in H. destruct H as (v & _ & H). inversion H. exact I.
Qed.

(* the query the engine runs inside an inner array (CopyQuery) *)
Definition copy_query7 (s : select stmt) : select stmt :=
  {| s_with := []; s_from := s_from s; s_where := s_where s; s_group := s_group s;
     s_having := s_having s; s_items := s_items s; s_distinct := false;
     s_order := s_order s; s_limit := s_limit s; s_offset := s_offset s |}.

Section RowLoop.
  Variable rec : qctx -> job -> res value.
  Lemma filter_rows_arr7 ctx s E inner r :
    filter_rows rec ctx s E (VArr inner :: r) =
    let! rs := rec ctx (JRows (copy_query7 s) inner) in
    let! rest := filter_rows rec ctx s E r in Ok (rs :: rest).
  Proof. reflexivity. Qed.
  Lemma filter_rows_obj7 ctx s E kv r :
    filter_rows rec ctx s E (VObj kv :: r) =
    let! keep := eval_cond E kv (s_where s) in
    let! rest := filter_rows rec ctx s E r in
    Ok (if keep then VObj kv :: rest else rest).
  Proof. reflexivity. Qed.
  Lemma filter_rows_skip7 ctx s E v r :
    match v with VArr _ | VObj _ => False | _ => True end ->
    filter_rows rec ctx s E (v :: r) = filter_rows rec ctx s E r.
  Proof. destruct v; intros H; try contradiction; reflexivity. Qed.
End RowLoop.

Lemma blind_copy s : blind_select s = true -> blind_select (copy_query7 s) = true.
Proof. intros H. exact H. Qed.

Lemma same_pipeline_copy s s' : same_pipeline s s' -> same_pipeline (copy_query7 s) (copy_query7 s').
Proof.
  intros (Hwh & Hgr & Hha & Hit & Hdi & Hor & Hli & Hof). repeat split; cbn; assumption.
Qed.

Section RunBlind.
  Variables rec1 rec2 : qctx -> job -> res value.
  Variable call : string -> string -> list value -> row -> res raw.
  Variable join : jointype -> jstrategy -> list value -> list value -> string -> string ->
                  expr stmt -> row -> res (list value).

  Lemma mk_env_blind a b s s' filtered :
    s_group s = s_group s' ->
    env_blind (mk_env rec1 call join a s filtered) (mk_env rec2 call join b s' filtered).
  Proof.
    intros Hg. split; cbn [mk_env e_hard e_agg]; try reflexivity.
    - intros f arg c1 c2 Hc. rewrite <- Hg. destruct (s_group s); [reflexivity|].
      rewrite (Hc "*"%string) by discriminate. reflexivity.
    - intros f arg c r. destruct (s_group s).
      + apply eval_agg_raw.
      + destruct (lookup "*" c) as [[| | | |ms|]|]; try discriminate. apply eval_agg_raw.
  Qed.

  (* the two interpreters (and contexts) need to agree only on the inner arrays among the rows *)
  Theorem run_select_blind a b s s' rows :
    blind_select s = true -> same_pipeline s s' ->
    (forall inner, In (VArr inner) rows ->
       rec1 a (JRows (copy_query7 s) inner) = rec2 b (JRows (copy_query7 s') inner)) ->
    run_select rec1 call join a s (Some rows) = run_select rec2 call join b s' (Some rows).
  Proof.
    intros Hb Hp Hrows. pose proof Hp as (Hwh & Hgr & Hha & Hit & Hdi & Hor & Hli & Hof).
    pose proof Hb as Hb'. unfold blind_select in Hb'. split_andb.
    unfold run_select. f_equal.
    (* the row loop *)
    assert (Hfilter : filter_rows rec1 a s (mk_env rec1 call join a s []) rows =
                      filter_rows rec2 b s' (mk_env rec2 call join b s' []) rows).
    { revert Hrows. induction rows as [|cur r IH]; intros Hrows; [reflexivity|].
      assert (IH' := IH (fun inner H => Hrows inner (or_intror H))).
      destruct cur; try (rewrite !filter_rows_skip7 by exact I; exact IH').
      - rewrite !filter_rows_arr7, IH'. rewrite (Hrows l (or_introl eq_refl)). reflexivity.
      - rewrite !filter_rows_obj7, IH', <- Hwh.
        rewrite (eval_cond_blind _ _ (mk_env_blind a b s s' [] Hgr) (s_where s) kvs kvs);
          auto using rows_agree_refl. }
    rewrite Hfilter.
    destruct (filter_rows rec2 b s' (mk_env rec2 call join b s' []) rows) as [filtered| | |];
      cbn [bind]; try reflexivity.
    assert (HE := mk_env_blind a b s s' filtered Hgr).
    assert (Hgroup : exec_group_by (mk_env rec1 call join a s filtered) s filtered =
                     exec_group_by (mk_env rec2 call join b s' filtered) s' filtered).
    { unfold exec_group_by. rewrite <- Hgr. destruct (s_group s) as [|c cols]; [reflexivity|].
      destruct (group_rows (c :: cols) filtered []) as [gs| | |]; cbn [bind]; try reflexivity.
      f_equal. induction gs as [|g gs IH]; [reflexivity|].
      rewrite IH, <- Hha.
      rewrite (eval_cond_blind _ _ HE (s_having s) (group_row g) (group_row g));
        auto using rows_agree_refl. }
    rewrite Hgroup.
    destruct (exec_group_by (mk_env rec2 call join b s' filtered) s' filtered) as [grouped| | |];
      cbn [bind]; try reflexivity.
    assert (Hsel : exec_select (mk_env rec1 call join a s filtered) s grouped =
                   exec_select (mk_env rec2 call join b s' filtered) s' grouped).
    { unfold exec_select. rewrite <- Hgr, <- Hit.
      destruct ((match s_group s with [] => true | _ => false end) && all_aggregate (s_items s)).
      - rewrite (select_expr_blind _ _ HE (s_items s)) by assumption. reflexivity.
      - clear Hgroup. induction grouped as [|cur r IH]; [reflexivity|]. cbn [mapM]. rewrite IH.
        destruct cur; try reflexivity.
        rewrite (select_expr_blind _ _ HE (s_items s)) by assumption. reflexivity. }
    rewrite Hsel, <- Hdi, <- Hor, <- Hli, <- Hof. reflexivity.
  Qed.
End RunBlind.

(* nesting depth of the rows as the row loop sees it *)
Lemma adepth_arr l : adepth (VArr l) = S (rdepth l).
Proof.
  unfold rdepth. induction l as [|x l IH]; [reflexivity|].
  change (adepth (VArr (x :: l))) with (S (Nat.max (adepth x) (pred (adepth (VArr l))))).
  rewrite IH. reflexivity.
Qed.

Lemma rdepth_in v rows : In v rows -> adepth v <= rdepth rows.
Proof.
  unfold rdepth. induction rows as [|x rows IH]; intros Hin; [contradiction|].
  cbn [fold_right]. destruct Hin as [<-|Hin]; [lia|]. specialize (IH Hin). lia.
Qed.

Section ExecBlind.
  Variable call : string -> string -> list value -> row -> res raw.
  Variable join : jointype -> jstrategy -> list value -> list value -> string -> string ->
                  expr stmt -> row -> res (list value).
  Notation ex := (exec call join).

  (* a prepared SELECT of the grammar over given rows: the context and the FROM/WITH clauses are
     irrelevant at every fuel *)
  Theorem exec_rows_blind n : forall a b s s' rows,
    blind_select s = true -> same_pipeline s s' ->
    ex n a (JRows s rows) = ex n b (JRows s' rows).
  Proof.
    induction n as [|n IH]; intros a b s s' rows Hb Hp; [reflexivity|]. cbn [exec exec_step].
    apply run_select_blind; auto. intros inner _.
    apply IH; [apply blind_copy; exact Hb|apply same_pipeline_copy; exact Hp].
  Qed.

  Corollary run_select_blind_exec n a b s s' rows :
    blind_select s = true -> same_pipeline s s' ->
    run_select (ex n) call join a s (Some rows) = run_select (ex n) call join b s' (Some rows).
  Proof.
    intros Hb Hp. apply run_select_blind; auto. intros inner _.
    apply exec_rows_blind; [apply blind_copy; exact Hb|apply same_pipeline_copy; exact Hp].
  Qed.

  (* ... and any fuel above the nesting depth of the rows is enough: the only recursion of such a
     SELECT is into the inner arrays among its rows *)
  Theorem rows_fuel_enough n : forall m a b s s' rows,
    blind_select s = true -> same_pipeline s s' ->
    rdepth rows < n -> rdepth rows < m ->
    ex n a (JRows s rows) = ex m b (JRows s' rows).
  Proof.
    induction n as [|n IH]; intros m a b s s' rows Hb Hp Hn Hm; [lia|].
    destruct m as [|m]; [lia|]. cbn [exec exec_step].
    apply run_select_blind; auto. intros inner Hin.
    apply rdepth_in in Hin. rewrite adepth_arr in Hin.
    apply IH; [apply blind_copy; exact Hb|apply same_pipeline_copy; exact Hp|lia|lia].
  Qed.

  Corollary run_select_fuel_enough n m a b s s' rows :
    blind_select s = true -> same_pipeline s s' ->
    rdepth rows <= n -> rdepth rows <= m ->
    run_select (ex n) call join a s (Some rows) = run_select (ex m) call join b s' (Some rows).
  Proof.
    intros Hb Hp Hn Hm. apply run_select_blind; auto. intros inner Hin.
    apply rdepth_in in Hin. rewrite adepth_arr in Hin.
    apply rows_fuel_enough; [apply blind_copy; exact Hb|apply same_pipeline_copy; exact Hp|lia|lia].
  Qed.
End ExecBlind.
