(* Proofs/C07Examples.v — non-vacuity: concrete inputs that meet the hypotheses of the C07 theorems,
   and the theorems' conclusions observed on the executable model (through Run/EngineRun.run_model)
   on a 3-row document. *)
From Coq Require Import Floats.
From GenqlV Require Import Base.Prelude Base.Fmt Base.Value Model.Ast Model.Like Model.Num Model.Eval Model.Exec.
From GenqlV Require Import Spec.StageSpec Proofs.C07Mono Proofs.C07Blind Proofs.C07Up Proofs.C07Lemmas Run.EngineRun.
Local Open Scope string_scope.

Definition it (p : float) (w : string) : value := VObj [("p", VNum p); ("w", VStr w)].
Definition row1 : value :=
  VObj [("id", VNum 1%float); ("items", VArr [it 1%float "a"]); ("n1", VNum 3%float); ("s1", VStr "a")].
Definition row2 : value :=
  VObj [("id", VNum 2%float); ("items", VArr []); ("n1", VNum 1%float); ("s1", VStr "b")].
Definition row3 : value :=
  VObj [("id", VNum 3%float); ("items", VArr [it 5%float "b"; it 2%float "c"]); ("n1", VNum 2%float);
        ("s1", VStr "b")].
Definition vals : value := VArr [VObj [("v", VNum 2%float)]; VObj [("v", VNum 5%float)]].
Definition ex_d : row := [("t", VArr [row1; row2; row3]); ("vals", vals)].
Definition ex_doc : value := VObj ex_d.

Definition sel (w : list (string * stmt)) (f : from_clause stmt) (wh : option (expr stmt))
           (items : list (sel_item stmt)) : select stmt :=
  {| s_with := w; s_from := f; s_where := wh; s_group := []; s_having := None;
     s_items := items; s_distinct := false; s_order := []; s_limit := None; s_offset := None |}.

Definition col (c : string) : expr stmt := ECol [c].

(* ---------- a CTE chain of two ---------- *)
(* WITH c1 AS (SELECT * FROM t WHERE n1 >= 2), c2 AS (SELECT * FROM c1 WHERE s1 = 'b')
   SELECT id FROM c2 *)
Definition q1 : stmt := SSelect (sel [] (FTable ["t"] "") (Some (ECmp OpGe (col "n1") (ENum 2%float))) [IStar]).
Definition q2 : stmt := SSelect (sel [] (FTable ["c1"] "") (Some (ECmp OpEq (col "s1") (EStr "b"))) [IStar]).
Definition chain_w : list (string * stmt) := [("c1", q1); ("c2", q2)].
Definition chain_outer : select stmt := sel chain_w (FTable ["c2"] "") None [IExpr (col "id") "id"].

Definition d1 : row := bind_doc ex_d "c1" (VArr [row1; row3]).
Definition d2 : row := bind_doc d1 "c2" (VArr [row3]).

Example chain_runs :
  run_model (false, ex_doc, SSelect chain_outer) = Ok [VObj [("id", VNum 3%float)]] /\
  (* the staged run: the outer query alone over the document extended stage by stage *)
  run_model (false, VObj d2, SSelect (clear_with chain_outer)) = Ok [VObj [("id", VNum 3%float)]] /\
  (* declared in the other order *)
  run_model (false, ex_doc, SSelect (set_with chain_outer (rev chain_w))) = Ok [VObj [("id", VNum 3%float)]].
Proof. vm_compute. repeat split. Qed.

(* the hypotheses of the chain theorem are met ... *)
Example chain_ok_met :
  chain_ok (s_with chain_outer) = true /\ stage_head (SSelect (clear_with chain_outer)) = Some "c2".
Proof. vm_compute. split; reflexivity. Qed.

Example staged_chain_met : staged_chain no_call no_join ex_d (s_with chain_outer) d2.
Proof.
  apply (sc_cons _ _ ex_d "c1" q1 [row1; row3]).
  - split; [discriminate|]. exists 2%nat. vm_compute. reflexivity.
  - apply (sc_cons _ _ d1 "c2" q2 [row3]).
    + split; [discriminate|]. exists 2%nat. vm_compute. reflexivity.
    + apply sc_nil.
Qed.

(* ... and the theorem turns the staged evaluation into a statement about the composed query *)
Example chain_theorem_applies :
  evals no_call no_join (plain ex_d) (JStmt (SSelect chain_outer)) (Ok (VArr [VObj [("id", VNum 3%float)]])).
Proof.
  apply (proj2 (cte_chain no_call no_join ex_d d2 chain_outer "c2" (Ok (VArr [VObj [("id", VNum 3%float)]]))
                  (proj1 chain_ok_met) staged_chain_met (proj2 chain_ok_met) ltac:(discriminate))).
  split; [discriminate|]. exists 2%nat. vm_compute. reflexivity.
Qed.

(* ---------- a single CTE read through a path ---------- *)
(* WITH c AS (SELECT items, id FROM t) SELECT * FROM c.items WHERE p > 1 *)
Definition path_inner : stmt :=
  SSelect (sel [] (FTable ["t"] "") None [IExpr (col "items") "items"; IExpr (col "id") "id"]).
Definition path_outer : select stmt :=
  sel [("c", path_inner)] (FTable ["c"; "items"] "") (Some (ECmp OpGt (col "p") (ENum 1%float))) [IStar].

Example cte_path_hyps_met :
  blind_select path_outer = true /\ avoids ["c"] path_inner = true.
Proof. vm_compute. split; reflexivity. Qed.

Example cte_path_runs :
  run_model (false, ex_doc, SSelect path_outer) =
    Ok [VArr []; VArr []; VArr [it 5%float "b"; it 2%float "c"]] /\
  stage no_call no_join 3 "c" path_inner path_outer ex_d =
    Ok (VArr [VArr []; VArr []; VArr [it 5%float "b"; it 2%float "c"]]).
Proof. vm_compute. split; reflexivity. Qed.

(* ---------- a derived table ---------- *)
(* SELECT d.id AS i FROM (SELECT * FROM t WHERE n1 >= 2) d *)
Definition derived_outer : select stmt :=
  sel [] (FDerived q1 "d") None [IExpr (ECol ["d"; "id"]) "i"].

Example derived_runs :
  run_model (false, ex_doc, SSelect derived_outer) =
    Ok [VObj [("i", VNum 1%float)]; VObj [("i", VNum 3%float)]] /\
  (* the same SELECT over the inner result supplied as plain input under key "m" *)
  run_model (false, VObj (bind_doc ex_d "m" (VArr [row1; row3])),
             SSelect (set_from derived_outer (FTable ["m"] "d"))) =
    Ok [VObj [("i", VNum 1%float)]; VObj [("i", VNum 3%float)]] /\
  blind_select derived_outer = true.
Proof. vm_compute. repeat split. Qed.

(* ---------- correlated EXISTS ---------- *)
(* SELECT id FROM t WHERE EXISTS (SELECT * FROM items WHERE p >= n1) : n1 is the outer row's *)
Definition exists_sub : select stmt :=
  sel [] (FTable ["items"] "") (Some (ECmp OpGe (col "p") (col "n1"))) [IStar].
Definition exists_outer : select stmt :=
  sel [] (FTable ["t"] "") (Some (EExists (SSelect exists_sub))) [IExpr (col "id") "id"].

Example exists_runs :
  run_model (false, ex_doc, SSelect exists_outer) = Ok [VObj [("id", VNum 3%float)]].
Proof. vm_compute. reflexivity. Qed.

Example exists_shape_met : exists_shape exists_sub.
Proof. repeat split. Qed.

(* the element-wise reading on the three rows: only the third row has an element with p >= n1 *)
Example exists_elementwise :
  let pred cur := fun r => eval_cond (mk_env (exec no_call no_join 1) no_call no_join (plain cur) exists_sub [])
                                     r (s_where exists_sub) in
  let outer r := match r with VObj kv => scope kv ex_doc | _ => [] end in
  exists_sem (pred (outer row1)) (outer row1) [it 1%float "a"] = Ok false /\
  exists_sem (pred (outer row2)) (outer row2) [] = Ok false /\
  exists_sem (pred (outer row3)) (outer row3) [it 5%float "b"; it 2%float "c"] = Ok true.
Proof. vm_compute. repeat split. Qed.

(* ---------- a subquery navigating back to the root with `<-` ---------- *)
(* SELECT id, (SELECT v FROM <-.vals WHERE v > 2) AS sub FROM t *)
Definition root_sub : stmt :=
  SSelect (sel [] (FTable ["<-"; "vals"] "") (Some (ECmp OpGt (col "v") (ENum 2%float))) [IExpr (col "v") "v"]).
Definition root_outer : select stmt :=
  sel [] (FTable ["t"] "") None [IExpr (col "id") "id"; IExpr (ESub root_sub) "sub"].

Example root_subquery_runs :
  run_model (false, ex_doc, SSelect root_outer) =
    Ok [VObj [("id", VNum 1%float); ("sub", VArr [VObj [("v", VNum 5%float)]])];
        VObj [("id", VNum 2%float); ("sub", VArr [VObj [("v", VNum 5%float)]])];
        VObj [("id", VNum 3%float); ("sub", VArr [VObj [("v", VNum 5%float)]])]] /\
  (* the subquery standalone on the scope copy of the first row *)
  exec no_call no_join 2 (plain (scope (match row1 with VObj kv => kv | _ => [] end) ex_doc)) (JStmt root_sub) =
    Ok (VArr [VObj [("v", VNum 5%float)]]).
Proof. vm_compute. split; reflexivity. Qed.

(* ---------- x IN (subquery against the current row) ---------- *)
(* SELECT id FROM t WHERE id IN (SELECT p FROM items) *)
Definition in_sub : stmt := SSelect (sel [] (FTable ["items"] "") None [IExpr (col "p") "p"]).
Definition in_outer (neg : bool) : select stmt :=
  sel [] (FTable ["t"] "") (Some (EInSub neg (col "id") in_sub)) [IExpr (col "id") "id"].

Example in_subquery_runs :
  run_model (false, ex_doc, SSelect (in_outer false)) = Ok [VObj [("id", VNum 1%float)]] /\
  run_model (false, ex_doc, SSelect (in_outer true)) = Ok [VObj [("id", VNum 2%float)]; VObj [("id", VNum 3%float)]].
Proof. vm_compute. split; reflexivity. Qed.

(* ---------- a recursive CTE is an error at every fuel >= 2 ---------- *)
Definition rec_outer : select stmt :=
  sel [("c", SSelect (sel [] (FTable ["c"] "") None [IStar]))] (FTable ["c"] "") None [IStar].

Example recursive_runs :
  run_model (false, ex_doc, SSelect rec_outer) = Err /\
  forall n, exec no_call no_join (S (S n)) (plain ex_d) (JStmt (SSelect rec_outer)) = Err.
Proof.
  split; [vm_compute; reflexivity|]. intros n.
  apply (self_recursive_cte_is_error no_call no_join ex_d rec_outer "c"
           (sel [] (FTable ["c"] "") None [IStar]) [] "" [] "" n); reflexivity.
Qed.

(* ---------- the chain declared in the other order: some ordering is a well-scoped chain ---------- *)
Example chain_reversed_theorem_applies :
  evals no_call no_join (plain ex_d) (JStmt (SSelect (set_with chain_outer (rev chain_w))))
        (Ok (VArr [VObj [("id", VNum 3%float)]])).
Proof.
  apply (proj2 (cte_chain_any_order no_call no_join ex_d d2 (set_with chain_outer (rev chain_w)) chain_w "c2"
                  (Ok (VArr [VObj [("id", VNum 3%float)]]))
                  (Permutation.Permutation_sym (Permutation.Permutation_rev chain_w))
                  (proj1 chain_ok_met) staged_chain_met (proj2 chain_ok_met) ltac:(discriminate))).
  split; [discriminate|]. exists 2%nat. vm_compute. reflexivity.
Qed.

(* ---------- an outer query that navigates back to its own CTE with `<-` ---------- *)
(* WITH c AS (SELECT id FROM t WHERE n1 >= 2) SELECT id, (SELECT id FROM `<-`.c) AS x FROM c :
   the data map handed to the subquery under `<-` still holds the thunk of c, so the subquery reads
   the CTE; the staged run reads the materialised rows: the same.  (Before the thunks of the enclosing
   query were modelled, the composed run of the model found no key c behind `<-` here.) *)
Definition bk_inner : stmt :=
  SSelect (sel [] (FTable ["t"] "") (Some (ECmp OpGe (col "n1") (ENum 2%float))) [IExpr (col "id") "id"]).
Definition bk_sub : stmt := SSelect (sel [] (FTable ["<-"; "c"] "") None [IExpr (col "id") "id"]).
Definition bk_outer : select stmt :=
  sel [("c", bk_inner)] (FTable ["c"] "") None [IExpr (col "id") "id"; IExpr (ESub bk_sub) "x"].

Example backref_to_cte_agrees :
  avoids ["c"] bk_inner = true /\ blind_select bk_outer = false /\
  exec no_call no_join 4 (plain ex_d) (JStmt (SSelect bk_outer)) =
    Ok (VArr [VObj [("id", VNum 1%float); ("x", VArr [VObj [("id", VNum 1%float)]; VObj [("id", VNum 3%float)]])];
              VObj [("id", VNum 3%float); ("x", VArr [VObj [("id", VNum 1%float)]; VObj [("id", VNum 3%float)]])]]) /\
  stage no_call no_join 3 "c" bk_inner bk_outer ex_d =
    exec no_call no_join 4 (plain ex_d) (JStmt (SSelect bk_outer)).
Proof. vm_compute. repeat split. Qed.

(* ---------- why the outer query must not navigate back with `<-` ---------- *)
(* WITH c AS (...) SELECT id, (SELECT `<-` AS p FROM dual) AS x FROM c : the back reference used
   as a VALUE.  In the composed run the document behind `<-` has no entry c (a thunk is not part of
   the value: WithoutCtes), in the staged run it holds the materialised rows.  The real engine
   behaves the same way. *)
Definition bv_sub : stmt := SSelect (sel [] FDual None [IExpr (ECol ["<-"]) "p"]).
Definition bv_outer : select stmt :=
  sel [("c", bk_inner)] (FTable ["c"] "") None [IExpr (col "id") "id"; IExpr (ESub bv_sub) "x"].
Definition bv_rows : value := VArr [VObj [("id", VNum 1%float)]; VObj [("id", VNum 3%float)]].

Example backref_value_differs :
  avoids ["c"] bk_inner = true /\ blind_select bv_outer = false /\
  exec no_call no_join 4 (plain ex_d) (JStmt (SSelect bv_outer)) =
    Ok (VArr [VObj [("id", VNum 1%float); ("x", VObj [("p", VObj ex_d)])];
              VObj [("id", VNum 3%float); ("x", VObj [("p", VObj ex_d)])]]) /\
  stage no_call no_join 3 "c" bk_inner bv_outer ex_d =
    Ok (VArr [VObj [("id", VNum 1%float); ("x", VObj [("p", VObj (bind_doc ex_d "c" bv_rows))])];
              VObj [("id", VNum 3%float); ("x", VObj [("p", VObj (bind_doc ex_d "c" bv_rows))])]]).
Proof. vm_compute. repeat split. Qed.

(* ---------- the theorems' premises are met by the examples above ---------- *)

Example cte_is_staged_applies :
  exec no_call no_join 4 (plain ex_d) (JStmt (SSelect path_outer)) =
  stage no_call no_join 3 "c" path_inner path_outer ex_d.
Proof.
  apply (cte_is_staged no_call no_join 3 ex_d "c" path_inner path_outer ["items"] "");
    try reflexivity.
  intros v Hv. vm_compute in Hv. inversion Hv. eauto.
Qed.

Example derived_is_staged_applies :
  exec no_call no_join 3 (plain ex_d) (JStmt (SSelect derived_outer)) =
  let! v := exec no_call no_join 2 (plain ex_d) (JStmt q1) in
  exec no_call no_join 3 (plain (bind_doc ex_d "m" v))
       (JStmt (SSelect (set_from derived_outer (FTable ["m"] "d")))).
Proof.
  apply (derived_is_staged no_call no_join 2 ex_d derived_outer q1 "d" "m"); try reflexivity.
  intros v Hv. vm_compute in Hv. inversion Hv. eauto.
Qed.

Definition kv_of (r : value) : row := match r with VObj kv => kv | _ => [] end.

(* EXISTS on the third row: C07_exists applies, and the element-wise reading says "true" *)
Example exists_theorem_applies :
  let cur := scope (kv_of row3) ex_doc in
  e_exists (mk_env (exec no_call no_join 2) no_call no_join (plain ex_d) exists_outer []) (SSelect exists_sub) cur =
  exists_sem (fun r => eval_cond (mk_env (exec no_call no_join 1) no_call no_join (plain cur) exists_sub [])
                                 r (s_where exists_sub))
             cur [it 5%float "b"; it 2%float "c"] /\
  exists_sem (fun r => eval_cond (mk_env (exec no_call no_join 1) no_call no_join (plain cur) exists_sub [])
                                 r (s_where exists_sub))
             cur [it 5%float "b"; it 2%float "c"] = Ok true.
Proof.
  intros cur. split.
  - apply (exists_star no_call no_join 1 (plain ex_d) exists_outer [] cur exists_sub "items" []).
    + apply no_thunks_plain.
    + exact exists_shape_met.
    + reflexivity.
    + reflexivity.
    + vm_compute. reflexivity.
  - vm_compute. reflexivity.
Qed.

(* id IN (SELECT p FROM items) on the first row: C07_in_subquery applies, both polarities *)
Example in_subquery_theorem_applies neg :
  eval (mk_env (exec no_call no_join 2) no_call no_join (plain ex_d) (in_outer neg) []) (kv_of row1)
       (EInSub neg (col "id") in_sub) =
  Ok (RVal (VBool (xorb neg (member_sem (VNum 1%float) [VNum 1%float])))) /\
  member_sem (VNum 1%float) [VNum 1%float] = true.
Proof.
  split; [|vm_compute; reflexivity].
  apply (in_subquery no_call no_join 2 (plain ex_d) (in_outer neg) [] (kv_of row1) neg (col "id") in_sub
           (RCol ["id"]) (VNum 1%float) [VObj [("p", VNum 1%float)]] [VNum 1%float]).
  - apply no_thunks_plain.
  - reflexivity.
  - vm_compute. reflexivity.
  - vm_compute. reflexivity.
  - reflexivity.
  - intros c [<-|[]]. eexists. vm_compute. reflexivity.
Qed.

(* ================================================================== *)
(* the CTEs of an enclosing query behind `<-`                          *)
(* ================================================================== *)
(* every result below is what the real engine returns for the SQL text in the comment on the same
   document (checked with a Go program against /repo: see REPORT-A.md) *)

Definition lim1 (s : select stmt) : select stmt :=
  {| s_with := s_with s; s_from := s_from s; s_where := s_where s; s_group := s_group s;
     s_having := s_having s; s_items := s_items s; s_distinct := s_distinct s; s_order := s_order s;
     s_limit := Some 1%Z; s_offset := None |}.
Definition id_eq (n : float) : option (expr stmt) := Some (ECmp OpEq (col "id") (ENum n)).
Definition ids (l : list float) : value := VArr (map (fun f => VObj [("id", VNum f)]) l).

(* c AS (SELECT id FROM t WHERE n1 >= 2) : rows id 1, 3 *)
Definition up_c : stmt := bk_inner.

(* E1  WITH c AS (...) SELECT id, (SELECT id FROM `<-.c`) AS x FROM c   — select-list subquery *)
Definition up_e1 : stmt := SSelect bk_outer.

(* E2  WITH c AS (SELECT id AS cid FROM t WHERE n1 >= 2)
       SELECT id FROM t WHERE EXISTS (SELECT * FROM `<-.c` WHERE cid = id)   — EXISTS *)
Definition up_c2 : stmt :=
  SSelect (sel [] (FTable ["t"] "") (Some (ECmp OpGe (col "n1") (ENum 2%float))) [IExpr (col "id") "cid"]).
Definition up_e2_sub : stmt :=
  SSelect (sel [] (FTable ["<-"; "c"] "") (Some (ECmp OpEq (col "cid") (col "id"))) [IStar]).
Definition up_e2 : stmt :=
  SSelect (sel [("c", up_c2)] (FTable ["t"] "") (Some (EExists up_e2_sub)) [IExpr (col "id") "id"]).

(* E3  WITH a AS (SELECT id, (SELECT id FROM `<-.a` LIMIT 1) AS x FROM t) SELECT * FROM a
       — the body of a reads a through `<-` while a is being evaluated: "recursive reference" *)
Definition up_e3_sub : stmt := SSelect (lim1 (sel [] (FTable ["<-"; "a"] "") None [IExpr (col "id") "id"])).
Definition up_e3_body : stmt :=
  SSelect (sel [] (FTable ["t"] "") None [IExpr (col "id") "id"; IExpr (ESub up_e3_sub) "x"]).
Definition up_e3 : stmt := SSelect (sel [("a", up_e3_body)] (FTable ["a"] "") None [IStar]).

(* E4  WITH c AS (...) SELECT id, (SELECT (SELECT id FROM `<-.<-.c`) AS y FROM dual) AS x
       FROM t WHERE id = 1   — two queries up *)
Definition up_e4_sub2 : stmt := SSelect (sel [] (FTable ["<-"; "<-"; "c"] "") None [IExpr (col "id") "id"]).
Definition up_e4_sub1 : stmt := SSelect (sel [] FDual None [IExpr (ESub up_e4_sub2) "y"]).
Definition up_e4 : stmt :=
  SSelect (sel [("c", up_c)] (FTable ["t"] "") (id_eq 1%float) [IExpr (col "id") "id"; IExpr (ESub up_e4_sub1) "x"]).

(* E5  WITH c AS (SELECT id, items FROM t WHERE n1 >= 2)
       SELECT id, (SELECT p FROM `<-.c.items`) AS x FROM t WHERE id = 2   — a path after the name *)
Definition up_c5 : stmt :=
  SSelect (sel [] (FTable ["t"] "") (Some (ECmp OpGe (col "n1") (ENum 2%float)))
               [IExpr (col "id") "id"; IExpr (col "items") "items"]).
Definition up_e5_sub : stmt := SSelect (sel [] (FTable ["<-"; "c"; "items"] "") None [IExpr (col "p") "p"]).
Definition up_e5 : stmt :=
  SSelect (sel [("c", up_c5)] (FTable ["t"] "") (id_eq 2%float) [IExpr (col "id") "id"; IExpr (ESub up_e5_sub) "x"]).

(* E6  WITH t AS (SELECT id FROM vals) SELECT id, (SELECT * FROM `<-.t`) AS x FROM vals
       — a CTE and a document table of the same name: behind `<-` the thunk wins *)
Definition up_c6 : stmt := SSelect (sel [] (FTable ["vals"] "") None [IExpr (col "id") "id"]).
Definition up_e6_sub : stmt := SSelect (sel [] (FTable ["<-"; "t"] "") None [IStar]).
Definition up_e6 : stmt :=
  SSelect (sel [("t", up_c6)] (FTable ["vals"] "") None [IExpr (col "id") "id"; IExpr (ESub up_e6_sub) "x"]).

(* E14 WITH c AS (...) SELECT id FROM c WHERE id IN (SELECT id FROM `<-.c` WHERE id > 1)   — IN *)
Definition up_e14_sub : stmt :=
  SSelect (sel [] (FTable ["<-"; "c"] "") (Some (ECmp OpGt (col "id") (ENum 1%float))) [IExpr (col "id") "id"]).
Definition up_e14 : stmt :=
  SSelect (sel [("c", up_c)] (FTable ["c"] "") (Some (EInSub false (col "id") up_e14_sub)) [IExpr (col "id") "id"]).

(* E15 WITH c AS (...), b AS (SELECT id, (SELECT id FROM `<-.c`) AS x FROM t WHERE id = 2)
       SELECT * FROM b   — from inside the body of a sibling CTE *)
Definition up_b15 : stmt :=
  SSelect (sel [] (FTable ["t"] "") (id_eq 2%float) [IExpr (col "id") "id"; IExpr (ESub bk_sub) "x"]).
Definition up_e15 : stmt := SSelect (sel [("c", up_c); ("b", up_b15)] (FTable ["b"] "") None [IStar]).

(* E16 WITH a AS (SELECT id, (SELECT id FROM `<-.b`) AS x FROM t), b AS (SELECT id FROM a)
       SELECT * FROM b   — a cycle through `<-`: b -> a -> (`<-`) b *)
Definition up_e16_sub : stmt := SSelect (sel [] (FTable ["<-"; "b"] "") None [IExpr (col "id") "id"]).
Definition up_a16 : stmt :=
  SSelect (sel [] (FTable ["t"] "") None [IExpr (col "id") "id"; IExpr (ESub up_e16_sub) "x"]).
Definition up_b16 : stmt := SSelect (sel [] (FTable ["a"] "") None [IExpr (col "id") "id"]).
Definition up_e16 : stmt := SSelect (sel [("a", up_a16); ("b", up_b16)] (FTable ["b"] "") None [IStar]).

Example up_select_list_subquery :
  run_model (false, ex_doc, up_e1) =
  Ok [VObj [("id", VNum 1%float); ("x", ids [1%float; 3%float])];
      VObj [("id", VNum 3%float); ("x", ids [1%float; 3%float])]].
Proof. vm_compute. reflexivity. Qed.

Example up_exists :
  run_model (false, ex_doc, up_e2) = Ok [VObj [("id", VNum 1%float)]; VObj [("id", VNum 3%float)]].
Proof. vm_compute. reflexivity. Qed.

Example up_self_reference_error : run_model (false, ex_doc, up_e3) = Err.
Proof. vm_compute. reflexivity. Qed.

Example up_two_levels :
  run_model (false, ex_doc, up_e4) =
  Ok [VObj [("id", VNum 1%float); ("x", VObj [("y", ids [1%float; 3%float])])]].
Proof. vm_compute. reflexivity. Qed.

Example up_path_after_name :
  run_model (false, ex_doc, up_e5) =
  Ok [VObj [("id", VNum 2%float);
            ("x", VArr [VArr [VObj [("p", VNum 1%float)]];
                        VArr [VObj [("p", VNum 5%float)]; VObj [("p", VNum 2%float)]]])]].
Proof. vm_compute. reflexivity. Qed.

Example up_thunk_shadows_table :
  run_model (false, ex_doc, up_e6) =
  Ok [VObj [("id", VNull); ("x", VArr [VObj [("id", VNull)]; VObj [("id", VNull)]])];
      VObj [("id", VNull); ("x", VArr [VObj [("id", VNull)]; VObj [("id", VNull)]])]].
Proof. vm_compute. reflexivity. Qed.

Example up_in_subquery : run_model (false, ex_doc, up_e14) = Ok [VObj [("id", VNum 3%float)]].
Proof. vm_compute. reflexivity. Qed.

Example up_from_sibling_body :
  run_model (false, ex_doc, up_e15) = Ok [VObj [("id", VNum 2%float); ("x", ids [1%float; 3%float])]].
Proof. vm_compute. reflexivity. Qed.

Example up_cycle_error : run_model (false, ex_doc, up_e16) = Err.
Proof. vm_compute. reflexivity. Qed.

(* theorem (a) applied: the source rows of the subquery of E1, on the row id = 3, are the rows the
   enclosing query reads from c *)
Example up_cte_is_cte_applies :
  let ctx := register_ctes (plain ex_d) [("c", up_c)] in
  let cur := scope (kv_of (VObj [("id", VNum 3%float)])) (VObj ex_d) in
  build_from (exec no_call no_join 3) no_join (sub_ctx ctx cur) (FTable ["<-"; "c"] "") =
  build_from (exec no_call no_join 3) no_join ctx (FTable ["c"] "") /\
  build_from (exec no_call no_join 3) no_join ctx (FTable ["c"] "") =
  Ok (Some [VObj [("id", VNum 1%float)]; VObj [("id", VNum 3%float)]]).
Proof.
  intros ctx cur. split.
  - apply (up_cte_is_cte no_join (exec no_call no_join 3) ctx cur "c" [] "" up_c). reflexivity.
  - vm_compute. reflexivity.
Qed.

(* the hiding premise of the staging theorem is met by an inner statement whose subquery reads a
   document table through `<-`, and is not met when it reads the CTE name *)
Definition hid_inner (name : string) : stmt :=
  SSelect (sel [] (FTable ["t"] "") None
               [IExpr (col "id") "id";
                IExpr (ESub (SSelect (sel [] (FTable ["<-"; name] "") None [IStar]))) "x"]).
Example avoids_with_subquery :
  avoids ["c"] (hid_inner "vals") = true /\ avoids ["c"] (hid_inner "c") = false.
Proof. vm_compute. split; reflexivity. Qed.
