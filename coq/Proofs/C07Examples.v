(* Proofs/C07Examples.v — non-vacuity: concrete inputs that meet the hypotheses of the C07 theorems,
   and the theorems' conclusions observed on the executable model (through Run/EngineRun.run_model)
   on a 3-row document. *)
From Coq Require Import Floats.
From GenqlV Require Import Base.Prelude Base.Fmt Base.Value Model.Ast Model.Like Model.Num Model.Eval Model.Exec.
From GenqlV Require Import Spec.StageSpec Proofs.C07Mono Proofs.C07Blind Proofs.C07Lemmas Run.EngineRun.
Local Open Scope string_scope.

Definition it (p : float) (w : string) : value := VObj [("p", VNum p); ("w", VStr w)].
Definition row1 : value :=
  VObj [("id", VNum 1%float); ("items", VArr [it 1%float "a"]); ("n1", VNum 3%float); ("s1", VStr "a")].
Definition row2 : value :=
  VObj [("id", VNum 2%float); ("items", VArr []); ("n1", VNum 1%float); ("s1", VStr "b")].
Definition row3 : value :=
  VObj [("id", VNum 3%float); ("items", VArr [it 5%float "b"; it 2%float "c"]); ("n1", VNum 2%float);
        ("s1", VStr "b")].
Definition vals : value := VArr [VObj [("v", VNum 2%float)]; VObj [("v", VNum 5%float)]].
Definition ex_d : row := [("t", VArr [row1; row2; row3]); ("vals", vals)].
Definition ex_doc : value := VObj ex_d.

Definition sel (w : list (string * stmt)) (f : from_clause stmt) (wh : option (expr stmt))
           (items : list (sel_item stmt)) : select stmt :=
  {| s_with := w; s_from := f; s_where := wh; s_group := []; s_having := None;
     s_items := items; s_distinct := false; s_order := []; s_limit := None; s_offset := None |}.

Definition col (c : string) : expr stmt := ECol [c].

(* ---------- a CTE chain of two ---------- *)
(* WITH c1 AS (SELECT * FROM t WHERE n1 >= 2), c2 AS (SELECT * FROM c1 WHERE s1 = 'b')
   SELECT id FROM c2 *)
Definition q1 : stmt := SSelect (sel [] (FTable ["t"] "") (Some (ECmp OpGe (col "n1") (ENum 2%float))) [IStar]).
Definition q2 : stmt := SSelect (sel [] (FTable ["c1"] "") (Some (ECmp OpEq (col "s1") (EStr "b"))) [IStar]).
Definition chain_w : list (string * stmt) := [("c1", q1); ("c2", q2)].
Definition chain_outer : select stmt := sel chain_w (FTable ["c2"] "") None [IExpr (col "id") "id"].

Definition d1 : row := bind_doc ex_d "c1" (VArr [row1; row3]).
Definition d2 : row := bind_doc d1 "c2" (VArr [row3]).

Example chain_runs :
  run_model (false, ex_doc, SSelect chain_outer) = Ok [VObj [("id", VNum 3%float)]] /\
  (* the staged run: the outer query alone over the document extended stage by stage *)
  run_model (false, VObj d2, SSelect (clear_with chain_outer)) = Ok [VObj [("id", VNum 3%float)]] /\
  (* declared in the other order *)
  run_model (false, ex_doc, SSelect (set_with chain_outer (rev chain_w))) = Ok [VObj [("id", VNum 3%float)]].
Proof. vm_compute. repeat split. Qed.

(* the hypotheses of the chain theorem are met ... *)
Example chain_ok_met :
  chain_ok (s_with chain_outer) = true /\ stage_head (SSelect (clear_with chain_outer)) = Some "c2".
Proof. vm_compute. split; reflexivity. Qed.

Example staged_chain_met : staged_chain no_call no_join ex_d (s_with chain_outer) d2.
Proof.
  apply (sc_cons _ _ ex_d "c1" q1 [row1; row3]).
  - split; [discriminate|]. exists 2%nat. vm_compute. reflexivity.
  - apply (sc_cons _ _ d1 "c2" q2 [row3]).
    + split; [discriminate|]. exists 2%nat. vm_compute. reflexivity.
    + apply sc_nil.
Qed.

(* ... and the theorem turns the staged evaluation into a statement about the composed query *)
Example chain_theorem_applies :
  evals no_call no_join (plain ex_d) (JStmt (SSelect chain_outer)) (Ok (VArr [VObj [("id", VNum 3%float)]])).
Proof.
  apply (proj2 (cte_chain no_call no_join ex_d d2 chain_outer "c2" (Ok (VArr [VObj [("id", VNum 3%float)]]))
                  (proj1 chain_ok_met) staged_chain_met (proj2 chain_ok_met) ltac:(discriminate))).
  split; [discriminate|]. exists 2%nat. vm_compute. reflexivity.
Qed.

(* ---------- a single CTE read through a path ---------- *)
(* WITH c AS (SELECT items, id FROM t) SELECT * FROM c.items WHERE p > 1 *)
Definition path_inner : stmt :=
  SSelect (sel [] (FTable ["t"] "") None [IExpr (col "items") "items"; IExpr (col "id") "id"]).
Definition path_outer : select stmt :=
  sel [("c", path_inner)] (FTable ["c"; "items"] "") (Some (ECmp OpGt (col "p") (ENum 1%float))) [IStar].

Example cte_path_hyps_met :
  blind_select path_outer = true /\ avoids ["c"] path_inner = true.
Proof. vm_compute. split; reflexivity. Qed.

Example cte_path_runs :
  run_model (false, ex_doc, SSelect path_outer) =
    Ok [VArr []; VArr []; VArr [it 5%float "b"; it 2%float "c"]] /\
  stage no_call no_join 3 "c" path_inner path_outer ex_d =
    Ok (VArr [VArr []; VArr []; VArr [it 5%float "b"; it 2%float "c"]]).
Proof. vm_compute. split; reflexivity. Qed.

(* ---------- a derived table ---------- *)
(* SELECT d.id AS i FROM (SELECT * FROM t WHERE n1 >= 2) d *)
Definition derived_outer : select stmt :=
  sel [] (FDerived q1 "d") None [IExpr (ECol ["d"; "id"]) "i"].

Example derived_runs :
  run_model (false, ex_doc, SSelect derived_outer) =
    Ok [VObj [("i", VNum 1%float)]; VObj [("i", VNum 3%float)]] /\
  (* the same SELECT over the inner result supplied as plain input under key "m" *)
  run_model (false, VObj (bind_doc ex_d "m" (VArr [row1; row3])),
             SSelect (set_from derived_outer (FTable ["m"] "d"))) =
    Ok [VObj [("i", VNum 1%float)]; VObj [("i", VNum 3%float)]] /\
  blind_select derived_outer = true.
Proof. vm_compute. repeat split. Qed.

(* ---------- correlated EXISTS ---------- *)
(* SELECT id FROM t WHERE EXISTS (SELECT * FROM items WHERE p >= n1) : n1 is the outer row's *)
Definition exists_sub : select stmt :=
  sel [] (FTable ["items"] "") (Some (ECmp OpGe (col "p") (col "n1"))) [IStar].
Definition exists_outer : select stmt :=
  sel [] (FTable ["t"] "") (Some (EExists (SSelect exists_sub))) [IExpr (col "id") "id"].

Example exists_runs :
  run_model (false, ex_doc, SSelect exists_outer) = Ok [VObj [("id", VNum 3%float)]].
Proof. vm_compute. reflexivity. Qed.

Example exists_shape_met : exists_shape exists_sub.
Proof. repeat split. Qed.

(* the element-wise reading on the three rows: only the third row has an element with p >= n1 *)
Example exists_elementwise :
  let pred cur := fun r => eval_cond (mk_env (exec no_call no_join 1) no_call no_join (plain cur) exists_sub [])
                                     r (s_where exists_sub) in
  let outer r := match r with VObj kv => scope kv ex_doc | _ => [] end in
  exists_sem (pred (outer row1)) (outer row1) [it 1%float "a"] = Ok false /\
  exists_sem (pred (outer row2)) (outer row2) [] = Ok false /\
  exists_sem (pred (outer row3)) (outer row3) [it 5%float "b"; it 2%float "c"] = Ok true.
Proof. vm_compute. repeat split. Qed.

(* ---------- a subquery navigating back to the root with `<-` ---------- *)
(* SELECT id, (SELECT v FROM <-.vals WHERE v > 2) AS sub FROM t *)
Definition root_sub : stmt :=
  SSelect (sel [] (FTable ["<-"; "vals"] "") (Some (ECmp OpGt (col "v") (ENum 2%float))) [IExpr (col "v") "v"]).
Definition root_outer : select stmt :=
  sel [] (FTable ["t"] "") None [IExpr (col "id") "id"; IExpr (ESub root_sub) "sub"].

Example root_subquery_runs :
  run_model (false, ex_doc, SSelect root_outer) =
    Ok [VObj [("id", VNum 1%float); ("sub", VArr [VObj [("v", VNum 5%float)]])];
        VObj [("id", VNum 2%float); ("sub", VArr [VObj [("v", VNum 5%float)]])];
        VObj [("id", VNum 3%float); ("sub", VArr [VObj [("v", VNum 5%float)]])]] /\
  (* the subquery standalone on the scope copy of the first row *)
  exec no_call no_join 2 (plain (scope (match row1 with VObj kv => kv | _ => [] end) ex_doc)) (JStmt root_sub) =
    Ok (VArr [VObj [("v", VNum 5%float)]]).
Proof. vm_compute. split; reflexivity. Qed.

(* ---------- x IN (subquery against the current row) ---------- *)
(* SELECT id FROM t WHERE id IN (SELECT p FROM items) *)
Definition in_sub : stmt := SSelect (sel [] (FTable ["items"] "") None [IExpr (col "p") "p"]).
Definition in_outer (neg : bool) : select stmt :=
  sel [] (FTable ["t"] "") (Some (EInSub neg (col "id") in_sub)) [IExpr (col "id") "id"].

Example in_subquery_runs :
  run_model (false, ex_doc, SSelect (in_outer false)) = Ok [VObj [("id", VNum 1%float)]] /\
  run_model (false, ex_doc, SSelect (in_outer true)) = Ok [VObj [("id", VNum 2%float)]; VObj [("id", VNum 3%float)]].
Proof. vm_compute. split; reflexivity. Qed.

(* ---------- a recursive CTE is an error at every fuel >= 2 ---------- *)
Definition rec_outer : select stmt :=
  sel [("c", SSelect (sel [] (FTable ["c"] "") None [IStar]))] (FTable ["c"] "") None [IStar].

Example recursive_runs :
  run_model (false, ex_doc, SSelect rec_outer) = Err /\
  forall n, exec no_call no_join (S (S n)) (plain ex_d) (JStmt (SSelect rec_outer)) = Err.
Proof.
  split; [vm_compute; reflexivity|]. intros n.
  apply (self_recursive_cte_is_error no_call no_join ex_d rec_outer "c"
           (sel [] (FTable ["c"] "") None [IStar]) [] "" [] "" n); reflexivity.
Qed.

(* ---------- the chain declared in the other order: some ordering is a well-scoped chain ---------- *)
Example chain_reversed_theorem_applies :
  evals no_call no_join (plain ex_d) (JStmt (SSelect (set_with chain_outer (rev chain_w))))
        (Ok (VArr [VObj [("id", VNum 3%float)]])).
Proof.
  apply (proj2 (cte_chain_any_order no_call no_join ex_d d2 (set_with chain_outer (rev chain_w)) chain_w "c2"
                  (Ok (VArr [VObj [("id", VNum 3%float)]]))
                  (Permutation.Permutation_sym (Permutation.Permutation_rev chain_w))
                  (proj1 chain_ok_met) staged_chain_met (proj2 chain_ok_met) ltac:(discriminate))).
  split; [discriminate|]. exists 2%nat. vm_compute. reflexivity.
Qed.

(* ---------- why the outer query must not navigate back with `<-` (in the MODEL) ---------- *)
(* WITH c AS (SELECT id FROM t WHERE n1 >= 2) SELECT id, (SELECT id FROM `<-`.c) AS x FROM c :
   in the model the document handed to the subquery under `<-` does not hold the CTE, in the staged
   run it holds the materialised rows *)
Definition bk_inner : stmt :=
  SSelect (sel [] (FTable ["t"] "") (Some (ECmp OpGe (col "n1") (ENum 2%float))) [IExpr (col "id") "id"]).
Definition bk_sub : stmt := SSelect (sel [] (FTable ["<-"; "c"] "") None [IExpr (col "id") "id"]).
Definition bk_outer : select stmt :=
  sel [("c", bk_inner)] (FTable ["c"] "") None [IExpr (col "id") "id"; IExpr (ESub bk_sub) "x"].

Example backref_to_cte_differs :
  avoids ["c"] bk_inner = true /\ blind_select bk_outer = false /\
  exec no_call no_join 4 (plain ex_d) (JStmt (SSelect bk_outer)) =
    Ok (VArr [VObj [("id", VNum 1%float); ("x", VArr [])]; VObj [("id", VNum 3%float); ("x", VArr [])]]) /\
  stage no_call no_join 3 "c" bk_inner bk_outer ex_d =
    Ok (VArr [VObj [("id", VNum 1%float); ("x", VArr [VObj [("id", VNum 1%float)]; VObj [("id", VNum 3%float)]])];
              VObj [("id", VNum 3%float); ("x", VArr [VObj [("id", VNum 1%float)]; VObj [("id", VNum 3%float)]])]]).
Proof. vm_compute. repeat split. Qed.

(* ---------- the theorems' premises are met by the examples above ---------- *)

Example cte_is_staged_applies :
  exec no_call no_join 4 (plain ex_d) (JStmt (SSelect path_outer)) =
  stage no_call no_join 3 "c" path_inner path_outer ex_d.
Proof.
  apply (cte_is_staged no_call no_join 3 ex_d "c" path_inner path_outer ["items"] "");
    try reflexivity.
  intros v Hv. vm_compute in Hv. inversion Hv. eauto.
Qed.

Example derived_is_staged_applies :
  exec no_call no_join 3 (plain ex_d) (JStmt (SSelect derived_outer)) =
  let! v := exec no_call no_join 2 (plain ex_d) (JStmt q1) in
  exec no_call no_join 3 (plain (bind_doc ex_d "m" v))
       (JStmt (SSelect (set_from derived_outer (FTable ["m"] "d")))).
Proof.
  apply (derived_is_staged no_call no_join 2 ex_d derived_outer q1 "d" "m"); try reflexivity.
  intros v Hv. vm_compute in Hv. inversion Hv. eauto.
Qed.

Definition kv_of (r : value) : row := match r with VObj kv => kv | _ => [] end.

(* EXISTS on the third row: C07_exists applies, and the element-wise reading says "true" *)
Example exists_theorem_applies :
  let cur := scope (kv_of row3) ex_doc in
  e_exists (mk_env (exec no_call no_join 2) no_call no_join (plain ex_d) exists_outer []) (SSelect exists_sub) cur =
  exists_sem (fun r => eval_cond (mk_env (exec no_call no_join 1) no_call no_join (plain cur) exists_sub [])
                                 r (s_where exists_sub))
             cur [it 5%float "b"; it 2%float "c"] /\
  exists_sem (fun r => eval_cond (mk_env (exec no_call no_join 1) no_call no_join (plain cur) exists_sub [])
                                 r (s_where exists_sub))
             cur [it 5%float "b"; it 2%float "c"] = Ok true.
Proof.
  intros cur. split.
  - apply (exists_star no_call no_join 1 (plain ex_d) exists_outer [] cur exists_sub "items" []).
    + exact exists_shape_met.
    + reflexivity.
    + reflexivity.
    + vm_compute. reflexivity.
  - vm_compute. reflexivity.
Qed.

(* id IN (SELECT p FROM items) on the first row: C07_in_subquery applies, both polarities *)
Example in_subquery_theorem_applies neg :
  eval (mk_env (exec no_call no_join 2) no_call no_join (plain ex_d) (in_outer neg) []) (kv_of row1)
       (EInSub neg (col "id") in_sub) =
  Ok (RVal (VBool (xorb neg (member_sem (VNum 1%float) [VNum 1%float])))) /\
  member_sem (VNum 1%float) [VNum 1%float] = true.
Proof.
  split; [|vm_compute; reflexivity].
  apply (in_subquery no_call no_join 2 (plain ex_d) (in_outer neg) [] (kv_of row1) neg (col "id") in_sub
           (RCol ["id"]) (VNum 1%float) [VObj [("p", VNum 1%float)]] [VNum 1%float]).
  - reflexivity.
  - vm_compute. reflexivity.
  - vm_compute. reflexivity.
  - reflexivity.
  - intros c [<-|[]]. eexists. vm_compute. reflexivity.
Qed.
