(* Proofs/StrOrder.v — byte-lexicographic order facts for [str_cmp] (Go's strings.Compare). *)
From GenqlV Require Import Base.Prelude.
Local Open Scope Z_scope.

Lemma ascii_compare_refl a : Ascii.compare a a = Eq.
Proof. unfold Ascii.compare. apply N.compare_refl. Qed.

Lemma string_compare_refl s : String.compare s s = Eq.
Proof. induction s as [|a s IH]; cbn; [reflexivity|]. rewrite ascii_compare_refl. exact IH. Qed.

Lemma ascii_compare_eq a b : Ascii.compare a b = Eq -> a = b.
Proof. apply Ascii.compare_eq_iff. Qed.

Lemma ascii_compare_lt_trans a b c :
  Ascii.compare a b = Lt -> Ascii.compare b c = Lt -> Ascii.compare a c = Lt.
Proof. unfold Ascii.compare. rewrite !N.compare_lt_iff. lia. Qed.

Lemma string_compare_lt_trans s : forall t u,
  String.compare s t = Lt -> String.compare t u = Lt -> String.compare s u = Lt.
Proof.
  induction s as [|a s IH]; intros t u Hst Htu.
  - destruct t as [|b t]; cbn in Hst; [discriminate|].
    destruct u as [|c u]; cbn in Htu; [discriminate|]. reflexivity.
  - destruct t as [|b t]; cbn in Hst; [discriminate|].
    destruct u as [|c u]; cbn in Htu; [discriminate|].
    cbn. destruct (Ascii.compare a b) eqn:Hab; try discriminate.
    + apply ascii_compare_eq in Hab; subst b.
      destruct (Ascii.compare a c) eqn:Hac; try discriminate; [|reflexivity].
      eapply IH; eauto.
    + destruct (Ascii.compare b c) eqn:Hbc; try discriminate.
      * apply ascii_compare_eq in Hbc; subst c. rewrite Hab. reflexivity.
      * rewrite (ascii_compare_lt_trans _ _ _ Hab Hbc). reflexivity.
Qed.

Lemma string_compare_eq s t : String.compare s t = Eq -> s = t.
Proof. apply String.compare_eq_iff. Qed.

Lemma str_cmp_refl s : str_cmp s s = 0.
Proof. unfold str_cmp. rewrite string_compare_refl. reflexivity. Qed.

Lemma str_cmp_antisym s t : str_cmp s t = - str_cmp t s.
Proof.
  unfold str_cmp. rewrite (String.compare_antisym s t).
  destruct (String.compare t s); reflexivity.
Qed.

Lemma str_cmp_range s t : str_cmp s t = -1 \/ str_cmp s t = 0 \/ str_cmp s t = 1.
Proof. unfold str_cmp. destruct (String.compare s t); auto. Qed.

Lemma str_cmp_eq s t : str_cmp s t = 0 <-> s = t.
Proof.
  unfold str_cmp. split.
  - destruct (String.compare s t) eqn:H; try discriminate. intros _. apply string_compare_eq, H.
  - intros ->. rewrite string_compare_refl. reflexivity.
Qed.

(* transitivity of <= : the form C15 states *)
Lemma str_cmp_le_trans s t u : str_cmp s t <= 0 -> str_cmp t u <= 0 -> str_cmp s u <= 0.
Proof.
  unfold str_cmp.
  destruct (String.compare s t) eqn:Hst; try lia; intros _;
  destruct (String.compare t u) eqn:Htu; try lia; intros _.
  - apply string_compare_eq in Hst, Htu; subst. rewrite string_compare_refl. lia.
  - apply string_compare_eq in Hst; subst. rewrite Htu. lia.
  - apply string_compare_eq in Htu; subst. rewrite Hst. lia.
  - rewrite (string_compare_lt_trans _ _ _ Hst Htu). lia.
Qed.

Lemma str_cmp_lt_trans s t u : str_cmp s t = -1 -> str_cmp t u = -1 -> str_cmp s u = -1.
Proof.
  unfold str_cmp.
  destruct (String.compare s t) eqn:Hst; try discriminate; intros _;
  destruct (String.compare t u) eqn:Htu; try discriminate; intros _.
  rewrite (string_compare_lt_trans _ _ _ Hst Htu). reflexivity.
Qed.
