(* Proofs/F64Corollaries.v — the property theorems that took float order laws as premises, with the
   premises discharged by Proofs/F64Laws.v.

   C05 (ORDER BY): the scope "one scalar kind per key column" needed [NumLaws] for a number column.
   Here the scope is stated without it: a number column is one whose non-NULL entries are numbers
   none of which is NaN ([one_kind_keys_f64]); it implies - and is in fact equivalent to - the scope
   with the premise.  A linear-time boolean check of a concrete table ([sort_scope_f64_b]) replaces
   the cubic check of the laws by computation ([SortSpec.fcmp_laws_b]).
   C04 (joins): [flip_ok] holds for any key values whose numbers are not NaN.
   C03 / C06 / C08: [FloatEqLaws], [FloatLtLaws], [FeqLaws] hold outright. *)
From Coq Require Import Floats ZArith Lia Bool Sorting.Permutation.
From GenqlV Require Import Base.Prelude Base.Value Model.Ast Model.Eval Model.Exec Model.Join.
From GenqlV Require Import Spec.WindowSpec Spec.SortSpec Spec.GroupSpec.
From GenqlV Require Import Proofs.C05Window Proofs.C05Order Proofs.C05Sort Proofs.C05Lemmas.
From GenqlV Require Import Proofs.C03Lemmas Proofs.C06Lemmas Proofs.C04Float Proofs.C04Lemmas.
From GenqlV Require Import Proofs.F64Laws.
Local Open Scope Z_scope.

(* ================================================================== *)
(* C05: the scope of ORDER BY without the NumLaws premise               *)
(* ================================================================== *)

(* every value is a number, and none is NaN *)
Definition num_col_f64 (V : value -> Prop) : Prop :=
  forall v, V v -> exists f, v = VNum f /\ PrimFloat.is_nan f = false.

Definition one_kind_f64 (V : value -> Prop) : Prop :=
  (forall v, V v -> exists s, v = VStr s) \/
  (forall v, V v -> exists b, v = VBool b) \/
  num_col_f64 V.

(* every key is readable on every row, and the non-NULL values under each key are strings only,
   booleans only, or non-NaN numbers only *)
Definition one_kind_keys_f64 (D : value -> Prop) (keys : list sort_key) : Prop :=
  key_readable D keys /\ forall k asc, In (k, asc) keys -> one_kind_f64 (key_vals D k).

Lemma num_col_f64_laws V : num_col_f64 V -> NumLaws (fun f => V (VNum f)).
Proof.
  intros H. apply num_laws_nonnan. intros x Vx.
  destruct (H _ Vx) as (f & E & N). inversion E. exact N.
Qed.

Lemma one_kind_f64_one_kind V : one_kind_f64 V -> one_kind V.
Proof.
  intros [H|[H|H]]; [left; exact H|right; left; exact H|].
  right. right. split; [|apply num_col_f64_laws; exact H].
  intros v Vv. destruct (H v Vv) as (f & E & _). eauto.
Qed.

(* nothing is lost: the scope with the premise admits no other tables *)
Lemma one_kind_one_kind_f64 V : one_kind V -> one_kind_f64 V.
Proof.
  intros [H|[H|[H L]]]; [left; exact H|right; left; exact H|].
  right. right. intros v Vv. destruct (H v Vv) as [f ->]. exists f. split; [reflexivity|].
  apply (num_laws_only_nonnan _ L f Vv).
Qed.

Lemma one_kind_keys_f64_iff D keys : one_kind_keys_f64 D keys <-> one_kind_keys D keys.
Proof.
  split; intros [HR HK]; (split; [exact HR|]); intros k asc Hin.
  - apply one_kind_f64_one_kind. eapply HK; eauto.
  - apply one_kind_one_kind_f64. eapply HK; eauto.
Qed.

Lemma one_kind_keys_f64_scope D keys : one_kind_keys_f64 D keys -> sort_scope D keys.
Proof. intros H. apply one_kind_in_scope. apply one_kind_keys_f64_iff. exact H. Qed.

(* [vcompare] on a column of non-NaN numbers is a three-way total preorder *)
Lemma num_col_f64_cmp_laws V : num_col_f64 V -> cmp_laws V.
Proof. intros H. apply one_kind_cmp_laws, one_kind_f64_one_kind. right. right. exact H. Qed.

(* ---------- the boolean check of a concrete table ---------- *)

Definition is_num_nonnan (v : value) : bool :=
  match v with VNum f => negb (PrimFloat.is_nan f) | _ => false end.

Definition column_ok_f64_b (vals : list value) : bool :=
  let nn := filter (fun v => negb (is_null v)) vals in
  forallb is_str nn || forallb is_boolv nn || forallb is_num_nonnan nn.

Definition sort_scope_f64_b (rows : list value) (keys : list sort_key) : bool :=
  forallb (fun ka => match mapM (reader (fst ka)) rows with
                     | Ok vals => column_ok_f64_b vals
                     | _ => false
                     end) keys.

Lemma column_ok_f64_sound vals (V : value -> Prop) :
  column_ok_f64_b vals = true -> (forall v, V v -> v <> VNull /\ In v vals) -> one_kind_f64 V.
Proof.
  unfold column_ok_f64_b. set (nn := filter (fun v => negb (is_null v)) vals). intros H HV.
  assert (Hnn : forall v, V v -> In v nn).
  { intros v Vv. destruct (HV v Vv) as [N I]. apply filter_In. split; [exact I|].
    destruct v; try reflexivity. contradiction N. reflexivity. }
  apply orb_true_iff in H. destruct H as [H|H]; [apply orb_true_iff in H; destruct H as [H|H]|].
  - left. intros v Vv. rewrite forallb_forall in H. specialize (H v (Hnn v Vv)).
    destruct v; try discriminate H. eauto.
  - right. left. intros v Vv. rewrite forallb_forall in H. specialize (H v (Hnn v Vv)).
    destruct v; try discriminate H. eauto.
  - right. right. intros v Vv. rewrite forallb_forall in H. specialize (H v (Hnn v Vv)).
    destruct v; try discriminate H. cbn in H. apply negb_true_iff in H. eauto.
Qed.

Lemma sort_scope_f64_b_sound rows keys :
  sort_scope_f64_b rows keys = true -> one_kind_keys_f64 (rows_of rows) keys.
Proof.
  unfold sort_scope_f64_b. rewrite forallb_forall. intros H. split.
  - intros r k asc Hr Hin. specialize (H (k, asc) Hin). cbn [fst] in H.
    destruct (mapM (reader k) rows) as [vals| | |] eqn:E; try discriminate H.
    destruct (mapM_ok_in _ _ _ E r Hr) as (b & Hb & _). eauto.
  - intros k asc Hin. specialize (H (k, asc) Hin). cbn [fst] in H.
    destruct (mapM (reader k) rows) as [vals| | |] eqn:E; try discriminate H.
    apply (column_ok_f64_sound vals); [exact H|].
    intros v [N (r & Hr & Er)]. split; [exact N|].
    destruct (mapM_ok_in _ _ _ E r Hr) as (b & Hb & Hinb). congruence.
Qed.

(* ---------- the C05 ordering theorems on that scope ---------- *)

Section C05.
  Variables (rows : list value) (keys : list sort_key).
  Hypothesis HS : one_kind_keys_f64 (rows_of rows) keys.

  Let scope : sort_scope (rows_of rows) keys := one_kind_keys_f64_scope _ _ HS.

  Lemma order_less_swo_f64 :
    total_on (rows_of rows) (order_less keys) /\
    strict_weak_order (rows_of rows) (lt_of (order_less keys)).
  Proof. exact (order_less_swo rows keys scope). Qed.

  Lemma exec_order_by_f64 :
    exists out, exec_order_by keys rows = Ok out /\ sorted_perm (order_less keys) rows out.
  Proof. exact (exec_order_by_sorted_perm keys rows scope). Qed.

  Lemma sorted_adjacent_f64 out :
    nulls_only_in_last_key (rows_of rows) keys ->
    sorted_perm (order_less keys) rows out ->
    Permutation rows out /\
    forall i a b, nth_error out i = Some a -> nth_error out (S i) = Some b -> lex_le keys a b.
  Proof. exact (sorted_adjacent rows keys out scope). Qed.

  Lemma sorted_all_pairs_f64 out :
    nulls_only_in_last_key (rows_of rows) keys ->
    sorted_perm (order_less keys) rows out ->
    forall i j a b, (i < j)%nat -> nth_error out i = Some a -> nth_error out j = Some b ->
    lex_le keys a b.
  Proof. exact (sorted_all_pairs rows keys out scope). Qed.

  Lemma sorted_all_pairs_nullstop_f64 out :
    sorted_perm (order_less keys) rows out ->
    forall i j a b, (i < j)%nat -> nth_error out i = Some a -> nth_error out j = Some b ->
    lex_le_nullstop keys a b.
  Proof. exact (sorted_all_pairs_nullstop rows keys out scope). Qed.

  Lemma lex_adjacent_sorted_perm_f64 out :
    Permutation rows out ->
    (forall i a b, nth_error out i = Some a -> nth_error out (S i) = Some b ->
                   lex_le_nullstop keys a b) ->
    sorted_perm (order_less keys) rows out.
  Proof. exact (lex_adjacent_sorted_perm rows keys out scope). Qed.

  Lemma order_then_window_f64 limit offset :
    bound_ok limit -> bound_ok offset ->
    exists ordered,
      exec_order_by keys rows = Ok ordered /\
      sorted_perm (order_less keys) rows ordered /\
      (let! o := exec_order_by keys rows in window o (List.length o) limit offset)
        = Ok (window_spec ordered limit offset).
  Proof. exact (order_then_window keys rows limit offset scope). Qed.
End C05.

Lemma nulls_last_f64 rows k asc out :
  one_kind_keys_f64 (rows_of rows) [(k, asc)] ->
  sorted_perm (order_less [(k, asc)]) rows out ->
  forall i j a b, (i < j)%nat -> nth_error out i = Some a -> nth_error out j = Some b ->
  reader k a = Ok VNull -> reader k b = Ok VNull.
Proof. intros HS. exact (nulls_last rows k asc out (one_kind_keys_f64_scope _ _ HS)). Qed.

Lemma nulls_last_first_key_f64 rows k asc rest out :
  one_kind_keys_f64 (rows_of rows) ((k, asc) :: rest) ->
  sorted_perm (order_less ((k, asc) :: rest)) rows out ->
  forall i j a b, (i < j)%nat -> nth_error out i = Some a -> nth_error out j = Some b ->
  reader k a = Ok VNull -> reader k b = Ok VNull.
Proof. intros HS. exact (nulls_last_first_key rows k asc rest out (one_kind_keys_f64_scope _ _ HS)). Qed.

Lemma run_select_order_window_f64 rec call join ctx (s : select stmt) from filtered grouped selected :
  filter_rows rec ctx s (mk_env rec call join ctx s []) from = Ok filtered ->
  exec_group_by (mk_env rec call join ctx s filtered) s filtered = Ok grouped ->
  exec_select (mk_env rec call join ctx s filtered) s grouped = Ok selected ->
  one_kind_keys_f64 (rows_of (exec_distinct (s_distinct s) selected)) (s_order s) ->
  bound_ok (s_limit s) -> bound_ok (s_offset s) ->
  exists ordered,
    sorted_perm (order_less (s_order s)) (exec_distinct (s_distinct s) selected) ordered /\
    run_select rec call join ctx s (Some from)
      = Ok (VArr (window_spec ordered (s_limit s) (s_offset s))).
Proof.
  intros Hf Hg Hs HS. eapply run_select_order_window; eauto. apply one_kind_keys_f64_scope. exact HS.
Qed.

(* the example tables of C05 pass the new check too; a NaN key does not *)
Lemma ex_in_scope_f64 :
  sort_scope_f64_b ex_rows ex_keys = true /\ sort_scope_f64_b ex_rows' ex_keys = true /\
  sort_scope_f64_b [kv (VNum nan)] [(["k"%string], true)] = false /\
  sort_scope_f64_b [kv (VNum 9%float); kv (VNum 10%float); kv (VStr "5")] [(["k"%string], true)] = false.
Proof. vm_compute. repeat split. Qed.

(* ================================================================== *)
(* C04: flip_ok for key values whose numbers are not NaN                *)
(* ================================================================== *)

Definition nonnan_val (v : value) : bool :=
  match v with VNum f => negb (PrimFloat.is_nan f) | _ => true end.

(* compare.Compare is antisymmetric on any two values it can compare, NaN excluded *)
Lemma vcompare_flip_f64 a b z :
  nonnan_val a = true -> nonnan_val b = true -> vcompare a b = Ok z -> vcompare b a = Ok (- z).
Proof.
  intros Ha Hb H.
  destruct (is_num a && is_num b) eqn:N.
  - apply andb_true_iff in N. destruct N as [Na Nb].
    destruct a; try discriminate Na. destruct b; try discriminate Nb.
    cbn in Ha, Hb. apply negb_true_iff in Ha, Hb. apply vcompare_num_flip; assumption.
  - apply (flip_text a b z N); [| |exact H].
    + intros E. unfold vcompare in H. rewrite E in H.
      destruct a; try discriminate H; destruct b; try discriminate H; discriminate N.
    + intros E. unfold vcompare in H. rewrite E in H.
      destruct a; try discriminate H; destruct b; try discriminate H;
        try discriminate N; destruct (fmt_value _); discriminate H.
Qed.

Lemma flip_ok_f64 li L R on :
  (forall op pa pb l r a b, In (op, pa, pb) (on_cmps on) -> In l L -> In r R ->
     pair_read li l r pa = Ok a -> pair_read li l r pb = Ok b ->
     nonnan_val a = true /\ nonnan_val b = true) ->
  flip_ok li L R on.
Proof.
  intros H op pa pb l r a b z Hc Hl Hr Ea Eb E.
  destruct (H op pa pb l r a b Hc Hl Hr Ea Eb) as [Na Nb]. apply vcompare_flip_f64; assumption.
Qed.

(* ================================================================== *)
(* the float premises of all properties, in one statement               *)
(* ================================================================== *)

Theorem float_premises_hold :
  (* C05: NumLaws on every set of non-NaN doubles, and on no other set *)
  (forall F : float -> Prop, (forall x, F x -> PrimFloat.is_nan x = false) <-> NumLaws F) /\
  (* C03: == is symmetric and transitive, < irreflexive and transitive (all doubles) *)
  FloatEqLaws /\ FloatLtLaws /\
  (* C06, C08: the identity of doubles used by DISTINCT / UNION is symmetric and transitive *)
  FeqLaws /\
  (* C04: -0 and 0 compare alike against every number; Compare on two non-NaN numbers is
     antisymmetric; Compare = 0 on numbers is == *)
  (forall x y, vcompare (norm_zero (VNum x)) (norm_zero (VNum y)) = vcompare (VNum x) (VNum y)) /\
  (forall a b z, nonnan_val a = true -> nonnan_val b = true ->
     vcompare a b = Ok z -> vcompare b a = Ok (- z)) /\
  (forall x y, vcompare (VNum x) (VNum y) = Ok 0 <-> PrimFloat.eqb x y = true).
Proof.
  split.
  { intros F. split; [apply num_laws_nonnan|apply num_laws_only_nonnan]. }
  split; [exact float_eq_laws_f64|]. split; [exact float_lt_laws_f64|].
  split; [exact feq_laws_f64|]. split; [exact zero_safe_num|].
  split; [exact vcompare_flip_f64|exact vcompare_num_eq_iff].
Qed.
