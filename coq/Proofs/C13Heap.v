(* Proofs/C13Heap.v — read-only sharing: threads that write only to what they allocated
   themselves, and that have received no object from another thread, never race — whatever
   pre-existing data they all read. *)
From GenqlV Require Import Base.Prelude Model.ConcEvents Model.ConcHeap Proofs.C13Lockset.

Record HInv (s : hst) : Prop := {
  H_priv : forall i, private i (hrem s i) = true;
  H_lt : forall i n, In n (hown s i) -> n < hnext s;
  H_disj : forall i j n, In n (hown s i) -> In n (hown s j) -> i = j }.

Lemma HInv_init progs : (forall i, private i (progs i) = true) -> HInv (hinit progs).
Proof. intros H. constructor; cbn; [exact H|contradiction|contradiction]. Qed.

Lemma private_tail i e r : private i (e :: r) = true -> private i r = true.
Proof. unfold private. cbn [forallb]. intros H. apply andb_prop in H. tauto. Qed.

Lemma HInv_step s i : HInv s -> HInv (hstep s i).
Proof.
  intros [Hp Hl Hd]. unfold hstep. destruct (hrem s i) as [|e r] eqn:Hrem; [constructor; assumption|].
  assert (Hr : private i r = true) by (eapply private_tail; rewrite <- Hrem; apply Hp).
  assert (Hadv : forall j, private j (upd (hrem s) i r j) = true).
  { intros j. destruct (Nat.eq_dec j i) as [->|Hne]; [now rewrite upd_same|rewrite upd_other by exact Hne; apply Hp]. }
  destruct e as [|o|o].
  - constructor; cbn [hrem hnext hown].
    + exact Hadv.
    + intros j n Hin. destruct (Nat.eq_dec j i) as [->|Hne].
      * rewrite upd_same in Hin. apply in_app_or in Hin as [Hin|[<-|[]]]; [apply Hl in Hin; lia|lia].
      * rewrite upd_other in Hin by exact Hne. apply Hl in Hin. lia.
    + intros a b n Ha Hb.
      destruct (Nat.eq_dec a i) as [->|Hna]; destruct (Nat.eq_dec b i) as [->|Hnb]; [reflexivity| | |].
      * rewrite upd_same in Ha. rewrite upd_other in Hb by exact Hnb.
        apply in_app_or in Ha as [Ha|[<-|[]]]; [eapply Hd; eauto|]. apply Hl in Hb. lia.
      * rewrite upd_same in Hb. rewrite upd_other in Ha by exact Hna.
        apply in_app_or in Hb as [Hb|[<-|[]]]; [eapply Hd; eauto|]. apply Hl in Ha. lia.
      * rewrite upd_other in Ha by exact Hna. rewrite upd_other in Hb by exact Hnb. eapply Hd; eauto.
  - destruct (resolve s o); constructor; cbn [hrem hnext hown]; assumption.
  - destruct (resolve s o); constructor; cbn [hrem hnext hown]; assumption.
Qed.

Lemma HInv_run progs sched : (forall i, private i (progs i) = true) -> HInv (hrun progs sched).
Proof.
  intros H. unfold hrun. assert (HI : HInv (hinit progs)) by (apply HInv_init; exact H).
  revert HI. generalize (hinit progs).
  induction sched as [|i sched IH]; cbn; intros s HI; [exact HI|]. apply IH, HInv_step, HI.
Qed.

(* an access that resolves to a heap object is made by the thread that allocated it *)
Lemma pending_heap_owner s i a n :
  HInv s -> hpending s i = Some (a, AHeap n) -> In n (hown s i).
Proof.
  intros HI Hp. assert (Hpr := H_priv s HI i). unfold hpending in Hp.
  destruct (hrem s i) as [|[|o|o] r]; try discriminate;
    unfold private in Hpr; cbn [forallb private_ev] in Hpr; apply andb_prop in Hpr as [Hpr _];
    destruct o as [k|t k]; cbn in Hp; try discriminate;
    try (apply Nat.eqb_eq in Hpr; subst t);
    destruct (nth_error (hown s i) k) as [n'|] eqn:E; cbn in Hp; try discriminate;
    inversion Hp; subst; eapply nth_error_In; eauto.
Qed.

(* a write always resolves to a heap object *)
Lemma pending_write_heap s i x :
  HInv s -> hpending s i = Some (Wr, x) -> exists n, x = AHeap n.
Proof.
  intros HI Hp. assert (Hpr := H_priv s HI i). unfold hpending in Hp.
  destruct (hrem s i) as [|[|o|o] r]; try discriminate.
  - destruct (resolve s o); discriminate.
  - unfold private in Hpr; cbn [forallb private_ev] in Hpr; apply andb_prop in Hpr as [Hpr _].
    destruct o as [k|t k]; [discriminate|]. cbn in Hp.
    destruct (nth_error (hown s t) k) as [n|]; cbn in Hp; [|discriminate].
    inversion Hp. eauto.
Qed.

Theorem readonly_sharing :
  forall progs : tid -> list hev,
    (forall i, private i (progs i) = true) -> forall sched, ~ hrace (hrun progs sched).
Proof.
  intros progs H sched. assert (HI := HInv_run progs sched H).
  intros (i & j & a & b & x & Hne & Hi & Hj & Hc).
  assert (Hw : exists n, x = AHeap n).
  { destruct a, b; try discriminate; eauto using pending_write_heap. }
  destruct Hw as (n & ->).
  apply Hne. eapply (H_disj _ HI); eapply pending_heap_owner; eauto.
Qed.
