(* Proofs/C04Parallel.v — the PARALLEL join drivers: Proofs/C04Conc.v instantiated with the join's
   per-left-key batches.  Whatever the interleaving of the workers, ParallelJoinFunc /
   ParallelHashJoinFunc return a permutation of what the sequential driver (the model's
   [exec_join], which runs the batches in catalog order) returns, and fail iff it fails. *)
From Coq Require Import Floats Permutation.
From GenqlV Require Import Base.Prelude Base.Value Model.Ast Model.Eval Model.Join
  Proofs.C04Conc Proofs.C04KeyText Proofs.C04Lemmas.
Local Open Scope list_scope.

Lemma mapM_map {X Y Z} (f : Y -> res Z) (h : X -> Y) l : mapM f (map h l) = mapM (fun x => f (h x)) l.
Proof. induction l as [|x l IH]; cbn; [reflexivity|]. now rewrite IH. Qed.

Lemma mapM_nth {X Y} (f : X -> res Y) (d : res Y) l :
  mapM f l = mapM (fun i => match nth_error l i with Some x => f x | None => d end) (seq 0 (List.length l)).
Proof.
  induction l as [|x l IH]; cbn [List.length seq mapM nth_error]; [reflexivity|].
  rewrite <- seq_shift, mapM_map. cbn [nth_error]. now rewrite <- IH.
Qed.

(* what worker i computes: JoinMatchFunc / HashJoinMatchFunc for the i-th left key *)
Definition join_batch (use_hash inner : bool) (ri : string) (on : expr stmt) (data : row)
           (lcat rcat : list centry) (i : nat) : res (list value) :=
  match nth_error lcat i with
  | Some le => if use_hash then hash_match inner ri le rcat else loop_match data inner ri on le rcat
  | None => Ok []
  end.

Lemma join_core_sequential use_hash inner L R li ri on data lcat rcat :
  to_catalog L li ri on = Ok lcat -> to_catalog R ri li on = Ok rcat ->
  join_core use_hash inner L R li ri on data =
  sequential (List.length lcat) (join_batch use_hash inner ri on data lcat rcat).
Proof.
  intros H1 H2. unfold join_core, sequential, join_batch. rewrite H1, H2. cbn [bind].
  now rewrite (mapM_nth _ (Ok [])).
Qed.

(* the parallel drivers under EVERY schedule *)
Theorem parallel_join use_hash inner L R li ri on data lcat rcat :
  to_catalog L li ri on = Ok lcat -> to_catalog R ri li on = Ok rcat ->
  let batch := join_batch use_hash inner ri on data lcat rcat in
  let n := List.length lcat in
  forall sched,
    (* at most one worker is between mut.Lock() and mut.Unlock(); no sync fault *)
    (forall i j, in_cs (run n batch sched) i -> in_cs (run n batch sched) j -> i = j) /\
    bad (run n batch sched) = false /\
    (* no deadlock: until main returns some thread can move (and every run is finite) *)
    ((forall r, mpc (run n batch sched) <> MRet r) -> exists t, enabled (run n batch sched) t = true) /\
    (* when main returns: every worker appended exactly once, and the result is a permutation of
       the sequential driver's *)
    (forall r, mpc (run n batch sched) = MRet r ->
       NoDup (order (run n batch sched)) /\
       (forall i, In i (order (run n batch sched)) <-> i < n) /\
       r = (if existsb (failed batch) (order (run n batch sched)) then None
            else Some (List.concat (map (okb batch) (order (run n batch sched))))) /\
       match join_core use_hash inner L R li ri on data with
       | Ok out => exists out', r = Some out' /\ Permutation out' out
       | _ => r = None
       end).
Proof.
  intros H1 H2 batch n sched. split; [|split; [|split]].
  - intros i j. apply (mutual_exclusion n batch sched).
  - apply no_sync_fault.
  - apply no_deadlock.
  - intros r Hr. destruct (completion_order_is_permutation n batch sched r Hr) as (Hn & Hin & _).
    split; [exact Hn|]. split; [exact Hin|]. split; [now apply result_is_concat_of_batches|].
    rewrite (join_core_sequential use_hash inner L R li ri on data lcat rcat H1 H2).
    exact (parallel_vs_sequential n batch sched r Hr).
Qed.
