(* Proofs/C04Lemmas.v — the join model against the textbook specification.
   Part A  association-list facts (lookup after obj_set / obj_merge; no sortedness needed)
   Part B  the ON fragment of the property: boolean combinations of column-to-column comparisons
   Part C  ON evaluated with hard-coded reads on key maps = ON evaluated with path reads on rows
   Part D  well-formed join inputs ([wf_join]) and what they give
   Part E  nested loop = specification (as multisets)
   Part F  hash path = nested loop (as lists) when ON is a conjunction of equalities *)
From Coq Require Import Floats Permutation.
From GenqlV Require Import Base.Prelude Base.Fmt Base.Value Model.Ast Model.Eval Model.Join
  Spec.JoinSpec Proofs.StrOrder Proofs.C04KeyText.
Local Open Scope list_scope.

(* ------------------------------------------------------------------ *)
(* Part A: association lists                                            *)
(* ------------------------------------------------------------------ *)

Lemma lookup_set_same k v m : lookup k (obj_set k v m) = Some v.
Proof.
  induction m as [|[k' v'] r IH]; cbn [obj_set lookup].
  - now rewrite String.eqb_refl.
  - destruct (String.compare k k') eqn:Hc; cbn [lookup].
    + now rewrite String.eqb_refl.
    + now rewrite String.eqb_refl.
    + destruct (String.eqb k k') eqn:He; [|exact IH].
      apply String.eqb_eq in He. subst. rewrite string_compare_refl in Hc. discriminate.
Qed.

Lemma lookup_set_other k k' v m : k' <> k -> lookup k' (obj_set k v m) = lookup k' m.
Proof.
  intros Hne. assert (Hb : String.eqb k' k = false) by (now apply String.eqb_neq).
  induction m as [|[k0 v0] r IH]; cbn [obj_set lookup].
  - now rewrite Hb.
  - destruct (String.compare k k0) eqn:Hc; cbn [lookup].
    + apply string_compare_eq in Hc. subst k0. now rewrite Hb.
    + now rewrite Hb.
    + now rewrite IH.
Qed.

Lemma In_obj_set d v k w m : In (d, v) (obj_set k w m) -> (d = k /\ v = w) \/ In (d, v) m.
Proof.
  induction m as [|[k0 v0] r IH]; cbn [obj_set].
  - intros [[= <- <-]|[]]. auto.
  - destruct (String.compare k k0) eqn:Hc; cbn [In].
    + intros [[= <- <-]|H]; auto.
    + intros [[= <- <-]|H]; auto.
    + intros [H|H]; auto. destruct (IH H); auto.
Qed.

Lemma lookup_In d v m : lookup d m = Some v -> In (d, v) m.
Proof.
  induction m as [|[k0 v0] r IH]; cbn; [discriminate|].
  destruct (String.eqb d k0) eqn:E.
  - apply String.eqb_eq in E. subst. intros [= ->]. now left.
  - intros H. right. auto.
Qed.

Lemma lookup_None_notin d m : lookup d m = None -> forall v, ~ In (d, v) m.
Proof.
  induction m as [|[k0 v0] r IH]; cbn; [tauto|].
  destruct (String.eqb d k0) eqn:E; [discriminate|].
  apply String.eqb_neq in E. intros H v [[= -> ->]|Hin]; [congruence|]. now apply (IH H v).
Qed.

Lemma lookup_merge_notin d dst src :
  (forall v, ~ In (d, v) src) -> lookup d (obj_merge dst src) = lookup d dst.
Proof.
  unfold obj_merge. revert dst. induction src as [|[k0 v0] r IH]; intros dst H; cbn; [reflexivity|].
  rewrite IH by (intros v Hv; apply (H v); now right).
  apply lookup_set_other. intros ->. apply (H v0). now left.
Qed.

(* after maps.Copy the key holds one of the source's bindings for it *)
Lemma lookup_merge_in d dst src v0 :
  lookup d src = Some v0 -> exists v, In (d, v) src /\ lookup d (obj_merge dst src) = Some v.
Proof.
  unfold obj_merge. revert dst v0. induction src as [|[k0 w0] r IH]; intros dst v0; cbn [lookup fold_left fst snd];
    [discriminate|].
  intros H. destruct (lookup d r) as [v1|] eqn:Er.
  - destruct (IH (obj_set k0 w0 dst) v1 eq_refl) as (v & Hin & Hl). exists v. split; [now right|exact Hl].
  - destruct (String.eqb d k0) eqn:E.
    + apply String.eqb_eq in E. subst k0. exists w0. split; [now left|].
      fold (obj_merge (obj_set d w0 dst) r).
      rewrite lookup_merge_notin by (now apply lookup_None_notin). apply lookup_set_same.
    + discriminate.
Qed.

Lemma In_merge d v dst src : In (d, v) (obj_merge dst src) -> In (d, v) dst \/ In (d, v) src.
Proof.
  unfold obj_merge. revert dst. induction src as [|[k0 w0] r IH]; intros dst; cbn; [auto|].
  intros H. destruct (IH _ H) as [H1|H1]; [|auto].
  destruct (In_obj_set _ _ _ _ _ H1) as [[-> ->]|H2]; auto.
Qed.

(* ------------------------------------------------------------------ *)
(* Part B: the ON fragment                                              *)
(* ------------------------------------------------------------------ *)

Definition hd_is (id : string) (p : list string) : bool :=
  match p with [] => false | x :: _ => String.eqb x id end.

(* boolean combinations of comparisons between one [li]-column and one [ri]-column, either way round *)
Fixpoint wf_on (li ri : string) (e : expr stmt) : bool :=
  match e with
  | ECmp _ (ECol pa) (ECol pb) => (hd_is li pa && hd_is ri pb) || (hd_is ri pa && hd_is li pb)
  | EAnd a b | EOr a b => wf_on li ri a && wf_on li ri b
  | _ => false
  end.

Definition cmp3 := (cmpop * list string * list string)%type.

Fixpoint on_cmps (e : expr stmt) : list cmp3 :=
  match e with
  | ECmp op (ECol pa) (ECol pb) => [(op, pa, pb)]
  | EAnd a b | EOr a b => on_cmps a ++ on_cmps b
  | _ => []
  end.

(* the column of a comparison that belongs to alias [id] *)
Definition col_of (id : string) (c : cmp3) : list string :=
  let '(_, pa, pb) := c in if hd_is id pa then pa else pb.

Definition on_cols (e : expr stmt) : list (list string) :=
  flat_map (fun c : cmp3 => let '(_, pa, pb) := c in [pa; pb]) (on_cmps e).

Lemma wf_on_sym li ri e : wf_on li ri e = wf_on ri li e.
Proof.
  induction e; cbn; auto; try (now rewrite IHe1, IHe2).
  destruct e1; auto. destruct e2; auto. apply orb_comm.
Qed.

Lemma join_columns_wf li ri e :
  li <> ri -> wf_on li ri e = true -> join_columns li ri e = Ok (map (col_of li) (on_cmps e)).
Proof.
  intros Hne. induction e; cbn; try discriminate.
  - intros H. apply andb_prop in H. destruct H as [H1 H2].
    rewrite (IHe1 H1), (IHe2 H2). cbn. now rewrite map_app.
  - intros H. apply andb_prop in H. destruct H as [H1 H2].
    rewrite (IHe1 H1), (IHe2 H2). cbn. now rewrite map_app.
  - destruct e1; try discriminate. destruct e2; try discriminate.
    destruct path as [|x tl]; [discriminate|]. destruct path0 as [|y tl']; [cbn; now rewrite !andb_false_r|].
    cbn [hd_is hd col_of map on_cmps].
    intros H. apply orb_prop in H. destruct H as [H|H]; apply andb_prop in H; destruct H as [Ha Hb].
    + rewrite (String.eqb_sym li), Ha. reflexivity.
    + apply String.eqb_eq in Ha, Hb. subst x y.
      assert (E1 : String.eqb li ri = false) by (now apply String.eqb_neq).
      rewrite E1, String.eqb_refl, (String.eqb_sym ri li), E1. reflexivity.
Qed.

Lemma col_of_in_cols id c e : In c (on_cmps e) -> In (col_of id c) (on_cols e).
Proof.
  intros H. unfold on_cols. apply in_flat_map. exists c. split; [exact H|].
  destruct c as [[op pa] pb]. cbn. destruct (hd_is id pa); auto.
Qed.

(* both columns of a well-formed comparison: one per alias *)
Lemma wf_on_cmp li ri e op pa pb :
  wf_on li ri e = true -> In (op, pa, pb) (on_cmps e) ->
  (hd_is li pa = true /\ hd_is ri pb = true) \/ (hd_is ri pa = true /\ hd_is li pb = true).
Proof.
  induction e; cbn; try discriminate; try tauto.
  - intros H Hin. apply andb_prop in H. destruct H. apply in_app_or in Hin. destruct Hin; auto.
  - intros H Hin. apply andb_prop in H. destruct H. apply in_app_or in Hin. destruct Hin; auto.
  - destruct e1; try discriminate. destruct e2; try discriminate.
    intros H [[= <- <- <-]|[]]. apply orb_prop in H.
    destruct H as [H|H]; apply andb_prop in H; tauto.
Qed.

(* ------------------------------------------------------------------ *)
(* Part C: ON as a function of its column values                        *)
(* ------------------------------------------------------------------ *)

Fixpoint on_sem (f : list string -> value) (e : expr stmt) : res bool :=
  match e with
  | ECmp op (ECol pa) (ECol pb) => let! c := vcompare (f pa) (f pb) in Ok (cmp_holds op c)
  | EAnd a b => let! x := on_sem f a in let! y := on_sem f b in Ok (x && y)
  | EOr a b => let! x := on_sem f a in let! y := on_sem f b in Ok (x || y)
  | _ => Err
  end.

Definition as_raw (r : res bool) : res raw := let! b := r in Ok (RVal (VBool b)).

Lemma in_cols_app_l a b p : In p (on_cols a) -> In p (flat_map (fun c : cmp3 => let '(_, pa, pb) := c in [pa; pb]) (on_cmps a ++ on_cmps b)).
Proof. rewrite flat_map_app, in_app_iff. auto. Qed.
Lemma in_cols_app_r a b p : In p (on_cols b) -> In p (flat_map (fun c : cmp3 => let '(_, pa, pb) := c in [pa; pb]) (on_cmps a ++ on_cmps b)).
Proof. rewrite flat_map_app, in_app_iff. auto. Qed.

(* JoinMatchFunc: ON over the union of two key maps, every column read as ONE quoted key *)
Lemma eval_on_hard data li ri f e cur :
  wf_on li ri e = true ->
  (forall p, In p (on_cols e) -> dotted p <> "<-"%string /\ obj_get (dotted p) cur = f p) ->
  eval (on_env data) cur e = as_raw (on_sem f e).
Proof.
  induction e; cbn [wf_on]; try discriminate; intros Hwf Hf.
  - apply andb_prop in Hwf. destruct Hwf as [H1 H2].
    cbn [eval on_sem]. rewrite (IHe1 H1), (IHe2 H2)
      by (intros p Hp; apply Hf; unfold on_cols; cbn [on_cmps]; auto using in_cols_app_l, in_cols_app_r).
    destruct (on_sem f e1) as [x| | |]; cbn; try reflexivity.
    destruct (on_sem f e2) as [y| | |]; cbn; reflexivity.
  - apply andb_prop in Hwf. destruct Hwf as [H1 H2].
    cbn [eval on_sem]. rewrite (IHe1 H1), (IHe2 H2)
      by (intros p Hp; apply Hf; unfold on_cols; cbn [on_cmps]; auto using in_cols_app_l, in_cols_app_r).
    destruct (on_sem f e1) as [x| | |]; cbn; try reflexivity.
    destruct (on_sem f e2) as [y| | |]; cbn; reflexivity.
  - destruct e1; try discriminate. destruct e2; try discriminate.
    destruct (Hf path) as [Hna Ha]; [cbn; auto|]. destruct (Hf path0) as [Hnb Hb]; [cbn; auto|].
    cbn [eval on_sem col_path e_hard on_env e_data value_of reader bind].
    fold (dotted path) (dotted path0).
    unfold scope, obj_get in *. rewrite !lookup_set_other by assumption.
    rewrite Ha, Hb. cbn. destruct (vcompare (f path) (f path0)); reflexivity.
Qed.

(* the specification: ON over the merged row, columns read as paths *)
Lemma eval_on_path data li ri f e cur :
  wf_on li ri e = true ->
  (forall p, In p (on_cols e) -> reader p (VObj (scope cur (VObj data))) = Ok (f p)) ->
  eval (spec_env data) cur e = as_raw (on_sem f e).
Proof.
  induction e; cbn [wf_on]; try discriminate; intros Hwf Hf.
  - apply andb_prop in Hwf. destruct Hwf as [H1 H2].
    cbn [eval on_sem]. rewrite (IHe1 H1), (IHe2 H2)
      by (intros p Hp; apply Hf; unfold on_cols; cbn [on_cmps]; auto using in_cols_app_l, in_cols_app_r).
    destruct (on_sem f e1) as [x| | |]; cbn; try reflexivity.
    destruct (on_sem f e2) as [y| | |]; cbn; reflexivity.
  - apply andb_prop in Hwf. destruct Hwf as [H1 H2].
    cbn [eval on_sem]. rewrite (IHe1 H1), (IHe2 H2)
      by (intros p Hp; apply Hf; unfold on_cols; cbn [on_cmps]; auto using in_cols_app_l, in_cols_app_r).
    destruct (on_sem f e1) as [x| | |]; cbn; try reflexivity.
    destruct (on_sem f e2) as [y| | |]; cbn; reflexivity.
  - destruct e1; try discriminate. destruct e2; try discriminate.
    pose proof (Hf path) as Ha. pose proof (Hf path0) as Hb.
    cbn [eval on_sem col_path e_hard spec_env e_data value_of bind].
    rewrite Ha, Hb by (cbn; auto). cbn. destruct (vcompare (f path) (f path0)); reflexivity.
Qed.

Lemma on_sem_ext f g e :
  (forall op pa pb, In (op, pa, pb) (on_cmps e) -> vcompare (f pa) (f pb) = vcompare (g pa) (g pb)) ->
  on_sem f e = on_sem g e.
Proof.
  induction e; cbn; auto; intros H.
  - rewrite IHe1, IHe2; auto; intros o pa pb Hin; apply (H o); apply in_or_app; auto.
  - rewrite IHe1, IHe2; auto; intros o pa pb Hin; apply (H o); apply in_or_app; auto.
  - destruct e1; auto. destruct e2; auto. rewrite (H op path path0); cbn; auto.
Qed.

Lemma on_sem_ok f e :
  (forall op pa pb, In (op, pa, pb) (on_cmps e) -> exists z, vcompare (f pa) (f pb) = Ok z) ->
  (forall li ri, wf_on li ri e = true -> exists b, on_sem f e = Ok b).
Proof.
  induction e; cbn; intros H li ri Hwf; try discriminate.
  - apply andb_prop in Hwf. destruct Hwf as [H1 H2].
    destruct (IHe1 (fun op pa pb Hin => H op pa pb (in_or_app _ _ _ (or_introl Hin))) li ri H1) as [x ->].
    destruct (IHe2 (fun op pa pb Hin => H op pa pb (in_or_app _ _ _ (or_intror Hin))) li ri H2) as [y ->].
    cbn. eauto.
  - apply andb_prop in Hwf. destruct Hwf as [H1 H2].
    destruct (IHe1 (fun op pa pb Hin => H op pa pb (in_or_app _ _ _ (or_introl Hin))) li ri H1) as [x ->].
    destruct (IHe2 (fun op pa pb Hin => H op pa pb (in_or_app _ _ _ (or_intror Hin))) li ri H2) as [y ->].
    cbn. eauto.
  - destruct e1; try discriminate. destruct e2; try discriminate.
    destruct (H op path path0) as [z ->]; [cbn; auto|]. cbn. eauto.
Qed.

(* ------------------------------------------------------------------ *)
(* Part D: well-formed join inputs                                      *)
(* ------------------------------------------------------------------ *)

(* ProcessAlias: every row of a side is {alias: row} *)
Definition aliased (id : string) (T : list value) : Prop :=
  forall r, In r T -> exists v, r = VObj [(id, v)].

(* the values found in column [p] of table [T] *)
Definition col_val (T : list value) (p : list string) (v : value) : Prop :=
  exists r, In r T /\ reader p r = Ok v.

Record side_ok (T : list value) (cols : list (list string)) : Prop := {
  (* every key column can be read in every row and its value has a %v text inside the model *)
  so_read : forall r p, In r T -> In p cols ->
            exists v, reader p r = Ok v /\ fmt_value (norm_zero v) <> None;
  (* text_faithful: within one key column, the (normalised) %v text determines the value.
     ToCatalog groups rows by text and keeps ONE key map per group; a column holding both the
     number 9 and the string "9" would put them in one group *)
  so_text : forall p v w, In p cols -> col_val T p v -> col_val T p w ->
            fmt_value (norm_zero v) = fmt_value (norm_zero w) -> norm_zero v = norm_zero w }.

(* value of column p for the pair (l, r): the alias at the head of the path selects the side *)
Definition pair_read (li : string) (l r : value) (p : list string) : res value :=
  if hd_is li p then reader p l else reader p r.

Record wf_join (li ri : string) (L R : list value) (on : expr stmt) : Prop := {
  wf_ids : li <> ri /\ li <> "<-"%string /\ ri <> "<-"%string;
  wf_L : aliased li L;
  wf_R : aliased ri R;
  wf_syntax : wf_on li ri on = true;
  (* the key map is indexed by the dotted column name: distinct columns need distinct names *)
  wf_dotted : forall p q, In p (on_cols on) -> In q (on_cols on) -> dotted p = dotted q -> p = q;
  wf_arrow : forall p, In p (on_cols on) -> dotted p <> "<-"%string;
  wf_sideL : side_ok L (map (col_of li) (on_cmps on));
  wf_sideR : side_ok R (map (col_of ri) (on_cmps on));
  (* zero_safe: replacing -0 by 0 in the key maps does not change any comparison of ON
     (true for number-to-number comparisons; false for -0 against a string such as "-5") *)
  wf_zero : forall op pa pb l r a b, In (op, pa, pb) (on_cmps on) -> In l L -> In r R ->
            pair_read li l r pa = Ok a -> pair_read li l r pb = Ok b ->
            vcompare (norm_zero a) (norm_zero b) = vcompare a b }.

Lemma hd_is_excl li ri p : li <> ri -> hd_is li p = true -> hd_is ri p = false.
Proof.
  destruct p as [|x tl]; cbn; [discriminate|]. intros Hne H. apply String.eqb_eq in H. subst x.
  now apply String.eqb_neq.
Qed.

(* every column of ON belongs to exactly one side and is one of that side's key columns *)
Lemma on_cols_side li ri e p :
  li <> ri -> wf_on li ri e = true -> In p (on_cols e) ->
  (hd_is li p = true /\ hd_is ri p = false /\ In p (map (col_of li) (on_cmps e))) \/
  (hd_is ri p = true /\ hd_is li p = false /\ In p (map (col_of ri) (on_cmps e))).
Proof.
  intros Hne Hwf Hin. unfold on_cols in Hin. apply in_flat_map in Hin.
  destruct Hin as ([[op pa] pb] & Hc & Hp).
  destruct (wf_on_cmp _ _ _ _ _ _ Hwf Hc) as [[Ha Hb]|[Ha Hb]];
    pose proof (fun q => hd_is_excl li ri q Hne) as Hx;
    pose proof (fun q => hd_is_excl ri li q (not_eq_sym Hne)) as Hy;
    destruct Hp as [->|[->|[]]].
  - left. repeat split; auto. apply in_map_iff. exists (op, p, pb). split; [cbn; now rewrite Ha|auto].
  - right. repeat split; auto. apply in_map_iff. exists (op, pa, p). split; [cbn; now rewrite (Hx _ Ha)|auto].
  - right. repeat split; auto. apply in_map_iff. exists (op, p, pb). split; [cbn; now rewrite Ha|auto].
  - left. repeat split; auto. apply in_map_iff. exists (op, pa, p). split; [cbn; now rewrite (Hy _ Ha)|auto].
Qed.

Lemma pair_read_sym li ri e l r p :
  li <> ri -> wf_on li ri e = true -> In p (on_cols e) -> pair_read ri r l p = pair_read li l r p.
Proof.
  intros Hne Hwf Hin. unfold pair_read.
  destruct (on_cols_side _ _ _ _ Hne Hwf Hin) as [(-> & -> & _)|(-> & -> & _)]; reflexivity.
Qed.

Lemma cmp_cols_in e op pa pb : In (op, pa, pb) (on_cmps e) -> In pa (on_cols e) /\ In pb (on_cols e).
Proof.
  intros H. unfold on_cols. split; apply in_flat_map; exists (op, pa, pb); cbn; auto.
Qed.

Lemma wf_join_sym li ri L R on : wf_join li ri L R on -> wf_join ri li R L on.
Proof.
  intros [(Hne & Hl & Hr) HL HR Hs Hd Ha HsL HsR Hz]. constructor; auto.
  - now rewrite wf_on_sym.
  - intros op pa pb r l a b Hc Hr' Hl' H1 H2.
    destruct (cmp_cols_in _ _ _ _ Hc) as [Hpa Hpb].
    rewrite (pair_read_sym li ri on l r pa Hne Hs Hpa) in H1.
    rewrite (pair_read_sym li ri on l r pb Hne Hs Hpb) in H2.
    eapply Hz; eauto.
Qed.

(* ---------- reading a row ---------- *)

Definition rd (r : value) (p : list string) : value :=
  match reader p r with Ok v => v | _ => VNull end.

Lemma mapM_pure {X Y} (f : X -> res Y) (g : X -> Y) l :
  (forall x, In x l -> f x = Ok (g x)) -> mapM f l = Ok (map g l).
Proof.
  induction l as [|x l IH]; cbn; intros H; [reflexivity|].
  rewrite (H x) by auto. cbn. rewrite IH by auto. reflexivity.
Qed.

Definition kvals (cols : list (list string)) (r : value) : list value :=
  map (fun p => norm_zero (rd r p)) cols.

Lemma key_vals_ok T cols r : side_ok T cols -> In r T -> key_vals cols r = Ok (kvals cols r).
Proof.
  intros [Hread _] Hr. unfold key_vals, kvals.
  rewrite (mapM_pure _ (rd r)).
  - cbn. now rewrite map_map.
  - intros p Hp. destruct (Hread r p Hr Hp) as (v & Hv & _). unfold rd. now rewrite Hv.
Qed.

Lemma row_key_ok T cols r :
  side_ok T cols -> In r T -> exists k, row_key cols r = Ok (k, key_map cols (kvals cols r)) /\
                                        key_text (kvals cols r) = Ok k.
Proof.
  intros Hs Hr. unfold row_key. rewrite (key_vals_ok T cols r Hs Hr). cbn.
  destruct (key_text_ok (kvals cols r)) as [k Hk].
  - unfold kvals. apply Forall_forall. intros v Hv. apply in_map_iff in Hv.
    destruct Hv as (p & <- & Hp). destruct Hs as [Hread _].
    destruct (Hread r p Hr Hp) as (v & Hv & Hf). unfold rd. now rewrite Hv.
  - exists k. rewrite Hk. cbn. auto.
Qed.

(* ---------- the key map ---------- *)

Lemma combine_map_r {X Y} (F : X -> Y) l : combine l (map F l) = map (fun x => (x, F x)) l.
Proof. induction l as [|x l IH]; cbn; [reflexivity|now rewrite IH]. Qed.

Definition km_step (acc : row) (pv : list string * value) : row :=
  obj_set (dotted (fst pv)) (snd pv) acc.

Lemma km_fold_In F cols acc d v :
  In (d, v) (fold_left km_step (map (fun p => (p, F p)) cols) acc) ->
  In (d, v) acc \/ exists p, In p cols /\ d = dotted p /\ v = F p.
Proof.
  revert acc. induction cols as [|c cs IH]; intros acc; cbn; [auto|].
  intros H. destruct (IH _ H) as [H1|(p & Hp & Hd & Hv)].
  - unfold km_step in H1. cbn in H1. destruct (In_obj_set _ _ _ _ _ H1) as [[-> ->]|H2]; [|auto].
    right. exists c. auto.
  - right. exists p. auto.
Qed.

Lemma km_fold_keep F cols acc d :
  lookup d acc <> None -> lookup d (fold_left km_step (map (fun p => (p, F p)) cols) acc) <> None.
Proof.
  revert acc. induction cols as [|c cs IH]; intros acc H; cbn; [exact H|].
  apply IH. unfold km_step. cbn.
  destruct (String.eqb d (dotted c)) eqn:E.
  - apply String.eqb_eq in E. subst. rewrite lookup_set_same. discriminate.
  - apply String.eqb_neq in E. now rewrite lookup_set_other.
Qed.

Lemma km_fold_has F cols acc p :
  In p cols -> lookup (dotted p) (fold_left km_step (map (fun p => (p, F p)) cols) acc) <> None.
Proof.
  revert acc. induction cols as [|c cs IH]; intros acc; cbn; [tauto|].
  intros [->|Hin]; [|now apply IH].
  apply km_fold_keep. unfold km_step. cbn. rewrite lookup_set_same. discriminate.
Qed.

Lemma key_map_kvals cols r :
  key_map cols (kvals cols r) =
  fold_left km_step (map (fun p => (p, norm_zero (rd r p))) cols) [].
Proof. unfold key_map, kvals. now rewrite combine_map_r. Qed.

Lemma key_map_In cols r d v :
  In (d, v) (key_map cols (kvals cols r)) -> exists p, In p cols /\ d = dotted p /\ v = norm_zero (rd r p).
Proof.
  rewrite key_map_kvals. intros H. destruct (km_fold_In _ _ _ _ _ H) as [[]|H']. exact H'.
Qed.

Lemma key_map_has cols r p : In p cols -> lookup (dotted p) (key_map cols (kvals cols r)) <> None.
Proof. rewrite key_map_kvals. apply km_fold_has. Qed.

(* ---------- one pair of rows ---------- *)

Definition fraw (li : string) (l r : value) (p : list string) : value :=
  if hd_is li p then rd l p else rd r p.
Definition fnz (li : string) (l r : value) (p : list string) : value := norm_zero (fraw li l r p).

Lemma reader_cons_obj k rest kvs : reader (k :: rest) (VObj kvs) = reader rest (obj_get k kvs).
Proof. reflexivity. Qed.

Section Pair.
  Variables (li ri : string) (L R : list value) (on : expr stmt) (data : row).
  Hypothesis WF : wf_join li ri L R on.

  Let lcols := map (col_of li) (on_cmps on).
  Let rcols := map (col_of ri) (on_cmps on).

  Lemma wf_ne : li <> ri. Proof. now destruct WF as [(H & _ & _) _ _ _ _ _ _ _ _]. Qed.

  Lemma fraw_read l r p v : pair_read li l r p = Ok v -> fraw li l r p = v.
  Proof. unfold pair_read, fraw, rd. destruct (hd_is li p); now intros ->. Qed.

  Lemma pair_read_ok l r p : In l L -> In r R -> In p (on_cols on) ->
    pair_read li l r p = Ok (fraw li l r p) /\ fmt_value (fnz li l r p) <> None.
  Proof.
    intros Hl Hr Hp. pose proof wf_ne as Hne.
    destruct WF as [_ _ _ Hs _ _ [HrL _] [HrR _] _].
    unfold pair_read, fnz, fraw, rd.
    destruct (on_cols_side _ _ _ _ Hne Hs Hp) as [(-> & _ & Hin)|(_ & -> & Hin)].
    - destruct (HrL l p Hl Hin) as (v & -> & Hf). auto.
    - destruct (HrR r p Hr Hin) as (v & -> & Hf). auto.
  Qed.

  (* the merged row {li: .., ri: ..} read through a path = the side's own row read through it *)
  Lemma merged_read l r p : In l L -> In r R -> In p (on_cols on) ->
    reader p (VObj (scope (obj_merge (obj_merge [] (match l with VObj kv => kv | _ => [] end))
                                     (match r with VObj kv => kv | _ => [] end)) (VObj data)))
    = Ok (fraw li l r p).
  Proof.
    intros Hl Hr Hp. destruct (pair_read_ok l r p Hl Hr Hp) as [Hpr _]. rewrite <- Hpr.
    pose proof wf_ne as Hne.
    destruct WF as [(_ & Hla & Hra) HL HR Hs _ _ _ _ _].
    destruct (HL l Hl) as [lv ->]. destruct (HR r Hr) as [rv ->].
    unfold pair_read.
    destruct (on_cols_side _ _ _ _ Hne Hs Hp) as [(Hh & _ & _)|(Hh & Hh' & _)].
    - rewrite Hh. destruct p as [|x tl]; [discriminate|]. cbn in Hh. apply String.eqb_eq in Hh. subst x.
      rewrite !reader_cons_obj. f_equal. unfold scope, obj_get, obj_merge. cbn [fold_left fst snd].
      rewrite lookup_set_other by exact Hla. rewrite lookup_set_other by exact Hne.
      rewrite lookup_set_same. cbn. now rewrite String.eqb_refl.
    - rewrite Hh'. destruct p as [|x tl]; [discriminate|]. cbn in Hh. apply String.eqb_eq in Hh. subst x.
      rewrite !reader_cons_obj. f_equal. unfold scope, obj_get, obj_merge. cbn [fold_left fst snd].
      rewrite lookup_set_other by exact Hra. rewrite lookup_set_same. cbn. now rewrite String.eqb_refl.
  Qed.

  Lemma zero_safe_sem l r : In l L -> In r R -> on_sem (fnz li l r) on = on_sem (fraw li l r) on.
  Proof.
    intros Hl Hr. apply on_sem_ext. intros op pa pb Hc.
    destruct (cmp_cols_in _ _ _ _ Hc) as [Hpa Hpb].
    destruct (pair_read_ok l r pa Hl Hr Hpa) as [Ha _]. destruct (pair_read_ok l r pb Hl Hr Hpb) as [Hb _].
    destruct WF as [_ _ _ _ _ _ _ _ Hz]. unfold fnz. eapply Hz; eauto.
  Qed.

  Lemma vcompare_printable a b : fmt_value a <> None -> fmt_value b <> None -> exists z, vcompare a b = Ok z.
  Proof.
    intros Ha Hb. unfold vcompare.
    destruct (fmt_value a) as [s|]; [|congruence]. destruct (fmt_value b) as [t|]; [|congruence].
    destruct a; eauto; destruct b; eauto.
  Qed.

  Lemma on_sem_total l r : In l L -> In r R -> exists b, on_sem (fraw li l r) on = Ok b.
  Proof.
    intros Hl Hr. rewrite <- zero_safe_sem by assumption.
    destruct WF as [_ _ _ Hs _ _ _ _ _]. apply (on_sem_ok _ _) with (li := li) (ri := ri); [|exact Hs].
    intros op pa pb Hc. destruct (cmp_cols_in _ _ _ _ Hc) as [Hpa Hpb].
    apply vcompare_printable; now apply pair_read_ok.
  Qed.

  Definition holdsp (l r : value) : bool :=
    match on_sem (fraw li l r) on with Ok b => b | _ => false end.

  (* the specification's test of one pair *)
  Lemma on_holds_pure l r : In l L -> In r R -> on_holds data on l r = Ok (holdsp l r).
  Proof.
    intros Hl Hr. unfold on_holds, holdsp.
    pose proof (merged_read l r) as Hm. specialize (fun p => Hm p Hl Hr).
    destruct WF as [_ HL HR Hs _ _ _ _ _].
    destruct (HL l Hl) as [lv El]. destruct (HR r Hr) as [rv Er]. subst l r.
    cbn [merge_rows as_row bind]. cbn [as_row bind] in *.
    rewrite (eval_on_path data li ri (fraw li (VObj [(li, lv)]) (VObj [(ri, rv)])) on _ Hs Hm).
    destruct (on_sem_total _ _ Hl Hr) as [b ->]. reflexivity.
  Qed.

  (* JoinMatchFunc's test of one pair of key maps *)
  Lemma merged_keys_read l r p : In l L -> In r R -> In p (on_cols on) ->
    dotted p <> "<-"%string /\
    obj_get (dotted p) (obj_merge (obj_merge [] (key_map lcols (kvals lcols l)))
                                  (key_map rcols (kvals rcols r))) = fnz li l r p.
  Proof.
    intros Hl Hr Hp. pose proof wf_ne as Hne.
    destruct WF as [_ _ _ Hs Hd Ha _ _ _]. split; [now apply Ha|].
    unfold obj_get, fnz, fraw.
    assert (Hcols : forall id q, In q (map (col_of id) (on_cmps on)) -> In q (on_cols on)).
    { intros id q Hq. apply in_map_iff in Hq. destruct Hq as (c & <- & Hc). now apply col_of_in_cols. }
    destruct (on_cols_side _ _ _ _ Hne Hs Hp) as [(Hh & Hh' & Hin)|(Hh & Hh' & Hin)].
    - (* a left column: absent from the right key map *)
      rewrite Hh.
      rewrite lookup_merge_notin.
      2:{ intros v Hv. destruct (key_map_In _ _ _ _ Hv) as (q & Hq & Hdq & _).
          assert (q = p) by (symmetry; apply Hd; auto; eapply Hcols; eauto). subst q.
          apply in_map_iff in Hq. destruct Hq as ([[op pa] pb] & Hq & Hc). cbn in Hq.
          destruct (wf_on_cmp _ _ _ _ _ _ Hs Hc) as [[H1 H2]|[H1 H2]].
          - rewrite (hd_is_excl _ _ _ Hne H1) in Hq. subst pb. congruence.
          - rewrite H1 in Hq. subst pa. congruence. }
      destruct (lookup (dotted p) (key_map lcols (kvals lcols l))) as [v0|] eqn:E0;
        [|exfalso; now apply (key_map_has lcols l p Hin)].
      destruct (lookup_merge_in _ [] _ _ E0) as (v & Hv & ->).
      destruct (key_map_In _ _ _ _ Hv) as (q & Hq & Hdq & ->).
      assert (q = p) by (symmetry; apply Hd; auto; eapply Hcols; eauto). now subst q.
    - rewrite Hh'.
      destruct (lookup (dotted p) (key_map rcols (kvals rcols r))) as [v0|] eqn:E0;
        [|exfalso; now apply (key_map_has rcols r p Hin)].
      destruct (lookup_merge_in _ (obj_merge [] (key_map lcols (kvals lcols l))) _ _ E0) as (v & Hv & ->).
      destruct (key_map_In _ _ _ _ Hv) as (q & Hq & Hdq & ->).
      assert (q = p) by (symmetry; apply Hd; auto; eapply Hcols; eauto). now subst q.
  Qed.

  Lemma eval_keys_pure l r : In l L -> In r R ->
    eval (on_env data) (obj_merge (obj_merge [] (key_map lcols (kvals lcols l)))
                                  (key_map rcols (kvals rcols r))) on
    = Ok (RVal (VBool (holdsp l r))).
  Proof.
    intros Hl Hr. pose proof (merged_keys_read l r) as Hm. specialize (fun p => Hm p Hl Hr).
    destruct WF as [_ _ _ Hs _ _ _ _ _].
    rewrite (eval_on_hard data li ri (fnz li l r) on _ Hs Hm).
    rewrite zero_safe_sem by assumption. unfold holdsp.
    destruct (on_sem_total _ _ Hl Hr) as [b ->]. reflexivity.
  Qed.
End Pair.

(* ------------------------------------------------------------------ *)
(* Part E: nested loop = specification                                  *)
(* ------------------------------------------------------------------ *)

(* ---------- multiset algebra of flat_map ---------- *)

Lemma flat_map_perm_ext {X Y} (f g : X -> list Y) l :
  (forall x, In x l -> Permutation (f x) (g x)) -> Permutation (flat_map f l) (flat_map g l).
Proof.
  induction l as [|x l IH]; cbn; intros H; [constructor|].
  apply Permutation_app; [apply H; now left|apply IH; intros; apply H; now right].
Qed.

Lemma flat_map_app_perm {X Y} (f g : X -> list Y) l :
  Permutation (flat_map (fun x => f x ++ g x) l) (flat_map f l ++ flat_map g l).
Proof.
  induction l as [|x l IH]; cbn; [constructor|].
  rewrite <- !app_assoc. apply Permutation_app_head.
  etransitivity; [apply Permutation_app_head, IH|].
  apply Permutation_app_swap_app.
Qed.

Lemma flat_map_nil_fn {X Y} (l : list X) : flat_map (fun _ => @nil Y) l = [].
Proof. induction l; cbn; auto. Qed.

(* the two nested loops can be exchanged *)
Lemma flat_map_swap {X Y Z} (F : X -> Y -> list Z) xs ys :
  Permutation (flat_map (fun y => flat_map (fun x => F x y) xs) ys)
              (flat_map (fun x => flat_map (fun y => F x y) ys) xs).
Proof.
  induction ys as [|y ys IH]; cbn.
  - now rewrite flat_map_nil_fn.
  - etransitivity; [apply Permutation_app_head, IH|]. symmetry. apply flat_map_app_perm.
Qed.

Lemma filter_perm {X} (p : X -> bool) l l' : Permutation l l' -> Permutation (filter p l) (filter p l').
Proof.
  induction 1; cbn.
  - constructor.
  - destruct (p x); [now constructor|assumption].
  - destruct (p x), (p y); try reflexivity. constructor.
  - etransitivity; eauto.
Qed.

Lemma filter_flat_map {X Y} (p : Y -> bool) (f : X -> list Y) l :
  filter p (flat_map f l) = flat_map (fun x => filter p (f x)) l.
Proof. induction l as [|x l IH]; cbn; [reflexivity|]. now rewrite filter_app, IH. Qed.

Lemma flat_map_flat_map {X Y Z} (f : Y -> list Z) (g : X -> list Y) l :
  flat_map f (flat_map g l) = flat_map (fun x => flat_map f (g x)) l.
Proof. induction l as [|x l IH]; cbn; [reflexivity|]. now rewrite flat_map_app, IH. Qed.

Lemma map_flat_map {X Y Z} (f : Y -> Z) (g : X -> list Y) l :
  map f (flat_map g l) = flat_map (fun x => map f (g x)) l.
Proof. induction l as [|x l IH]; cbn; [reflexivity|]. now rewrite map_app, IH. Qed.

Lemma flat_map_ext_in {X Y} (f g : X -> list Y) l :
  (forall x, In x l -> f x = g x) -> flat_map f l = flat_map g l.
Proof.
  induction l as [|x l IH]; cbn; intros H; [reflexivity|].
  rewrite (H x) by auto. rewrite IH by auto. reflexivity.
Qed.

Lemma filter_all {X} (p : X -> bool) l b :
  (forall x, In x l -> p x = b) -> filter p l = if b then l else [].
Proof.
  induction l as [|x l IH]; cbn; intros H; [now destruct b|].
  rewrite (H x) by auto. rewrite IH by auto. now destruct b.
Qed.

Lemma concat_map_flat {X Y} (f : X -> list Y) l : List.concat (map f l) = flat_map f l.
Proof. symmetry. apply flat_map_concat_map. Qed.

(* ---------- pure versions of the row constructors ---------- *)

Definition is_objv (v : value) : Prop := match v with VObj _ => True | _ => False end.
Definition rowof (v : value) : row := match v with VObj kv => kv | _ => [] end.
Definition mergep (l r : value) : value := VObj (obj_merge (obj_merge [] (rowof l)) (rowof r)).
Definition nullp (rid : string) (l : value) : value :=
  VObj (obj_set rid VNull (obj_merge [] (rowof l))).
Definition pairsp (ls rs : list value) : list value := flat_map (fun l => map (mergep l) rs) ls.

Lemma merge_rows_pure l r : is_objv l -> is_objv r -> merge_rows l r = Ok (mergep l r).
Proof. destruct l; try easy. destruct r; easy. Qed.

Lemma with_null_pure rid l : is_objv l -> with_null l rid = Ok (nullp rid l).
Proof. destruct l; easy. Qed.

Lemma pairs_pure ls rs :
  (forall l, In l ls -> is_objv l) -> (forall r, In r rs -> is_objv r) ->
  pairs ls rs = Ok (pairsp ls rs).
Proof.
  intros Hl Hr. unfold pairs, pairsp.
  rewrite (mapM_pure _ (fun l => map (mergep l) rs)).
  - cbn. now rewrite concat_map_flat.
  - intros l Hin. apply mapM_pure. intros r Hin'. apply merge_rows_pure; auto.
Qed.

Lemma pairsp_nil_r ls : pairsp ls [] = [].
Proof. unfold pairsp. cbn. apply flat_map_nil_fn. Qed.

Lemma pairsp_nonempty ls rs : ls <> [] -> rs <> [] -> pairsp ls rs <> [].
Proof. destruct ls as [|l ls]; [easy|]. destruct rs as [|r rs]; [easy|]. discriminate. Qed.

(* ---------- the specification, purely ---------- *)

Section SpecPure.
  Variables (data : row) (on : expr stmt) (rid : string) (L R : list value) (holds : value -> value -> bool).
  Hypothesis HL : forall l, In l L -> is_objv l.
  Hypothesis HR : forall r, In r R -> is_objv r.
  Hypothesis Hholds : forall l r, In l L -> In r R -> on_holds data on l r = Ok (holds l r).

  Lemma partners_pure l R' : In l L -> incl R' R -> partners data on l R' = Ok (filter (holds l) R').
  Proof.
    intros Hl. induction R' as [|r R' IH]; intros Hinc; cbn; [reflexivity|].
    rewrite Hholds by (auto; apply Hinc; now left). cbn.
    rewrite IH by (intros x Hx; apply Hinc; now right). cbn. reflexivity.
  Qed.

  Definition gspec (outer : bool) (l : value) : list value :=
    match filter (holds l) R with
    | [] => if outer then [nullp rid l] else []
    | ps => map (mergep l) ps
    end.

  Lemma left_join_pure outer L' : incl L' L ->
    left_join data on outer rid L' R = Ok (flat_map (gspec outer) L').
  Proof.
    induction L' as [|l L' IH]; intros Hinc; cbn; [reflexivity|].
    assert (Hl : In l L) by (apply Hinc; now left).
    rewrite (partners_pure l R Hl (incl_refl R)). cbn [bind].
    rewrite IH by (intros x Hx; apply Hinc; now right).
    unfold gspec. destruct (filter (holds l) R) as [|p ps] eqn:Ef.
    - destruct outer; cbn; [|reflexivity]. rewrite with_null_pure by auto. reflexivity.
    - rewrite (mapM_pure _ (mergep l)).
      + reflexivity.
      + intros r Hr. apply merge_rows_pure; [auto|]. apply HR.
        assert (In r (filter (holds l) R)) by (rewrite Ef; exact Hr).
        now apply filter_In in H.
  Qed.
End SpecPure.

(* ---------- the nested loop over two catalogs, purely ---------- *)

Section LoopPure.
  Variables (li ri : string) (L R : list value) (on : expr stmt) (data : row).
  Hypothesis WF : wf_join li ri L R on.

  Let lcols := map (col_of li) (on_cmps on).
  Let rcols := map (col_of ri) (on_cmps on).
  Variables (lcat rcat : list centry).
  Hypothesis HLC : catalog_inv lcols L lcat.
  Hypothesis HRC : catalog_inv rcols R rcat.

  Lemma objL l : In l L -> is_objv l.
  Proof. intros H. destruct WF as [_ HL _ _ _ _ _ _ _]. destruct (HL l H) as [v ->]. exact I. Qed.
  Lemma objR r : In r R -> is_objv r.
  Proof. intros H. destruct WF as [_ _ HR _ _ _ _ _ _]. destruct (HR r H) as [v ->]. exact I. Qed.

  Lemma cat_rows_in T cols cat e r : catalog_inv cols T cat -> In e cat -> In r (crows e) -> In r T.
  Proof.
    intros [_ _ _ Hp] He Hr. eapply Permutation_in; [exact Hp|].
    apply in_concat. exists (crows e). split; [now apply in_map|exact Hr].
  Qed.

  (* all rows of a group carry the same normalised key values, hence the group's key map is
     the key map of each of them: this is where text_faithful and key_text_faithful are used *)
  Lemma kvals_eq T cols r r0 :
    side_ok T cols -> In r T -> In r0 T ->
    map fmt_value (kvals cols r) = map fmt_value (kvals cols r0) -> kvals cols r = kvals cols r0.
  Proof.
    intros [Hread Htext] Hr Hr0. unfold kvals.
    assert (G : forall cs, incl cs cols ->
              map fmt_value (map (fun p => norm_zero (rd r p)) cs) =
              map fmt_value (map (fun p => norm_zero (rd r0 p)) cs) ->
              map (fun p => norm_zero (rd r p)) cs = map (fun p => norm_zero (rd r0 p)) cs);
      [|apply G, incl_refl].
    induction cs as [|p cs IH]; intros Hsub; cbn; [reflexivity|].
    intros [= H1 H2]. f_equal; [|apply IH; auto; intros x Hx; apply Hsub; now right].
    assert (Hp : In p cols) by (apply Hsub; now left).
    destruct (Hread r p Hr Hp) as (v & Hv & _). destruct (Hread r0 p Hr0 Hp) as (w & Hw & _).
    unfold rd in *. rewrite Hv, Hw in *. apply (Htext p v w Hp); [exists r|exists r0|]; auto.
  Qed.

  Lemma group_key_map T cols cat e r :
    side_ok T cols -> catalog_inv cols T cat -> In e cat -> In r (crows e) ->
    ckmap e = key_map cols (kvals cols r) /\ key_text (kvals cols r) = Ok (fst e).
  Proof.
    intros Hs Hc He Hr. pose proof Hc as [[Hrk Hgk] _ _ _].
    destruct (Hgk e He) as (r0 & Hr0 & Hk0).
    destruct (Hrk e r He Hr) as (km & Hk).
    pose proof (cat_rows_in _ _ _ _ _ Hc He Hr) as HrT.
    pose proof (cat_rows_in _ _ _ _ _ Hc He Hr0) as Hr0T.
    destruct (row_key_ok _ _ _ Hs HrT) as (k & Hk' & Hkt). rewrite Hk in Hk'.
    injection Hk' as E1 E2. subst k km.
    destruct (row_key_ok _ _ _ Hs Hr0T) as (k0 & Hk0' & Hkt0). rewrite Hk0 in Hk0'.
    injection Hk0' as E1 Hkm. subst k0.
    rewrite Hkm. split; [|exact Hkt].
    f_equal. symmetry. apply (kvals_eq T); auto.
    now apply (key_text_faithful_strong _ _ (fst e)).
  Qed.

  (* does left group [le] pair with right group [re]?  decided on any representatives *)
  Definition bm (le re : centry) : bool :=
    match crows le, crows re with
    | l :: _, r :: _ => holdsp li on l r
    | _, _ => false
    end.

  Lemma bm_rows le re l r :
    In le lcat -> In re rcat -> In l (crows le) -> In r (crows re) -> holdsp li on l r = bm le re.
  Proof.
    intros Hle Hre Hl Hr. unfold bm.
    destruct (crows le) as [|l0 ls] eqn:El; [destruct Hl|].
    destruct (crows re) as [|r0 rs] eqn:Er; [destruct Hr|].
    assert (Hl0 : In l0 (crows le)) by (rewrite El; now left).
    assert (Hr0 : In r0 (crows re)) by (rewrite Er; now left).
    rewrite <- El in Hl. rewrite <- Er in Hr.
    destruct WF as [_ _ _ _ _ _ HsL HsR _].
    destruct (group_key_map _ _ _ _ _ HsL HLC Hle Hl) as [K1 _].
    destruct (group_key_map _ _ _ _ _ HsL HLC Hle Hl0) as [K2 _].
    destruct (group_key_map _ _ _ _ _ HsR HRC Hre Hr) as [K3 _].
    destruct (group_key_map _ _ _ _ _ HsR HRC Hre Hr0) as [K4 _].
    pose proof (eval_keys_pure li ri L R on data WF l r
                  (cat_rows_in _ _ _ _ _ HLC Hle Hl) (cat_rows_in _ _ _ _ _ HRC Hre Hr)) as E1.
    pose proof (eval_keys_pure li ri L R on data WF l0 r0
                  (cat_rows_in _ _ _ _ _ HLC Hle Hl0) (cat_rows_in _ _ _ _ _ HRC Hre Hr0)) as E2.
    cbv zeta in E1, E2. unfold lcols, rcols in K1, K2, K3, K4.
    rewrite <- K1, <- K3 in E1. rewrite <- K2, <- K4 in E2.
    rewrite E1 in E2. now injection E2.
  Qed.

  Lemma eval_group le re :
    In le lcat -> In re rcat ->
    eval (on_env data) (obj_merge (obj_merge [] (ckmap le)) (ckmap re)) on = Ok (RVal (VBool (bm le re))).
  Proof.
    intros Hle Hre.
    destruct HLC as [_ _ HneL _]. destruct HRC as [_ _ HneR _].
    rewrite Forall_forall in HneL, HneR. pose proof (HneL le Hle) as H1. pose proof (HneR re Hre) as H2.
    destruct (crows le) as [|l ls] eqn:El; [congruence|]. destruct (crows re) as [|r rs] eqn:Er; [congruence|].
    assert (Hl : In l (crows le)) by (rewrite El; now left).
    assert (Hr : In r (crows re)) by (rewrite Er; now left).
    rewrite <- (bm_rows le re l r Hle Hre Hl Hr).
    destruct WF as [_ _ _ _ _ _ HsL HsR _].
    destruct (group_key_map _ _ _ _ _ HsL HLC Hle Hl) as [-> _].
    destruct (group_key_map _ _ _ _ _ HsR HRC Hre Hr) as [-> _].
    apply (eval_keys_pure li ri L R on data WF);
      [apply (cat_rows_in _ _ _ _ _ HLC Hle Hl)|apply (cat_rows_in _ _ _ _ _ HRC Hre Hr)].
  Qed.

  Definition loopp (inner : bool) (le : centry) : list value :=
    match flat_map (fun re => if bm le re then pairsp (crows le) (crows re) else []) rcat with
    | [] => if inner then [] else map (nullp ri) (crows le)
    | out => out
    end.

  Lemma loop_match_pure inner le : In le lcat ->
    loop_match data inner ri on le rcat = Ok (loopp inner le).
  Proof.
    intros Hle. unfold loop_match, loopp.
    assert (Hlobj : forall l, In l (crows le) -> is_objv l).
    { intros l Hl. apply objL. eapply cat_rows_in; eauto. }
    destruct le as [k [lkeys lrows]] eqn:Ele.
    rewrite (mapM_pure _ (fun re => if bm le re then pairsp (crows le) (crows re) else [])).
    - cbn [bind]. rewrite concat_map_flat. subst le. cbn [crows snd].
      destruct (flat_map _ rcat); [|reflexivity].
      destruct inner; [reflexivity|]. apply mapM_pure. intros l Hl. apply with_null_pure. now apply Hlobj.
    - intros [k' [rkeys rrows]] Hre.
      pose proof (eval_group le (k', (rkeys, rrows))) as Hev. subst le. cbn [ckmap fst snd] in Hev.
      rewrite Hev by assumption. cbn [bind].
      destruct (bm _ _); [|reflexivity]. apply pairs_pure; [exact Hlobj|].
      intros r Hr. apply objR. eapply cat_rows_in; eauto.
  Qed.

  (* the right rows that pair with (any row of) left group [le] *)
  Definition partners_of (le : centry) : list value :=
    flat_map (fun re => if bm le re then crows re else []) rcat.

  Lemma filter_partners le l : In le lcat -> In l (crows le) ->
    Permutation (filter (holdsp li on l) R) (partners_of le).
  Proof.
    intros Hle Hl. destruct HRC as [_ _ _ Hp].
    etransitivity; [apply filter_perm; symmetry; exact Hp|].
    rewrite concat_map_flat, filter_flat_map. unfold partners_of.
    rewrite (flat_map_ext_in _ (fun re => if bm le re then crows re else [])); [reflexivity|].
    intros re Hre. apply filter_all. intros r Hr. now apply bm_rows.
  Qed.

  Lemma loopp_spec inner le : In le lcat ->
    Permutation (loopp inner le) (flat_map (gspec ri R (holdsp li on) (negb inner)) (crows le)).
  Proof.
    intros Hle. unfold loopp.
    set (P := partners_of le).
    (* the specification on this group, with the partners listed group by group *)
    assert (Hspec : Permutation (flat_map (gspec ri R (holdsp li on) (negb inner)) (crows le))
                      (flat_map (fun l => match P with
                                          | [] => if negb inner then [nullp ri l] else []
                                          | _ => map (mergep l) P end) (crows le))).
    { apply flat_map_perm_ext. intros l Hl. unfold gspec.
      pose proof (filter_partners le l Hle Hl) as Hf. fold P in Hf.
      destruct (filter (holdsp li on l) R) as [|x xs] eqn:Ef.
      - apply Permutation_nil in Hf. now rewrite Hf.
      - destruct P as [|y ys]; [symmetry in Hf; now apply Permutation_nil in Hf|].
        now apply Permutation_map. }
    (* the model: loops exchanged *)
    assert (Hout : Permutation
              (flat_map (fun re => if bm le re then pairsp (crows le) (crows re) else []) rcat)
              (flat_map (fun l => map (mergep l) P) (crows le))).
    { rewrite (flat_map_ext_in _ (fun re => flat_map (fun l => map (mergep l) (if bm le re then crows re else [])) (crows le))).
      2:{ intros re _. destruct (bm le re); [reflexivity|]. cbn. now rewrite flat_map_nil_fn. }
      etransitivity; [apply flat_map_swap|].
      apply flat_map_perm_ext. intros l _. unfold P, partners_of. now rewrite map_flat_map. }
    destruct HLC as [_ _ Hne _]. rewrite Forall_forall in Hne. specialize (Hne le Hle).
    destruct P as [|y ys] eqn:EP.
    - (* no partner *)
      rewrite (flat_map_ext_in (fun l => map (mergep l) []) (fun _ => [])) in Hout by reflexivity.
      rewrite flat_map_nil_fn in Hout. apply Permutation_sym, Permutation_nil in Hout. rewrite Hout.
      etransitivity; [|symmetry; exact Hspec].
      destruct inner; cbn.
      + now rewrite flat_map_nil_fn.
      + clear. induction (crows le); cbn; auto.
    - etransitivity; [|symmetry; exact Hspec].
      destruct (flat_map (fun re => if bm le re then pairsp (crows le) (crows re) else []) rcat) as [|o os] eqn:Eo.
      + exfalso. apply Permutation_nil in Hout.
        destruct (crows le) as [|l ls]; [congruence|]. cbn in Hout. discriminate.
      + exact Hout.
  Qed.

  Theorem loop_core_spec inner :
    exists out,
      mapM (fun le => loop_match data inner ri on le rcat) lcat = Ok out /\
      left_join data on (negb inner) ri L R = Ok (flat_map (gspec ri R (holdsp li on) (negb inner)) L) /\
      Permutation (List.concat out) (flat_map (gspec ri R (holdsp li on) (negb inner)) L).
  Proof.
    exists (map (loopp inner) lcat). split; [|split].
    - apply mapM_pure. intros le Hle. now apply loop_match_pure.
    - apply (left_join_pure data on ri L R (holdsp li on) objL objR);
        [intros l r Hl Hr; now apply (on_holds_pure li ri L R on data WF)|apply incl_refl].
    - rewrite concat_map_flat.
      etransitivity; [apply flat_map_perm_ext; intros le Hle; now apply loopp_spec|].
      rewrite <- flat_map_flat_map. apply Permutation_flat_map.
      destruct HLC as [_ _ _ Hp]. now rewrite <- concat_map_flat.
  Qed.
End LoopPure.

(* ------------------------------------------------------------------ *)
(* Part F: hash path = nested loop, for a conjunction of equalities     *)
(* ------------------------------------------------------------------ *)

(* hash_faithful: for the key values that meet in a comparison of ON, "compare = 0" and "same
   %v text" (after -0 -> 0) coincide.  True by definition unless both are numbers; for two numbers
   it says that the printed text identifies the double (and excludes NaN, which prints as "NaN"
   but is not equal to itself) *)
Definition hash_faithful (li : string) (L R : list value) (on : expr stmt) : Prop :=
  forall op pa pb l r a b, In (op, pa, pb) (on_cmps on) -> In l L -> In r R ->
    pair_read li l r pa = Ok a -> pair_read li l r pb = Ok b ->
    (vcompare (norm_zero a) (norm_zero b) = Ok 0%Z <->
     fmt_value (norm_zero a) = fmt_value (norm_zero b)).

Lemma hash_sem f e :
  hash_join_analyze e = true ->
  forall b, on_sem f e = Ok b ->
  (b = true <-> forall op pa pb, In (op, pa, pb) (on_cmps e) -> vcompare (f pa) (f pb) = Ok 0%Z).
Proof.
  induction e; cbn; try discriminate; intros Hh b Hb.
  - apply andb_prop in Hh. destruct Hh as [H1 H2].
    destruct (on_sem f e1) as [x| | |] eqn:E1; cbn in Hb; try discriminate.
    destruct (on_sem f e2) as [y| | |] eqn:E2; cbn in Hb; try discriminate.
    injection Hb as <-. rewrite andb_true_iff, (IHe1 H1 x eq_refl), (IHe2 H2 y eq_refl). split.
    + intros [Ha Hb] op pa pb Hin. apply in_app_or in Hin. destruct Hin; eauto.
    + intros H. split; intros op pa pb Hin; apply (H op); apply in_or_app; auto.
  - destruct op; try discriminate. destruct e1; try discriminate. destruct e2; try discriminate.
    destruct (vcompare (f path) (f path0)) as [z| | |] eqn:Ez; cbn in Hb; try discriminate.
    injection Hb as <-. cbn. split.
    + intros Hz op pa pb [[= <- <- <-]|[]]. apply Z.eqb_eq in Hz. now subst.
    + intros H. specialize (H OpEq path path0 (or_introl eq_refl)). rewrite Ez in H.
      injection H as ->. reflexivity.
Qed.

Lemma flat_map_find {Y} k (G : list value -> list Y) c :
  NoDup (ckeys c) ->
  flat_map (fun re => if String.eqb k (fst re) then G (crows re) else []) c =
  match cat_find k c with Some (_, rs) => G rs | None => [] end.
Proof.
  unfold cat_find. induction c as [|e c IH]; cbn; intros Hn; [reflexivity|].
  inversion Hn as [|? ? Hni Hn']; subst. rewrite (String.eqb_sym (fst e) k).
  destruct (String.eqb k (fst e)) eqn:E.
  - apply String.eqb_eq in E. subst k. destruct e as [k' [km rs]]. cbn.
    rewrite (flat_map_ext_in _ (fun _ => [])), flat_map_nil_fn, app_nil_r; [reflexivity|].
    intros re Hre. destruct (String.eqb k' (fst re)) eqn:E'; [|reflexivity].
    apply String.eqb_eq in E'. exfalso. apply Hni. cbn. rewrite E'. now apply in_map.
  - rewrite IH by assumption. reflexivity.
Qed.

Lemma cat_find_in k c x : cat_find k c = Some x -> In (k, x) c.
Proof.
  unfold cat_find. destruct (find (fun e => String.eqb (fst e) k) c) as [e|] eqn:E; [|discriminate]. intros [= <-].
  apply find_some in E. destruct E as [Hin He]. apply String.eqb_eq in He. subst k.
  now destruct e.
Qed.

Lemma mapM_ext_in {X Y} (f g : X -> res Y) l : (forall x, In x l -> f x = g x) -> mapM f l = mapM g l.
Proof.
  induction l as [|x l IH]; cbn; intros H; [reflexivity|].
  rewrite (H x) by auto. rewrite IH by auto. reflexivity.
Qed.

Section HashPure.
  Variables (li ri : string) (L R : list value) (on : expr stmt) (data : row).
  Hypothesis WF : wf_join li ri L R on.
  Hypothesis HF : hash_faithful li L R on.
  Hypothesis HA : hash_join_analyze on = true.

  Let lcols := map (col_of li) (on_cmps on).
  Let rcols := map (col_of ri) (on_cmps on).
  Variables (lcat rcat : list centry).
  Hypothesis HLC : catalog_inv lcols L lcat.
  Hypothesis HRC : catalog_inv rcols R rcat.

  (* text keys agree <-> the pair satisfies every equality of ON *)
  Lemma holds_iff_texts l r : In l L -> In r R ->
    (holdsp li on l r = true <-> map fmt_value (kvals lcols l) = map fmt_value (kvals rcols r)).
  Proof.
    intros Hl Hr. pose proof (wf_ne _ _ _ _ _ WF) as Hne.
    unfold holdsp. rewrite <- (zero_safe_sem li ri L R on WF l r Hl Hr).
    destruct (on_sem_total li ri L R on WF l r Hl Hr) as [b Hb].
    rewrite <- (zero_safe_sem li ri L R on WF l r Hl Hr) in Hb. rewrite Hb.
    rewrite (hash_sem _ _ HA b Hb).
    unfold kvals, lcols, rcols. rewrite !map_map.
    destruct WF as [_ _ _ Hs _ _ _ _ _].
    split.
    - intros H. apply map_ext_in. intros [[op pa] pb] Hc.
      destruct (cmp_cols_in _ _ _ _ Hc) as [Hpa Hpb].
      destruct (pair_read_ok li ri L R on WF l r pa Hl Hr Hpa) as [Ea _].
      destruct (pair_read_ok li ri L R on WF l r pb Hl Hr Hpb) as [Eb _].
      pose proof (proj1 (HF op pa pb l r _ _ Hc Hl Hr Ea Eb) (H op pa pb Hc)) as Ht.
      unfold fraw in Ht. cbn [col_of].
      destruct (wf_on_cmp _ _ _ _ _ _ Hs Hc) as [[H1 H2]|[H1 H2]].
      + rewrite H1, (hd_is_excl _ _ _ Hne H1) in *. rewrite (hd_is_excl _ _ _ (not_eq_sym Hne) H2) in Ht.
        exact Ht.
      + rewrite H1, H2 in *. rewrite (hd_is_excl _ _ _ (not_eq_sym Hne) H1) in *. now symmetry.
    - intros H op pa pb Hc.
      destruct (cmp_cols_in _ _ _ _ Hc) as [Hpa Hpb].
      destruct (pair_read_ok li ri L R on WF l r pa Hl Hr Hpa) as [Ea _].
      destruct (pair_read_ok li ri L R on WF l r pb Hl Hr Hpb) as [Eb _].
      apply (proj2 (HF op pa pb l r _ _ Hc Hl Hr Ea Eb)).
      pose proof H as Ht. rewrite map_ext_in_iff in Ht. specialize (Ht (op, pa, pb) Hc). cbn [col_of] in Ht.
      unfold fraw.
      destruct (wf_on_cmp _ _ _ _ _ _ Hs Hc) as [[H1 H2]|[H1 H2]].
      + rewrite H1, (hd_is_excl _ _ _ Hne H1) in *. rewrite (hd_is_excl _ _ _ (not_eq_sym Hne) H2).
        exact Ht.
      + rewrite H1, H2 in *. rewrite (hd_is_excl _ _ _ (not_eq_sym Hne) H1) in *. now symmetry.
  Qed.

  Lemma bm_is_key_eq le re : In le lcat -> In re rcat -> bm li on le re = String.eqb (fst le) (fst re).
  Proof.
    intros Hle Hre.
    pose proof HLC as [_ _ HneL _]. pose proof HRC as [_ _ HneR _].
    rewrite Forall_forall in HneL, HneR. pose proof (HneL le Hle) as H1. pose proof (HneR re Hre) as H2.
    destruct (crows le) as [|l ls] eqn:El; [congruence|]. destruct (crows re) as [|r rs] eqn:Er; [congruence|].
    assert (Hl : In l (crows le)) by (rewrite El; now left).
    assert (Hr : In r (crows re)) by (rewrite Er; now left).
    rewrite <- (bm_rows li ri L R on data WF lcat rcat HLC HRC le re l r Hle Hre Hl Hr).
    pose proof (cat_rows_in _ _ _ _ _ HLC Hle Hl) as HlL. pose proof (cat_rows_in _ _ _ _ _ HRC Hre Hr) as HrR.
    destruct WF as [_ _ _ _ _ _ HsL HsR _].
    destruct (group_key_map _ _ _ _ _ HsL HLC Hle Hl) as [_ K1].
    destruct (group_key_map _ _ _ _ _ HsR HRC Hre Hr) as [_ K2].
    fold lcols in K1. fold rcols in K2.
    destruct (String.eqb (fst le) (fst re)) eqn:E.
    - apply String.eqb_eq in E. apply (holds_iff_texts l r HlL HrR).
      rewrite <- E in K2. apply (key_text_faithful_strong _ _ _ K1 K2).
    - apply String.eqb_neq in E. destruct (holdsp li on l r) eqn:Eh; [|reflexivity].
      exfalso. apply E. apply (holds_iff_texts l r HlL HrR) in Eh.
      pose proof (key_text_of_texts _ _ _ K1 Eh) as K3. rewrite K2 in K3. now injection K3.
  Qed.

  Lemma hash_match_eq_loop inner le : In le lcat ->
    hash_match inner ri le rcat = loop_match data inner ri on le rcat.
  Proof.
    intros Hle. rewrite (loop_match_pure li ri L R on data WF lcat rcat HLC HRC inner le Hle).
    unfold loopp.
    rewrite (flat_map_ext_in _ (fun re => if String.eqb (fst le) (fst re) then pairsp (crows le) (crows re) else []))
      by (intros re Hre; now rewrite bm_is_key_eq).
    pose proof HRC as [_ HndR HneR _].
    rewrite (flat_map_find (fst le) (pairsp (crows le)) rcat HndR).
    assert (Hlobj : forall l, In l (crows le) -> is_objv l).
    { intros l Hl. apply (objL li ri L R on WF). eapply cat_rows_in; eauto. }
    pose proof HLC as [_ _ HneL _]. rewrite Forall_forall in HneL, HneR.
    pose proof (HneL le Hle) as Hlne.
    destruct le as [k [lkeys lrows]]. cbn [hash_match fst crows snd] in *.
    destruct (cat_find k rcat) as [[rkeys rrows]|] eqn:Ef.
    - pose proof (cat_find_in _ _ _ Ef) as Hin.
      pose proof (HneR _ Hin) as Hrne. cbn in Hrne.
      rewrite pairs_pure; [| exact Hlobj |].
      + pose proof (pairsp_nonempty lrows rrows Hlne Hrne). destruct (pairsp lrows rrows); [congruence|reflexivity].
      + intros r Hr. apply (objR li ri L R on WF). eapply (cat_rows_in _ _ _ (k, (rkeys, rrows))); eauto.
    - destruct inner; [reflexivity|]. apply mapM_pure. intros l Hl. apply with_null_pure. auto.
  Qed.
End HashPure.

(* ------------------------------------------------------------------ *)
(* Part G: Join.Exec                                                    *)
(* ------------------------------------------------------------------ *)

Definition join_core (use_hash inner : bool) (L R : list value) (li ri : string)
           (on : expr stmt) (data : row) : res (list value) :=
  let! lcat := to_catalog L li ri on in
  let! rcat := to_catalog R ri li on in
  let! batches := mapM (fun le => if use_hash then hash_match inner ri le rcat
                                  else loop_match data inner ri on le rcat) lcat in
  Ok (List.concat batches).

Definition is_inner (jt : jointype) : bool := match jt with JInner => true | _ => false end.
Definition uses_hash (st : jstrategy) (on : expr stmt) : bool :=
  negb (is_straight st) && hash_join_analyze on.
(* STRAIGHT_JOIN is only defined for inner joins *)
Definition admissible (jt : jointype) (st : jstrategy) : bool :=
  negb (is_straight st && negb (is_inner jt)).

Lemma exec_join_core jt st L R lid rid on data :
  exec_join jt st L R lid rid on data =
  if admissible jt st then
    match jt with
    | JInner => join_core (uses_hash st on) true L R lid rid on data
    | JLeft => join_core (uses_hash st on) false L R lid rid on data
    | JRight => join_core (uses_hash st on) false R L rid lid on data
    end
  else Err.
Proof. destruct jt, st; reflexivity. Qed.

Lemma mapM_exists {X Y} (f : X -> res Y) l :
  (forall x, In x l -> exists y, f x = Ok y) -> exists ys, mapM f l = Ok ys.
Proof.
  induction l as [|x l IH]; cbn; intros H; [eauto|].
  destruct (H x) as [y ->]; auto. destruct IH as [ys ->]; auto. cbn. eauto.
Qed.

Lemma to_catalog_ok T id id' on cols :
  join_columns id id' on = Ok cols -> side_ok T cols ->
  exists cat, to_catalog T id id' on = Ok cat /\ catalog_of cols T cat.
Proof.
  intros Hj Hs.
  assert (exists cat, to_catalog T id id' on = Ok cat) as [cat Hc].
  { rewrite to_catalog_unfold, Hj. cbn [bind].
    destruct (mapM_exists (row_key cols) T) as [keyed ->]; [|cbn; eauto].
    intros r Hr. destruct (row_key_ok _ _ _ Hs Hr) as (k & -> & _). eauto. }
  exists cat. split; [exact Hc|].
  destruct (catalog_groups _ _ _ _ _ Hc) as (cols' & Hj' & Hcat). rewrite Hj in Hj'. now injection Hj' as <-.
Qed.

Section Core.
  Variables (li ri : string) (L R : list value) (on : expr stmt) (data : row).
  Hypothesis WF : wf_join li ri L R on.

  Lemma catalogs_ok :
    exists lcat rcat,
      to_catalog L li ri on = Ok lcat /\ to_catalog R ri li on = Ok rcat /\
      catalog_of (map (col_of li) (on_cmps on)) L lcat /\
      catalog_of (map (col_of ri) (on_cmps on)) R rcat.
  Proof.
    pose proof (wf_ne _ _ _ _ _ WF) as Hne. destruct WF as [_ _ _ Hs _ _ HsL HsR _].
    destruct (to_catalog_ok L li ri on _ (join_columns_wf li ri on Hne Hs) HsL) as (lcat & H1 & H2).
    assert (Hs' : wf_on ri li on = true) by (now rewrite wf_on_sym).
    destruct (to_catalog_ok R ri li on _ (join_columns_wf ri li on (not_eq_sym Hne) Hs') HsR) as (rcat & H3 & H4).
    exists lcat, rcat. auto.
  Qed.

  (* the drivers range over two Go maps: any order of the left keys and of the right keys *)
  Definition run_batches (use_hash inner : bool) (lcat rcat : list centry) : res (list value) :=
    let! batches := mapM (fun le => if use_hash then hash_match inner ri le rcat
                                    else loop_match data inner ri on le rcat) lcat in
    Ok (List.concat batches).

  Lemma join_core_batches use_hash inner lcat rcat :
    to_catalog L li ri on = Ok lcat -> to_catalog R ri li on = Ok rcat ->
    join_core use_hash inner L R li ri on data = run_batches use_hash inner lcat rcat.
  Proof. intros H1 H2. unfold join_core, run_batches. now rewrite H1, H2. Qed.

  (* nested loop against the specification, whatever the iteration order of the two maps *)
  Theorem loop_batches_eq_spec inner lcat rcat lcat' rcat' :
    to_catalog L li ri on = Ok lcat -> to_catalog R ri li on = Ok rcat ->
    Permutation lcat lcat' -> Permutation rcat rcat' ->
    exists o1 o2, run_batches false inner lcat' rcat' = Ok o1 /\
                  left_join data on (negb inner) ri L R = Ok o2 /\ Permutation o1 o2.
  Proof.
    intros H1 H2 P1 P2. destruct catalogs_ok as (lc & rc & H1' & H2' & H3 & H4).
    rewrite H1 in H1'. rewrite H2 in H2'. injection H1' as <-. injection H2' as <-.
    pose proof (catalog_inv_perm _ _ _ _ P1 (catalog_of_inv _ _ _ H3)) as H3'.
    pose proof (catalog_inv_perm _ _ _ _ P2 (catalog_of_inv _ _ _ H4)) as H4'.
    destruct (loop_core_spec li ri L R on data WF lcat' rcat' H3' H4' inner) as (out & Ho & Hs & Hp).
    unfold run_batches. rewrite Ho. cbn [bind]. eauto.
  Qed.

  (* hash path against the nested loop: the same list, for the same iteration order *)
  Theorem hash_batches_eq_loop inner lcat rcat lcat' rcat' :
    hash_faithful li L R on -> hash_join_analyze on = true ->
    to_catalog L li ri on = Ok lcat -> to_catalog R ri li on = Ok rcat ->
    Permutation lcat lcat' -> Permutation rcat rcat' ->
    run_batches true inner lcat' rcat' = run_batches false inner lcat' rcat'.
  Proof.
    intros HF HA H1 H2 P1 P2. destruct catalogs_ok as (lc & rc & H1' & H2' & H3 & H4).
    rewrite H1 in H1'. rewrite H2 in H2'. injection H1' as <-. injection H2' as <-.
    pose proof (catalog_inv_perm _ _ _ _ P1 (catalog_of_inv _ _ _ H3)) as H3'.
    pose proof (catalog_inv_perm _ _ _ _ P2 (catalog_of_inv _ _ _ H4)) as H4'.
    unfold run_batches.
    rewrite (mapM_ext_in _ (fun le => loop_match data inner ri on le rcat')); [reflexivity|].
    intros le Hle. now apply (hash_match_eq_loop li ri L R on data WF HF HA lcat' rcat' H3' H4').
  Qed.

  Theorem loop_core_eq_spec inner :
    exists o1 o2, join_core false inner L R li ri on data = Ok o1 /\
                  left_join data on (negb inner) ri L R = Ok o2 /\ Permutation o1 o2.
  Proof.
    destruct catalogs_ok as (lcat & rcat & H1 & H2 & _ & _).
    rewrite (join_core_batches false inner lcat rcat H1 H2).
    now apply (loop_batches_eq_spec inner lcat rcat lcat rcat).
  Qed.

  Theorem hash_core_eq_loop inner :
    hash_faithful li L R on -> hash_join_analyze on = true ->
    join_core true inner L R li ri on data = join_core false inner L R li ri on data.
  Proof.
    intros HF HA. destruct catalogs_ok as (lcat & rcat & H1 & H2 & _ & _).
    rewrite !(join_core_batches _ inner lcat rcat H1 H2).
    now apply (hash_batches_eq_loop inner lcat rcat lcat rcat).
  Qed.

  (* Go map iteration order is irrelevant *)
  Theorem map_order_independent use_hash inner lcat rcat lcat' rcat' :
    (use_hash = true -> hash_faithful li L R on /\ hash_join_analyze on = true) ->
    to_catalog L li ri on = Ok lcat -> to_catalog R ri li on = Ok rcat ->
    Permutation lcat lcat' -> Permutation rcat rcat' ->
    exists o1 o2, run_batches use_hash inner lcat' rcat' = Ok o1 /\
                  left_join data on (negb inner) ri L R = Ok o2 /\ Permutation o1 o2.
  Proof.
    intros Hh H1 H2 P1 P2. destruct use_hash.
    - destruct (Hh eq_refl) as [HF HA].
      rewrite (hash_batches_eq_loop inner lcat rcat lcat' rcat' HF HA H1 H2 P1 P2).
      now apply (loop_batches_eq_spec inner lcat rcat).
    - now apply (loop_batches_eq_spec inner lcat rcat).
  Qed.
End Core.

(* ------------------------------------------------------------------ *)
(* Part H: the theorems about Join.Exec                                 *)
(* ------------------------------------------------------------------ *)

Lemma hash_faithful_sym li ri L R on :
  wf_join li ri L R on -> hash_faithful li L R on -> hash_faithful ri R L on.
Proof.
  intros WF HF op pa pb r l a b Hc Hr Hl H1 H2.
  pose proof (wf_ne _ _ _ _ _ WF) as Hne. destruct WF as [_ _ _ Hs _ _ _ _ _].
  destruct (cmp_cols_in _ _ _ _ Hc) as [Hpa Hpb].
  rewrite (pair_read_sym li ri on l r pa Hne Hs Hpa) in H1.
  rewrite (pair_read_sym li ri on l r pb Hne Hs Hpb) in H2.
  eapply HF; eauto.
Qed.

Definition perm_ok (a b : res (list value)) : Prop :=
  exists o1 o2, a = Ok o1 /\ b = Ok o2 /\ Permutation o1 o2.

Theorem loop_eq_spec jt st L R lid rid on data :
  wf_join lid rid L R on -> admissible jt st = true -> uses_hash st on = false ->
  perm_ok (exec_join jt st L R lid rid on data) (join_spec jt L R lid rid on data).
Proof.
  intros WF Ha Hh. rewrite exec_join_core, Ha, Hh. unfold perm_ok. destruct jt; cbn [join_spec].
  - apply (loop_core_eq_spec lid rid L R on data WF true).
  - apply (loop_core_eq_spec lid rid L R on data WF false).
  - apply (loop_core_eq_spec rid lid R L on data (wf_join_sym _ _ _ _ _ WF) false).
Qed.

Theorem hash_eq_loop jt st st' L R lid rid on data :
  wf_join lid rid L R on -> hash_faithful lid L R on ->
  admissible jt st = true -> admissible jt st' = true ->
  uses_hash st on = true -> uses_hash st' on = false ->
  exec_join jt st L R lid rid on data = exec_join jt st' L R lid rid on data.
Proof.
  intros WF HF Ha Ha' Hh Hh'. rewrite !exec_join_core, Ha, Ha', Hh, Hh'.
  assert (HA : hash_join_analyze on = true) by (unfold uses_hash in Hh; now apply andb_prop in Hh).
  destruct jt.
  - now apply hash_core_eq_loop.
  - now apply hash_core_eq_loop.
  - apply hash_core_eq_loop; auto using wf_join_sym. now apply (hash_faithful_sym lid rid).
Qed.

Theorem hash_eq_spec jt st L R lid rid on data :
  wf_join lid rid L R on -> hash_faithful lid L R on ->
  admissible jt st = true -> uses_hash st on = true ->
  perm_ok (exec_join jt st L R lid rid on data) (join_spec jt L R lid rid on data).
Proof.
  intros WF HF Ha Hh.
  assert (HA : hash_join_analyze on = true) by (unfold uses_hash in Hh; now apply andb_prop in Hh).
  rewrite exec_join_core, Ha, Hh. unfold perm_ok. destruct jt; cbn [join_spec].
  - rewrite hash_core_eq_loop by assumption. apply (loop_core_eq_spec lid rid L R on data WF true).
  - rewrite hash_core_eq_loop by assumption. apply (loop_core_eq_spec lid rid L R on data WF false).
  - rewrite hash_core_eq_loop; auto using wf_join_sym; [|now apply (hash_faithful_sym lid rid)].
    apply (loop_core_eq_spec rid lid R L on data (wf_join_sym _ _ _ _ _ WF) false).
Qed.

(* every admissible (type, strategy) combination returns the textbook multiset *)
Theorem join_eq_spec jt st L R lid rid on data :
  wf_join lid rid L R on -> (hash_join_analyze on = true -> hash_faithful lid L R on) ->
  admissible jt st = true ->
  perm_ok (exec_join jt st L R lid rid on data) (join_spec jt L R lid rid on data).
Proof.
  intros WF HF Ha. destruct (uses_hash st on) eqn:Hh.
  - apply hash_eq_spec; auto. apply HF. unfold uses_hash in Hh. now apply andb_prop in Hh.
  - now apply loop_eq_spec.
Qed.

Theorem strategy_independent jt st1 st2 L R lid rid on data :
  wf_join lid rid L R on -> (hash_join_analyze on = true -> hash_faithful lid L R on) ->
  admissible jt st1 = true -> admissible jt st2 = true ->
  perm_ok (exec_join jt st1 L R lid rid on data) (exec_join jt st2 L R lid rid on data).
Proof.
  intros WF HF H1 H2.
  destruct (join_eq_spec jt st1 L R lid rid on data WF HF H1) as (a & s & Ea & Es & P1).
  destruct (join_eq_spec jt st2 L R lid rid on data WF HF H2) as (b & s' & Eb & Es' & P2).
  rewrite Es in Es'. injection Es' as <-.
  exists a, b. repeat split; auto. etransitivity; [exact P1|now symmetry].
Qed.

(* RIGHT is LEFT with the sides exchanged — for the engine (every strategy) and for the spec *)
Theorem right_is_mirrored_left st L R lid rid on data :
  exec_join JRight st L R lid rid on data = exec_join JLeft st R L rid lid on data /\
  join_spec JRight L R lid rid on data = join_spec JLeft R L rid lid on data.
Proof. split; [destruct st; reflexivity|reflexivity]. Qed.

(* ---------- orientation and order of the ON conjuncts ---------- *)

Definition flip_op (op : cmpop) : cmpop :=
  match op with OpEq => OpEq | OpNe => OpNe | OpLt => OpGt | OpLe => OpGe | OpGt => OpLt | OpGe => OpLe end.

Inductive on_equiv : expr stmt -> expr stmt -> Prop :=
| oe_refl e : on_equiv e e
| oe_flip op pa pb : on_equiv (ECmp op (ECol pa) (ECol pb)) (ECmp (flip_op op) (ECol pb) (ECol pa))
| oe_and_comm a b : on_equiv (EAnd a b) (EAnd b a)
| oe_or_comm a b : on_equiv (EOr a b) (EOr b a)
| oe_and_assoc a b c : on_equiv (EAnd (EAnd a b) c) (EAnd a (EAnd b c))
| oe_or_assoc a b c : on_equiv (EOr (EOr a b) c) (EOr a (EOr b c))
| oe_and a a' b b' : on_equiv a a' -> on_equiv b b' -> on_equiv (EAnd a b) (EAnd a' b')
| oe_or a a' b b' : on_equiv a a' -> on_equiv b b' -> on_equiv (EOr a b) (EOr a' b')
| oe_sym e e' : on_equiv e e' -> on_equiv e' e
| oe_trans e e' e'' : on_equiv e e' -> on_equiv e' e'' -> on_equiv e e''.

(* the compared values are ordered antisymmetrically (string order always is; float order is,
   except for NaN) *)
Definition antisym_at (f : list string -> value) (e : expr stmt) : Prop :=
  forall op pa pb, In (op, pa, pb) (on_cmps e) ->
    exists z, vcompare (f pa) (f pb) = Ok z /\ vcompare (f pb) (f pa) = Ok (- z)%Z.

Lemma cmp_holds_flip op z : cmp_holds (flip_op op) (- z) = cmp_holds op z.
Proof. destruct op; cbn; lia. Qed.

Lemma flip_op_invol op : flip_op (flip_op op) = op.
Proof. now destruct op. Qed.

Lemma on_sem_ok_or_err f e : antisym_at f e -> on_sem f e = Err \/ exists b, on_sem f e = Ok b.
Proof.
  induction e; cbn; auto; intros H.
  - destruct IHe1 as [->|[x ->]]; [intros o pa pb Hin; apply (H o), in_or_app; auto|auto|].
    destruct IHe2 as [->|[y ->]]; [intros o pa pb Hin; apply (H o), in_or_app; auto|auto|]. cbn. eauto.
  - destruct IHe1 as [->|[x ->]]; [intros o pa pb Hin; apply (H o), in_or_app; auto|auto|].
    destruct IHe2 as [->|[y ->]]; [intros o pa pb Hin; apply (H o), in_or_app; auto|auto|]. cbn. eauto.
  - destruct e1; auto. destruct e2; auto. destruct (H op path path0) as (z & -> & _); cbn; eauto.
Qed.

Lemma antisym_app_l f a b : (forall op pa pb, In (op, pa, pb) (on_cmps a ++ on_cmps b) -> exists z, vcompare (f pa) (f pb) = Ok z /\ vcompare (f pb) (f pa) = Ok (- z)%Z) -> antisym_at f a.
Proof. intros H o pa pb Hin. apply (H o), in_or_app. auto. Qed.
Lemma antisym_app_r f a b : (forall op pa pb, In (op, pa, pb) (on_cmps a ++ on_cmps b) -> exists z, vcompare (f pa) (f pb) = Ok z /\ vcompare (f pb) (f pa) = Ok (- z)%Z) -> antisym_at f b.
Proof. intros H o pa pb Hin. apply (H o), in_or_app. auto. Qed.
Lemma antisym_app f a b : antisym_at f a -> antisym_at f b ->
  (forall op pa pb, In (op, pa, pb) (on_cmps a ++ on_cmps b) -> exists z, vcompare (f pa) (f pb) = Ok z /\ vcompare (f pb) (f pa) = Ok (- z)%Z).
Proof. intros Ha Hb o pa pb Hin. apply in_app_or in Hin. destruct Hin; [apply (Ha o)|apply (Hb o)]; auto. Qed.

Lemma on_sem_equiv f e e' :
  on_equiv e e' -> (antisym_at f e <-> antisym_at f e') /\ (antisym_at f e -> on_sem f e = on_sem f e').
Proof.
  induction 1 as [ e | op pa pb | a b | a b | a b c | a b c | a a' b b' Hab1 IH1 Hab2 IH2
                 | a a' b b' Hab1 IH1 Hab2 IH2 | e e' He IH | e e' e'' He1 IH1 He2 IH2].
  - tauto.
  - split.
    + unfold antisym_at; cbn. split; intros H o qa qb [[= <- <- <-]|[]].
      * destruct (H op pa pb (or_introl eq_refl)) as (z & H1 & H2). exists (- z)%Z.
        rewrite Z.opp_involutive. auto.
      * destruct (H (flip_op op) pb pa (or_introl eq_refl)) as (z & H1 & H2). exists (- z)%Z.
        rewrite Z.opp_involutive. auto.
    + intros H. destruct (H op pa pb (or_introl eq_refl)) as (z & H1 & H2). cbn.
      rewrite H1, H2. cbn. now rewrite cmp_holds_flip.
  - split.
    + unfold antisym_at; cbn. split; intros H o pa pb Hin; apply (H o); apply in_app_or in Hin;
        apply in_or_app; tauto.
    + intros H. cbn in H.
      destruct (on_sem_ok_or_err f a (antisym_app_l f a b H)) as [Ea|[x Ea]];
      destruct (on_sem_ok_or_err f b (antisym_app_r f a b H)) as [Eb|[y Eb]]; cbn; rewrite Ea, Eb; cbn;
        try reflexivity. now rewrite andb_comm.
  - split.
    + unfold antisym_at; cbn. split; intros H o pa pb Hin; apply (H o); apply in_app_or in Hin;
        apply in_or_app; tauto.
    + intros H. cbn in H.
      destruct (on_sem_ok_or_err f a (antisym_app_l f a b H)) as [Ea|[x Ea]];
      destruct (on_sem_ok_or_err f b (antisym_app_r f a b H)) as [Eb|[y Eb]]; cbn; rewrite Ea, Eb; cbn;
        try reflexivity. now rewrite orb_comm.
  - split.
    + unfold antisym_at; cbn. rewrite <- app_assoc. tauto.
    + intros _. cbn. destruct (on_sem f a); cbn; auto. destruct (on_sem f b); cbn; auto.
      destruct (on_sem f c); cbn; auto. now rewrite andb_assoc.
  - split.
    + unfold antisym_at; cbn. rewrite <- app_assoc. tauto.
    + intros _. cbn. destruct (on_sem f a); cbn; auto. destruct (on_sem f b); cbn; auto.
      destruct (on_sem f c); cbn; auto. now rewrite orb_assoc.
  - destruct IH1 as [I1 E1]. destruct IH2 as [I2 E2]. split.
    + split; intros H; unfold antisym_at; cbn [on_cmps].
      * apply antisym_app; [apply I1, (antisym_app_l f a b H)|apply I2, (antisym_app_r f a b H)].
      * apply antisym_app; [apply I1, (antisym_app_l f a' b' H)|apply I2, (antisym_app_r f a' b' H)].
    + intros H. cbn in H |- *. rewrite (E1 (antisym_app_l f a b H)), (E2 (antisym_app_r f a b H)). reflexivity.
  - destruct IH1 as [I1 E1]. destruct IH2 as [I2 E2]. split.
    + split; intros H; unfold antisym_at; cbn [on_cmps].
      * apply antisym_app; [apply I1, (antisym_app_l f a b H)|apply I2, (antisym_app_r f a b H)].
      * apply antisym_app; [apply I1, (antisym_app_l f a' b' H)|apply I2, (antisym_app_r f a' b' H)].
    + intros H. cbn in H |- *. rewrite (E1 (antisym_app_l f a b H)), (E2 (antisym_app_r f a b H)). reflexivity.
  - destruct IH as [I E]. split; [tauto|]. intros H. symmetry. apply E. tauto.
  - destruct IH1 as [I1 E1]. destruct IH2 as [I2 E2]. split; [tauto|].
    intros H. rewrite (E1 H). apply E2. tauto.
Qed.

(* flip_ok: the values met by the comparisons of ON compare antisymmetrically *)
Definition flip_ok (li : string) (L R : list value) (on : expr stmt) : Prop :=
  forall op pa pb l r a b z, In (op, pa, pb) (on_cmps on) -> In l L -> In r R ->
    pair_read li l r pa = Ok a -> pair_read li l r pb = Ok b ->
    vcompare a b = Ok z -> vcompare b a = Ok (- z)%Z.

Lemma gspec_ext rid R h h' outer l :
  (forall r, In r R -> h l r = h' l r) -> gspec rid R h outer l = gspec rid R h' outer l.
Proof. intros H. unfold gspec. now rewrite (filter_ext_in' (h l) (h' l) R H). Qed.

Lemma left_join_on_equiv li ri L R on on' data outer :
  wf_join li ri L R on -> wf_join li ri L R on' -> flip_ok li L R on -> on_equiv on on' ->
  left_join data on outer ri L R = left_join data on' outer ri L R.
Proof.
  intros WF WF' HF He.
  rewrite (left_join_pure data on ri L R (holdsp li on) (objL li ri L R on WF) (objR li ri L R on WF))
    by (try apply incl_refl; intros l r Hl Hr; now apply (on_holds_pure li ri L R on data WF)).
  rewrite (left_join_pure data on' ri L R (holdsp li on') (objL li ri L R on' WF') (objR li ri L R on' WF'))
    by (try apply incl_refl; intros l r Hl Hr; now apply (on_holds_pure li ri L R on' data WF')).
  f_equal. apply flat_map_ext_in. intros l Hl. apply gspec_ext. intros r Hr.
  unfold holdsp. destruct (on_sem_equiv (fraw li l r) on on' He) as [_ ->]; [reflexivity|].
  intros op pa pb Hc. destruct (cmp_cols_in _ _ _ _ Hc) as [Hpa Hpb].
  destruct (pair_read_ok li ri L R on WF l r pa Hl Hr Hpa) as [Ea Fa].
  destruct (pair_read_ok li ri L R on WF l r pb Hl Hr Hpb) as [Eb Fb].
  assert (exists z, vcompare (fraw li l r pa) (fraw li l r pb) = Ok z) as [z Hz].
  { destruct WF as [_ _ _ _ _ _ _ _ Hzs]. rewrite <- (Hzs op pa pb l r _ _ Hc Hl Hr Ea Eb).
    now apply vcompare_printable. }
  exists z. split; [exact Hz|]. eapply HF; eauto.
Qed.

Theorem on_symmetry jt st st' L R lid rid on on' data :
  on_equiv on on' ->
  wf_join lid rid L R on -> wf_join lid rid L R on' -> flip_ok lid L R on ->
  (hash_join_analyze on = true -> hash_faithful lid L R on) ->
  (hash_join_analyze on' = true -> hash_faithful lid L R on') ->
  admissible jt st = true -> admissible jt st' = true ->
  join_spec jt L R lid rid on data = join_spec jt L R lid rid on' data /\
  perm_ok (exec_join jt st L R lid rid on data) (exec_join jt st' L R lid rid on' data).
Proof.
  intros He WF WF' Hflip HF HF' Ha Ha'.
  assert (Hspec : join_spec jt L R lid rid on data = join_spec jt L R lid rid on' data).
  { destruct jt; cbn [join_spec].
    - now apply (left_join_on_equiv lid rid).
    - now apply (left_join_on_equiv lid rid).
    - apply (left_join_on_equiv rid lid); auto using wf_join_sym.
      intros op pa pb r l a b z Hc Hr Hl H1 H2.
      pose proof (wf_ne _ _ _ _ _ WF) as Hne. destruct WF as [_ _ _ Hs _ _ _ _ _].
      destruct (cmp_cols_in _ _ _ _ Hc) as [Hpa Hpb].
      rewrite (pair_read_sym lid rid on l r pa Hne Hs Hpa) in H1.
      rewrite (pair_read_sym lid rid on l r pb Hne Hs Hpb) in H2.
      eapply Hflip; eauto. }
  split; [exact Hspec|].
  destruct (join_eq_spec jt st L R lid rid on data WF HF Ha) as (a & s & Ea & Es & P1).
  destruct (join_eq_spec jt st' L R lid rid on' data WF' HF' Ha') as (b & s' & Eb & Es' & P2).
  rewrite Hspec, Es' in Es. injection Es as <-.
  exists a, b. repeat split; auto. etransitivity; [exact P1|now symmetry].
Qed.
