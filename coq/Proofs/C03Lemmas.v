(* Proofs/C03Lemmas.v — proofs for property C03 (GROUP BY partitions rows; aggregates cover exactly
   their group and honour WHERE).  Part 1: the ordered linear scan equals the textbook grouping, for
   any row/key type.  Part 2: the engine model (Model/Exec.v) instantiates it.  Part 3: aggregates.
   Part 4: the SELECT pipeline (HAVING, whole-table aggregates, WHERE-then-GROUP). *)
From Coq Require Import Floats Permutation.
From GenqlV Require Import Base.Prelude Base.Fmt Base.Value Model.Ast Model.Like Model.Num Model.Eval
  Model.Exec Spec.GroupSpec Proofs.StrOrder.
Local Open Scope list_scope.

(* ================================================================== *)
(* Part 1: generic — scan = group_by                                    *)
(* ================================================================== *)

Section Scan.
  Context {R K : Type}.
  Variable key : R -> K.
  Variable keq : K -> K -> bool.

  (* the pure shape of the engine's insertion: append to the first group with an equal key, or
     open a new group at the end *)
  Fixpoint ins (k : K) (r : R) (gs : list (K * list R)) : list (K * list R) :=
    match gs with
    | [] => [(k, [r])]
    | (k0, ms) :: rest => if keq k0 k then (k0, ms ++ [r]) :: rest else (k0, ms) :: ins k r rest
    end.

  Definition scan (rows : list R) (gs : list (K * list R)) : list (K * list R) :=
    fold_left (fun gs r => ins (key r) r gs) rows gs.

  (* ---- facts that need nothing about keq ---- *)

  Lemma ins_perm k r gs :
    Permutation (List.concat (map snd (ins k r gs))) (r :: List.concat (map snd gs)).
  Proof.
    induction gs as [|[k0 ms] gs IH]; cbn [ins map snd List.concat].
    - apply Permutation_refl.
    - destruct (keq k0 k); cbn [map snd List.concat].
      + rewrite <- app_assoc. cbn [app].
        apply Permutation_sym, Permutation_middle.
      + eapply Permutation_trans; [apply Permutation_app_head, IH|].
        apply Permutation_sym, Permutation_middle.
  Qed.

  Lemma scan_perm rows : forall gs,
    Permutation (List.concat (map snd (scan rows gs))) (List.concat (map snd gs) ++ rows).
  Proof.
    induction rows as [|r rs IH]; intros gs; cbn [scan fold_left].
    - rewrite app_nil_r. apply Permutation_refl.
    - eapply Permutation_trans; [apply IH|].
      eapply Permutation_trans; [apply Permutation_app_tail, ins_perm|].
      cbn [app]. apply Permutation_middle.
  Qed.

  Lemma first_keys_from_not_seen seen rows k :
    In k (first_keys_from key keq seen rows) -> forall s, In s seen -> keq s k = false.
  Proof.
    revert seen; induction rows as [|r rs IH]; intros seen Hin s Hs; cbn [first_keys_from] in Hin.
    - destruct Hin.
    - destruct (existsb (fun k0 => keq k0 (key r)) seen) eqn:Hex.
      + eapply IH; eauto.
      + destruct Hin as [<-|Hin].
        * destruct (keq s (key r)) eqn:Hk; [|reflexivity].
          assert (existsb (fun k0 => keq k0 (key r)) seen = true)
            by (apply existsb_exists; eauto).
          congruence.
        * eapply IH; [exact Hin|right; exact Hs].
  Qed.

  Lemma first_keys_from_distinct seen rows :
    pairwise_distinct keq (first_keys_from key keq seen rows).
  Proof.
    unfold pairwise_distinct.
    revert seen; induction rows as [|r rs IH]; intros seen; cbn [first_keys_from].
    - constructor.
    - destruct (existsb (fun k0 => keq k0 (key r)) seen); [apply IH|].
      constructor; [|apply IH].
      apply Forall_forall. intros k Hk.
      eapply first_keys_from_not_seen; [exact Hk|left; reflexivity].
  Qed.

  Lemma first_keys_from_ext rows : forall seen seen',
    (forall k, existsb (fun s => keq s k) seen = existsb (fun s => keq s k) seen') ->
    first_keys_from key keq seen rows = first_keys_from key keq seen' rows.
  Proof.
    induction rows as [|r rs IH]; intros seen seen' H; cbn [first_keys_from]; [reflexivity|].
    rewrite (H (key r)).
    destruct (existsb (fun s => keq s (key r)) seen'); [apply IH, H|].
    f_equal. apply IH. intros k. cbn [existsb]. rewrite H. reflexivity.
  Qed.

  (* every key of the list is the key of some row *)
  Lemma first_keys_from_is_key seen rows k :
    In k (first_keys_from key keq seen rows) -> exists r, In r rows /\ k = key r.
  Proof.
    revert seen; induction rows as [|r rs IH]; intros seen Hin; cbn [first_keys_from] in Hin.
    - destruct Hin.
    - destruct (existsb (fun k0 => keq k0 (key r)) seen).
      + destruct (IH _ Hin) as (r' & ? & ?). exists r'. split; [right|]; assumption.
      + destruct Hin as [<-|Hin].
        * exists r. split; [left|]; reflexivity.
        * destruct (IH _ Hin) as (r' & ? & ?). exists r'. split; [right|]; assumption.
  Qed.

  Lemma ins_nomatch k r gs :
    existsb (fun k0 => keq k0 k) (map fst gs) = false -> ins k r gs = gs ++ [(k, [r])].
  Proof.
    induction gs as [|[k0 ms] gs IH]; cbn [ins map fst existsb app]; intros H; [reflexivity|].
    apply orb_false_iff in H. destruct H as [H1 H2]. rewrite H1, IH by exact H2. reflexivity.
  Qed.

  (* ---- facts that need keq to be symmetric and transitive ---- *)

  Hypothesis keq_sym : forall a b, keq a b = true -> keq b a = true.
  Hypothesis keq_trans : forall a b c, keq a b = true -> keq b c = true -> keq a c = true.

  Definition upd (k : K) (r : R) (g : K * list R) : K * list R :=
    if keq (fst g) k then (fst g, snd g ++ [r]) else g.

  Lemma upd_fst k r g : fst (upd k r g) = fst g.
  Proof. unfold upd. destruct (keq (fst g) k); reflexivity. Qed.

  (* with pairwise distinct group keys at most one group matches, so updating the first match is
     updating every match *)
  Lemma ins_match k r gs :
    pairwise_distinct keq (map fst gs) ->
    existsb (fun k0 => keq k0 k) (map fst gs) = true -> ins k r gs = map (upd k r) gs.
  Proof.
    unfold pairwise_distinct.
    induction gs as [|[k0 ms] gs IH]; cbn [ins map fst existsb]; intros Hd H; [discriminate|].
    inversion Hd as [|? ? Hall Hd']; subst.
    unfold upd at 1. cbn [fst snd].
    destruct (keq k0 k) eqn:Hk.
    - f_equal. symmetry. rewrite <- (map_id gs) at 2. apply map_ext_in.
      intros [k1 ms1] Hin. unfold upd. cbn [fst snd].
      destruct (keq k1 k) eqn:Hk1; [|reflexivity].
      exfalso. rewrite Forall_forall in Hall.
      assert (keq k0 k1 = false) as Hf by (apply Hall, in_map_iff; exists (k1, ms1); auto).
      rewrite (keq_trans k0 k k1 Hk (keq_sym _ _ Hk1)) in Hf. discriminate.
    - cbn [orb] in H. rewrite IH by assumption. reflexivity.
  Qed.

  Lemma members_cons k r rs :
    members key keq k (r :: rs) =
    if keq k (key r) then r :: members key keq k rs else members key keq k rs.
  Proof. reflexivity. Qed.

  (* the invariant of the scan, for an arbitrary well-formed accumulator *)
  Lemma scan_general rows : forall gs,
    (forall r, In r rows -> keq (key r) (key r) = true) ->
    pairwise_distinct keq (map fst gs) ->
    scan rows gs =
      map (fun g => (fst g, snd g ++ members key keq (fst g) rows)) gs ++
      map (fun k => (k, members key keq k rows)) (first_keys_from key keq (map fst gs) rows).
  Proof.
    induction rows as [|r rs IH]; intros gs Hrefl Hd.
    - cbn [scan fold_left first_keys_from map members filter]. rewrite app_nil_r.
      rewrite <- (map_id gs) at 1. apply map_ext. intros [k ms]. cbn [fst snd].
      rewrite app_nil_r. reflexivity.
    - cbn [scan fold_left first_keys_from]. fold (scan rs (ins (key r) r gs)).
      assert (Hrefl' : forall r0, In r0 rs -> keq (key r0) (key r0) = true)
        by (intros; apply Hrefl; right; assumption).
      destruct (existsb (fun k => keq k (key r)) (map fst gs)) eqn:Hex.
      + (* the row joins an existing group *)
        rewrite ins_match by assumption.
        assert (Hfst : map fst (map (upd (key r) r) gs) = map fst gs).
        { rewrite map_map. apply map_ext. intros g. apply upd_fst. }
        rewrite IH; [|exact Hrefl'|rewrite Hfst; exact Hd].
        rewrite Hfst. rewrite map_map. f_equal.
        * apply map_ext. intros [k ms]. unfold upd. cbn [fst snd].
          rewrite members_cons. destruct (keq k (key r)); cbn [fst snd]; [|reflexivity].
          rewrite <- app_assoc. reflexivity.
        * apply map_ext_in. intros k Hk. rewrite members_cons.
          destruct (keq k (key r)) eqn:Hkr; [|reflexivity].
          exfalso. apply existsb_exists in Hex. destruct Hex as (s & Hs & Hsr).
          pose proof (first_keys_from_not_seen _ _ _ Hk s Hs) as Hf.
          rewrite (keq_trans s (key r) k Hsr (keq_sym _ _ Hkr)) in Hf. discriminate.
      + (* the row opens a new group at the end *)
        rewrite ins_nomatch by assumption.
        assert (Hd' : pairwise_distinct keq (map fst (gs ++ [(key r, [r])]))).
        { unfold pairwise_distinct in *. rewrite map_app. cbn [map fst].
          clear - Hd Hex. induction (map fst gs) as [|a l IHl]; cbn [app].
          - repeat constructor.
          - cbn [existsb] in Hex. apply orb_false_iff in Hex. destruct Hex as [Ha Hl].
            inversion Hd as [|? ? Hall Hd0]; subst.
            constructor; [|apply IHl; assumption].
            apply Forall_app. split; [assumption|]. constructor; [assumption|constructor]. }
        rewrite IH; [|exact Hrefl'|exact Hd'].
        rewrite map_app. cbn [map fst snd app]. rewrite <- app_assoc. cbn [app].
        assert (Hnone : forall s, In s (map fst gs) -> keq s (key r) = false).
        { intros s Hs. destruct (keq s (key r)) eqn:Hk; [|reflexivity].
          assert (existsb (fun k => keq k (key r)) (map fst gs) = true)
            by (apply existsb_exists; eauto). congruence. }
        f_equal.
        * apply map_ext_in. intros [k ms] Hin. cbn [fst snd]. rewrite members_cons.
          rewrite Hnone; [reflexivity|]. apply in_map_iff. exists (k, ms). auto.
        * cbn [map]. f_equal.
          -- rewrite members_cons. rewrite Hrefl by (left; reflexivity). reflexivity.
          -- rewrite (first_keys_from_ext rs (map fst (gs ++ [(key r, [r])])) (key r :: map fst gs)).
             2:{ intros k. rewrite map_app. cbn [map fst existsb]. rewrite existsb_app.
                 cbn [existsb]. rewrite orb_false_r. apply orb_comm. }
             apply map_ext_in. intros k Hk. rewrite members_cons.
             destruct (keq k (key r)) eqn:Hkr; [|reflexivity].
             exfalso.
             pose proof (first_keys_from_not_seen _ _ _ Hk (key r) (or_introl eq_refl)) as Hf.
             rewrite (keq_sym _ _ Hkr) in Hf. discriminate.
  Qed.

  Theorem scan_is_group_by rows :
    (forall r, In r rows -> keq (key r) (key r) = true) ->
    scan rows [] = group_by key keq rows.
  Proof.
    intros Hrefl. rewrite scan_general; [|exact Hrefl|constructor].
    reflexivity.
  Qed.

  (* ---- consequences, stated on the specification ---- *)

  Lemma group_by_perm rows :
    (forall r, In r rows -> keq (key r) (key r) = true) ->
    Permutation (List.concat (map snd (group_by key keq rows))) rows.
  Proof.
    intros Hrefl. rewrite <- scan_is_group_by by exact Hrefl.
    apply (scan_perm rows []).
  Qed.

  Lemma length_concat_sum (l : list (list R)) :
    List.length (List.concat l) = list_sum (map (@List.length R) l).
  Proof. induction l as [|a l IH]; cbn; [reflexivity|]. rewrite app_length, IH. reflexivity. Qed.

  Lemma group_by_count rows :
    (forall r, In r rows -> keq (key r) (key r) = true) ->
    list_sum (map (fun g => List.length (snd g)) (group_by key keq rows)) = List.length rows.
  Proof.
    intros Hrefl. rewrite <- (Permutation_length (group_by_perm rows Hrefl)).
    rewrite length_concat_sum, map_map. reflexivity.
  Qed.

  Lemma group_by_keys_distinct rows : pairwise_distinct keq (map fst (group_by key keq rows)).
  Proof.
    unfold group_by. rewrite map_map. cbn [fst]. rewrite map_id.
    apply first_keys_from_distinct.
  Qed.

  Lemma first_keys_cover rows : forall seen r,
    In r rows -> keq (key r) (key r) = true ->
    (exists s, In s seen /\ keq s (key r) = true) \/
    (exists k, In k (first_keys_from key keq seen rows) /\ keq k (key r) = true).
  Proof.
    induction rows as [|r0 rs IH]; intros seen r Hin Hrefl; [destruct Hin|].
    cbn [first_keys_from].
    destruct (existsb (fun k => keq k (key r0)) seen) eqn:Hex.
    - destruct Hin as [->|Hin].
      + left. apply existsb_exists in Hex. exact Hex.
      + apply IH; assumption.
    - destruct Hin as [->|Hin].
      + right. exists (key r). split; [left; reflexivity|exact Hrefl].
      + destruct (IH (key r0 :: seen) r Hin Hrefl) as [(s & [<-|Hs] & Hk)|(k & Hk & Hkr)].
        * right. exists (key r0). split; [left; reflexivity|exact Hk].
        * left. eauto.
        * right. exists k. split; [right|]; assumption.
  Qed.

  Lemma in_members k r rows :
    In r (members key keq k rows) <-> In r rows /\ keq k (key r) = true.
  Proof. unfold members. apply filter_In. Qed.

  (* every row is in exactly one group *)
  Lemma group_by_exactly_one rows r :
    (forall r, In r rows -> keq (key r) (key r) = true) ->
    In r rows ->
    exists g, In g (group_by key keq rows) /\ In r (snd g) /\
              forall g', In g' (group_by key keq rows) -> In r (snd g') -> g' = g.
  Proof.
    intros Hrefl Hin.
    destruct (first_keys_cover rows [] r Hin (Hrefl r Hin)) as [(s & [] & _)|(k & Hk & Hkr)].
    exists (k, members key keq k rows). split; [|split].
    - unfold group_by. apply in_map_iff. exists k. auto.
    - cbn [snd]. apply in_members. auto.
    - intros g' Hg' Hr'. unfold group_by in Hg'. apply in_map_iff in Hg'.
      destruct Hg' as (k' & <- & Hk'). cbn [snd] in Hr'. apply in_members in Hr'.
      destruct Hr' as [_ Hk'r].
      destruct (ForallOrdPairs_In (first_keys_from_distinct [] rows) k k' Hk Hk') as [->|[Hf|Hf]].
      + reflexivity.
      + rewrite (keq_trans k (key r) k' Hkr (keq_sym _ _ Hk'r)) in Hf. discriminate.
      + rewrite (keq_trans k' (key r) k Hk'r (keq_sym _ _ Hkr)) in Hf. discriminate.
  Qed.

  (* two rows share a group iff their keys are equal *)
  Lemma group_by_same_group_iff rows r1 r2 :
    (forall r, In r rows -> keq (key r) (key r) = true) ->
    In r1 rows -> In r2 rows ->
    ((exists g, In g (group_by key keq rows) /\ In r1 (snd g) /\ In r2 (snd g)) <->
     keq (key r1) (key r2) = true).
  Proof.
    intros Hrefl H1 H2. split.
    - intros (g & Hg & Hr1 & Hr2). unfold group_by in Hg. apply in_map_iff in Hg.
      destruct Hg as (k & <- & _). cbn [snd] in *.
      apply in_members in Hr1. apply in_members in Hr2.
      destruct Hr1 as [_ Ha], Hr2 as [_ Hb].
      exact (keq_trans _ _ _ (keq_sym _ _ Ha) Hb).
    - intros Heq.
      destruct (first_keys_cover rows [] r1 H1 (Hrefl r1 H1)) as [(s & [] & _)|(k & Hk & Hkr)].
      exists (k, members key keq k rows). split; [|split].
      + unfold group_by. apply in_map_iff. exists k. auto.
      + cbn [snd]. apply in_members. auto.
      + cbn [snd]. apply in_members. split; [assumption|]. exact (keq_trans _ _ _ Hkr Heq).
  Qed.

  (* a group is never empty and its key is the key of its first member *)
  Lemma first_keys_from_head seen rows k :
    (forall r, In r rows -> keq (key r) (key r) = true) ->
    In k (first_keys_from key keq seen rows) ->
    exists r rest, members key keq k rows = r :: rest /\ k = key r.
  Proof.
    revert seen. induction rows as [|r0 rs IH]; intros seen Hrefl Hin; [destruct Hin|].
    cbn [first_keys_from] in Hin.
    assert (Hrefl' : forall r, In r rs -> keq (key r) (key r) = true)
      by (intros; apply Hrefl; right; assumption).
    destruct (existsb (fun k0 => keq k0 (key r0)) seen) eqn:Hex.
    - rewrite members_cons. destruct (keq k (key r0)) eqn:Hk.
      + exfalso. apply existsb_exists in Hex. destruct Hex as (s & Hs & Hsr).
        pose proof (first_keys_from_not_seen _ _ _ Hin s Hs) as Hf.
        rewrite (keq_trans s (key r0) k Hsr (keq_sym _ _ Hk)) in Hf. discriminate.
      + eapply IH; eassumption.
    - destruct Hin as [<-|Hin].
      + rewrite members_cons, Hrefl by (left; reflexivity). eauto.
      + rewrite members_cons. destruct (keq k (key r0)) eqn:Hk.
        * exfalso.
          pose proof (first_keys_from_not_seen _ _ _ Hin (key r0) (or_introl eq_refl)) as Hf.
          rewrite (keq_sym _ _ Hk) in Hf. discriminate.
        * eapply IH; eassumption.
  Qed.

  Lemma group_by_first_member rows g :
    (forall r, In r rows -> keq (key r) (key r) = true) ->
    In g (group_by key keq rows) -> exists r rest, snd g = r :: rest /\ fst g = key r.
  Proof.
    intros Hrefl Hg. unfold group_by in Hg. apply in_map_iff in Hg.
    destruct Hg as (k & <- & Hk). cbn [fst snd]. eapply first_keys_from_head; eassumption.
  Qed.
End Scan.

(* ================================================================== *)
(* Part 2: the engine model's GROUP BY is the scan                      *)
(* ================================================================== *)

Definition key_ok (k : list (string * value)) : bool := forallb (fun kv => key_val_ok (snd kv)) k.

Lemma reader_one_obj c kvs : reader [c] (VObj kvs) = Ok (column c (VObj kvs)).
Proof. reflexivity. Qed.

(* a flat grouping column is read like a column reference *)
Lemma key_reader_flat c v : key_reader [KKey c] v = reader [c] v.
Proof. reflexivity. Qed.

Lemma key_value_gcol c r : key_value (gcol c) r = column c r.
Proof. destruct r; reflexivity. Qed.

(* the engine reads a grouping column that has a value (Spec.GroupSpec.path_value) to exactly that value *)
Lemma key_reader_path_value p : forall v x, path_value p v = Some x -> key_reader p v = Ok x.
Proof.
  induction p as [|st rest IH]; intros v x H.
  - cbn in H. inversion H. reflexivity.
  - destruct st as [k|i]; destruct v as [|b|f|t|l|kvs]; cbn [path_value] in H;
      try discriminate; try (inversion H; reflexivity).
    + cbn [key_reader]. apply IH. exact H.
    + cbn [key_reader].
      destruct ((0 <=? i)%Z && (i <? Z.of_nat (List.length l))%Z) eqn:Hr; [|discriminate].
      apply andb_true_iff in Hr. destruct Hr as [H0 H1].
      apply Z.leb_le in H0. apply Z.ltb_lt in H1.
      replace (i =? -1)%Z with false by (symmetry; apply Z.eqb_neq; lia).
      replace (i <? 0)%Z with false by (symmetry; apply Z.ltb_ge; lia).
      replace (Z.of_nat (List.length l) <=? i)%Z with false by (symmetry; apply Z.leb_gt; lia).
      cbn [orb]. destruct (nth_error l (Z.to_nat i)) as [y|]; [|discriminate].
      apply IH. exact H.
Qed.

Lemma group_key_obj cols kvs :
  row_ok cols (VObj kvs) = true -> group_key cols (VObj kvs) = Ok (key_of cols (VObj kvs)).
Proof.
  unfold row_ok, group_key, key_of. induction cols as [|c cs IH]; cbn [mapM map forallb]; [reflexivity|].
  intros H. apply andb_true_iff in H. destruct H as [Hc Hcs].
  unfold col_ok in Hc. unfold key_value.
  destruct (path_value (gk_path c) (VObj kvs)) as [x|] eqn:Hp; [|discriminate].
  rewrite (key_reader_path_value _ _ _ Hp). cbn [bind]. rewrite (IH Hcs). reflexivity.
Qed.

(* readable is enough for the key to be read (whatever kind of value it is) *)
Lemma group_key_readable cols r :
  readable cols r = true -> group_key cols r = Ok (key_of cols r).
Proof.
  unfold readable, group_key, key_of. induction cols as [|c cs IH]; cbn [mapM map forallb]; [reflexivity|].
  intros H. apply andb_true_iff in H. destruct H as [Hc Hcs]. unfold key_value.
  destruct (path_value (gk_path c) r) as [x|] eqn:Hp; [|discriminate].
  rewrite (key_reader_path_value _ _ _ Hp). cbn [bind]. rewrite (IH Hcs). reflexivity.
Qed.

Lemma iface_eq_scalar a b : key_val_ok a = true -> iface_eq a b = Ok (scalar_eq a b).
Proof. destruct a, b; cbn; intros H; try reflexivity; discriminate. Qed.

Lemma keys_match_ok k1 : forall k2, key_ok k1 = true -> keys_match k1 k2 = Ok (key_eq k1 k2).
Proof.
  induction k1 as [|[c a] r1 IH]; intros [|[c' b] r2] H; cbn [keys_match key_eq]; try reflexivity.
  cbn [key_ok forallb snd] in H. apply andb_true_iff in H. destruct H as [Ha Hr].
  rewrite iface_eq_scalar by exact Ha. cbn [bind].
  destruct (scalar_eq a b); cbn [andb]; [apply IH; exact Hr|reflexivity].
Qed.

Definition groups_ok (gs : list group) : Prop := Forall (fun g => key_ok (fst g) = true) gs.

Lemma group_insert_ok key item gs :
  groups_ok gs -> group_insert key item gs = Ok (ins key_eq key item gs).
Proof.
  induction gs as [|[k ms] gs IH]; intros H; cbn [group_insert ins]; [reflexivity|].
  inversion H as [|? ? Hk Hgs]; subst. cbn [fst] in Hk.
  rewrite keys_match_ok by exact Hk. cbn [bind].
  destruct (key_eq k key); [reflexivity|]. rewrite IH by exact Hgs. reflexivity.
Qed.

Lemma ins_groups_ok key item gs :
  key_ok key = true -> groups_ok gs -> groups_ok (ins key_eq key item gs).
Proof.
  intros Hk. induction gs as [|[k ms] gs IH]; intros H; cbn [ins].
  - repeat constructor. exact Hk.
  - inversion H as [|? ? Hk0 Hgs]; subst.
    destruct (key_eq k key); constructor; cbn [fst] in *; auto.
    apply IH. exact Hgs.
Qed.

Lemma key_of_ok cols kvs : row_ok cols (VObj kvs) = true -> key_ok (key_of cols (VObj kvs)) = true.
Proof.
  unfold row_ok, key_ok, key_of. induction cols as [|c cs IH]; cbn [forallb map snd]; [reflexivity|].
  intros H. apply andb_true_iff in H. destruct H as [Hc Hcs].
  unfold col_ok in Hc. unfold key_value. destruct (path_value (gk_path c) (VObj kvs)); [|discriminate].
  rewrite Hc. apply IH. exact Hcs.
Qed.

Lemma group_rows_scan cols rows : forall gs,
  rows_ok cols rows = true -> groups_ok gs ->
  group_rows cols rows gs = Ok (scan (key_of cols) key_eq rows gs).
Proof.
  induction rows as [|r rs IH]; intros gs Hrows Hgs; cbn [group_rows scan fold_left]; [reflexivity|].
  cbn [rows_ok forallb] in Hrows. apply andb_true_iff in Hrows. destruct Hrows as [Hr Hrs].
  destruct r as [| | | | |kvs]; try discriminate.
  rewrite group_key_obj by exact Hr. cbn [bind].
  rewrite group_insert_ok by exact Hgs. cbn [bind].
  apply IH; [exact Hrs|]. apply ins_groups_ok; [apply key_of_ok; exact Hr|exact Hgs].
Qed.

(* ---- key equality is an equivalence on the keys in scope ---- *)

Lemma scalar_eq_refl a : key_val_ok a = true -> scalar_eq a a = true.
Proof.
  destruct a; cbn; intros H; try reflexivity; try discriminate.
  - apply Bool.eqb_reflx.
  - exact H.
  - apply String.eqb_refl.
Qed.

Lemma key_eq_refl k : key_ok k = true -> key_eq k k = true.
Proof.
  induction k as [|[c a] r IH]; cbn [key_eq key_ok forallb snd]; intros H; [reflexivity|].
  apply andb_true_iff in H. destruct H as [Ha Hr].
  rewrite scalar_eq_refl by exact Ha. apply IH. exact Hr.
Qed.

Section KeyEq.
  Hypothesis FL : FloatEqLaws.

  Lemma scalar_eq_sym a b : scalar_eq a b = true -> scalar_eq b a = true.
  Proof.
    destruct a, b; cbn; intros H; try reflexivity; try discriminate.
    - apply Bool.eqb_prop in H. subst. apply Bool.eqb_reflx.
    - apply (feq_sym FL). exact H.
    - apply String.eqb_eq in H. subst. apply String.eqb_refl.
  Qed.

  Lemma scalar_eq_trans a b c : scalar_eq a b = true -> scalar_eq b c = true -> scalar_eq a c = true.
  Proof.
    destruct a, b; cbn; intros H1; try discriminate; destruct c; cbn; intros H2;
      try reflexivity; try discriminate.
    - apply Bool.eqb_prop in H1, H2. subst. apply Bool.eqb_reflx.
    - eapply (feq_trans FL); eassumption.
    - apply String.eqb_eq in H1, H2. subst. apply String.eqb_refl.
  Qed.

  Lemma key_eq_sym k1 : forall k2, key_eq k1 k2 = true -> key_eq k2 k1 = true.
  Proof.
    induction k1 as [|[c a] r1 IH]; intros [|[c' b] r2]; cbn [key_eq]; intros H;
      try reflexivity; try discriminate.
    apply andb_true_iff in H. destruct H as [Ha Hr].
    rewrite (scalar_eq_sym _ _ Ha). apply IH. exact Hr.
  Qed.

  Lemma key_eq_trans k1 : forall k2 k3,
    key_eq k1 k2 = true -> key_eq k2 k3 = true -> key_eq k1 k3 = true.
  Proof.
    induction k1 as [|[c a] r1 IH]; intros [|[c' b] r2] [|[c'' d] r3]; cbn [key_eq];
      intros H1 H2; try reflexivity; try discriminate.
    apply andb_true_iff in H1. destruct H1 as [Ha Hr].
    apply andb_true_iff in H2. destruct H2 as [Hb Hr'].
    rewrite (scalar_eq_trans _ _ _ Ha Hb). eapply IH; eassumption.
  Qed.

  Lemma rows_ok_refl cols rows :
    rows_ok cols rows = true ->
    forall r, In r rows -> key_eq (key_of cols r) (key_of cols r) = true.
  Proof.
    intros H r Hin. unfold rows_ok in H. rewrite forallb_forall in H. specialize (H r Hin).
    destruct r as [| | | | |kvs]; try discriminate.
    apply key_eq_refl, key_of_ok, H.
  Qed.

  (* the headline: the engine's groups are the textbook groups *)
  Theorem group_rows_spec cols rows :
    rows_ok cols rows = true -> group_rows cols rows [] = Ok (group_spec cols rows).
  Proof.
    intros H. rewrite group_rows_scan; [|exact H|constructor].
    f_equal. unfold group_spec. apply (scan_is_group_by _ _ key_eq_sym key_eq_trans).
    apply rows_ok_refl. exact H.
  Qed.

  Lemma group_spec_perm cols rows :
    rows_ok cols rows = true -> Permutation (List.concat (map snd (group_spec cols rows))) rows.
  Proof.
    intros H. apply (group_by_perm _ _ key_eq_sym key_eq_trans), rows_ok_refl, H.
  Qed.

  Lemma group_spec_count cols rows :
    rows_ok cols rows = true ->
    list_sum (map (fun g => List.length (snd g)) (group_spec cols rows)) = List.length rows.
  Proof.
    intros H. apply (group_by_count _ _ key_eq_sym key_eq_trans), rows_ok_refl, H.
  Qed.

  Lemma group_spec_exactly_one cols rows r :
    rows_ok cols rows = true -> In r rows ->
    exists g, In g (group_spec cols rows) /\ In r (snd g) /\
              forall g', In g' (group_spec cols rows) -> In r (snd g') -> g' = g.
  Proof.
    intros H. apply (group_by_exactly_one _ _ key_eq_sym key_eq_trans), rows_ok_refl, H.
  Qed.

  Lemma group_spec_same_group_iff cols rows r1 r2 :
    rows_ok cols rows = true -> In r1 rows -> In r2 rows ->
    ((exists g, In g (group_spec cols rows) /\ In r1 (snd g) /\ In r2 (snd g)) <->
     key_eq (key_of cols r1) (key_of cols r2) = true).
  Proof.
    intros H. apply (group_by_same_group_iff _ _ key_eq_sym key_eq_trans), rows_ok_refl, H.
  Qed.

  Lemma group_spec_first_member cols rows g :
    rows_ok cols rows = true -> In g (group_spec cols rows) ->
    exists r rest, snd g = r :: rest /\ fst g = key_of cols r.
  Proof.
    intros H. apply (group_by_first_member _ _ key_eq_sym key_eq_trans), rows_ok_refl, H.
  Qed.
End KeyEq.

Lemma group_spec_keys_distinct cols rows :
  pairwise_distinct key_eq (map fst (group_spec cols rows)).
Proof. apply group_by_keys_distinct. Qed.

(* Leibniz NoDup of the key rows follows: equal keys in scope are key_eq *)
Lemma group_spec_keys_NoDup cols rows :
  rows_ok cols rows = true -> NoDup (map fst (group_spec cols rows)).
Proof.
  intros H.
  assert (Hok : forall k, In k (map fst (group_spec cols rows)) -> key_eq k k = true).
  { intros k Hk. unfold group_spec, group_by in Hk. rewrite map_map in Hk. cbn [fst] in Hk.
    rewrite map_id in Hk. apply first_keys_from_is_key in Hk. destruct Hk as (r & Hr & ->).
    unfold rows_ok in H. rewrite forallb_forall in H. specialize (H r Hr).
    destruct r as [| | | | |kvs]; try discriminate. apply key_eq_refl, key_of_ok, H. }
  pose proof (group_spec_keys_distinct cols rows) as Hd. unfold pairwise_distinct in Hd.
  induction Hd as [|k l Hall Hd IH]; constructor.
  - intros Hin. rewrite Forall_forall in Hall. specialize (Hall k Hin).
    rewrite Hok in Hall by (left; reflexivity). discriminate.
  - apply IH. intros k' Hk'. apply Hok. right. exact Hk'.
Qed.

(* the members of a group are the rows with its key, in source order; groups are in order of first
   appearance — both are the definition of the specification *)
Lemma group_spec_members cols rows g :
  In g (group_spec cols rows) -> snd g = filter (fun r => key_eq (fst g) (key_of cols r)) rows.
Proof.
  unfold group_spec, group_by. intros H. apply in_map_iff in H. destruct H as (k & <- & _).
  reflexivity.
Qed.

Lemma group_spec_order cols rows :
  map fst (group_spec cols rows) = first_keys (key_of cols) key_eq rows.
Proof. unfold group_spec, group_by. rewrite map_map. cbn [fst]. apply map_id. Qed.

(* ---- uncomparable key values: the Go run-time panic ---- *)

Definition both_containers (a b : value) : bool :=
  match a, b with
  | VArr _, VArr _ => true
  | VObj _, VObj _ => true
  | _, _ => false
  end.

Lemma group_rows_uncomparable c cs kv1 kv2 rest :
  readable (c :: cs) (VObj kv1) = true -> readable (c :: cs) (VObj kv2) = true ->
  both_containers (key_value c (VObj kv1)) (key_value c (VObj kv2)) = true ->
  group_rows (c :: cs) (VObj kv1 :: VObj kv2 :: rest) [] = Panic.
Proof.
  intros R1 R2 H. cbn [group_rows]. rewrite !group_key_readable by assumption. cbn [bind group_insert].
  cbn [key_of map keys_match].
  destruct (key_value c (VObj kv1)), (key_value c (VObj kv2)); try discriminate; reflexivity.
Qed.

(* ---- a grouping column without a value: the query is refused ---- *)

(* the engine's read of the path fails exactly as selector.go Reader does: a key step on a scalar, an index step
   on an object or a scalar, an index outside the array *)
Lemma key_reader_stuck p : forall v, path_stuck p v = true -> key_reader p v = Err.
Proof.
  induction p as [|st rest IH]; intros v H; [discriminate|].
  destruct st as [k|i]; destruct v as [|b|f|t|l|kvs]; cbn [path_stuck] in H; try discriminate; try reflexivity.
  - cbn [key_reader]. apply IH. exact H.
  - cbn [key_reader].
    destruct ((0 <=? i)%Z && (i <? Z.of_nat (List.length l))%Z) eqn:Hr.
    + apply andb_true_iff in Hr. destruct Hr as [H0 H1].
      apply Z.leb_le in H0. apply Z.ltb_lt in H1.
      replace (i =? -1)%Z with false by (symmetry; apply Z.eqb_neq; lia).
      replace (i <? 0)%Z with false by (symmetry; apply Z.ltb_ge; lia).
      replace (Z.of_nat (List.length l) <=? i)%Z with false by (symmetry; apply Z.leb_gt; lia).
      cbn [orb]. destruct (nth_error l (Z.to_nat i)) as [y|]; [|discriminate].
      apply IH. exact H.
    + destruct (i =? -1)%Z eqn:Hm; [discriminate|].
      apply andb_false_iff in Hr.
      replace ((i <? 0)%Z || (Z.of_nat (List.length l) <=? i)%Z) with true; [reflexivity|].
      symmetry. apply orb_true_iff. destruct Hr as [Hr|Hr].
      * left. apply Z.ltb_lt. apply Z.leb_gt in Hr. exact Hr.
      * right. apply Z.leb_le. apply Z.ltb_ge in Hr. exact Hr.
Qed.

(* the key of a row is not read when one of its columns is stuck (the columns before it have values) *)
Lemma group_key_stuck pre c post r :
  readable pre r = true -> path_stuck (gk_path c) r = true -> group_key (pre ++ c :: post) r = Err.
Proof.
  unfold readable, group_key. induction pre as [|d pre IH]; cbn [app mapM forallb]; intros Hp Hs.
  - rewrite (key_reader_stuck _ _ Hs). reflexivity.
  - apply andb_true_iff in Hp. destruct Hp as [Hd Hp].
    destruct (path_value (gk_path d) r) as [x|] eqn:Ed; [|discriminate].
    rewrite (key_reader_path_value _ _ _ Ed). cbn [bind]. rewrite (IH Hp Hs). reflexivity.
Qed.

(* rows in scope, then a row one of whose grouping columns has no value: no partition is returned *)
Lemma group_rows_stuck cols good bad rest pre c post :
  rows_ok cols good = true -> cols = pre ++ c :: post ->
  readable pre bad = true -> path_stuck (gk_path c) bad = true ->
  group_rows cols (good ++ bad :: rest) [] = Err.
Proof.
  intros Hok -> Hp Hs.
  assert (G : forall gs, groups_ok gs ->
            group_rows (pre ++ c :: post) (good ++ bad :: rest) gs = Err).
  { induction good as [|r rs IH]; intros gs Hgs.
    - cbn [app group_rows]. rewrite (group_key_stuck _ _ _ _ Hp Hs). reflexivity.
    - cbn [rows_ok forallb] in Hok. apply andb_true_iff in Hok. destruct Hok as [Hr Hrs].
      destruct r as [| | | | |kvs]; try discriminate.
      cbn [app group_rows]. rewrite group_key_obj by exact Hr. cbn [bind].
      rewrite group_insert_ok by exact Hgs. cbn [bind].
      apply IH; [exact Hrs|]. apply ins_groups_ok; [apply key_of_ok; exact Hr|exact Hgs]. }
  apply G. constructor.
Qed.

(* ================================================================== *)
(* Part 3: aggregates read exactly the member rows                      *)
(* ================================================================== *)

Definition res_of_option {A} (o : option A) : res A :=
  match o with Some a => Ok a | None => Err end.

Lemma fold_nums_spec f col : forall acc seen,
  numeric_col col = true ->
  fold_nums f acc seen col =
  Ok (fold_left f (nums col) acc, seen || negb (match nums col with [] => true | _ => false end)).
Proof.
  induction col as [|v col IH]; intros acc seen H; cbn [fold_nums nums flat_map fold_left].
  - rewrite orb_false_r. reflexivity.
  - cbn [numeric_col forallb] in H. apply andb_true_iff in H. destruct H as [Hv Hc].
    destruct v; try discriminate.
    + cbn [app]. apply IH. exact Hc.
    + cbn [to_float64 bind app fold_left]. rewrite IH by exact Hc.
      cbn [orb negb]. rewrite orb_true_r. reflexivity.
Qed.

Lemma null_or_model (g : list float -> float) col (r : float) :
  (if false || negb (match nums col with [] => true | _ => false end) then VNum r else VNull) =
  match nums col with [] => VNull | _ => VNum r end.
Proof. destruct (nums col); reflexivity. Qed.

(* the aggregate bodies are the textbook folds *)
Lemma agg_apply_spec f ms col :
  match col with Some c => numeric_col c = true | None => True end ->
  agg_apply f ms col = res_of_option (agg_spec f (List.length ms) col).
Proof.
  destruct col as [c|]; intros H.
  - destruct f; cbn [agg_apply agg_spec res_of_option]; try reflexivity;
      rewrite fold_nums_spec by exact H; cbn [bind fst snd]; unfold null_or;
      destruct (nums c); reflexivity.
  - destruct f; reflexivity.
Qed.

(* reading a column path off an array reads it off every element *)
Lemma reader_arr k rest l :
  reader (k :: rest) (VArr l) = let! l' := mapM (reader (k :: rest)) l in Ok (VArr l').
Proof.
  cbn [reader]. f_equal. induction l as [|x l IH]; [reflexivity|].
  cbn [mapM]. rewrite <- IH. reflexivity.
Qed.

Lemma key_reader_arr k rest l :
  key_reader (KKey k :: rest) (VArr l) = let! l' := mapM (key_reader (KKey k :: rest)) l in Ok (VArr l').
Proof.
  cbn [key_reader]. f_equal. induction l as [|x l IH]; [reflexivity|].
  cbn [mapM]. rewrite <- IH. reflexivity.
Qed.

(* key paths made of key steps only are read like a column path *)
Lemma key_reader_keys ks : forall v, key_reader (map KKey ks) v = reader ks v.
Proof.
  induction ks as [|k ks IH]; intros v; [reflexivity|]. cbn [map].
  induction v as [| | | |l IHl|kvs _] using value_ind'; try reflexivity.
  - rewrite key_reader_arr, reader_arr. f_equal.
    induction IHl as [|x l Hx _ IHl']; [reflexivity|].
    cbn [mapM]. rewrite Hx, IHl'. reflexivity.
  - cbn [key_reader reader]. apply IH.
Qed.

Definition obj_rows (ms : list value) : bool :=
  forallb (fun m => match m with VObj _ => true | _ => false end) ms.

Lemma mapM_reader_column c ms :
  obj_rows ms = true -> mapM (reader [c]) ms = Ok (map (column c) ms).
Proof.
  induction ms as [|m ms IH]; cbn [obj_rows forallb mapM map]; intros H; [reflexivity|].
  apply andb_true_iff in H. destruct H as [Hm Hms]. destruct m; try discriminate.
  rewrite reader_one_obj. cbn [bind]. rewrite IH by exact Hms. reflexivity.
Qed.

Lemma eval_agg_count_star ms : eval_agg ms ACount None = Ok (RVal (count_val (List.length ms))).
Proof. reflexivity. Qed.

(* general path: whatever the per-member reads give is the column the aggregate sees *)
Lemma eval_agg_path ms f k rest col :
  mapM (reader (k :: rest)) ms = Ok col ->
  eval_agg ms f (Some (k :: rest)) = let! v := agg_apply f ms (Some col) in Ok (RVal v).
Proof. intros H. unfold eval_agg. rewrite reader_arr, H. reflexivity. Qed.

Lemma eval_agg_column ms f c :
  obj_rows ms = true -> numeric_col (map (column c) ms) = true ->
  eval_agg ms f (Some [c]) =
  let! v := res_of_option (agg_spec f (List.length ms) (Some (map (column c) ms))) in Ok (RVal v).
Proof.
  intros Ho Hn. rewrite (eval_agg_path ms f c [] _ (mapM_reader_column c ms Ho)).
  rewrite agg_apply_spec by exact Hn. reflexivity.
Qed.

(* AVG = SUM / COUNT on a column without NULL *)
Lemma avg_is_sum_over_count n col :
  numeric_col col = true -> has_null col = false -> col <> [] ->
  exists s, agg_spec ASum n (Some col) = Some (VNum s) /\
            agg_spec AAvg n (Some col) = Some (VNum (s / float_of_Z (Z.of_nat (List.length col)))) /\
            agg_spec ACount n (Some col) = Some (VNum (float_of_Z (Z.of_nat (List.length col)))) /\
            List.length (nums col) = List.length col.
Proof.
  intros Hn Hz Hne. exists (fsum (nums col)).
  assert (Hlen : List.length (nums col) = List.length col).
  { clear Hne. induction col as [|v col IH]; [reflexivity|].
    cbn [numeric_col forallb] in Hn. apply andb_true_iff in Hn. destruct Hn as [Hv Hc].
    cbn [has_null existsb] in Hz. apply orb_false_iff in Hz. destruct Hz as [Hz1 Hz2].
    destruct v; try discriminate. cbn [nums flat_map app List.length]. f_equal. apply IH; assumption. }
  cbn [agg_spec]. unfold null_or, count_val.
  destruct (nums col) eqn:E.
  - destruct col; [congruence|discriminate].
  - repeat split; assumption.
Qed.

(* MIN / MAX are extrema of the non-NULL members, given the strict-order laws of IEEE < *)
Section Extrema.
  Hypothesis LT : FloatLtLaws.

  Lemma fold_min_below ns : forall x a,
    PrimFloat.ltb x (fold_left (fun m n => if PrimFloat.ltb n m then n else m) ns a) = true ->
    PrimFloat.ltb x a = true.
  Proof.
    induction ns as [|y ns IHn]; intros x a Hr; cbn [fold_left] in Hr; [exact Hr|].
    destruct (PrimFloat.ltb y a) eqn:Hy.
    - apply IHn in Hr. exact (flt_trans LT _ _ _ Hr Hy).
    - apply IHn in Hr. exact Hr.
  Qed.

  Lemma fold_max_above ns : forall x a,
    PrimFloat.ltb (fold_left (fun m n => if PrimFloat.ltb m n then n else m) ns a) x = true ->
    PrimFloat.ltb a x = true.
  Proof.
    induction ns as [|y ns IHn]; intros x a Hr; cbn [fold_left] in Hr; [exact Hr|].
    destruct (PrimFloat.ltb a y) eqn:Hy.
    - apply IHn in Hr. exact (flt_trans LT _ _ _ Hy Hr).
    - apply IHn in Hr. exact Hr.
  Qed.

  Lemma fold_min_lower ns : forall acc,
    let r := fold_left (fun m n => if PrimFloat.ltb n m then n else m) ns acc in
    In r (acc :: ns) /\ PrimFloat.ltb acc r = false /\ forall n, In n ns -> PrimFloat.ltb n r = false.
  Proof.
    induction ns as [|n ns IH]; intros acc; cbn [fold_left].
    - split; [left; reflexivity|]. split; [apply (flt_irrefl LT)|intros ? []].
    - cbv zeta in *. destruct (PrimFloat.ltb n acc) eqn:Hn.
      + destruct (IH n) as (Hin & Hacc & Hall). split; [|split].
        * right. exact Hin.
        * destruct (PrimFloat.ltb acc _) eqn:Ha; [|reflexivity].
          rewrite (flt_trans LT _ _ _ Hn Ha) in Hacc. discriminate.
        * intros x [Hx|Hx]; [subst x; exact Hacc|apply Hall; exact Hx].
      + destruct (IH acc) as (Hin & Hacc & Hall). split; [|split].
        * destruct Hin as [Hin|Hin]; [left; exact Hin|right; right; exact Hin].
        * exact Hacc.
        * intros x [Hx|Hx]; [subst x|apply Hall; exact Hx].
          match goal with |- ?t = false => destruct t eqn:Hx; [|reflexivity] end.
          apply fold_min_below in Hx. congruence.
  Qed.

  Lemma fold_max_upper ns : forall acc,
    let r := fold_left (fun m n => if PrimFloat.ltb m n then n else m) ns acc in
    In r (acc :: ns) /\ PrimFloat.ltb r acc = false /\ forall n, In n ns -> PrimFloat.ltb r n = false.
  Proof.
    induction ns as [|n ns IH]; intros acc; cbn [fold_left].
    - split; [left; reflexivity|]. split; [apply (flt_irrefl LT)|intros ? []].
    - cbv zeta in *. destruct (PrimFloat.ltb acc n) eqn:Hn.
      + destruct (IH n) as (Hin & Hacc & Hall). split; [|split].
        * right. exact Hin.
        * destruct (PrimFloat.ltb _ acc) eqn:Ha; [|reflexivity].
          rewrite (flt_trans LT _ _ _ Ha Hn) in Hacc. discriminate.
        * intros x [Hx|Hx]; [subst x; exact Hacc|apply Hall; exact Hx].
      + destruct (IH acc) as (Hin & Hacc & Hall). split; [|split].
        * destruct Hin as [Hin|Hin]; [left; exact Hin|right; right; exact Hin].
        * exact Hacc.
        * intros x [Hx|Hx]; [subst x|apply Hall; exact Hx].
          match goal with |- ?t = false => destruct t eqn:Hx; [|reflexivity] end.
          apply fold_max_above in Hx. congruence.
  Qed.

  Lemma fmin_is_minimum ns :
    In (fmin ns) (largest_double :: ns) /\ forall n, In n ns -> PrimFloat.ltb n (fmin ns) = false.
  Proof. destruct (fold_min_lower ns largest_double) as (H1 & _ & H2). split; assumption. Qed.

  Lemma fmax_is_maximum ns :
    In (fmax ns) ((- largest_double)%float :: ns) /\
    forall n, In n ns -> PrimFloat.ltb (fmax ns) n = false.
  Proof. destruct (fold_max_upper ns (- largest_double)%float) as (H1 & _ & H2). split; assumption. Qed.
End Extrema.

(* ---- the key row and "*" of a group's output row ---- *)

Lemma lookup_obj_set_same k v kvs : lookup k (obj_set k v kvs) = Some v.
Proof.
  induction kvs as [|[k' v'] r IH]; cbn [obj_set lookup].
  - rewrite String.eqb_refl. reflexivity.
  - destruct (String.compare k k') eqn:C; cbn [lookup]; rewrite ?String.eqb_refl; try reflexivity.
    destruct (String.eqb k k') eqn:E; [|exact IH].
    apply String.eqb_eq in E. subst k'. rewrite string_compare_refl in C. discriminate.
Qed.

Lemma lookup_obj_set_other k k' v kvs : k <> k' -> lookup k (obj_set k' v kvs) = lookup k kvs.
Proof.
  intros Hne. assert (Hf : String.eqb k k' = false) by (apply String.eqb_neq; exact Hne).
  induction kvs as [|[k1 v1] r IH]; cbn [obj_set lookup].
  - rewrite Hf. reflexivity.
  - destruct (String.compare k' k1) eqn:C; cbn [lookup]; rewrite ?Hf.
    + apply String.compare_eq_iff in C. subst k1. rewrite Hf. reflexivity.
    + reflexivity.
    + destruct (String.eqb k k1); [reflexivity|exact IH].
Qed.

Lemma lookup_star_group_row g : lookup "*" (group_row g) = Some (VArr (snd g)).
Proof. unfold group_row. apply lookup_obj_set_same. Qed.

Lemma lookup_obj_merge_key (c : gkey) (r : value) cols : forall acc,
  (forall c', In c' cols -> gk_name c' = gk_name c -> c' = c) ->
  In c cols -> lookup (gk_name c) (obj_merge acc (key_of cols r)) = Some (key_value c r).
Proof.
  unfold obj_merge.
  induction cols as [|c0 cs IH]; intros acc Hun Hin; [destruct Hin|].
  cbn [key_of map fold_left fst snd].
  destruct (in_dec string_dec (gk_name c) (map gk_name cs)) as [Hc|Hc].
  - apply in_map_iff in Hc. destruct Hc as (c' & Hn & Hc').
    assert (c' = c) by (apply Hun; [right; exact Hc'|exact Hn]). subst c'.
    apply IH; [|exact Hc']. intros c' H1 H2. apply Hun; [right; exact H1|exact H2].
  - destruct Hin as [->|Hin]; [|exfalso; apply Hc; apply in_map; exact Hin].
    clear IH Hun. fold (key_of cs r).
    assert (H : forall acc, lookup (gk_name c) acc = Some (key_value c r) ->
              lookup (gk_name c) (fold_left (fun a kv => obj_set (fst kv) (snd kv) a) (key_of cs r) acc)
              = Some (key_value c r)).
    { clear acc. induction cs as [|c1 cs IH]; intros acc Ha; [exact Ha|].
      cbn [key_of map fold_left fst snd]. apply IH.
      - intros Hx. apply Hc. right. exact Hx.
      - rewrite lookup_obj_set_other; [exact Ha|]. intros Heq. apply Hc. left. symmetry. exact Heq. }
    apply H. apply lookup_obj_set_same.
Qed.

(* the grouping columns of a group's output row carry the group's key values, under the names BuildGroup
   registered them with (one name = one column: the group definition of the code is a map keyed by that text) *)
Lemma lookup_key_group_row cols (r : value) ms (c : gkey) :
  names_unambiguous cols ->
  In c cols -> gk_name c <> "*"%string ->
  lookup (gk_name c) (group_row (key_of cols r, ms)) = Some (key_value c r).
Proof.
  intros Hun Hin Hne. unfold group_row, obj_of_list. cbn [fst snd].
  rewrite lookup_obj_set_other by exact Hne. apply lookup_obj_merge_key; [|exact Hin].
  intros c' H1 H2. apply Hun; assumption.
Qed.

(* ================================================================== *)
(* Part 4: the SELECT pipeline                                          *)
(* ================================================================== *)

(* the value of one aggregate call over the member rows [ms] *)
Definition agg_value (ms : list value) (f : aggfn) (arg : option (list string)) : res value :=
  let! col := match arg with
              | None => Ok None
              | Some p => let! v := reader p (VArr ms) in
                          match v with VArr l => Ok (Some l) | _ => Err end
              end in
  agg_apply f ms col.

Lemma eval_agg_value ms f arg : eval_agg ms f arg = let! v := agg_value ms f arg in Ok (RVal v).
Proof.
  unfold eval_agg, agg_value.
  destruct (match arg with
            | None => Ok None
            | Some p => let! v := reader p (VArr ms) in
                        match v with VArr l => Ok (Some l) | _ => Err end
            end); reflexivity.
Qed.

Lemma agg_value_count_star ms : agg_value ms ACount None = Ok (count_val (List.length ms)).
Proof. reflexivity. Qed.

Lemma agg_value_column ms f c :
  obj_rows ms = true -> numeric_col (map (column c) ms) = true ->
  agg_value ms f (Some [c]) = res_of_option (agg_spec f (List.length ms) (Some (map (column c) ms))).
Proof.
  intros Ho Hn. unfold agg_value. rewrite reader_arr, (mapM_reader_column c ms Ho). cbn [bind].
  apply agg_apply_spec. exact Hn.
Qed.

(* no member: COUNT = 0, the others NULL, whatever the argument *)
Lemma agg_value_empty f arg :
  agg_value [] f arg =
  match f, arg with
  | ACount, _ => Ok (VNum 0%float)
  | _, None => Err
  | _, Some _ => Ok VNull
  end.
Proof.
  unfold agg_value. destruct arg as [[|k rest]|].
  - destruct f; reflexivity.
  - rewrite reader_arr. destruct f; reflexivity.
  - destruct f; reflexivity.
Qed.

(* what one select item contributes to the output object, given the member rows the aggregates
   read and the current row the columns read *)
Definition item_cells (ms : list value) (cur : row) (it : sel_item stmt) : res (list (string * value)) :=
  match it with
  | IStar => Ok cur
  | IExpr (EAgg f arg) name => let! v := agg_value ms f arg in Ok [(name, v)]
  | IExpr (ECol p) name => let! v := reader p (VObj cur) in Ok [(name, v)]
  | _ => OutOfModel
  end.

Definition simple_item (it : sel_item stmt) : bool :=
  match it with
  | IStar => true
  | IExpr (EAgg _ _) _ => true
  | IExpr (ECol _) _ => true
  | _ => false
  end.

Definition item_name (it : sel_item stmt) : string :=
  match it with IExpr _ name => name | IStar => "*"%string end.

Lemma obj_merge_app acc a b : obj_merge acc (a ++ b) = obj_merge (obj_merge acc a) b.
Proof. unfold obj_merge. apply fold_left_app. Qed.

Lemma select_expr_simple (E : env stmt) ms cur items : forall acc,
  e_hard E = false ->
  (forall f arg, e_agg E f arg cur = eval_agg ms f arg) ->
  forallb simple_item items = true ->
  select_expr E cur items acc =
  let! kvss := mapM (item_cells ms cur) items in Ok (obj_merge acc (List.concat kvss)).
Proof.
  intros acc Hh Hagg. revert acc.
  induction items as [|it items IH]; intros acc Hs; [reflexivity|].
  cbn [forallb] in Hs. apply andb_true_iff in Hs. destruct Hs as [Hi Hs].
  destruct it as [|e name].
  - cbn [select_expr mapM item_cells bind]. rewrite IH by exact Hs.
    destruct (mapM (item_cells ms cur) items); cbn [bind]; try reflexivity.
    cbn [List.concat]. rewrite obj_merge_app. reflexivity.
  - destruct e; try discriminate.
    + (* column *)
      cbn [select_expr eval mapM item_cells bind]. unfold col_path. rewrite Hh.
      cbn [value_of]. destruct (reader path (VObj cur)); cbn [bind]; try reflexivity.
      rewrite IH by exact Hs.
      destruct (mapM (item_cells ms cur) items); cbn [bind]; try reflexivity.
    + (* aggregate *)
      cbn [select_expr eval mapM item_cells]. rewrite Hagg, eval_agg_value.
      destruct (agg_value ms f arg); cbn [bind value_of]; try reflexivity.
      rewrite IH by exact Hs.
      destruct (mapM (item_cells ms cur) items); cbn [bind]; try reflexivity.
Qed.

Lemma lookup_obj_merge_notin k kvs : forall acc,
  ~ In k (map fst kvs) -> lookup k (obj_merge acc kvs) = lookup k acc.
Proof.
  unfold obj_merge. induction kvs as [|[k' v'] kvs IH]; intros acc Hn; [reflexivity|].
  cbn [fold_left fst snd]. rewrite IH.
  - apply lookup_obj_set_other. intros ->. apply Hn. left. reflexivity.
  - intros Hin. apply Hn. right. exact Hin.
Qed.

Lemma lookup_obj_merge_nodup k v kvs : forall acc,
  NoDup (map fst kvs) -> In (k, v) kvs -> lookup k (obj_merge acc kvs) = Some v.
Proof.
  induction kvs as [|[k' v'] kvs IH]; intros acc Hnd Hin; [destruct Hin|].
  cbn [map fst] in Hnd. inversion Hnd as [|? ? Hnot Hnd']; subst.
  destruct Hin as [Heq|Hin].
  - inversion Heq; subst. change (obj_merge acc ((k, v) :: kvs)) with (obj_merge (obj_set k v acc) kvs).
    rewrite lookup_obj_merge_notin by exact Hnot. apply lookup_obj_set_same.
  - change (obj_merge acc ((k', v') :: kvs)) with (obj_merge (obj_set k' v' acc) kvs).
    apply IH; assumption.
Qed.

(* all-aggregate select lists: one cell per item, named as the item *)
Lemma mapM_cells_agg ms cur items : forall kvss,
  forallb is_agg_item items = true ->
  mapM (item_cells ms cur) items = Ok kvss ->
  map fst (List.concat kvss) = map item_name items /\
  forall f arg name, In (IExpr (EAgg f arg) name) items ->
    exists v, agg_value ms f arg = Ok v /\ In (name, v) (List.concat kvss).
Proof.
  induction items as [|it items IH]; intros kvss Ha Hm.
  - cbn [mapM] in Hm. inversion Hm; subst. split; [reflexivity|]. intros ? ? ? [].
  - cbn [forallb] in Ha. apply andb_true_iff in Ha. destruct Ha as [Hi Ha].
    destruct it as [|e name]; [discriminate|]. destruct e; try discriminate.
    cbn [mapM item_cells] in Hm.
    destruct (agg_value ms f arg) as [v| | |] eqn:Hv; cbn [bind] in Hm; try discriminate.
    destruct (mapM (item_cells ms cur) items) as [rest| | |] eqn:Hr; cbn [bind] in Hm; try discriminate.
    inversion Hm; subst. destruct (IH rest Ha eq_refl) as [Hn Hin].
    split.
    + cbn [List.concat app map fst item_name]. f_equal. exact Hn.
    + intros f' arg' name' [Heq|Hin'].
      * inversion Heq; subst. exists v. split; [exact Hv|left; reflexivity].
      * destruct (Hin _ _ _ Hin') as (v' & Hv' & Hi'). exists v'. split; [exact Hv'|right; exact Hi'].
Qed.

Lemma is_agg_simple items : forallb is_agg_item items = true -> forallb simple_item items = true.
Proof.
  induction items as [|it items IH]; cbn [forallb]; intros H; [reflexivity|].
  apply andb_true_iff in H. destruct H as [Hi Hs]. rewrite IH by exact Hs.
  destruct it as [|e name]; [discriminate|]. destruct e; try discriminate. reflexivity.
Qed.

Lemma all_aggregate_forall (items : list (sel_item stmt)) :
  all_aggregate items = true -> forallb is_agg_item items = true /\ items <> [].
Proof. destruct items; [discriminate|]. intros H. split; [exact H|discriminate]. Qed.

(* ---- HAVING ---- *)

Definition out_row (g : group) : value := VObj (group_row g).

Lemma exec_group_by_nogroup (E : env stmt) s rows : s_group s = [] -> exec_group_by E s rows = Ok rows.
Proof. intros H. unfold exec_group_by. rewrite H. reflexivity. Qed.

Lemma exec_group_by_having (E : env stmt) s rows c cs gs h :
  s_group s = c :: cs ->
  group_rows (c :: cs) rows [] = Ok gs ->
  (forall g, In g gs -> eval_cond E (group_row g) (s_having s) = Ok (h g)) ->
  exec_group_by E s rows = Ok (map out_row (filter h gs)).
Proof.
  intros Hg Hgs Hh. unfold exec_group_by. rewrite Hg, Hgs. cbn [bind].
  match goal with |- (let! kept := ?loop gs in Ok kept) = _ =>
    assert (Hl : loop gs = Ok (map out_row (filter h gs))) end.
  { clear Hgs. induction gs as [|g gs IH]; [reflexivity|].
    rewrite (Hh g (or_introl eq_refl)). cbn [bind].
    rewrite IH by (intros; apply Hh; right; assumption). cbn [bind filter].
    destruct (h g); reflexivity. }
  rewrite Hl. reflexivity.
Qed.

Lemma exec_group_by_no_having (E : env stmt) s rows c cs gs :
  s_group s = c :: cs -> s_having s = None ->
  group_rows (c :: cs) rows [] = Ok gs ->
  exec_group_by E s rows = Ok (map out_row gs).
Proof.
  intros Hg Hn Hgs.
  rewrite (exec_group_by_having E s rows c cs gs (fun _ => true) Hg Hgs).
  - f_equal. f_equal. clear. induction gs as [|g gs IH]; cbn [filter]; [reflexivity|]. f_equal. exact IH.
  - intros g _. rewrite Hn. reflexivity.
Qed.

Lemma exec_group_by_panic (E : env stmt) s rows c cs :
  s_group s = c :: cs -> group_rows (c :: cs) rows [] = Panic -> exec_group_by E s rows = Panic.
Proof. intros Hg Hp. unfold exec_group_by. rewrite Hg, Hp. reflexivity. Qed.

(* ---- SELECT over group rows and over the whole table ---- *)

Lemma exec_select_groups (E : env stmt) s c cs gs :
  s_group s = c :: cs ->
  exec_select E s (map out_row gs) =
  mapM (fun g => let! r := select_expr E (group_row g) (s_items s) [] in Ok (VObj r)) gs.
Proof.
  intros Hg. unfold exec_select. rewrite Hg. cbn [andb].
  induction gs as [|g gs IH]; [reflexivity|].
  cbn [map mapM out_row]. rewrite IH. reflexivity.
Qed.

Lemma exec_select_whole (E : env stmt) s rows :
  s_group s = [] -> all_aggregate (s_items s) = true ->
  exec_select E s rows = let! r := select_expr E [] (s_items s) [] in Ok [VObj r].
Proof. intros Hg Ha. unfold exec_select. rewrite Hg, Ha. reflexivity. Qed.

Section Pipeline.
  Variable rec : qctx -> job -> res value.
  Variable call : string -> string -> list value -> row -> res raw.
  Variable join : jointype -> jstrategy -> list value -> list value -> string -> string ->
                  expr stmt -> row -> res (list value).

  Notation env_of := (mk_env rec call join).

  Lemma mk_env_hard ctx s filtered : e_hard (env_of ctx s filtered) = false.
  Proof. reflexivity. Qed.

  (* no GROUP BY: every aggregate call reads exactly the rows that passed WHERE *)
  Lemma mk_env_agg_nogroup ctx s filtered f arg cur :
    s_group s = [] -> e_agg (env_of ctx s filtered) f arg cur = eval_agg filtered f arg.
  Proof. intros H. cbn [mk_env e_agg]. rewrite H. reflexivity. Qed.

  (* GROUP BY: on a group's row every aggregate call reads exactly that group's members *)
  Lemma mk_env_agg_group ctx s filtered f arg g :
    s_group s <> [] -> e_agg (env_of ctx s filtered) f arg (group_row g) = eval_agg (snd g) f arg.
  Proof.
    intros H. cbn [mk_env e_agg]. destruct (s_group s); [contradiction|].
    rewrite lookup_star_group_row. reflexivity.
  Qed.

  (* a whole-table aggregate query yields exactly one row computed over [filtered] *)
  Lemma exec_select_whole_table ctx s filtered rows :
    s_group s = [] -> all_aggregate (s_items s) = true ->
    exec_select (env_of ctx s filtered) s rows =
    let! kvss := mapM (item_cells filtered []) (s_items s) in
    Ok [VObj (obj_of_list (List.concat kvss))].
  Proof.
    intros Hg Ha. rewrite exec_select_whole by assumption.
    destruct (all_aggregate_forall _ Ha) as [Hf _].
    rewrite (select_expr_simple _ filtered [] (s_items s) [] (mk_env_hard _ _ _)).
    - destruct (mapM (item_cells filtered []) (s_items s)); reflexivity.
    - intros f arg. apply mk_env_agg_nogroup. exact Hg.
    - apply is_agg_simple. exact Hf.
  Qed.

  (* ... and each call is computed from its own argument *)
  Lemma whole_table_independent ctx s filtered rows out f arg name :
    s_group s = [] -> all_aggregate (s_items s) = true ->
    NoDup (map item_name (s_items s)) ->
    In (IExpr (EAgg f arg) name) (s_items s) ->
    exec_select (env_of ctx s filtered) s rows = Ok out ->
    exists r v, out = [VObj r] /\ agg_value filtered f arg = Ok v /\ lookup name r = Some v.
  Proof.
    intros Hg Ha Hnd Hin Hex. rewrite exec_select_whole_table in Hex by assumption.
    destruct (mapM (item_cells filtered []) (s_items s)) as [kvss| | |] eqn:Hm; try discriminate.
    cbn [bind] in Hex. inversion Hex; subst.
    destruct (all_aggregate_forall _ Ha) as [Hf _].
    destruct (mapM_cells_agg _ _ _ _ Hf Hm) as [Hn Hall].
    destruct (Hall _ _ _ Hin) as (v & Hv & Hi).
    eexists. exists v. split; [reflexivity|]. split; [exact Hv|].
    apply lookup_obj_merge_nodup; [rewrite Hn; exact Hnd|exact Hi].
  Qed.

  (* GROUP BY: each output row is computed from its group alone *)
  Lemma exec_select_group_rows ctx s filtered c cs gs :
    s_group s = c :: cs -> forallb simple_item (s_items s) = true ->
    exec_select (env_of ctx s filtered) s (map out_row gs) =
    mapM (fun g => let! kvss := mapM (item_cells (snd g) (group_row g)) (s_items s) in
                   Ok (VObj (obj_of_list (List.concat kvss)))) gs.
  Proof.
    intros Hg Hs. rewrite (exec_select_groups _ s c cs gs Hg).
    induction gs as [|g gs IH]; [reflexivity|]. cbn [mapM]. rewrite IH. f_equal.
    rewrite (select_expr_simple _ (snd g) (group_row g) (s_items s) [] (mk_env_hard _ _ _)).
    - destruct (mapM (item_cells (snd g) (group_row g)) (s_items s)); reflexivity.
    - intros f arg. apply mk_env_agg_group. rewrite Hg. discriminate.
    - exact Hs.
  Qed.

  (* ---- WHERE, then GROUP BY ---- *)

  Definition where_ok (E : env stmt) (s : select stmt) (w : value -> bool) (from : list value) : Prop :=
    forall r, In r from -> exists kv, r = VObj kv /\ eval_cond E kv (s_where s) = Ok (w r).

  Lemma filter_rows_objs ctx s (E : env stmt) w from :
    where_ok E s w from -> filter_rows rec ctx s E from = Ok (filter w from).
  Proof.
    induction from as [|r from IH]; intros H; [reflexivity|].
    destruct (H r (or_introl eq_refl)) as (kv & -> & Hw).
    change (filter_rows rec ctx s E (VObj kv :: from)) with
      (let! keep := eval_cond E kv (s_where s) in
       let! rest := filter_rows rec ctx s E from in
       Ok (if keep then VObj kv :: rest else rest)).
    rewrite Hw. cbn [bind]. rewrite IH by (intros r' Hr'; apply H; right; exact Hr').
    cbn [bind filter]. destruct (w (VObj kv)); reflexivity.
  Qed.

  Definition drop_where (s : select stmt) : select stmt :=
    {| s_with := s_with s; s_from := s_from s; s_where := None; s_group := s_group s;
       s_having := s_having s; s_items := s_items s; s_distinct := s_distinct s;
       s_order := s_order s; s_limit := s_limit s; s_offset := s_offset s |}.

  Lemma filter_true {A} (l : list A) : filter (fun _ => true) l = l.
  Proof. induction l as [|a l IH]; cbn [filter]; [reflexivity|]. f_equal. exact IH. Qed.

  (* the query with WHERE = the query without WHERE run over the rows that passed *)
  Lemma run_select_where ctx s w from :
    where_ok (env_of ctx s []) s w from ->
    run_select rec call join ctx s (Some from) =
    run_select rec call join ctx (drop_where s) (Some (filter w from)).
  Proof.
    intros H. unfold run_select.
    rewrite (filter_rows_objs ctx s _ w from H).
    rewrite (filter_rows_objs ctx (drop_where s) _ (fun _ => true) (filter w from)).
    - rewrite filter_true. reflexivity.
    - intros r Hr. apply filter_In in Hr. destruct Hr as [Hr _].
      destruct (H r Hr) as (kv & -> & _). exists kv. split; reflexivity.
  Qed.

  (* grouping, HAVING, select list and every later stage see only the rows that passed WHERE *)
  Lemma run_select_sees_filtered ctx s w from :
    where_ok (env_of ctx s []) s w from ->
    run_select rec call join ctx s (Some from) =
    catch_panic
      (let filtered := filter w from in
       let E := env_of ctx s filtered in
       let! grouped := exec_group_by E s filtered in
       let! selected := exec_select E s grouped in
       let! ordered := exec_order_by (s_order s) (exec_distinct (s_distinct s) selected) in
       let! win := window ordered (List.length ordered) (s_limit s) (s_offset s) in
       Ok (VArr win)).
  Proof. intros H. unfold run_select. rewrite (filter_rows_objs ctx s _ w from H). reflexivity. Qed.
End Pipeline.

(* ================================================================== *)
(* Part 5: composites                                                   *)
(* ================================================================== *)

(* GROUP BY + HAVING against the specification *)
Lemma exec_group_by_spec (FL : FloatEqLaws) (E : env stmt) s rows c cs h :
  s_group s = c :: cs -> rows_ok (c :: cs) rows = true ->
  (forall g, In g (group_spec (c :: cs) rows) -> eval_cond E (group_row g) (s_having s) = Ok (h g)) ->
  exec_group_by E s rows = Ok (map out_row (filter h (group_spec (c :: cs) rows))).
Proof.
  intros Hg Hr Hh. eapply exec_group_by_having; [exact Hg| |exact Hh].
  apply group_rows_spec; assumption.
Qed.

Lemma exec_group_by_spec_no_having (FL : FloatEqLaws) (E : env stmt) s rows c cs :
  s_group s = c :: cs -> s_having s = None -> rows_ok (c :: cs) rows = true ->
  exec_group_by E s rows = Ok (map out_row (group_spec (c :: cs) rows)).
Proof.
  intros Hg Hn Hr. eapply exec_group_by_no_having; [exact Hg|exact Hn|].
  apply group_rows_spec; assumption.
Qed.

Lemma exec_group_by_uncomparable (E : env stmt) s c cs kv1 kv2 rest :
  s_group s = c :: cs ->
  readable (c :: cs) (VObj kv1) = true -> readable (c :: cs) (VObj kv2) = true ->
  both_containers (key_value c (VObj kv1)) (key_value c (VObj kv2)) = true ->
  exec_group_by E s (VObj kv1 :: VObj kv2 :: rest) = Panic.
Proof.
  intros Hg R1 R2 Hb. eapply exec_group_by_panic; [exact Hg|].
  apply group_rows_uncomparable; assumption.
Qed.

Lemma exec_group_by_err (E : env stmt) s rows :
  group_rows (s_group s) rows [] = Err -> s_group s <> [] -> exec_group_by E s rows = Err.
Proof.
  intros He Hn. unfold exec_group_by. destruct (s_group s) as [|c cs]; [congruence|].
  rewrite He. reflexivity.
Qed.

Lemma exec_group_by_stuck (E : env stmt) s good bad rest pre c post :
  rows_ok (s_group s) good = true -> s_group s = pre ++ c :: post ->
  readable pre bad = true -> path_stuck (gk_path c) bad = true ->
  exec_group_by E s (good ++ bad :: rest) = Err.
Proof.
  intros Hok Hg Hp Hs. apply exec_group_by_err.
  - eapply group_rows_stuck; eassumption.
  - rewrite Hg. destruct pre; discriminate.
Qed.

Section Composite.
  Variable rec : qctx -> job -> res value.
  Variable call : string -> string -> list value -> row -> res raw.
  Variable join : jointype -> jstrategy -> list value -> list value -> string -> string ->
                  expr stmt -> row -> res (list value).
  Notation env_of := (mk_env rec call join).

  (* the whole grouped query: WHERE, then the textbook groups of the survivors, then HAVING, then
     one output row per remaining group computed from that group alone *)
  Lemma run_select_grouped (FL : FloatEqLaws) ctx s w h from c cs :
    s_group s = c :: cs ->
    forallb simple_item (s_items s) = true ->
    where_ok (env_of ctx s []) s w from ->
    rows_ok (c :: cs) (filter w from) = true ->
    (forall g, In g (group_spec (c :: cs) (filter w from)) ->
       eval_cond (env_of ctx s (filter w from)) (group_row g) (s_having s) = Ok (h g)) ->
    run_select rec call join ctx s (Some from) =
    catch_panic
      (let! selected :=
         mapM (fun g => let! kvss := mapM (item_cells (snd g) (group_row g)) (s_items s) in
                        Ok (VObj (obj_of_list (List.concat kvss))))
              (filter h (group_spec (c :: cs) (filter w from))) in
       let! ordered := exec_order_by (s_order s) (exec_distinct (s_distinct s) selected) in
       let! win := window ordered (List.length ordered) (s_limit s) (s_offset s) in
       Ok (VArr win)).
  Proof.
    intros Hg Hs Hw Hr Hh.
    rewrite (run_select_sees_filtered rec call join ctx s w from Hw). cbv zeta.
    rewrite (exec_group_by_spec FL _ s _ c cs h Hg Hr Hh). cbn [bind].
    rewrite (exec_select_group_rows rec call join ctx s _ c cs _ Hg Hs). reflexivity.
  Qed.

  Lemma window_single x : window [x] 1 None None = Ok [x].
  Proof. reflexivity. Qed.

  Lemma exec_order_by_single keys x : exec_order_by keys [x] = Ok [x].
  Proof. destruct keys; reflexivity. Qed.

  Lemma exec_distinct_single d x : exec_distinct d [x] = [x].
  Proof. destruct d; reflexivity. Qed.

  (* the whole ungrouped all-aggregate query: exactly one row, computed over the rows that passed *)
  Lemma run_select_whole_table ctx s w from :
    s_group s = [] -> all_aggregate (s_items s) = true ->
    s_limit s = None -> s_offset s = None ->
    where_ok (env_of ctx s []) s w from ->
    run_select rec call join ctx s (Some from) =
    catch_panic
      (let! kvss := mapM (item_cells (filter w from) []) (s_items s) in
       Ok (VArr [VObj (obj_of_list (List.concat kvss))])).
  Proof.
    intros Hg Ha Hl Ho Hw.
    rewrite (run_select_sees_filtered rec call join ctx s w from Hw). cbv zeta.
    rewrite exec_group_by_nogroup by exact Hg. cbn [bind].
    rewrite exec_select_whole_table by assumption.
    destruct (mapM (item_cells (filter w from) []) (s_items s)); cbn [bind]; try reflexivity.
    rewrite exec_distinct_single, exec_order_by_single. cbn [bind List.length].
    rewrite Hl, Ho, window_single. reflexivity.
  Qed.

  (* SUM(a), SUM(b) => (Σa, Σb) *)
  Lemma two_sums ctx s filtered rows a b n1 n2 :
    s_group s = [] ->
    s_items s = [IExpr (EAgg ASum (Some [a])) n1; IExpr (EAgg ASum (Some [b])) n2] ->
    obj_rows filtered = true ->
    numeric_col (map (column a) filtered) = true ->
    numeric_col (map (column b) filtered) = true ->
    exec_select (env_of ctx s filtered) s rows =
    Ok [VObj (obj_set n2 (null_or fsum (map (column b) filtered))
             (obj_set n1 (null_or fsum (map (column a) filtered)) []))].
  Proof.
    intros Hg Hi Ho Ha Hb.
    rewrite exec_select_whole_table; [|exact Hg|rewrite Hi; reflexivity].
    rewrite Hi. cbn [mapM item_cells].
    rewrite !agg_value_column by assumption. reflexivity.
  Qed.
End Composite.

(* ================================================================== *)
(* Part 6: the corollaries phrased on the engine's own output           *)
(* ================================================================== *)

Section OnModel.
  Hypothesis FL : FloatEqLaws.
  Variables (cols : list gkey) (rows : list value) (gs : list group).
  Hypothesis Hok : rows_ok cols rows = true.
  Hypothesis Hgs : group_rows cols rows [] = Ok gs.

  Lemma model_groups : gs = group_spec cols rows.
  Proof. rewrite (group_rows_spec FL cols rows Hok) in Hgs. inversion Hgs. reflexivity. Qed.

  Lemma model_perm : Permutation (List.concat (map snd gs)) rows.
  Proof. rewrite model_groups. apply group_spec_perm; assumption. Qed.

  Lemma model_count : list_sum (map (fun g => List.length (snd g)) gs) = List.length rows.
  Proof. rewrite model_groups. apply group_spec_count; assumption. Qed.

  Lemma model_exactly_one r :
    In r rows ->
    exists g, In g gs /\ In r (snd g) /\ forall g', In g' gs -> In r (snd g') -> g' = g.
  Proof. rewrite model_groups. apply group_spec_exactly_one; assumption. Qed.

  Lemma model_same_group_iff r1 r2 :
    In r1 rows -> In r2 rows ->
    ((exists g, In g gs /\ In r1 (snd g) /\ In r2 (snd g)) <->
     key_eq (key_of cols r1) (key_of cols r2) = true).
  Proof. rewrite model_groups. apply group_spec_same_group_iff; assumption. Qed.

  Lemma model_keys_distinct : pairwise_distinct key_eq (map fst gs) /\ NoDup (map fst gs).
  Proof.
    rewrite model_groups. split; [apply group_spec_keys_distinct|apply group_spec_keys_NoDup, Hok].
  Qed.

  Lemma model_members g :
    In g gs -> snd g = filter (fun r => key_eq (fst g) (key_of cols r)) rows.
  Proof. rewrite model_groups. apply group_spec_members. Qed.

  Lemma model_order : map fst gs = first_keys (key_of cols) key_eq rows.
  Proof. rewrite model_groups. apply group_spec_order. Qed.

  Lemma model_first_member g :
    In g gs -> exists r rest, snd g = r :: rest /\ fst g = key_of cols r.
  Proof. rewrite model_groups. apply group_spec_first_member; assumption. Qed.
End OnModel.

(* ---- no row passed WHERE: COUNT = 0, SUM / MIN / MAX / AVG = NULL ---- *)

Definition agg_has_arg (it : sel_item stmt) : bool :=
  match it with
  | IExpr (EAgg ACount _) _ => true
  | IExpr (EAgg _ (Some _)) _ => true
  | _ => false
  end.

Definition empty_cell (it : sel_item stmt) : string * value :=
  match it with
  | IExpr (EAgg ACount _) name => (name, VNum 0%float)
  | IExpr _ name => (name, VNull)
  | IStar => ("*"%string, VNull)
  end.

Lemma concat_singletons {A B} (f : A -> B) l : List.concat (map (fun a => [f a]) l) = map f l.
Proof. induction l as [|a l IH]; cbn; [reflexivity|]. f_equal. exact IH. Qed.

Lemma agg_has_arg_is_agg items : forallb agg_has_arg items = true -> forallb is_agg_item items = true.
Proof.
  induction items as [|it items IH]; cbn [forallb]; intros H; [reflexivity|].
  apply andb_true_iff in H. destruct H as [Hi Hs]. rewrite IH by exact Hs.
  destruct it as [|e name]; [discriminate|]. destruct e; try discriminate. reflexivity.
Qed.

Lemma exec_select_whole_table_empty rec call join ctx s rows :
  s_group s = [] -> s_items s <> [] -> forallb agg_has_arg (s_items s) = true ->
  exec_select (mk_env rec call join ctx s []) s rows =
  Ok [VObj (obj_of_list (map empty_cell (s_items s)))].
Proof.
  intros Hg Hne Ha.
  assert (Hall : all_aggregate (s_items s) = true).
  { unfold all_aggregate. destruct (s_items s) eqn:E; [congruence|].
    apply agg_has_arg_is_agg. exact Ha. }
  rewrite exec_select_whole_table by assumption.
  assert (Hm : mapM (item_cells [] []) (s_items s) = Ok (map (fun it => [empty_cell it]) (s_items s))).
  { clear Hne Hall. induction (s_items s) as [|it items IH]; [reflexivity|].
    cbn [forallb] in Ha. apply andb_true_iff in Ha. destruct Ha as [Hi Hs].
    cbn [mapM map]. rewrite IH by exact Hs.
    destruct it as [|e name]; [discriminate|]. destruct e; try discriminate.
    cbn [item_cells]. rewrite agg_value_empty.
    destruct f, arg; try discriminate; reflexivity. }
  rewrite Hm. cbn [bind]. rewrite concat_singletons. reflexivity.
Qed.

(* ---- the same inside a comparison (HAVING COUNT( * ) > 1): Expr evaluates the operands of a
   comparison on a copy of the row that carries the back-reference marker "<-"; the members the
   aggregate reads are still the group's ---- *)

Lemma mk_env_agg_group_any rec call join ctx s filtered f arg cur ms :
  s_group s <> [] -> lookup "*" cur = Some (VArr ms) ->
  e_agg (mk_env rec call join ctx s filtered) f arg cur = eval_agg ms f arg.
Proof.
  intros H Hl. cbn [mk_env e_agg]. destruct (s_group s); [contradiction|]. rewrite Hl. reflexivity.
Qed.

Lemma lookup_star_scoped g d : lookup "*" (scope (group_row g) d) = Some (VArr (snd g)).
Proof.
  unfold scope. rewrite lookup_obj_set_other by discriminate. apply lookup_star_group_row.
Qed.

Lemma mk_env_agg_group_scoped rec call join ctx s filtered f arg g d :
  s_group s <> [] ->
  e_agg (mk_env rec call join ctx s filtered) f arg (scope (group_row g) d) = eval_agg (snd g) f arg.
Proof. intros H. apply mk_env_agg_group_any; [exact H|apply lookup_star_scoped]. Qed.

(* ---- what "order of first appearance" means: reading more rows only appends new keys ---- *)

Lemma first_keys_from_app {R K} (key : R -> K) (keq : K -> K -> bool) pre post : forall seen,
  first_keys_from key keq seen (pre ++ post) =
  first_keys_from key keq seen pre ++
  first_keys_from key keq (rev (first_keys_from key keq seen pre) ++ seen) post.
Proof.
  induction pre as [|r pre IH]; intros seen; cbn [app first_keys_from rev]; [reflexivity|].
  destruct (existsb (fun k => keq k (key r)) seen); [apply IH|].
  rewrite IH. cbn [app rev]. rewrite <- app_assoc. reflexivity.
Qed.

Lemma group_spec_prefix_stable cols pre post :
  exists tail,
    map fst (group_spec cols (pre ++ post)) = map fst (group_spec cols pre) ++ tail /\
    forall k s, In k tail -> In s (map fst (group_spec cols pre)) -> key_eq s k = false.
Proof.
  rewrite !group_spec_order. unfold first_keys. rewrite first_keys_from_app. rewrite app_nil_r.
  eexists. split; [reflexivity|].
  intros k s Hk Hs. eapply first_keys_from_not_seen; [exact Hk|].
  apply in_rev in Hs. exact Hs.
Qed.
