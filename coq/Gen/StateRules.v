(* StateRules.v — the audited inventory of state that survives a call, and of digests that decide identity.

   The models are functions of (query text, document, options) only.  That is a faithful picture of the code
   only if the code keeps no other state between two calls, and the "equal keys <-> equal digest" step of the
   join / DISTINCT models is faithful only for a collision-resistant digest.  `vharness aux state` regenerates
   the three tables from /repo's current source on every run (State.v); the obligations say that every entry
   is one of the audited ones below.  A new package-level variable (a pool, a cache, a memo table), a new field
   on a struct, or another digest breaks the obligation: the model no longer describes everything the code can
   remember.  Removing an entry is harmless (inclusion, not equality). *)
From Coq Require Import List String Bool.
Import ListNotations.
Open Scope string_scope.

Definition pair_eqb (a b : string * string) : bool :=
  String.eqb (fst a) (fst b) && String.eqb (snd a) (snd b).

Definition mem (p : string * string) (l : list (string * string)) : bool := existsb (pair_eqb p) l.

Definition state_offenders (audited observed : list (string * string)) : list (string * string) :=
  filter (fun p => negb (mem p audited)) observed.

Definition state_obligation (audited observed : list (string * string)) : bool :=
  match state_offenders audited observed with [] => true | _ => false end.

Definition show (l : list (string * string)) : list string :=
  map (fun p => fst p ++ " | " ++ snd p) l.

Lemma pair_eqb_eq a b : pair_eqb a b = true -> a = b.
Proof.
  destruct a as [a1 a2], b as [b1 b2]; unfold pair_eqb; cbn [fst snd]; intro H.
  apply andb_prop in H; destruct H as [H1 H2].
  apply String.eqb_eq in H1; apply String.eqb_eq in H2; congruence.
Qed.

(* what the boolean obligation means *)
Theorem state_obligation_sound audited observed :
  state_obligation audited observed = true -> forall p, In p observed -> In p audited.
Proof.
  unfold state_obligation, state_offenders; intros H p Hp.
  destruct (mem p audited) eqn:Hm.
  - unfold mem in Hm; apply existsb_exists in Hm; destruct Hm as [q [Hq He]].
    apply pair_eqb_eq in He; subst; exact Hq.
  - assert (Hin : In p (filter (fun p => negb (mem p audited)) observed))
      by (apply filter_In; split; [exact Hp | rewrite Hm; reflexivity]).
    destruct (filter (fun p => negb (mem p audited)) observed); [destruct Hin | discriminate].
Qed.

(* ---------------------------------------------------------------- package-level variables *)
Definition audited_vars : list (string * string) := [
  (* compiled regular expressions: immutable after package initialisation *)
  ("genql", "arrayPattern *regexp.Regexp");
  ("genql", "fullPattern *regexp.Regexp");
  ("genql", "pipePattern *regexp.Regexp");
  (* selector cache: selector text -> parsed selector; a pure function of its key (C09 model: parse is a function;
     C13: accessed under mut) *)
  ("genql", "cache map[string][][]any");
  ("genql", "mut sync.Mutex");
  (* registries written by Register* only (C13, C14 registry obligation, C18 registry table) *)
  ("genql", "functions map[string]Function");
  ("genql", "immediateFunctions []string");
  ("genql", "topLevelFunctions TopLevelFunction")
].

(* ---------------------------------------------------------------- struct fields *)
Definition audited_fields : list (string * string) := [
  ("genql.ExpressionReaderOptions", "hardCodedRead bool");
  ("genql.HashedTable", "Keys map[string]*Map");
  ("genql.HashedTable", "Order []string");
  ("genql.HashedTable", "Rows map[string][]*any");
  ("genql.IndexSelector", "indexSelector int");
  ("genql.IndexSelector", "rangeSelector [2]int");
  ("genql.IndexSelector", "selectorType IndexType");
  ("genql.Join", "into string");
  ("genql.Join", "joinExpr sqlparser.Expr");
  ("genql.Join", "joinType sqlparser.JoinType");
  ("genql.Join", "left []any");
  ("genql.Join", "leftIdent string");
  ("genql.Join", "query *Query");
  ("genql.Join", "right []any");
  ("genql.Join", "rightIdent string");
  (* Options: Model/Vars.v (vars, varsMut), Model/Processors.v (dialect flags), Model/Faults.v (errors, completed),
     Model/Funcs.v (constants) *)
  ("genql.Options", "completed func()");
  ("genql.Options", "constants map[string]any");
  ("genql.Options", "errors func(err error)");
  ("genql.Options", "idomaticArrays bool");
  ("genql.Options", "postgresEscapingDialect bool");
  ("genql.Options", "vars map[string]any");
  ("genql.Options", "varsMut sync.RWMutex");
  ("genql.Options", "wrapped bool");
  ("genql.PipeSelector", "keySelector string");
  ("genql.PipeSelector", "typeSelector string");
  (* Query: Model/Exec.v qctx + select record; singletonExecutions = the per-query memo of Model/Exec.v (e_memo),
     filtered = the rows aggregates read, postProcessors / wg = Model/Strategies.v *)
  ("genql.Query", "data Map");
  ("genql.Query", "distinct bool");
  ("genql.Query", "dual bool");
  ("genql.Query", "filtered []any");
  ("genql.Query", "from []any");
  ("genql.Query", "groupDefinition GroupDefinition");
  ("genql.Query", "havingDefinition HavingDefinition");
  ("genql.Query", "ident string");
  ("genql.Query", "limitDefinition int");
  ("genql.Query", "offsetDefinition int");
  ("genql.Query", "options *Options");
  ("genql.Query", "orderByDefinition OrderByDefinition");
  ("genql.Query", "postProcessors []func() error");
  ("genql.Query", "postProcessorsMut sync.Mutex");
  ("genql.Query", "selectDefinition SelectDefinition");
  ("genql.Query", "singletonExecutions map[string]any");
  (* guards the memo map only (D79); holds no value of its own: not state the model has to carry *)
  ("genql.Query", "singletonMut sync.Mutex");
  ("genql.Query", "wg sync.WaitGroup");
  ("genql.Query", "whereDefinition WhereDefinition");
  (* sanitizer: a Command is its parts and nothing else (Model/Sanitizer.v) *)
  ("sanitize.Command", "Parts []Part");
  ("sanitize.sqlLexer", "parts []Part");
  ("sanitize.sqlLexer", "pos int");
  ("sanitize.sqlLexer", "src string");
  ("sanitize.sqlLexer", "start int");
  ("sanitize.sqlLexer", "stateFn stateFn")
].

(* ---------------------------------------------------------------- digests *)
(* identity by digest: the models compare the digested text itself (Join.key_text, Exec.distinct_by, SelReader
   distinct), i.e. they assume SHA-256 is injective on the inputs met — a 256-bit collision is outside what any
   check here can exhibit.  HashFunc is the HASH() built-in: an oracle in Model/Funcs.v. *)
Definition audited_hash : list (string * string) := [
  ("genql.Distinct", "crypto/sha256.New");
  ("genql.ExecDistinct", "crypto/sha256.New");
  ("genql.ToHash", "crypto/sha256.New");
  ("genql.HashFunc", "crypto/md5.New");
  ("genql.HashFunc", "crypto/sha1.New");
  ("genql.HashFunc", "crypto/sha256.New");
  ("genql.HashFunc", "crypto/sha512.New")
].


(* ---------------------------------------------------------------- assignments to struct fields *)
(* which function writes which field.  The models treat a prepared query as immutable during exec(): the window,
   order, group, select and where definitions are written by the Build* functions only (called from Prepare),
   the per-query memo by AggrFunExpr / FunExpr (through setSingleton), the row sets by exec / ExistExpr / Build*.  A new writer (e.g.
   exec storing a clamped LIMIT back into the query) is state the model does not carry from one Exec to the next. *)
Definition audited_writes : list (string * string) := [
  ("genql.BuildCte", "data");
  ("genql.BuildFromAliasedTable", "dual");
  ("genql.BuildFromAliasedTable", "from");
  ("genql.BuildFromAliasedTable", "ident");
  ("genql.BuildGroup", "groupDefinition");
  ("genql.BuildJoin", "from");
  ("genql.BuildLimit", "limitDefinition");
  ("genql.BuildLimit", "offsetDefinition");
  ("genql.BuildOrder", "orderByDefinition");
  ("genql.BuildSelect", "distinct");
  ("genql.BuildSelect", "havingDefinition");
  ("genql.BuildSelect", "selectDefinition");
  ("genql.BuildSelect", "whereDefinition");
  ("genql.BuildUnion", "distinct");
  ("genql.BuildUnion", "from");
  ("genql.BuildUnion", "selectDefinition");
  ("genql.CompletedCallback", "completed");
  ("genql.ExistExpr", "from");
  ("genql.HardCodedValueExprOpt", "hardCodedRead");
  ("genql.HashJoin", "left");
  ("genql.HashJoin", "leftIdent");
  ("genql.HashJoin", "right");
  ("genql.HashJoin", "rightIdent");
  ("genql.IdomaticArrays", "idomaticArrays");
  ("genql.Join", "left");
  ("genql.Join", "leftIdent");
  ("genql.Join", "right");
  ("genql.Join", "rightIdent");
  ("genql.New", "data");
  ("genql.NewHashedTable", "Keys");
  ("genql.NewHashedTable", "Rows");
  ("genql.NewJoin", "into");
  ("genql.NewJoin", "joinExpr");
  ("genql.NewJoin", "joinType");
  ("genql.NewJoin", "left");
  ("genql.NewJoin", "leftIdent");
  ("genql.NewJoin", "query");
  ("genql.NewJoin", "right");
  ("genql.NewJoin", "rightIdent");
  ("genql.PostgresEscapingDialect", "postgresEscapingDialect");
  ("genql.Prepare", "data");
  ("genql.SetVarFunc", "vars");
  ("genql.ToCatalog", "Keys");
  ("genql.ToCatalog", "Order");
  ("genql.ToCatalog", "Rows");
  ("genql.UnReportedErrors", "errors");
  ("genql.WithConstants", "constants");
  ("genql.WithVars", "vars");
  ("genql.Wrapped", "wrapped");
  ("genql.addPostProcessors", "postProcessors");
  ("genql.exec", "filtered");
  ("genql.exec", "from");
  (* the memo writes of FunExpr / AggrFunExpr / shareSingletons, under query.singletonMut (D79) *)
  ("genql.setSingleton", "singletonExecutions");
  ("sanitize.NewQuery", "stateFn");
  ("sanitize.backtickState", "parts");
  ("sanitize.backtickState", "pos");
  ("sanitize.backtickState", "start");
  ("sanitize.doubleQuoteState", "parts");
  ("sanitize.doubleQuoteState", "pos");
  ("sanitize.doubleQuoteState", "start");
  ("sanitize.escapeStringState", "parts");
  ("sanitize.escapeStringState", "pos");
  ("sanitize.escapeStringState", "start");
  ("sanitize.multilineCommentState", "parts");
  ("sanitize.multilineCommentState", "pos");
  ("sanitize.multilineCommentState", "start");
  ("sanitize.oneLineCommentState", "parts");
  ("sanitize.oneLineCommentState", "pos");
  ("sanitize.oneLineCommentState", "start");
  ("sanitize.placeholderState", "parts");
  ("sanitize.placeholderState", "pos");
  ("sanitize.placeholderState", "start");
  ("sanitize.rawState", "parts");
  ("sanitize.rawState", "pos");
  ("sanitize.rawState", "start");
  ("sanitize.singleQuoteState", "parts");
  ("sanitize.singleQuoteState", "pos");
  ("sanitize.singleQuoteState", "start")
].

(* ---------------------------------------------------------------- size thresholds *)
(* integer literals of two or more digits, per function.  The models treat every size alike: there is no
   "fast path above N rows / N keys / N bytes" in them, so a literal that could be such a threshold must be audited.
   The audited ones are radix and bit-size arguments of strconv. *)
Definition audited_literals : list (string * string) := [
  ("genql.LiteralExpr", "64");
  ("genql.Reader", "64");
  ("genql.ToFloat64", "64");
  ("sanitize.Sanitize", "10");
  ("sanitize.Sanitize", "64");
  ("sanitize.placeholderState", "10")
].

Definition by_field (names : list string) (l : list (string * string)) : list (string * string) :=
  filter (fun p => existsb (String.eqb (snd p)) names) l.

Definition by_prefix (pre : string) (l : list (string * string)) : list (string * string) :=
  filter (fun p => String.prefix pre (fst p)) l.
