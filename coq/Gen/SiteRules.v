(* Gen/SiteRules.v — the boolean criteria that the tables regenerated from /repo's source by the
   translator (vharness aux sites -> Sites.v) must satisfy.  Committed; the per-run obligation file
   imports the fresh Sites.v and proves [mut_obligation mut_sites = true] etc. by vm_compute.
   Every audited entry carries its one-line justification; an entry is matched by
   (file, function, kind, mutated object), not by statement text, so cosmetic edits do not break it,
   while a new or moved write through a parameter, field or global does. *)
From Coq Require Import List String Bool.
Import ListNotations.
Local Open Scope string_scope.

Definition s4eqb (a b : string * string * string * string) : bool :=
  let '(a1, a2, a3, a4) := a in let '(b1, b2, b3, b4) := b in
  String.eqb a1 b1 && String.eqb a2 b2 && String.eqb a3 b3 && String.eqb a4 b4.

(* ---------- C11: mutation sites ---------- *)

Definition audited_mut : list (string * string * string * string) := [
  (* the caller's VARIABLE map: C20 requires SETVAR to write it; it is not the input document *)
  ("functions.go", "SetVarFunc", "index-assign", "query.options.vars");
  (* join.go Copy fills the fresh map `current` its callers just made (INTO joins) *)
  ("join.go", "Copy", "maps.Copy", "out");
  ("join.go", "Copy", "index-assign", "out");
  (* append onto a composite literal *)
  ("join.go", "extractColumnsFromExpr", "append", "[]string{e.Qualifier.Name.String()}");
  (* query.data was replaced by a fresh shallow copy a few lines above in the same function *)
  ("plsql.go", "BuildCte", "index-assign", "query.data");
  (* per-query state allocated by New / Prepare, never shared with the caller *)
  ("plsql.go", "BuildGroup", "index-assign", "query.groupDefinition");
  ("plsql.go", "BuildOrder", "append", "query.orderByDefinition");
  ("plsql.go", "BuildFromAliasedTable", "append", "query.postProcessors");
  ("plsql.go", "SelectExpr", "append", "query.postProcessors");
  ("plsql.go", "SubqueryExpr", "append", "query.postProcessors");
  ("plsql.go", "ExistExpr", "append", "query.postProcessors");
  ("plsql.go", "FunExpr", "append", "query.postProcessors");
  ("plsql.go", "*Query.addPostProcessors", "append", "query.postProcessors");
  (* the per-query memo of ONCE / GLOBAL / whole-table aggregate results: FunExpr, AggrFunExpr and shareSingletons
     (one query's memo into the memo of its per-dimension copy) all write it through setSingleton, under
     query.singletonMut (D79: the ON clause of a PARALLEL join is evaluated by goroutines sharing the query) *)
  ("plsql.go", "*Query.setSingleton", "index-assign", "query.singletonExecutions");
  (* locals made with make() whose name is shadowed by a parameter / a comma-ok binding *)
  ("plsql.go", "AggrFuncArgReader", "append", "slice");
  ("plsql.go", "ExecGroupBy", "index-assign", "current");
  ("processors.go", "FindArrayIndex", "index-assign", "index");
  ("processors.go", "FindArrayIndex", "append", "stack");
  (* the sanitizer's own lexer state *)
  ("sanitizer/sanitizer.go", "rawState", "append", "l.parts");
  ("sanitizer/sanitizer.go", "singleQuoteState", "append", "l.parts");
  ("sanitizer/sanitizer.go", "doubleQuoteState", "append", "l.parts");
  ("sanitizer/sanitizer.go", "placeholderState", "append", "l.parts");
  ("sanitizer/sanitizer.go", "escapeStringState", "append", "l.parts");
  ("sanitizer/sanitizer.go", "oneLineCommentState", "append", "l.parts");
  ("sanitizer/sanitizer.go", "multilineCommentState", "append", "l.parts");
  ("sanitizer/sanitizer.go", "backtickState", "append", "l.parts");
  (* the slice of parsed segments ExecReader builds before publishing it in the cache *)
  ("selector.go", "ExecReader", "append", "allSelectors");
  (* the process-wide selector cache (C13), not the input *)
  ("selector.go", "ExecReader", "index-assign", "cache");
  (* Sort sorts its argument in place; its only caller ExecOrderBy passes the slice ExecSelect /
     ExecDistinct allocated (validated on every run by the deep comparison of the input) *)
  ("sort.go", "Sort", "sort.Slice", "slice")
].

Definition mut_ok (s : string * string * string * string * string * string) : bool :=
  let '(file, fn, kind, target, prov, _) := s in
  String.eqb prov "Fresh" || String.eqb prov "FreshField"
  || existsb (s4eqb (file, fn, kind, target)) audited_mut.

Definition mut_obligation (sites : list (string * string * string * string * string * string)) : bool :=
  forallb mut_ok sites.

Definition mut_offenders (sites : list (string * string * string * string * string * string)) :=
  filter (fun s => negb (mut_ok s)) sites.

(* ---------- C10: crash sites ---------- *)

(* frames that must convert every panic into an error *)
Definition required_recover : list string :=
  ["plsql.go:New"; "plsql.go:*Query.exec"; "plsql.go:*Query.execAndPostProcess"; "sort.go:Sort"].

Definition entry_ok (entries : list (string * bool * bool)) (name : string) : bool :=
  existsb (fun e => let '(n, rec, safe) := e in String.eqb n name && rec && safe) entries.

Definition entry_obligation (entries : list (string * bool * bool)) : bool :=
  forallb (entry_ok entries) required_recover.

(* a goroutine either recovers its own panics or consists only of Wait/Done calls *)
Definition go_ok (g : string * string * bool * bool * bool) : bool :=
  let '(_, _, rec, _, only_wait_done) := g in rec || only_wait_done.
Definition go_obligation (gs : list (string * string * bool * bool * bool)) : bool := forallb go_ok gs.
Definition go_offenders (gs : list (string * string * bool * bool * bool)) := filter (fun g => negb (go_ok g)) gs.

(* an explicit panic is covered by a recovering frame of the goroutine it runs in *)
Definition panic_ok (p : string * string * bool * bool) : bool := let '(_, _, _, covered) := p in covered.
Definition panic_obligation (ps : list (string * string * bool * bool)) : bool := forallb panic_ok ps.

(* recursion: each function on a call-graph cycle is audited with its decreasing measure *)
Definition audited_recursive : list string := [
  (* measure: depth of the sqlparser AST handed down (strictly smaller sub-expression / sub-statement);
     row-scoped subqueries and CTE bodies re-enter through Prepare/exec with a strictly smaller statement;
     a CTE that reads itself is cut by the in-progress guard of BuildCte *)
  "Expr"; "AndExpr"; "OrExpr"; "NotExpr"; "ComparisonExpr"; "BetweenExpr"; "BinaryExpr"; "IsExpr"; "SubStrExpr";
  "UnaryExpr"; "ValueTupleExpr"; "CaseExpr"; "SubqueryExpr"; "ExistExpr"; "FunExpr"; "AggrFunExpr"; "FuncArgReader";
  "AggrFuncArgReader"; "SelectExpr"; "ExecWhere"; "ExecHaving"; "ExecGroupBy"; "ExecSelect"; "ExecDistinct";
  "Build"; "BuildSelect"; "BuildUnion"; "BuildCte"; "BuildFrom"; "BuildFromAliasedTable"; "BuildJoin"; "ExecJoin";
  "New"; "Prepare"; "Parse"; "Exec"; "exec"; "execAndPostProcess"; "Join"; "ToCatalog"; "Copy";
  "extractJoinColumns"; "extractColumnsFromExpr"; "hashJoinAnalyze";
  (* measure: remaining selector tokens / data depth *)
  "Reader"; "SelectDimension"; "Unwind"; "MixArray"; "MixObject";
  (* heplers.go: nesting depth of a value tuple (a finite tree built from the parsed expression / acyclic data) *)
  "Unwrapped"; "HasWrapper";
  (* sort.go Compare: remaining order keys *)
  "Compare"
].
Definition recursion_obligation (fs : list string) : bool :=
  forallb (fun f => existsb (String.eqb f) audited_recursive) fs.
Definition recursion_offenders (fs : list string) :=
  filter (fun f => negb (existsb (String.eqb f) audited_recursive)) fs.

(* plain loops: bounded by len - pos, or lexer loops that consume at least one byte per iteration
   (or stop at the end of input) *)
Definition audited_loop_funcs : list string := [
  "heplers.go:AsArray"; "plsql.go:SelectExpr"; "plsql.go:ExistExpr"; "processors.go:DoubleQuotesToBackTick";
  "processors.go:FindArrayIndex"; "sanitizer/sanitizer.go:NewQuery"; "sanitizer/sanitizer.go:rawState";
  "sanitizer/sanitizer.go:singleQuoteState"; "sanitizer/sanitizer.go:doubleQuoteState";
  "sanitizer/sanitizer.go:placeholderState"; "sanitizer/sanitizer.go:escapeStringState";
  "sanitizer/sanitizer.go:oneLineCommentState"; "sanitizer/sanitizer.go:multilineCommentState";
  "sanitizer/sanitizer.go:backtickState"
].
Definition loop_ok (l : string) : bool :=
  existsb (fun f => String.prefix (f ++ ":") l) audited_loop_funcs.
Definition loop_obligation (ls : list string) : bool := forallb loop_ok ls.
Definition loop_offenders (ls : list string) := filter (fun l => negb (loop_ok l)) ls.
