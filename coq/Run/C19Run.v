(* Run/C19Run.v — correspondence glue for property C19 (fault enumeration).

   One case = one generated query on one document, executed by the real engine
     * once fault-free (with a recording FAULT function that lists the invocations (tag, x)),
     * once per invocation index k with the k-th invocation failing (error variant and panic
       variant), each followed by a fixed follow-up query on the SAME document,
   and by the model once fault-free and once per distinct trigger pair.

   input    = (wrapped?, document, query, triggers, expectation, compare-as-multiset?)
   observed = (outcome of the fault-free run, usable-afterwards flag,
               [(outcome of faulty run k, usable-afterwards flag)])
   The usable-afterwards flag is computed by the harness: the follow-up query on the same input
   document returned exactly what it returns on a pristine deep copy AND the document itself is
   deep-equal to the pristine copy.

   check:  bit 1 (model differs): the model's fault-free result differs from the observed one, or the
                  model does not answer Err for one of the triggers;
           bit 2 (property fails): some faulty run did not return (no rows, error), or the library
                  was not usable afterwards, or the planted failure (RAISE_WHEN / type error) did
                  not surface although the generator planted it on an evaluated row;
           4 = the fault-free query is outside the model (and the property part holds). *)
From GenqlV Require Import Base.Prelude Base.Value Model.Ast Model.Eval Model.Exec Model.Join
                           Model.Faults.

(* multiset equality of row lists (join results come out of Go map iteration) *)
Fixpoint remove_one (x : value) (l : list value) : option (list value) :=
  match l with
  | [] => None
  | y :: r => if veqb x y then Some r
              else match remove_one x r with Some r' => Some (y :: r') | None => None end
  end.
Fixpoint perm_eqb (a b : list value) : bool :=
  match a with
  | [] => match b with [] => true | _ => false end
  | x :: r => match remove_one x b with Some b' => perm_eqb r b' | None => false end
  end.

Definition input := (bool * value * stmt * list trigger * option bool * bool)%type.
Definition run_obs := (res (list value) * bool)%type.
Definition obs := (res (list value) * bool * list run_obs)%type.

Definition fuel : nat := 40.

Definition agree (multiset : bool) (m o : res (list value)) : bool :=
  match m, o with
  | Ok a, Ok b => if multiset then perm_eqb a b else list_veqb a b
  | Err, Err => true
  | _, _ => false
  end.

Definition check (i : input) (o : obs) : N :=
  let '(wrapped, doc, q, trigs, expect, multiset) := i in
  let '(free, free_usable, runs) := o in
  let spec_ok :=
    forallb (fun r : run_obs => is_err (fst r) && snd r) runs
    && free_usable
    && match expect with
       | Some true => is_err free        (* a planted failure on an evaluated row *)
       | Some false => is_ok free        (* nothing planted fires *)
       | None => true
       end in
  match faulty_run None fuel wrapped doc q with
  | OutOfModel => if spec_ok then 4 else 2
  | m0 =>
      let model_ok :=
        agree multiset m0 free
        && forallb (fun t => is_err (faulty_run (Some t) fuel wrapped doc q)) trigs in
      code_of model_ok spec_ok
  end%N.
