(* Run/C20Run.v — correspondence glue for C20.
   input    : the document, the caller's map before the first query (None = no WithVars), and the
              queries in order, each with the rows of the table it selects from;
   observed : per query, what Exec returned (Ok rows | Err | Panic escaped) and the caller's map
              right after it (sorted object; None when no map was given).
   check    : bit 1 — the model (Model/Vars.v) run on the input differs from the observation;
              bit 2 — the SPECIFICATION applied to the observation fails: each query's rows and
              the map after it must be what the register history of that query yields from the
              map observed after the previous query (Spec/RegisterSpec.v, Spec/VarsHistory.v);
              4 — the model left its domain (formatting outside Base/Fmt's class ...). *)
From GenqlV Require Import Base.Prelude Base.Value Model.Ast Model.Eval Model.Vars
                           Spec.RegisterSpec Spec.VarsHistory.

Definition input := (value * vars * list (query stmt * list row))%type.
Definition obs := list (res (list value) * vars).

Definition rows_eqb (m : list row) (r : list value) : bool := list_veqb (map VObj m) r.

Definition store_eqb (a b : vars) : bool :=
  match a, b with
  | None, None => true
  | Some x, Some y => veqb (VObj x) (VObj y)
  | _, _ => false
  end.

Definition out_eqb (m : res (list row)) (o : res (list value)) : bool :=
  match m, o with
  | Ok a, Ok b => rows_eqb a b
  | Err, Err => true
  | _, _ => false
  end.

(* None: the model left its domain before any disagreement *)
Fixpoint cmp_model (ms : list (res (list row) * vars)) (os : obs) : option bool :=
  match ms, os with
  | [], [] => Some true
  | (OutOfModel, _) :: _, _ => None
  | (m, st) :: ms', (o, ost) :: os' =>
      if (out_eqb m o && store_eqb st ost)%bool then cmp_model ms' os' else Some false
  | _, _ => Some false
  end.

Definition opt_veqb (a b : option value) : bool :=
  match a, b with
  | None, None => true
  | Some x, Some y => veqb x y
  | _, _ => false
  end.

Definition regs_match (r : regs) (ks : list string) (st : store) : bool :=
  forallb (fun k => opt_veqb (r k) (lookup k st)) ks.

Definition spec_query (data : value) (prev : vars) (q : query stmt) (rows : list row)
                      (o : res (list value)) (ost : vars) : bool :=
  match prev with
  | None =>
      (* no map: every register reads as NULL and nothing can be remembered: a query whose history
         reaches a write (or is cut short) fails, never with an escaping panic; any other query
         returns the rows assembled from all-NULL reads *)
      match exec_where data None (q_where q) rows with
      | Ok kept =>
          let h := query_history data (q_items q) kept in
          let '(rs, _, ab) := run_reg (abs []) h in
          (store_eqb ost None &&
           (if (ab || negb (Nat.eqb (List.length (writes (abs []) h)) 0))%bool then is_err o
            else match o with
                 | Ok got => rows_eqb (fst (assemble data (q_items q) kept rs)) got
                 | _ => false
                 end))%bool
      | _ => (is_err o && store_eqb ost None)%bool
      end
  | Some st =>
      match exec_where data prev (q_where q) rows with
      | Ok kept =>
          let h := query_history data (q_items q) kept in
          let '(rs, r', ab) := run_reg (abs st) h in
          match ost with
          | Some ost' =>
              (regs_match r' (keys ost' ++ keys st ++ map fst (writes (abs st) h)) ost' &&
               (if ab then is_err o
                else match o with
                     | Ok got => rows_eqb (fst (assemble data (q_items q) kept rs)) got
                     | _ => false
                     end))%bool
          | None => false
          end
      | _ => (is_err o && store_eqb ost prev)%bool
      end
  end.

Fixpoint cmp_spec (data : value) (prev : vars) (qs : list (query stmt * list row)) (os : obs)
  : bool :=
  match qs, os with
  | [], [] => true
  | (q, rows) :: qs', (o, ost) :: os' =>
      (spec_query data prev q rows o ost && cmp_spec data ost qs' os')%bool
  | _, _ => false
  end.

Definition check (i : input) (o : obs) : N :=
  let '(data, m, qs) := i in
  match cmp_model (run_queries data m qs) o with
  | None => 4%N
  | Some a => code_of a (cmp_spec data m qs o)
  end.
