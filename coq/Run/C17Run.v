(* Run/C17Run.v — correspondence glue for C17.
   A case is either a SCAN case (a text, optionally with the lexical document it is the rendering
   of): the three exported processors and the New-order pipeline were run on the real code; or a
   META case: the real engine executed spelling A under an option set and the canonical spelling B
   without the dialect options (Wrapped replaced by an explicit root object), and both results
   were recorded.
   check = code_of model_ok spec_ok:
     model_ok  the Gallina model predicts exactly the observed outcome (class and text / index pairs)
     spec_ok   the property, applied to the OBSERVED outcome alone: never a panic; on a well-formed
               document the observed text is the other spelling given by Spec/LexDoc.v; the two
               engine results are equal. *)
From GenqlV Require Import Base.Prelude Base.Value Model.Processors Spec.LexDoc.
Local Open Scope Z_scope.

Inductive outcome (A : Type) := OOk (a : A) | OErr | OPanic.
Arguments OOk {A} a.
Arguments OErr {A}.
Arguments OPanic {A}.

Inductive c17_in :=
| IScan (d : option (qstyle * doc)) (text : bytes)
| IMeta (o : options) (d : doc) (textA textB : bytes).

Inductive c17_obs :=
| ObScan (r_dq : outcome bytes) (r_idx : outcome (list (Z * Z))) (r_fix : outcome bytes)
         (r_pipe : outcome bytes)
| ObMeta (resA resB : outcome bytes).

Definition same {A} (eqb : A -> A -> bool) (m : res A) (o : outcome A) : bool :=
  match m, o with
  | Ok a, OOk b => eqb a b
  | Err, OErr => true
  | Panic, OPanic => true
  | _, _ => false
  end.

Definition out_eqb {A} (eqb : A -> A -> bool) (x y : outcome A) : bool :=
  match x, y with
  | OOk a, OOk b => eqb a b
  | OErr, OErr => true
  | OPanic, OPanic => true
  | _, _ => false
  end.

Definition is_panic {A} (o : outcome A) : bool := match o with OPanic => true | _ => false end.
Definition is_ook {A} (o : outcome A) : bool := match o with OOk _ => true | _ => false end.

Definition pair_eqb (x y : Z * Z) : bool := (fst x =? fst y) && (snd x =? snd y).
Fixpoint list_eqb {A} (eqb : A -> A -> bool) (x y : list A) : bool :=
  match x, y with
  | [], [] => true
  | a :: x', b :: y' => eqb a b && list_eqb eqb x' y'
  | _, _ => false
  end.

Definition pipeline (text : bytes) : res bytes :=
  let! t := DoubleQuotesToBackTick text in FixIdiomaticArray t.

Definition implies (a b : bool) : bool := negb a || b.

Definition expect_arr (d : doc) (t : bytes) : outcome bytes := if balanced d then OOk t else OErr.

Definition q_of (o : options) : qstyle := if o_pg o then PG else MY.
Definition a_of (o : options) : astyle := if o_idiom o then Idiom else Arr.

Definition check (i : c17_in) (o : c17_obs) : N :=
  match i, o with
  | IScan od text, ObScan r_dq r_idx r_fix r_pipe =>
    let glue := match od with Some (q, d) => String.eqb (render q Idiom d) text | None => true end in
    let model_ok :=
      glue
      && same String.eqb (DoubleQuotesToBackTick text) r_dq
      && same (list_eqb pair_eqb) (FindArrayIndex text) r_idx
      && same String.eqb (FixIdiomaticArray text) r_fix
      && same String.eqb (pipeline text) r_pipe in
    let total := negb (is_panic r_dq || is_panic r_idx || is_panic r_fix || is_panic r_pipe)
                 && Bool.eqb (is_ook r_idx) (is_ook r_fix) in
    let doc_ok :=
      match od with
      | None => true
      | Some (q, d) =>
        implies (match q with PG => wf_quotes d | MY => false end)
                (out_eqb String.eqb r_dq (OOk (render MY Idiom d)))
        && implies (match q with MY => wf_quotes d && negb (has_dq d) | PG => false end)
                   (out_eqb String.eqb r_dq (OOk text))
        && implies (wf_arrays q d) (out_eqb String.eqb r_fix (expect_arr d (render q Arr d)))
        && implies (match q with PG => wf_quotes d && wf_arrays MY d | MY => false end)
                   (out_eqb String.eqb r_pipe (expect_arr d (render MY Arr d)))
      end in
    code_of model_ok (total && doc_ok)
  | IMeta opt d textA textB, ObMeta resA resB =>
    let in_scope := implies (o_pg opt) (wf_quotes d)
                    && implies (o_idiom opt) (wf_arrays MY d && balanced d) in
    if negb in_scope then (if is_panic resA || is_panic resB then 2%N else 4%N) else
    let glue := String.eqb (render (q_of opt) (a_of opt) d) textA
                && String.eqb (render MY Arr d) textB in
    let model_ok :=
      glue && match new_prepare opt VNull textA with
              | Ok (_, t) => String.eqb t textB
              | _ => false
              end in
    let spec_ok := negb (is_panic resA) && negb (is_panic resB) && out_eqb String.eqb resA resB in
    code_of model_ok spec_ok
  | _, _ => 1%N
  end.
