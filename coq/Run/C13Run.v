(* Run/C13Run.v — correspondence glue for C13 (selector cache).
   input    : documents, the calls (document index, selector text) — thread i performs call i —,
              and a schedule (list of thread ids) chosen by the harness
   observed : what genql.ExecReader returned for each call on the real code (value / error / panic),
              where the calls were issued one after the other in the order in which the threads first
              appear in the schedule (repeated texts hit the real cache); the concurrent execution of
              the real code is the business of the -race stage
   model_ok : the N-thread machine of Model/ConcCache.v (repaired program, C09 parser and reader),
              run under the given schedule and then completed thread by thread, finishes every call
              with the observed outcome
   spec_ok  : no panic, and every outcome is what the call returns alone (C09's exec_reader)
   A stress replay (input with no calls and one observed outcome) is OPanic iff the child process
   that re-ran the stress driver failed. *)
From GenqlV Require Import Base.Prelude Base.Value Model.ConcEvents Model.ConcCache
                           Model.SelToken Model.SelReader Proofs.C13Lemmas Run.C09Run.
Local Open Scope string_scope.

Record c13_in := mkIn { i_docs : list value; i_calls : list (nat * string); i_sched : list nat }.

Definition call_of (x : c13_in) (i : tid) : call (D := value) :=
  match nth_error (i_calls x) i with
  | Some (d, s) => mkCall s (nth d (i_docs x) VNull)
  | None => mkCall "" VNull
  end.

(* two passes: in the first the holder of the lock (if the schedule stopped inside a critical
   section) certainly finishes, in the second nobody is blocked any more *)
Definition completion (n : nat) : list nat :=
  let pass := flat_map (fun i => repeat i 9) (seq 0 n) in (pass ++ pass)%list.

Definition model_results (x : c13_in) : list (option (res value)) :=
  let n := List.length (i_calls x) in
  let sched := filter (fun i => Nat.ltb i n) (i_sched x) in
  let s := crun sel_parse sel_eval [] true (call_of x) (sched ++ completion n) in
  map (fun i => match pcs s i with PDone r => Some r | _ => None end) (seq 0 n).

Fixpoint all2 {A B} (f : A -> B -> bool) (a : list A) (b : list B) : bool :=
  match a, b with
  | [], [] => true
  | x :: a', y :: b' => f x y && all2 f a' b'
  | _, _ => false
  end.

Definition is_oom {A} (r : res A) : bool := match r with OutOfModel => true | _ => false end.

Definition check (x : c13_in) (o : list outcome) : N :=
  match i_calls x with
  | [] => (* stress replay *)
      match o with [OPanic] => 3%N | _ => 0%N end
  | _ =>
      let ms := model_results x in
      let solo_rs := map (fun i => exec_reader (c_doc (call_of x i)) (c_sel (call_of x i)))
                         (seq 0 (List.length (i_calls x))) in
      let spec_ok := all2 (fun r ob => match ob with OPanic => false | _ => spec_agrees r ob end) solo_rs o in
      if existsb is_oom solo_rs then (if spec_ok then 4%N else 2%N)
      else
        let model_ok := all2 (fun m ob => match m with Some r => exec_agrees r ob | None => false end) ms o in
        code_of model_ok spec_ok
  end.
