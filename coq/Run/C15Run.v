(* Run/C15Run.v — correspondence glue for C15: model result vs. observed compare.Compare result,
   plus the property oracle applied directly to the observed integer. *)
From GenqlV Require Import Base.Prelude Base.Fmt Model.Compare Spec.OrderSpec.
Local Open Scope Z_scope.

Definition check (i : gval * gval) (o : Z) : N :=
  let '(a, b) := i in
  match Compare a b with
  | Ok z => code_of (z =? o) (spec_holds a b o)
  | OutOfModel => 4%N
  | _ => 1%N
  end.
