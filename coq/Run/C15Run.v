(* Run/C15Run.v — correspondence glue for C15: model result vs. observed compare.Compare result,
   plus the property oracle applied directly to the observed integer. *)
From GenqlV Require Import Base.Prelude Base.Fmt Model.Compare Spec.OrderSpec.
Local Open Scope Z_scope.

(* fmt %v is a standard-library oracle: inside the class Base/Fmt.v models exactly the model's own
   text is used; outside it (e.g. float32 0.1, whose shortest decimal is not its exact expansion) the
   harness supplies Go's text of each operand and the number-vs-string rule is applied to that text *)
Definition oracle_cmp (a b : gval) (ta tb : string) : option Z :=
  match a, b with
  | (GInt _ _ | GFloat _ _ _), GStr s => Some (str_cmp ta s)
  | GStr s, (GInt _ _ | GFloat _ _ _) => Some (str_cmp s tb)
  | _, _ => None
  end.

(* sort.go Compare (the ORDER BY comparator of package genql) on the two one-key rows {k:a}, {k:b}: a NULL first
   key is never "less", a NULL second key always is, otherwise "less" is compare.Compare = -1 (ASC) / = 1 (DESC).
   Observed as 0 false / 1 true / 2 error, for ASC and DESC.  This ties the engine's use of the comparison
   to the exact integer-aware order for every Go numeric kind, which JSON-like (float64) tables cannot reach. *)
Definition sort_expect (a b : gval) (z : Z) : Z * Z :=
  match a, b with
  | GNil, _ => (0, 0)
  | _, GNil => (1, 1)
  | _, _ => ((if z =? -1 then 1 else 0), (if z =? 1 then 1 else 0))
  end.

Definition check (i : gval * gval * (string * string)) (o : Z * (Z * Z)) : N :=
  let '(a, b, (ta, tb)) := i in
  let '(o1, (sa, sd)) := o in
  let sort_ok (z : Z) := let '(ea, ed) := sort_expect a b z in (ea =? sa) && (ed =? sd) in
  match Compare a b with
  | Ok z => code_of ((z =? o1) && sort_ok z) (spec_holds a b o1)
  | OutOfModel =>
      match oracle_cmp a b ta tb with
      | Some z => if (z =? o1) && sort_ok z then 0%N else 3%N
      | None => 4%N
      end
  | _ => 1%N
  end.
