(* Run/C15Run.v — correspondence glue for C15: model result vs. observed compare.Compare result,
   plus the property oracle applied directly to the observed integer. *)
From GenqlV Require Import Base.Prelude Base.Fmt Model.Compare Spec.OrderSpec.
Local Open Scope Z_scope.

(* fmt %v is a standard-library oracle: inside the class Base/Fmt.v models exactly the model's own
   text is used; outside it (e.g. float32 0.1, whose shortest decimal is not its exact expansion) the
   harness supplies Go's text of each operand and the number-vs-string rule is applied to that text *)
Definition oracle_cmp (a b : gval) (ta tb : string) : option Z :=
  match a, b with
  | (GInt _ _ | GFloat _ _ _), GStr s => Some (str_cmp ta s)
  | GStr s, (GInt _ _ | GFloat _ _ _) => Some (str_cmp s tb)
  | _, _ => None
  end.

Definition check (i : gval * gval * (string * string)) (o : Z) : N :=
  let '(a, b, (ta, tb)) := i in
  match Compare a b with
  | Ok z => code_of (z =? o) (spec_holds a b o)
  | OutOfModel =>
      match oracle_cmp a b ta tb with
      | Some z => if z =? o then 0%N else 3%N
      | None => 4%N
      end
  | _ => 1%N
  end.
