(* Run/EngineRun.v — correspondence glue for the engine properties: the model's API result against
   what New+Exec returned on the real code. *)
From GenqlV Require Import Base.Prelude Base.Value Model.Ast Model.Eval Model.Exec Model.Join.

Definition input := (bool * value * stmt)%type.   (* Wrapped?, document, query *)
Definition obs := res (list value).               (* Ok rows | Err (error returned) | Panic (escaped) *)

Definition fuel : nat := 40.

(* joins are evaluated by the code-shaped join model (Model/Join.v) in every engine check, so that a query whose
   FROM contains a join is never silently out of model *)
Definition run_model (i : input) : res (list value) :=
  let '(wrapped, doc, q) := i in
  api_run no_call exec_join fuel wrapped doc q.

(* exact sequence of rows *)
Definition check_seq (i : input) (o : obs) : N :=
  match run_model i, o with
  | OutOfModel, Panic => 3   (* observed on the real code: escaped panic, unstable result, modified input or a leak *)
  | OutOfModel, _ => 4
  | Ok m, Ok r => if list_veqb m r then 0 else 3
  | Err, Err => 0
  | _, _ => 3
  end%N.

(* multiset of rows: remove one equal element at a time *)
Fixpoint remove_one (x : value) (l : list value) : option (list value) :=
  match l with
  | [] => None
  | y :: r => if veqb x y then Some r
              else match remove_one x r with Some r' => Some (y :: r') | None => None end
  end.
Fixpoint perm_eqb (a b : list value) : bool :=
  match a with
  | [] => match b with [] => true | _ => false end
  | x :: r => match remove_one x b with Some b' => perm_eqb r b' | None => false end
  end.

Definition check_multiset (i : input) (o : obs) : N :=
  match run_model i, o with
  | OutOfModel, Panic => 3   (* observed on the real code: escaped panic, unstable result, modified input or a leak *)
  | OutOfModel, _ => 4
  | Ok m, Ok r => if perm_eqb m r then 0 else 3
  | Err, Err => 0
  | _, _ => 3
  end%N.

(* C05: the sequence of sort-key tuples must agree (rows that tie may come in any order), the rows
   must be the same multiset, and the two lengths agree *)
(* the comparator stops at the first NULL key (Compare returns as soon as the left key is nil), so
   later keys of such a row do not determine its position: they are masked *)
Fixpoint key_tuple (keys : list (list string)) (r : value) : list value :=
  match keys with
  | [] => []
  | k :: rest =>
      match reader k r with
      | Ok VNull => VNull :: map (fun _ => VNull) rest
      | Ok v => v :: key_tuple rest r
      | _ => VStr "<<error>>" :: key_tuple rest r
      end
  end.

Definition order_keys (q : stmt) : list (list string) :=
  match q with SSelect s => map fst (s_order s) | _ => [] end.

Definition check_order (i : input) (o : obs) : N :=
  let '(_, _, q) := i in
  match run_model i, o with
  | OutOfModel, Panic => 3   (* observed on the real code: escaped panic, unstable result, modified input or a leak *)
  | OutOfModel, _ => 4
  | Ok m, Ok r =>
      let ks := order_keys q in
      if list_veqb (map (fun x => VArr (key_tuple ks x)) m) (map (fun x => VArr (key_tuple ks x)) r)
         && perm_eqb m r then 0 else 3
  | Err, Err => 0
  | _, _ => 3
  end%N.

(* ---------- C04: joins.  Model (code-shaped) and specification (textbook) are evaluated
   separately, so a strategy-dependent answer shows up as "property fails" even when the model
   mirrors the code ---------- *)
From GenqlV Require Import Spec.JoinSpec.

Definition run_model_join (i : input) : res (list value) :=
  let '(wrapped, doc, q) := i in
  api_run no_call exec_join fuel wrapped doc q.

Definition spec_join : jointype -> jstrategy -> list value -> list value -> string -> string ->
                       expr stmt -> row -> res (list value) :=
  fun jt st L R lid rid on data =>
    (* a STRAIGHT_JOIN that is not inner is rejected by the engine; the property does not cover it *)
    if is_straight st && negb (match jt with JInner => true | _ => false end) then Err
    else join_spec jt L R lid rid on data.

Definition run_spec_join (i : input) : res (list value) :=
  let '(wrapped, doc, q) := i in
  api_run no_call spec_join fuel wrapped doc q.

Definition agree_multiset (m : res (list value)) (o : obs) : option bool :=
  match m, o with
  | OutOfModel, _ => None
  | Ok a, Ok b => Some (perm_eqb a b)
  | Err, Err => Some true
  | _, _ => Some false
  end.

(* the textbook specification speaks about joins that evaluate: when a key column cannot be read (a path through a
   scalar) the code-shaped model and the code report an error up front, whereas a lazily evaluated textbook ON might
   never touch that row — an error on both sides of the correspondence is agreement, the specification is not asked *)
Definition check_join (i : input) (o : obs) : N :=
  match run_model_join i, o with
  | Err, Err => 0
  | _, _ =>
    match agree_multiset (run_model_join i) o, agree_multiset (run_spec_join i) o with
    | None, _ | _, None => 4
    | Some a, Some b => code_of a b
    end
  end%N.

(* C11: the observable is whether the caller's document differs from its state before the call.
   A Gallina evaluation cannot mutate anything, so the model's answer is always "unchanged". *)
Definition check_pure (i : input) (changed : bool) : N := if changed then 3%N else 0%N.

(* C12: user function IDF (identity) with any qualifier; joins compared as multisets *)
Definition c12_call (qual name : string) (args : list value) (cur : row) : res raw :=
  if String.eqb name "idf" || String.eqb name "slowf" then
    match args with
    | [x] => if String.eqb qual "spin" || String.eqb qual "spinasync" then Ok ROmit   (* effect only: no column *)
             else Ok (RVal x)
    | _ => Err
    end
  else OutOfModel.

(* sequential joins emit their rows in a deterministic order (left catalog order), which the model
   follows; the PARALLEL drivers append batches in completion order: multiset only *)
Fixpoint from_has_join (f : from_clause stmt) : bool :=
  match f with
  | FJoin _ (SParallel | SParallelHash | SParallelStraight) _ _ _ => true
  | _ => false
  end.
Definition stmt_has_join (q : stmt) : bool :=
  match q with SSelect s => from_has_join (s_from s) | _ => false end.

Definition check_c12 (i : input) (o : obs) : N :=
  let '(wrapped, doc, q) := i in
  let m := api_run c12_call exec_join fuel wrapped doc q in
  match m, o with
  | OutOfModel, Panic => 3   (* observed on the real code: escaped panic, unstable result, modified input or a leak *)
  | OutOfModel, _ => 4
  | Ok a, Ok b => if (if stmt_has_join q then perm_eqb a b else list_veqb a b) then 0 else 3
  | Err, Err => 0
  | _, _ => 3
  end%N.
