(* Run/EngineRun.v — correspondence glue for the engine properties: the model's API result against
   what New+Exec returned on the real code. *)
From GenqlV Require Import Base.Prelude Base.Value Model.Ast Model.Eval Model.Exec.

Definition input := (bool * value * stmt)%type.   (* Wrapped?, document, query *)
Definition obs := res (list value).               (* Ok rows | Err (error returned) | Panic (escaped) *)

Definition fuel : nat := 40.

Definition run_model (i : input) : res (list value) :=
  let '(wrapped, doc, q) := i in
  api_run no_call no_join fuel wrapped doc q.

(* exact sequence of rows *)
Definition check_seq (i : input) (o : obs) : N :=
  match run_model i, o with
  | OutOfModel, _ => 4
  | Ok m, Ok r => if list_veqb m r then 0 else 3
  | Err, Err => 0
  | _, _ => 3
  end%N.

(* multiset of rows: remove one equal element at a time *)
Fixpoint remove_one (x : value) (l : list value) : option (list value) :=
  match l with
  | [] => None
  | y :: r => if veqb x y then Some r
              else match remove_one x r with Some r' => Some (y :: r') | None => None end
  end.
Fixpoint perm_eqb (a b : list value) : bool :=
  match a with
  | [] => match b with [] => true | _ => false end
  | x :: r => match remove_one x b with Some b' => perm_eqb r b' | None => false end
  end.

Definition check_multiset (i : input) (o : obs) : N :=
  match run_model i, o with
  | OutOfModel, _ => 4
  | Ok m, Ok r => if perm_eqb m r then 0 else 3
  | Err, Err => 0
  | _, _ => 3
  end%N.

(* C05: the sequence of sort-key tuples must agree (rows that tie may come in any order), the rows
   must be the same multiset, and the two lengths agree *)
Definition key_tuple (keys : list (list string)) (r : value) : list value :=
  map (fun k => match reader k r with Ok v => v | _ => VStr "<<error>>" end) keys.

Definition order_keys (q : stmt) : list (list string) :=
  match q with SSelect s => map fst (s_order s) | _ => [] end.

Definition check_order (i : input) (o : obs) : N :=
  let '(_, _, q) := i in
  match run_model i, o with
  | OutOfModel, _ => 4
  | Ok m, Ok r =>
      let ks := order_keys q in
      if list_veqb (map (fun x => VArr (key_tuple ks x)) m) (map (fun x => VArr (key_tuple ks x)) r)
         && perm_eqb m r then 0 else 3
  | Err, Err => 0
  | _, _ => 3
  end%N.
