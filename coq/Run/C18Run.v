(* Run/C18Run.v — correspondence glue for C18: the code-shaped model (repaired variant, with the
   executable oracle instance) against what the real engine returned, plus the property's own
   judgement (Spec/FuncSpec.v) applied to the observed outcome.
   Codes: 0 agree, 1 model differs, 2 property judgement fails, 3 both, 4 out of model. *)
From Coq Require Import Floats.
From GenqlV Require Import Base.Prelude Base.Fmt Base.Value Model.Funcs Model.FuncsInst Spec.FuncSpec.
Local Open Scope string_scope.

Inductive c18_case :=
| CExpr (consts : option (list (string * value)))     (* WithConstants(...) or not given *)
        (vars : option (list (string * value)))       (* WithVars(...) or not given *)
        (tab : case_tab)                              (* strings.ToLower/ToUpper of the strings in the case *)
        (e : fexpr)
| CRegistry.

Fixpoint reg_eqb (a b : list (string * bool)) : bool :=
  match a, b with
  | [], [] => true
  | (n, i) :: a', (m, j) :: b' => String.eqb n m && Bool.eqb i j && reg_eqb a' b'
  | _, _ => false
  end.

Definition top_name (e : fexpr) : string :=
  match e with Call n _ => ascii_lower n | Lit _ => "" end.

(* does the observation match the model's outcome? *)
Definition obs_matches (e : fexpr) (r : res value) (o : c18_obs) : bool :=
  match r, o with
  | Ok v, OVal w => veqb v w
  | Err, OError => true
  | Panic, OPanicked => true
  | Ok (VStr s), OStr len _ _ _ =>
      (* oracle-dependent strings: only what the laws fix *)
      if String.eqb (top_name e) "hash" then Nat.eqb (String.length s) len
      else String.eqb (top_name e) "encode"
  | _, _ => false
  end.

Fixpoint eval_args (V : variant) (O : oracles) (C : fctx) (l : list fexpr) : option (list value) :=
  match l with
  | [] => Some []
  | a :: r => match eval V O C a, eval_args V O C r with
              | Ok v, Some vs => Some (v :: vs)
              | _, _ => None
              end
  end.

Definition spec_ok (O : oracles) (C : fctx) (e : fexpr) (o : c18_obs) : bool :=
  match e with
  | Lit _ => true
  | Call n args =>
      spec_expr O e o &&
      match eval_args Repaired O C args with
      | Some vs => spec_call O (consts C) (ascii_lower n) vs o
      | None => match o with OPanicked => false | _ => true end
      end
  end.

Definition check_with (V : variant) (i : c18_case) (o : c18_obs) : N :=
  match i with
  | CRegistry =>
      match o with
      | OReg l => if reg_eqb l registry then 0%N else 1%N
      | _ => 1%N
      end
  | CExpr cs vs tab e =>
      let O := inst tab in
      let C := {| consts := cs; vars := vs |} in
      match eval V O C e with
      | OutOfModel => 4%N
      | r =>
          match V with
          | Pinned => code_of (obs_matches e r o) (spec_ok O C e o)
          | Repaired =>
              (* API level: exec's recover frame turns a panic into an error.  The only panic of
                 the repaired model is SETVAR's nil-map write (C18_only_panic_is_setvar_nil_map);
                 a recovered runtime error is accepted there — and only there — as the error it
                 is for the caller *)
              let o' := match r, o with Panic, OPanicked => OError | _, _ => o end in
              code_of (obs_matches e (catch_panic r) o') (spec_ok O C e o')
          end
      end
  end.

Definition check := check_with Repaired.
(* the same run against the model of the code as pinned (used to validate the model itself) *)
Definition check_pinned := check_with Pinned.
