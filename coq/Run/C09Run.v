(* Run/C09Run.v — correspondence glue for C09.
   input    : document, selector text, and (streams i/ii) the abstract syntax the text was
              printed from
   observed : what genql.ExecReader did (value / error / panic), what genql.ParseSelector
              returned on the same text (exported element types only: a pipe's type is visible
              only as the KeyType enum), and whether the document was unchanged afterwards.
   model_ok : the model's ExecReader and ParseSelector agree with the observation, and the
              harness' printer agrees with Spec.print_sel.
   spec_ok  : no panic, the document is unchanged, and — when the syntax tree is known — the
              observation is what the README denotation [sel_sem] prescribes. *)
From GenqlV Require Import Base.Prelude Base.Value Model.SelToken Model.SelFmt Model.SelReader
                           Spec.SelectorSpec.
Local Open Scope string_scope.

Inductive outcome := OOk (v : value) | OErr | OPanic.

Inductive otoken :=
| OFn (f : string) | OKey (k : string)
| OIndex (ds : list index_sel) | OKeep (ds : list index_sel)
| OPipe (ps : list (string * N)).     (* key, KeyType: 0 NONE 1 STRING 2 NUMBER 3 UNKNOWN *)

Inductive oparse := PToks (l : list otoken) | PErr | PPanic.

Record obs := mkObs { o_exec : outcome; o_parse : oparse; o_pure : bool }.

Definition ix_eqb (a b : index_sel) : bool :=
  match a, b with
  | IxIndex i, IxIndex j => (i =? j)%Z
  | IxRange a1 a2, IxRange b1 b2 => ((a1 =? b1) && (a2 =? b2))%Z
  | _, _ => false
  end.

Fixpoint list_eqb {A B} (eq : A -> B -> bool) (x : list A) (y : list B) : bool :=
  match x, y with
  | [], [] => true
  | a :: x', b :: y' => eq a b && list_eqb eq x' y'
  | _, _ => false
  end.

Definition kt_code (p : pipe_sel) : N :=
  match get_type p with KNone => 0 | KString => 1 | KNumber => 2 | KUnknown => 3 end%N.

Definition tok_eqb (t : token) (o : otoken) : bool :=
  match t, o with
  | TFn f, OFn g => String.eqb f g
  | TKey k, OKey g => String.eqb k g
  | TIndex ds, OIndex es => list_eqb ix_eqb ds es
  | TKeep ds, OKeep es => list_eqb ix_eqb ds es
  | TPipe ps, OPipe qs =>
      list_eqb (fun p q => String.eqb (pkey p) (fst q) && N.eqb (kt_code p) (snd q)) ps qs
  | _, _ => false
  end.

Definition parse_agrees (m : res (list token)) (o : oparse) : bool :=
  match m, o with
  | Ok ts, PToks os => list_eqb tok_eqb ts os
  | Err, PErr => true
  | Panic, PPanic => true
  | _, _ => false
  end.

Definition exec_agrees (m : res value) (o : outcome) : bool :=
  match m, o with
  | Ok v, OOk w => veqb v w
  | Err, OErr => true
  | Panic, OPanic => true
  | _, _ => false
  end.

Definition spec_agrees (m : res value) (o : outcome) : bool :=
  match m, o with
  | Ok v, OOk w => veqb v w
  | Err, OErr => true
  | OutOfModel, OOk _ => true
  | OutOfModel, OErr => true
  | _, _ => false
  end.

Definition no_panic (o : obs) : bool :=
  match o_exec o with OPanic => false | _ => match o_parse o with PPanic => false | _ => true end end.

Definition check (i : value * string * option sel) (o : obs) : N :=
  let '(doc, s, ast) := i in
  let m := exec_reader doc s in
  let printer_ok := match ast with Some a => String.eqb (print_sel a) s | None => true end in
  let spec_ok := no_panic o && o_pure o &&
                 match ast with
                 | Some a => spec_agrees (sel_sem top_level a doc) (o_exec o)
                 | None => true
                 end in
  match m with
  | OutOfModel =>
      if spec_ok && printer_ok && parse_agrees (parse_selector s) (o_parse o) then 4%N
      else code_of (printer_ok && parse_agrees (parse_selector s) (o_parse o)) spec_ok
  | _ =>
      code_of (exec_agrees m (o_exec o) && parse_agrees (parse_selector s) (o_parse o) && printer_ok)
              spec_ok
  end.
