(* Run/C16Run.v — correspondence glue for C16.
   [ISan]: a template + arguments through sanitize.NewQuery / sanitize.SanitizeSQL (parts, text or
   error class), the real sqlparser tokenizer over template and output (token start offsets), the
   AST-shape comparison done by the harness with genql.Parse, and optionally genql.New(..).Exec()
   (echo / WHERE filter).  [ILit]: one string literal through the real sqlparser tokenizer, to
   validate Model/MySqlString.scan_string itself.
   strconv.FormatFloat is an oracle: the harness passes its text for every float argument
   ([ftxt]); where Model/Sanitizer.fmt_f is defined it must agree with the oracle, elsewhere the
   oracle text is used so that no case is skipped. *)
From Coq Require Import Floats SpecFloat.
From GenqlV Require Import Base.Prelude Base.Fmt Base.Value Model.MySqlString Model.Sanitizer Spec.C16Spec.
Local Open Scope string_scope.
Local Open Scope bool_scope.

Inductive probe := PNone | PEcho | PFilter (names : list bytes).

Inductive c16_in :=
| ISan (t : bytes) (args : list arg) (ftxt : list bytes) (p : probe)
| ILit (s : bytes).

Inductive exec_obs := XNone | XErr | XPanic | XRows (v : value).

Inductive c16_obs :=
| OSan (parts : res (list part)) (out : res bytes) (ttoks otoks : list nat)
       (shape : option bool) (exec : exec_obs)
| OLit (isstr : bool) (val : bytes) (pos : nat).

Definition sf_eqb (a b : spec_float) : bool :=
  match a, b with
  | S754_zero s, S754_zero s' => Bool.eqb s s'
  | S754_infinity s, S754_infinity s' => Bool.eqb s s'
  | S754_nan, S754_nan => true
  | S754_finite s m e, S754_finite s' m' e' => Bool.eqb s s' && Pos.eqb m m' && Z.eqb e e'
  | _, _ => false
  end.

Definition part_eqb (a b : part) : bool :=
  match a, b with
  | PRaw s, PRaw s' => String.eqb s s'
  | PArg n, PArg n' => Z.eqb n n'
  | _, _ => false
  end.

Fixpoint list_eqb {A} (eqb : A -> A -> bool) (x y : list A) : bool :=
  match x, y with
  | [], [] => true
  | a :: x', b :: y' => eqb a b && list_eqb eqb x' y'
  | _, _ => false
  end.

Definition res_eqb {A} (eqb : A -> A -> bool) (x y : res A) : bool :=
  match x, y with
  | Ok a, Ok b => eqb a b
  | Err, Err | Panic, Panic | OutOfModel, OutOfModel => true
  | _, _ => false
  end.

Definition is_finite (f : spec_float) : bool :=
  match f with S754_zero _ | S754_finite _ _ _ => true | _ => false end.

(* FormatFloat oracle: the text the harness recorded for the first argument equal to f *)
Fixpoint oracle_text (args : list arg) (ftxt : list bytes) (f : spec_float) : res bytes :=
  match args, ftxt with
  | AFloat g :: ar, tx :: tr => if sf_eqb f g then Ok tx else oracle_text ar tr f
  | _ :: ar, _ :: tr => oracle_text ar tr f
  | _, _ => OutOfModel
  end.

Definition ff_with_oracle (args : list arg) (ftxt : list bytes) (f : spec_float) : res bytes :=
  match fmt_f f with
  | OutOfModel => oracle_text args ftxt f
  | r => r
  end.

(* where fmt_f is defined it agrees with strconv *)
Fixpoint fmt_f_agrees (args : list arg) (ftxt : list bytes) : bool :=
  match args, ftxt with
  | AFloat g :: ar, tx :: tr =>
      match fmt_f g with Ok s => String.eqb s tx | _ => true end && fmt_f_agrees ar tr
  | _ :: ar, _ :: tr => fmt_f_agrees ar tr
  | _, _ => true
  end.

Definition float_of_int64 (z : Z) : float :=
  if (z =? -9223372036854775808)%Z then (-0x1p63)%float else float_of_Z z.

Definition val_of_arg (a : arg) : value :=
  match a with
  | ANull | AOther => VNull
  | AInt z => VNum (float_of_int64 z)
  | AFloat f => VNum (SF2Prim f)
  | ABool b => VBool b
  | AStr s => VStr s
  end.

Fixpoint sargs_of (args : list arg) (ftxt : list bytes) : list sarg :=
  match args, ftxt with
  | a :: ar, tx :: tr =>
      (match a with
       | ANull | AOther => SNull
       | AInt z => SInt z
       | ABool b => SBool b
       | AStr s => SStr s
       | AFloat _ =>
           match tx with
           | String c r => if is c "-" then SFloatText true r else SFloatText false tx
           | EmptyString => SFloatText false tx
           end
       end) :: sargs_of ar tr
  | _, _ => []
  end.

Definition unsupported (a : arg) : bool :=
  match a with AOther => true | AFloat f => negb (is_finite f) | _ => false end.

Fixpoint filter_rows (names : list bytes) (s : bytes) (i : Z) : list value :=
  match names with
  | [] => []
  | n :: r =>
      let tl := filter_rows r s (i + 1)%Z in
      if String.eqb n s then VObj [("id", VNum (float_of_Z i))] :: tl else tl
  end.

Definition exec_ok (p : probe) (args : list arg) (x : exec_obs) : bool :=
  match p with
  | PNone => true
  | PEcho =>
      match args, x with
      | [a], XRows v => veqb v (VArr [VObj [("v", val_of_arg a)]])
      | _, _ => false
      end
  | PFilter names =>
      match args, x with
      | [AStr s], XRows v => veqb v (VArr (filter_rows names s 0%Z))
      | _, _ => false
      end
  end.

Definition check (i : c16_in) (o : c16_obs) : N :=
  match i, o with
  | ILit s, OLit isstr v pos =>
      let ok :=
        match mysql_scan_string s with
        | Some (v', rest) =>
            isstr && String.eqb v v' && Nat.eqb pos (String.length s - String.length rest)
        | None => negb isstr
        end in
      code_of ok true
  | ISan t args ftxt p, OSan parts out ttoks otoks shape exec =>
      let mparts := lex t in
      let mout := sanitize_with true quote_string (ff_with_oracle args ftxt) mparts args in
      match mout with
      | OutOfModel => 4%N
      | _ =>
          let model_ok :=
            res_eqb (list_eqb part_eqb) parts (Ok mparts)
            && res_eqb String.eqb out mout
            && list_eqb Nat.eqb ttoks (mtoken_starts t)
            && match out with Ok otxt => list_eqb Nat.eqb otoks (mtoken_starts otxt) | _ => true end
            && fmt_f_agrees args ftxt in
          let no_panic :=
            match out with Panic => false | _ => true end
            && match parts with Ok _ => true | _ => false end in
          let spec_ok :=
            no_panic &&
            (if wf_templateb t then
               let exp_err := expect_error t (List.length args) || existsb unsupported args in
               match out with
               | Ok otxt =>
                   negb exp_err
                   && shape_ok t (sargs_of args ftxt) otxt
                   && match shape with Some false => false | _ => true end
                   && exec_ok p args exec
               | Err => exp_err
               | _ => false
               end
             else true) in
          code_of model_ok spec_ok
      end
  | _, _ => 1%N
  end.
