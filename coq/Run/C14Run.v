(* Run/C14Run.v — correspondence glue for C14.
   input  : the query (tables inline), a schedule prefix chosen by the harness
   observed: what Exec returned (Ok rows | Err | Panic), the invocations that had COMPLETED at the
             instant Exec returned, and all invocations after the detached (SPIN) goroutines had
             drained — as (function, arguments) pairs.
   The model is run three ways: sequentially (exec_seq), under the harness's schedule prefix
   followed by a fair completion, and under a main-first schedule (every goroutine as late as
   possible); all must give the observed result.  The property oracle is the synchronous
   reference semantics of the stripped query (Spec/StrategiesSpec.v) applied to the observation. *)
From Coq Require Import Floats.
From GenqlV Require Import Base.Prelude Base.Value Model.Strategies Spec.StrategiesSpec Proofs.C14Kernel.
Local Open Scope string_scope.
Local Open Scope list_scope.

(* functions the harness registers through genql.RegisterFunction (never immediate) *)
Definition user_functions : list (string * bool) :=
  [("fa", false); ("fb", false); ("fc", false); ("fe", false); ("fp", false); ("fn", false); ("fz", false)].
Definition run_registry : list (string * bool) := registry ++ user_functions.

Definition first_is_two (args : list value) : bool :=
  match args with VNum x :: _ => PrimFloat.eqb x 2%float | _ => false end.

Definition first_is_one (args : list value) : bool :=
  match args with VNum x :: _ => PrimFloat.eqb x 1%float | _ => false end.

(* fa fb fc return [name, args...]; fe returns an error and fp panics when the first argument is 2;
   fz always returns NULL; fn returns NULL when its first argument is 1 (the first row's id) and
   [name, args...] otherwise — so under ONCE every row must see NULL after a single invocation,
   whereas a memo that treats a stored NULL as "absent" re-invokes it and yields a non-NULL value *)
Definition harness_oracle : oracle := fun name args =>
  if String.eqb name "fe" && first_is_two args then FErr
  else if String.eqb name "fp" && first_is_two args then FPanic
  else if String.eqb name "fz" then FOk VNull
  else if String.eqb name "fn" && first_is_one args then FOk VNull
  else FOk (VArr (VStr name :: args)).

Definition inv := (string * list value)%type.
Definition inv_of (c : call) : inv := (c_fn c, c_args c).
Definition inv_eqb (a b : inv) : bool := String.eqb (fst a) (fst b) && list_veqb (snd a) (snd b).

Fixpoint remove_one (x : inv) (l : list inv) : option (list inv) :=
  match l with
  | [] => None
  | y :: r => if inv_eqb x y then Some r
              else match remove_one x r with Some r' => Some (y :: r') | None => None end
  end.

(* l minus the multiset m, None when m is not contained in l *)
Fixpoint msub (l m : list inv) : option (list inv) :=
  match m with
  | [] => Some l
  | x :: r => match remove_one x l with Some l' => msub l' r | None => None end
  end.

Definition mset_eqb (a b : list inv) : bool :=
  match msub a b with Some [] => true | _ => false end.
Definition mset_between (lo obs hi_extra : list inv) : bool :=
  (* lo ⊆ obs and obs \ lo ⊆ hi_extra *)
  match msub obs lo with
  | Some rest => match msub hi_extra rest with Some _ => true | None => false end
  | None => false
  end.

Definition res_eqb (a b : res value) : bool :=
  match a, b with
  | Ok x, Ok y => veqb x y
  | Err, Err => true
  | Panic, Panic => true
  | _, _ => false
  end.

Definition fair (nworkers rounds : nat) : list nat :=
  flat_map (fun _ => 0 :: map S (seq 0 nworkers)) (seq 0 rounds).
Definition main_first (nacts nworkers : nat) : list nat :=
  repeat 0 nacts ++ fair nworkers 8.

(* o_same: the same query with the ASYNC qualifiers removed, run on the REAL code, returned the same *)
Record obs := mkObs { o_res : res value; o_at_return : list inv; o_final : list inv; o_same : bool }.

Definition check (i : query * list nat) (o : obs) : N :=
  let '(q, pre) := i in
  let p := compile run_registry harness_oracle q in
  let acts := prog_acts p in
  let e := prog_fin p in
  let nw := List.length (spawned acts) in
  let seqr := seq_result harness_oracle acts e in
  let s1 := run harness_oracle acts e (pre ++ fair nw (List.length acts + 8)) in
  let s2 := run harness_oracle acts e (main_first (List.length acts) nw) in
  let machine_ok :=
    match m_res s1, m_res s2 with
    | Some r1, Some r2 => res_eqb r1 seqr && res_eqb r2 seqr
    | _, _ => false
    end in
  let counted_inv := map inv_of (prog_calls acts) in
  let spin_inv := map inv_of (spin_calls acts) in
  let model_ok :=
    machine_ok && res_eqb seqr (o_res o) &&
    match seqr with
    | Ok _ => mset_between counted_inv (o_at_return o) spin_inv &&
              mset_eqb (o_final o) (counted_inv ++ spin_inv)
    | _ => true
    end in
  (* the property itself: same result and same invocations as the stripped query run in place *)
  let '(sc, sr) := run_sync run_registry harness_oracle (strip q) in
  let spec_ok :=
    if async_ok run_registry q then
      res_eqb sr (o_res o) &&
      match sr with
      | Ok _ => mset_between (map inv_of sc) (o_at_return o) spin_inv
      | _ => true
      end
    else res_eqb (o_res o) Err || negb (res_eqb seqr Err) in
  code_of model_ok (spec_ok && (o_same o || negb (async_ok run_registry q))).
