(* Base/Trace.v — heap-event traces.  An execution of a query is abstracted to the sequence of
   allocations and writes it performs on map / slice objects; [pre] marks the objects reachable from
   the caller's input document before the call.  Definitions only. *)
From Coq Require Import List Arith Bool.
Import ListNotations.

Definition addr := nat.

Inductive event :=
| Alloc (a : addr)              (* make / composite literal / maps.Clone / Scope(...) *)
| Write (a : addr) (v : nat)    (* x[k] = v, delete, maps.Copy(dst,_), sort in place, append into capacity *)
| Read (a : addr).

Definition heap := addr -> nat.      (* abstract content of every object *)

Definition apply_event (h : heap) (e : event) : heap :=
  match e with
  | Write a v => fun x => if Nat.eqb x a then v else h x
  | _ => h
  end.

Definition run_trace (h : heap) (tr : list event) : heap := fold_left apply_event tr h.

(* every write targets an object allocated earlier in the same trace, and the allocator never
   returns an object of the input *)
Fixpoint writes_fresh (pre : addr -> bool) (owned : list addr) (tr : list event) : bool :=
  match tr with
  | [] => true
  | Alloc a :: r => negb (pre a) && writes_fresh pre (a :: owned) r
  | Write a _ :: r => existsb (Nat.eqb a) owned && writes_fresh pre owned r
  | Read _ :: r => writes_fresh pre owned r
  end.

(* the pinned protocol for the backward-navigation marker: written into the caller's row, removed
   by a post-processor that only runs when the query succeeds *)
Definition pinned_marker_trace (row : addr) (fails : bool) : list event :=
  Write row 1 :: (if fails then [] else [Write row 0]).

(* the repaired protocol: the marker lives in a shallow copy *)
Definition scoped_marker_trace (row copy : addr) : list event :=
  [Read row; Alloc copy; Write copy 1].
