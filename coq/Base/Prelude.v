(* Base/Prelude.v — byte strings, outcome monad, small list utilities.
   Stdlib only.  No proofs of properties here. *)
From Coq Require Export List Bool Arith ZArith NArith Lia Ascii String.
Export ListNotations.

(* ------------------------------------------------------------------ *)
(* Byte strings: Go strings are byte sequences; we use Coq [string]     *)
(* (a list of 8-bit [ascii]) so that literals stay readable.            *)
(* ------------------------------------------------------------------ *)

Definition bytes := string.

Fixpoint bs_of_list (l : list nat) : string :=
  match l with
  | [] => EmptyString
  | n :: r => String (ascii_of_nat n) (bs_of_list r)
  end.

Fixpoint list_of_bs (s : string) : list ascii :=
  match s with EmptyString => [] | String a r => a :: list_of_bs r end.

Fixpoint bs_of_asciis (l : list ascii) : string :=
  match l with [] => EmptyString | a :: r => String a (bs_of_asciis r) end.

(* three-way byte-lexicographic comparison, as Go's strings.Compare *)
Definition str_cmp (a b : string) : Z :=
  match String.compare a b with Lt => (-1)%Z | Eq => 0%Z | Gt => 1%Z end.

(* ------------------------------------------------------------------ *)
(* Outcomes of a Go call as the model sees them                         *)
(* ------------------------------------------------------------------ *)

Inductive res (A : Type) : Type :=
| Ok (a : A)
| Err                    (* the Go function returned a non-nil error          *)
| Panic                  (* a Go panic that the modelled frame does not catch *)
| OutOfModel.            (* input outside the class the model describes       *)
Arguments Ok {A} a.
Arguments Err {A}.
Arguments Panic {A}.
Arguments OutOfModel {A}.

Definition bind {A B} (r : res A) (f : A -> res B) : res B :=
  match r with
  | Ok a => f a
  | Err => Err
  | Panic => Panic
  | OutOfModel => OutOfModel
  end.

Notation "'let!' x ':=' e 'in' k" := (bind e (fun x => k))
  (at level 200, x pattern, e at level 100, k at level 200, right associativity).

(* a recovering frame: [defer func(){ if r := recover(); r != nil { err = ... } }()] *)
Definition catch_panic {A} (r : res A) : res A :=
  match r with Panic => Err | x => x end.

Fixpoint mapM {A B} (f : A -> res B) (l : list A) : res (list B) :=
  match l with
  | [] => Ok []
  | a :: r => let! b := f a in let! bs := mapM f r in Ok (b :: bs)
  end.

Definition is_ok {A} (r : res A) : bool := match r with Ok _ => true | _ => false end.
Definition is_err {A} (r : res A) : bool := match r with Err => true | _ => false end.

(* ------------------------------------------------------------------ *)
(* Mismatch collection used by every generated cases file               *)
(* codes: 0 agree, 1 model differs, 2 property (spec) fails, 3 both,     *)
(*        4 out of model (skipped, counted)                              *)
(* ------------------------------------------------------------------ *)

Definition mismatches {I O : Type} (check : I -> O -> N) (cases : list (nat * (I * O)))
  : list (nat * N) :=
  flat_map (fun c => match check (fst (snd c)) (snd (snd c)) with
                     | 0%N => []
                     | k => [(fst c, k)]
                     end) cases.

Definition code_of (model_ok spec_ok : bool) : N :=
  ((if model_ok then 0 else 1) + (if spec_ok then 0 else 2))%N.
