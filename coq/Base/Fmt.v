(* Base/Fmt.v — model of the uses genql makes of fmt.Sprintf("%v", x) on numbers.
   A double is given exactly as a dyadic  m * 2^e  (m, e : Z).  Go prints the shortest
   decimal that round-trips ('g', -1); when the exact decimal expansion has at most 15
   significant digits that expansion IS the shortest one (DBL_DIG = 15), which is the only
   class this model covers — everything else is [None] (out of model, counted by the harness). *)
From Coq Require Import DecimalString Decimal.
From GenqlV Require Import Base.Prelude.
Local Open Scope Z_scope.

Definition N_to_dec (n : N) : string := NilZero.string_of_uint (N.to_uint n).

Definition Z_to_dec (z : Z) : string :=
  match z with
  | Z0 => "0"%string
  | Zpos p => N_to_dec (Npos p)
  | Zneg p => String "-" (N_to_dec (Npos p))
  end.

(* strip trailing decimal zeros of n > 0, counting them; fuel = number of digits *)
Fixpoint strip10 (fuel : nat) (n : N) (q : Z) : N * Z :=
  match fuel with
  | O => (n, q)
  | S f => if (N.eqb (n mod 10) 0 && negb (N.eqb n 0))%bool
           then strip10 f (n / 10)%N (q + 1) else (n, q)
  end.

Fixpoint zeros (n : nat) : string :=
  match n with O => EmptyString | S k => String "0" (zeros k) end.

Definition pad2 (s : string) : string :=
  if Nat.ltb (String.length s) 2 then String "0" s else s.

(* |x| = sig * 10^q  with sig > 0 without trailing zero;  Go's %e / %f choice for shortest 'g' *)
Definition fmt_sig (neg : bool) (sig : N) (q : Z) : string :=
  let ds := N_to_dec sig in
  let nd := Z.of_nat (String.length ds) in
  let dp := nd + q in
  let ex := dp - 1 in
  let body :=
    if (ex <? -4) || (6 <=? ex) then
      let first := String.substring 0 1 ds in
      let rest := String.substring 1 (String.length ds - 1) ds in
      let mant := if (nd =? 1) then first else (first ++ "." ++ rest)%string in
      let es := if ex <? 0 then ("-" ++ pad2 (Z_to_dec (- ex)))%string
                else ("+" ++ pad2 (Z_to_dec ex))%string in
      (mant ++ "e" ++ es)%string
    else if dp <=? 0 then ("0." ++ zeros (Z.to_nat (- dp)) ++ ds)%string
    else if nd <=? dp then (ds ++ zeros (Z.to_nat (dp - nd)))%string
    else (String.substring 0 (Z.to_nat dp) ds ++ "." ++
          String.substring (Z.to_nat dp) (Z.to_nat (nd - dp)) ds)%string in
  if neg then String "-" body else body.

(* %v of the double  m * 2^e ; [negzero] distinguishes -0 *)
Definition fmt_dyadic (m e : Z) : option string :=
  if m =? 0 then Some "0"%string else
  let neg := m <? 0 in
  let a := Z.to_N (Z.abs m) in
  let n := if 0 <=? e then (a * 2 ^ Z.to_N e)%N else (a * 5 ^ Z.to_N (- e))%N in
  let q := if 0 <=? e then 0 else e in
  let '(sig, q') := strip10 400 n q in
  if Nat.leb (String.length (N_to_dec sig)) 15 then Some (fmt_sig neg sig q') else None.
