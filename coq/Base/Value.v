(* Base/Value.v — JSON-like values as genql sees them (map[string]any, []any, float64, string,
   bool, nil).  Objects are association lists; the harness emits them sorted by key with unique
   keys (Go maps are unordered; sorted = canonical form).  Numbers are Coq primitive floats
   (IEEE-754 binary64, the same operations Go's float64 uses). *)
From Coq Require Import Floats.
From GenqlV Require Import Base.Prelude Base.Fmt.

Inductive value :=
| VNull
| VBool (b : bool)
| VNum (f : float)
| VStr (s : string)
| VArr (l : list value)
| VObj (kvs : list (string * value)).

(* nested induction principle *)
Section value_ind'.
  Variable P : value -> Prop.
  Hypothesis Hnull : P VNull.
  Hypothesis Hbool : forall b, P (VBool b).
  Hypothesis Hnum : forall f, P (VNum f).
  Hypothesis Hstr : forall s, P (VStr s).
  Hypothesis Harr : forall l, Forall P l -> P (VArr l).
  Hypothesis Hobj : forall kvs, Forall (fun kv => P (snd kv)) kvs -> P (VObj kvs).
  Fixpoint value_ind' (v : value) : P v :=
    match v with
    | VNull => Hnull
    | VBool b => Hbool b
    | VNum f => Hnum f
    | VStr s => Hstr s
    | VArr l => Harr l ((fix go (l : list value) : Forall P l :=
                          match l with [] => Forall_nil _ | x :: r => Forall_cons _ (value_ind' x) (go r) end) l)
    | VObj kvs => Hobj kvs ((fix go (l : list (string * value)) : Forall (fun kv => P (snd kv)) l :=
                          match l with [] => Forall_nil _ | x :: r => Forall_cons _ (value_ind' (snd x)) (go r) end) kvs)
    end.
End value_ind'.

(* ---------- floats ---------- *)

(* identity of doubles as observables: same bits up to NaN payload *)
Definition feqb (x y : float) : bool :=
  if PrimFloat.is_nan x then PrimFloat.is_nan y
  else if PrimFloat.is_nan y then false
  else PrimFloat.eqb x y && Bool.eqb (PrimFloat.get_sign x) (PrimFloat.get_sign y).

(* exact dyadic m * 2^e of a finite double *)
Definition float_dyadic (f : float) : option (Z * Z) :=
  match Prim2SF f with
  | S754_zero _ => Some (0%Z, 0%Z)
  | S754_finite s m e => Some ((if s then Zneg m else Zpos m), e)
  | _ => None
  end.

(* fmt %v of a float64 *)
Definition fmt_float (f : float) : option string :=
  match Prim2SF f with
  | S754_zero true => Some "-0"%string
  | S754_zero false => Some "0"%string
  | S754_finite s m e => fmt_dyadic (if s then Zneg m else Zpos m) e
  | S754_infinity true => Some "-Inf"%string
  | S754_infinity false => Some "+Inf"%string
  | S754_nan => Some "NaN"%string
  end.

Definition float_of_Z (z : Z) : float :=
  match z with
  | Z0 => 0%float
  | Zpos p => PrimFloat.of_uint63 (Uint63.of_Z (Zpos p))
  | Zneg p => PrimFloat.opp (PrimFloat.of_uint63 (Uint63.of_Z (Zpos p)))
  end.

(* ---------- structural equality ---------- *)

Fixpoint veqb (a b : value) : bool :=
  match a, b with
  | VNull, VNull => true
  | VBool x, VBool y => Bool.eqb x y
  | VNum x, VNum y => feqb x y
  | VStr x, VStr y => String.eqb x y
  | VArr x, VArr y =>
      (fix go (x y : list value) : bool :=
         match x, y with
         | [], [] => true
         | p :: x', q :: y' => veqb p q && go x' y'
         | _, _ => false
         end) x y
  | VObj x, VObj y =>
      (fix go (x y : list (string * value)) : bool :=
         match x, y with
         | [], [] => true
         | (k, p) :: x', (k', q) :: y' => String.eqb k k' && veqb p q && go x' y'
         | _, _ => false
         end) x y
  | _, _ => false
  end.

Definition list_veqb (x y : list value) : bool := veqb (VArr x) (VArr y).

(* ---------- objects ---------- *)

Fixpoint lookup (k : string) (kvs : list (string * value)) : option value :=
  match kvs with
  | [] => None
  | (k', v) :: r => if String.eqb k k' then Some v else lookup k r
  end.

(* m[k] = v on a sorted association list: replace or insert in order *)
Fixpoint obj_set (k : string) (v : value) (kvs : list (string * value)) : list (string * value) :=
  match kvs with
  | [] => [(k, v)]
  | (k', v') :: r =>
      match String.compare k k' with
      | Eq => (k, v) :: r
      | Lt => (k, v) :: (k', v') :: r
      | Gt => (k', v') :: obj_set k v r
      end
  end.

Fixpoint obj_del (k : string) (kvs : list (string * value)) : list (string * value) :=
  match kvs with
  | [] => []
  | (k', v') :: r => if String.eqb k k' then r else (k', v') :: obj_del k r
  end.

(* maps.Copy(dst, src) *)
Definition obj_merge (dst src : list (string * value)) : list (string * value) :=
  fold_left (fun acc kv => obj_set (fst kv) (snd kv) acc) src dst.

Definition obj_of_list (kvs : list (string * value)) : list (string * value) := obj_merge [] kvs.

Definition keys (kvs : list (string * value)) : list string := map fst kvs.

(* ---------- fmt %v of values ---------- *)

Fixpoint join_sp (l : list string) : string :=
  match l with
  | [] => EmptyString
  | [x] => x
  | x :: r => (x ++ " " ++ join_sp r)%string
  end.

Fixpoint sequence_opt {A} (l : list (option A)) : option (list A) :=
  match l with
  | [] => Some []
  | None :: _ => None
  | Some a :: r => match sequence_opt r with Some r' => Some (a :: r') | None => None end
  end.

Fixpoint fmt_value (v : value) : option string :=
  match v with
  | VNull => Some "<nil>"%string
  | VBool true => Some "true"%string
  | VBool false => Some "false"%string
  | VNum f => fmt_float f
  | VStr s => Some s
  | VArr l =>
      match sequence_opt (map fmt_value l) with
      | Some parts => Some ("[" ++ join_sp parts ++ "]")%string
      | None => None
      end
  | VObj kvs =>
      match sequence_opt (map (fun kv => match fmt_value (snd kv) with
                                         | Some s => Some (fst kv ++ ":" ++ s)%string
                                         | None => None end) kvs) with
      | Some parts => Some ("map[" ++ join_sp parts ++ "]")%string
      | None => None
      end
  end.

(* ---------- compare.Compare restricted to JSON data (float64, string, bool, nil, containers) ----- *)

Definition fcmp (x y : float) : Z :=
  if PrimFloat.eqb x y then 0%Z else if PrimFloat.ltb y x then 1%Z else (-1)%Z.

Definition vcompare (a b : value) : res Z :=
  match a, b with
  | VNum x, VNum y => Ok (fcmp x y)
  | _, _ =>
      match fmt_value a, fmt_value b with
      | Some s, Some t => Ok (str_cmp s t)
      | _, _ => OutOfModel
      end
  end.
