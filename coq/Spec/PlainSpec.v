(* Spec/PlainSpec.v — property C12: "a result is plain self-contained data".

   In the model a result row is a [value]: the type has exactly the six JSON constructors, so "no
   ColumnName / NeutalString / *float64 / Ommit wrapper, no thunk, no pointer in a result" holds by
   typing (the wrappers live in [raw], which never occurs inside a [value]).  What typing does NOT give
   is the absence of the backward-navigation key `<-`, which the engine stores in the copies of the
   current row it hands to comparisons and subqueries.  This file states that part, written from the
   property text ("no `<-` navigation key", at any depth), independently of the evaluator:

     child / inside   the sub-value relation of JSON data
     clean v          no object inside v (at any depth, v included) has a key `<-`
     cleanb           the same as a boolean function (used by the Examples and by the Go-side check)

   and the syntactic scope of the claim:

     stmt_ok strict q     the admissible queries.  [strict = false] is the top-level query, [strict = true]
                          a query that runs inside a row-scoped subquery, where `query.data` is the scope
                          copy of the enclosing row (it carries `<-`).  *)
From GenqlV Require Import Base.Prelude Base.Value Model.Ast.

Definition nav : string := "<-".

(* ------------------------------------------------------------------ *)
(* 1. the predicate on data                                             *)
(* ------------------------------------------------------------------ *)

(* [child w v]: w is an element of the array v, or the value of a member of the object v *)
Inductive child : value -> value -> Prop :=
| child_arr : forall l w, In w l -> child w (VArr l)
| child_obj : forall kvs k w, In (k, w) kvs -> child w (VObj kvs).

(* [inside w v]: w occurs in v at some depth (reflexive-transitive closure of child) *)
Inductive inside : value -> value -> Prop :=
| inside_refl : forall v, inside v v
| inside_step : forall w u v, inside w u -> child u v -> inside w v.

(* no object at any depth has the navigation key *)
Definition clean (v : value) : Prop :=
  forall kvs, inside (VObj kvs) v -> ~ In nav (keys kvs).

(* the same, executable *)
Fixpoint cleanb (v : value) : bool :=
  match v with
  | VArr l => (fix all (l : list value) : bool :=
                 match l with [] => true | x :: r => cleanb x && all r end) l
  | VObj kvs => (fix all (l : list (string * value)) : bool :=
                   match l with
                   | [] => true
                   | (k, x) :: r => negb (String.eqb k nav) && cleanb x && all r
                   end) kvs
  | _ => true
  end.

(* ------------------------------------------------------------------ *)
(* 2. the admissible queries                                            *)
(* ------------------------------------------------------------------ *)

(* a user-chosen key (select alias, table alias, grouping column, join identifier) *)
Definition name_ok (k : string) : bool := negb (String.eqb k nav).

(* a path made of `<-` steps only (the empty path included) denotes a scope object itself *)
Definition nav_only (p : list string) : bool := forallb (fun k => String.eqb k nav) p.

Definition is_dual {Q} (f : from_clause Q) : bool := match f with FDual => true | _ => false end.

(* the identifier the join uses for one side (Exec.from_ident, for any Q) *)
Definition ident_of {Q} (f : from_clause Q) : string :=
  match f with
  | FTable p a => if String.eqb a "" then hd ""%string p else a
  | FTableFn _ p a => if String.eqb a "" then hd ""%string p else a
  | FSel sl a => if String.eqb a "" then sel_ident sl else a
  | FDerived _ a => a
  | _ => ""%string
  end.

Section Ok.
  Variable Q : Type.
  Variable same : Q -> bool.     (* nested statement evaluated with the SAME query.data (CTE, derived table) *)
  Variable sub : Q -> bool.      (* row-scoped subquery: evaluated with a scope copy as query.data *)
  Variable strict : bool.        (* query.data of this statement is a scope copy *)

  Section Items.
    (* [sc]: the row the select list is evaluated on is the scope copy itself, i.e. the statement is
       `SELECT … FROM dual` inside a subquery *)
    Variable sc : bool.

    (* Only VALUE positions are constrained: predicates (comparison, LIKE, IN, BETWEEN, IS, EXISTS,
       AND/OR/NOT) yield a boolean and arithmetic yields a number whatever their operands contain, so
       their operands and subqueries are unconstrained; WHERE / HAVING / ON likewise. *)
    Fixpoint expr_ok (e : expr Q) : bool :=
      match e with
      | ECol p => negb (sc && nav_only p)
      | ECase whens els =>
          (fix go (ws : list (expr Q * expr Q)) : bool :=
             match ws with [] => true | (_, v) :: r => expr_ok v && go r end) whens
          && match els with None => true | Some x => expr_ok x end
      | ESub q => sub q
      | ECall _ _ args =>
          (fix go (l : list (expr Q)) : bool :=
             match l with [] => true | x :: r => expr_ok x && go r end) args
      | ETuple items =>            (* the members of a value tuple are value positions *)
          (fix go (l : list (expr Q)) : bool :=
             match l with [] => true | x :: r => expr_ok x && go r end) items
      | _ => true
      end.

    Definition item_ok (it : sel_item Q) : bool :=
      match it with
      | IStar => negb sc                       (* no_star_over_scope: `SELECT * FROM dual` in a subquery *)
      | IExpr e name => name_ok name && expr_ok e
      end.
  End Items.

  Fixpoint from_ok (f : from_clause Q) : bool :=
    match f with
    | FDual => true
    | FTable p a => name_ok a && negb (strict && nav_only p)
    | FTableFn _ _ a => name_ok a
    | FSel _ _ => false              (* a selector as table name (pipes, top-level functions): outside this fragment *)
    | FDerived q a => name_ok a && same q
    | FJoin _ _ l r _ => from_ok l && from_ok r && name_ok (ident_of l) && name_ok (ident_of r)
    end.

  Definition select_ok (s : select Q) : bool :=
    (fix go (l : list (string * Q)) : bool :=
       match l with [] => true | (_, b) :: r => same b && go r end) (s_with s)
    && from_ok (s_from s)
    && forallb (fun c => name_ok (gk_name c)) (s_group s)
    && forallb (item_ok (strict && is_dual (s_from s))) (s_items s).
End Ok.

Arguments expr_ok {Q}. Arguments item_ok {Q}. Arguments from_ok {Q}. Arguments select_ok {Q}.

(* [no_star_over_scope] of the task text, with the other two ways of projecting a scope object:
   inside a subquery (strict) no `SELECT * FROM dual`, no column path / table path consisting of `<-`
   steps only; everywhere no user-chosen name equal to `<-`. *)
Fixpoint stmt_ok (strict : bool) (q : stmt) {struct q} : bool :=
  match q with
  | SSelect s => select_ok (stmt_ok strict) (stmt_ok true) strict s
  | SUnion _ l r _ _ => stmt_ok strict l && stmt_ok strict r
  end.

(* the top-level query *)
Definition query_ok (q : stmt) : bool := stmt_ok false q.
