(* Spec/StageSpec.v — specification for C07, written from the property text:

     "Naming an intermediate result does not change it: a query reading from a CTE or an aliased
      derived table returns what the same outer query returns when run over the inner query's
      materialised result supplied as plain input, including CTEs that reference earlier CTEs, are
      referenced several times, or are read through a path selector (`cte.column`).  A subquery in
      the select list or on the right of IN is evaluated against the current row (after `<-`, against
      the enclosing document) and contributes exactly what that subquery returns when run standalone
      on that row; `EXISTS (SELECT ... FROM nested WHERE p)` is true iff some element of the row's
      nested array satisfies p, where p may also mention the outer row's columns."

   The property relates two executions of the engine, so the specification is phrased with the
   engine's own top-level entry point ([exec] on a context without CTEs = "run standalone on this
   document"); everything else — materialise-then-query, the staged documents of a CTE chain, the
   element-wise reading of EXISTS, membership for IN — is defined here without reference to how the
   engine resolves names, thunks or subqueries. *)
From Coq Require Import Floats.
From GenqlV Require Import Base.Prelude Base.Fmt Base.Value Model.Ast Model.Like Model.Num Model.Eval Model.Exec.
Local Open Scope list_scope.

(* ------------------------------------------------------------------ *)
(* documents, standalone runs                                          *)
(* ------------------------------------------------------------------ *)

(* a query run standalone on document [d]: no CTE is registered, none is in progress *)
Definition plain (d : row) : qctx := {| c_data := d; c_ctes := []; c_busy := []; c_up := [] |}.

(* the document with [v] supplied as plain input under key [c] (an existing key is overwritten) *)
Definition bind_doc (d : row) (c : string) (v : value) : row := obj_set c v d.

(* the same SELECT without its WITH clause / reading from another source *)
Definition set_with (s : select stmt) (w : list (string * stmt)) : select stmt :=
  {| s_with := w; s_from := s_from s; s_where := s_where s; s_group := s_group s;
     s_having := s_having s; s_items := s_items s; s_distinct := s_distinct s;
     s_order := s_order s; s_limit := s_limit s; s_offset := s_offset s |}.
Definition clear_with (s : select stmt) : select stmt := set_with s [].
Definition set_from (s : select stmt) (f : from_clause stmt) : select stmt :=
  {| s_with := s_with s; s_from := f; s_where := s_where s; s_group := s_group s;
     s_having := s_having s; s_items := s_items s; s_distinct := s_distinct s;
     s_order := s_order s; s_limit := s_limit s; s_offset := s_offset s |}.

(* two SELECTs with the same clauses apart from WITH and FROM *)
Definition same_pipeline (s s' : select stmt) : Prop :=
  s_where s = s_where s' /\ s_group s = s_group s' /\ s_having s = s_having s' /\
  s_items s = s_items s' /\ s_distinct s = s_distinct s' /\ s_order s = s_order s' /\
  s_limit s = s_limit s' /\ s_offset s = s_offset s'.

Section Stage.
  Variable call : string -> string -> list value -> row -> res raw.
  Variable join : jointype -> jstrategy -> list value -> list value -> string -> string ->
                  expr stmt -> row -> res (list value).

  (* fuel-free reading: the job evaluates to [r] (an outcome other than "undefined") *)
  Definition evals (ctx : qctx) (j : job) (r : res value) : Prop :=
    r <> OutOfModel /\ exists n, exec call join n ctx j = r.

  (* materialise, then query: the inner statement is run standalone on [d]; its result is bound to
     [c] in the document; the outer SELECT (without its WITH) is run standalone on that document.
     [n] is the fuel of the inner run; the outer run has one unit more, as in the composed query *)
  Definition stage (n : nat) (c : string) (inner : stmt) (outer : select stmt) (d : row) : res value :=
    let! v := exec call join n (plain d) (JStmt inner) in
    exec call join (S n) (plain (bind_doc d c v)) (JStmt (SSelect (clear_with outer))).

  (* the documents of a CTE chain, stage by stage: each body is run standalone on the document that
     already holds the results of the earlier bodies *)
  Inductive staged_chain : row -> list (string * stmt) -> row -> Prop :=
  | sc_nil d : staged_chain d [] d
  | sc_cons d c q rows w d' :
      evals (plain d) (JStmt q) (Ok (VArr rows)) ->
      staged_chain (bind_doc d c (VArr rows)) w d' ->
      staged_chain d ((c, q) :: w) d'.
End Stage.

(* ------------------------------------------------------------------ *)
(* scope: the filter / projection / aggregate / order grammar          *)
(* ------------------------------------------------------------------ *)

(* a column path that does not navigate back to the enclosing document *)
Definition blind_path (p : list string) : bool :=
  match p with [] => false | k :: _ => negb (String.eqb k "<-") end.

(* expressions of the filter/projection/aggregate grammar: columns of the current row, literals,
   boolean connectives, comparisons, LIKE, IN (list), BETWEEN, IS, arithmetic, CASE, aggregates, value tuples —
   no subquery, no function call, no `<-` *)
Fixpoint blind_expr {Q} (e : expr Q) : bool :=
  match e with
  | ECol p => blind_path p
  | ENum _ | EStr _ | EBool _ | ENull | EAgg _ _ => true
  | EAnd a b | EOr a b | ECmp _ a b | ELike _ a b | EBin _ a b => blind_expr a && blind_expr b
  | ENot a | EIs _ a | EUn _ a => blind_expr a
  | EIn _ a items => blind_expr a && forallb blind_expr items
  | EBetween _ a lo hi => blind_expr a && blind_expr lo && blind_expr hi
  | ECase whens els =>
      forallb (fun w => blind_expr (fst w) && blind_expr (snd w)) whens &&
      match els with Some x => blind_expr x | None => true end
  | ETuple items => forallb blind_expr items
  | EInSub _ _ _ | ESub _ | EExists _ | ECall _ _ _ => false
  end.

Definition blind_opt {Q} (o : option (expr Q)) : bool :=
  match o with Some e => blind_expr e | None => true end.
Definition blind_item {Q} (it : sel_item Q) : bool :=
  match it with IStar => true | IExpr e _ => blind_expr e end.

(* WHERE, HAVING and the select list are in the grammar; GROUP BY, DISTINCT, ORDER BY, LIMIT and
   OFFSET are unrestricted *)
Definition blind_select (s : select stmt) : bool :=
  blind_opt (s_where s) && blind_opt (s_having s) && forallb blind_item (s_items s).

(* one stage of a pipeline: a SELECT of that grammar, without its own WITH, over one table path *)
Definition stage_head (q : stmt) : option string :=
  match q with
  | SSelect s =>
      match s_with s, s_from s with
      | [], FTable (k :: _) _ => if blind_select s then Some k else None
      | _, _ => None
      end
  | _ => None
  end.

Definition mem_str (k : string) (l : list string) : bool := existsb (String.eqb k) l.

Fixpoint nodup_str (l : list string) : bool :=
  match l with [] => true | k :: r => negb (mem_str k r) && nodup_str r end.

(* ---- what a row-scoped subquery can reach behind `<-` ----

   A subquery's data is the scope copy of the current row; its `<-` key is the enclosing query's
   data map, which still holds that query's CTE thunks.  So `FROM `<-`.c` inside a subquery reads
   the CTE c of the enclosing query, `<-`.`<-`.c the one two queries up, and so on.

   [ups_avoid names p]: the steps of [p] up to and including the first one that is not `<-` are not
   in [names] — read in the data maps of the enclosing queries, [p] cannot stop at a thunk named in
   [names] (the test does not count the `<-` steps: it is the same at every nesting depth). *)
Fixpoint ups_avoid (names : list string) (p : list string) : bool :=
  match p with
  | [] => true
  | k :: r => negb (existsb (String.eqb k) names) && (if String.eqb k "<-" then ups_avoid names r else true)
  end.

(* a table path: constrained only when it navigates back *)
Definition path_hides (names : list string) (p : list string) : bool :=
  match p with
  | k :: r => if String.eqb k "<-" then ups_avoid names r else true
  | [] => true
  end.

Section Hides.
  Variable Q : Type.
  Variable deep : Q -> bool.            (* nested statements: CTE bodies, derived tables, subqueries *)
  Variable names : list string.

  Fixpoint expr_hides (e : expr Q) : bool :=
    match e with
    | ECol _ | ENum _ | EStr _ | EBool _ | ENull | EAgg _ _ => true
    | EAnd a b | EOr a b | ECmp _ a b | ELike _ a b | EBin _ a b => expr_hides a && expr_hides b
    | ENot a | EIs _ a | EUn _ a => expr_hides a
    | EIn _ a items =>
        expr_hides a &&
        (fix go (l : list (expr Q)) : bool :=
           match l with [] => true | x :: r => expr_hides x && go r end) items
    | EInSub _ a q => expr_hides a && deep q
    | EBetween _ a lo hi => expr_hides a && expr_hides lo && expr_hides hi
    | ECase whens els =>
        (fix go (ws : list (expr Q * expr Q)) : bool :=
           match ws with [] => true | (c, v) :: r => expr_hides c && expr_hides v && go r end) whens
        && match els with None => true | Some x => expr_hides x end
    | ESub q => deep q
    | EExists q => deep q
    | ECall _ _ args =>
        (fix go (l : list (expr Q)) : bool :=
           match l with [] => true | x :: r => expr_hides x && go r end) args
    | ETuple items =>
        (fix go (l : list (expr Q)) : bool :=
           match l with [] => true | x :: r => expr_hides x && go r end) items
    end.

  Definition opt_hides (o : option (expr Q)) : bool :=
    match o with Some e => expr_hides e | None => true end.
  Definition item_hides (it : sel_item Q) : bool :=
    match it with IStar => true | IExpr e _ => expr_hides e end.

  (* the ON expression of a join is evaluated without subqueries: unconstrained *)
  Fixpoint from_hides (f : from_clause Q) : bool :=
    match f with
    | FDual => true
    | FTable p _ => path_hides names p
    | FTableFn _ p _ => path_hides names p
    | FSel _ _ => false              (* a selector as table name: outside this fragment *)
    | FDerived q _ => deep q
    | FJoin _ _ l r _ => from_hides l && from_hides r
    end.

  (* WHERE, HAVING and the select list *)
  Definition pipeline_hides (s : select Q) : bool :=
    opt_hides (s_where s) && opt_hides (s_having s) && forallb item_hides (s_items s).

  Definition select_hides (s : select Q) : bool :=
    (fix go (l : list (string * Q)) : bool :=
       match l with [] => true | (_, b) :: r => deep b && go r end) (s_with s)
    && from_hides (s_from s) && pipeline_hides s.
End Hides.
Arguments expr_hides {Q}. Arguments opt_hides {Q}. Arguments item_hides {Q}. Arguments from_hides {Q}.
Arguments pipeline_hides {Q}. Arguments select_hides {Q}.

(* a statement nested (at any depth) inside a row-scoped subquery of the query that registered the
   CTEs [names]: none of its table paths reaches one of them through `<-` *)
Fixpoint hides (names : list string) (q : stmt) {struct q} : bool :=
  match q with
  | SSelect s => select_hides (hides names) names s
  | SUnion _ l r _ _ => hides names l && hides names r
  end.

(* an inner statement that cannot see the CTEs named [names]: SELECTs without their own WITH (and
   UNIONs of such) whose tables (joins included) do not start with one of the names and are not
   derived tables, and whose row-scoped subqueries (WHERE, HAVING, select list; at any depth) do not
   reach one of the names through `<-`.
   (The last clause is new: before the thunks of the enclosing query became visible behind `<-`,
   subqueries never saw CTEs and were unrestricted.) *)
Fixpoint from_avoids (names : list string) (f : from_clause stmt) : bool :=
  match f with
  | FDual | FTableFn _ _ _ => true
  | FTable [] _ => true
  | FTable (k :: _) _ => negb (mem_str k names)
  | FSel _ _ => false                (* a selector as table name: outside this fragment *)
  | FDerived _ _ => false
  | FJoin _ _ l r _ => from_avoids names l && from_avoids names r
  end.

Fixpoint avoids (names : list string) (q : stmt) : bool :=
  match q with
  | SSelect s =>
      match s_with s with
      | [] => from_avoids names (s_from s) && pipeline_hides (hides names) s
      | _ => false
      end
  | SUnion _ l r _ _ => avoids names l && avoids names r
  end.

(* a CTE chain: every body is a stage whose table is an earlier CTE or a document key that is not a
   CTE name (so it does not read itself or a later CTE); the names are distinct *)
Fixpoint chain_scoped (w : list (string * stmt)) : bool :=
  match w with
  | [] => true
  | (c, q) :: r =>
      match stage_head q with
      | Some k => negb (mem_str k (c :: map fst r))
      | None => false
      end && chain_scoped r
  end.

Definition chain_ok (w : list (string * stmt)) : bool :=
  nodup_str (map fst w) && chain_scoped w.

(* ------------------------------------------------------------------ *)
(* fuel that is enough                                                 *)
(* ------------------------------------------------------------------ *)

(* how deep arrays are nested directly inside arrays (objects are leaves: rows) *)
Fixpoint adepth (v : value) : nat :=
  match v with
  | VArr l => S ((fix go (l : list value) : nat :=
                    match l with [] => O | x :: r => Nat.max (adepth x) (go r) end) l)
  | _ => O
  end.

(* the nesting depth of a list of source rows: 0 for a table proper *)
Definition rdepth (rows : list value) : nat := fold_right (fun x acc => Nat.max (adepth x) acc) O rows.

(* ------------------------------------------------------------------ *)
(* EXISTS over a nested array; IN over a subquery                      *)
(* ------------------------------------------------------------------ *)

(* [pred] is the predicate p as a function of the row it is evaluated on; [outer] is the current
   outer row (with its `<-` back reference).  Each element must be an object; p sees the element's
   columns together with the outer row's — on a name clash the OUTER row's value is the one p sees
   ([obj_merge elem outer] copies the outer row over the element).  A panic while p is evaluated
   is recovered by the engine and reported as an error. *)
Definition exists_sem (pred : row -> res bool) (outer : row) (elems : list value) : res bool :=
  let! merged := mapM (fun e => match e with VObj kv => Ok (obj_merge kv outer) | _ => Err end) elems in
  catch_panic (let! bs := mapM pred merged in Ok (existsb (fun b => b) bs)).

(* the subquery of EXISTS: no GROUP BY, DISTINCT, ORDER BY, LIMIT or OFFSET, and a select list that
   is not made of aggregates only (an aggregate-only list yields one row whatever p says) *)
Definition exists_shape (s : select stmt) : Prop :=
  s_group s = [] /\ s_distinct s = false /\ s_order s = [] /\ s_limit s = None /\
  s_offset s = None /\ all_aggregate (s_items s) = false.

(* the value a subquery row contributes to IN: its single column *)
Definition sub_column (r : value) : res value :=
  match r with
  | VObj ((_, v) :: nil) => Ok v
  | VObj _ => OutOfModel
  | v => Ok v
  end.

(* membership: some candidate compares equal to the probe *)
Definition member_sem (probe : value) (cols : list value) : bool :=
  existsb (fun c => match vcompare probe c with Ok 0%Z => true | _ => false end) cols.

(* ------------------------------------------------------------------ *)
(* recursive CTEs                                                      *)
(* ------------------------------------------------------------------ *)

(* reading table [k] while the CTEs in [busy] are being evaluated runs into one of them after
   [depth] further CTE bodies: k is itself in progress, or its body reads a table that does *)
Inductive reads_cycle (ctes : list (string * stmt)) : list string -> string -> nat -> Prop :=
| rc_here busy k body :
    cte_lookup k ctes = Some body -> mem_str k busy = true -> reads_cycle ctes busy k 0
| rc_step busy k s k' rest alias depth :
    cte_lookup k ctes = Some (SSelect s) -> mem_str k busy = false ->
    s_with s = [] -> s_from s = FTable (k' :: rest) alias ->
    reads_cycle ctes (k :: busy) k' depth ->
    reads_cycle ctes busy k (S depth).
