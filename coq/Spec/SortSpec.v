(* Spec/SortSpec.v — what ORDER BY must produce (property C05), written from the property text:
   "the output is a permutation of the unordered result in which every adjacent pair respects the
   key list lexicographically with each key's ASC/DESC direction; rows whose (single) sort key is
   NULL come after all rows whose key is non-NULL, in either direction".
   Key extraction is [reader] (a column path read from a row) and the order of two key values is
   [vcompare] (compare.Compare, the subject of property C15); nothing here refers to the
   comparator [order_less] or to the sorting algorithm of the model. *)
From Coq Require Import Floats Sorting.Permutation.
From GenqlV Require Import Base.Prelude Base.Value Model.Eval.
Local Open Scope Z_scope.

Definition sort_key := (list string * bool)%type.     (* column path, ASC? *)

Definition is_null (v : value) : bool := match v with VNull => true | _ => false end.

(* ------------------------------------------------------------------ *)
(* strict weak orders, for comparators that may fail                    *)
(* ------------------------------------------------------------------ *)

(* the comparator returns a verdict (no error, no panic) on the elements at hand *)
Definition total_on (D : value -> Prop) (less : value -> value -> res bool) : Prop :=
  forall a b, D a -> D b -> exists r, less a b = Ok r.

Definition lt_of (less : value -> value -> res bool) (a b : value) : Prop := less a b = Ok true.

Record strict_weak_order (D : value -> Prop) (lt : value -> value -> Prop) : Prop := {
  swo_irrefl : forall a, D a -> ~ lt a a;
  swo_trans : forall a b c, D a -> D b -> D c -> lt a b -> lt b c -> lt a c;
  (* "a and b are tied" (neither is before the other) is transitive *)
  swo_incomp_trans : forall a b c, D a -> D b -> D c ->
      ~ lt a b -> ~ lt b a -> ~ lt b c -> ~ lt c b -> ~ lt a c /\ ~ lt c a
}.

(* ------------------------------------------------------------------ *)
(* the contract of sort.Slice                                            *)
(* ------------------------------------------------------------------ *)

(* no adjacent pair is out of order: the later element is never strictly before the earlier one *)
Definition adjacent_ok (less : value -> value -> res bool) (out : list value) : Prop :=
  forall i a b, nth_error out i = Some a -> nth_error out (S i) = Some b -> less b a = Ok false.

Definition sorted_perm (less : value -> value -> res bool) (input output : list value) : Prop :=
  Permutation input output /\ adjacent_ok less output.

(* ------------------------------------------------------------------ *)
(* the scope: every key is readable on every row, and each key column   *)
(* is ordered coherently by vcompare                                     *)
(* ------------------------------------------------------------------ *)

Definition key_readable (D : value -> Prop) (keys : list sort_key) : Prop :=
  forall r k asc, D r -> In (k, asc) keys -> exists v, reader k r = Ok v.

(* the non-NULL values found under key k *)
Definition key_vals (D : value -> Prop) (k : list string) (v : value) : Prop :=
  v <> VNull /\ exists r, D r /\ reader k r = Ok v.

(* vcompare is a three-way total preorder on a set of values *)
Record cmp_laws (V : value -> Prop) : Prop := {
  cl_total : forall x y, V x -> V y -> exists c, vcompare x y = Ok c;
  cl_refl : forall x, V x -> vcompare x x = Ok 0;
  cl_antisym : forall x y c, V x -> V y -> vcompare x y = Ok c -> vcompare y x = Ok (- c);
  cl_trans : forall x y z c1 c2 c3, V x -> V y -> V z ->
      vcompare x y = Ok c1 -> vcompare y z = Ok c2 -> vcompare x z = Ok c3 ->
      c1 <= 0 -> c2 <= 0 -> c3 <= 0
}.

Definition keys_ordered (D : value -> Prop) (keys : list sort_key) : Prop :=
  forall k asc, In (k, asc) keys -> cmp_laws (key_vals D k).

Definition sort_scope (D : value -> Prop) (keys : list sort_key) : Prop :=
  key_readable D keys /\ keys_ordered D keys.

(* --- a sufficient condition in the words of the property: each key column holds values of one
   scalar kind (plus NULLs); for numbers the order laws of float64 comparison are a premise ---- *)

(* fcmp is a total preorder on a set of doubles (true of every set of non-NaN doubles) *)
Record NumLaws (F : float -> Prop) : Prop := {
  nl_refl : forall x, F x -> fcmp x x = 0;
  nl_antisym : forall x y, F x -> F y -> fcmp x y = - fcmp y x;
  nl_trans : forall x y z, F x -> F y -> F z -> fcmp x y <= 0 -> fcmp y z <= 0 -> fcmp x z <= 0
}.

Definition one_kind (V : value -> Prop) : Prop :=
  (forall v, V v -> exists s, v = VStr s) \/
  (forall v, V v -> exists b, v = VBool b) \/
  ((forall v, V v -> exists f, v = VNum f) /\ NumLaws (fun f => V (VNum f))).

Definition one_kind_keys (D : value -> Prop) (keys : list sort_key) : Prop :=
  key_readable D keys /\ forall k asc, In (k, asc) keys -> one_kind (key_vals D k).

(* --- the same as a boolean check on a concrete table (the order laws of the numbers that occur
   are checked by computation, so no premise is left) ---------------------------------------- *)

Definition is_str (v : value) : bool := match v with VStr _ => true | _ => false end.
Definition is_boolv (v : value) : bool := match v with VBool _ => true | _ => false end.
Definition is_numv (v : value) : bool := match v with VNum _ => true | _ => false end.
Definition nums (l : list value) : list float :=
  flat_map (fun v => match v with VNum f => [f] | _ => [] end) l.

Definition fcmp_laws_b (l : list float) : bool :=
  forallb (fun x =>
    (fcmp x x =? 0) &&
    forallb (fun y =>
      (fcmp x y =? - fcmp y x) &&
      forallb (fun z => implb ((fcmp x y <=? 0) && (fcmp y z <=? 0)) (fcmp x z <=? 0)) l) l) l.

Definition column_ok_b (vals : list value) : bool :=
  let nn := filter (fun v => negb (is_null v)) vals in
  forallb is_str nn || forallb is_boolv nn || (forallb is_numv nn && fcmp_laws_b (nums nn)).

Definition sort_scope_b (rows : list value) (keys : list sort_key) : bool :=
  forallb (fun ka => match mapM (reader (fst ka)) rows with
                     | Ok vals => column_ok_b vals
                     | _ => false
                     end) keys.

(* ------------------------------------------------------------------ *)
(* the order of the property text                                       *)
(* ------------------------------------------------------------------ *)

(* a three-way result seen in the key's direction: negative = "comes first" *)
Definition dir_cmp (asc : bool) (c : Z) : Z := if asc then c else - c.

(* "row a may stand before row b": on the first key a is strictly first in that key's direction, or
   the two are tied there and the remaining keys decide.  NULL is last in either direction; two
   NULLs are tied. *)
Fixpoint lex_le (keys : list sort_key) (a b : value) : Prop :=
  match keys with
  | [] => True
  | (k, asc) :: rest =>
      exists x y, reader k a = Ok x /\ reader k b = Ok y /\
        if is_null x then (if is_null y then lex_le rest a b else False)
        else if is_null y then True
        else exists c, vcompare x y = Ok c /\ (dir_cmp asc c < 0 \/ (c = 0 /\ lex_le rest a b))
  end.

(* the order the engine actually guarantees for EVERY key list: as above, except that two rows that
   are both NULL on a key are not ordered any further by the keys after it *)
Fixpoint lex_le_nullstop (keys : list sort_key) (a b : value) : Prop :=
  match keys with
  | [] => True
  | (k, asc) :: rest =>
      exists x y, reader k a = Ok x /\ reader k b = Ok y /\
        if is_null x then (if is_null y then True else False)
        else if is_null y then True
        else exists c, vcompare x y = Ok c /\ (dir_cmp asc c < 0 \/ (c = 0 /\ lex_le_nullstop rest a b))
  end.

(* NULLs occur in the last key column only (covers: any single key; k keys without NULLs; k keys
   with NULLs in the least significant one).  On such tables the two orders coincide. *)
Fixpoint nulls_only_in_last_key (D : value -> Prop) (keys : list sort_key) : Prop :=
  match keys with
  | [] => True
  | (k, _) :: rest =>
      match rest with
      | [] => True
      | _ => (forall r, D r -> reader k r <> Ok VNull) /\ nulls_only_in_last_key D rest
      end
  end.

Fixpoint nulls_only_in_last_key_b (rows : list value) (keys : list sort_key) : bool :=
  match keys with
  | [] => true
  | (k, _) :: rest =>
      match rest with
      | [] => true
      | _ => forallb (fun r => match reader k r with Ok VNull => false | _ => true end) rows
             && nulls_only_in_last_key_b rows rest
      end
  end.
