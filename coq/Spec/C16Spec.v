(* Spec/C16Spec.v — what property C16 says, written against the CONSUMER's lexer
   (Model/MySqlString.v); nothing here mentions the sanitizer's state machine (only its data types
   [part] and [arg] and the argument formatter, in the last section).

   - [wf_template]: "templates with placeholders in literal positions".  A local condition on the
     MySQL tokenizer's run over the template, one clause per way a template can be lexically
     ill-formed for the consumer or can glue a placeholder to a neighbouring token.
   - [expected_tokens] / [shape_ok]: the token stream of the sanitized text must be the token
     stream of the template with every placeholder token replaced by literal token(s) denoting
     the argument.
   - [expect_error]: $0, a missing argument, an unused argument, an unsupported argument. *)
From Coq Require Import SpecFloat.
From GenqlV Require Import Base.Prelude Base.Fmt Model.MySqlString Model.Sanitizer.
Local Open Scope string_scope.
Local Open Scope bool_scope.

(* ---------------------------------------------------------------- well-formed templates *)

(* a placeholder candidate: '$' followed by a digit *)
Definition ph_here (c : ascii) (rest : bytes) : bool := is c "$" && nxt_sat rest is_digit.

Fixpoint skip_digits (s : bytes) : bytes :=
  match s with
  | String c r => if is_digit c then skip_digits r else s
  | EmptyString => s
  end.
Fixpoint count_digits (s : bytes) : nat :=
  match s with
  | String c r => if is_digit c then S (count_digits r) else O
  | EmptyString => O
  end.

(* the byte before a placeholder must not be one that fuses with the literal written in its place:
   '.' (".5"), a closing quote ("'a''b'") *)
Definition prev_ok (prev : option ascii) : bool :=
  match prev with
  | None => true
  | Some p => negb (is p "." || is p c_sq || is p c_dq)
  end.
(* ... nor the byte after it: a letter, '$', '_' (word), '.' (number), a single quote (string) *)
Definition follow_ok (rest : bytes) : bool :=
  match skip_digits rest with
  | EmptyString => true
  | String f _ => negb (is_letter f || is f "." || is f c_sq)
  end.

Definition wf_at (prev : option ascii) (m : mstate) (c : ascii) (rest : bytes) : bool :=
  (* W1: "$digits" occurs either at a token boundary proper (not glued to its neighbours, at most
         18 digits so that the number fits a Go int) or inside a string / quoted identifier /
         comment -- never inside a word (a$1, 12$1, @$1, :$1) *)
  (if ph_here c rest then
     match mlabel m c rest with
     | InWord => false
     | Default =>
         match m with MDef => true | _ => false end && prev_ok prev && follow_ok rest
         && Nat.leb (count_digits rest) 18
     | _ => true
     end
   else true)
  (* W2: '@' / '@@' is followed by a backtick identifier or a plain word byte *)
  && match m with
     | MAt => is c "@" || is c c_bt || is_letter c || is_digit c
     | MAtAt => is c c_bt || is_letter c || is_digit c
     | _ => true
     end
  (* W3: no quote characters glued into an @variable name (the tokenizer would swallow them) *)
  && match m with MAtVar => negb (is c c_sq || is c c_dq || is c c_bt) | _ => true end
  (* W4: the sign of a float exponent is followed by a digit *)
  && match m with
     | MNExpMark => if is c "+" || is c "-" then nxt_sat rest is_digit else true
     | _ => true
     end
  (* W5: x'..' and b'..' literals are well-formed and not directly followed by another quote *)
  && match m with
     | MHexLit | MBitLit =>
         match mcont m c rest with
         | None => false
         | Some _ => negb (is c c_sq && nxt_is rest c_sq)
         end
     | _ => true
     end
  (* W6: no empty backtick identifier *)
  && match m with MBT0 => match mcont m c rest with None => false | Some _ => true end | _ => true end.

Fixpoint wf_from (prev : option ascii) (m : mstate) (s : bytes) : bool :=
  match s with
  | EmptyString => true
  | String c rest => wf_at prev m c rest && wf_from (Some c) (mstep m c rest) rest
  end.

Definition wf_templateb (t : bytes) : bool := wf_from None MDef t.
Definition wf_template (t : bytes) : Prop := wf_templateb t = true.

(* ---------------------------------------------------------------- arguments (spec side) *)

Inductive sarg :=
| SNull | SInt (z : Z) | SFloatText (neg : bool) (txt : bytes) | SBool (b : bool) | SStr (s : bytes).
(* a float is given to the token-level spec by its sign and the decimal text of its magnitude:
   which text denotes which double is strconv's business (an oracle), not the sanitizer's *)

(* token text of the form digits [ . digits ] *)
Fixpoint all_digits (s : bytes) : bool :=
  match s with EmptyString => true | String c r => is_digit c && all_digits r end.
Fixpoint num_body (s : bytes) : bool :=      (* digits+ [ . digits+ ] *)
  match s with
  | EmptyString => false
  | String c r =>
      is_digit c &&
      match r with
      | EmptyString => true
      | String d r' =>
          if is d "." then (match r' with EmptyString => false | _ => all_digits r' end)
          else num_body r
      end
  end.
Definition num_text (s : bytes) : bool :=
  match s with
  | String c r => if is c "-" then num_body r else num_body s
  | EmptyString => false
  end.

(* does the output token sequence [toks] start with literal token(s) denoting [a]?  returns the rest *)
Definition eat_literal (a : sarg) (toks : list bytes) : option (list bytes) :=
  match a, toks with
  | SNull, tk :: r => if String.eqb tk "null" then Some r else None
  | SBool b, tk :: r => if String.eqb tk (if b then "true" else "false") then Some r else None
  | SStr s, tk :: r =>
      match mysql_scan_string tk with
      | Some (v, EmptyString) => if String.eqb v s then Some r else None
      | _ => None
      end
  | SInt z, tk :: r =>
      if (z <? 0)%Z then
        match r with
        | tk2 :: r2 => if String.eqb tk "-" && String.eqb tk2 (Z_to_dec (- z)) then Some r2 else None
        | [] => None
        end
      else if String.eqb tk (Z_to_dec z) then Some r else None
  | SFloatText neg txt, tk :: r =>
      if neg then
        match r with
        | tk2 :: r2 => if String.eqb tk "-" && String.eqb tk2 txt && num_body txt then Some r2 else None
        | [] => None
        end
      else if String.eqb tk txt && num_body txt then Some r else None
  | _, [] => None
  end.

(* "$digits" token -> its number *)
Fixpoint dec_value (s : bytes) (acc : Z) : Z :=
  match s with
  | EmptyString => acc
  | String c r => dec_value r (acc * 10 + (Z.of_N (code c) - 48))%Z
  end.
Definition ph_token (tk : bytes) : option Z :=
  match tk with
  | String c r => if is c "$" && negb (String.eqb r "") && all_digits r then Some (dec_value r 0%Z) else None
  | EmptyString => None
  end.

(* walk the template's tokens and the output's tokens side by side *)
Fixpoint shape_walk (ttoks otoks : list bytes) (args : list sarg) : bool :=
  match ttoks with
  | [] => match otoks with [] => true | _ => false end
  | tk :: tr =>
      match ph_token tk with
      | Some n =>
          match nth_error args (Z.to_nat (n - 1)) with
          | Some a =>
              match eat_literal a otoks with
              | Some orest => shape_walk tr orest args
              | None => false
              end
          | None => false
          end
      | None =>
          match otoks with
          | ok :: orest => String.eqb tk ok && shape_walk tr orest args
          | [] => false
          end
      end
  end.

(* the property's "same statement shape ... each placeholder replaced by a single literal [that]
   evaluates to exactly the argument", at the level of the consumer's token stream *)
Definition shape_ok (t : bytes) (args : list sarg) (out : bytes) : bool :=
  shape_walk (mysql_tokens t) (mysql_tokens out) args.

(* placeholders of a (well-formed) template as the consumer sees them: the "$digits" tokens *)
Definition placeholders (t : bytes) : list Z :=
  flat_map (fun tk => match ph_token tk with Some n => [n] | None => [] end) (mysql_tokens t).

(* $0 / missing argument / unused argument (unsupported arguments are added by the caller) *)
Definition expect_error (t : bytes) (nargs : nat) : bool :=
  let phs := placeholders t in
  existsb (fun n => (n <=? 0)%Z || (Z.of_nat nargs <? n)%Z) phs
  || negb (forallb (fun i => existsb (fun n => (n =? Z.of_nat (S i))%Z) phs) (seq 0 nargs)).

(* ---------------------------------------------------------------- placeholder positions (consumer side) *)

Fixpoint drop (n : nat) (s : bytes) : bytes :=
  match n, s with
  | O, _ => s
  | S k, String _ r => drop k r
  | S _, EmptyString => EmptyString
  end.

(* the text reads "$digit" at offset o *)
Definition ph_at (t : bytes) (o : nat) : bool :=
  match drop o t with String c rest => ph_here c rest | EmptyString => false end.

(* offsets at which the consumer's tokenizer is in Default mode and the text reads "$digit" *)
Fixpoint default_ph_from (m : mstate) (t : bytes) (o : nat) : list nat :=
  match t with
  | EmptyString => []
  | String c rest =>
      let tl := default_ph_from (mstep m c rest) rest (S o) in
      if match mlabel m c rest with Default => true | _ => false end && ph_here c rest then o :: tl else tl
  end.
Definition mysql_placeholder_offsets (t : bytes) : list nat := default_ph_from MDef t 0.

(* ---------------------------------------------------------------- one literal, one token *)

(* the bytes that may follow a literal without fusing with it *)
Definition lit_follow_ok (rest : bytes) : bool :=
  match rest with
  | EmptyString => true
  | String f _ => negb (is_letter f || is_digit f || is f "." || is f c_sq)
  end.

Fixpoint repeat_mode (l : mode) (n : nat) : list mode :=
  match n with O => [] | S k => l :: repeat_mode l k end.

(* modes of a literal: one token; a leading minus sign is a token of its own *)
Definition lit_modes (inner : mode) (s : bytes) : list mode :=
  match s with
  | EmptyString => []
  | String c r =>
      if is c "-" then Default :: match r with EmptyString => [] | String _ r' => Default :: repeat_mode inner (String.length r') end
      else Default :: repeat_mode inner (String.length r)
  end.


Definition inner_mode (a : arg) : mode := match a with AStr _ => InStr c_sq | _ => InWord end.


(* what Sanitize returns when it succeeds is the parts with every placeholder replaced by fmt_arg
   of its argument *)
Fixpoint render (parts : list part) (args : list arg) : option bytes :=
  match parts with
  | [] => Some EmptyString
  | PRaw s :: ps => match render ps args with Some r => Some (s ++ r) | None => None end
  | PArg n :: ps =>
      match nth_error args (Z.to_nat (wrap64 (n - 1))), render ps args with
      | Some a, Some r => match fmt_arg a with Ok txt => Some (txt ++ r) | _ => None end
      | _, _ => None
      end
  end.

